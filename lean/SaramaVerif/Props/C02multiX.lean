/-
  C02 composition, stage C: the run-level theorems after the lift of the visible per-partition `deliver`.
    * `DeliverVisConnProj M p` - (a named Prop; PROVED in Props/C02multiC2.lean, `deliverVisConnProj_holds`): the `deliver` step of a
      CONNECTION-ERROR answer (`.conn a`) for a set that holds something of `p`.
    * `deliverVisProj_of_conn : DeliverVisConnProj M p → DeliverVisProj M p` - PROVED (`.parts` answers:
      `proj_deliver_visible_parts_p`).  Hence `DeliverProj`, `ProjSim_partial'`, `log_order_every_partition_partial'`
      follow from `DeliverVisConnProj` (`ProjSim_partial''`, `log_order_every_partition_partial''`).
    * `projOKp` - `projOK` + every `deliver` has a per-partition answer (`delOKp`: the answer is not a connection error,
      and the set holds something of `p` or no message of `p` is held); `ProjSim_parts` and
      `log_order_every_partition_parts` - UNCONDITIONAL (no open hypothesis) under `projOKp`.  `exTwo` satisfies
      `projOKp` for both partitions.
-/
import SaramaVerif.Props.C02multiL

set_option linter.unusedSimpArgs false
set_option linter.unusedVariables false

namespace Props.C02sys
open Model Model.Pipeline Model.PipelineN Model.BrokerProd Lemmas.C02sys

/-- **the projection of the `deliver` step of a connection-error answer for a set that holds something of `p`**
    (a named Prop; proved in Props/C02multiC2.lean) -/
def DeliverVisConnProj (M : Nat) (p : Int) : Prop :=
  ∀ (sN sN' : SysN) (s : Sys) (w : Nat) (st : Bool) (sent : List Pipeline.Tok) (rest : List (List Pipeline.Tok))
    (a : Bool) (base : Int → Nat),
    WRel (BRp p) p sN s → (sN.wk w).bp.sets = sent :: rest → projL p sent ≠ [] →
    (sN.wk w).pend = some (.conn a, base) → sysStepN M sN (.deliver w st) = some sN' →
    WRel (BRp p) p sN' s ∨ ∃ c' s', sysStep M s c' = some s' ∧ WRel (BRp p) p sN' s'

theorem deliverVisProj_of_conn {M : Nat} {p : Int} (hc : DeliverVisConnProj M p) : DeliverVisProj M p := by
  intro sN sN' s w st sent rest h hsets hne hs
  cases hpd : (sN.wk w).pend with
  | none => simp [sysStepN, hpd] at hs
  | some rb =>
    obtain ⟨r, base⟩ := rb
    cases r with
    | parts v =>
      obtain ⟨s', h1, h2⟩ := proj_deliver_visible_parts_p h hpd hsets hne hs
      exact Or.inr ⟨_, s', h1, h2⟩
    | conn a => exact hc sN sN' s w st sent rest a base h hsets hne hpd hs

theorem ProjSim_partial'' {M : Nat} {p : Int} (hc : DeliverVisConnProj M p) (cs : List ChoiceN) (sN : SysN)
    (hok : projOK M p {} cs = true) (hr : runN M {} cs = some sN) :
    ∃ (cs' : List Choice) (s : Sys), run M {} cs' = some s ∧ s.log = sN.log p ∧ s.succ = sN.succ p ∧
      s.errs = sN.errs p :=
  ProjSim_partial' (deliverVisProj_of_conn hc) cs sN hok hr

theorem log_order_every_partition_partial'' {M : Nat} (hM : 1 ≤ M) {p : Int} (hc : DeliverVisConnProj M p)
    (cs : List ChoiceN) (sN : SysN) (hok : projOK M p {} cs = true) (hr : runN M {} cs = some sN) :
    ∃ (cs' : List Choice) (s : Sys), run M {} cs' = some s ∧ s.log = sN.log p ∧ s.succ = sN.succ p ∧
      (splitOKs M cs' = true → LogOrderOf (sN.log p) (sN.succ p)) :=
  log_order_every_partition_partial' hM (deliverVisProj_of_conn hc) cs sN hok hr

/-! ### the unconditional form: every delivered answer is per-partition -/

/-- the deliver step is one of the PROVED cases: the answer is not a connection error, and the set holds something of
    `p` or no message of `p` is held -/
def delOKp (p : Int) (sN : SysN) (w : Nat) : Bool :=
  match (sN.wk w).bp.sets, (sN.wk w).pend with
  | sent :: _, some (r, _) => !isConn r && (!(projL p sent).isEmpty || (projWait p (sN.wk w).bp.wait).isNone)
  | _, _ => true

def projOKp (M : Nat) (p : Int) : SysN → List ChoiceN → Bool
  | _, [] => true
  | sN, c :: cs =>
    match sysStepN M sN c with
    | none => false
    | some sN' =>
      (match c with
        | .broker w r => brOK p sN w r
        | .deliver w _ => delOKp p sN w
        | _ => true) && projOKp M p sN' cs

theorem deliver_step_p {M : Nat} {p : Int} {sN sN' : SysN} {s : Sys} {w : Nat}
    {st : Bool} (h : WRel (BRp p) p sN s) (hd : delOKp p sN w = true)
    (hs : sysStepN M sN (.deliver w st) = some sN') :
    WRel (BRp p) p sN' s ∨ ∃ c' s', sysStep M s c' = some s' ∧ WRel (BRp p) p sN' s' := by
  cases hsets : (sN.wk w).bp.sets with
  | nil =>
    obtain ⟨_, _, _, _, hk0, _⟩ := h.br w
    simp [sysStepN, hk0 hsets] at hs
  | cons sent rest =>
    cases hpd : (sN.wk w).pend with
    | none => simp [sysStepN, hpd] at hs
    | some rb =>
      obtain ⟨r, base⟩ := rb
      simp only [delOKp, hsets, hpd, Bool.and_eq_true] at hd
      cases r with
      | conn a => simp [isConn] at hd
      | parts v =>
        by_cases he : projL p sent = []
        · have hd' : delOK p sN w = true := by
            simp only [delOK, hsets, hpd, Bool.or_eq_true, Bool.and_eq_true]
            refine Or.inr ⟨hd.1, ?_⟩
            have := hd.2
            simpa [he] using this
          exact proj_deliver_noneOfP_p h hd' hsets he hs
        · obtain ⟨s', h1, h2⟩ := proj_deliver_visible_parts_p h hpd hsets he hs
          exact Or.inr ⟨_, s', h1, h2⟩

/-- the induction along the run, no open hypothesis -/
theorem proj_run_p {M : Nat} {p : Int} (cs : List ChoiceN) :
    ∀ {sN sN' : SysN} {s : Sys} (pre : List Choice), WRel (BRp p) p sN s → run M {} pre = some s →
    projOKp M p sN cs = true → runN M sN cs = some sN' →
    ∃ cs' s', run M {} cs' = some s' ∧ WRel (BRp p) p sN' s' := by
  induction cs with
  | nil =>
    intro sN sN' s pre h hr _ hrn
    simp only [runN, Option.some.injEq] at hrn; subst hrn
    exact ⟨pre, s, hr, h⟩
  | cons c cs ih =>
    intro sN sN' s pre h hr hok hrn
    simp only [runN] at hrn
    cases hs : sysStepN M sN c with
    | none => simp [hs] at hrn
    | some sN1 =>
      simp only [hs] at hrn
      simp only [projOKp, hs, Bool.and_eq_true] at hok
      obtain ⟨hc, hok1⟩ := hok
      have hstep : WRel (BRp p) p sN1 s ∨ ∃ c' s', sysStep M s c' = some s' ∧ WRel (BRp p) p sN1 s' := by
        by_cases hd : ∃ w st, c = .deliver w st
        · obtain ⟨w, st, rfl⟩ := hd
          exact deliver_step_p h (by simpa using hc) hs
        · refine proj_step_partial h c (fun w st e => hd ⟨w, st, e⟩) ?_ hs
          intro w r e _
          subst e
          simp only [brOK, Bool.and_eq_true, beq_iff_eq, Bool.not_eq_true'] at hc
          refine ⟨hc.1, ?_⟩
          rw [h.q.ldr]
          simpa using hc.2
      rcases hstep with h1 | ⟨c', s', h1, h2⟩
      · exact ih pre h1 hr hok1 hrn
      · exact ih (pre ++ [c']) h2 (run_snoc M pre {} s s' c' hr h1) hok1 hrn

/-- **ProjSim for runs whose delivered answers are all per-partition** (unconditional): under the decidable `projOKp`,
    the projection of a run with several partitions on `p` is a run of the one-partition model with the log,
    successes and errors of `p` -/
theorem ProjSim_parts {M : Nat} {p : Int} (cs : List ChoiceN) (sN : SysN)
    (hok : projOKp M p {} cs = true) (hr : runN M {} cs = some sN) :
    ∃ (cs' : List Choice) (s : Sys), run M {} cs' = some s ∧ s.log = sN.log p ∧ s.succ = sN.succ p ∧
      s.errs = sN.errs p := by
  obtain ⟨cs', s', h1, h2⟩ := proj_run_p cs [] (wrel_init p) rfl hok hr
  exact ⟨cs', s', h1, h2.q.log, h2.q.succ, h2.q.errs⟩

/-- LogOrder for partition `p` of such a run, provided the exhibited one-partition run is inside the scope of
    `log_order_reselect` (`splitOKs`) -/
theorem log_order_every_partition_parts {M : Nat} (hM : 1 ≤ M) {p : Int}
    (cs : List ChoiceN) (sN : SysN) (hok : projOKp M p {} cs = true) (hr : runN M {} cs = some sN) :
    ∃ (cs' : List Choice) (s : Sys), run M {} cs' = some s ∧ s.log = sN.log p ∧ s.succ = sN.succ p ∧
      (splitOKs M cs' = true → LogOrderOf (sN.log p) (sN.succ p)) := by
  obtain ⟨cs', s, h1, h2, h3, _⟩ := ProjSim_parts cs sN hok hr
  refine ⟨cs', s, h1, h2, h3, fun hsp => ?_⟩
  have := log_order_reselect hM cs' hsp h1
  rw [logOrder_iff, h2, h3] at this
  exact this

/-! ### non-vacuity: `exTwo` (its first `deliver` answers a set with messages of both partitions) -/

example : projOKp 2 0 {} exTwo = true := by decide
example : projOKp 2 1 {} exTwo = true := by decide

example : ∃ (cs' : List Choice) (s : Sys), run 2 {} cs' = some s ∧ s.log = [0, 1] ∧ s.succ = [(0, 0), (1, 1)] := by
  cases hr : runN 2 {} exTwo with
  | none => exact absurd hr (by decide)
  | some sN =>
    obtain ⟨cs', s, h1, h2, h3, _⟩ := ProjSim_parts (M := 2) (p := 0) exTwo sN (by decide) hr
    have e : (runN 2 {} exTwo).map (fun s => (s.log 0, s.succ 0)) = some ([0, 1], [(0, 0), (1, 1)]) := by decide
    rw [hr] at e
    simp only [Option.map_some, Option.some.injEq, Prod.mk.injEq] at e
    exact ⟨cs', s, h1, by rw [h2, e.1], by rw [h3, e.2]⟩

/-- LogOrder for partition 1 of `exTwo`, with `splitOKs` of the exhibited run as the hypothesis -/
example : ∃ (cs' : List Choice), (splitOKs 2 cs' = true → ∀ sN, runN 2 {} exTwo = some sN →
    LogOrderOf (sN.log 1) (sN.succ 1)) := by
  cases hr : runN 2 {} exTwo with
  | none => exact absurd hr (by decide)
  | some sN =>
    obtain ⟨cs', s, _, _, _, h4⟩ := log_order_every_partition_parts (M := 2) (by decide) (p := 1) exTwo sN (by decide) hr
    exact ⟨cs', fun hsp sN' e => by cases e; exact h4 hsp⟩

end Props.C02sys
