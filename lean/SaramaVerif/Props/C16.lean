import SaramaVerif.Model.ProduceSet
import SaramaVerif.Lemmas.C16Sets
import SaramaVerif.Lemmas.C16Wire
/-
  C16 — produce requests respect the configured size and count limits, and flush on time.
  Property theorems (for ALL sequences of adds / drops / run-loop events) + non-vacuity examples.
-/
namespace Props.C16
open Model.ProduceSet Lemmas.C16

/-! ### which produce sets the broker producer can hold / hand over -/

/-- every way `brokerProducer` (run, waitForSpace, handleSuccess, retryBatch) makes or changes a produce set:
    a fresh set; the first message after a roll-over is added without a second overflow test; any further
    message only when `wouldOverflow` said no; a response may drop a partition; retryBatch wraps one
    partition set of a sent request. -/
inductive Grown (c : Conf) : State → Prop
  | empty : Grown c State.empty
  | first (now : Int) (m : Msg) : Grown c (add c State.empty now m)
  | step {s : State} (now : Int) (m : Msg) : Grown c s → wouldOverflow c s m = false → Grown c (add c s now m)
  | drop {s : State} (tp : Nat × Nat) : Grown c s → Grown c (dropPartition s tp)
  | ofPartition {s : State} {p : PSet} : Grown c s → p ∈ s.parts → Grown c (State.single p)

/-- what the overflow discipline buys, on top of `SInv` -/
structure GInv (c : Conf) (s : State) : Prop where
  count : c.maxMessages > 0 → s.bufferCount ≤ c.maxMessages
  part : ∀ p ∈ s.parts, 2 ≤ p.msgs.length → p.bufferBytes < c.maxMessageBytes
  total : 2 ≤ s.bufferCount →
    s.bufferBytes < c.maxRequestSize - safetyMargin + (if c.v2 = true then recordBatchOverhead else 0)

private theorem add_empty (c : Conf) (now : Int) (m : Msg) :
    add c State.empty now m = ⟨[newPSet c now m], addSize c true m, 1⟩ := by
  simp [add, addOk, State.empty, lookup, addTo]

private theorem not_overflow {c : Conf} {s : State} {m : Msg} (h : wouldOverflow c s m = false) :
    s.bufferBytes + byteSize (sizeVersion c) m < c.maxRequestSize - safetyMargin ∧
    (∀ p, lookup m.tp s.parts = some p → p.bufferBytes + byteSize (sizeVersion c) m < c.maxMessageBytes) ∧
    (c.maxMessages > 0 → s.bufferCount < c.maxMessages) := by
  unfold wouldOverflow at h
  by_cases h1 : s.bufferBytes + byteSize (sizeVersion c) m ≥ c.maxRequestSize - safetyMargin
  · simp [h1] at h
  · simp only [h1, ↓reduceIte] at h
    by_cases h3 : c.maxMessages > 0 ∧ s.bufferCount ≥ c.maxMessages
    · simp [h3] at h
    · simp only [h3, ↓reduceIte] at h
      refine ⟨by omega, ?_, by omega⟩
      intro p hp
      simp [partBytes, hp] at h
      omega

theorem grown_inv {c : Conf} {s : State} (h : Grown c s) : SInv c s ∧ GInv c s := by
  induction h with
  | empty =>
    refine ⟨sinv_empty c, ?_, ?_, ?_⟩
    · intro h; simp [State.empty]; omega
    · simp [State.empty]
    · simp [State.empty]
  | first now m =>
    refine ⟨sinv_add now m (sinv_empty c), ?_, ?_, ?_⟩
    · intro h; rw [add_empty]; simp only; omega
    · rw [add_empty]; intro p hp h2
      simp only [List.mem_singleton] at hp
      subst hp
      simp [newPSet] at h2
    · rw [add_empty]; simp
  | @step s now m hg hwo ih =>
    obtain ⟨hs, hgi⟩ := ih
    obtain ⟨h1, h2, h3⟩ := not_overflow hwo
    refine ⟨sinv_add now m hs, ?_⟩
    unfold add
    split
    · refine ⟨?_, ?_, ?_⟩
      · intro h; have := h3 h; simp only; omega
      · intro p' hp' hlen
        simp only at hp'
        rcases mem_addTo hp' with hm | ⟨_, hm⟩ | ⟨p, hl, hm⟩
        · exact hgi.part p' hm hlen
        · subst hm; simp [newPSet] at hlen
        · subst hm
          have := h2 p hl
          simp only [extend, addSize_eq]
          simp
          omega
      · intro _
        simp only [addSize_eq]
        unfold recordBatchOverhead
        split <;> split <;> simp_all <;> omega
    · exact hgi
  | @drop s tp hg ih =>
    obtain ⟨hs, hgi⟩ := ih
    refine ⟨sinv_drop tp hs, ?_⟩
    unfold dropPartition
    split
    · exact hgi
    · rename_i p hl
      have hp := lookup_some hl
      have hpos := (hs.parts p hp.1).bytes_pos
      refine ⟨?_, ?_, ?_⟩
      · intro h; have := hgi.count h; simp only; omega
      · intro q hq; exact hgi.part q (mem_removeTp hq)
      · intro h2; simp only at h2 ⊢
        have := hgi.total (by omega)
        omega
  | @ofPartition s p hg hp ih =>
    obtain ⟨hs, hgi⟩ := ih
    have hb := member_le_sums hs.parts hp
    refine ⟨sinv_single hs hp, ?_, ?_, ?_⟩
    · intro h; have := hgi.count h; have := hs.count; simp only [State.single]; omega
    · intro q hq
      simp only [State.single, List.mem_singleton] at hq
      subst hq; exact hgi.part q hp
    · intro h2
      simp only [State.single] at h2 ⊢
      have := hgi.total (by have := hs.count; omega)
      have := hs.bytes
      omega

/-- **count_limit**: no set the broker producer ever holds or hands over carries more messages than
    Flush.MaxMessages (when set). -/
theorem count_limit {c : Conf} {s : State} (h : Grown c s) (hm : c.maxMessages > 0) :
    s.bufferCount ≤ c.maxMessages := (grown_inv h).2.count hm

/-- **batch_bytes_limit**: a partition batch with at least two messages carries fewer key+value bytes than
    MaxMessageBytes (even with the per-message overhead estimate added). -/
theorem batch_bytes_limit {c : Conf} {s : State} (h : Grown c s) {p : PSet} (hp : p ∈ s.parts)
    (h2 : 2 ≤ p.msgs.length) :
    payload p.msgs + 26 * (p.msgs.length : Int) ≤ p.bufferBytes ∧ p.bufferBytes < c.maxMessageBytes := by
  obtain ⟨hs, hg⟩ := grown_inv h
  have := estimate_ge c p.msgs
  exact ⟨by rw [(hs.parts p hp).bytes]; exact this, hg.part p hp h2⟩

/-- … in the words of the property statement -/
theorem batch_payload_below_max {c : Conf} {s : State} (h : Grown c s) {p : PSet} (hp : p ∈ s.parts)
    (h2 : 2 ≤ p.msgs.length) : payload p.msgs < c.maxMessageBytes := by
  have := batch_bytes_limit h hp h2
  have : 0 ≤ (p.msgs.length : Int) := by omega
  omega

/-- a single-message batch is bounded by the dispatcher's check instead -/
theorem single_batch_bound (c : Conf) (hnn : Bool) (m : Msg) (h : dispatch c hnn m = .forward) :
    payload [m] + 26 ≤ c.maxMessageBytes := by
  unfold dispatch at h
  split at h
  · cases h
  · split at h
    · cases h
    · have := byteSize_ge (sizeVersion c) m
      simp only [payload]; omega

/-- **request estimate limit**: with two or more messages the running estimate of a set stays below
    MaxRequestSize − 10 KiB (+ the 49 bytes batch overhead that the overflow test does not count). -/
theorem request_estimate_limit {c : Conf} {s : State} (h : Grown c s) (h2 : 2 ≤ s.bufferCount) :
    s.bufferBytes < c.maxRequestSize - safetyMargin + (if c.v2 = true then recordBatchOverhead else 0) :=
  (grown_inv h).2.total h2

/-- **oversize_rejected**: the dispatcher forwards a message only if its size estimate (which is at least
    key+value+26) is within MaxMessageBytes; a message whose key+value bytes alone exceed the limit is
    answered with an error. -/
theorem oversize_rejected (c : Conf) (hnn : Bool) (m : Msg) :
    (dispatch c hnn m = .forward → byteSize (sizeVersion c) m ≤ c.maxMessageBytes) ∧
    (byteSize (sizeVersion c) m > c.maxMessageBytes → dispatch c hnn m ≠ .forward) ∧
    ((m.keyLen : Int) + (m.valLen : Int) > c.maxMessageBytes → dispatch c hnn m ≠ .forward) := by
  have hb := byteSize_ge (sizeVersion c) m
  unfold dispatch
  by_cases h1 : (!c.v2 && hnn) = true
  · simp [h1]
  · by_cases h2 : byteSize (sizeVersion c) m > c.maxMessageBytes
    · simp [h1, h2]
    · simp only [h1, h2, ↓reduceIte]
      refine ⟨fun _ => by omega, fun h => absurd h (by simp), fun h => by omega⟩

/-- the size error is exactly `byteSize > MaxMessageBytes` once the header check passed -/
theorem dispatch_table (c : Conf) (hnn : Bool) (m : Msg) :
    dispatch c hnn m =
      if c.v2 = false ∧ hnn = true then .errHeadersNeedV011
      else if byteSize (sizeVersion c) m > c.maxMessageBytes then .errMessageSizeTooLarge else .forward := by
  unfold dispatch
  cases c.v2 <;> cases hnn <;> simp

/-! ### size on the wire -/

private theorem topicsWire_nonneg (f : Nat → Nat) (s : State) : 0 ≤ topicsWire f s := by
  unfold topicsWire
  exact sumMap_nonneg _ _ (fun t _ => by omega)

/-- **request size margin**: the encoded size of an uncompressed request exceeds the running estimate by at
    most `slack`: request header and fixed fields, topic names, 8 bytes per partition, and what the estimate
    leaves out per batch (12 bytes of a record batch header) resp. per message (8 bytes timestamp of format 1). -/
theorem request_size_margin {c : Conf} {s : State} (cid : Nat) (f : Nat → Nat) (h : SInv c s)
    (hc : c.codec = 0) (hsm : SmallSet s) :
    0 ≤ wireSize c cid f s ∧ wireSize c cid f s ≤ s.bufferBytes + slack c cid f s := by
  have hp := sum_parts_le hc s.parts h.parts hsm
  have ht := topicsWire_nonneg f s
  have hf : 0 ≤ reqFixed c cid := by unfold reqFixed; split <;> omega
  unfold wireSize slack
  rw [h.bytes, h.count]
  cases hv : c.v2 <;> cases h1 : c.v1 <;> simp [hv, h1] at hp ⊢ <;> omega

/-- for message sets (formats 0 and 1) the bound is an equality: the estimate undercounts format 1 by exactly
    8 bytes per message -/
theorem request_size_exact_legacy {c : Conf} {s : State} (cid : Nat) (f : Nat → Nat) (h : SInv c s)
    (hc : c.codec = 0) (hv : c.v2 = false) (hsm : SmallSet s) :
    wireSize c cid f s = s.bufferBytes + slack c cid f s := by
  have hp := (sum_parts_le hc s.parts h.parts hsm).2.2 hv
  unfold wireSize slack
  rw [h.bytes, h.count, hp]
  cases h1 : c.v1 <;> simp [hv] <;> omega

/-- **request_size_limit**: a request is written only if `encode` accepted it, i.e. it is not longer than
    MaxRequestSize … -/
theorem request_size_limit (c : Conf) (size : Int) (h : encodeAccepts c size = true) : size ≤ c.maxRequestSize := by
  unfold encodeAccepts at h; simp at h; exact h.2

/-- … and a set grown under the overflow discipline is accepted whenever its slack fits into the 10 KiB margin -/
theorem request_within_margin_accepted {c : Conf} {s : State} (cid : Nat) (f : Nat → Nat) (h : Grown c s)
    (hc : c.codec = 0) (hsm : SmallSet s) (h2 : 2 ≤ s.bufferCount)
    (hslack : slack c cid f s + (if c.v2 = true then recordBatchOverhead else 0) ≤ safetyMargin) :
    encodeAccepts c (wireSize c cid f s) = true := by
  have hm := request_size_margin cid f (grown_inv h).1 hc hsm
  have he := request_estimate_limit h h2
  unfold encodeAccepts
  simp only [decide_eq_true_eq]
  omega

/-! ### flush predicates -/

/-- **readyToFlush decision table** -/
theorem ready_to_flush_table (c : Conf) (s : State) :
    readyToFlush c s = true ↔
      s.bufferCount ≠ 0 ∧
        ((c.flushFrequency = 0 ∧ c.flushBytes = 0 ∧ c.flushMessages = 0) ∨
         (c.flushMessages > 0 ∧ s.bufferCount ≥ c.flushMessages) ∨
         (c.flushBytes > 0 ∧ s.bufferBytes ≥ c.flushBytes)) := by
  unfold readyToFlush isEmpty
  by_cases h0 : s.bufferCount = 0
  · simp [h0]
  · simp only [h0, decide_false, Bool.false_eq_true, ↓reduceIte, ne_eq, not_false_eq_true, true_and]
    by_cases h1 : c.flushFrequency = 0 ∧ c.flushBytes = 0 ∧ c.flushMessages = 0
    · simp [h1]
    · simp only [h1, ↓reduceIte, false_or]
      by_cases h2 : c.flushMessages > 0 ∧ s.bufferCount ≥ c.flushMessages
      · simp [h2]
      · simp only [h2, ↓reduceIte, false_or]
        by_cases h3 : c.flushBytes > 0 ∧ s.bufferBytes ≥ c.flushBytes
        · simp [h3]
        · simp [h3]

/-- no trigger configured: ready as soon as (and as long as) the set is not empty -/
theorem ready_when_unconfigured (c : Conf) (s : State)
    (h : c.flushFrequency = 0 ∧ c.flushBytes = 0 ∧ c.flushMessages = 0) :
    readyToFlush c s = !isEmpty s := by
  unfold readyToFlush
  cases he : isEmpty s <;> simp [h]

theorem never_ready_when_empty (c : Conf) (s : State) (h : isEmpty s = true) : readyToFlush c s = false := by
  unfold readyToFlush; simp [h]

/-! ### the run loop fragment -/

/-- invariant of `brokerProducer.run` at the top of its loop -/
structure BPInv (c : Conf) (b : BP) : Prop where
  enabled : b.outputEnabled = (b.timerFired || readyToFlush c b.buffer)
  armed : isEmpty b.buffer = false → c.flushFrequency > 0 → b.timerArmed = true
  fired : b.timerFired = true → b.timerArmed = true
  grown : Grown c b.buffer

theorem bpinv_init (c : Conf) : BPInv c BP.init where
  enabled := by simp [BP.init, readyToFlush, isEmpty, State.empty]
  armed := by simp [BP.init, isEmpty, State.empty]
  fired := by simp [BP.init]
  grown := Grown.empty

private theorem isEmpty_add_ok {c : Conf} {s : State} (now : Int) (m : Msg) (hs : SInv c s)
    (hok : addOk c s m = true) : isEmpty (add c s now m) = false := by
  have := sums_nonneg hs.parts
  have hc := hs.count
  unfold add isEmpty
  simp only [hok, ↓reduceIte, decide_eq_false_iff_not]
  omega

theorem bp_step_inv {c : Conf} {b : BP} (e : Ev) (h : BPInv c b) :
    BPInv c (BP.step c b e).1 ∧ ∀ s ∈ (BP.step c b e).2, Grown c s := by
  have hs := (grown_inv h.grown).1
  cases e with
  | msg now m =>
    simp only [BP.step]
    split
    · refine ⟨⟨by simp [BP.tail], ?_, by simp [BP.tail], Grown.first now m⟩, ?_⟩
      · intro _ hf; simp [BP.tail, hf]
      · intro s hs'; simp only [List.mem_singleton] at hs'; exact hs' ▸ h.grown
    · rename_i hwo
      split
      · rename_i hok
        refine ⟨⟨by simp [BP.tail], ?_, ?_, Grown.step now m h.grown (by simpa using hwo)⟩, by simp⟩
        · intro _ hf; simp [BP.tail, hf]
        · intro hf; simp only [BP.tail] at hf ⊢; simp [h.fired hf]
      · exact ⟨h, by simp⟩
  | timer =>
    simp only [BP.step]
    split
    · rename_i ht
      simp only [Bool.and_eq_true, Bool.not_eq_true'] at ht
      refine ⟨⟨by simp [BP.tail], ?_, ?_, h.grown⟩, by simp⟩
      · intro he hf; simpa [BP.tail] using h.armed he hf
      · intro _; simpa [BP.tail] using ht.1
    · exact ⟨h, by simp⟩
  | take =>
    simp only [BP.step]
    split
    · refine ⟨⟨by simp [BP.tail, BP.rollOver], ?_, by simp [BP.tail, BP.rollOver], Grown.empty⟩, ?_⟩
      · intro he; simp [BP.tail, BP.rollOver, isEmpty, State.empty] at he
      · intro s hs'; simp only [List.mem_singleton] at hs'; exact hs' ▸ h.grown
    · exact ⟨h, by simp⟩
  | drop tp =>
    simp only [BP.step]
    split
    · refine ⟨⟨by simp [BP.tail, BP.rollOver], ?_, by simp [BP.tail, BP.rollOver], Grown.empty⟩, by simp⟩
      intro he; simp [BP.tail, BP.rollOver, isEmpty, State.empty] at he
    · rename_i hne
      refine ⟨⟨by simp [BP.tail], ?_, ?_, Grown.drop tp h.grown⟩, by simp⟩
      · intro _ hf
        simp only [BP.tail]
        apply h.armed _ hf
        -- the buffer was not empty before the drop either
        cases hb : isEmpty b.buffer with
        | false => rfl
        | true =>
          exfalso
          have h0 : b.buffer.bufferCount = 0 := by simpa [isEmpty] using hb
          have hnil := parts_nil_of_count_zero hs h0
          have : dropPartition b.buffer tp = b.buffer := by simp [dropPartition, hnil, lookup]
          rw [this, hb] at hne
          exact hne rfl
      · intro hf; simpa [BP.tail] using h.fired hf

/-- the invariant holds after every event sequence, and every set handed to the bridge is `Grown` -/
theorem bp_run_inv {c : Conf} (evs : List Ev) {b : BP} (h : BPInv c b) :
    BPInv c (BP.run c b evs).1 ∧ ∀ s ∈ (BP.run c b evs).2, Grown c s := by
  induction evs generalizing b with
  | nil => exact ⟨h, by simp [BP.run]⟩
  | cons e es ih =>
    have h1 := bp_step_inv e h
    have h2 := ih h1.1
    refine ⟨h2.1, ?_⟩
    intro s hs
    simp only [BP.run, List.mem_append] at hs
    rcases hs with hs | hs
    · exact h1.2 s hs
    · exact h2.2 s hs

/-- **flush_enabled_iff**: after every sequence of run-loop events the output towards the bridge is enabled
    exactly when the timer has fired or the buffer is ready to flush. -/
theorem flush_enabled_iff (c : Conf) (evs : List Ev) :
    (BP.run c BP.init evs).1.outputEnabled =
      ((BP.run c BP.init evs).1.timerFired || readyToFlush c (BP.run c BP.init evs).1.buffer) :=
  (bp_run_inv evs (bpinv_init c)).1.enabled

/-- a non-empty buffer with a flush frequency has its timer running (or fired): the flush cannot be forgotten -/
theorem flush_timer_armed (c : Conf) (evs : List Ev) (hf : c.flushFrequency > 0)
    (hne : isEmpty (BP.run c BP.init evs).1.buffer = false) :
    (BP.run c BP.init evs).1.timerArmed = true :=
  (bp_run_inv evs (bpinv_init c)).1.armed hne hf

/-- once the armed timer fires, the very next loop tail enables the output -/
theorem timer_fire_enables (c : Conf) (b : BP) (ha : b.timerArmed = true) :
    (BP.step c b .timer).1.outputEnabled = true ∨ b.timerFired = true := by
  cases hf : b.timerFired
  · left; simp [BP.step, ha, hf, BP.tail]
  · right; rfl

/-- no trigger configured: whenever something is buffered the output is enabled (no waiting for more input) -/
theorem flush_immediate_when_unconfigured (c : Conf) (evs : List Ev)
    (h : c.flushFrequency = 0 ∧ c.flushBytes = 0 ∧ c.flushMessages = 0)
    (hne : isEmpty (BP.run c BP.init evs).1.buffer = false) :
    (BP.run c BP.init evs).1.outputEnabled = true := by
  rw [flush_enabled_iff, ready_when_unconfigured c _ h, hne]; simp

/-- a configured count or byte trigger that is reached enables the output -/
theorem trigger_enables (c : Conf) (evs : List Ev)
    (hne : isEmpty (BP.run c BP.init evs).1.buffer = false)
    (h : (c.flushMessages > 0 ∧ (BP.run c BP.init evs).1.buffer.bufferCount ≥ c.flushMessages) ∨
         (c.flushBytes > 0 ∧ (BP.run c BP.init evs).1.buffer.bufferBytes ≥ c.flushBytes)) :
    (BP.run c BP.init evs).1.outputEnabled = true := by
  rw [flush_enabled_iff]
  have : readyToFlush c (BP.run c BP.init evs).1.buffer = true := by
    rw [ready_to_flush_table]
    refine ⟨by simpa [isEmpty] using hne, Or.inr h⟩
  simp [this]

/-- **handed-over sets respect the limits**: whatever the event sequence, every set the run loop passes to
    the bridge satisfies count_limit, batch_bytes_limit and request_estimate_limit. -/
theorem handed_over_within_limits (c : Conf) (evs : List Ev) :
    ∀ s ∈ (BP.run c BP.init evs).2,
      (c.maxMessages > 0 → s.bufferCount ≤ c.maxMessages) ∧
      (∀ p ∈ s.parts, 2 ≤ p.msgs.length → payload p.msgs < c.maxMessageBytes) ∧
      (2 ≤ s.bufferCount →
        s.bufferBytes < c.maxRequestSize - safetyMargin + (if c.v2 = true then recordBatchOverhead else 0)) := by
  intro s hs
  have hg := (bp_run_inv evs (bpinv_init c)).2 s hs
  exact ⟨count_limit hg, fun p hp h2 => batch_payload_below_max hg hp h2, request_estimate_limit hg⟩

/-! ### non-vacuity -/

def exConf : Conf := ⟨true, true, false, 0, false, 104857600, 200, 2, 0, 0, 2⟩
def exMsg (id k v : Nat) : Msg := ⟨id, (0, 0), k, v, [], some 5, 0⟩

/-- two messages fit, the third would overflow (MaxMessages = 2) and is preceded by a hand-over -/
example : wouldOverflow exConf (add exConf (add exConf State.empty 0 (exMsg 1 3 10)) 0 (exMsg 2 3 10)) (exMsg 3 1 1) = true := by decide
example : wouldOverflow exConf (add exConf State.empty 0 (exMsg 1 3 10)) (exMsg 2 3 10) = false := by decide
example : Grown exConf (add exConf (add exConf State.empty 0 (exMsg 1 3 10)) 0 (exMsg 2 3 10)) :=
  Grown.step 0 _ (Grown.first 0 _) (by decide)
/-- the partition clause: 98+59 ≥ 200 is false, 98+102 ≥ 200 is true -/
example : wouldOverflow exConf (add exConf State.empty 0 (exMsg 1 3 10)) (exMsg 2 3 63) = true := by decide
/-- oversize: 36+165 > 200 -/
example : dispatch exConf false (exMsg 1 100 65) = .errMessageSizeTooLarge := by decide
example : dispatch exConf false (exMsg 1 100 64) = .forward := by decide
/-- run loop: two messages reach the count trigger (Flush.Messages = 2), the bridge takes them, a third starts a new buffer -/
example : ((BP.run exConf BP.init [.msg 0 (exMsg 1 3 10), .msg 0 (exMsg 2 3 10), .take, .msg 0 (exMsg 3 1 1)]).2.map (·.bufferCount)) = [2] := by decide
example : (BP.run exConf BP.init [.msg 0 (exMsg 1 3 10)]).1.outputEnabled = false := by decide
example : (BP.run exConf BP.init [.msg 0 (exMsg 1 3 10), .msg 0 (exMsg 2 3 10)]).1.outputEnabled = true := by decide
/-- with a frequency the timer is armed by the first message and its firing enables the output -/
example : (BP.run { exConf with flushFrequency := 1000 } BP.init [.msg 0 (exMsg 1 3 10), .timer]).1.outputEnabled = true := by decide

/-- the format-1 undercount is real: 1913 empty messages estimate to 49738 bytes but need 65042 + header -/
example : (26 : Int) * 1913 = 49738 ∧ (34 : Int) * 1913 = 65042 := by decide
/-- wire size of a two-message record batch request -/
example : wireSize exConf 5 (fun _ => 3)
    (add exConf (add exConf State.empty 0 (exMsg 1 3 10)) 0 (exMsg 2 3 10)) = 149 := by decide

end Props.C16
