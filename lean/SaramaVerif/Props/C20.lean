import SaramaVerif.Model.Mocks
/-
  C20 — mocks replay scripted expectations faithfully and report deviations.
  Property theorems (for every script, every input sequence = every processing order of concurrent senders,
  every partitioner state machine, every checker function, every topic configuration) + non-vacuity examples.
-/
namespace Props.C20
open Model.Mocks

/-! ## specification vocabulary (what the statement of C20 talks about) -/

/-- the partitioner's answers when the messages are presented, in order, to the partitioner of their topic
    with the configured partition count of that topic -/
def choices {σ : Type} (P : Part σ) (tc : TopicCfg) : (Nat → σ) → List Msg → List (Except Int Int)
  | _, [] => []
  | ps, m :: ms => (choose P ps tc m).1 :: choices P tc (upd ps m.topic (choose P ps tc m).2) ms

/-- the message is produced successfully: the partitioner answered, the checker (if any) accepted, and the
    expectation is a success expectation -/
def succeeds (e : Exp) (m : Msg) (c : Except Int Int) : Bool :=
  match c with
  | .error _ => false
  | .ok p => (checkVerdict e m p).isNone && e.result.isNone

/-- number of successfully produced messages among the first `i` -/
def succBefore : List Exp → List Msg → List (Except Int Int) → Nat → Nat
  | e :: es, m :: ms, c :: cs, i + 1 => (if succeeds e m c then 1 else 0) + succBefore es ms cs i
  | _, _, _, _ => 0

/-- reporter calls an input with an expectation may cause: partitioner error, failing checker – nothing else -/
def expectedReports (e : Exp) (m : Msg) (c : Except Int Int) : List Report :=
  match c with
  | .error pc => [.partitionerError pc]
  | .ok p =>
    match checkVerdict e m p with
    | some cc => [.checkerFailed cc]
    | none => []

/-- the outcome the async mock owes to a message that meets expectation `e`, when the partitioner answered `c`
    and `off` is the next offset -/
def expectedAsync (cfg : ACfg) (e : Exp) (m : Msg) (c : Except Int Int) (off : Int) : List Outcome :=
  match c with
  | .error pc => [.error m.id .partitioner pc m.part0]
  | .ok p =>
    match checkVerdict e m p with
    | some cc => [.error m.id .checker cc p]
    | none =>
      match e.result with
      | none => if cfg.retSucc then [.success m.id p off] else []
      | some rc => if cfg.retErr then [.error m.id .scripted rc p] else []

/-- what `SendMessage` owes -/
def expectedSync (e : Exp) (m : Msg) (c : Except Int Int) (off : Int) : SyncOut :=
  match c with
  | .error pc => ⟨-1, -1, some (.partitioner, pc), m.part0, 0⟩
  | .ok p =>
    match checkVerdict e m p with
    | some cc => ⟨-1, -1, some (.checker, cc), p, 0⟩
    | none =>
      match e.result with
      | none => ⟨p, off, none, p, off⟩
      | some rc => ⟨-1, -1, some (.scripted, rc), p, 0⟩

/-- the checkers of a script never object -/
def CheckersPass (exps : List Exp) : Prop := ∀ e ∈ exps, ∀ m p, checkVerdict e m p = none

/-! ## the configured partition counts are the mock's own snapshot -/

/-- topics a `SetPartitions` call does not mention keep their count … -/
theorem setPartitionsMap_other (tc : TopicCfg) (l : List (Nat × Int)) (t : Nat) (h : t ∉ l.map (·.1)) :
    (tc.setPartitionsMap l).partitions t = tc.partitions t := by
  induction l generalizing tc with
  | nil => rfl
  | cons x l ih =>
    obtain ⟨t', n⟩ := x
    simp only [List.map_cons, List.mem_cons, not_or] at h
    simp only [TopicCfg.setPartitionsMap]
    rw [ih _ h.2]
    simp [TopicCfg.partitions, TopicCfg.setPartitions, h.1]

/-- … and a mentioned topic gets exactly the count the map held at the time of the call (a Go map has each key
    once). Nothing else enters a mock's `PState.tc`: the model has no op by which a later change of the caller's
    map, or the configuration of another mock, reaches it – which is what the correspondence check compares with. -/
theorem setPartitionsMap_snapshot (tc : TopicCfg) (l : List (Nat × Int)) (t : Nat) (n : Int)
    (hnd : (l.map (·.1)).Nodup) (h : (t, n) ∈ l) :
    (tc.setPartitionsMap l).partitions t = n := by
  induction l generalizing tc with
  | nil => simp at h
  | cons x l ih =>
    obtain ⟨t', n'⟩ := x
    simp only [List.map_cons, List.nodup_cons] at hnd
    simp only [TopicCfg.setPartitionsMap]
    rcases List.mem_cons.mp h with h | h
    · cases h
      rw [setPartitionsMap_other _ l t hnd.1]
      simp [TopicCfg.partitions, TopicCfg.setPartitions]
    · exact ih _ hnd.2 h

/-! ## generic run lemmas -/

/-- how much `lastOffset` advances (variant dependent: the pinned async mock also advances after a failing
    checker on a success expectation) -/
def advA (fx : Bool) (e : Exp) (m : Msg) (c : Except Int Int) : Int :=
  match c with
  | .error _ => 0
  | .ok p =>
    match checkVerdict e m p with
    | some _ => if fx then 0 else (match e.result with | none => 1 | some _ => 0)
    | none => (match e.result with | none => 1 | some _ => 0)

def advBefore (fx : Bool) : List Exp → List Msg → List (Except Int Int) → Nat → Int
  | e :: es, m :: ms, c :: cs, i + 1 => advA fx e m c + advBefore fx es ms cs i
  | _, _, _, _ => 0

private theorem asyncHandle_lo (fx : Bool) (cfg : ACfg) (e : Exp) (m : Msg) (c : Except Int Int) (lo : Int) :
    (asyncHandle fx cfg e m c lo).1 = lo + advA fx e m c := by
  unfold asyncHandle advA asyncResult
  cases c with
  | error pc => simp
  | ok p =>
    simp only
    cases checkVerdict e m p with
    | some cc => cases fx <;> cases e.result <;> simp
    | none => cases e.result <;> simp

private theorem asyncOuts_length {σ : Type} (P : Part σ) (fx : Bool) (cfg : ACfg) (s : PState σ) (msgs : List Msg) :
    (asyncOuts P fx cfg s msgs).length = msgs.length := by
  induction msgs generalizing s with
  | nil => rfl
  | cons m ms ih => simp [asyncOuts, ih]

theorem choices_length {σ : Type} (P : Part σ) (tc : TopicCfg) (ps : Nat → σ) (msgs : List Msg) :
    (choices P tc ps msgs).length = msgs.length := by
  induction msgs generalizing ps with
  | nil => rfl
  | cons m ms ih => simp [choices, ih]

/-- the i-th output of a run is the handling of the i-th message under the i-th expectation with the i-th
    partitioner answer, at the offset reached so far (both variants) -/
private theorem asyncOuts_get {σ : Type} (P : Part σ) (fx : Bool) (cfg : ACfg) (s : PState σ) (msgs : List Msg)
    (i : Nat) (e : Exp) (m : Msg) (c : Except Int Int)
    (he : s.exps[i]? = some e) (hm : msgs[i]? = some m) (hc : (choices P s.tc s.ps msgs)[i]? = some c) :
    (asyncOuts P fx cfg s msgs)[i]? =
      some (asyncHandle fx cfg e m c (s.lastOffset + advBefore fx s.exps msgs (choices P s.tc s.ps msgs) i)).2 := by
  induction msgs generalizing s i with
  | nil => simp at hm
  | cons m0 ms ih =>
    obtain ⟨exps, lo, ps, tc⟩ := s
    cases exps with
    | nil => simp at he
    | cons e0 rest =>
      cases i with
      | zero =>
        simp only [List.getElem?_cons_zero, Option.some.injEq, choices] at he hm hc
        subst he hm hc
        simp [asyncOuts, asyncSend, advBefore]
      | succ j =>
        simp only [List.getElem?_cons_succ, choices] at he hm hc
        have := ih (asyncSend P fx cfg ⟨e0 :: rest, lo, ps, tc⟩ m0).1 j (by simpa [asyncSend] using he) hm
          (by simpa [asyncSend] using hc)
        simp only [asyncOuts, List.getElem?_cons_succ, this]
        simp only [asyncSend, asyncHandle_lo, choices, advBefore]
        congr 3
        omega

private theorem asyncOuts_beyond {σ : Type} (P : Part σ) (fx : Bool) (cfg : ACfg) (s : PState σ) (msgs : List Msg)
    (i : Nat) (hi : s.exps.length ≤ i) (hm : i < msgs.length) :
    (asyncOuts P fx cfg s msgs)[i]? = some ([], [.noExpectation]) := by
  induction msgs generalizing s i with
  | nil => simp at hm
  | cons m0 ms ih =>
    obtain ⟨exps, lo, ps, tc⟩ := s
    cases exps with
    | nil =>
      cases i with
      | zero => simp [asyncOuts, asyncSend]
      | succ j =>
        simp only [asyncOuts, List.getElem?_cons_succ]
        exact ih _ j (by simp [asyncSend]) (by simpa using hm)
    | cons e0 rest =>
      cases i with
      | zero => simp at hi
      | succ j =>
        simp only [asyncOuts, List.getElem?_cons_succ]
        exact ih _ j (by simpa [asyncSend] using hi) (by simpa using hm)

private theorem asyncFinal_exps {σ : Type} (P : Part σ) (fx : Bool) (cfg : ACfg) (s : PState σ) (msgs : List Msg) :
    (asyncFinal P fx cfg s msgs).exps = s.exps.drop msgs.length := by
  induction msgs generalizing s with
  | nil => simp [asyncFinal]
  | cons m0 ms ih =>
    obtain ⟨exps, lo, ps, tc⟩ := s
    cases exps with
    | nil => simp [asyncFinal, ih, asyncSend]
    | cons e0 rest => simp [asyncFinal, ih, asyncSend]

private theorem advA_fixed (e : Exp) (m : Msg) (c : Except Int Int) :
    advA true e m c = if succeeds e m c then 1 else 0 := by
  unfold advA succeeds
  cases c with
  | error pc => simp
  | ok p => simp only; split <;> split <;> simp_all

private theorem advBefore_fixed (exps : List Exp) (msgs : List Msg) (cs : List (Except Int Int)) (i : Nat) :
    advBefore true exps msgs cs i = (succBefore exps msgs cs i : Nat) := by
  induction i generalizing exps msgs cs with
  | zero => cases exps <;> cases msgs <;> cases cs <;> simp [advBefore, succBefore]
  | succ j ih =>
    cases exps with
    | nil => simp [advBefore, succBefore]
    | cons e es =>
      cases msgs with
      | nil => simp [advBefore, succBefore]
      | cons m ms =>
        cases cs with
        | nil => simp [advBefore, succBefore]
        | cons c cs =>
          simp only [advBefore, succBefore, ih, advA_fixed]
          split <;> simp <;> omega

private theorem asyncHandle_fixed (cfg : ACfg) (e : Exp) (m : Msg) (c : Except Int Int) (lo : Int) :
    (asyncHandle true cfg e m c lo).2 = (expectedAsync cfg e m c (lo + 1), expectedReports e m c) := by
  unfold asyncHandle expectedAsync expectedReports asyncResult
  cases c with
  | error pc => simp
  | ok p =>
    simp only
    cases checkVerdict e m p with
    | some cc => simp
    | none => cases e.result <;> simp

private theorem asyncHandle_reports (fx : Bool) (cfg : ACfg) (e : Exp) (m : Msg) (c : Except Int Int) (lo : Int) :
    (asyncHandle fx cfg e m c lo).2.2 = expectedReports e m c := by
  unfold asyncHandle expectedReports
  cases c with
  | error pc => simp
  | ok p =>
    simp only
    cases checkVerdict e m p with
    | some cc => cases fx <;> simp
    | none => simp

/-! ## async producer mock -/

/-- **i-th input ↦ i-th expectation** (documented variant). For every partitioner, script, topic configuration
    and every sequence of inputs (= every order in which the goroutine received the messages of concurrent
    senders), from every state: the i-th input, if there is an i-th expectation `e`, gets exactly the outcome
    owed by `e`: the scripted error, or a success carrying the partition the topic's partitioner chose for the
    configured partition count and the offset `lastOffset + 1 + (number of earlier successes)` — i.e. offsets
    1,2,3,… over the successes of a fresh mock; and the reporter hears exactly `expectedReports`. -/
theorem async_mock_ith_outcome {σ : Type} (P : Part σ) (cfg : ACfg) (s : PState σ) (msgs : List Msg)
    (i : Nat) (e : Exp) (m : Msg) (c : Except Int Int)
    (he : s.exps[i]? = some e) (hm : msgs[i]? = some m) (hc : (choices P s.tc s.ps msgs)[i]? = some c) :
    (asyncOuts P true cfg s msgs)[i]? =
      some (expectedAsync cfg e m c (s.lastOffset + 1 + succBefore s.exps msgs (choices P s.tc s.ps msgs) i),
            expectedReports e m c) := by
  rw [asyncOuts_get P true cfg s msgs i e m c he hm hc, asyncHandle_fixed, advBefore_fixed]
  congr 3
  omega

/-- an input beyond the script gets no outcome at all and exactly one reporter call (both variants) -/
theorem async_input_without_expectation {σ : Type} (P : Part σ) (fx : Bool) (cfg : ACfg) (s : PState σ)
    (msgs : List Msg) (i : Nat) (hi : s.exps.length ≤ i) (hm : i < msgs.length) :
    (asyncOuts P fx cfg s msgs)[i]? = some ([], [.noExpectation]) :=
  asyncOuts_beyond P fx cfg s msgs i hi hm

/-- pinned variant (F11a) agrees with the documented one as long as no checker objects -/
theorem async_pinned_eq_fixed_of_checkers_pass {σ : Type} (P : Part σ) (cfg : ACfg) (s : PState σ)
    (msgs : List Msg) (h : CheckersPass s.exps) :
    asyncOuts P false cfg s msgs = asyncOuts P true cfg s msgs := by
  induction msgs generalizing s with
  | nil => rfl
  | cons m0 ms ih =>
    obtain ⟨exps, lo, ps, tc⟩ := s
    cases exps with
    | nil => simp only [asyncOuts, asyncSend]; rw [ih _ (by simp [CheckersPass])]
    | cons e0 rest =>
      have hsend : asyncSend P false cfg ⟨e0 :: rest, lo, ps, tc⟩ m0 = asyncSend P true cfg ⟨e0 :: rest, lo, ps, tc⟩ m0 := by
        simp only [asyncSend, asyncHandle]
        cases hch : (choose P ps tc m0).1 with
        | error pc => rfl
        | ok p => simp only; rw [h e0 (by simp) m0 p]
      simp only [asyncOuts, hsend]
      rw [ih _ (by
        intro e he; apply h; simp only [asyncSend] at he; simp [he])]

theorem async_mock_ith_outcome_partial {σ : Type} (P : Part σ) (cfg : ACfg) (s : PState σ) (msgs : List Msg)
    (hpass : CheckersPass s.exps)
    (i : Nat) (e : Exp) (m : Msg) (c : Except Int Int)
    (he : s.exps[i]? = some e) (hm : msgs[i]? = some m) (hc : (choices P s.tc s.ps msgs)[i]? = some c) :
    (asyncOuts P false cfg s msgs)[i]? =
      some (expectedAsync cfg e m c (s.lastOffset + 1 + succBefore s.exps msgs (choices P s.tc s.ps msgs) i),
            expectedReports e m c) := by
  rw [async_pinned_eq_fixed_of_checkers_pass P cfg s msgs hpass]
  exact async_mock_ith_outcome P cfg s msgs i e m c he hm hc

private theorem expectedAsync_one (cfg : ACfg) (hs : cfg.retSucc = true) (he : cfg.retErr = true)
    (e : Exp) (m : Msg) (c : Except Int Int) (off : Int) :
    ∃ o, expectedAsync cfg e m c off = [o] ∧ o.id = m.id := by
  unfold expectedAsync
  cases c with
  | error pc => exact ⟨_, rfl, rfl⟩
  | ok p =>
    simp only
    cases checkVerdict e m p with
    | some cc => exact ⟨_, rfl, rfl⟩
    | none =>
      cases e.result with
      | none => simp only [hs, ↓reduceIte]; exact ⟨_, rfl, rfl⟩
      | some rc => simp only [he, ↓reduceIte]; exact ⟨_, rfl, rfl⟩

/-- **exactly one outcome** (documented variant, `Return.Successes` and `Return.Errors` on): every input that
    meets an expectation gets exactly one outcome, and it is an outcome of that very message; inputs beyond the
    script get none (`async_input_without_expectation`). Holds for every processing order. -/
theorem exactly_one_outcome {σ : Type} (P : Part σ) (cfg : ACfg) (hs : cfg.retSucc = true) (he : cfg.retErr = true)
    (s : PState σ) (msgs : List Msg) (i : Nat) (m : Msg) (hm : msgs[i]? = some m) (hi : i < s.exps.length) :
    ∃ o r, (asyncOuts P true cfg s msgs)[i]? = some ([o], r) ∧ o.id = m.id := by
  have hil : i < msgs.length := by
    rcases List.getElem?_eq_some_iff.mp hm with ⟨h, _⟩; exact h
  have hcl : i < (choices P s.tc s.ps msgs).length := by rw [choices_length]; exact hil
  have h := async_mock_ith_outcome P cfg s msgs i s.exps[i] m (choices P s.tc s.ps msgs)[i]
    (List.getElem?_eq_getElem hi) hm (List.getElem?_eq_getElem hcl)
  obtain ⟨o, ho, hid⟩ := expectedAsync_one cfg hs he s.exps[i] m (choices P s.tc s.ps msgs)[i]
    (s.lastOffset + 1 + succBefore s.exps msgs (choices P s.tc s.ps msgs) i)
  exact ⟨o, _, by rw [h, ho], hid⟩

/-- whatever the `Return.*` settings: never more than one outcome per input (documented variant) -/
theorem at_most_one_outcome {σ : Type} (P : Part σ) (cfg : ACfg) (s : PState σ) (msgs : List Msg)
    (i : Nat) (o : List Outcome × List Report) (h : (asyncOuts P true cfg s msgs)[i]? = some o) :
    o.1.length ≤ 1 := by
  have hil : i < msgs.length := by
    have := (List.getElem?_eq_some_iff.mp h).1
    rwa [asyncOuts_length] at this
  by_cases hi : i < s.exps.length
  · have hcl : i < (choices P s.tc s.ps msgs).length := by rw [choices_length]; exact hil
    have h2 := async_mock_ith_outcome P cfg s msgs i s.exps[i] msgs[i] (choices P s.tc s.ps msgs)[i]
      (List.getElem?_eq_getElem hi) (List.getElem?_eq_getElem hil) (List.getElem?_eq_getElem hcl)
    rw [h2] at h
    injection h with h
    subst h
    simp only [expectedAsync]
    split
    · simp
    · split
      · simp
      · split <;> split <;> simp
  · rw [async_input_without_expectation P true cfg s msgs i (by omega) hil] at h
    injection h with h
    subst h
    simp

/-- exactly-one for the pinned variant needs the extra hypothesis that no checker objects … -/
theorem exactly_one_outcome_partial {σ : Type} (P : Part σ) (cfg : ACfg) (hs : cfg.retSucc = true) (he : cfg.retErr = true)
    (s : PState σ) (msgs : List Msg) (hpass : CheckersPass s.exps)
    (i : Nat) (m : Msg) (hm : msgs[i]? = some m) (hi : i < s.exps.length) :
    ∃ o r, (asyncOuts P false cfg s msgs)[i]? = some ([o], r) ∧ o.id = m.id := by
  rw [async_pinned_eq_fixed_of_checkers_pass P cfg s msgs hpass]
  exact exactly_one_outcome P cfg hs he s msgs i m hm hi

/-- … and without it fails (F11a): one message, a success expectation whose checker objects (code 7), manual
    partitioner: the pinned variant emits the checker error AND a success with offset 1; the documented one
    emits the checker error only and keeps offset 1 for the next message. -/
example :
    asyncOuts manualPart false ⟨true, true⟩ (PState.init manualPart [⟨none, some (fun _ _ => some 7)⟩] TopicCfg.new) [⟨0, 0, 0, 3⟩]
      = [([.error 0 .checker 7 3, .success 0 3 1], [.checkerFailed 7])] := by decide
example :
    asyncOuts manualPart true ⟨true, true⟩ (PState.init manualPart [⟨none, some (fun _ _ => some 7)⟩] TopicCfg.new) [⟨0, 0, 0, 3⟩]
      = [([.error 0 .checker 7 3], [.checkerFailed 7])] := by decide
/-- same defect on a failure expectation: two errors for one message -/
example :
    asyncOuts manualPart false ⟨true, true⟩ (PState.init manualPart [⟨some 5, some (fun _ _ => some 7)⟩] TopicCfg.new) [⟨0, 0, 0, 3⟩]
      = [([.error 0 .checker 7 3, .error 0 .scripted 5 3], [.checkerFailed 7])] := by decide

/-- **reporter calls of the async mock** (both variants): over a whole life (inputs, then Close) the reporter is
    called exactly: once `noExpectation` per input beyond the script; `partitionerError`/`checkerFailed` for an
    input whose partitioner/checker objected; at Close `leftover n` iff `n > 0` expectations were not used —
    and for nothing else (a successful or scripted-error outcome causes no call). -/
theorem async_reporter_calls_spec {σ : Type} (P : Part σ) (fx : Bool) (cfg : ACfg) (s : PState σ) (msgs : List Msg) :
    (∀ (i : Nat) (e : Exp) (m : Msg) (c : Except Int Int), s.exps[i]? = some e → msgs[i]? = some m → (choices P s.tc s.ps msgs)[i]? = some c →
        ∃ o, (asyncOuts P fx cfg s msgs)[i]? = some (o, expectedReports e m c)) ∧
    (∀ (i : Nat), s.exps.length ≤ i → i < msgs.length → (asyncOuts P fx cfg s msgs)[i]? = some ([], [.noExpectation])) ∧
    closeReports (asyncFinal P fx cfg s msgs) =
      (if s.exps.length > msgs.length then [.leftover (s.exps.length - msgs.length)] else []) := by
  refine ⟨?_, asyncOuts_beyond P fx cfg s msgs, ?_⟩
  · intro i e m c he hm hc
    refine ⟨(asyncHandle fx cfg e m c (s.lastOffset + advBefore fx s.exps msgs (choices P s.tc s.ps msgs) i)).2.1, ?_⟩
    rw [asyncOuts_get P fx cfg s msgs i e m c he hm hc]
    congr 1
    exact Prod.ext rfl (asyncHandle_reports fx cfg e m c _)
  · simp only [closeReports, asyncFinal_exps, List.length_drop]
    split <;> split <;> first | rfl | omega

/-- no reporter call ⇔ the input was handled without objection -/
theorem expectedReports_nil_iff (e : Exp) (m : Msg) (c : Except Int Int) :
    expectedReports e m c = [] ↔ ∃ p, c = .ok p ∧ checkVerdict e m p = none := by
  unfold expectedReports
  cases c with
  | error pc => simp
  | ok p => simp only; split <;> simp_all

/-! ## sync producer mock -/

private theorem syncHandle_lo (rc : Bool) (e : Exp) (m : Msg) (c : Except Int Int) (lo : Int) :
    (syncHandle rc e m c lo).1 = lo + advA true e m c := by
  unfold syncHandle advA
  cases c with
  | error pc => simp
  | ok p => simp only; split <;> split <;> simp_all

private theorem syncOuts_get {σ : Type} (P : Part σ) (rc : Bool) (s : PState σ) (msgs : List Msg)
    (i : Nat) (e : Exp) (m : Msg) (c : Except Int Int)
    (he : s.exps[i]? = some e) (hm : msgs[i]? = some m) (hc : (choices P s.tc s.ps msgs)[i]? = some c) :
    (syncOuts P rc s msgs)[i]? =
      some (syncHandle rc e m c (s.lastOffset + advBefore true s.exps msgs (choices P s.tc s.ps msgs) i)).2 := by
  induction msgs generalizing s i with
  | nil => simp at hm
  | cons m0 ms ih =>
    obtain ⟨exps, lo, ps, tc⟩ := s
    cases exps with
    | nil => simp at he
    | cons e0 rest =>
      cases i with
      | zero =>
        simp only [List.getElem?_cons_zero, Option.some.injEq, choices] at he hm hc
        subst he hm hc
        simp [syncOuts, syncSend, advBefore]
      | succ j =>
        simp only [List.getElem?_cons_succ, choices] at he hm hc
        have := ih (syncSend P rc ⟨e0 :: rest, lo, ps, tc⟩ m0).1 j (by simpa [syncSend] using he) hm
          (by simpa [syncSend] using hc)
        simp only [syncOuts, List.getElem?_cons_succ, this]
        simp only [syncSend, syncHandle_lo, choices, advBefore]
        congr 3
        omega

private theorem syncOuts_beyond {σ : Type} (P : Part σ) (rc : Bool) (s : PState σ) (msgs : List Msg)
    (i : Nat) (m : Msg) (hi : s.exps.length ≤ i) (hm : msgs[i]? = some m) :
    (syncOuts P rc s msgs)[i]? = some (⟨-1, -1, some (.outOfExpectations, 0), m.part0, 0⟩, [.noExpectation]) := by
  induction msgs generalizing s i with
  | nil => simp at hm
  | cons m0 ms ih =>
    obtain ⟨exps, lo, ps, tc⟩ := s
    cases exps with
    | nil =>
      cases i with
      | zero =>
        simp only [List.getElem?_cons_zero, Option.some.injEq] at hm
        subst hm
        simp [syncOuts, syncSend]
      | succ j =>
        simp only [syncOuts, List.getElem?_cons_succ] at hm ⊢
        exact ih _ j (by simp [syncSend]) hm
    | cons e0 rest =>
      cases i with
      | zero => simp at hi
      | succ j =>
        simp only [syncOuts, List.getElem?_cons_succ] at hm ⊢
        exact ih _ j (by simpa [syncSend] using hi) hm

private theorem syncFinal_exps {σ : Type} (P : Part σ) (rc : Bool) (s : PState σ) (msgs : List Msg) :
    (syncFinal P rc s msgs).exps = s.exps.drop msgs.length := by
  induction msgs generalizing s with
  | nil => simp [syncFinal]
  | cons m0 ms ih =>
    obtain ⟨exps, lo, ps, tc⟩ := s
    cases exps with
    | nil => simp [syncFinal, ih, syncSend]
    | cons e0 rest => simp [syncFinal, ih, syncSend]

private theorem syncHandle_fixed (e : Exp) (m : Msg) (c : Except Int Int) (lo : Int) :
    (syncHandle true e m c lo).2 = (expectedSync e m c (lo + 1), expectedReports e m c) := by
  unfold syncHandle expectedSync expectedReports
  cases c with
  | error pc => simp
  | ok p =>
    simp only
    obtain ⟨v, hv⟩ : ∃ v, checkVerdict e m p = v := ⟨_, rfl⟩
    obtain ⟨r, hr⟩ : ∃ r, e.result = r := ⟨_, rfl⟩
    cases v <;> cases r <;> simp_all

private theorem syncHandle_pinned (e : Exp) (m : Msg) (c : Except Int Int) (lo : Int) :
    (syncHandle false e m c lo).2 =
      ({ expectedSync e m c (lo + 1) with
           retPartition := if succeeds e m c then 0 else (expectedSync e m c (lo + 1)).retPartition },
       expectedReports e m c) := by
  unfold syncHandle expectedSync expectedReports succeeds
  cases c with
  | error pc => simp
  | ok p =>
    simp only
    obtain ⟨v, hv⟩ : ∃ v, checkVerdict e m p = v := ⟨_, rfl⟩
    obtain ⟨r, hr⟩ : ∃ r, e.result = r := ⟨_, rfl⟩
    cases v <;> cases r <;> simp_all

/-- **i-th `SendMessage` ↦ i-th expectation** (documented variant): the i-th call, if there is an i-th expectation,
    returns the scripted error, or `(partition chosen by the topic's partitioner for the configured count,
    lastOffset + 1 + number of earlier successes, nil)` with the same two values stored in the message; the
    reporter hears exactly `expectedReports`. -/
theorem sync_mock_ith_outcome {σ : Type} (P : Part σ) (s : PState σ) (msgs : List Msg)
    (i : Nat) (e : Exp) (m : Msg) (c : Except Int Int)
    (he : s.exps[i]? = some e) (hm : msgs[i]? = some m) (hc : (choices P s.tc s.ps msgs)[i]? = some c) :
    (syncOuts P true s msgs)[i]? =
      some (expectedSync e m c (s.lastOffset + 1 + succBefore s.exps msgs (choices P s.tc s.ps msgs) i),
            expectedReports e m c) := by
  rw [syncOuts_get P true s msgs i e m c he hm hc, syncHandle_fixed, advBefore_fixed]
  congr 3
  omega

/-- pinned variant (F11b): everything as documented except that a successful call returns partition 0 … -/
theorem sync_mock_ith_outcome_pinned {σ : Type} (P : Part σ) (s : PState σ) (msgs : List Msg)
    (i : Nat) (e : Exp) (m : Msg) (c : Except Int Int)
    (he : s.exps[i]? = some e) (hm : msgs[i]? = some m) (hc : (choices P s.tc s.ps msgs)[i]? = some c) :
    (syncOuts P false s msgs)[i]? =
      some ({ expectedSync e m c (s.lastOffset + 1 + succBefore s.exps msgs (choices P s.tc s.ps msgs) i) with
                retPartition := if succeeds e m c then 0 else -1 },
            expectedReports e m c) := by
  rw [syncOuts_get P false s msgs i e m c he hm hc, syncHandle_pinned, advBefore_fixed]
  have e1 : s.lastOffset + ((succBefore s.exps msgs (choices P s.tc s.ps msgs) i : Nat) : Int) + 1 =
      s.lastOffset + 1 + succBefore s.exps msgs (choices P s.tc s.ps msgs) i := by omega
  rw [e1]
  congr 3
  unfold expectedSync succeeds
  cases c with
  | error pc => simp
  | ok p =>
    simp only
    obtain ⟨v, hv⟩ : ∃ v, checkVerdict e m p = v := ⟨_, rfl⟩
    obtain ⟨r, hr⟩ : ∃ r, e.result = r := ⟨_, rfl⟩
    cases v <;> cases r <;> simp_all

/-- … so the full statement holds for the pinned variant exactly when the partitioner chose 0 or the call
    did not succeed -/
theorem sync_mock_ith_outcome_partial {σ : Type} (P : Part σ) (s : PState σ) (msgs : List Msg)
    (i : Nat) (e : Exp) (m : Msg) (c : Except Int Int)
    (he : s.exps[i]? = some e) (hm : msgs[i]? = some m) (hc : (choices P s.tc s.ps msgs)[i]? = some c)
    (hz : c = .ok 0 ∨ succeeds e m c = false) :
    (syncOuts P false s msgs)[i]? =
      some (expectedSync e m c (s.lastOffset + 1 + succBefore s.exps msgs (choices P s.tc s.ps msgs) i),
            expectedReports e m c) := by
  rw [sync_mock_ith_outcome_pinned P s msgs i e m c he hm hc]
  congr 2
  rcases hz with hz | hz
  · subst hz
    unfold expectedSync succeeds
    simp only
    obtain ⟨v, hv⟩ : ∃ v, checkVerdict e m 0 = v := ⟨_, rfl⟩
    obtain ⟨r, hr⟩ : ∃ r, e.result = r := ⟨_, rfl⟩
    cases v <;> cases r <;> simp_all
  · unfold expectedSync succeeds at *
    cases c with
    | error pc => simp
    | ok p =>
      simp only at hz ⊢
      obtain ⟨v, hv⟩ : ∃ v, checkVerdict e m p = v := ⟨_, rfl⟩
      obtain ⟨r, hr⟩ : ∃ r, e.result = r := ⟨_, rfl⟩
      cases v <;> cases r <;> simp_all

/-- counter-example for the pinned variant (F11b): manual partitioner, message for partition 8, success
    expectation: `SendMessage` returns partition 0 while the message says 8; the documented variant returns 8. -/
example :
    syncOuts manualPart false (PState.init manualPart [⟨none, none⟩] TopicCfg.new) [⟨0, 0, 0, 8⟩]
      = [(⟨0, 1, none, 8, 1⟩, [])] := by decide
example :
    syncOuts manualPart true (PState.init manualPart [⟨none, none⟩] TopicCfg.new) [⟨0, 0, 0, 8⟩]
      = [(⟨8, 1, none, 8, 1⟩, [])] := by decide

/-- a `SendMessage` beyond the script returns `errOutOfExpectations`, leaves the message alone and calls the
    reporter once (both variants) -/
theorem sync_input_without_expectation {σ : Type} (P : Part σ) (rc : Bool) (s : PState σ) (msgs : List Msg)
    (i : Nat) (m : Msg) (hi : s.exps.length ≤ i) (hm : msgs[i]? = some m) :
    (syncOuts P rc s msgs)[i]? = some (⟨-1, -1, some (.outOfExpectations, 0), m.part0, 0⟩, [.noExpectation]) :=
  syncOuts_beyond P rc s msgs i m hi hm

/-- **reporter calls of the sync mock over SendMessage calls and Close** (both variants) -/
theorem sync_reporter_calls_spec {σ : Type} (P : Part σ) (rc : Bool) (s : PState σ) (msgs : List Msg) :
    (∀ (i : Nat) (e : Exp) (m : Msg) (c : Except Int Int), s.exps[i]? = some e → msgs[i]? = some m →
        (choices P s.tc s.ps msgs)[i]? = some c →
        ∃ o, (syncOuts P rc s msgs)[i]? = some (o, expectedReports e m c)) ∧
    (∀ (i : Nat) (m : Msg), s.exps.length ≤ i → msgs[i]? = some m →
        ∃ o, (syncOuts P rc s msgs)[i]? = some (o, [.noExpectation])) ∧
    closeReports (syncFinal P rc s msgs) =
      (if s.exps.length > msgs.length then [.leftover (s.exps.length - msgs.length)] else []) := by
  refine ⟨?_, ?_, ?_⟩
  · intro i e m c he hm hc
    cases rc with
    | true => exact ⟨_, sync_mock_ith_outcome P s msgs i e m c he hm hc⟩
    | false => exact ⟨_, sync_mock_ith_outcome_pinned P s msgs i e m c he hm hc⟩
  · intro i m hi hm
    exact ⟨_, syncOuts_beyond P rc s msgs i m hi hm⟩
  · simp only [closeReports, syncFinal_exps, List.length_drop]
    split <;> split <;> first | rfl | omega

/-- `SendMessages` is all-or-nothing on the number of expectations: with too few, nothing is used up, no
    message is touched, the call fails with `errOutOfExpectations` and the reporter is called once -/
theorem sync_batch_all_or_nothing {σ : Type} (P : Part σ) (s : PState σ) (msgs : List Msg)
    (h : s.exps.length < msgs.length) :
    syncSendBatch P s msgs =
      (s, ⟨some (.outOfExpectations, 0), msgs.map (fun x => (x.part0, 0))⟩, [.insufficient]) := by
  unfold syncSendBatch
  have : ¬ (s.exps.length ≥ msgs.length) := by omega
  simp only [this, ↓reduceIte]

/-- what a batch shows, expressed through the `SendMessage` results of the same messages: like the single
    calls up to and including the first failing one; the failing message keeps offset 0, later ones are untouched -/
def batchOfSingles : List (SyncOut × List Report) → List Msg → BatchOut × List Report
  | (o, r) :: rest, _ :: ms =>
    match o.err with
    | some err => (⟨some err, (o.msgPartition, 0) :: ms.map (fun x => (x.part0, 0))⟩, r)
    | none => (⟨(batchOfSingles rest ms).1.err, (o.msgPartition, o.msgOffset) :: (batchOfSingles rest ms).1.msgs⟩,
               (batchOfSingles rest ms).2)
  | _, _ => (⟨none, []⟩, [])

private theorem syncHandle_ok (e : Exp) (m : Msg) (c : Except Int Int) (lo : Int)
    (h : (syncHandle true e m c lo).2.1.err = none) :
    (syncHandle true e m c lo).1 = lo + 1 ∧ (syncHandle true e m c lo).2.1.msgOffset = lo + 1 ∧
    (syncHandle true e m c lo).2.2 = [] := by
  unfold syncHandle at *
  cases c with
  | error pc => simp at h
  | ok p =>
    simp only at h ⊢
    obtain ⟨v, hv⟩ : ∃ v, checkVerdict e m p = v := ⟨_, rfl⟩
    obtain ⟨r, hr⟩ : ∃ r, e.result = r := ⟨_, rfl⟩
    cases v <;> cases r <;> simp_all

private theorem batchLoop_eq {σ : Type} (P : Part σ) (s : PState σ) (msgs : List Msg) (es : List Exp)
    (hes : es = s.exps.take msgs.length) (h : msgs.length ≤ s.exps.length) :
    (batchLoop P s.tc s.lastOffset s.ps es msgs).2 = batchOfSingles (syncOuts P true s msgs) msgs := by
  induction msgs generalizing s es with
  | nil => subst hes; cases s.exps <;> simp [batchLoop, batchOfSingles, syncOuts]
  | cons m0 ms ih =>
    obtain ⟨exps, lo, ps, tc⟩ := s
    cases exps with
    | nil => simp at h
    | cons e0 rest =>
      simp only [List.length_cons, List.take_succ_cons] at hes
      subst hes
      simp only [batchLoop, syncOuts, batchOfSingles, syncSend]
      cases herr : (syncHandle true e0 m0 (choose P ps tc m0).1 lo).2.1.err with
      | some err => simp
      | none =>
        obtain ⟨h1, h2, h3⟩ := syncHandle_ok e0 m0 (choose P ps tc m0).1 lo herr
        have := ih ⟨rest, lo + 1, upd ps m0.topic (choose P ps tc m0).2, tc⟩ (rest.take ms.length) rfl
          (by simpa using h)
        simp only at this
        simp only [this, h1, h2]

/-- **`SendMessages` with enough expectations** uses up exactly `len msgs` of them and shows what the single
    `SendMessage` calls would show up to the first failure (so the i-th message of the batch meets the i-th
    expectation, with the partitioner's choice and consecutive offsets – `sync_mock_ith_outcome`) -/
theorem sync_batch_eq_singles {σ : Type} (P : Part σ) (s : PState σ) (msgs : List Msg)
    (h : msgs.length ≤ s.exps.length) :
    (syncSendBatch P s msgs).1.exps = s.exps.drop msgs.length ∧
    (syncSendBatch P s msgs).1.tc = s.tc ∧
    (syncSendBatch P s msgs).2 = batchOfSingles (syncOuts P true s msgs) msgs := by
  unfold syncSendBatch
  have : s.exps.length ≥ msgs.length := h
  simp only [this, ↓reduceIte, true_and]
  exact batchLoop_eq P s msgs _ rfl h

/-! ## consumer mock -/

/-- the buffered messages of a partition consumer are a run of consecutive offsets starting at `a`; the run
    ends at the high-water-mark counter as long as the channels are open -/
def QInv (pc : PC) (a : Nat) : Prop :=
  pc.msgs = List.range' a pc.msgs.length ∧ a + pc.msgs.length ≤ pc.hwm + 1 ∧
  (pc.closed = false → a + pc.msgs.length = pc.hwm + 1)

/-- offsets of the messages received from `Messages()` during a run of calls, in order -/
def pcReads (buf : Nat) (k : Key) : PC → List PcOp → List Nat
  | _, [] => []
  | pc, op :: ops =>
    (match (pcStep buf k pc op).2.1 with | .msg o => [o] | _ => []) ++ pcReads buf k (pcStep buf k pc op).1 ops

/-- number of `YieldMessage` calls of a run that returned or panicked (i.e. did not find the channel full) -/
def pcYields (buf : Nat) (k : Key) : PC → List PcOp → Nat
  | _, [] => 0
  | pc, op :: ops =>
    (if op = .yieldMsg ∧ (pcStep buf k pc op).2.1 ≠ .block then 1 else 0) + pcYields buf k (pcStep buf k pc op).1 ops

/-- error codes handed out (received from `Errors()` or returned by `Close`), in order -/
def pcErrDelivered (buf : Nat) (k : Key) : PC → List PcOp → List Int
  | _, [] => []
  | pc, op :: ops =>
    (match (pcStep buf k pc op).2.1 with | .err c => [c] | .closeRet l => l | _ => []) ++
      pcErrDelivered buf k (pcStep buf k pc op).1 ops

/-- error codes accepted by `YieldError`, in order -/
def pcErrAccepted (buf : Nat) (k : Key) : PC → List PcOp → List Int
  | _, [] => []
  | pc, op :: ops =>
    (match op, (pcStep buf k pc op).2.1 with | .yieldErr c, .ok => [c] | _, _ => []) ++
      pcErrAccepted buf k (pcStep buf k pc op).1 ops

private theorem pcStep_qinv (buf : Nat) (k : Key) (pc : PC) (a : Nat) (op : PcOp) (h : QInv pc a) :
    ((pcStep buf k pc op).2.1 = .msg a ∧ QInv (pcStep buf k pc op).1 (a + 1)) ∨
    ((∀ o, (pcStep buf k pc op).2.1 ≠ .msg o) ∧ QInv (pcStep buf k pc op).1 a) := by
  obtain ⟨h1, h2, h3⟩ := h
  cases op with
  | yieldMsg =>
    right
    simp only [pcStep]
    by_cases hc : pc.closed = true
    · simp only [hc, ↓reduceIte]
      refine ⟨by simp, h1, by simp only; omega, by simp⟩
    · simp only [hc, Bool.false_eq_true, ↓reduceIte]
      by_cases hf : pc.msgs.length ≥ buf
      · simp only [hf, ↓reduceIte]
        exact ⟨by simp, h1, h2, h3⟩
      · simp only [hf, ↓reduceIte]
        have ho := h3 (by simpa using hc)
        refine ⟨by simp, ?_, by simp only [List.length_append, List.length_singleton]; omega,
          by intro _; simp only [List.length_append, List.length_singleton]; omega⟩
        simp only [List.length_append, List.length_singleton, List.range'_concat, Nat.one_mul]
        rw [← h1]
        congr 2
        omega
  | yieldErr c =>
    right
    simp only [pcStep]
    split
    · exact ⟨by simp, h1, h2, h3⟩
    · split
      · exact ⟨by simp, h1, h2, h3⟩
      · exact ⟨by simp, h1, h2, h3⟩
  | expectMsgsDrained => right; exact ⟨by simp [pcStep], h1, h2, h3⟩
  | expectErrsDrained => right; exact ⟨by simp [pcStep], h1, h2, h3⟩
  | consume off =>
    right
    simp only [pcStep]
    split
    · exact ⟨by simp, h1, h2, h3⟩
    · exact ⟨by simp, h1, h2, h3⟩
  | readMsg =>
    simp only [pcStep]
    cases hm : pc.msgs with
    | nil =>
      right
      simp only
      refine ⟨by split <;> simp, ?_⟩
      exact ⟨h1, h2, h3⟩
    | cons o rest =>
      left
      simp only
      rw [hm] at h1 h2 h3
      simp only [List.length_cons, List.range'_succ, List.cons.injEq] at h1
      obtain ⟨ho, hr⟩ := h1
      subst ho
      simp only [List.length_cons] at h2 h3
      refine ⟨rfl, hr, ?_, ?_⟩
      · dsimp only; omega
      · intro hc; have := h3 hc; dsimp only; omega
  | readErr =>
    right
    simp only [pcStep]
    cases pc.errs with
    | nil => simp only; exact ⟨by split <;> simp, h1, h2, h3⟩
    | cons c rest => exact ⟨by simp, h1, h2, h3⟩
  | close =>
    right
    simp only [pcStep]
    split
    · refine ⟨by simp, by simp, by simp only [List.length_nil]; omega, by simp⟩
    · exact ⟨by simp, h1, h2, h3⟩
  | asyncClose =>
    right
    simp only [pcStep]
    exact ⟨by simp, h1, h2, by simp⟩

private theorem pcReads_from (buf : Nat) (k : Key) (pc : PC) (a : Nat) (ops : List PcOp) (h : QInv pc a) :
    pcReads buf k pc ops = List.range' a (pcReads buf k pc ops).length ∧ ∃ a', QInv (pcFinal buf k pc ops) a' := by
  induction ops generalizing pc a with
  | nil => exact ⟨by simp [pcReads], a, h⟩
  | cons op ops ih =>
    rcases pcStep_qinv buf k pc a op h with ⟨ho, hq⟩ | ⟨ho, hq⟩
    · obtain ⟨ih1, ih2⟩ := ih _ _ hq
      refine ⟨?_, ih2⟩
      simp only [pcReads, ho, List.singleton_append, List.length_cons, List.range'_succ]
      rw [← ih1]
    · obtain ⟨ih1, ih2⟩ := ih _ _ hq
      refine ⟨?_, ih2⟩
      have : (match (pcStep buf k pc op).2.1 with | .msg o => [o] | _ => []) = ([] : List Nat) := by
        split
        · rename_i o heq; exact absurd heq (ho o)
        · rfl
      simp only [pcReads, this, List.nil_append]
      exact ih1

private theorem pcYields_hwm (buf : Nat) (k : Key) (pc : PC) (ops : List PcOp) :
    (pcFinal buf k pc ops).hwm = pc.hwm + pcYields buf k pc ops := by
  induction ops generalizing pc with
  | nil => simp [pcFinal, pcYields]
  | cons op ops ih =>
    simp only [pcFinal, pcYields, ih]
    have : (pcStep buf k pc op).1.hwm = pc.hwm + (if op = .yieldMsg ∧ (pcStep buf k pc op).2.1 ≠ .block then 1 else 0) := by
      cases op <;> simp only [pcStep] <;> (repeat' split) <;> simp_all
    omega

/-- **offsets and high-water mark of the consumer mock**: for every sequence of calls on a freshly registered
    partition consumer (yields, reads, closes in any order, any buffer size) the messages received from
    `Messages()` carry the offsets 1,2,3,… in order without gap or repetition, whatever is still buffered is
    the next run of consecutive offsets, and `HighWaterMarkOffset()` is one more than the number of
    `YieldMessage` calls made. -/
theorem consumer_mock_offsets (buf : Nat) (k : Key) (off : Int) (ops : List PcOp) :
    pcReads buf k (PC.fresh off) ops = List.range' 1 (pcReads buf k (PC.fresh off) ops).length ∧
    (∃ a, QInv (pcFinal buf k (PC.fresh off) ops) a) ∧
    (pcFinal buf k (PC.fresh off) ops).hwmAnswer = pcYields buf k (PC.fresh off) ops + 1 := by
  have h0 : QInv (PC.fresh off) 1 := by simp [QInv, PC.fresh]
  obtain ⟨h1, h2⟩ := pcReads_from buf k (PC.fresh off) 1 ops h0
  refine ⟨h1, h2, ?_⟩
  simp [PC.hwmAnswer, pcYields_hwm, PC.fresh]

/-- a successful `YieldMessage` stamps the message with the next offset (`highWaterMarkOffset + 1`) -/
theorem yield_offset_spec (buf : Nat) (k : Key) (pc : PC) (h : (pcStep buf k pc .yieldMsg).2.1 = .ok) :
    (pcStep buf k pc .yieldMsg).1.msgs = pc.msgs ++ [pc.hwm + 1] ∧
    (pcStep buf k pc .yieldMsg).1.hwmAnswer = pc.hwmAnswer + 1 := by
  simp only [pcStep] at h ⊢
  split at h
  · simp at h
  · split at h
    · simp at h
    · rename_i h1 h2
      simp [h1, h2, PC.hwmAnswer]

private theorem pcStep_errs (buf : Nat) (k : Key) (pc : PC) (op : PcOp) :
    (match (pcStep buf k pc op).2.1 with | .err c => [c] | .closeRet l => l | _ => []) ++ (pcStep buf k pc op).1.errs =
      pc.errs ++ (match op, (pcStep buf k pc op).2.1 with | .yieldErr c, .ok => [c] | _, _ => []) := by
  cases op with
  | yieldMsg =>
    by_cases hc : pc.closed = true
    · simp [pcStep, hc]
    · by_cases hf : pc.msgs.length ≥ buf
      · simp [pcStep, hc, hf]
      · simp [pcStep, hc, hf]
  | yieldErr c =>
    by_cases hc : pc.closed = true
    · simp [pcStep, hc]
    · by_cases hf : pc.errs.length ≥ buf
      · simp [pcStep, hc, hf]
      · simp [pcStep, hc, hf]
  | expectMsgsDrained => simp [pcStep]
  | expectErrsDrained => simp [pcStep]
  | consume off => by_cases hc : pc.consumed = true <;> simp [pcStep, hc]
  | readMsg =>
    cases hm : pc.msgs with
    | nil => by_cases hc : pc.closed = true <;> simp [pcStep, hm, hc]
    | cons o rest => simp [pcStep, hm]
  | readErr =>
    cases hm : pc.errs with
    | nil => by_cases hc : pc.closed = true <;> simp [pcStep, hm, hc]
    | cons o rest => simp [pcStep, hm]
  | close => by_cases hc : pc.consumed = true <;> simp [pcStep, hc]
  | asyncClose => simp [pcStep]

/-- **errors are handed out in the order they were yielded**: what was received from `Errors()` or returned
    by `Close`, followed by what is still buffered, is what was buffered before followed by the accepted
    `YieldError` codes -/
theorem consumer_errors_fifo (buf : Nat) (k : Key) (pc : PC) (ops : List PcOp) :
    pcErrDelivered buf k pc ops ++ (pcFinal buf k pc ops).errs = pc.errs ++ pcErrAccepted buf k pc ops := by
  induction ops generalizing pc with
  | nil => simp [pcErrDelivered, pcFinal, pcErrAccepted]
  | cons op ops ih =>
    simp only [pcErrDelivered, pcFinal, pcErrAccepted, List.append_assoc, ih]
    rw [← List.append_assoc, pcStep_errs, List.append_assoc]

/-- **reporter calls of a partition consumer**: `Errorf` is called exactly for a `ConsumePartition` whose
    offset differs from the expected one (unless `AnyOffset` was expected), for a `Close` before the partition
    was ever consumed, and for errors/messages still buffered at `Close` when draining was demanded –
    for nothing else. -/
theorem pc_reporter_calls_spec (buf : Nat) (k : Key) (pc : PC) (op : PcOp) (r : Report) :
    r ∈ (pcStep buf k pc op).2.2 ↔
      (∃ off, op = .consume off ∧ pc.consumed = false ∧ pc.offset ≠ anyOffset ∧ pc.offset ≠ off ∧
          r = .unexpectedOffset k pc.offset off) ∨
      (op = .close ∧ pc.consumed = false ∧ r = .notStarted k) ∨
      (op = .close ∧ pc.consumed = true ∧ pc.errsDrained = true ∧ pc.errs ≠ [] ∧
          r = .errorsNotDrained k pc.errs.length) ∨
      (op = .close ∧ pc.consumed = true ∧ pc.msgsDrained = true ∧ pc.msgs ≠ [] ∧
          r = .messagesNotDrained k pc.msgs.length) := by
  cases op with
  | consume off =>
    simp only [pcStep]
    constructor
    · intro h
      left
      by_cases hc : pc.consumed = true
      · simp [hc] at h
      · simp only [hc, Bool.false_eq_true, ↓reduceIte] at h
        split at h
        · rename_i h1
          simp only [List.mem_singleton] at h
          exact ⟨off, rfl, by simpa using hc, h1.1, h1.2, h⟩
        · simp at h
    · rintro (⟨off', ho, hc, ha, hb, hr⟩ | ⟨ho, _⟩ | ⟨ho, _⟩ | ⟨ho, _⟩)
      · cases ho; simp [hc, ha, hb, hr]
      · cases ho
      · cases ho
      · cases ho
  | close =>
    simp only [pcStep, drainReports]
    by_cases hc : pc.consumed = true
    · simp only [hc, ↓reduceIte, List.mem_append]
      by_cases he : pc.errsDrained = true ∧ pc.errs.length > 0 <;> by_cases hm : pc.msgsDrained = true ∧ pc.msgs.length > 0 <;>
        simp [he, hm, List.length_pos_iff] <;> simp_all [List.length_pos_iff, and_assoc]
    · simp [hc]
  | yieldMsg => simp only [pcStep]; (repeat' split) <;> simp
  | yieldErr c => simp only [pcStep]; (repeat' split) <;> simp
  | readMsg => simp only [pcStep]; split <;> simp
  | readErr => simp only [pcStep]; split <;> simp
  | _ => simp [pcStep]

/-- how `Consumer` calls touch a partition consumer: not at all, by registering a fresh one, or through one
    partition-consumer call – so every invariant of partition consumers lifts to the consumer mock … -/
theorem cStep_pcs (buf : Nat) (s : CState) (op : COp) (k : Key) :
    (cStep buf s op).1.pcs k = s.pcs k ∨ (∃ off, (cStep buf s op).1.pcs k = PC.fresh off) ∨
    ∃ pop, (cStep buf s op).1.pcs k = (pcStep buf k (s.pcs k) pop).1 := by
  cases op with
  | expect k' off =>
    simp only [cStep]
    split
    · left; rfl
    · by_cases hk : k = k'
      · right; left; exact ⟨off, by simp [updK, hk]⟩
      · left; simp [updK, hk]
  | pc k' pop =>
    simp only [cStep]
    split
    · by_cases hk : k = k'
      · right; right; exact ⟨pop, by simp [updK, hk]⟩
      · left; simp [updK, hk]
    · left; split <;> rfl
  | closeAll =>
    simp only [cStep]
    by_cases hk : k ∈ s.keys
    · right; right; exact ⟨.close, by simp [hk]⟩
    · left; simp [hk]
  | hwms => left; rfl
  | topics => left; simp only [cStep]; split <;> rfl
  | partitions t =>
    left
    simp only [cStep]
    split
    · rfl
    · split <;> rfl
  | setMeta md => left; rfl

/-- … in particular the consecutive-offsets invariant holds for every partition after every sequence of
    consumer calls (registrations, consumes, yields, reads, closes of partitions and of the consumer, in any order) -/
theorem consumer_queue_invariant (buf : Nat) (ops : List COp) (k : Key) :
    ∃ a, QInv ((cFinal buf CState.init ops).pcs k) a := by
  suffices h : ∀ s : CState, (∀ k, ∃ a, QInv (s.pcs k) a) → ∀ k, ∃ a, QInv ((cFinal buf s ops).pcs k) a from
    h CState.init (fun _ => ⟨1, by simp [QInv, CState.init, PC.fresh]⟩) k
  induction ops with
  | nil => intro s hs k; exact hs k
  | cons op ops ih =>
    intro s hs k
    apply ih
    intro k'
    rcases cStep_pcs buf s op k' with h | ⟨off, h⟩ | ⟨pop, h⟩
    · rw [h]; exact hs k'
    · rw [h]; exact ⟨1, by simp [QInv, PC.fresh]⟩
    · rw [h]
      obtain ⟨a, ha⟩ := hs k'
      rcases pcStep_qinv buf k' (s.pcs k') a pop ha with ⟨_, hq⟩ | ⟨_, hq⟩
      · exact ⟨_, hq⟩
      · exact ⟨_, hq⟩

/-- **reporter calls of the consumer mock**: besides what the partition consumers report, `Errorf` is called
    exactly for `ConsumePartition` on a topic/partition that was never registered and for `Topics`/`Partitions`
    without metadata; `Close` reports what closing each registered partition consumer reports. -/
theorem consumer_reporter_calls_spec (buf : Nat) (s : CState) (op : COp) (r : Report) :
    r ∈ (cStep buf s op).2.2 ↔
      (∃ k pop, op = .pc k pop ∧ k ∈ s.keys ∧ r ∈ (pcStep buf k (s.pcs k) pop).2.2) ∨
      (∃ k off, op = .pc k (.consume off) ∧ k ∉ s.keys ∧ r = .noPartitionExpectation k) ∨
      (op = .closeAll ∧ ∃ k, k ∈ s.keys ∧ r ∈ (pcStep buf k (s.pcs k) .close).2.2) ∨
      ((op = .topics ∨ ∃ t, op = .partitions t) ∧ s.mdata = none ∧ r = .noMetadata) := by
  cases op with
  | expect k off => simp only [cStep]; split <;> simp
  | pc k pop =>
    simp only [cStep]
    by_cases hk : k ∈ s.keys
    · simp only [hk, ↓reduceIte]
      constructor
      · intro h; left; exact ⟨k, pop, rfl, hk, h⟩
      · rintro (⟨k', pop', ho, _, h⟩ | ⟨k', off, ho, hn, _⟩ | ⟨ho, _⟩ | ⟨ho | ⟨t, ho⟩, _⟩)
        · cases ho; exact h
        · cases ho; exact absurd hk hn
        · cases ho
        · cases ho
        · cases ho
    · simp only [hk, ↓reduceIte]
      constructor
      · intro h
        cases pop with
        | consume off =>
          simp only [List.mem_singleton] at h
          right; left; exact ⟨k, off, rfl, hk, h⟩
        | _ => simp at h
      · rintro (⟨k', pop', ho, hk', _⟩ | ⟨k', off, ho, _, hr⟩ | ⟨ho, _⟩ | ⟨ho | ⟨t, ho⟩, _⟩)
        · cases ho; exact absurd hk' hk
        · cases ho; simp [hr]
        · cases ho
        · cases ho
        · cases ho
  | closeAll => simp [cStep, List.mem_flatMap]
  | hwms => simp [cStep]
  | topics => simp only [cStep]; cases h : s.mdata <;> simp
  | partitions t =>
    simp only [cStep]
    cases h : s.mdata with
    | none => simp
    | some md => simp only; split <;> simp
  | setMeta md => simp [cStep]

/-! ## non-vacuity: concrete runs meeting the hypotheses -/

/-- three inputs on a two-expectation script (success, scripted error 9), round-robin over 3 partitions:
    outcomes in order, offsets, partitions, one reporter call for the third input -/
example :
    asyncOuts rrPart true ⟨true, true⟩ (PState.init rrPart [⟨none, none⟩, ⟨some 9, none⟩] (TopicCfg.new.setDefault 3))
        [⟨0, 0, 0, -1⟩, ⟨1, 0, 0, -1⟩, ⟨2, 0, 0, -1⟩]
      = [([.success 0 0 1], []), ([.error 1 .scripted 9 1], []), ([], [.noExpectation])] := by decide
/-- leftovers are reported at Close -/
example : closeReports (asyncFinal rrPart true ⟨true, true⟩
    (PState.init rrPart [⟨none, none⟩, ⟨some 9, none⟩, ⟨none, none⟩] TopicCfg.new) [⟨0, 0, 0, -1⟩]) = [.leftover 2] := by decide
/-- `SendMessages` with enough / too few expectations -/
example :
    (syncSendBatch manualPart (PState.init manualPart [⟨none, none⟩, ⟨some 4, none⟩, ⟨none, none⟩] TopicCfg.new)
        [⟨0, 0, 0, 5⟩, ⟨1, 0, 0, 6⟩, ⟨2, 0, 0, 7⟩]).2
      = (⟨some (.scripted, 4), [(5, 1), (6, 0), (7, 0)]⟩, []) := by decide
example :
    (syncSendBatch manualPart (PState.init manualPart [⟨none, none⟩] TopicCfg.new) [⟨0, 0, 0, 5⟩, ⟨1, 0, 0, 6⟩]).2
      = (⟨some (.outOfExpectations, 0), [(5, 0), (6, 0)]⟩, [.insufficient]) := by decide
/-- consumer: three yields, two reads, close with draining demanded: offsets 1,2 read, HWM 4, one reporter call -/
example :
    pcOuts 8 (0, 0) (PC.fresh 0) [.consume 5, .expectMsgsDrained, .yieldMsg, .yieldMsg, .yieldMsg, .readMsg, .readMsg, .close]
      = [(.consumeOk, [.unexpectedOffset (0, 0) 0 5]), (.ok, []), (.ok, []), (.ok, []), (.ok, []),
         (.msg 1, []), (.msg 2, []), (.closeRet [], [.messagesNotDrained (0, 0) 1])] := by decide
example : (pcFinal 8 (0, 0) (PC.fresh 0) [.yieldMsg, .yieldMsg, .yieldMsg]).hwmAnswer = 4 := by decide

end Props.C20
