import SaramaVerif.Model.Admin
/-
  C19 — admin operations reach the right broker and report its verdict.

  Property theorems about `Model.Admin` for ALL scripts (controller whereabouts, broker answers, leadership,
  coordinators), for the repaired variants; `_partial` theorems with the exact extra hypothesis plus concrete
  counter-examples for the behaviours of the pinned tree.
-/
namespace Props.C19
open Model.Admin

/-! ## Semantic reading of a broker answer (independent of what admin.go does with it) -/

/-- the answer says NOT_CONTROLLER where the protocol puts it: per topic for the single-topic operations,
    top level for AlterPartitionReassignments -/
def isNC : COp → Reply → Bool
  | _, .transport => false
  | .reassign _, .resp top _ => top == NOT_CONTROLLER
  | _, .resp _ items => items.lookup 0 == some NOT_CONTROLLER

/-- the answer acknowledges the operation: every requested item is present and no error code anywhere -/
def acked : COp → Reply → Bool
  | _, .transport => false
  | .reassign n, .resp top items =>
    top == 0 && items.all (fun it => it.2 == 0) && (List.range n).all (fun p => (items.lookup p).isSome)
  | _, .resp _ items => items.lookup 0 == some 0

def retryableO : Outcome → Bool
  | some e => isErrNoController e
  | none => false

/-- the variant handles NOT_CONTROLLER for this operation the way the property demands -/
def Faithful (v : Variant) : COp → Prop
  | .reassign _ => v.reassignRetries = true
  | _ => True

/-! ## `retryOnError` over a script of attempt results -/

private theorem retryLoop_script_first (retryable : Err → Bool) (script : Nat → Outcome) :
    ∀ (k fuel i : Nat) (last : Outcome), k < fuel →
      (∀ j, j < k → ∃ e, script (i + j) = some e ∧ retryable e = true) →
      (∀ e, script (i + k) = some e → retryable e = false) →
      retryLoop retryable (fun n => (n + 1, script n)) fuel i last = (i + k + 1, script (i + k)) := by
  intro k
  induction k with
  | zero =>
    intro fuel i last hk _ hfin
    obtain ⟨f, rfl⟩ : ∃ f, fuel = f + 1 := ⟨fuel - 1, by omega⟩
    simp only [retryLoop, Nat.add_zero]
    cases hsc : script i with
    | none => rfl
    | some e =>
      have := hfin e (by simpa using hsc)
      simp only [this, Bool.false_eq_true, ↓reduceIte]
  | succ k ih =>
    intro fuel i last hk hnc hfin
    obtain ⟨f, rfl⟩ : ∃ f, fuel = f + 1 := ⟨fuel - 1, by omega⟩
    obtain ⟨e, he, hr⟩ := hnc 0 (by omega)
    simp only [Nat.add_zero] at he
    simp only [retryLoop, he, hr, ↓reduceIte]
    have h1 : i + 1 + k = i + (k + 1) := by omega
    rw [ih f (i + 1) (some e) (by omega)
      (fun j hj => by have := hnc (j + 1) (by omega); rwa [show i + (j + 1) = i + 1 + j by omega] at this)
      (fun e' he' => hfin e' (by rwa [h1] at he'))]
    rw [h1]

private theorem retryLoop_script_exhaust (retryable : Err → Bool) (script : Nat → Outcome) :
    ∀ (fuel i : Nat) (last : Outcome),
      (∀ j, j < fuel → ∃ e, script (i + j) = some e ∧ retryable e = true) →
      retryLoop retryable (fun n => (n + 1, script n)) fuel i last =
        (i + fuel, if fuel = 0 then last else script (i + fuel - 1)) := by
  intro fuel
  induction fuel with
  | zero => intro i last _; simp [retryLoop]
  | succ f ih =>
    intro i last hnc
    obtain ⟨e, he, hr⟩ := hnc 0 (by omega)
    simp only [Nat.add_zero] at he
    simp only [retryLoop, he, hr, ↓reduceIte]
    rw [ih (i + 1) (some e) (fun j hj => by
      have := hnc (j + 1) (by omega); rwa [show i + (j + 1) = i + 1 + j by omega] at this)]
    have h1 : i + 1 + f = i + (f + 1) := by omega
    simp only [h1, ↓reduceIte, Nat.add_one_ne_zero]
    by_cases hf : f = 0
    · subst hf; simp [he]
    · simp [hf]

/-- `retryOnError`: the first attempt result that is nil or not retryable, if it comes within the attempt
    budget, is what the caller gets, after exactly that many calls of `fn` (no retry after it, a retry after
    every retryable error before it). -/
theorem retry_first_final (b : Budget) (max : Int) (retryable : Err → Bool) (script : Nat → Outcome) (k : Nat)
    (hk : k < attempts b max)
    (hnc : ∀ j, j < k → ∃ e, script j = some e ∧ retryable e = true)
    (hfin : ∀ e, script k = some e → retryable e = false) :
    retryScript b max retryable script = (k + 1, script k) := by
  unfold retryScript retryOnError
  have := retryLoop_script_first retryable script k (attempts b max) 0 none hk
    (fun j hj => by simpa using hnc j hj) (fun e he => hfin e (by simpa using he))
  simpa using this

/-- … and when every attempt of the budget (≥ 1) ends in a retryable error, the last one is returned after
    exactly `attempts` calls. -/
theorem retry_exhausted (b : Budget) (max : Int) (retryable : Err → Bool) (script : Nat → Outcome)
    (hpos : 0 < attempts b max)
    (hnc : ∀ j, j < attempts b max → ∃ e, script j = some e ∧ retryable e = true) :
    retryScript b max retryable script = (attempts b max, script (attempts b max - 1)) := by
  unfold retryScript retryOnError
  have := retryLoop_script_exhaust retryable script (attempts b max) 0 none
    (fun j hj => by simpa using hnc j hj)
  have hne : attempts b max ≠ 0 := by omega
  simpa [hne] using this

/-- the repaired budgets always make at least one attempt, whatever `Admin.Retry.Max` is -/
theorem attempts_pos_atLeastOne (max : Int) : 0 < attempts .atLeastOne max := by
  simp only [attempts]; split <;> omega

theorem attempts_pos_plusOne (max : Int) : 0 < attempts .plusOne max := by
  simp only [attempts]; omega

/-- pinned loop (`attempt < Max`): the spec needs `1 ≤ Admin.Retry.Max` -/
theorem attempts_pos_asIs (max : Int) (h : 1 ≤ max) : 0 < attempts .asIs max := by
  simp only [attempts]; omega

/-- F10a, concrete: with `Admin.Retry.Max = 0` the pinned loop returns nil without calling `fn` even though
    the only thing `fn` would have reported is an error; the repaired budgets call it once and return it. -/
example : retryScript .asIs 0 isErrNoController (fun _ => some .transport) = (0, none) := by decide
example : retryScript .atLeastOne 0 isErrNoController (fun _ => some .transport) = (1, some .transport) := by decide
example : retryScript .plusOne 0 isErrNoController (fun _ => some .transport) = (1, some .transport) := by decide

/-- non-vacuity of `retry_first_final`: two NOT_CONTROLLER answers, then success, budget 5 -/
example : retryScript .asIs 5 isErrNoController
    (fun i => if i < 2 then some (.kerr NOT_CONTROLLER) else none) = (3, none) := by decide

/-! ## What the closure bodies make of an answer -/

/-- single-topic operations: the code found for the topic is what the caller gets, typed, whatever it is -/
theorem inspect_item_code (v : Variant) (op : COp) (hop : ∀ n, op ≠ .reassign n) (top : Int)
    (items : List (Nat × Int)) (c : Int) (h : items.lookup 0 = some c) (hc : c ≠ 0) :
    (inspect v op (.resp top items)).1 = some (.kerr c) := by
  cases op <;> first | (exact absurd rfl (hop _)) | simp [inspect, inspectItem, h, hc]

theorem inspect_item_incomplete (v : Variant) (op : COp) (hop : ∀ n, op ≠ .reassign n) (top : Int)
    (items : List (Nat × Int)) (h : items.lookup 0 = none) :
    (inspect v op (.resp top items)).1 = some .incomplete := by
  cases op <;> first | (exact absurd rfl (hop _)) | simp [inspect, inspectItem, h]

theorem inspect_item_transport (v : Variant) (op : COp) (hop : ∀ n, op ≠ .reassign n) :
    (inspect v op .transport).1 = some .transport := by
  cases op <;> first | (exact absurd rfl (hop _)) | simp [inspect, inspectItem]

private theorem inspectItem_nc (r : Reply) :
    retryableO (inspectItem r).1 = (match r with
      | .transport => false | .resp _ items => items.lookup 0 == some NOT_CONTROLLER) ∧
    (inspectItem r).2 = (match r with
      | .transport => false | .resp _ items => items.lookup 0 == some NOT_CONTROLLER) := by
  cases r with
  | transport => simp [inspectItem, retryableO, isErrNoController]
  | resp top items =>
    simp only [inspectItem]
    cases h : items.lookup 0 with
    | none => simp [retryableO, isErrNoController]
    | some c =>
      by_cases hc : c = 0
      · subst hc; simp [retryableO, NOT_CONTROLLER]
      · simp [hc, retryableO, isErrNoController]

/-- a retryable error and a controller refresh happen exactly on a NOT_CONTROLLER answer -/
theorem inspect_nc (v : Variant) (op : COp) (hf : Faithful v op) (r : Reply) :
    retryableO (inspect v op r).1 = isNC op r ∧ (inspect v op r).2 = isNC op r := by
  cases op with
  | reassign n =>
    simp only [Faithful] at hf
    cases r with
    | transport => simp [inspect, inspectReassign, isNC, retryableO, isErrNoController]
    | resp top items =>
      simp only [inspect, inspectReassign, isNC, hf, true_and]
      by_cases ht : top = NOT_CONTROLLER
      · simp [ht, retryableO, isErrNoController]
      · simp only [ht, ↓reduceIte]
        split <;> simp [retryableO, isErrNoController, ht]
  | createTopic => have := inspectItem_nc r; cases r <;> simpa [inspect, isNC] using this
  | deleteTopic => have := inspectItem_nc r; cases r <;> simpa [inspect, isNC] using this
  | createPartitions => have := inspectItem_nc r; cases r <;> simpa [inspect, isNC] using this

/-- … and that error is NOT_CONTROLLER itself -/
theorem inspect_nc_err (v : Variant) (op : COp) (hf : Faithful v op) (r : Reply) (h : isNC op r = true) :
    (inspect v op r).1 = some (.kerr NOT_CONTROLLER) := by
  cases op with
  | reassign n =>
    simp only [Faithful] at hf
    cases r with
    | transport => simp [isNC] at h
    | resp top items =>
      simp only [isNC, beq_iff_eq] at h
      simp [inspect, inspectReassign, hf, h]
  | createTopic | deleteTopic | createPartitions =>
    cases r with
    | transport => simp [isNC] at h
    | resp top items =>
      simp only [isNC, beq_iff_eq] at h
      simp [inspect, inspectItem, h, NOT_CONTROLLER]

/-- success is what the closure reports exactly for an acknowledging answer (fully repaired variant) -/
theorem inspect_ok_iff (b : Budget) (op : COp) (r : Reply) :
    (inspect (Variant.fixed b) op r).1 = none ↔ acked op r = true := by
  cases op with
  | reassign n =>
    cases r with
    | transport => simp [inspect, inspectReassign, acked]
    | resp top items =>
      simp only [inspect, inspectReassign, Variant.fixed, true_and, acked]
      by_cases ht : top = NOT_CONTROLLER
      · subst ht; simp [NOT_CONTROLLER]
      · simp only [ht, ↓reduceIte]
        have hc : reassignCauses ⟨b, true, true, true⟩ n top items = [] ↔
            (top = 0 ∧ (∀ it ∈ items, it.2 = 0) ∧ ∀ p, p < n → (items.lookup p).isSome = true) := by
          simp only [reassignCauses, topCauses, itemCauses, missingCauses, ↓reduceIte, List.append_eq_nil_iff,
            List.map_eq_nil_iff, List.filter_eq_nil_iff, List.mem_range]
          constructor
          · rintro ⟨⟨h1, h2⟩, h3⟩
            refine ⟨?_, ?_, ?_⟩
            · by_cases h0 : top = 0
              · exact h0
              · simp [h0] at h1
            · intro it hit; have := h2 it hit; simpa using this
            · intro p hp; have := h3 p hp
              cases hl : items.lookup p <;> simp_all
          · rintro ⟨h1, h2, h3⟩
            refine ⟨⟨by simp [h1], ?_⟩, ?_⟩
            · intro it hit; simp [h2 it hit]
            · intro p hp; have := h3 p hp
              cases hl : items.lookup p <;> simp_all
        by_cases hcs : reassignCauses ⟨b, true, true, true⟩ n top items = []
        · simp only [hcs, ↓reduceIte, true_iff]
          obtain ⟨h1, h2, h3⟩ := hc.mp hcs
          simp only [Bool.and_eq_true, beq_iff_eq, List.all_eq_true, List.mem_range]
          exact ⟨⟨h1, fun it hit => h2 it hit⟩, h3⟩
        · simp only [hcs, ↓reduceIte, reduceCtorEq, false_iff]
          intro ha
          apply hcs; apply hc.mpr
          simp only [Bool.and_eq_true, beq_iff_eq, List.all_eq_true, List.mem_range] at ha
          exact ⟨ha.1.1, fun it hit => ha.1.2 it hit, ha.2⟩
  | createTopic | deleteTopic | createPartitions =>
    cases r with
    | transport => simp [inspect, inspectItem, acked]
    | resp top items =>
      simp only [inspect, inspectItem, acked]
      cases h : items.lookup 0 with
      | none => simp
      | some c =>
        by_cases hc : c = 0
        · subst hc; simp
        · simp [hc]

/-! ## Controller-bound operations -/

/-- client state is in step with the world: the cache names the controller of the next attempt and every
    earlier attempt went to the controller of its time -/
def PInv (w : World) (s : St) : Prop :=
  s.cached = w.ctrl s.log.length ∧ s.log = (List.range s.log.length).map w.ctrl

private theorem attempt_eq (v : Variant) (op : COp) (kv : List Nat) (w : World) (s : St)
    (hs : supported op kv = true) :
    attempt v op kv w s =
      (⟨if (inspect v op (w.reply s.log.length)).2 then w.ctrl (s.log.length + 1) else s.cached,
        s.log ++ [s.cached],
        if (inspect v op (w.reply s.log.length)).2 then s.refreshes + 1 else s.refreshes⟩,
       (inspect v op (w.reply s.log.length)).1) := by
  simp [attempt, hs]

private theorem log_step (w : World) (s : St) (h : PInv w s) :
    s.log ++ [s.cached] = (List.range (s.log.length + 1)).map w.ctrl := by
  obtain ⟨h1, h2⟩ := h
  rw [List.range_succ, List.map_append, ← h2, h1]; rfl

private theorem ctrl_loop_first (v : Variant) (op : COp) (kv : List Nat) (w : World)
    (hs : supported op kv = true) (hf : Faithful v op) :
    ∀ (k fuel : Nat) (s : St) (last : Outcome), k < fuel → PInv w s →
      (∀ j, j < k → isNC op (w.reply (s.log.length + j)) = true) →
      isNC op (w.reply (s.log.length + k)) = false →
      (retryLoop isErrNoController (attempt v op kv w) fuel s last).2 =
          (inspect v op (w.reply (s.log.length + k))).1 ∧
      (retryLoop isErrNoController (attempt v op kv w) fuel s last).1.log =
          (List.range (s.log.length + k + 1)).map w.ctrl ∧
      (retryLoop isErrNoController (attempt v op kv w) fuel s last).1.refreshes = s.refreshes + k := by
  intro k
  induction k with
  | zero =>
    intro fuel s last hk hinv _ hfin
    obtain ⟨f, rfl⟩ : ∃ f, fuel = f + 1 := ⟨fuel - 1, by omega⟩
    simp only [Nat.add_zero] at hfin ⊢
    have hnc := inspect_nc v op hf (w.reply s.log.length)
    rw [hfin] at hnc
    simp only [retryLoop, attempt_eq v op kv w s hs, hnc.2, Bool.false_eq_true, ↓reduceIte]
    cases ho : (inspect v op (w.reply s.log.length)).1 with
    | none => exact ⟨by trivial, log_step w s hinv, by trivial⟩
    | some e =>
      have hr : isErrNoController e = false := by
        have := hnc.1; rw [ho] at this; simpa [retryableO] using this
      simp only [hr, Bool.false_eq_true, ↓reduceIte]
      exact ⟨by trivial, log_step w s hinv, by trivial⟩
  | succ k ih =>
    intro fuel s last hk hinv hnc hfin
    obtain ⟨f, rfl⟩ : ∃ f, fuel = f + 1 := ⟨fuel - 1, by omega⟩
    have h0 : isNC op (w.reply s.log.length) = true := by simpa using hnc 0 (by omega)
    have hi := inspect_nc v op hf (w.reply s.log.length)
    rw [h0] at hi
    have he := inspect_nc_err v op hf _ h0
    simp only [retryLoop, attempt_eq v op kv w s hs, hi.2, ↓reduceIte, he]
    have hr : isErrNoController (.kerr NOT_CONTROLLER) = true := by decide
    simp only [hr, ↓reduceIte]
    have hlen : (s.log ++ [s.cached]).length = s.log.length + 1 := by simp
    have hinv' : PInv w ⟨w.ctrl (s.log.length + 1), s.log ++ [s.cached], s.refreshes + 1⟩ := by
      refine ⟨?_, ?_⟩
      · simp only [hlen]
      · simp only [hlen]; exact log_step w s hinv
    have := ih f ⟨w.ctrl (s.log.length + 1), s.log ++ [s.cached], s.refreshes + 1⟩
      (some (.kerr NOT_CONTROLLER)) (by omega) hinv'
      (fun j hj => by
        simp only [hlen]
        have := hnc (j + 1) (by omega); rwa [show s.log.length + (j + 1) = s.log.length + 1 + j by omega] at this)
      (by simp only [hlen]; rwa [show s.log.length + (k + 1) = s.log.length + 1 + k by omega] at hfin)
    simp only [hlen] at this
    have h1 : s.log.length + 1 + k = s.log.length + (k + 1) := by omega
    rw [h1] at this
    refine ⟨this.1, this.2.1, ?_⟩
    rw [this.2.2]; omega

private theorem ctrl_loop_exhaust (v : Variant) (op : COp) (kv : List Nat) (w : World)
    (hs : supported op kv = true) (hf : Faithful v op) :
    ∀ (fuel : Nat) (s : St) (last : Outcome), PInv w s →
      (∀ j, j < fuel → isNC op (w.reply (s.log.length + j)) = true) →
      (retryLoop isErrNoController (attempt v op kv w) fuel s last).2 =
          (if fuel = 0 then last else some (.kerr NOT_CONTROLLER)) ∧
      (retryLoop isErrNoController (attempt v op kv w) fuel s last).1.log =
          (List.range (s.log.length + fuel)).map w.ctrl ∧
      (retryLoop isErrNoController (attempt v op kv w) fuel s last).1.refreshes = s.refreshes + fuel := by
  intro fuel
  induction fuel with
  | zero => intro s last hinv _; exact ⟨rfl, hinv.2, rfl⟩
  | succ f ih =>
    intro s last hinv hnc
    have h0 : isNC op (w.reply s.log.length) = true := by simpa using hnc 0 (by omega)
    have hi := inspect_nc v op hf (w.reply s.log.length)
    rw [h0] at hi
    have he := inspect_nc_err v op hf _ h0
    simp only [retryLoop, attempt_eq v op kv w s hs, hi.2, ↓reduceIte, he]
    have hr : isErrNoController (.kerr NOT_CONTROLLER) = true := by decide
    simp only [hr, ↓reduceIte]
    have hlen : (s.log ++ [s.cached]).length = s.log.length + 1 := by simp
    have hinv' : PInv w ⟨w.ctrl (s.log.length + 1), s.log ++ [s.cached], s.refreshes + 1⟩ := by
      refine ⟨?_, ?_⟩
      · simp only [hlen]
      · simp only [hlen]; exact log_step w s hinv
    have := ih ⟨w.ctrl (s.log.length + 1), s.log ++ [s.cached], s.refreshes + 1⟩
      (some (.kerr NOT_CONTROLLER)) hinv'
      (fun j hj => by
        simp only [hlen]
        have := hnc (j + 1) (by omega); rwa [show s.log.length + (j + 1) = s.log.length + 1 + j by omega] at this)
    simp only [hlen] at this
    have h1 : s.log.length + 1 + f = s.log.length + (f + 1) := by omega
    rw [h1] at this
    refine ⟨?_, this.2.1, ?_⟩
    · rw [this.1]; by_cases hf0 : f = 0 <;> simp [hf0]
    · rw [this.2.2]; omega

private theorem pinv_init (w : World) : PInv w ⟨w.ctrl 0, [], 0⟩ := ⟨rfl, rfl⟩

/-- core statement, for every variant that is `Faithful` for the operation and every budget `n ≥ k+1`:
    if the answers to attempts `0..k-1` say NOT_CONTROLLER and the answer to attempt `k` does not, then the
    caller gets exactly what the closure makes of answer `k`; attempt `i` went to `ctrl i`, the controller
    the refreshed metadata named at that time; there were `k+1` requests and `k` refreshes. -/
theorem controller_op_core (v : Variant) (op : COp) (kv : List Nat) (max : Int) (w : World)
    (hs : supported op kv = true) (hf : Faithful v op) (k : Nat) (hk : k < attempts v.budget max)
    (hnc : ∀ j, j < k → isNC op (w.reply j) = true) (hfin : isNC op (w.reply k) = false) :
    (runCtrl v op kv max w).2 = (inspect v op (w.reply k)).1 ∧
    (runCtrl v op kv max w).1.log = (List.range (k + 1)).map w.ctrl ∧
    (runCtrl v op kv max w).1.refreshes = k := by
  unfold runCtrl retryOnError
  have := ctrl_loop_first v op kv w hs hf k (attempts v.budget max) ⟨w.ctrl 0, [], 0⟩ none hk (pinv_init w)
    (fun j hj => by simpa using hnc j hj) (by simpa using hfin)
  simpa using this

private theorem faithful_fixed (b : Budget) (op : COp) : Faithful (Variant.fixed b) op := by
  cases op <;> simp [Faithful, Variant.fixed]

private theorem faithful_single (v : Variant) (op : COp) (hop : ∀ n, op ≠ .reassign n) : Faithful v op := by
  cases op <;> first | (exact absurd rfl (hop _)) | trivial

/-- either the first `n` answers all say NOT_CONTROLLER or there is a first one that does not -/
private theorem first_final (op : COp) (w : World) : ∀ n : Nat,
    (∀ j, j < n → isNC op (w.reply j) = true) ∨
    ∃ k, k < n ∧ (∀ j, j < k → isNC op (w.reply j) = true) ∧ isNC op (w.reply k) = false := by
  intro n
  induction n with
  | zero => left; intro j hj; omega
  | succ n ih =>
    rcases ih with h | ⟨k, hk, h1, h2⟩
    · by_cases hn : isNC op (w.reply n) = true
      · left; intro j hj
        by_cases hjn : j = n
        · subst hjn; exact hn
        · exact h j (by omega)
      · right; exact ⟨n, by omega, h, by simpa using hn⟩
    · right; exact ⟨k, by omega, h1, h2⟩

/-- **controller_op_spec** (repaired variants, every operation, every `Admin.Retry.Max`, every script):
    the result is the first answer that is not NOT_CONTROLLER among the allowed attempts — as the closure
    reads it: success exactly when that answer acknowledges the operation; attempt `i` was sent to the
    controller named by the metadata of that time (`ctrl i`); number of requests = index of that answer + 1;
    one controller refresh per NOT_CONTROLLER answer. -/
theorem controller_op_spec (b : Budget) (op : COp) (kv : List Nat) (max : Int) (w : World)
    (hs : supported op kv = true) (k : Nat) (hk : k < attempts b max)
    (hnc : ∀ j, j < k → isNC op (w.reply j) = true) (hfin : isNC op (w.reply k) = false) :
    (runCtrl (Variant.fixed b) op kv max w).2 = (inspect (Variant.fixed b) op (w.reply k)).1 ∧
    ((runCtrl (Variant.fixed b) op kv max w).2 = none ↔ acked op (w.reply k) = true) ∧
    (runCtrl (Variant.fixed b) op kv max w).1.log = (List.range (k + 1)).map w.ctrl ∧
    (runCtrl (Variant.fixed b) op kv max w).1.refreshes = k := by
  have h := controller_op_core (Variant.fixed b) op kv max w hs (faithful_fixed b op) k hk hnc hfin
  refine ⟨h.1, ?_, h.2.1, h.2.2⟩
  rw [h.1]; exact inspect_ok_iff b op (w.reply k)

/-- other errors are returned unchanged and without retry (single-topic operations, ANY variant incl. the
    pinned one as long as one attempt is allowed): the code the then-current controller gave for the topic is
    the code the caller gets, typed; the request count stops at that answer. -/
theorem controller_op_error_unchanged (v : Variant) (op : COp) (hop : ∀ n, op ≠ .reassign n) (kv : List Nat)
    (max : Int) (w : World) (hs : supported op kv = true) (k : Nat) (hk : k < attempts v.budget max)
    (hnc : ∀ j, j < k → isNC op (w.reply j) = true)
    (top : Int) (items : List (Nat × Int)) (c : Int) (hr : w.reply k = .resp top items)
    (hl : items.lookup 0 = some c) (hc0 : c ≠ 0) (hc : c ≠ NOT_CONTROLLER) :
    (runCtrl v op kv max w).2 = some (.kerr c) ∧ (runCtrl v op kv max w).1.log.length = k + 1 := by
  have hfin : isNC op (w.reply k) = false := by
    rw [hr]; cases op <;> first | (exact absurd rfl (hop _)) | simp [isNC, hl, hc]
  have h := controller_op_core v op kv max w hs (faithful_single v op hop) k hk hnc hfin
  refine ⟨?_, ?_⟩
  · rw [h.1, hr]; exact inspect_item_code v op hop top items c hl hc0
  · rw [h.2.1]; simp

/-- budget exhausted: every allowed attempt was answered NOT_CONTROLLER — the caller gets NOT_CONTROLLER,
    after exactly `attempts` requests, each sent to the controller of its time -/
theorem controller_op_exhausted (b : Budget) (op : COp) (kv : List Nat) (max : Int) (w : World)
    (hs : supported op kv = true) (hpos : 0 < attempts b max)
    (hnc : ∀ j, j < attempts b max → isNC op (w.reply j) = true) :
    (runCtrl (Variant.fixed b) op kv max w).2 = some (.kerr NOT_CONTROLLER) ∧
    (runCtrl (Variant.fixed b) op kv max w).1.log = (List.range (attempts b max)).map w.ctrl := by
  unfold runCtrl retryOnError
  have := ctrl_loop_exhaust (Variant.fixed b) op kv w hs (faithful_fixed b op) (attempts b max)
    ⟨w.ctrl 0, [], 0⟩ none (pinv_init w) (fun j hj => by simpa using hnc j hj)
  have hne : attempts b max ≠ 0 := by omega
  simp only [Variant.fixed] at this ⊢
  refine ⟨?_, ?_⟩
  · rw [this.1]; simp [hne]
  · simpa using this.2.1

/-- success is reported ONLY if some allowed attempt was acknowledged by the controller of its time (and all
    earlier ones were turned away with NOT_CONTROLLER) — for every script, repaired variants -/
theorem controller_op_success_only_if_acked (b : Budget) (hb : b ≠ .asIs) (op : COp) (kv : List Nat) (max : Int)
    (w : World) (hs : supported op kv = true)
    (hok : (runCtrl (Variant.fixed b) op kv max w).2 = none) :
    ∃ k, k < attempts b max ∧ (∀ j, j < k → isNC op (w.reply j) = true) ∧ acked op (w.reply k) = true ∧
      (runCtrl (Variant.fixed b) op kv max w).1.log = (List.range (k + 1)).map w.ctrl := by
  have hpos : 0 < attempts b max := by
    cases b with
    | asIs => exact absurd rfl hb
    | atLeastOne => exact attempts_pos_atLeastOne max
    | plusOne => exact attempts_pos_plusOne max
  rcases first_final op w (attempts b max) with hall | ⟨k, hk, h1, h2⟩
  · have := (controller_op_exhausted b op kv max w hs hpos hall).1
    rw [hok] at this; exact absurd this (by simp)
  · have h := controller_op_spec b op kv max w hs k hk h1 h2
    exact ⟨k, hk, h1, h.2.1.mp hok, h.2.2.1⟩

/-- a Kafka version below what the request needs: nothing is sent and the caller is told so -/
theorem controller_op_unsupported (v : Variant) (op : COp) (kv : List Nat) (max : Int) (w : World)
    (hs : supported op kv = false) (hpos : 0 < attempts v.budget max) :
    runCtrl v op kv max w = (⟨w.ctrl 0, [], 0⟩, some (unsupportedErr op)) := by
  unfold runCtrl retryOnError
  obtain ⟨f, hf⟩ : ∃ f, attempts v.budget max = f + 1 := ⟨attempts v.budget max - 1, by omega⟩
  rw [hf]
  have hr : isErrNoController (unsupportedErr op) = false := by cases op <;> rfl
  simp [retryLoop, attempt, hs, hr]

/-- **controller_op_spec_partial** (pinned tree): the same statement holds for CreateTopic, DeleteTopic and
    CreatePartitions under the extra hypothesis `1 ≤ Admin.Retry.Max`. -/
theorem controller_op_spec_partial (op : COp) (hop : ∀ n, op ≠ .reassign n) (kv : List Nat) (max : Int)
    (_hmax : 1 ≤ max) (w : World) (hs : supported op kv = true) (k : Nat) (hk : k < max.toNat)
    (hnc : ∀ j, j < k → isNC op (w.reply j) = true) (hfin : isNC op (w.reply k) = false) :
    (runCtrl Variant.pinned op kv max w).2 = (inspect (Variant.fixed .asIs) op (w.reply k)).1 ∧
    ((runCtrl Variant.pinned op kv max w).2 = none ↔ acked op (w.reply k) = true) ∧
    (runCtrl Variant.pinned op kv max w).1.log = (List.range (k + 1)).map w.ctrl ∧
    (runCtrl Variant.pinned op kv max w).1.refreshes = k := by
  have h := controller_op_core Variant.pinned op kv max w hs (faithful_single _ op hop) k
    (by simpa [Variant.pinned, attempts] using hk) hnc hfin
  have hi : ∀ r, inspect Variant.pinned op r = inspect (Variant.fixed .asIs) op r := by
    intro r; cases op <;> first | (exact absurd rfl (hop _)) | rfl
  rw [hi] at h
  refine ⟨h.1, ?_, h.2.1, h.2.2⟩
  rw [h.1]; exact inspect_ok_iff .asIs op (w.reply k)

/-- pinned `AlterPartitionReassignments` (F10b): whatever the first answer is, it ends the operation —
    one request, no controller refresh, and the result is never a retryable error -/
theorem reassign_pinned_single_attempt (n : Nat) (kv : List Nat) (max : Int) (hmax : 1 ≤ max) (w : World)
    (hs : supported (.reassign n) kv = true) :
    (runCtrl Variant.pinned (.reassign n) kv max w).2 = (inspect Variant.pinned (.reassign n) (w.reply 0)).1 ∧
    (runCtrl Variant.pinned (.reassign n) kv max w).1.log = [w.ctrl 0] ∧
    (runCtrl Variant.pinned (.reassign n) kv max w).1.refreshes = 0 := by
  unfold runCtrl retryOnError
  obtain ⟨f, hf⟩ : ∃ f, attempts Variant.pinned.budget max = f + 1 :=
    ⟨max.toNat - 1, by simp only [Variant.pinned, attempts]; omega⟩
  rw [hf]
  have h2 : (inspect Variant.pinned (.reassign n) (w.reply 0)).2 = false := by
    cases w.reply 0 with
    | transport => rfl
    | resp top items =>
      simp only [inspect, inspectReassign, Variant.pinned, Bool.false_eq_true, false_and, ↓reduceIte]
      by_cases hcs : reassignCauses ⟨.asIs, false, false, false⟩ n top items = [] <;> simp [hcs]
  have h1 : ∀ e, (inspect Variant.pinned (.reassign n) (w.reply 0)).1 = some e → isErrNoController e = false := by
    intro e
    cases w.reply 0 with
    | transport => simp only [inspect, inspectReassign]; intro h; cases h; rfl
    | resp top items =>
      simp only [inspect, inspectReassign, Variant.pinned, Bool.false_eq_true, false_and, ↓reduceIte]
      by_cases hcs : reassignCauses ⟨.asIs, false, false, false⟩ n top items = []
      · simp [hcs]
      · simp only [hcs, ↓reduceIte]; intro h; cases h; rfl
  simp only [retryLoop, attempt_eq _ _ kv w _ hs, List.length_nil, h2, Bool.false_eq_true, ↓reduceIte]
  cases ho : (inspect Variant.pinned (.reassign n) (w.reply 0)).1 with
  | none => exact ⟨by trivial, by trivial, by trivial⟩
  | some e =>
    simp only [h1 e ho, Bool.false_eq_true, ↓reduceIte]
    exact ⟨by trivial, by trivial, by trivial⟩

/-! ### Counter-examples on the pinned variant (`by decide`) and non-vacuity -/

def wOf (ctrls : List Nat) (replies : List Reply) : World :=
  ⟨fun i => ctrls.getD i 0, fun i => replies.getD i .transport⟩

/-- F10a: `Admin.Retry.Max = 0`: success is reported, nothing was sent, although the controller would have
    refused (code 36) -/
example : runCtrl Variant.pinned .createTopic V1_0_0_0 0 (wOf [1, 1] [.resp 0 [(0, 36)]]) =
    (⟨1, [], 0⟩, none) := by decide
/-- … the repaired budgets send one request and return the refusal -/
example : runCtrl (Variant.fixed .atLeastOne) .createTopic V1_0_0_0 0 (wOf [1, 1] [.resp 0 [(0, 36)]]) =
    (⟨1, [1], 0⟩, some (.kerr 36)) := by decide

/-- F10b: NOT_CONTROLLER from broker 1, the new controller 2 would accept: the pinned tree gives up after one
    request with a wrapped error and never refreshes … -/
example : runCtrl Variant.pinned (.reassign 1) V2_4_0_0 5
      (wOf [1, 2, 2] [.resp 41 [], .resp 0 [(0, 0)]]) =
    (⟨1, [1], 0⟩, some (.wrapped [.code 41])) := by decide
/-- … the repaired variant follows the controller and succeeds -/
example : runCtrl (Variant.fixed .asIs) (.reassign 1) V2_4_0_0 5
      (wOf [1, 2, 2] [.resp 41 [], .resp 0 [(0, 0)]]) =
    (⟨2, [1, 2], 1⟩, none) := by decide

/-- pinned reassignments: a negative top-level code (−1, UNKNOWN_SERVER_ERROR) passes as success … -/
example : (runCtrl Variant.pinned (.reassign 1) V2_4_0_0 5 (wOf [1, 1] [.resp (-1) [(0, 0)]])).2 = none := by decide
example : (runCtrl (Variant.fixed .asIs) (.reassign 1) V2_4_0_0 5 (wOf [1, 1] [.resp (-1) [(0, 0)]])).2 =
    some (.wrapped [.code (-1)]) := by decide
/-- … and so does a response that lacks a requested partition -/
example : (runCtrl Variant.pinned (.reassign 2) V2_4_0_0 5 (wOf [1, 1] [.resp 0 [(0, 0)]])).2 = none := by decide
example : (runCtrl (Variant.fixed .asIs) (.reassign 2) V2_4_0_0 5 (wOf [1, 1] [.resp 0 [(0, 0)]])).2 =
    some (.wrapped [.incomplete]) := by decide

/-- non-vacuity of `controller_op_spec`: controller moves 1 → 3 → 2 during a CreateTopic, third attempt is
    refused with code 36: three requests to 1, 3, 2, two refreshes, error 36 unchanged -/
example : runCtrl (Variant.fixed .asIs) .createTopic V1_0_0_0 5
      (wOf [1, 3, 2, 2] [.resp 0 [(0, 41)], .resp 0 [(0, 41)], .resp 0 [(0, 36)], .resp 0 [(0, 0)]]) =
    (⟨2, [1, 3, 2], 2⟩, some (.kerr 36)) := by decide
example : isNC .createTopic (.resp 0 [(0, 41)]) = true ∧ isNC .createTopic (.resp 0 [(0, 36)]) = false ∧
    supported .createTopic V1_0_0_0 = true ∧ (2 : Nat) < attempts .asIs 5 := by decide
/-- budget exhausted after `Max = 2` attempts -/
example : runCtrl (Variant.fixed .asIs) .deleteTopic V0_11_0_0 2
      (wOf [1, 2, 3, 1] [.resp 0 [(0, 41)], .resp 0 [(0, 41)], .resp 0 [(0, 0)]]) =
    (⟨3, [1, 2], 2⟩, some (.kerr 41)) := by decide

/-! ## Leader / coordinator bound operations: grouping -/

private theorem groupBy_cons (b : Nat) (bs : List Nat) (owner : Nat → Nat) (items : List Nat) :
    groupBy (b :: bs) owner items =
      (if (owned owner items b).isEmpty then [] else [(b, owned owner items b)]) ++ groupBy bs owner items := by
  simp only [groupBy, List.filter_cons]
  by_cases h : (owned owner items b).isEmpty = true
  · simp [h]
  · simp [h]

private theorem groupBy_fst (brokers : List Nat) (owner : Nat → Nat) (items : List Nat) :
    (groupBy brokers owner items).map (·.1) = brokers.filter (fun b => !(owned owner items b).isEmpty) := by
  simp [groupBy, List.map_map, Function.comp_def]

/-- one request per broker: no broker appears twice in the plan -/
theorem group_one_request_per_broker (brokers : List Nat) (hb : brokers.Nodup) (owner : Nat → Nat)
    (items : List Nat) : ((groupBy brokers owner items).map (·.1)).Nodup := by
  rw [groupBy_fst]; exact hb.filter _

/-- every request goes to a broker of the cluster, is not empty, and carries exactly the requested items that
    broker owns (so an item never reaches a broker that does not own it) -/
theorem group_entries (brokers : List Nat) (owner : Nat → Nat) (items : List Nat) (g : Nat × List Nat)
    (hg : g ∈ groupBy brokers owner items) :
    g.1 ∈ brokers ∧ g.2 ≠ [] ∧ g.2 = owned owner items g.1 ∧ ∀ p, p ∈ g.2 → owner p = g.1 ∧ p ∈ items := by
  simp only [groupBy, List.mem_map, List.mem_filter] at hg
  obtain ⟨b, ⟨hb, hne⟩, rfl⟩ := hg
  refine ⟨hb, ?_, rfl, ?_⟩
  · intro h; simp only [List.isEmpty_iff, Bool.not_eq_eq_eq_not, Bool.not_true, ← Bool.not_eq_true] at hne; exact hne h
  · intro p hp
    simp only [owned, List.mem_filter, beq_iff_eq] at hp
    exact ⟨hp.2, hp.1⟩

private theorem groupBy_flat (brokers : List Nat) (owner : Nat → Nat) (items : List Nat) :
    (groupBy brokers owner items).flatMap (·.2) = brokers.flatMap (owned owner items) := by
  induction brokers with
  | nil => rfl
  | cons b bs ih =>
    rw [groupBy_cons, List.flatMap_append, ih, List.flatMap_cons]
    by_cases h : (owned owner items b).isEmpty = true
    · simp only [h, ↓reduceIte, List.flatMap_nil, List.nil_append]
      rw [List.isEmpty_iff.mp h]; rfl
    · simp [h]

private theorem count_flat (owner : Nat → Nat) (items : List Nat) (p : Nat) :
    ∀ bs : List Nat, bs.Nodup →
      (bs.flatMap (owned owner items)).count p = if owner p ∈ bs then items.count p else 0 := by
  intro bs
  induction bs with
  | nil => intro _; simp
  | cons b bs ih =>
    intro hnd
    rw [List.nodup_cons] at hnd
    rw [List.flatMap_cons, List.count_append, ih hnd.2]
    by_cases hb : owner p = b
    · have h1 : (owned owner items b).count p = items.count p := by
        unfold owned; exact List.count_filter (by simp [hb])
      subst hb
      simp [h1, hnd.1]
    · have h1 : (owned owner items b).count p = 0 := by
        apply List.count_eq_zero.mpr
        simp only [owned, List.mem_filter, beq_iff_eq, not_and]
        intro _; exact hb
      have h3 : (owner p ∈ b :: bs) ↔ owner p ∈ bs := by simp [hb]
      simp only [h1, Nat.zero_add, h3]

/-- every requested item is sent exactly as often as it was requested — once for a duplicate-free request —
    counted over ALL requests of the plan (so: to its owner, and to nobody else) -/
theorem group_each_item_once (brokers : List Nat) (hb : brokers.Nodup) (owner : Nat → Nat) (items : List Nat)
    (p : Nat) (hp : owner p ∈ brokers) :
    ((groupBy brokers owner items).flatMap (·.2)).count p = items.count p := by
  rw [groupBy_flat, count_flat owner items p brokers hb]; simp [hp]

private theorem firstLookupError_none (look : Nat → Except Int Nat) (items : List Nat) :
    firstLookupError look items = none ↔ ∀ p, p ∈ items → ∃ b, look p = .ok b := by
  induction items with
  | nil => simp [firstLookupError]
  | cons p ps ih =>
    simp only [firstLookupError]
    cases h : look p with
    | error c =>
      simp only [reduceCtorEq, List.mem_cons, forall_eq_or_imp, false_iff, not_and]
      intro hx; obtain ⟨b, hb⟩ := hx; rw [h] at hb; cases hb
    | ok b =>
      simp only [ih, List.mem_cons, forall_eq_or_imp]
      constructor
      · intro hx; exact ⟨⟨b, h⟩, hx⟩
      · intro hx; exact hx.2

private theorem ownerOf_ok (look : Nat → Except Int Nat) (p b : Nat) (h : look p = .ok b) : ownerOf look p = b := by
  simp [ownerOf, h]

private theorem itemCauses_nil (codes : List (Nat × Int)) :
    itemCauses codes = [] ↔ ∀ it, it ∈ codes → it.2 = 0 := by
  simp only [itemCauses, List.map_eq_nil_iff, List.filter_eq_nil_iff]
  constructor
  · intro h it hit; simpa using h it hit
  · intro h it hit; simp [h it hit]

/-- **grouping_spec** for `DeleteRecords` (Kafka ≥ 0.11, every leadership map, every answer of every broker):
    if every partition has a leader in the cluster, then
    * the requests are one per broker, each carrying exactly the partitions that broker leads — every
      partition is sent exactly as often as requested, and only to its leader;
    * the operation succeeds exactly if every asked broker answered for the topic with no error code on any
      partition — a failed call, a response without the topic, or one partition error on one broker makes
      the whole operation report an error. -/
theorem grouping_spec_delete_records (kv : List Nat) (hkv : isAtLeast kv V0_11_0_0 = true)
    (brokers : List Nat) (hb : brokers.Nodup) (parts : List Nat)
    (leader : Nat → Except Int Nat) (reply : Nat → DRReply)
    (hl : ∀ p, p ∈ parts → ∃ b, leader p = .ok b ∧ b ∈ brokers) :
    let r := deleteRecords kv brokers parts leader reply
    (r.2.map (·.1)).Nodup ∧
    (∀ g, g ∈ r.2 → g.1 ∈ brokers ∧ g.2 ≠ [] ∧ ∀ p, p ∈ g.2 → leader p = .ok g.1 ∧ p ∈ parts) ∧
    (∀ p, p ∈ parts → (r.2.flatMap (·.2)).count p = parts.count p) ∧
    (r.1 = none ↔ ∀ g, g ∈ r.2 → ∃ codes, reply g.1 = .parts codes ∧ ∀ it, it ∈ codes → it.2 = 0) := by
  have hnone : firstLookupError leader parts = none :=
    (firstLookupError_none leader parts).mpr (fun p hp => by obtain ⟨b, h, _⟩ := hl p hp; exact ⟨b, h⟩)
  simp only [deleteRecords, hnone, hkv, ↓reduceIte, drPlan]
  refine ⟨group_one_request_per_broker brokers hb _ parts, ?_, ?_, ?_⟩
  · intro g hg
    obtain ⟨h1, h2, _, h4⟩ := group_entries brokers (ownerOf leader) parts g hg
    refine ⟨h1, h2, fun p hp => ?_⟩
    obtain ⟨ho, hpm⟩ := h4 p hp
    obtain ⟨b, hlb, _⟩ := hl p hpm
    rw [ownerOf_ok leader p b hlb] at ho
    exact ⟨by rw [hlb, ho], hpm⟩
  · intro p hp
    obtain ⟨b, hlb, hbb⟩ := hl p hp
    exact group_each_item_once brokers hb (ownerOf leader) parts p (by rw [ownerOf_ok leader p b hlb]; exact hbb)
  · have hflat : drErrs kv brokers parts leader reply = [] ↔
        ∀ g, g ∈ groupBy brokers (ownerOf leader) parts → drCauses true (reply g.1) = [] := by
      simp only [drErrs, drPlan, hkv, List.flatMap_eq_nil_iff]
    have hone : ∀ rp : DRReply, drCauses true rp = [] ↔ ∃ codes, rp = .parts codes ∧ ∀ it, it ∈ codes → it.2 = 0 := by
      intro rp
      cases rp with
      | transport => simp [drCauses]
      | noTopic => simp [drCauses]
      | parts codes => simp [drCauses, itemCauses_nil]
    by_cases he : drErrs kv brokers parts leader reply = []
    · simp only [he, ↓reduceIte, true_iff]
      intro g hg; exact (hone _).mp (hflat.mp he g hg)
    · simp only [he, ↓reduceIte, reduceCtorEq, false_iff]
      intro hall; apply he; apply hflat.mpr
      intro g hg; exact (hone _).mpr (hall g hg)

/-- a partition without a leader (lookup error): that error is returned and nothing is sent -/
theorem delete_records_lookup_error (kv : List Nat) (brokers parts : List Nat) (leader : Nat → Except Int Nat)
    (reply : Nat → DRReply) (c : Int) (h : firstLookupError leader parts = some c) :
    deleteRecords kv brokers parts leader reply = (some (.lookup c), []) := by
  simp [deleteRecords, h]

/-- **grouping_spec** for `DescribeConsumerGroups`: if every group has a coordinator in the cluster, the plan
    is one request per coordinator with exactly its groups (every group exactly as often as requested, only to
    its coordinator); the result is an error as soon as one coordinator's call fails, otherwise it is all
    descriptions the coordinators returned, unchanged (per-group error codes included). -/
theorem grouping_spec_describe_groups (brokers : List Nat) (hb : brokers.Nodup) (groups : List Nat)
    (coord : Nat → Except Int Nat) (reply : Nat → Option (List (Nat × Int)))
    (hl : ∀ g, g ∈ groups → ∃ b, coord g = .ok b ∧ b ∈ brokers) :
    let r := describeGroups brokers groups coord reply
    (r.2.map (·.1)).Nodup ∧
    (∀ e, e ∈ r.2 → e.1 ∈ brokers ∧ e.2 ≠ [] ∧ ∀ g, g ∈ e.2 → coord g = .ok e.1 ∧ g ∈ groups) ∧
    (∀ g, g ∈ groups → (r.2.flatMap (·.2)).count g = groups.count g) ∧
    ((∃ e, e ∈ r.2 ∧ reply e.1 = none) → r.1 = .error .transport) ∧
    ((∀ e, e ∈ r.2 → (reply e.1).isSome = true) → r.1 = .ok (r.2.flatMap (fun e => (reply e.1).getD []))) := by
  have hnone : firstLookupError coord groups = none :=
    (firstLookupError_none coord groups).mpr (fun p hp => by obtain ⟨b, h, _⟩ := hl p hp; exact ⟨b, h⟩)
  have hent : ∀ e, e ∈ groupBy brokers (ownerOf coord) groups →
      e.1 ∈ brokers ∧ e.2 ≠ [] ∧ ∀ g, g ∈ e.2 → coord g = .ok e.1 ∧ g ∈ groups := by
    intro e he
    obtain ⟨h1, h2, _, h4⟩ := group_entries brokers (ownerOf coord) groups e he
    refine ⟨h1, h2, fun p hp => ?_⟩
    obtain ⟨ho, hpm⟩ := h4 p hp
    obtain ⟨b, hlb, _⟩ := hl p hpm
    rw [ownerOf_ok coord p b hlb] at ho
    exact ⟨by rw [hlb, ho], hpm⟩
  have hcnt : ∀ g, g ∈ groups →
      ((groupBy brokers (ownerOf coord) groups).flatMap (·.2)).count g = groups.count g := by
    intro p hp
    obtain ⟨b, hlb, hbb⟩ := hl p hp
    exact group_each_item_once brokers hb (ownerOf coord) groups p
      (by rw [ownerOf_ok coord p b hlb]; exact hbb)
  simp only [describeGroups, hnone]
  by_cases hall : (groupBy brokers (ownerOf coord) groups).all (fun g => (reply g.1).isSome) = true
  · simp only [hall, ↓reduceIte]
    refine ⟨group_one_request_per_broker brokers hb _ groups, hent, hcnt, ?_, fun _ => trivial⟩
    rintro ⟨e, he, hn⟩
    simp only [List.all_eq_true] at hall
    have := hall e he; simp [hn] at this
  · simp only [hall, Bool.false_eq_true, ↓reduceIte]
    refine ⟨group_one_request_per_broker brokers hb _ groups, hent, hcnt, fun _ => trivial, ?_⟩
    intro hx; exfalso; apply hall
    simp only [List.all_eq_true]; exact hx

theorem describe_groups_lookup_error (brokers groups : List Nat) (coord : Nat → Except Int Nat)
    (reply : Nat → Option (List (Nat × Int))) (c : Int) (h : firstLookupError coord groups = some c) :
    describeGroups brokers groups coord reply = (.error (.lookup c), []) := by
  simp [describeGroups, h]

/-- `DeleteConsumerGroup` (Kafka ≥ 1.1): exactly one request, to the group's coordinator; success exactly if
    the coordinator answered code 0 for the group; any other code comes back unchanged -/
theorem delete_group_spec (kv : List Nat) (hkv : isAtLeast kv V1_1_0_0 = true) (b : Nat) (reply : DGReply) :
    (deleteGroup kv (.ok b) reply).2 = [b] ∧
    ((deleteGroup kv (.ok b) reply).1 = none ↔ reply = .code 0) ∧
    (∀ c, c ≠ 0 → reply = .code c → (deleteGroup kv (.ok b) reply).1 = some (.kerr c)) := by
  refine ⟨by simp [deleteGroup, hkv], ?_, ?_⟩
  · cases reply with
    | transport => simp [deleteGroup, hkv]
    | missing => simp [deleteGroup, hkv]
    | code c => by_cases hc : c = 0 <;> simp [deleteGroup, hkv, hc]
  · intro c hc hr; subst hr; simp [deleteGroup, hkv, hc]

/-- `ListConsumerGroupOffsets`: one request, to the coordinator; the per-partition verdicts reach the caller
    unchanged, the top-level one from request version 2 on (Kafka ≥ 0.10.2), a failed call is an error -/
theorem list_group_offsets_spec (kv : List Nat) (b : Nat) (reply : Option (Int × List (Nat × Int))) :
    (listGroupOffsets kv (.ok b) reply).2.2 = [b] ∧
    (reply = none → (listGroupOffsets kv (.ok b) reply).1 = .error .transport) ∧
    (∀ top blocks, reply = some (top, blocks) → isAtLeast kv V0_10_2_0 = true →
        (listGroupOffsets kv (.ok b) reply).1 = .ok (top, blocks)) := by
  refine ⟨?_, ?_, ?_⟩
  · cases reply with
    | none => rfl
    | some r => rfl
  · intro h; subst h; rfl
  · intro top blocks h hkv; subst h
    simp [listGroupOffsets, offsetFetchVersion, offsetFetchVersionOf, hkv]

/-- `DescribeLogDirs` over known broker ids: one request per id, an error is reported iff some call failed -/
theorem describe_log_dirs_spec (ids : List Nat) (ok : Nat → Bool) :
    (describeLogDirs ids ok).2.2 = ids ∧
    ((describeLogDirs ids ok).1 = true ↔ ∃ b, b ∈ ids ∧ ok b = false) ∧
    (∀ b, b ∈ (describeLogDirs ids ok).2.1 ↔ b ∈ ids ∧ ok b = true) := by
  refine ⟨rfl, ?_, ?_⟩
  · simp [describeLogDirs]
  · intro b; simp [describeLogDirs]

/-! ### non-vacuity / concrete instances for the grouping theorems -/

/-- six partitions over three brokers, broker 2 reports code 7 for partition 4: one request per broker with
    the right partitions, aggregated error -/
example : deleteRecords V1_0_0_0 [1, 2, 3] [0, 1, 2, 3, 4, 5]
      (fun p => .ok (p % 3 + 1))
      (fun b => .parts (if b = 2 then [(1, 0), (4, 7)] else [])) =
    (some (.wrapped [.code 7]), [(1, [0, 3]), (2, [1, 4]), (3, [2, 5])]) := by decide
/-- everything acknowledged → success -/
example : (deleteRecords V1_0_0_0 [1, 2, 3] [0, 1, 2] (fun p => .ok (p % 3 + 1)) (fun _ => .parts [])).1 = none := by
  decide
/-- a failed broker call (partitions on two brokers) → error -/
example : deleteRecords V1_0_0_0 [1, 2, 3] [0, 1] (fun p => .ok (p + 1))
      (fun b => if b = 2 then .transport else .parts [(0, 0)]) =
    (some (.wrapped [.transport]), [(1, [0]), (2, [1])]) := by decide
/-- leaderless partition → lookup error, nothing sent -/
example : deleteRecords V1_0_0_0 [1, 2, 3] [0, 1] (fun p => if p = 1 then .error 5 else .ok 1)
      (fun _ => .parts []) = (some (.lookup 5), []) := by decide
/-- groups 1..3 with coordinators 2, 2, 3 -/
example : ((describeGroups [1, 2, 3] [1, 2, 3] (fun g => .ok (if g = 3 then 3 else 2))
      (fun b => some (if b = 2 then [(1, 0), (2, 16)] else [(3, 0)]))).1.toOption,
    (describeGroups [1, 2, 3] [1, 2, 3] (fun g => .ok (if g = 3 then 3 else 2))
      (fun b => some (if b = 2 then [(1, 0), (2, 16)] else [(3, 0)]))).2) =
    (some [(1, 0), (2, 16), (3, 0)], [(2, [1, 2]), (3, [3])]) := by decide

end Props.C19
