/-
  C02 composition, stage C, system level: ONE inner-state relation for all worker steps.  `BRp p k j`: the one-partition
  worker `j` is the projection `projB p` of the shared worker `k` except for `stale` (not related) and the set at the
  bridge, which is the projected set or HIDDEN (it holds nothing of `p`: `j` has no set and no pending answer); the
  pending answer of a visible set is the projected answer (`projV`: the verdict of `p`, or the request-level error) with
  the base offset of `p`.
    * `recv_ss`               - taking a token reads neither `stale` nor the set at the bridge.
    * `proj_bpRecv_own_p`     - PROVED: a worker takes a token of `p` (a set - visible or hidden - may be at the bridge):
                                the `bpRecv` step of `Model.Pipeline`.
    * `proj_bpRecv_foreign_p` - PROVED: a token of another partition: no step of the projection.
-/
import SaramaVerif.Props.C02multiB

set_option linter.unusedSimpArgs false

namespace Props.C02sys
open Model Model.Pipeline Model.PipelineN Model.BrokerProd Lemmas.C02sys

/-- the answer as partition `p` sees it -/
def projV (p : Int) : RespN → Pipeline.Verdict
  | .parts f => match f p with
    | .conn _ => .fatal
    | x => x
  | .conn a => .conn a

def projPend (p : Int) : Option (RespN × (Int → Nat)) → Option (Pipeline.Verdict × Nat)
  | none => none
  | some (r, base) => some (projV p r, base p)

def BRp (p : Int) (k : WorkerN) (j : Worker) : Prop :=
  ∃ hid : Bool,
    j.bp = ({ projB p k.bp with sets := j.bp.sets, stale := j.bp.stale } : St) ∧
    j.bp.sets = (if hid then [] else k.bp.sets.map (projL p)) ∧
    (hid = true → k.bp.sets ≠ [] ∧ ∀ x ∈ k.bp.sets, projL p x = []) ∧
    (k.bp.sets = [] → k.pend = none) ∧
    j.pend = (if hid then none else projPend p k.pend)

theorem innerOnly_BRp (p : Int) : InnerOnly (BRp p) := by
  intro k k' j j' h1 h2 h3 h4 ⟨hid, a⟩
  exact ⟨hid, by rw [h3, h1, h2, h4]; exact a⟩

/-- taking a token reads neither `stale` nor the set at the bridge -/
theorem recv_ss (M : Nat) (b : St) (S : List (List Pipeline.Tok)) (x : Bool) (t : Pipeline.Tok) (ov : Bool) :
    (step M { b with sets := S, stale := x } (.recv t ov)).2 = (step M b (.recv t ov)).2 ∧
    (step M { b with sets := S, stale := x } (.recv t ov)).1 =
      ({ (step M b (.recv t ov)).1 with
          sets := S, stale := (step M { b with sets := S, stale := x } (.recv t ov)).1.stale } : St) ∧
    (step M b (.recv t ov)).1.sets = b.sets := by
  cases hw : b.wait with
  | some w => simp [step, recv, hw]
  | none =>
    by_cases hk : t.kind = .syn
    · simp [step, recv, hw, hk]
    · cases hnr : needsRetry b t.part with
      | true =>
        simp only [needsRetry] at hnr
        by_cases hf : t.kind = .fin
        · cases hc : b.closing with
          | false =>
            have hcr : b.cr t.part = true := by simpa [hc] using hnr
            simp [step, recv, hw, hk, needsRetry, hf, hc, hcr]
          | true => simp [step, recv, hw, hk, needsRetry, hf, hc]
        · simp [step, recv, hw, hk, needsRetry, hnr, hf]
      | false =>
        simp only [needsRetry] at hnr
        by_cases hf : t.kind = .fin
        · simp [step, recv, hw, hk, needsRetry, hnr, hf]
        · cases ov <;> simp [step, recv, hw, hk, needsRetry, hnr, hf]

/-- the N-side of a `bpRecv` step -/
theorem bpRecvN_spec {M : Nat} {sN sN' : SysN} {w : Nat} {ov : Bool} {t : Pipeline.Tok} {r : List Pipeline.Tok}
    (hq : (sN.wk w).inq = t :: r) (hs : sysStepN M sN (.bpRecv w ov) = some sN') :
    (sN.wk w).bp.wait = none ∧
    sN' = bpActsN { sN with wk := setWN sN.wk w ⟨r, (step M (sN.wk w).bp (.recv t ov)).1, (sN.wk w).pend⟩ } (fun _ => 0)
      (step M (sN.wk w).bp (.recv t ov)).2 := by
  simp only [sysStepN, hq, bpRunN] at hs
  split at hs
  · cases hs
  · rename_i hd
    simp only [Option.some.injEq] at hs
    exact ⟨recv_disabled M _ t ov hd, hs.symm⟩

/-- **a worker takes a token of another partition (a set may be at the bridge): no step of the projection** -/
theorem proj_bpRecv_foreign_p {M : Nat} {p : Int} {sN sN' : SysN} {s : Sys} {w : Nat} {ov : Bool} {t : Pipeline.Tok}
    {r : List Pipeline.Tok} (h : WRel (BRp p) p sN s) (hq : (sN.wk w).inq = t :: r) (ht : t.part ≠ p)
    (hs : sysStepN M sN (.bpRecv w ov) = some sN') : WRel (BRp p) p sN' s := by
  obtain ⟨hw, rfl⟩ := bpRecvN_spec hq hs
  obtain ⟨hid, hb, hsets, hhid, hk0, hpend⟩ := h.br w
  have hq0 : QRel p { sN with wk := setWN sN.wk w ⟨r, (step M (sN.wk w).bp (.recv t ov)).1, (sN.wk w).pend⟩ } s :=
    ⟨h.q.next, h.q.dq, h.q.pq, h.q.pp, h.q.ret, h.q.ldr, h.q.log, h.q.succ, h.q.errs, h.q.pqp⟩
  obtain ⟨r1, r2, r3⟩ := bpActsN_foreign (step M (sN.wk w).bp (.recv t ov)).2 (fun _ => 0) hq0
    (recv_foreignActs M _ t ov hw p ht)
  have hkeep := (recv_ss M (sN.wk w).bp [] false t ov).2.2
  refine ⟨r1, by rw [r3]; exact h.cur, fun k => ?_, fun k => ?_⟩
  · rw [r2]
    by_cases hk : k = w
    · subst hk; simp only [setWN, if_true]; rw [h.inq k, hq, projQ_cons_other ht]
    · simp only [setWN, hk, if_false]; exact h.inq k
  · rw [r2]
    by_cases hk : k = w
    · subst hk; simp only [setWN, if_true]
      refine ⟨hid, ?_, by rw [hkeep]; exact hsets, by rw [hkeep]; exact hhid, by rw [hkeep]; exact hk0, hpend⟩
      rw [recv_proj_foreign M p _ t ov ht hw]
      rw [hb]
    · simp only [setWN, hk, if_false]; exact h.br k

/-- **a worker takes a token of `p` (a set - visible or hidden - may be at the bridge): the `bpRecv` step** -/
theorem proj_bpRecv_own_p {M : Nat} {p : Int} {sN sN' : SysN} {s : Sys} {w : Nat} {ov : Bool} {t : Pipeline.Tok}
    {r : List Pipeline.Tok} (h : WRel (BRp p) p sN s) (hq : (sN.wk w).inq = t :: r) (ht : t.part = p)
    (hs : sysStepN M sN (.bpRecv w ov) = some sN') :
    ∃ s', sysStep M s (.bpRecv w ov) = some s' ∧ WRel (BRp p) p sN' s' := by
  obtain ⟨hw, rfl⟩ := bpRecvN_spec hq hs
  obtain ⟨hid, hb, hsets, hhid, hk0, hpend⟩ := h.br w
  have hwp : (projB p (sN.wk w).bp).wait = none := by simp [projB, projWait, hw]
  have hsq : (s.wk w).inq = relab t :: projQ p r := by rw [h.inq w, hq, projQ_cons_same ht]
  obtain ⟨g1, g2, hkeep⟩ := recv_ss M (projB p (sN.wk w).bp) (s.wk w).bp.sets (s.wk w).bp.stale (relab t) ov
  rw [← hb] at g1 g2
  have hkeepN := (recv_ss M (sN.wk w).bp [] false t ov).2.2
  have hen := recv_enabled M (projB p (sN.wk w).bp) (relab t) ov hwp
  have hst := recv_proj_own M p (sN.wk w).bp t ov ht hw
  have hacts := recv_proj_own_acts M p (sN.wk w).bp t ov ht hw
  have hown : OwnActs p (step M (sN.wk w).bp (.recv t ov)).2 := by rw [← ht]; exact recv_ownActs M _ t ov hw
  have hq0 : QRel p { sN with wk := setWN sN.wk w ⟨r, (step M (sN.wk w).bp (.recv t ov)).1, (sN.wk w).pend⟩ }
      { s with wk := setW s.wk w ⟨projQ p r, (step M (s.wk w).bp (.recv (relab t) ov)).1, (s.wk w).pend⟩ } :=
    ⟨h.q.next, h.q.dq, h.q.pq, h.q.pp, h.q.ret, h.q.ldr, h.q.log, h.q.succ, h.q.errs, h.q.pqp⟩
  obtain ⟨r1, r2, r3, r4, r5⟩ := bpActsN_own (step M (sN.wk w).bp (.recv t ov)).2 (fun _ => 0) hq0 hown
  have hacts' : (step M (s.wk w).bp (.recv (relab t) ov)).2 = List.map relabA (step M (sN.wk w).bp (.recv t ov)).2 := by
    rw [g1, hacts]
  have hen'' : ¬(List.map relabA (step M (sN.wk w).bp (.recv t ov)).2 = [Action.disabled]) := by
    rw [← hacts', g1]; exact hen
  refine ⟨bpActs { s with wk := setW s.wk w ⟨projQ p r, (step M (s.wk w).bp (.recv (relab t) ov)).1, (s.wk w).pend⟩ } 0
    (List.map relabA (step M (sN.wk w).bp (.recv t ov)).2), by
      simp only [sysStep, hsq, bpRun, hacts', hen'', if_false], ?_⟩
  have hjs : (step M (s.wk w).bp (.recv (relab t) ov)).1.sets = (s.wk w).bp.sets := by rw [g2]
  refine ⟨r1, by rw [r5, r3]; exact h.cur, fun k => ?_, fun k => ?_⟩
  · rw [r4, r2]
    by_cases hk : k = w
    · subst hk; simp [setW, setWN]
    · simp only [setW, setWN, hk, if_false]; exact h.inq k
  · rw [r4, r2]
    by_cases hk : k = w
    · subst hk; simp only [setW, setWN, if_true]
      refine ⟨hid, ?_, by rw [hjs, hkeepN]; exact hsets, by rw [hkeepN]; exact hhid, by rw [hkeepN]; exact hk0, hpend⟩
      rw [hjs]
      conv => lhs; rw [g2, hst]
    · simp only [setW, setWN, hk, if_false]; exact h.br k

/-! ### non-vacuity -/

example : WRel (BRp 0) 0 {} {} :=
  ⟨qrel_init 0, rfl, fun _ => rfl, fun _ => ⟨false, by rw [projB_init], rfl, (fun e => by cases e), fun _ => rfl, rfl⟩⟩

end Props.C02sys
