/-
  C02 composition, stage C: the COMPUTED projection.
    * `projChoice p sN s c` - the step of the one-partition model that the choice `c` of the model with several
      partitions is for `p` (`none`: no step), decided from the two states with the case split of the step lemmas.
    * `proj_plain_c`, `proj_step_c` - every step, under its side condition, is `projChoice`.
    * `projRun M p sN s cs` - the projected choice list and final state, computed along the N-run.
    * `projRun_sound` - under `projOK`, `projRun` succeeds and its result is a run of `Model.Pipeline` related to the
      end of the N-run (so it has the log, successes and errors of `p`).
    * `log_order_every_partition_checked` - LogOrder for `p` with ALL premises decidable from `cs`
      (`projOK`, `projSplitOK`).
-/
import SaramaVerif.Props.C02multiC2

set_option linter.unusedSimpArgs false
set_option linter.unusedVariables false

namespace Props.C02sys
open Model Model.Pipeline Model.PipelineN Model.BrokerProd Lemmas.C02sys

def projChoice (p : Int) (sN : SysN) (s : Sys) : ChoiceN → Option Choice
  | .submit q => if q = p then some .submit else none
  | .retryOut => match sN.ret with
    | t :: _ => if t.part = p then some .retryOut else none
    | [] => none
  | .dispatch => match sN.dq with
    | t :: _ => if t.part = p then some .dispatch else none
    | [] => none
  | .moveLeader q b => if q = p then some (.moveLeader b) else none
  | .ppRecv q lks => if q = p then some (.ppRecv lks) else none
  | .bpRecv w ov => match (sN.wk w).inq with
    | t :: _ => if t.part = p then some (.bpRecv w ov) else none
    | [] => none
  | .handover w =>
    if projL p (sN.wk w).bp.buffer = [] ∧ projWait p (sN.wk w).bp.wait = none then none else some (.handover w)
  | .broker w r => if (s.wk w).bp.sets = [] then none else some (.broker w (projV p r))
  | .deliver w st => if (s.wk w).bp.sets = [] then none else some (.deliver w st)

/-- the result of a step, seen from `p`, given the computed choice -/
def StepRes (M : Nat) (p : Int) (sN' : SysN) (s : Sys) : Option Choice → Prop
  | none => WRel (BRp p) p sN' s
  | some c' => ∃ s', sysStep M s c' = some s' ∧ WRel (BRp p) p sN' s'

theorem proj_plain_c {M : Nat} {p : Int} {sN sN' : SysN} {s : Sys} (h : WRel (BRp p) p sN s) (c : ChoiceN)
    (hc : (∃ q, c = .submit q) ∨ c = .retryOut ∨ c = .dispatch ∨ ∃ q b, c = .moveLeader q b)
    (hs : sysStepN M sN c = some sN') : StepRes M p sN' s (projChoice p sN s c) := by
  obtain ⟨fw, fc⟩ := plainN_frame c hc hs
  have lift0 : QRel p sN' s → WRel (BRp p) p sN' s := fun hq =>
    ⟨hq, by rw [fc]; exact h.cur, fun k => by rw [fw]; exact h.inq k, fun k => by rw [fw]; exact h.br k⟩
  have lift1 : ∀ s', QRel p sN' s' → s'.wk = s.wk → s'.cur = s.cur → WRel (BRp p) p sN' s' := fun s' hq e1 e2 =>
    ⟨hq, by rw [e2, fc]; exact h.cur, fun k => by rw [e1, fw]; exact h.inq k, fun k => by rw [e1, fw]; exact h.br k⟩
  have hQ := h.q
  rcases hc with ⟨q, rfl⟩ | rfl | rfl | ⟨q, b, rfl⟩
  · simp only [sysStepN, Option.some.injEq] at hs; subst hs
    by_cases hq : q = p
    · subst hq
      simp only [projChoice, if_true, StepRes]
      refine ⟨_, rfl, lift1 _ ?_ rfl rfl⟩
      exact ⟨by simp [PipelineN.upd, hQ.next], by
        simp only [projQ_append, hQ.dq, hQ.next]
        rw [projQ_cons_same (by simp [mkTokP])]; rfl, hQ.pq, hQ.pp, hQ.ret, hQ.ldr, hQ.log, hQ.succ, hQ.errs, hQ.pqp⟩
    · simp only [projChoice, hq, if_false, StepRes]
      exact lift0 ⟨by simp [PipelineN.upd, Ne.symm hq, hQ.next], by
        simp only [projQ_append, hQ.dq]
        rw [projQ_cons_other (by simp [mkTokP, hq])]; simp [projQ], hQ.pq, hQ.pp, hQ.ret, hQ.ldr, hQ.log, hQ.succ,
        hQ.errs, hQ.pqp⟩
  · cases hr : sN.ret with
    | nil => simp [sysStepN, hr] at hs
    | cons t r =>
      simp only [sysStepN, hr, Option.some.injEq] at hs; subst hs
      by_cases ht : t.part = p
      · have hr' : s.ret = relab t :: projQ p r := by rw [hQ.ret, hr, projQ_cons_same ht]
        simp only [projChoice, hr, ht, if_true, StepRes]
        refine ⟨{ s with ret := projQ p r, dq := s.dq ++ [relab t] }, by simp [sysStep, hr'], lift1 _ ?_ rfl rfl⟩
        exact ⟨hQ.next, by simp only [projQ_append, hQ.dq]; rw [projQ_cons_same ht]; rfl, hQ.pq, hQ.pp, rfl, hQ.ldr,
          hQ.log, hQ.succ, hQ.errs, hQ.pqp⟩
      · simp only [projChoice, hr, ht, if_false, StepRes]
        exact lift0 ⟨hQ.next, by simp only [projQ_append, hQ.dq]; rw [projQ_cons_other ht]; simp [projQ], hQ.pq, hQ.pp,
          by rw [hQ.ret, hr, projQ_cons_other ht], hQ.ldr, hQ.log, hQ.succ, hQ.errs, hQ.pqp⟩
  · cases hd : sN.dq with
    | nil => simp [sysStepN, hd] at hs
    | cons t r =>
      simp only [sysStepN, hd, Option.some.injEq] at hs; subst hs
      have hpqp : ∀ q, ∀ x ∈ PipelineN.upd sN.pq t.part (sN.pq t.part ++ [t]) q, x.part = q := by
        intro q x hx
        by_cases hq : q = t.part
        · subst hq
          simp only [PipelineN.upd, if_true, List.mem_append, List.mem_singleton] at hx
          rcases hx with e | e
          · exact hQ.pqp _ x e
          · rw [e]
        · simp only [PipelineN.upd, hq, if_false] at hx; exact hQ.pqp q x hx
      by_cases ht : t.part = p
      · have hd' : s.dq = relab t :: projQ p r := by rw [hQ.dq, hd, projQ_cons_same ht]
        simp only [projChoice, hd]
        rw [if_pos ht]
        simp only [StepRes]
        refine ⟨{ s with dq := projQ p r, pq := s.pq ++ [relab t] }, by simp [sysStep, hd'], lift1 _ ?_ rfl rfl⟩
        refine ⟨hQ.next, rfl, ?_, hQ.pp, hQ.ret, hQ.ldr, hQ.log, hQ.succ, hQ.errs, hpqp⟩
        simp only [PipelineN.upd, ht, if_true, projQ_append, hQ.pq]
        rw [projQ_cons_same ht]; rfl
      · simp only [projChoice, hd, ht, if_false, StepRes]
        refine lift0 ⟨hQ.next, by rw [hQ.dq, hd, projQ_cons_other ht], ?_, hQ.pp, hQ.ret, hQ.ldr, hQ.log, hQ.succ,
          hQ.errs, hpqp⟩
        simp only [PipelineN.upd, Ne.symm ht, if_false]; exact hQ.pq
  · simp only [sysStepN, Option.some.injEq] at hs; subst hs
    by_cases hq : q = p
    · subst hq
      simp only [projChoice, if_true, StepRes]
      refine ⟨{ s with ldr := b }, rfl, lift1 _ ?_ rfl rfl⟩
      exact ⟨hQ.next, hQ.dq, hQ.pq, hQ.pp, hQ.ret, by simp [PipelineN.upd], hQ.log, hQ.succ, hQ.errs, hQ.pqp⟩
    · simp only [projChoice, hq, if_false, StepRes]
      exact lift0 ⟨hQ.next, hQ.dq, hQ.pq, hQ.pp, hQ.ret, by simp [PipelineN.upd, Ne.symm hq, hQ.ldr], hQ.log, hQ.succ,
        hQ.errs, hQ.pqp⟩

/-- the side condition of one step (as in `projOK`) -/
def stepOK (p : Int) (sN : SysN) : ChoiceN → Bool
  | .broker w r => brOK p sN w r
  | .deliver w _ => delOK p sN w
  | _ => true

/-- **every step, under its side condition, is the computed one** -/
theorem proj_step_c {M : Nat} {p : Int} {sN sN' : SysN} {s : Sys} (h : WRel (BRp p) p sN s) (c : ChoiceN)
    (hok : stepOK p sN c = true) (hs : sysStepN M sN c = some sN') : StepRes M p sN' s (projChoice p sN s c) := by
  cases c with
  | submit q => exact proj_plain_c h _ (Or.inl ⟨q, rfl⟩) hs
  | retryOut => exact proj_plain_c h _ (Or.inr (Or.inl rfl)) hs
  | dispatch => exact proj_plain_c h _ (Or.inr (Or.inr (Or.inl rfl))) hs
  | moveLeader q b => exact proj_plain_c h _ (Or.inr (Or.inr (Or.inr ⟨q, b, rfl⟩))) hs
  | ppRecv q lks =>
    by_cases hq : q = p
    · subst hq
      simp only [projChoice, if_true, StepRes]
      exact proj_ppRecv_own (innerOnly_BRp q) h hs
    · simp only [projChoice, hq, if_false, StepRes]
      exact proj_ppRecv_other (innerOnly_BRp p) hq h hs
  | bpRecv w ov =>
    cases hq : (sN.wk w).inq with
    | nil => simp [sysStepN, hq] at hs
    | cons t r =>
      by_cases ht : t.part = p
      · simp only [projChoice, hq, ht, if_true, StepRes]
        exact proj_bpRecv_own_p h hq ht hs
      · simp only [projChoice, hq, ht, if_false, StepRes]
        exact proj_bpRecv_foreign_p h hq ht hs
  | handover w =>
    by_cases hv : projL p (sN.wk w).bp.buffer = [] ∧ projWait p (sN.wk w).bp.wait = none
    · simp only [projChoice, hv, and_self, if_true, StepRes]
      exact proj_handover_hidden_p h hv.1 hv.2 hs
    · have hvis : projL p (sN.wk w).bp.buffer ≠ [] ∨ projWait p (sN.wk w).bp.wait ≠ none := by
        by_cases e : projL p (sN.wk w).bp.buffer = []
        · exact Or.inr (fun e' => hv ⟨e, e'⟩)
        · exact Or.inl e
      simp only [projChoice, hv, if_false, StepRes]
      exact proj_handover_visible_p h hvis hs
  | broker w r =>
    by_cases hj : (s.wk w).bp.sets = []
    · simp only [projChoice, hj, if_true, StepRes]
      exact proj_broker_hidden_p h hj hs
    · simp only [projChoice, hj, if_false, StepRes]
      simp only [stepOK, brOK, Bool.and_eq_true, beq_iff_eq, Bool.not_eq_true'] at hok
      refine proj_broker_visible_p h hj hok.1 ?_ hs
      rw [h.q.ldr]
      simpa using hok.2
  | deliver w st =>
    simp only [stepOK] at hok
    cases hsets : (sN.wk w).bp.sets with
    | nil =>
      obtain ⟨_, _, _, _, hk0, _⟩ := h.br w
      simp [sysStepN, hk0 hsets] at hs
    | cons sent rest =>
      by_cases he : projL p sent = []
      · rcases proj_deliver_noneOfP_c h hok hsets he hs with ⟨e, h1⟩ | ⟨e, h1⟩
        · simp only [projChoice, e, if_true, StepRes]; exact h1
        · simp only [projChoice, e, if_false, StepRes]; exact h1
      · have hj : (s.wk w).bp.sets ≠ [] := by
          obtain ⟨hid, _, hs1, hhid, _, _⟩ := h.br w
          cases hid with
          | true => exact absurd ((hhid rfl).2 sent (by rw [hsets]; simp)) he
          | false => rw [hs1, hsets]; simp
        simp only [projChoice, hj, if_false, StepRes]
        cases hpd : (sN.wk w).pend with
        | none => simp [sysStepN, hpd] at hs
        | some rb =>
          obtain ⟨r, base⟩ := rb
          cases r with
          | parts v => exact proj_deliver_visible_parts_p h hpd hsets he hs
          | conn a => exact proj_deliver_visible_conn_p h hpd hsets he hs

/-- **the computed projection of a run**: the projected choices and the final one-partition state -/
def projRun (M : Nat) (p : Int) : SysN → Sys → List ChoiceN → Option (List Choice × Sys)
  | _, s, [] => some ([], s)
  | sN, s, c :: cs =>
    match sysStepN M sN c with
    | none => none
    | some sN' =>
      match projChoice p sN s c with
      | none => projRun M p sN' s cs
      | some c' =>
        match sysStep M s c' with
        | none => none
        | some s' => (projRun M p sN' s' cs).map (fun r => (c' :: r.1, r.2))

theorem projOK_cons {M : Nat} {p : Int} {sN sN' : SysN} {c : ChoiceN} {cs : List ChoiceN}
    (hs : sysStepN M sN c = some sN') (hok : projOK M p sN (c :: cs) = true) :
    stepOK p sN c = true ∧ projOK M p sN' cs = true := by
  simp only [projOK, hs, Bool.and_eq_true] at hok
  refine ⟨?_, hok.2⟩
  cases c <;> first | rfl | exact hok.1

/-- **the computed projection is sound and, under `projOK`, total** -/
theorem projRun_sound_gen {M : Nat} {p : Int} (cs : List ChoiceN) :
    ∀ {sN sNf : SysN} {s : Sys}, WRel (BRp p) p sN s → projOK M p sN cs = true → runN M sN cs = some sNf →
    ∃ cs' sf, projRun M p sN s cs = some (cs', sf) ∧ run M s cs' = some sf ∧ WRel (BRp p) p sNf sf := by
  induction cs with
  | nil =>
    intro sN sNf s h _ hr
    simp only [runN, Option.some.injEq] at hr; subst hr
    exact ⟨[], s, rfl, rfl, h⟩
  | cons c cs ih =>
    intro sN sNf s h hok hr
    simp only [runN] at hr
    cases hs : sysStepN M sN c with
    | none => simp [hs] at hr
    | some sN1 =>
      simp only [hs] at hr
      obtain ⟨hc, hok1⟩ := projOK_cons hs hok
      have hstep := proj_step_c h c hc hs
      cases hpc : projChoice p sN s c with
      | none =>
        rw [hpc] at hstep
        obtain ⟨cs', sf, e1, e2, e3⟩ := ih hstep hok1 hr
        exact ⟨cs', sf, by simp only [projRun, hs, hpc]; exact e1, e2, e3⟩
      | some c' =>
        rw [hpc] at hstep
        obtain ⟨s', h1, h2⟩ := hstep
        obtain ⟨cs', sf, e1, e2, e3⟩ := ih h2 hok1 hr
        exact ⟨c' :: cs', sf, by simp only [projRun, hs, hpc, h1, e1, Option.map_some], by simp only [run, h1]; exact e2, e3⟩

theorem projRun_sound {M : Nat} {p : Int} (cs : List ChoiceN) (sN : SysN)
    (hok : projOK M p {} cs = true) (hr : runN M {} cs = some sN) :
    ∃ cs' s, projRun M p {} {} cs = some (cs', s) ∧ run M {} cs' = some s ∧ s.log = sN.log p ∧ s.succ = sN.succ p ∧
      s.errs = sN.errs p := by
  obtain ⟨cs', sf, e1, e2, e3⟩ := projRun_sound_gen cs (wrel_init p) hok hr
  exact ⟨cs', sf, e1, e2, e3.q.log, e3.q.succ, e3.q.errs⟩

/-- the premise of the LogOrder conclusion, computed along the N-run -/
def projSplitOK (M : Nat) (p : Int) (cs : List ChoiceN) : Bool :=
  match projRun M p {} {} cs with
  | some (cs', _) => splitOKs M cs'
  | none => false

/-- **LogOrder for every partition, all premises decidable from the choice list** -/
theorem log_order_every_partition_checked {M : Nat} (hM : 1 ≤ M) {p : Int} (cs : List ChoiceN) (sN : SysN)
    (hok : projOK M p {} cs = true) (hsp : projSplitOK M p cs = true) (hr : runN M {} cs = some sN) :
    LogOrderOf (sN.log p) (sN.succ p) := by
  obtain ⟨cs', s, e1, e2, e3, e4, _⟩ := projRun_sound cs sN hok hr
  simp only [projSplitOK, e1] at hsp
  have := log_order_reselect hM cs' hsp e2
  rw [logOrder_iff, e3, e4] at this
  exact this

/-! ### non-vacuity: everything decided from the choice list -/

example : (projRun 2 0 {} {} exTwo).map (fun r => r.1.length) = some 12 := by decide
example : projSplitOK 2 0 exTwo = true ∧ projSplitOK 2 1 exTwo = true := by decide
example : projSplitOK 2 0 exConn = true ∧ projSplitOK 2 1 exConn = true := by decide

/-- LogOrder for both partitions of `exTwo` (a set with messages of both partitions, one of them retried) -/
example : ∀ sN, runN 2 {} exTwo = some sN → LogOrderOf (sN.log 0) (sN.succ 0) ∧ LogOrderOf (sN.log 1) (sN.succ 1) :=
  fun sN hr => ⟨log_order_every_partition_checked (by decide) exTwo sN (by decide) (by decide) hr,
    log_order_every_partition_checked (by decide) exTwo sN (by decide) (by decide) hr⟩

/-- LogOrder for both partitions of `exConn` (a connection error for a set with messages of both partitions) -/
example : ∀ sN, runN 2 {} exConn = some sN → LogOrderOf (sN.log 0) (sN.succ 0) ∧ LogOrderOf (sN.log 1) (sN.succ 1) :=
  fun sN hr => ⟨log_order_every_partition_checked (by decide) exConn sN (by decide) (by decide) hr,
    log_order_every_partition_checked (by decide) exConn sN (by decide) (by decide) hr⟩

end Props.C02sys
