import SaramaVerif.Lemmas.C10
/-
  C10 — malformed or corrupted input yields an error, never a crash or wrong data.

  Part 1  `prim_safe_X`: for every primitive getter of realDecoder (model: Model/Decoder.lean, written from the
          Go source including its missing checks) and for ALL byte strings and offsets: the outcome is a value or
          an error (never a panic or a hang), the new offset stays inside the buffer, the allocation is at most
          c bytes per input byte.  Where this is false of the pinned source (`Variant.pinned`) the NEGATION is
          proved with a concrete byte string (`prim_unsafe_X_pinned`, replayed on the real decoder by the harness)
          and the safety theorem is proved for the repaired primitive (`Variant.checked`).
  Part 2  `dec_total_safe`: every decoder built from safe primitives, guarded counted loops, pushed length/CRC
          fields, sub-decoders and `for remaining() > 0` loops is total and safe on every input, with a linear
          allocation bound (constant `cost f` read off the format).
  Part 3  `length_mismatch_is_error`, `crc_mismatch_is_error`, `trailing_bytes_is_error`,
          `response_size_capped`, progress of `for remaining() > 0` loops.
-/
namespace Props.C10
open Model.Decoder Go Lemmas.C10

/-! ## Part 1: primitives that are safe as they are in the source -/

theorem prim_safe_getInt8 (raw : Bytes) (off : Nat) (h : off ≤ raw.length) : SafeN 0 1 raw off (getInt8 raw off) := by
  unfold getInt8 rem; split <;> safe_arith

theorem prim_safe_getInt16 (raw : Bytes) (off : Nat) (h : off ≤ raw.length) : SafeN 0 2 raw off (getInt16 raw off) := by
  unfold getInt16 rem; split <;> safe_arith

theorem prim_safe_getInt32 (raw : Bytes) (off : Nat) (h : off ≤ raw.length) : SafeN 0 4 raw off (getInt32 raw off) := by
  unfold getInt32 rem; split <;> safe_arith

theorem prim_safe_getInt64 (raw : Bytes) (off : Nat) (h : off ≤ raw.length) : SafeN 0 8 raw off (getInt64 raw off) := by
  unfold getInt64 rem; split <;> safe_arith

theorem prim_safe_getUVarint (raw : Bytes) (off : Nat) (h : off ≤ raw.length) : SafeN 0 1 raw off (getUVarint raw off) := by
  have hb := uvarintGo_n (raw.drop off) 0 0 0
  have hl := length_drop_le raw off h
  unfold getUVarint
  split
  · safe_arith
  · split <;> safe_arith

theorem prim_safe_getVarint (raw : Bytes) (off : Nat) (h : off ≤ raw.length) : SafeN 0 1 raw off (getVarint raw off) := by
  have hb := uvarintGo_n (raw.drop off) 0 0 0
  have hl := length_drop_le raw off h
  unfold getVarint
  split
  · safe_arith
  · split <;> safe_arith

theorem prim_safe_getArrayLength (v : Variant) (raw : Bytes) (off : Nat) (h : off ≤ raw.length) :
    SafeN 0 4 raw off (getArrayLength v raw off) := by
  unfold getArrayLength rem arrayLengthTail
  split
  · safe_arith
  · split
    · safe_arith
    · split
      · safe_arith
      · split <;> safe_arith

theorem prim_safe_getBool (raw : Bytes) (off : Nat) (h : off ≤ raw.length) : SafeN 0 1 raw off (getBool raw off) := by
  unfold getBool
  refine SafeN.bind (m2 := 0) (prim_safe_getInt8 raw off h) ?_
  intro b off1 a hb
  have := prim_safe_getInt8 raw off h
  rw [hb] at this
  simp only [SafeN] at this
  split
  · safe_arith
  · split <;> safe_arith

theorem prim_safe_getEmptyTaggedFieldArray (raw : Bytes) (off : Nat) (h : off ≤ raw.length) :
    SafeN 0 1 raw off (getEmptyTaggedFieldArray raw off) := by
  unfold getEmptyTaggedFieldArray
  refine SafeN.bind (m2 := 0) (prim_safe_getUVarint raw off h) ?_
  intro n off1 a hn
  have := getUVarint_ok h hn
  split <;> safe_arith

theorem prim_safe_getRawBytes (raw : Bytes) (off : Nat) (length : Int) (h : off ≤ raw.length) :
    SafeN 0 0 raw off (getRawBytes raw off length) := by
  unfold getRawBytes rem
  split
  · safe_arith
  · split <;> safe_arith

theorem prim_safe_getSubset (raw : Bytes) (off : Nat) (length : Int) (h : off ≤ raw.length) :
    SafeN 0 0 raw off (getSubset raw off length) := prim_safe_getRawBytes raw off length h

theorem prim_safe_getBytes (raw : Bytes) (off : Nat) (h : off ≤ raw.length) : SafeN 0 4 raw off (getBytes raw off) := by
  unfold getBytes
  refine SafeN.bind (m2 := 0) (prim_safe_getInt32 raw off h) ?_
  intro tmp off1 a ht
  have := getInt32_ok ht
  split
  · safe_arith
  · exact SafeN.map _ (prim_safe_getRawBytes raw off1 tmp (by omega))

theorem prim_safe_getVarintBytes (raw : Bytes) (off : Nat) (h : off ≤ raw.length) : SafeN 0 1 raw off (getVarintBytes raw off) := by
  unfold getVarintBytes
  refine SafeN.bind (m2 := 0) (prim_safe_getVarint raw off h) ?_
  intro tmp off1 a ht
  have := getVarint_ok h ht
  split
  · safe_arith
  · exact SafeN.map _ (prim_safe_getRawBytes raw off1 tmp (by omega))

theorem prim_safe_getCompactBytes (raw : Bytes) (off : Nat) (h : off ≤ raw.length) : SafeN 0 1 raw off (getCompactBytes raw off) := by
  unfold getCompactBytes
  refine SafeN.bind (m2 := 0) (prim_safe_getUVarint raw off h) ?_
  intro n off1 a hn
  have := getUVarint_ok h hn
  exact prim_safe_getRawBytes raw off1 _ (by omega)

theorem prim_safe_getStringLength (raw : Bytes) (off : Nat) (h : off ≤ raw.length) :
    SafeN 0 2 raw off (getStringLength raw off) := by
  unfold getStringLength
  refine SafeN.bind (m2 := 0) (prim_safe_getInt16 raw off h) ?_
  intro n off1 a hn
  have := getInt16_ok hn
  unfold stringLengthTail
  split
  · safe_arith
  · split <;> safe_arith

theorem takeString_safe (raw : Bytes) (off : Nat) (n : Int) (_h : off ≤ raw.length) (h0 : 0 ≤ n) (h1 : n ≤ rem raw off) :
    SafeN 1 0 raw off (takeString raw off n) := by
  unfold rem at h1
  have hc : sliceOK raw off (off + n) := ⟨by omega, by omega, by omega⟩
  simp only [takeString, hc, ↓reduceIte]
  safe_arith

theorem prim_safe_getString (raw : Bytes) (off : Nat) (h : off ≤ raw.length) : SafeN 1 2 raw off (getString raw off) := by
  unfold getString
  refine SafeN.bind (m2 := 0) (SafeN.mono (prim_safe_getStringLength raw off h) (by omega) (Nat.le_refl _)) ?_
  intro n off1 a hn
  have := getStringLength_ok hn
  split
  · safe_arith
  · exact takeString_safe raw off1 n (by omega) (by omega) (by omega)

theorem prim_safe_getNullableString (raw : Bytes) (off : Nat) (h : off ≤ raw.length) :
    SafeN 1 2 raw off (getNullableString raw off) := by
  unfold getNullableString
  refine SafeN.bind (m2 := 0) (SafeN.mono (prim_safe_getStringLength raw off h) (by omega) (Nat.le_refl _)) ?_
  intro n off1 a hn
  have := getStringLength_ok hn
  split
  · safe_arith
  · exact SafeN.map _ (takeString_safe raw off1 n (by omega) (by omega) (by omega))

theorem prim_safe_getCompactString_checked (raw : Bytes) (off : Nat) (h : off ≤ raw.length) :
    SafeN 1 1 raw off (getCompactString .checked raw off) := by
  unfold getCompactString
  refine SafeN.bind (m2 := 0) (SafeN.mono (prim_safe_getUVarint raw off h) (by omega) (Nat.le_refl _)) ?_
  intro n off1 a hn
  have := getUVarint_ok h hn
  simp only [true_and]
  split
  · safe_arith
  · split
    · safe_arith
    · exact takeString_safe raw off1 _ (by omega) (by omega) (by omega)

theorem prim_safe_getCompactNullableString_checked (raw : Bytes) (off : Nat) (h : off ≤ raw.length) :
    SafeN 1 1 raw off (getCompactNullableString .checked raw off) := by
  unfold getCompactNullableString
  refine SafeN.bind (m2 := 0) (SafeN.mono (prim_safe_getUVarint raw off h) (by omega) (Nat.le_refl _)) ?_
  intro n off1 a hn
  have := getUVarint_ok h hn
  simp only [true_and]
  split
  · safe_arith
  · split
    · safe_arith
    · exact SafeN.map _ (takeString_safe raw off1 _ (by omega) (by omega) (by omega))

theorem prim_safe_getCompactArrayLength (v : Variant) (raw : Bytes) (off : Nat) (h : off ≤ raw.length) :
    SafeN 0 1 raw off (getCompactArrayLength v raw off) := by
  unfold getCompactArrayLength
  refine SafeN.bind (m2 := 0) (prim_safe_getUVarint raw off h) ?_
  intro n off1 a hn
  have := getUVarint_ok h hn
  split
  · safe_arith
  · split <;> safe_arith

theorem readI32Loop_checked_safe (raw : Bytes) (off : Nat) (n : Int) (_h : off ≤ raw.length)
    (h0 : 0 ≤ n) (h1 : 4 * n ≤ rem raw off) (hlen : raw.length ≤ 4294967296) :
    SafeN 4 0 raw off (readI32Loop raw off n) := by
  unfold rem at h1
  have hm : mk 4 n = some (n.toNat * 4) := by
    unfold mk maxAlloc
    have : ¬ (n < 0 ∨ n.toNat * 4 > 281474976710656) := by omega
    simp only [this, ↓reduceIte]
  have hc : ¬ (4 * n > rem raw off) := by unfold rem; omega
  simp only [readI32Loop, hm, hc, ↓reduceIte]
  safe_arith

theorem prim_safe_getCompactInt32Array_checked (raw : Bytes) (off : Nat) (h : off ≤ raw.length) (hlen : raw.length ≤ 4294967296) :
    SafeN 4 1 raw off (getCompactInt32Array .checked raw off) := by
  unfold getCompactInt32Array
  refine SafeN.bind (m2 := 0) (SafeN.mono (prim_safe_getUVarint raw off h) (by omega) (Nat.le_refl _)) ?_
  intro n off1 a hn
  have := getUVarint_ok h hn
  by_cases h0 : n = 0
  · rw [if_pos h0]; safe_arith
  · rw [if_neg h0]
    generalize hL : compactLen n = L
    rcases Classical.em (L < 0 ∨ 4 * L > rem raw off1) with hc | hc
    · rw [if_pos ⟨rfl, hc⟩]; safe_arith
    · rw [if_neg (fun hh => hc hh.2)]
      unfold rem at hc
      exact readI32Loop_checked_safe raw off1 _ (by omega) (by omega) (by unfold rem; omega) hlen

theorem prim_safe_getInt32Array (raw : Bytes) (off : Nat) (h : off ≤ raw.length) : SafeN 4 4 raw off (getInt32Array raw off) := by
  unfold getInt32Array rem
  split
  · safe_arith
  · split
    · safe_arith
    · split <;> safe_arith

theorem prim_safe_getInt64Array (raw : Bytes) (off : Nat) (h : off ≤ raw.length) : SafeN 8 4 raw off (getInt64Array raw off) := by
  unfold getInt64Array rem
  split
  · safe_arith
  · split
    · safe_arith
    · split <;> safe_arith

theorem stringLoop_safe (raw : Bytes) : ∀ (n off : Nat), off ≤ raw.length → SafeN 1 (2 * n) raw off (stringLoop raw n off) := by
  intro n
  induction n with
  | zero => intro off h; simp only [stringLoop]; safe_arith
  | succ k ih =>
    intro off h
    simp only [stringLoop]
    refine SafeN.mono (SafeN.bind (m2 := 2 * k) (prim_safe_getString raw off h) ?_) (Nat.le_refl _) (by omega)
    intro s off1 a hs
    have hg := prim_safe_getString raw off h
    rw [hs] at hg
    simp only [SafeN] at hg
    exact SafeN.map _ (ih off1 hg.2.1)

theorem prim_safe_getStringArray_checked (raw : Bytes) (off : Nat) (h : off ≤ raw.length) :
    SafeN 17 4 raw off (getStringArray .checked raw off) := by
  unfold getStringArray rem
  split
  · safe_arith
  · split
    · safe_arith
    · simp only [true_and]
      split
      · safe_arith
      · rename_i h1 h2 h3
        have hl := stringLoop_safe raw (beU raw off 4) (off + 4) (by omega)
        cases hr : stringLoop raw (beU raw off 4) (off + 4) with
        | ok v off' a => rw [hr] at hl; simp only [SafeN] at hl; simp only [Res.addAlloc, SafeN]; omega
        | err e off' a => rw [hr] at hl; simp only [SafeN] at hl; simp only [Res.addAlloc, SafeN]; omega
        | panic a => rw [hr] at hl; exact hl.elim
        | hang => rw [hr] at hl; exact hl.elim

theorem prim_safe_peek (raw : Bytes) (off : Nat) (offset length : Int) (h : off ≤ raw.length)
    (h1 : 0 ≤ offset) (h2 : 0 ≤ length) : SafeN 0 0 raw off (peek raw off offset length) := by
  unfold peek rem
  split
  · safe_arith
  · have hc : sliceOK raw (off + offset) (off + offset + length) := ⟨by omega, by omega, by omega⟩
    simp only [hc, ↓reduceIte]
    safe_arith

theorem prim_safe_peekInt8 (raw : Bytes) (off : Nat) (offset : Int) (h : off ≤ raw.length) (h1 : 0 ≤ offset) :
    SafeN 0 0 raw off (peekInt8 raw off offset) := by
  unfold peekInt8 rem
  split
  · safe_arith
  · split
    · safe_arith
    · omega

theorem prim_safe_pushLength (raw : Bytes) (off : Nat) (h : off ≤ raw.length) : SafeN 0 4 raw off (pushLength raw off) := by
  unfold pushLength
  refine SafeN.bind (m2 := 0) (prim_safe_getInt32 raw off h) ?_
  intro l off1 a hl
  have := getInt32_ok hl
  split <;> safe_arith

theorem prim_safe_pushVarintLength (raw : Bytes) (off : Nat) (h : off ≤ raw.length) :
    SafeN 0 1 raw off (pushVarintLength raw off) := by
  unfold pushVarintLength
  refine SafeN.bind (m2 := 0) (prim_safe_getVarint raw off h) ?_
  intro l off1 a hl
  have := getVarint_ok h hl
  safe_arith

theorem prim_safe_pushCrc (c : Bool) (raw : Bytes) (off : Nat) (h : off ≤ raw.length) : SafeN 0 4 raw off (pushCrc c raw off) := by
  unfold pushCrc rem
  split <;> safe_arith

/-- popping a frame that was pushed at `start ≤ cur − reserve` never panics -/
theorem prim_safe_pop (v : Variant) (crcf : Bool → Bytes → Nat) (raw : Bytes) (fr : Frame) (cur : Nat) (h : cur ≤ raw.length)
    (hfr : ∀ s c, fr = .crc s c → s + 4 ≤ cur) : SafeN 0 0 raw cur (pop v crcf raw fr cur) := by
  cases fr with
  | length start stored =>
    by_cases hc : wrap32 ((cur : Int) - start - 4) = stored
    · simp only [pop, ne_eq, hc, not_true_eq_false, ↓reduceIte]; safe_arith
    · simp only [pop, ne_eq, hc, not_false_eq_true, ↓reduceIte]; safe_arith
  | varintLength start stored fl =>
    by_cases hc : wrap64 ((cur : Int) - start - (if v = .checked then (fl : Int) else (varintSize stored : Int))) = stored
    · simp only [pop, ne_eq, hc, not_true_eq_false, ↓reduceIte]; safe_arith
    · simp only [pop, ne_eq, hc, not_false_eq_true, ↓reduceIte]; safe_arith
  | crc start cast =>
    have := hfr start cast rfl
    have hc : sliceOK raw (start + 4) cur := ⟨by omega, by omega, by omega⟩
    by_cases hx : crcf cast (slice raw (start + 4) cur) = beU raw start 4
    · simp only [pop, hc, ne_eq, hx, not_true_eq_false, ↓reduceIte]; safe_arith
    · simp only [pop, hc, ne_eq, hx, not_false_eq_true, ↓reduceIte]; safe_arith

/-! non-vacuity: the getters on concrete byte strings (value, error, and the offsets the theorems speak about) -/
example : getInt32 [0xff, 0xff, 0xff, 0xfe] 0 = .ok (-2) 4 0 := by decide
example : getInt16 [0x01] 0 = .err .insufficient 1 0 := by decide
example : getVarint [0x80, 0x80, 0x80, 0x80, 0x80, 0x80, 0x80, 0x80, 0x80, 0x80, 0x01] 0 = .err .varintOverflow 11 0 := by decide
example : getUVarint [0xac, 0x02, 0x07] 0 = .ok 300 2 0 := by decide
example : getString [0x00, 0x02, 0x68, 0x69, 0x21] 0 = .ok [0x68, 0x69] 4 2 := by decide
example : getString [0x00, 0x09, 0x68] 0 = .err .insufficient 3 0 := by decide
example : getBytes [0xff, 0xff, 0xff, 0xff] 0 = .ok none 4 0 := by decide
example : getBytes [0xff, 0xff, 0xff, 0xfe] 0 = .err .invalidByteSliceLength 4 0 := by decide
example : getCompactBytes [0x00] 0 = .err .invalidByteSliceLength 1 0 := by decide
example : (getInt32Array [0x00, 0x00, 0x00, 0x01, 0, 0, 0, 7] 0).map (·.getD 0 0) = .ok 7 8 4 := by decide
example : getInt32Array [0xff, 0xff, 0xff, 0xff] 0 = .err .insufficient 4 0 := by decide
example : getArrayLength .checked [0xff, 0xff, 0xff, 0xfe] 0 = .err .invalidArrayLength 4 0 := by decide
example : getStringArray .checked [0x7f, 0xff, 0xff, 0xff] 0 = .err .insufficient 4 0 := by decide
example : getCompactString .checked [0x00] 0 = .err .invalidStringLength 1 0 := by decide
example : getCompactString .checked [0x03, 0x61] 0 = .err .insufficient 2 0 := by decide
example : getCompactString .pinned [0x03, 0x61, 0x62] 0 = .ok [0x61, 0x62] 3 2 := by decide
example : getCompactInt32Array .checked [0x02] 0 = .err .insufficient 1 0 := by decide

/-! ## Part 1b: primitives that are NOT safe in the pinned source (concrete witnesses, replayed by the harness) -/

/-- what a count getter must guarantee to the loop head that allocates from it -/
def CountSafe (raw : Bytes) (off : Nat) (r : Res Int) : Prop :=
  SafeN 0 1 raw off r ∧ ∀ n off1 a, r = .ok n off1 a → -1 ≤ n ∧ n ≤ rem raw off1

/-- `ff ff ff fe`: getArrayLength returns −2 without error; every caller that does `make([]T, n)` panics -/
theorem prim_unsafe_getArrayLength_pinned :
    ¬ ∀ (raw : Bytes) (off : Nat), off ≤ raw.length → CountSafe raw off (getArrayLength .pinned raw off) := by
  intro h
  have h1 := (h [0xff, 0xff, 0xff, 0xfe] 0 (by decide)).2 (-2) 4 0 (by decide)
  omega

theorem prim_safe_getArrayLength_checked (raw : Bytes) (off : Nat) (h : off ≤ raw.length) :
    CountSafe raw off (getArrayLength .checked raw off) := by
  refine ⟨SafeN.mono (prim_safe_getArrayLength .checked raw off h) (Nat.le_refl _) (by omega), ?_⟩
  intro n off1 a hn
  have := getArrayLength_ok hn
  exact ⟨this.2.2.2.2.2 rfl, this.2.2.2.1⟩

/-- `ff ff ff ff 0f`: a compact array of 4294967294 elements announced by 5 bytes, no check against remaining() -/
theorem prim_unsafe_getCompactArrayLength_pinned :
    ¬ ∀ (raw : Bytes) (off : Nat), off ≤ raw.length → CountSafe raw off (getCompactArrayLength .pinned raw off) := by
  intro h
  have h1 := (h [0xff, 0xff, 0xff, 0xff, 0x0f] 0 (by decide)).2 4294967294 5 0 (by decide)
  have : rem [0xff, 0xff, 0xff, 0xff, 0x0f] 5 = 0 := by decide
  omega

theorem prim_safe_getCompactArrayLength_checked (raw : Bytes) (off : Nat) (h : off ≤ raw.length) :
    CountSafe raw off (getCompactArrayLength .checked raw off) := by
  refine ⟨prim_safe_getCompactArrayLength .checked raw off h, ?_⟩
  intro n off1 a hn
  have := getCompactArrayLength_checked_ok h hn
  omega

/-- `00`: length −1 → `rd.raw[0:-1]` panics; (`7f` with nothing behind it panics as well) -/
theorem prim_unsafe_getCompactString_pinned (c : Nat) :
    ¬ ∀ (raw : Bytes) (off : Nat), off ≤ raw.length → Safe c raw off (getCompactString .pinned raw off) := by
  intro h
  have h1 := h [0x00] 0 (by decide)
  have e : getCompactString .pinned [0x00] 0 = .panic 0 := by decide
  rw [e] at h1
  exact h1

theorem prim_unsafe_getCompactNullableString_pinned (c : Nat) :
    ¬ ∀ (raw : Bytes) (off : Nat), off ≤ raw.length → Safe c raw off (getCompactNullableString .pinned raw off) := by
  intro h
  have h1 := h [0x7f] 0 (by decide)
  have e : getCompactNullableString .pinned [0x7f] 0 = .panic 0 := by decide
  rw [e] at h1
  exact h1

/-- `02`: one element announced, none present → `binary.BigEndian.Uint32(rd.raw[rd.off:])` panics -/
theorem prim_unsafe_getCompactInt32Array_pinned (c : Nat) :
    ¬ ∀ (raw : Bytes) (off : Nat), off ≤ raw.length → Safe c raw off (getCompactInt32Array .pinned raw off) := by
  intro h
  have h1 := h [0x02] 0 (by decide)
  have e : getCompactInt32Array .pinned [0x02] 0 = .panic 4 := by decide
  rw [e] at h1
  exact h1

/-- `7f ff ff ff`: `make([]string, 2147483647)` = 34 359 738 352 bytes for a 4-byte input (then ErrInsufficientData);
    no constant up to 2^30 bytes per input byte bounds it -/
theorem prim_unsafe_getStringArray_pinned :
    ¬ ∀ (raw : Bytes) (off : Nat), off ≤ raw.length → Safe 1073741824 raw off (getStringArray .pinned raw off) := by
  intro h
  have h1 := h [0x7f, 0xff, 0xff, 0xff] 0 (by decide)
  have e : getStringArray .pinned [0x7f, 0xff, 0xff, 0xff] 0 = .err .insufficient 4 34359738352 := by decide
  rw [e] at h1
  simp only [SafeN, List.length_cons, List.length_nil] at h1
  omega

/-- `peek` with a negative length passes its guard and panics in the slice expression; every call site passes
    non-negative constants, which is the hypothesis of `prim_safe_peek` -/
theorem prim_unsafe_peek_negative (c : Nat) :
    ¬ ∀ (raw : Bytes) (off : Nat) (o l : Int), off ≤ raw.length → Safe c raw off (peek raw off o l) := by
  intro h
  have h1 := h [0x00] 0 0 (-1) (by decide)
  have e : peek [0x00] 0 0 (-1) = .panic 0 := by decide
  rw [e] at h1
  exact h1

/-! ## Part 2: every decoder built from safe primitives and guarded loops is total and safe -/

theorem runPrim_safe (v : Variant) (p : Prim) (hg : primGood v p = true) (raw : Bytes) (off : Nat)
    (h : off ≤ raw.length) (hlen : raw.length ≤ 4294967296) :
    SafeN (primCost p) 1 raw off (runPrim v p raw off) := by
  cases p with
  | int8 => exact SafeN.unit (prim_safe_getInt8 raw off h)
  | int16 => exact SafeN.unit (SafeN.mono (prim_safe_getInt16 raw off h) (Nat.le_refl _) (by omega))
  | int32 => exact SafeN.unit (SafeN.mono (prim_safe_getInt32 raw off h) (Nat.le_refl _) (by omega))
  | int64 => exact SafeN.unit (SafeN.mono (prim_safe_getInt64 raw off h) (Nat.le_refl _) (by omega))
  | varint => exact SafeN.unit (prim_safe_getVarint raw off h)
  | uvarint => exact SafeN.unit (prim_safe_getUVarint raw off h)
  | bool => exact SafeN.unit (prim_safe_getBool raw off h)
  | emptyTagged => exact SafeN.unit (prim_safe_getEmptyTaggedFieldArray raw off h)
  | bytes => exact SafeN.unit (SafeN.mono (prim_safe_getBytes raw off h) (Nat.le_refl _) (by omega))
  | varintBytes => exact SafeN.unit (prim_safe_getVarintBytes raw off h)
  | compactBytes => exact SafeN.unit (prim_safe_getCompactBytes raw off h)
  | string => exact SafeN.unit (SafeN.mono (prim_safe_getString raw off h) (Nat.le_refl _) (by omega))
  | nullableString => exact SafeN.unit (SafeN.mono (prim_safe_getNullableString raw off h) (Nat.le_refl _) (by omega))
  | compactString =>
    cases v with
    | pinned => exact absurd hg (by decide)
    | checked => exact SafeN.unit (prim_safe_getCompactString_checked raw off h)
  | compactNullableString =>
    cases v with
    | pinned => exact absurd hg (by decide)
    | checked => exact SafeN.unit (prim_safe_getCompactNullableString_checked raw off h)
  | compactInt32Array =>
    cases v with
    | pinned => exact absurd hg (by decide)
    | checked => exact SafeN.unit (prim_safe_getCompactInt32Array_checked raw off h hlen)
  | int32Array => exact SafeN.unit (SafeN.mono (prim_safe_getInt32Array raw off h) (Nat.le_refl _) (by omega))
  | int64Array => exact SafeN.unit (SafeN.mono (prim_safe_getInt64Array raw off h) (Nat.le_refl _) (by omega))
  | stringArray =>
    cases v with
    | pinned => exact absurd hg (by decide)
    | checked => exact SafeN.unit (SafeN.mono (prim_safe_getStringArray_checked raw off h) (Nat.le_refl _) (by omega))

theorem prim_safe_varintCount (v : Variant) (raw : Bytes) (off : Nat) (h : off ≤ raw.length) :
    SafeN 0 1 raw off (varintCount v raw off) := by
  unfold varintCount
  refine SafeN.bind (m2 := 0) (prim_safe_getVarint raw off h) ?_
  intro n off1 a hn
  have := getVarint_ok h hn
  split <;> safe_arith

theorem getCount_safe (v : Variant) (c : Count) (raw : Bytes) (off : Nat) (h : off ≤ raw.length) :
    SafeN 0 1 raw off (getCount v c raw off) := by
  cases c with
  | arrayLength => exact SafeN.mono (prim_safe_getArrayLength v raw off h) (Nat.le_refl _) (by omega)
  | compactArrayLength => exact prim_safe_getCompactArrayLength v raw off h
  | varint => exact prim_safe_varintCount v raw off h

theorem getCount_ok {v : Variant} {c : Count} {k : MakeKind} (hg : countGood v c k = true) {raw : Bytes} {off : Nat}
    (h : off ≤ raw.length) {n : Int} {off1 a : Nat} (hn : getCount v c raw off = .ok n off1 a) :
    off1 ≤ raw.length ∧ n ≤ rem raw off1 ∧ (k = .slice → 0 ≤ n) := by
  cases c with
  | arrayLength =>
    have := getArrayLength_ok hn
    refine ⟨this.2.1, this.2.2.2.1, ?_⟩
    intro hk; subst hk; exact absurd hg (by cases v <;> decide)
  | compactArrayLength =>
    cases v with
    | pinned => exact absurd hg (by cases k <;> decide)
    | checked =>
      have := getCompactArrayLength_checked_ok h hn
      exact ⟨this.2.1, this.2.2.2.2, fun _ => this.2.2.2.1⟩
  | varint =>
    cases v with
    | pinned => exact absurd hg (by cases k <;> decide)
    | checked =>
      simp only [getCount, varintCount, true_and] at hn
      obtain ⟨u, o1, a1, a2, h1, h2, h3⟩ := bind_ok hn
      have e1 := getVarint_ok h h1
      split at h2
      · cases h2
      · simp only [Res.ok.injEq] at h2
        rename_i hc
        obtain ⟨h21, h22, h23⟩ := h2
        subst h21 h22
        refine ⟨e1.2.1, by omega, ?_⟩
        intro hk; subst hk; exact absurd hg (by decide)

theorem makeAlloc_some (k : MakeKind) (elem : Nat) (n : Int) (hn : n.toNat ≤ 4294967296) (he : elem ≤ 65536)
    (hk : k = .slice ∨ k = .reject → 0 ≤ n) : ∃ A, makeAlloc k elem n = some A ∧ A ≤ n.toNat * elem := by
  have hm : n.toNat * elem ≤ 281474976710656 :=
    Nat.le_trans (Nat.mul_le_mul hn he) (by decide)
  have hmk : 0 ≤ n → mk elem n = some (n.toNat * elem) := by
    intro h0
    have : ¬ (n < 0 ∨ n.toNat * elem > maxAlloc) := by unfold maxAlloc; omega
    simp only [mk, this, ↓reduceIte]
  cases k with
  | slice => exact ⟨_, hmk (hk (Or.inl rfl)), Nat.le_refl _⟩
  | reject => exact ⟨_, hmk (hk (Or.inr rfl)), Nat.le_refl _⟩
  | guarded =>
    by_cases h0 : n < 0
    · exact ⟨0, by simp only [makeAlloc, h0, ↓reduceIte], Nat.zero_le _⟩
    · exact ⟨_, by simp only [makeAlloc, h0, ↓reduceIte]; exact hmk (by omega), Nat.le_refl _⟩
  | map =>
    by_cases h0 : n < 0
    · exact ⟨0, by simp only [makeAlloc, h0, ↓reduceIte], Nat.zero_le _⟩
    · exact ⟨_, by simp only [makeAlloc, h0, ↓reduceIte], Nat.le_refl _⟩

theorem arr_alloc {A a2 nn elem cb d : Nat} (hA : A ≤ nn * elem) (hn : nn ≤ d) (h2 : a2 ≤ cb * d) :
    A + a2 ≤ (elem + cb) * d := by
  have : nn * elem ≤ elem * d := by rw [Nat.mul_comm]; exact Nat.mul_le_mul_left _ hn
  rw [Nat.add_mul]; omega

theorem pushLength_ok {raw : Bytes} {off : Nat} {fr : Frame} {off1 a : Nat} (h : pushLength raw off = .ok fr off1 a) :
    ∃ l, fr = .length off l ∧ getInt32 raw off = .ok l off1 0 ∧ off1 = off + 4 := by
  unfold pushLength at h
  obtain ⟨l, o1, a1, a2, h1, h2, h3⟩ := bind_ok h
  have := getInt32_ok h1
  split at h2
  · cases h2
  · simp only [Res.ok.injEq] at h2
    obtain ⟨h21, h22, h23⟩ := h2
    subst h22
    refine ⟨l, h21.symm, ?_, this.1⟩
    rw [h1, this.2.1]

theorem pushVarintLength_ok {raw : Bytes} {off : Nat} {fr : Frame} {off1 a : Nat} (h : pushVarintLength raw off = .ok fr off1 a) :
    ∃ l, fr = .varintLength off l (off1 - off) ∧ getVarint raw off = .ok l off1 a := by
  unfold pushVarintLength at h
  obtain ⟨l, o1, a1, a2, h1, h2, h3⟩ := bind_ok h
  simp only [Res.ok.injEq] at h2
  obtain ⟨h21, h22, h23⟩ := h2
  subst h22
  refine ⟨l, h21.symm, ?_⟩
  rw [h1, h3, ← h23, Nat.add_zero]

theorem pushCrc_ok {c : Bool} {raw : Bytes} {off : Nat} {fr : Frame} {off1 a : Nat} (h : pushCrc c raw off = .ok fr off1 a) :
    fr = .crc off c ∧ off1 = off + 4 := by
  unfold pushCrc at h
  split at h
  · cases h
  · simp only [Res.ok.injEq] at h; exact ⟨h.1.symm, h.2.1.symm⟩

/-- push; body; pop -/
theorem field_safe {c m k : Nat} (v : Variant) (crcf : Bool → Bytes → Nat) (raw : Bytes) (off : Nat)
    (push : Res Frame) (body : Nat → Res Unit)
    (hpush : SafeN 0 k raw off push)
    (hfr : ∀ fr off1 a, push = .ok fr off1 a → ∀ s cst, fr = .crc s cst → s + 4 ≤ off1)
    (hbody : ∀ off1, off1 ≤ raw.length → SafeN c m raw off1 (body off1)) :
    SafeN c (k + (m + 0)) raw off (push.bind fun fr off1 => (body off1).bind fun _ off2 => pop v crcf raw fr off2) := by
  refine SafeN.bind (SafeN.mono hpush (Nat.zero_le _) (Nat.le_refl _)) ?_
  intro fr off1 a hp
  have h1 := hpush
  rw [hp] at h1
  simp only [SafeN] at h1
  refine SafeN.bind (hbody off1 h1.2.1) ?_
  intro u off2 a2 hb
  have h2 := hbody off1 h1.2.1
  rw [hb] at h2
  simp only [SafeN] at h2
  refine SafeN.mono (prim_safe_pop v crcf raw fr off2 h2.2.1 ?_) (Nat.zero_le _) (Nat.le_refl _)
  intro s cst hs
  have := hfr fr off1 a hp s cst hs
  omega

/-- Record.decode uses a varint as header count without comparing it with remaining():
    `80 80 80 80 80 80 80 80 01` announces 2^55 headers with nothing behind it -/
theorem prim_unsafe_varintCount_pinned :
    ¬ ∀ (raw : Bytes) (off : Nat) (n : Int) (off1 a : Nat), off ≤ raw.length →
        varintCount .pinned raw off = .ok n off1 a → n ≤ rem raw off1 := by
  intro h
  have h1 := h [0x80, 0x80, 0x80, 0x80, 0x80, 0x80, 0x80, 0x80, 0x01] 0 36028797018963968 9 0 (by decide) (by decide)
  have : rem [0x80, 0x80, 0x80, 0x80, 0x80, 0x80, 0x80, 0x80, 0x01] 9 = 0 := by decide
  omega

theorem prim_safe_varintCount_checked (raw : Bytes) (off : Nat) (n : Int) (off1 a : Nat) (h : off ≤ raw.length)
    (hn : varintCount .checked raw off = .ok n off1 a) : n ≤ rem raw off1 ∧ off1 ≤ raw.length :=
  have := getCount_ok (v := .checked) (c := .varint) (k := .guarded) (by decide) h hn
  ⟨this.2.1, this.1⟩

/-- **dec_total_safe**: for every format whose primitives are safe, whose loop heads are guarded and whose loop
    bodies consume input, and for EVERY byte string and offset: the decoder returns a value or an error – never
    panics, never hangs –, stays inside the buffer, and allocates at most `cost f` bytes per input byte. -/
theorem dec_total_safe (v : Variant) (crcf : Bool → Bytes → Nat) (f : Fmt) (hg : Good v f = true) :
    ∀ (raw : Bytes) (off : Nat), off ≤ raw.length → raw.length ≤ 4294967296 →
      SafeN (cost f) (minSize f) raw off (run v crcf f raw off) := by
  induction f with
  | prim p =>
    intro raw off h hlen
    exact runPrim_safe v p hg raw off h hlen
  | seq a b iha ihb =>
    intro raw off h hlen
    simp only [Good, Bool.and_eq_true] at hg
    simp only [run, cost, minSize]
    refine SafeN.bind (SafeN.mono (iha hg.1 raw off h hlen) (Nat.le_max_left _ _) (Nat.le_refl _)) ?_
    intro u off1 a hu
    have h1 := iha hg.1 raw off h hlen
    rw [hu] at h1
    simp only [SafeN] at h1
    exact SafeN.mono (ihb hg.2 raw off1 h1.2.1 hlen) (Nat.le_max_right _ _) (Nat.le_refl _)
  | arr c k elem body ih =>
    intro raw off h hlen
    simp only [Good, Bool.and_eq_true, decide_eq_true_eq] at hg
    obtain ⟨⟨⟨hc, he⟩, hm⟩, hb⟩ := hg
    simp only [run, cost, minSize]
    refine SafeN.bind (m := 1) (m2 := 0) (SafeN.mono (getCount_safe v c raw off h) (Nat.zero_le _) (Nat.le_refl _)) ?_
    intro n off1 a hn
    obtain ⟨ho1, hrem, hslice⟩ := getCount_ok hc h hn
    unfold rem at hrem
    by_cases hrej : k = .reject ∧ n < 0
    · rw [if_pos hrej]; safe_arith
    rw [if_neg hrej]
    obtain ⟨A, hA, hAle⟩ := makeAlloc_some k elem n (by omega) he
      (fun hk => hk.elim hslice (fun hr => by
        have : ¬ n < 0 := fun hn => hrej ⟨hr, hn⟩
        omega))
    simp only [hA]
    have hi := iter_safe (c := cost body) (raw := raw) (step := run v crcf body raw)
      (fun o ho => SafeN.mono (ih hb raw o ho hlen) (Nat.le_refl _) hm) n.toNat off1 ho1
    cases hr : iter (run v crcf body raw) n.toNat off1 with
    | ok u off2 a2 =>
      rw [hr] at hi; simp only [SafeN] at hi
      simp only [Res.addAlloc, SafeN]
      exact ⟨by omega, hi.2.1, arr_alloc hAle (by omega) hi.2.2⟩
    | err e off2 a2 =>
      rw [hr] at hi; simp only [SafeN] at hi
      simp only [Res.addAlloc, SafeN]
      exact ⟨hi.1, hi.2.1, arr_alloc hAle (by omega) hi.2.2⟩
    | panic a2 => rw [hr] at hi; exact hi.elim
    | hang => rw [hr] at hi; exact hi.elim
  | lenField body ih =>
    intro raw off h hlen
    simp only [Good] at hg
    simp only [run, cost, minSize]
    refine SafeN.mono (field_safe (k := 4) v crcf raw off (pushLength raw off) (run v crcf body raw)
      (prim_safe_pushLength raw off h) ?_ (fun o ho => ih hg raw o ho hlen)) (Nat.le_refl _) (by omega)
    intro fr off1 a hp s cst hs
    obtain ⟨l, hl, _⟩ := pushLength_ok hp
    rw [hl] at hs; cases hs
  | varintLenField body ih =>
    intro raw off h hlen
    simp only [Good] at hg
    simp only [run, cost, minSize]
    refine SafeN.mono (field_safe (k := 1) v crcf raw off (pushVarintLength raw off) (run v crcf body raw)
      (prim_safe_pushVarintLength raw off h) ?_ (fun o ho => ih hg raw o ho hlen)) (Nat.le_refl _) (by omega)
    intro fr off1 a hp s cst hs
    obtain ⟨l, hl, _⟩ := pushVarintLength_ok hp
    rw [hl] at hs; cases hs
  | crcField cast body ih =>
    intro raw off h hlen
    simp only [Good] at hg
    simp only [run, cost, minSize]
    refine SafeN.mono (field_safe (k := 4) v crcf raw off (pushCrc cast raw off) (run v crcf body raw)
      (prim_safe_pushCrc cast raw off h) ?_ (fun o ho => ih hg raw o ho hlen)) (Nat.le_refl _) (by omega)
    intro fr off1 a hp s cst hs
    obtain ⟨hf, ho⟩ := pushCrc_ok hp
    rw [hf] at hs
    simp only [Frame.crc.injEq] at hs
    omega
  | subset32 body ih =>
    intro raw off h hlen
    simp only [Good] at hg
    simp only [run, cost, minSize]
    refine SafeN.mono (SafeN.bind (m := 4) (m2 := 0) (SafeN.mono (prim_safe_getInt32 raw off h) (Nat.zero_le _) (Nat.le_refl _)) ?_)
      (Nat.le_refl _) (by omega)
    intro n off1 a hn
    have e1 := getInt32_ok hn
    have hsafe := prim_safe_getSubset raw off1 n (by omega)
    cases hs : getSubset raw off1 n with
    | ok sub off2 a2 =>
      have e2 := getRawBytes_ok (by omega) hs
      obtain ⟨f1, f2, f3, f4, f5⟩ := e2
      have hsub := ih hg sub 0 (Nat.zero_le _) (by omega)
      simp only [Res.bind]
      cases hr : run v crcf body sub 0 with
      | ok u o a3 =>
        rw [hr] at hsub; simp only [SafeN] at hsub
        obtain ⟨s1, s2, s3⟩ := hsub
        simp only [Res.addAlloc, SafeN]
        have hle : o - 0 ≤ off2 - off1 := by omega
        exact ⟨by omega, by omega, by rw [f4, Nat.zero_add]; exact Nat.le_trans s3 (Nat.mul_le_mul_left _ hle)⟩
      | err e o a3 =>
        rw [hr] at hsub; simp only [SafeN] at hsub
        obtain ⟨s1, s2, s3⟩ := hsub
        simp only [Res.addAlloc, SafeN]
        have hle : sub.length - 0 ≤ raw.length - off1 := by omega
        exact ⟨by omega, by omega, by rw [f4, Nat.zero_add]; exact Nat.le_trans s3 (Nat.mul_le_mul_left _ hle)⟩
      | panic a3 => rw [hr] at hsub; exact hsub.elim
      | hang => rw [hr] at hsub; exact hsub.elim
    | err e off2 a2 =>
      rw [hs] at hsafe
      simp only [Res.bind]
      exact SafeN.mono hsafe (Nat.zero_le _) (Nat.le_refl _)
    | panic a2 => rw [hs] at hsafe; exact hsafe.elim
    | hang => rw [hs] at hsafe; exact hsafe.elim
  | whileRem p body ih =>
    intro raw off h hlen
    simp only [Good, Bool.and_eq_true, decide_eq_true_eq] at hg
    simp only [run, cost, minSize]
    exact loopRem_safe p (fun o ho => SafeN.mono (ih hg.2 raw o ho hlen) (Nat.le_refl _) hg.1) _ off h (by omega)

/-- never panics, never hangs, linear allocation – the statement of `dec_total_safe` spelled out -/
theorem dec_total_safe_spelled (v : Variant) (crcf : Bool → Bytes → Nat) (f : Fmt) (hg : Good v f = true)
    (raw : Bytes) (hlen : raw.length ≤ 4294967296) :
    (∃ off a, run v crcf f raw 0 = .ok () off a ∧ off ≤ raw.length ∧ a ≤ cost f * raw.length) ∨
    (∃ e off a, run v crcf f raw 0 = .err e off a ∧ off ≤ raw.length ∧ a ≤ cost f * raw.length) := by
  have h := dec_total_safe v crcf f hg raw 0 (Nat.zero_le _) hlen
  cases hr : run v crcf f raw 0 with
  | ok u off a =>
    rw [hr] at h; simp only [SafeN] at h
    exact Or.inl ⟨off, a, rfl, h.2.1, Nat.le_trans h.2.2 (Nat.mul_le_mul_left _ (by omega))⟩
  | err e off a =>
    rw [hr] at h; simp only [SafeN] at h
    exact Or.inr ⟨e, off, a, rfl, h.2.1, by simpa using h.2.2⟩
  | panic a => rw [hr] at h; exact h.elim
  | hang => rw [hr] at h; exact h.elim

/-! ### instances: the decode methods written in the language -/

/-- Record.decode with the header-count guard, the member metadata with the checked getStringArray, the sticky /
    assignment formats as they are (map-typed loop heads tolerate negative counts), MetadataResponse v0 with
    guarded loop heads: all total and safe on every input -/
example : Good .checked recordFmt = true := by decide
example : Good .checked memberMetadataFmt = true := by decide
example : Good .pinned memberAssignmentFmt = true := by decide
example : Good .pinned stickyV0Fmt = true := by decide
example : Good .pinned stickyV1Fmt = true := by decide
example : Good .checked metadataV0FmtGuarded = true := by decide
example : cost metadataV0FmtGuarded = 20 := by decide

theorem memberAssignment_safe_as_pinned (crcf : Bool → Bytes → Nat) (raw : Bytes) (hlen : raw.length ≤ 4294967296) :
    SafeN 52 3 raw 0 (run .pinned crcf memberAssignmentFmt raw 0) :=
  dec_total_safe .pinned crcf memberAssignmentFmt (by decide) raw 0 (Nat.zero_le _) hlen

/-- … and the pinned source is outside the theorem's hypotheses for exactly the reasons the harness finds:
    MetadataResponse v0 `ff ff ff fe` (negative length reaches make), member metadata `00 00 7f ff ff ff`
    (32 GiB `make([]string, n)`), a 15-byte Record whose header count is 2^55 -/
example : Good .pinned metadataV0Fmt = false := by decide
example : Good .checked metadataV0Fmt = false := by decide   -- the loop heads stay unguarded: −1 still panics
example : run .pinned (fun _ _ => 0) metadataV0Fmt [0xff, 0xff, 0xff, 0xfe] 0 = .panic 0 := by decide
example : run .checked (fun _ _ => 0) metadataV0Fmt [0xff, 0xff, 0xff, 0xff] 0 = .panic 0 := by decide
example : run .checked (fun _ _ => 0) metadataV0FmtGuarded [0xff, 0xff, 0xff, 0xff] 0 = .err .invalidArrayLength 4 0 := by decide
example : run .checked (fun _ _ => 0) metadataV0FmtGuarded [0xff, 0xff, 0xff, 0xfe] 0 = .err .invalidArrayLength 4 0 := by decide
example : run .pinned (fun _ _ => 0) memberMetadataFmt [0x00, 0x00, 0x7f, 0xff, 0xff, 0xff] 0
    = .err .insufficient 6 34359738352 := by decide
example : run .pinned (fun _ _ => 0) recordFmt [0x1c, 0, 0, 0, 1, 1, 0x80, 0x80, 0x80, 0x80, 0x80, 0x80, 0x80, 0x80, 0x01] 0
    = .panic 0 := by decide
example : run .checked (fun _ _ => 0) recordFmt [0x1c, 0, 0, 0, 1, 1, 0x80, 0x80, 0x80, 0x80, 0x80, 0x80, 0x80, 0x80, 0x01] 0
    = .err .insufficient 15 0 := by decide

/-! ## Part 3: lengths, checksums, trailing bytes, response size, progress -/

/-- a pushed 4-byte length field pops without error only if the stored value equals the number of bytes decoded
    after it (`lengthField.check`) -/
theorem length_mismatch_is_error (v : Variant) (crcf : Bool → Bytes → Nat) (body : Fmt) (raw : Bytes) (off off' a : Nat)
    (hlen : raw.length ≤ 2147483647)
    (hg : Good v body = true) (hoff : off ≤ raw.length)
    (h : run v crcf (.lenField body) raw off = .ok () off' a) :
    getInt32 raw off = .ok ((off' : Int) - off - 4) (off + 4) 0 := by
  simp only [run] at h
  obtain ⟨fr, off1, a1, a2, hp, hrest, _⟩ := bind_ok h
  obtain ⟨l, hfr, hget, ho1⟩ := pushLength_ok hp
  obtain ⟨u, off2, a3, a4, hb, hpop, _⟩ := bind_ok hrest
  have hs := dec_total_safe v crcf body hg raw off1 (by have := getInt32_ok hget; omega) (by omega)
  rw [hb] at hs; simp only [SafeN] at hs
  rw [hfr] at hpop
  simp only [pop] at hpop
  split at hpop
  · cases hpop
  · rename_i hne
    simp only [Res.ok.injEq] at hpop
    have hw : wrap32 ((off2 : Int) - off - 4) = l := by
      simpa using hne
    have : wrap32 ((off2 : Int) - off - 4) = (off2 : Int) - off - 4 := by
      unfold wrap32; omega
    rw [hget, ← ho1, ← hw, this, ← hpop.2.1]

/-- the varint length field of a Record: with the repaired check the stored value is exactly the number of bytes
    decoded after the field … -/
theorem varint_length_mismatch_is_error (crcf : Bool → Bytes → Nat) (body : Fmt) (raw : Bytes) (off off' a : Nat)
    (hlen : raw.length ≤ 2147483647)
    (hg : Good .checked body = true) (hoff : off ≤ raw.length)
    (h : run .checked crcf (.varintLenField body) raw off = .ok () off' a) :
    ∃ off1 : Nat, getVarint raw off = .ok ((off' : Int) - (off1 : Int)) off1 0 := by
  simp only [run] at h
  obtain ⟨fr, off1, a1, a2, hp, hrest, _⟩ := bind_ok h
  obtain ⟨l, hfr, hget⟩ := pushVarintLength_ok hp
  have e1 := getVarint_ok hoff hget
  obtain ⟨u, off2, a3, a4, hb, hpop, _⟩ := bind_ok hrest
  have hs := dec_total_safe .checked crcf body hg raw off1 e1.2.1 (by omega)
  rw [hb] at hs; simp only [SafeN] at hs
  rw [hfr] at hpop
  simp only [pop, ↓reduceIte] at hpop
  split at hpop
  · cases hpop
  · rename_i hne
    simp only [Res.ok.injEq] at hpop
    have hw : wrap64 ((off2 : Int) - off - ((off1 - off : Nat) : Int)) = l := by
      simpa using hne
    have : wrap64 ((off2 : Int) - off - ((off1 - off : Nat) : Int)) = (off2 : Int) - off1 := by
      unfold wrap64; omega
    refine ⟨off1, ?_⟩
    rw [hget, ← hw, this, ← hpop.2.1, e1.2.2]

/-- … whereas the pinned check subtracts the size of the CANONICAL encoding of the stored value
    (`reserveLength()`), so a non-canonical varint that claims one byte more than is there is accepted:
    `86 00 aa bb` declares 3 bytes, 2 follow, pop succeeds -/
example : (pushVarintLength [0x86, 0x00, 0xaa, 0xbb] 0).bind (fun fr _ => pop .pinned (fun _ _ => 0) [0x86, 0x00, 0xaa, 0xbb] fr 4)
    = .ok () 4 0 := by decide
example : getVarint [0x86, 0x00, 0xaa, 0xbb] 0 = .ok 3 2 0 := by decide
example : (pushVarintLength [0x86, 0x00, 0xaa, 0xbb] 0).bind (fun fr _ => pop .checked (fun _ _ => 0) [0x86, 0x00, 0xaa, 0xbb] fr 4)
    = .err .lengthField 4 0 := by decide

/-- a pushed CRC field pops without error only if the stored checksum equals the checksum of exactly the bytes
    decoded after it (`crc32Field.check`); `crcf` is the checksum function (hash/crc32 in the implementation) -/
theorem crc_mismatch_is_error (v : Variant) (crcf : Bool → Bytes → Nat) (cast : Bool) (body : Fmt) (raw : Bytes)
    (off off' a : Nat) (h : run v crcf (.crcField cast body) raw off = .ok () off' a) :
    crcf cast (slice raw (off + 4) off') = beU raw off 4 := by
  simp only [run] at h
  obtain ⟨fr, off1, a1, a2, hp, hrest, _⟩ := bind_ok h
  obtain ⟨hfr, ho1⟩ := pushCrc_ok hp
  obtain ⟨u, off2, a3, a4, hb, hpop, _⟩ := bind_ok hrest
  rw [hfr] at hpop
  simp only [pop] at hpop
  split at hpop
  · split at hpop
    · cases hpop
    · rename_i hne
      simp only [Res.ok.injEq] at hpop
      rw [← hpop.2.1]
      simpa using hne
  · cases hpop

/-- the primitive form: `pop` of a CRC frame succeeds iff stored = computed -/
theorem pop_crc_ok_iff (v : Variant) (crcf : Bool → Bytes → Nat) (raw : Bytes) (start cur : Nat) (cast : Bool)
    (h : start + 4 ≤ cur) (hc : cur ≤ raw.length) :
    pop v crcf raw (.crc start cast) cur = .ok () cur 0 ↔ crcf cast (slice raw (start + 4) cur) = beU raw start 4 := by
  have hs : sliceOK raw (start + 4) cur := ⟨by omega, by omega, by omega⟩
  by_cases hx : crcf cast (slice raw (start + 4) cur) = beU raw start 4
  · simp only [pop, hs, ne_eq, hx, not_true_eq_false, ↓reduceIte]
  · simp only [pop, hs, ne_eq, hx, not_false_eq_true, ↓reduceIte, reduceCtorEq]

/-- the whole-buffer check of `decode` / `versionedDecode`: a decoder that stops before the end of the buffer
    is an error ("invalid length"), so success means every byte was consumed -/
theorem trailing_bytes_is_error {α : Type} (r : Res α) (len : Nat) :
    (∀ v off a, topLevel r len = .ok v off a → off = len) ∧
    (∀ v off a, r = .ok v off a → off ≠ len → topLevel r len = .err .invalidLength off a) := by
  constructor
  · intro v off a h
    cases r with
    | ok v' off' a' =>
      simp only [topLevel] at h
      split at h
      · cases h
      · rename_i hne; simp only [Res.ok.injEq] at h; rw [← h.2.1]; simpa using hne
    | err e off' a' => simp [topLevel] at h
    | panic a' => simp [topLevel] at h
    | hang => simp [topLevel] at h
  · intro v off a h hne
    rw [h]; simp only [topLevel, hne, ne_eq, not_false_eq_true, ↓reduceIte]

example : topLevel (run .pinned (fun _ _ => 0) stickyV1Fmt [0, 0, 0, 0, 0, 0, 0, 7, 0xaa] 0) 9 = .err .invalidLength 8 0 := by decide
example : topLevel (run .pinned (fun _ _ => 0) stickyV1Fmt [0, 0, 0, 0, 0, 0, 0, 7] 0) 8 = .ok () 8 0 := by decide

/-- responseHeader.decode accepts a header only if 4 < length ≤ MaxResponseSize; the body buffer that
    responseReceiver then allocates (`length - headerLength + 4`) is between 0 and MaxResponseSize bytes -/
theorem response_size_capped (maxResp version : Int) (raw : Bytes) (off off' a : Nat) (length cid : Int)
    (hmax : maxResp ≤ 2147483647)
    (h : decodeHeader maxResp version raw off = .ok (length, cid) off' a) :
    4 < length ∧ length ≤ maxResp ∧
    bodySize length version = length - headerLength version + 4 ∧
    0 ≤ bodySize length version ∧ bodySize length version ≤ maxResp := by
  unfold decodeHeader at h
  obtain ⟨l, off1, a1, a2, hget, hrest, _⟩ := bind_ok h
  split at hrest
  · cases hrest
  · rename_i hc
    have hl : length = l := by
      split at hrest
      · split at hrest
        · obtain ⟨_, _, _, _, _, h2, _⟩ := bind_ok hrest
          simp only [Res.ok.injEq, Prod.mk.injEq] at h2
          exact h2.1.1.symm
        · simp only [Res.ok.injEq, Prod.mk.injEq] at hrest
          exact hrest.1.1.symm
      · split at hrest
        · split at hrest <;> cases hrest
        · cases hrest
      · cases hrest
      · cases hrest
    subst hl
    unfold bodySize headerLength wrap32
    split <;> omega

/-- the header decoder itself never panics and stays inside the buffer -/
theorem decodeHeader_safe (maxResp version : Int) (raw : Bytes) (off : Nat) (h : off ≤ raw.length) :
    Safe 0 raw off (decodeHeader maxResp version raw off) := by
  unfold decodeHeader
  refine SafeN.mono (SafeN.bind (m := 4) (m2 := 0) (prim_safe_getInt32 raw off h) ?_) (Nat.le_refl _) (Nat.zero_le _)
  intro l off1 a hl
  have e1 := getInt32_ok hl
  split
  · safe_arith
  · have h2 := prim_safe_getInt32 raw off1 (by omega)
    cases hr : getInt32 raw off1 with
    | ok cid off2 a2 =>
      rw [hr] at h2; simp only [SafeN] at h2
      simp only []
      split
      · have h3 := prim_safe_getEmptyTaggedFieldArray raw off2 h2.2.1
        cases hr3 : getEmptyTaggedFieldArray raw off2 with
        | ok t off3 a3 => rw [hr3] at h3; simp only [SafeN] at h3; simp only [Res.bind, Res.addAlloc, SafeN]; omega
        | err e off3 a3 => rw [hr3] at h3; simp only [SafeN] at h3; simp only [Res.bind, SafeN]; omega
        | panic a3 => rw [hr3] at h3; exact h3.elim
        | hang => rw [hr3] at h3; exact h3.elim
      · simp only [SafeN]; omega
    | err e off2 a2 =>
      rw [hr] at h2; simp only [SafeN] at h2
      simp only []
      split
      · have h3 := prim_safe_getEmptyTaggedFieldArray raw off2 h2.2.1
        cases hr3 : getEmptyTaggedFieldArray raw off2 with
        | ok t off3 a3 => rw [hr3] at h3; simp only [SafeN] at h3; simp only [SafeN]; omega
        | err e off3 a3 => rw [hr3] at h3; simp only [SafeN] at h3; simp only [SafeN]; omega
        | panic a3 => rw [hr3] at h3; exact h3.elim
        | hang => rw [hr3] at h3; exact h3.elim
      · simp only [SafeN]; omega
    | panic a2 => rw [hr] at h2; exact h2.elim
    | hang => rw [hr] at h2; exact h2.elim

example : (decodeHeader 104857600 0 [0, 0, 0, 12, 0, 0, 0, 42] 0).map (·.1) = .ok 12 8 0 := by decide
example : (decodeHeader 104857600 0 [0, 0, 0, 12, 0, 0, 0, 42] 0).map (·.2) = .ok 42 8 0 := by decide
example : decodeHeader 104857600 0 [0x7f, 0xff, 0xff, 0xff, 0, 0, 0, 42] 0 = .err .headerLength 4 0 := by decide
example : decodeHeader 104857600 0 [0, 0, 0, 4, 0, 0, 0, 42] 0 = .err .headerLength 4 0 := by decide

/-- progress of `for pd.remaining() > 0 { … }` (MessageSet.decode, FetchResponseBlock.decode): an iteration
    that does not end the loop consumed at least one byte … -/
theorem loop_progress (v : Variant) (crcf : Bool → Bytes → Nat) (body : Fmt) (hg : Good v body = true)
    (hm : 1 ≤ minSize body) (raw : Bytes) (off off1 a : Nat) (hoff : off ≤ raw.length) (hlen : raw.length ≤ 4294967296)
    (h : run v crcf body raw off = .ok () off1 a) : off < off1 ∧ off1 ≤ raw.length := by
  have hs := dec_total_safe v crcf body hg raw off hoff hlen
  rw [h] at hs; simp only [SafeN] at hs
  omega

/-- … hence the loop never hangs, and its result does not depend on the fuel the model gives it -/
theorem loop_never_hangs (v : Variant) (crcf : Bool → Bytes → Nat) (p : Bool) (body : Fmt) (hg : Good v body = true)
    (hm : 1 ≤ minSize body) (raw : Bytes) (off fuel : Nat) (hoff : off ≤ raw.length) (hlen : raw.length ≤ 4294967296)
    (hf : raw.length - off < fuel) :
    loopRem p raw.length (run v crcf body raw) fuel off = run v crcf (.whileRem p body) raw off ∧
    run v crcf (.whileRem p body) raw off ≠ .hang := by
  constructor
  · simp only [run]
    apply loopRem_fuel_irrelevant p _ fuel _ off hoff hf (by omega)
    intro o u o1 a1 ho hs
    cases u
    exact loop_progress v crcf body hg hm raw o o1 a1 ho hlen hs
  · have hs := dec_total_safe v crcf (.whileRem p body) (by simp only [Good, Bool.and_eq_true, decide_eq_true_eq]; exact ⟨hm, hg⟩)
      raw off hoff hlen
    intro hh
    rw [hh] at hs
    exact hs

/-- a loop whose body consumes nothing is the hang the property forbids (why `Good` demands minSize ≥ 1) -/
example : loopRem false 1 (fun off => .ok () off 0) 5 0 = .hang := by decide

end Props.C10
