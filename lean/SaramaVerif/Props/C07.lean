import SaramaVerif.Model.Group
/-
  C07 — consumer-group sessions follow the documented life-cycle and resume from commits.

  Part 1 (session acceptor): for EVERY accepted sequence of coordinator requests and handler callbacks
  (any coordinator behaviour, handler behaviour, cancellation or Close moment - they only decide WHICH accepted
  sequence occurs): Setup at most once per session and only after a successful join+sync; at most one ConsumeClaim
  per partition per session, only between Setup and Cleanup; Cleanup at most once and only when every started
  ConsumeClaim has returned; Consume returns only after Cleanup; every sync / heartbeat / commit / Setup carries the
  member id and generation of the latest successful join; a fenced member's next join carries the empty member id.
  Part 2 (newSession as a function over coordinator answers): retry budget, fresh identity after fencing, other
  errors returned unchanged, the session's identity is the join's.
  Resumption from commits ("claims start at the committed offset, nothing skipped across sessions") is C06's
  `next_offset_*` theorems plus the oracle of the group harness; it is not re-proved here.
-/
namespace Props.C07
open Model.Group

structure GInv (s : St) : Prop where
  setups_nodup   : s.setups.Nodup
  cleanups_nodup : s.cleanups.Nodup
  clean_sub      : ∀ n ∈ s.cleanups, n ∈ s.setups
  active_setup   : ∀ a, s.active = some a → a ∈ s.setups
  active_clean   : ∀ a, s.active = some a → (s.cleaned = true ↔ a ∈ s.cleanups)
  past_cleaned   : ∀ n ∈ s.setups, s.active ≠ some n → n ∈ s.cleanups
  started_nodup  : s.started.Nodup
  ended_sub      : ∀ p ∈ s.ended, p ∈ s.started
  cleaned_all    : s.cleaned = true → s.active.isSome → ∀ p ∈ s.started, p ∈ s.ended

theorem init_inv : GInv {} := by
  constructor <;> simp

theorem step_inv (s s' : St) (e : Ev) (h : step s e = .ok s') (hi : GInv s) : GInv s' := by
  cases e with
  | join m v im ig =>
    simp only [step] at h
    split at h; · cases h
    split at h; · cases h
    cases v <;> (injection h with h; subst h; exact ⟨hi.1, hi.2, hi.3, hi.4, hi.5, hi.6, hi.7, hi.8, hi.9⟩)
  | sync m g v =>
    simp only [step] at h
    split at h; · cases h
    cases v <;> (injection h with h; subst h; exact ⟨hi.1, hi.2, hi.3, hi.4, hi.5, hi.6, hi.7, hi.8, hi.9⟩)
  | heartbeat m g v =>
    simp only [step] at h
    split at h; · cases h
    split at h; · cases h
    injection h with h; subst h; exact ⟨hi.1, hi.2, hi.3, hi.4, hi.5, hi.6, hi.7, hi.8, hi.9⟩
  | commit m g v =>
    simp only [step] at h
    split at h; · cases h
    injection h with h; subst h; exact hi
  | setup n m g =>
    simp only [step] at h
    split at h; · cases h
    split at h; · cases h
    split at h; · cases h
    split at h; · cases h
    rename_i h1 h2 h3 h4
    injection h with h; subst h
    have hnone : s.active = none := by
      cases ha : s.active with
      | none => rfl
      | some a => simp [ha] at h1
    refine ⟨?_, hi.cleanups_nodup, ?_, ?_, ?_, ?_, by simp, by simp, by simp⟩
    · exact List.nodup_cons.mpr ⟨h4, hi.setups_nodup⟩
    · intro k hk; exact List.mem_cons_of_mem _ (hi.clean_sub k hk)
    · intro a ha; simp only [Option.some.injEq] at ha; subst ha; exact List.mem_cons_self
    · intro a ha; simp only [Option.some.injEq] at ha; subst ha
      constructor
      · intro hc; simp at hc
      · intro hc; exact absurd (hi.clean_sub _ hc) h4
    · intro k hk hne
      rcases List.mem_cons.mp hk with rfl | hk
      · simp at hne
      · exact hi.past_cleaned k hk (by simp [hnone])
  | claimStart n p =>
    simp only [step] at h
    split at h; · cases h
    split at h; · cases h
    split at h; · cases h
    rename_i h1 h2 h3
    injection h with h; subst h
    refine ⟨hi.1, hi.2, hi.3, hi.4, hi.5, hi.6, ?_, ?_, ?_⟩
    · exact List.nodup_cons.mpr ⟨h3, hi.started_nodup⟩
    · intro q hq; exact List.mem_cons_of_mem _ (hi.ended_sub q hq)
    · intro hc; simp only at hc; simp [hc] at h2
  | claimEnd n p =>
    simp only [step] at h
    split at h; · cases h
    split at h; · cases h
    rename_i h1 h2
    injection h with h; subst h
    refine ⟨hi.1, hi.2, hi.3, hi.4, hi.5, hi.6, hi.7, ?_, ?_⟩
    · intro q hq
      rcases List.mem_cons.mp hq with rfl | hq
      · have : q ∈ s.started := by
          by_cases hm : q ∈ s.started
          · exact hm
          · exact absurd (Or.inl hm) h2
        exact this
      · exact hi.ended_sub q hq
    · intro hc ha q hq; exact List.mem_cons_of_mem _ (hi.cleaned_all hc ha q hq)
  | cleanup n =>
    simp only [step] at h
    split at h; · cases h
    split at h; · cases h
    split at h; · cases h
    rename_i h1 h2 h3
    injection h with h; subst h
    have hact : s.active = some n := by simpa using h1
    have hnc : n ∉ s.cleanups := by
      intro hc
      have := (hi.active_clean n hact).mpr hc
      simp [this] at h2
    refine ⟨hi.1, ?_, ?_, hi.4, ?_, ?_, hi.7, hi.8, ?_⟩
    · exact List.nodup_cons.mpr ⟨hnc, hi.cleanups_nodup⟩
    · intro k hk
      rcases List.mem_cons.mp hk with rfl | hk
      · exact hi.active_setup _ hact
      · exact hi.clean_sub k hk
    · intro a ha
      have : a = n := by simp only at ha; rw [hact] at ha; exact (Option.some.inj ha).symm
      subst this
      constructor
      · intro _; exact List.mem_cons_self
      · intro _; rfl
    · intro k hk hne
      exact List.mem_cons_of_mem _ (hi.past_cleaned k hk hne)
    · intro _ _ q hq
      have hall : s.started.all (fun p => decide (p ∈ s.ended)) = true := by simpa using h3
      have := List.all_eq_true.mp hall q hq
      simpa using this
  | ret n =>
    simp only [step] at h
    split at h
    · rename_i hnone
      injection h with h; subst h
      exact ⟨hi.1, hi.2, hi.3, hi.4, hi.5, hi.6, hi.7, hi.8, hi.9⟩
    · rename_i a hsome
      split at h; · cases h
      split at h; · cases h
      rename_i h1 h2
      injection h with h; subst h
      have han : a = n := by
        by_cases hh : a = n
        · exact hh
        · exact absurd hh h1
      subst han
      have hcl : s.cleaned = true := by simpa using h2
      refine ⟨hi.1, hi.2, hi.3, ?_, ?_, ?_, hi.7, hi.8, ?_⟩
      · intro b hb; simp at hb
      · intro b hb; simp at hb
      · intro k hk _
        by_cases hka : k = a
        · subst hka; exact (hi.active_clean k hsome).mp hcl
        · exact hi.past_cleaned k hk (by rw [hsome]; simp; exact fun e => hka e.symm)
      · intro _ ha; simp at ha

theorem run_inv (s s' : St) (es : List Ev) (h : run s es = .ok s') (hi : GInv s) : GInv s' := by
  induction es generalizing s with
  | nil => simp only [run] at h; injection h with h; subst h; exact hi
  | cons e es ih =>
    simp only [run] at h
    split at h
    · rename_i s1 hs; exact ih s1 h (step_inv s s1 e hs hi)
    · cases h

/-- **session_order** (whole-trace form): Setup at most once per session, Cleanup at most once and only for a
    session that was set up, and every set-up session whose Consume has returned ran Cleanup before. -/
theorem session_order (es : List Ev) (s : St) (h : run {} es = .ok s) :
    s.setups.Nodup ∧ s.cleanups.Nodup ∧ (∀ n ∈ s.cleanups, n ∈ s.setups) ∧
    (∀ n ∈ s.setups, s.active ≠ some n → n ∈ s.cleanups) := by
  have hi := run_inv {} s es h init_inv
  exact ⟨hi.setups_nodup, hi.cleanups_nodup, hi.clean_sub, hi.past_cleaned⟩

/-- Setup only after a successful join + sync carrying the issued identity, with no other session active -/
theorem setup_needs_sync (s s' : St) (n m : Nat) (g : Int) (h : step s (.setup n m g) = .ok s') :
    s.synced = true ∧ s.active = none ∧ m = s.member ∧ g = s.gen := by
  simp only [step] at h
  split at h; · cases h
  split at h; · cases h
  split at h; · cases h
  split at h; · cases h
  rename_i h1 h2 h3 h4
  refine ⟨by simpa using h2, ?_, ?_, ?_⟩
  · cases ha : s.active with
    | none => rfl
    | some a => simp [ha] at h1
  · by_cases hm : m = s.member
    · exact hm
    · exact absurd (Or.inl hm) h3
  · by_cases hg : g = s.gen
    · exact hg
    · exact absurd (Or.inr hg) h3

/-- at most one ConsumeClaim per partition per session, only in an active session, between Setup and Cleanup -/
theorem claim_at_most_once (s s' : St) (n p : Nat) (h : step s (.claimStart n p) = .ok s') :
    s.active = some n ∧ s.cleaned = false ∧ p ∉ s.started := by
  simp only [step] at h
  split at h; · cases h
  split at h; · cases h
  split at h; · cases h
  rename_i h1 h2 h3
  exact ⟨by simpa using h1, by simpa using h2, h3⟩

/-- Cleanup runs only once every started ConsumeClaim has returned -/
theorem cleanup_after_claims (s s' : St) (n : Nat) (h : step s (.cleanup n) = .ok s') :
    s.active = some n ∧ ∀ p ∈ s.started, p ∈ s.ended := by
  simp only [step] at h
  split at h; · cases h
  split at h; · cases h
  split at h; · cases h
  rename_i h1 h2 h3
  refine ⟨by simpa using h1, ?_⟩
  intro q hq
  have hall : s.started.all (fun p => decide (p ∈ s.ended)) = true := by simpa using h3
  simpa using List.all_eq_true.mp hall q hq

/-- Consume of a session that ran Setup returns only after Cleanup -/
theorem return_after_cleanup (s s' : St) (n a : Nat) (ha : s.active = some a) (h : step s (.ret n) = .ok s') :
    a = n ∧ s.cleaned = true := by
  simp only [step, ha] at h
  split at h; · cases h
  split at h; · cases h
  rename_i h1 h2
  exact ⟨by by_cases hh : a = n; exact hh; exact absurd hh h1, by simpa using h2⟩

/-- **identity_carried**: every sync / heartbeat / commit the model accepts carries the member id and generation of
    the state, and that pair only changes through a successful join (which installs what the coordinator issued) -/
theorem identity_carried (s s' : St) (m : Nat) (g : Int) (v : Verdict) :
    (step s (.sync m g v) = .ok s' → m = s.member ∧ g = s.gen) ∧
    (step s (.heartbeat m g v) = .ok s' → m = s.member ∧ g = s.gen) ∧
    (step s (.commit m g v) = .ok s' → m = s.member ∧ g = s.gen) := by
  refine ⟨?_, ?_, ?_⟩ <;> intro h <;> simp only [step] at h <;> split at h <;>
    first
    | (cases h; done)
    | (rename_i hc
       exact ⟨by by_cases hm : m = s.member; exact hm; exact absurd (Or.inl hm) hc,
              by by_cases hg : g = s.gen; exact hg; exact absurd (Or.inr hg) hc⟩)

theorem identity_changes_only_by_join (s s' : St) (e : Ev) (h : step s e = .ok s')
    (hne : ∀ m im ig, e ≠ .join m .ok im ig) : s'.member = s.member ∧ s'.gen = s.gen := by
  cases e <;> simp only [step] at h <;> (repeat' split at h) <;>
    first | (cases h; done) | (injection h with h; subst h; first | exact ⟨rfl, rfl⟩ | (exfalso; simp_all))

/-- **fenced_rejoins_fresh**: once an answer fenced the member, every join the model accepts carries the empty
    member id, and the fenced flag stays up until that join -/
theorem fenced_rejoins_fresh (s s' : St) (m : Nat) (v : Verdict) (im : Nat) (ig : Int)
    (hf : s.fenced = true) (h : step s (.join m v im ig) = .ok s') : m = 0 := by
  simp only [step, hf] at h
  split at h
  · cases h
  · rename_i hc; simp at hc; exact hc

theorem fenced_until_join (s s' : St) (e : Ev) (hf : s.fenced = true) (h : step s e = .ok s')
    (hne : ∀ m v im ig, e ≠ .join m v im ig) (hns : ∀ m g v, e ≠ .sync m g v) : s'.fenced = true := by
  cases e with
  | join m v im ig => exact absurd rfl (hne m v im ig)
  | sync m g v => exact absurd rfl (hns m g v)
  | _ =>
    simp only [step] at h
    (repeat' split at h) <;> first | (cases h; done) | (injection h with h; subst h; exact hf)

theorem fence_answer_sets_fenced (s s' : St) (m : Nat) (g : Int) (im : Nat) (ig : Int) :
    (step s (.join m .fence im ig) = .ok s' → s'.fenced = true) ∧
    (step s (.sync m g .fence) = .ok s' → s'.fenced = true) := by
  constructor <;> intro h <;> simp only [step] at h <;> (repeat' split at h) <;>
    first | (cases h; done) | (injection h with h; subst h; rfl)

/-! ### newSession over coordinator answers -/

/-- the number of back-off retries never exceeds the budget (Consumer.Group.Rebalance.Retry.Max) -/
theorem retry_budget (r m : Nat) (script : List Ans) : (newSession r m script).2.1 ≤ r := by
  fun_induction newSession r m script <;> simp_all <;> omega

/-- an error that is neither a fence, a rebalance-in-progress nor a not-coordinator answer is returned to the
    caller unchanged, without another request -/
theorem other_error_returned_unchanged (r m im : Nat) (ig : Int) (rest : List Ans) :
    newSession r m (.join .other im ig :: rest) = ([.join m], 0, .failed .other) ∧
    newSession r m (.join .ok im ig :: .sync .other :: rest) = ([.join m, .sync im ig], 0, .failed .other) := by
  constructor <;> simp [newSession]

/-- after a fencing answer (to the join or to the sync) the next join carries the empty member id -/
theorem fenced_join_is_fresh (r m im : Nat) (ig : Int) (rest : List Ans) :
    (newSession r m (.join .fence im ig :: rest)).1 = .join m :: (newSession r 0 rest).1 ∧
    (newSession r m (.join .ok im ig :: .sync .fence :: rest)).1 = .join m :: .sync im ig :: (newSession r 0 rest).1 := by
  constructor <;> simp [newSession]

/-- the session that is created carries exactly the member id and generation of the join answer, and the sync
    request that preceded it carried them too -/
theorem session_identity_is_joins (r m im : Nat) (ig : Int) (rest : List Ans) :
    newSession r m (.join .ok im ig :: .sync .ok :: rest) = ([.join m, .sync im ig], 0, .session im ig) := by
  simp [newSession]

/-- with the budget spent, rebalance-in-progress / not-coordinator answers are returned instead of retried -/
theorem budget_spent_returns (m im : Nat) (ig : Int) (rest : List Ans) :
    newSession 0 m (.join .rebalance im ig :: rest) = ([.join m], 0, .failed .rebalance) ∧
    newSession 0 m (.join .notCoord im ig :: rest) = ([.join m], 0, .failed .notCoord) := by
  constructor <;> simp [newSession]

/-! non-vacuity -/
example : (run {} [.join 0 .ok 1 1, .sync 1 1 .ok, .setup 0 1 1, .claimStart 0 0, .claimStart 0 1, .heartbeat 1 1 .rebalance,
                   .claimEnd 0 1, .claimEnd 0 0, .cleanup 0, .commit 1 1 .ok, .ret 0,
                   .join 1 .fence 0 0, .join 0 .ok 2 2, .sync 2 2 .ok, .setup 1 2 2, .cleanup 1, .ret 1]).toOption.map
          (fun s => (s.setups, s.cleanups, s.member)) = some ([1, 0], [1, 0], 2) := by decide
example : (run {} [.join 0 .ok 1 1, .sync 1 1 .ok, .setup 0 1 1, .claimStart 0 0, .cleanup 0]).toOption.isNone = true := by decide
example : (run {} [.join 0 .ok 1 1, .sync 1 1 .fence, .join 1 .ok 1 2]).toOption.isNone = true := by decide
example : newSession 2 7 [.join .rebalance 0 0, .join .ok 7 3, .sync .fence, .coordErr, .join .ok 8 4, .sync .ok] =
    ([.join 7, .join 7, .sync 7 3, .join 0, .sync 8 4], 2, .session 8 4) := by decide

/-! ### the session ends when the coordinator announces a rebalance or fences the member -/

theorem hbOver_kept (s s' : St) (e : Ev) (h : step s e = .ok s') (hne : ∀ m v im ig, e ≠ .join m v im ig)
    (ho : s.hbOver = true) : s'.hbOver = true := by
  cases e
  case join m v im ig => exact absurd rfl (hne m v im ig)
  all_goals
    simp only [step] at h <;> (repeat' split at h) <;>
    first
    | (cases h; done)
    | (injection h with h; subst h; first | exact ho | (exfalso; simp_all))

theorem hbOver_kept_run (es : List Ev) (s s' : St) (h : run s es = .ok s')
    (hne : ∀ e ∈ es, ∀ m v im ig, e ≠ .join m v im ig) (ho : s.hbOver = true) : s'.hbOver = true := by
  induction es generalizing s with
  | nil => simp only [run] at h; injection h with h; subst h; exact ho
  | cons e es ih =>
    simp only [run] at h
    split at h
    · rename_i s1 hs
      exact ih s1 h (fun e' he' => hne e' (List.mem_cons_of_mem _ he'))
        (hbOver_kept s s1 e hs (hne e List.mem_cons_self) ho)
    · cases h

/-- **heartbeats_stop_after_announcement**: once the coordinator has answered a heartbeat with an error code (rebalance in
    progress, unknown member, illegal generation, or any other), the model accepts no further heartbeat of that member
    until it has sent a new JoinGroup: the heartbeat loop, and with it the session, ends -/
theorem heartbeats_stop_after_announcement (s s1 s2 : St) (m : Nat) (g : Int) (v : Verdict) (es : List Ev)
    (m' : Nat) (g' : Int) (v' : Verdict)
    (h1 : step s (.heartbeat m g v) = .ok s1) (hv : endsHeartbeats v = true)
    (hne : ∀ e ∈ es, ∀ a b c d, e ≠ .join a b c d) (h2 : run s1 es = .ok s2) :
    ∃ msg, step s2 (.heartbeat m' g' v') = .error msg := by
  have ho1 : s1.hbOver = true := by
    simp only [step] at h1
    split at h1; · cases h1
    split at h1; · cases h1
    injection h1 with h1; subst h1; exact hv
  have ho2 := hbOver_kept_run es s1 s2 h2 hne ho1
  simp only [step]
  split
  · exact ⟨_, rfl⟩
  · simp [ho2]

example : (run {} [.join 0 .ok 1 1, .sync 1 1 .ok, .setup 0 1 1, .heartbeat 1 1 .ok, .heartbeat 1 1 .rebalance,
                   .heartbeat 1 1 .ok]).toOption.isNone = true := by decide

end Props.C07
