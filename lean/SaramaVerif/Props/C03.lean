import SaramaVerif.Lemmas.C03Hist
/-
  C03 — a partition consumer delivers the log exactly once, in order, unaltered.

  Objects: `L : List LUnit` an arbitrary partition log (record batches, legacy v0/v1 blocks and compressed
  wrappers, control batches, compaction gaps), well-formed (`LogWF`); a consumer state (next offset, fetch
  size); a fetch history `bs : List Block`, every response faithful for the state in which it arrives
  (`FaithfulHist`: error block | missing block | throttled-empty | a run of consecutive units of the log that
  begins with the first unit reaching the asked offset, cut anywhere, possibly with partial trailing data).
  `run cfg st bs` is the model of the real parseResponse applied to the history (tied to the code by
  differential execution and the bridge obligations).  `visible tsw L` = all records of non-control units.
-/
namespace Props.C03
open Model.ConsumerParse Lemmas.C03

/-- isolation hypothesis of C03 (C11 treats read-committed over transactional logs) -/
def IsoLog (cfg : Cfg) (L : List LUnit) : Prop := cfg.readCommitted = false ∨ ∀ u ∈ L, unitIsTxn u = false

private theorem isoOK_of_log {cfg : Cfg} {L : List LUnit} {o : Int} {es : List Entry}
    (h : IsoLog cfg L) (hf : FaithfulData L o es) : IsoOK cfg es := by
  obtain ⟨pre, post, hL, _⟩ := hf
  refine h.imp id (fun h b hb => ?_)
  have : LUnit.bat b ∈ L := by
    rw [hL]
    apply List.mem_append_left; apply List.mem_append_right
    exact List.mem_flatMap.2 ⟨_, hb, by simp [entryUnits]⟩
  exact h _ this

private theorem window_empty {a b : Int} (h : b ≤ a) (l : List SRec) : window a b l = [] := by
  unfold window
  apply List.filter_eq_nil_iff.2
  intro r _; simp only [decide_eq_true_eq]; omega

private theorem visible_asc {tsw : Bool} {L : List LUnit} {b0 : Int} (h : LogWF tsw b0 L) : Asc b0 (visible tsw L) := by
  rw [visible_eq]; exact segVis_asc ((logWF_iff tsw L b0).1 h)

/-- one faithful response: what is handed over is exactly the visible part of the log between the asked and
    the next offset; the offset never moves backwards -/
theorem step_window (cfg : Cfg) (L : List LUnit) (b0 : Int) (st : PState) (b : Block)
    (hwf : LogWF cfg.tsFromWrapper b0 L) (hiso : IsoLog cfg L) (hf : FaithfulResp cfg L st b) :
    (parseBlock cfg st b).1 = window st.offset (parseBlock cfg st b).2.1.offset (visible cfg.tsFromWrapper L) ∧
    st.offset ≤ (parseBlock cfg st b).2.1.offset := by
  cases b with
  | throttled => exact ⟨(window_empty (Int.le_refl _) _).symm, Int.le_refl _⟩
  | missing => exact ⟨(window_empty (Int.le_refl _) _).symm, Int.le_refl _⟩
  | err c => exact ⟨(window_empty (Int.le_refl _) _).symm, Int.le_refl _⟩
  | data es pt ab =>
    obtain ⟨hd, hg⟩ := hf
    by_cases hn : nRecs es = 0
    · simp only [parseBlock, hn, ↓reduceIte]
      by_cases hp : pt = true
      · have := hg hp hn
        simp only [hp, ↓reduceIte, this]
        exact ⟨(window_empty (Int.le_refl _) _).symm, Int.le_refl _⟩
      · simp only [hp, Bool.false_eq_true, ↓reduceIte]
        exact ⟨(window_empty (Int.le_refl _) _).symm, Int.le_refl _⟩
    · have ⟨r1, r2, _, _, _⟩ := resp_static cfg L b0 st es pt ab hwf hd (isoOK_of_log hiso hd) hn
      exact ⟨r1, by omega⟩

/-- invariant of a whole faithful history -/
theorem run_window (cfg : Cfg) (L : List LUnit) (b0 : Int) (hwf : LogWF cfg.tsFromWrapper b0 L) (hiso : IsoLog cfg L) :
    ∀ (bs : List Block) (st : PState), FaithfulHist cfg L st bs →
    (run cfg st bs).1 = window st.offset (run cfg st bs).2.offset (visible cfg.tsFromWrapper L) ∧
    st.offset ≤ (run cfg st bs).2.offset
  | [], st, _ => ⟨(window_empty (Int.le_refl _) _).symm, Int.le_refl _⟩
  | b :: bs, st, ⟨hf, hrest⟩ => by
      have ⟨s1, s2⟩ := step_window cfg L b0 st b hwf hiso hf
      have ⟨i1, i2⟩ := run_window cfg L b0 hwf hiso bs _ hrest
      simp only [run]
      refine ⟨?_, by omega⟩
      rw [s1, i1]
      exact (window_split (visible_asc hwf) s2 i2).symm

private theorem asc_raise : ∀ {l : List SRec} {b b' : Int}, Asc b l → (∀ r ∈ l, b' < r.off) → Asc b' l
  | [], _, _, _, _ => trivial
  | x :: _, _, _, ⟨_, h2⟩, h => ⟨h x List.mem_cons_self, h2⟩

private theorem asc_filter (p : SRec → Bool) : ∀ {l : List SRec} {b : Int}, Asc b l → Asc b (l.filter p)
  | [], _, _ => trivial
  | x :: xs, b, ⟨h1, h2⟩ => by
      simp only [List.filter_cons]
      split
      · exact ⟨h1, asc_filter p h2⟩
      · exact Asc.mono (by omega) (asc_filter p h2)

private theorem asc_pairwise : ∀ {l : List SRec} {b : Int}, Asc b l → l.Pairwise (fun x y => x.off < y.off)
  | [], _, _ => List.Pairwise.nil
  | x :: xs, _, ⟨_, h2⟩ => List.Pairwise.cons (fun y hy => Asc.all_gt h2 y hy) (asc_pairwise h2)

private theorem visibleFrom_split {b0 : Int} : ∀ {l : List SRec}, Asc b0 l → ∀ {S o : Int}, S ≤ o →
    visibleFrom S l = window S o l ++ visibleFrom o l
  | [], _, _, _, _ => rfl
  | x :: xs, ⟨_, hx⟩, S, o, h => by
      have ih := visibleFrom_split hx h
      unfold visibleFrom window at *
      simp only [List.filter_cons]
      by_cases h1 : S ≤ x.off
      · by_cases h2 : x.off < o
        · rw [decide_eq_true h1, decide_eq_true (⟨h1, h2⟩ : S ≤ x.off ∧ x.off < o),
            decide_eq_false (by omega : ¬ o ≤ x.off), ih]; rfl
        · have hl : xs.filter (fun r => decide (S ≤ r.off ∧ r.off < o)) = [] := by
            apply List.filter_eq_nil_iff.2
            intro r hr; have := Asc.all_gt hx r hr
            simp only [decide_eq_true_eq]; omega
          rw [decide_eq_true h1, decide_eq_false (by omega : ¬ (S ≤ x.off ∧ x.off < o)),
            decide_eq_true (by omega : o ≤ x.off), ih, hl]; rfl
      · rw [decide_eq_false h1, decide_eq_false (by omega : ¬ (S ≤ x.off ∧ x.off < o)),
          decide_eq_false (by omega : ¬ o ≤ x.off), ih]; rfl

/-- **consume_prefix**: for every well-formed log, every start offset `S`, every fetch size, every history
    of faithful responses: the concatenation of everything delivered
    (1) is exactly the visible records of the log with `S ≤ offset < next offset` (nothing skipped, nothing
        below `S`, every message with the offset / key / value / headers / timestamp stored in the log),
    (2) is a prefix of `visibleFrom S (visible L)`,
    (3) has strictly increasing offsets (nothing twice, nothing reordered). -/
theorem consume_prefix (cfg : Cfg) (L : List LUnit) (b0 S fs : Int) (bs : List Block)
    (hwf : LogWF cfg.tsFromWrapper b0 L) (hiso : IsoLog cfg L) (hf : FaithfulHist cfg L ⟨S, fs⟩ bs) :
    (run cfg ⟨S, fs⟩ bs).1 = window S (run cfg ⟨S, fs⟩ bs).2.offset (visible cfg.tsFromWrapper L) ∧
    (∃ rest, visibleFrom S (visible cfg.tsFromWrapper L) = (run cfg ⟨S, fs⟩ bs).1 ++ rest) ∧
    (run cfg ⟨S, fs⟩ bs).1.Pairwise (fun x y => x.off < y.off) := by
  have ⟨h1, h2⟩ := run_window cfg L b0 hwf hiso bs ⟨S, fs⟩ hf
  dsimp only at h1 h2
  refine ⟨h1, ⟨visibleFrom (run cfg ⟨S, fs⟩ bs).2.offset (visible cfg.tsFromWrapper L), ?_⟩, ?_⟩
  · rw [h1]; exact visibleFrom_split (visible_asc hwf) h2
  · rw [h1]; exact asc_pairwise (asc_filter _ (visible_asc hwf))

/-- every delivered message is a record of a non-control unit of the log, unaltered, with offset ≥ S -/
theorem delivered_is_stored (cfg : Cfg) (L : List LUnit) (b0 S fs : Int) (bs : List Block)
    (hwf : LogWF cfg.tsFromWrapper b0 L) (hiso : IsoLog cfg L) (hf : FaithfulHist cfg L ⟨S, fs⟩ bs) :
    ∀ m ∈ (run cfg ⟨S, fs⟩ bs).1, S ≤ m.off ∧ ∃ u ∈ L, unitIsControl u = false ∧ m ∈ unitRecs cfg.tsFromWrapper u := by
  intro m hm
  rw [(run_window cfg L b0 hwf hiso bs ⟨S, fs⟩ hf).1] at hm
  simp only [window, List.mem_filter, decide_eq_true_eq] at hm
  refine ⟨hm.2.1, ?_⟩
  rcases List.mem_flatMap.1 hm.1 with ⟨u, hu, hr⟩
  refine ⟨u, hu, ?_⟩
  cases hc : unitIsControl u
  · simpa [hc] using hr
  · simp [hc] at hr

/-! ### progress -/

/-- **consume_progress (1)**: a faithful response with at least one complete non-empty record set strictly
    increases the next offset (also when it consists of control records only), the verdict is ok and the fetch
    size returns to `Fetch.Default` -/
theorem consume_progress (cfg : Cfg) (L : List LUnit) (b0 : Int) (st : PState) (b : Block)
    (hwf : LogWF cfg.tsFromWrapper b0 L) (hiso : IsoLog cfg L) (hf : FaithfulResp cfg L st b)
    (hp : productive b = true) :
    st.offset < (parseBlock cfg st b).2.1.offset ∧ (parseBlock cfg st b).2.2 = .ok ∧
    (parseBlock cfg st b).2.1.fetchSize = cfg.fetchDefault := by
  cases b with
  | data es pt ab =>
    have hn : nRecs es ≠ 0 := by simpa [productive] using hp
    have ⟨_, r2, r3, r4, _⟩ := resp_static cfg L b0 st es pt ab hwf hf.1 (isoOK_of_log hiso hf.1) hn
    exact ⟨r2, r3, r4⟩
  | throttled => simp [productive] at hp
  | missing => simp [productive] at hp
  | err c => simp [productive] at hp

/-- **consume_progress (2)**: error / missing / throttled-empty / empty / partial-only responses deliver nothing
    and leave the offset where it is -/
theorem unproductive_keeps_offset (cfg : Cfg) (L : List LUnit) (st : PState) (b : Block)
    (hf : FaithfulResp cfg L st b) (hp : productive b = false) :
    (parseBlock cfg st b).1 = [] ∧ (parseBlock cfg st b).2.1.offset = st.offset := by
  cases b with
  | data es pt ab =>
    have hn : nRecs es = 0 := by simpa [productive] using hp
    simp only [parseBlock, hn, ↓reduceIte]
    by_cases hpt : pt = true
    · have := hf.2 hpt hn
      simp [hpt, this]
    · simp [hpt]
  | throttled => exact ⟨rfl, rfl⟩
  | missing => exact ⟨rfl, rfl⟩
  | err c => exact ⟨rfl, rfl⟩

/-- **consume_progress (3)**: partial-only data below the limit grows the fetch size: strictly, never beyond
    a non-zero `Fetch.Max`, never beyond MaxInt32 -/
theorem partial_grows_fetch_size (cfg : Cfg) (st : PState) (es : List Entry) (ab : List (Int × Int))
    (hn : nRecs es = 0) (hfs : 0 < st.fetchSize) (hi : st.fetchSize < 2147483647)
    (hmax : cfg.fetchMax = 0 ∨ st.fetchSize < cfg.fetchMax) :
    (parseBlock cfg st (.data es true ab)).2.1.offset = st.offset ∧
    st.fetchSize < (parseBlock cfg st (.data es true ab)).2.1.fetchSize ∧
    (parseBlock cfg st (.data es true ab)).2.1.fetchSize ≤ 2147483647 ∧
    (cfg.fetchMax > 0 → (parseBlock cfg st (.data es true ab)).2.1.fetchSize ≤ cfg.fetchMax) := by
  have hne : ¬ (cfg.fetchMax > 0 ∧ st.fetchSize = cfg.fetchMax) := by omega
  simp only [parseBlock, hn, ↓reduceIte, hne, growFetch]
  generalize hD : (if Go.mul32 st.fetchSize 2 < 0 then 2147483647 else Go.mul32 st.fetchSize 2) = D
  have hDb : st.fetchSize < D ∧ D ≤ 2147483647 := by
    rw [← hD]; unfold Go.mul32 Go.wrap32; split <;> omega
  refine ⟨trivial, ?_⟩
  split <;> omega

/-- the documented skip: partial-only data when the fetch size already is a non-zero `Fetch.Max` reports
    ErrMessageTooLarge and skips exactly one offset -/
theorem too_large_skips_one (cfg : Cfg) (st : PState) (es : List Entry) (ab : List (Int × Int))
    (hn : nRecs es = 0) (hmax : cfg.fetchMax > 0) (hfs : st.fetchSize = cfg.fetchMax) :
    parseBlock cfg st (.data es true ab) = ([], ⟨st.offset + 1, st.fetchSize⟩, .tooLarge) := by
  simp [parseBlock, hn, hmax, hfs]

/-- the `Fetch.Max` guard of `FaithfulResp` follows from "Fetch.Max = 0 or every unit fits into Fetch.Max" for
    a broker that sends partial-only data only when the next unit (of encoded size `size u`) exceeds the asked
    fetch size -/
theorem fetch_max_guard (cfg : Cfg) (L : List LUnit) (st : PState) (size : LUnit → Int)
    (hfit : cfg.fetchMax = 0 ∨ ∀ u ∈ L, size u ≤ cfg.fetchMax)
    (hbroker : ∃ u ∈ L, st.fetchSize < size u) :
    ¬ (cfg.fetchMax > 0 ∧ st.fetchSize = cfg.fetchMax) := by
  rintro ⟨h1, h2⟩
  rcases hfit with h | h
  · omega
  · obtain ⟨u, hu, hs⟩ := hbroker
    have := h u hu; omega

/-- number of productive responses of a history -/
def productiveCount (bs : List Block) : Nat := (bs.filter productive).length

theorem offset_lower_bound (cfg : Cfg) (L : List LUnit) (b0 : Int) (hwf : LogWF cfg.tsFromWrapper b0 L) (hiso : IsoLog cfg L) :
    ∀ (bs : List Block) (st : PState), FaithfulHist cfg L st bs →
    st.offset + productiveCount bs ≤ (run cfg st bs).2.offset
  | [], st, _ => by simp [productiveCount, run]
  | b :: bs, st, ⟨hf, hrest⟩ => by
      have ih := offset_lower_bound cfg L b0 hwf hiso bs _ hrest
      simp only [run]
      by_cases hp : productive b = true
      · have ⟨p1, _, _⟩ := consume_progress cfg L b0 st b hwf hiso hf hp
        have : productiveCount (b :: bs) = productiveCount bs + 1 := by simp [productiveCount, hp]
        rw [this]; push_cast; omega
      · have hp' : productive b = false := by simpa using hp
        have ⟨_, p2⟩ := unproductive_keeps_offset cfg L st b hf hp'
        have : productiveCount (b :: bs) = productiveCount bs := by simp [productiveCount, hp']
        rw [this]; omega

/-- **consume_complete**: once a faithful history contains enough productive responses to pass the end of the
    log (each one advances by at least one offset), the whole of `visibleFrom S (visible L)` has been delivered –
    under the `Fetch.Max` guard carried by `FaithfulResp` -/
theorem consume_complete (cfg : Cfg) (L : List LUnit) (b0 S fs : Int) (bs : List Block)
    (hwf : LogWF cfg.tsFromWrapper b0 L) (hiso : IsoLog cfg L) (hf : FaithfulHist cfg L ⟨S, fs⟩ bs)
    (hend : ∀ r ∈ visible cfg.tsFromWrapper L, r.off < S + productiveCount bs) :
    (run cfg ⟨S, fs⟩ bs).1 = visibleFrom S (visible cfg.tsFromWrapper L) := by
  have ⟨h1, _⟩ := run_window cfg L b0 hwf hiso bs ⟨S, fs⟩ hf
  have hb := offset_lower_bound cfg L b0 hwf hiso bs ⟨S, fs⟩ hf
  rw [h1]
  unfold window visibleFrom
  apply List.filter_congr
  intro r hr
  have := hend r hr
  simp only [decide_eq_decide]
  constructor
  · exact fun h => h.1
  · intro h; exact ⟨h, by simp only at hb; omega⟩

/-! ### start offset -/

/-- **start_offset_choice**: the decision table of chooseStartingOffset -/
theorem start_offset_choice (offset newest oldest : Int) :
    (offset = -1 → chooseStart offset newest oldest = some newest) ∧
    (offset = -2 → chooseStart offset newest oldest = some oldest) ∧
    (offset ≠ -1 → offset ≠ -2 → oldest ≤ offset → offset ≤ newest → chooseStart offset newest oldest = some offset) ∧
    (offset ≠ -1 → offset ≠ -2 → (offset < oldest ∨ newest < offset) → chooseStart offset newest oldest = none) := by
  unfold chooseStart offsetNewest offsetOldest
  refine ⟨fun h => by simp [h], fun h => by simp [h], fun h1 h2 h3 h4 => ?_, fun h1 h2 h3 => ?_⟩
  · simp [h1, h2, h3, h4]
  · have : ¬ (offset ≥ oldest ∧ offset ≤ newest) := by omega
    simp [h1, h2, this]

/-! ### the timestamp rule of compressed v1 message sets (variant flag `tsFromWrapper`)

`visible true L` carries Kafka's rule (KIP-32: the wrapper's log-append attribute decides).  All theorems above
hold for both variants w.r.t. `visible cfg.tsFromWrapper L`; for the fixed variant that is Kafka's rule.  The
pinned code follows the INNER message's attribute (`tsFromWrapper = false`): Kafka's timestamps are delivered
only for logs whose wrappers agree with their inner messages. -/

/-- wrappers whose log-append attribute agrees with that of their inner messages -/
def TsConsistent (L : List LUnit) : Prop :=
  ∀ b, LUnit.blk b ∈ L → ∀ ms, b.inner = some ms → ∀ m ∈ ms, m.logAppend = b.logAppend

theorem visible_variant_eq : ∀ (L : List LUnit), TsConsistent L → visible false L = visible true L
  | [], _ => rfl
  | u :: us, h => by
      have ih := visible_variant_eq us (fun b hb => h b (List.mem_cons_of_mem _ hb))
      simp only [visible, List.flatMap_cons] at *
      rw [ih]
      congr 1
      cases u with
      | bat b => rfl
      | blk b =>
        simp only [unitIsControl, Bool.false_eq_true, ↓reduceIte, unitRecs, blockRecs]
        cases hi : b.inner with
        | none => rfl
        | some ms =>
          simp only
          apply List.map_congr_left
          intro m hm
          have := h b List.mem_cons_self ms hi m hm
          simp [innerRec, this]

/-- **consume_prefix, fixed variant**: with the wrapper rule the delivered timestamps are Kafka's -/
theorem consume_prefix_fixed (cfg : Cfg) (L : List LUnit) (b0 S fs : Int) (bs : List Block) (hv : cfg.tsFromWrapper = true)
    (hwf : LogWF true b0 L) (hiso : IsoLog cfg L) (hf : FaithfulHist cfg L ⟨S, fs⟩ bs) :
    (run cfg ⟨S, fs⟩ bs).1 = window S (run cfg ⟨S, fs⟩ bs).2.offset (visible true L) := by
  have := (consume_prefix cfg L b0 S fs bs (by rw [hv]; exact hwf) hiso hf).1
  rwa [hv] at this

/-- **consume_prefix_partial, pinned variant**: the code as it is delivers Kafka's view of the log provided the
    log's wrappers are `TsConsistent` (the extra hypothesis is exactly what is missing) -/
theorem consume_prefix_partial (cfg : Cfg) (L : List LUnit) (b0 S fs : Int) (bs : List Block) (hv : cfg.tsFromWrapper = false)
    (hts : TsConsistent L)
    (hwf : LogWF false b0 L) (hiso : IsoLog cfg L) (hf : FaithfulHist cfg L ⟨S, fs⟩ bs) :
    (run cfg ⟨S, fs⟩ bs).1 = window S (run cfg ⟨S, fs⟩ bs).2.offset (visible true L) := by
  have := (consume_prefix cfg L b0 S fs bs (by rw [hv]; exact hwf) hiso hf).1
  rwa [hv, visible_variant_eq L hts] at this

/-! ### non-vacuity: concrete logs and histories satisfying the hypotheses -/

section Examples
private def r (d : Int) : Rec := ⟨d, "k", "v", "-", d⟩
private def b0 : Batch := ⟨0, 1, [r 0, r 1], false, .unknown, false, -1, false, 1000, 1001⟩
private def bc : Batch := ⟨2, 0, [r 0], true, .commit, true, 7, false, 1000, 1000⟩
private def b3 : Batch := ⟨3, 2, [r 0, r 1], false, .unknown, false, -1, true, 2000, 2005⟩
/-- batches 0..1, a control batch at 2, a compacted batch 3..5 (record 5 removed) -/
private def exL : List LUnit := [.bat b0, .bat bc, .bat b3]
private def cfg0 : Cfg := ⟨100, 0, false, false⟩
/-- error, data starting below the start offset + partial trailing data, throttled, partial-only, the rest -/
private def hist : List Block :=
  [.err 6, .data [.batch b0] true [], .throttled, .data [] true [], .data [.batch bc, .batch b3] false []]

example : LogWF cfg0.tsFromWrapper (-1) exL := by
  simp [exL, cfg0, LogWF, Asc, unitRecs, batchRecs, unitHi, batchLast, b0, bc, b3, r]
example : IsoLog cfg0 exL := Or.inl rfl
example : FaithfulHist cfg0 exL ⟨1, 100⟩ hist := by
  refine ⟨trivial, ⟨⟨[], [.bat bc, .bat b3], rfl, ?_, ?_, ?_, ?_⟩, ?_⟩, trivial,
    ⟨⟨[.bat b0], [.bat bc, .bat b3], rfl, ?_, ?_, ?_, ?_⟩, ?_⟩, ⟨⟨[.bat b0], [], rfl, ?_, ?_, ?_, ?_⟩, ?_⟩, trivial⟩
  all_goals first | decide | simp [b0, bc, b3, r]
/-- start 1: record 0 is not delivered, the control record at 2 is passed, the history is complete -/
example : ((run cfg0 ⟨1, 100⟩ hist).1.map (fun m => (m.off, m.ts)), (run cfg0 ⟨1, 100⟩ hist).2) =
    ([(1, 1001), (3, 2005), (4, 2005)], ⟨5, 100⟩) := by decide
example : productiveCount hist = 2 := by decide

private def lm (o v : Int) (la : Bool) (ts : Int) : LMsg := ⟨o, v, la, ts, "k", "v"⟩
private def p0 : LBlock := ⟨0, 0, false, -1, "k", "v", none⟩
/-- v0 wrapper: absolute inner offsets 1, 2 -/
private def w0 : LBlock := ⟨2, 0, false, -1, "", "", some [lm 1 0 false (-1), lm 2 0 false (-1)]⟩
/-- v1 wrapper at 5, log-append: relative inner offsets 0, 1, 2 → 3, 4, 5 -/
private def w1 : LBlock := ⟨5, 1, true, 9000, "", "", some [lm 0 1 true 10, lm 1 1 true 11, lm 2 1 true 12]⟩
private def exL2 : List LUnit := [.blk p0, .blk w0, .blk w1]
private def hist2 : List Block := [.data [.legacy [w0]] false [], .missing, .data [.legacy [w1]] false []]

example : LogWF cfg0.tsFromWrapper (-1) exL2 := by
  simp [exL2, cfg0, LogWF, Asc, unitRecs, blockRecs, innerRec, lastOff, unitHi, p0, w0, w1, lm]
example : TsConsistent exL2 := by
  intro b hb ms hms m hm
  simp only [exL2, List.mem_cons, LUnit.blk.injEq, List.not_mem_nil, or_false] at hb
  rcases hb with rfl | rfl | rfl <;> simp [p0, w0, w1] at hms <;> subst hms <;> revert m <;> decide
example : FaithfulHist cfg0 exL2 ⟨2, 100⟩ hist2 := by
  refine ⟨⟨⟨[.blk p0], [.blk w1], rfl, ?_, ?_, ?_, ?_⟩, ?_⟩, trivial, ⟨⟨[.blk p0, .blk w0], [], rfl, ?_, ?_, ?_, ?_⟩, ?_⟩, trivial⟩
  all_goals first | decide | simp [p0, w0, w1, lm]
example : ((run cfg0 ⟨2, 100⟩ hist2).1.map (fun m => (m.off, m.ts)), (run cfg0 ⟨2, 100⟩ hist2).2) =
    ([(2, -1), (3, 9000), (4, 9000), (5, 9000)], ⟨6, 100⟩) := by decide

/-- counter-example for the pinned variant without `TsConsistent`: a log-append v1 wrapper (timestamp 5000) whose
    inner message is not flagged (what a broker stores): the code delivers the inner timestamp 1000 -/
private def wSkew : LBlock := ⟨0, 1, true, 5000, "", "", some [lm 0 1 false 1000]⟩
example : ((run cfg0 ⟨0, 100⟩ [.data [.legacy [wSkew]] false []]).1.map (·.ts) = [1000]) ∧
          ((visible true [.blk wSkew]).map (·.ts) = [5000]) ∧
          ((run ⟨100, 0, false, true⟩ ⟨0, 100⟩ [.data [.legacy [wSkew]] false []]).1.map (·.ts) = [5000]) := by decide

/-- the documented skip needs `Fetch.Max > 0` reached; with it one offset is lost -/
example : parseBlock ⟨100, 100, false, false⟩ ⟨7, 100⟩ (.data [] true []) = ([], ⟨8, 100⟩, .tooLarge) := by decide
example : chooseStart (-1) 10 2 = some 10 ∧ chooseStart (-2) 10 2 = some 2 ∧ chooseStart 5 10 2 = some 5 ∧
          chooseStart 11 10 2 = none ∧ chooseStart 1 10 2 = none := by decide
end Examples

end Props.C03
