import SaramaVerif.Model.Lifecycle
/-
  C12 for the consumer-side components (partition consumer, broker worker, consumer, consumer group + session,
  offset manager + POM, client, broker): theorems about EVERY event sequence accepted by the acceptors of
  Model/Lifecycle.lean - Close / AsyncClose may be interleaved anywhere, the schedule of the goroutines is arbitrary.

    never_double_close_X                 no channel is closed twice
    no_send_after_close_X                nothing is sent on a channel after its close
    outputs_closed_after_last_event_X    the public channels are closed after the last event that feeds them
    close_order_X                        the order of the hand-shake (`Precedes a reset b`: every b is preceded by an a
                                         with no reset in between)
    no_deadlock_after_close_X            every reachable non-terminal state after the close event has an enabled
                                         internal step;  close_terminates_X: a measure that every such step decreases
    holder_finds_channels_open (PC)      the ownership discipline alone keeps the holder of a child off closed channels

  The acceptors are tied to /repo by trace validation (Driver/LifecycleTrace.lean): the hook events of the real
  goroutines, in their real order, are replayed on every run of the check.
-/
namespace Props.C12life
open Model.Lifecycle

section Generic
variable {σ ε : Type} {step : σ → ε → Except String σ}

theorem run_cons {s : σ} {e : ε} {es : List ε} {s'' : σ} :
    runWith step s (e :: es) = .ok s'' ↔ ∃ s', step s e = .ok s' ∧ runWith step s' es = .ok s'' := by
  simp only [runWith]
  cases h : step s e with
  | ok s' => simp
  | error m => simp

theorem run_append {s : σ} {xs ys : List ε} {s'' : σ} :
    runWith step s (xs ++ ys) = .ok s'' ↔ ∃ s', runWith step s xs = .ok s' ∧ runWith step s' ys = .ok s'' := by
  induction xs generalizing s with
  | nil => simp [runWith]
  | cons x xs ih =>
    simp only [List.cons_append, run_cons, ih]
    constructor
    · rintro ⟨s1, h1, s2, h2, h3⟩; exact ⟨s2, ⟨s1, h1, h2⟩, h3⟩
    · rintro ⟨s2, ⟨s1, h1, h2⟩, h3⟩; exact ⟨s1, h1, s2, h2, h3⟩

/-- the acceptors are prefix-closed -/
theorem run_prefix {s : σ} {xs ys : List ε} {s'' : σ} (h : runWith step s (xs ++ ys) = .ok s'') :
    ∃ s', runWith step s xs = .ok s' := by
  obtain ⟨s', h1, _⟩ := run_append.mp h; exact ⟨s', h1⟩

/-- state invariants are preserved along accepted runs -/
theorem run_inv (P : σ → Prop) (hstep : ∀ s e s', P s → step s e = .ok s' → P s')
    {s : σ} {evs : List ε} {s' : σ} (h : runWith step s evs = .ok s') (h0 : P s) : P s' := by
  induction evs generalizing s with
  | nil => simp [runWith] at h; exact h ▸ h0
  | cons e es ih =>
    obtain ⟨s1, h1, h2⟩ := run_cons.mp h
    exact ih h2 (hstep s e s1 h0 h1)

/-- history-aware invariants -/
theorem run_hist (P : List ε → σ → Prop) (hstep : ∀ h s e s', P h s → step s e = .ok s' → P (h ++ [e]) s')
    {evs : List ε} : ∀ {h0 : List ε} {s s' : σ}, runWith step s evs = .ok s' → P h0 s → P (h0 ++ evs) s' := by
  induction evs with
  | nil => intro h0 s s' h hp; simp [runWith] at h; simpa [h] using h ▸ hp
  | cons e es ih =>
    intro h0 s s' h hp
    obtain ⟨s1, h1, h2⟩ := run_cons.mp h
    have := ih h2 (hstep h0 s e s1 hp h1)
    simpa using this

/-- `pre` contains an event satisfying `pa` after which no event satisfying `pr` occurs -/
def Since (pa pr : ε → Prop) (pre : List ε) : Prop := ∃ l a r, pre = l ++ a :: r ∧ pa a ∧ ∀ x ∈ r, ¬ pr x

/-- where a flag comes from: it was set by a `pa` event and not reset (`pr`) since -/
theorem flag_origin (f : σ → Bool) (pa pr : ε → Prop)
    (hset : ∀ s e s', step s e = .ok s' → f s' = true → (f s = true ∧ ¬ pr e) ∨ pa e)
    {evs : List ε} : ∀ {s s' : σ}, runWith step s evs = .ok s' → f s' = true →
      (f s = true ∧ ∀ x ∈ evs, ¬ pr x) ∨ Since pa pr evs := by
  induction evs with
  | nil => intro s s' h hf; simp [runWith] at h; subst h; left; exact ⟨hf, by simp⟩
  | cons e es ih =>
    intro s s' h hf
    obtain ⟨s1, h1, h2⟩ := run_cons.mp h
    rcases ih h2 hf with ⟨hf1, hno⟩ | ⟨l, a, r, he, hpa, hr⟩
    · rcases hset s e s1 h1 hf1 with ⟨hf0, hnr⟩ | hpa
      · left; refine ⟨hf0, ?_⟩
        intro x hx; rcases List.mem_cons.mp hx with rfl | hx
        · exact hnr
        · exact hno x hx
      · right; exact ⟨[], e, es, rfl, hpa, hno⟩
    · right; exact ⟨e :: l, a, r, by simp [he], hpa, hr⟩

/-- an event that requires a flag is preceded by the event that sets it (with no reset in between) -/
theorem needs (f : σ → Bool) (pa pr pb : ε → Prop) (init : σ) (hinit : f init = false)
    (hset : ∀ s e s', step s e = .ok s' → f s' = true → (f s = true ∧ ¬ pr e) ∨ pa e)
    (hreq : ∀ s e s', pb e → step s e = .ok s' → f s = true)
    {evs : List ε} {s' : σ} (h : runWith step init evs = .ok s') :
    ∀ pre b post, evs = pre ++ b :: post → pb b → Since pa pr pre := by
  intro pre b post he hb
  subst he
  obtain ⟨s1, h1, h2⟩ := run_append.mp h
  obtain ⟨s2, h3, _⟩ := run_cons.mp h2
  have hf := hreq s1 b s2 hb h3
  rcases flag_origin f pa pr hset h1 hf with ⟨hf0, _⟩ | hs
  · simp [hinit] at hf0
  · exact hs

/-- a flag that is set by the `p` events only, never reset, and must be clear for a `p` event: at most one `p` event -/
theorem count_le_one [DecidablePred p] (f : σ → Bool)
    (hset : ∀ s e s', step s e = .ok s' → (f s' = true ↔ f s = true ∨ p e))
    (hreq : ∀ s e s', p e → step s e = .ok s' → f s = false)
    {evs : List ε} : ∀ {s s' : σ}, runWith step s evs = .ok s' →
      evs.countP (fun e => decide (p e)) + (if f s then 1 else 0) ≤ 1 := by
  induction evs with
  | nil => intro s s' _; simp; split <;> omega
  | cons e es ih =>
    intro s s' h
    obtain ⟨s1, h1, h2⟩ := run_cons.mp h
    have ih' := ih h2
    have hs := hset s e s1 h1
    by_cases hp : p e
    · have hf0 := hreq s e s1 hp h1
      have hf1 : f s1 = true := hs.mpr (Or.inr hp)
      simp only [List.countP_cons, hp, decide_true, ↓reduceIte, hf0, hf1] at ih' ⊢
      simp at ih' ⊢; omega
    · simp only [List.countP_cons, hp, decide_false] at ih' ⊢
      by_cases hf0 : f s = true
      · have hf1 : f s1 = true := hs.mpr (Or.inl hf0)
        simp [hf0, hf1] at ih' ⊢; omega
      · have hf0' : f s = false := by simpa using hf0
        simp [hf0'] 
        split at ih' <;> omega

/-- once a flag is set and never reset, an event that needs it clear is not accepted any more -/
theorem none_after (f : σ → Bool) (pc pb : ε → Prop)
    (hkeep : ∀ s e s', step s e = .ok s' → f s = true → f s' = true)
    (hclose : ∀ s e s', pc e → step s e = .ok s' → f s' = true)
    (hreq : ∀ s e s', pb e → step s e = .ok s' → f s = false)
    {init : σ} {pre post : List ε} {c : ε} {s' : σ} (h : runWith step init (pre ++ c :: post) = .ok s') (hc : pc c) :
    ∀ e ∈ post, ¬ pb e := by
  obtain ⟨s1, _, h2⟩ := run_append.mp h
  obtain ⟨s2, h3, h4⟩ := run_cons.mp h2
  have hf2 := hclose s1 c s2 hc h3
  clear h h2 h3
  induction post generalizing s2 with
  | nil => simp
  | cons x xs ih =>
    obtain ⟨s3, h5, h6⟩ := run_cons.mp h4
    intro e he
    rcases List.mem_cons.mp he with rfl | he
    · intro hb; have := hreq s2 e s3 hb h5; simp [hf2] at this
    · exact ih s3 h6 (hkeep s2 x s3 h5 hf2) e he

end Generic


theorem count_eq_countP {ε : Type} [DecidableEq ε] (a : ε) (l : List ε) :
    l.count a = l.countP (fun e => decide (e = a)) := by
  induction l with
  | nil => rfl
  | cons x xs ih => simp only [List.count_cons, List.countP_cons, ih, beq_iff_eq, decide_eq_true_eq]

/-- every occurrence of an event satisfying `pb` is preceded by one satisfying `pa`, with no `pr` in between -/
def Precedes {ε : Type} (pa pr pb : ε → Prop) (evs : List ε) : Prop :=
  ∀ pre b post, evs = pre ++ b :: post → pb b → Since pa pr pre

namespace Cli
open Model.Lifecycle.Cli

local macro "acc" h:ident : tactic =>
  `(tactic| (simp only [step] at $h:ident <;> (repeat' split at $h:ident) <;> simp_all <;> (try (subst $h:ident; simp_all))))

theorem closer_set (s : St) (e : Ev) (s' : St) (h : step s e = .ok s') : (s'.closer = true ↔ s.closer = true ∨ e = .closerClose) := by
  cases e <;> acc h
theorem closed_set (s : St) (e : Ev) (s' : St) (h : step s e = .ok s') : (s'.closed = true ↔ s.closed = true ∨ e = .closedClose) := by
  cases e <;> acc h
theorem waited_set (s : St) (e : Ev) (s' : St) (h : step s e = .ok s') : (s'.waited = true ↔ s.waited = true ∨ e = .closedRecv) := by
  cases e <;> acc h
theorem nilled_set (s : St) (e : Ev) (s' : St) (h : step s e = .ok s') : (s'.nilled = true ↔ s.nilled = true ∨ e = .mapsNil) := by
  cases e <;> acc h

/-- `closer` and `closed` are closed at most once, the maps are dropped at most once (a second close of `closer` -
    e.g. a Close that does not notice the client is closed already - is not accepted) -/
theorem never_double_close_client {evs : List Ev} {s : St} (h : run {} evs = .ok s) :
    evs.count .closerClose ≤ 1 ∧ evs.count .closedClose ≤ 1 ∧ evs.count .mapsNil ≤ 1 := by
  refine ⟨?_, ?_, ?_⟩
  · have := count_le_one (p := fun e => e = Ev.closerClose) (fun s : St => s.closer) closer_set
      (by intro s e s' he h; subst he; acc h) h
    rw [count_eq_countP]; simpa using this
  · have := count_le_one (p := fun e => e = Ev.closedClose) (fun s : St => s.closed) closed_set
      (by intro s e s' he h; subst he; acc h) h
    rw [count_eq_countP]; simpa using this
  · have := count_le_one (p := fun e => e = Ev.mapsNil) (fun s : St => s.nilled) nilled_set
      (by intro s e s' he h; subst he; acc h) h
    rw [count_eq_countP]; simpa using this

/-- the documented order of Client.Close: closer closed, then the background updater's `closed` awaited (and the
    updater has closed it before), then the brokers are closed, then the maps are dropped; ErrClosedClient only
    from a client whose maps were dropped -/
theorem close_order_client {evs : List Ev} {s : St} (h : run {} evs = .ok s) :
    Precedes (· = .closerClose) (fun _ => False) (· = .closedRecv) evs ∧
    Precedes (· = .closedClose) (fun _ => False) (· = .closedRecv) evs ∧
    Precedes (· = .closedRecv) (fun _ => False) (· = .brokerClose) evs ∧
    Precedes (· = .closedRecv) (fun _ => False) (· = .mapsNil) evs ∧
    Precedes (· = .mapsNil) (fun _ => False) (· = .closeAgain) evs := by
  refine ⟨?_, ?_, ?_, ?_, ?_⟩
  · exact needs (fun s : St => s.closer) _ _ _ {} rfl
      (by intro s e s' h hf; have := (closer_set s e s' h).mp hf; simpa using this)
      (by intro s e s' he h; subst he; acc h) h
  · exact needs (fun s : St => s.closed) _ _ _ {} rfl
      (by intro s e s' h hf; have := (closed_set s e s' h).mp hf; simpa using this)
      (by intro s e s' he h; subst he; acc h) h
  · exact needs (fun s : St => s.waited) _ _ _ {} rfl
      (by intro s e s' h hf; have := (waited_set s e s' h).mp hf; simpa using this)
      (by intro s e s' he h; subst he; acc h) h
  · exact needs (fun s : St => s.waited) _ _ _ {} rfl
      (by intro s e s' h hf; have := (waited_set s e s' h).mp hf; simpa using this)
      (by intro s e s' he h; subst he; acc h) h
  · exact needs (fun s : St => s.nilled) _ _ _ {} rfl
      (by intro s e s' h hf; have := (nilled_set s e s' h).mp hf; simpa using this)
      (by intro s e s' he h; subst he; acc h) h

/-- no broker is closed through the client after its maps were dropped -/
theorem no_broker_close_after_maps_nil {pre post : List Ev} {s : St} (h : run {} (pre ++ .mapsNil :: post) = .ok s) :
    ∀ e ∈ post, e ≠ .brokerClose := by
  exact none_after (fun s : St => s.nilled) (· = .mapsNil) (· = .brokerClose)
    (by intro s e s' h hf; exact (nilled_set s e s' h).mpr (Or.inl hf))
    (by intro s e s' he h; exact (nilled_set s e s' h).mpr (Or.inr he))
    (by intro s e s' he h; subst he; acc h) h rfl

/-- closing twice is harmless: the second Close touches no channel -/
theorem close_twice_harmless_client (s s' : St) (h : step s .closeAgain = .ok s') :
    s.nilled = true ∧ s' = { s with again := s.again + 1 } := by
  acc h

/-- after Close started (closer closed) and until the maps are dropped, Close or the updater can always move -/
theorem no_deadlock_after_close_client (s : St) (hc : s.closer = true) (hn : s.nilled = false) :
    ∃ e s', internal e = true ∧ step s e = .ok s' := by
  by_cases h1 : s.closed = true
  · by_cases h2 : s.waited = true
    · exact ⟨.mapsNil, { s with nilled := true }, rfl, by simp [step, h2, hn]⟩
    · exact ⟨.closedRecv, { s with waited := true }, rfl, by simp [step, hc, h1, h2]⟩
  · exact ⟨.closedClose, { s with closed := true }, rfl, by simp [step, h1]⟩

/-- ... and every such move except closing one more broker (a loop over the finite broker maps) decreases the rank -/
theorem close_terminates_client (s : St) (e : Ev) (s' : St) (h : step s e = .ok s') (hi : internal e = true) :
    (e ≠ .brokerClose → rank s' < rank s) ∧ (e = .brokerClose → rank s' = rank s) := by
  cases e <;> simp [internal] at hi <;> simp only [step] at h <;> (repeat' split at h) <;>
    first
    | (cases h; done)
    | (injection h with h; subst h; simp_all [rank])

example : accepts step {} [.closedClose, .closerClose, .closedRecv, .brokerClose, .brokerClose, .mapsNil, .closeAgain] = true := by decide
example : accepts step {} [.closerClose, .closedClose, .closedRecv, .mapsNil, .closerClose] = false := by decide  -- closer closed twice
example : accepts step {} [.closerClose, .closedRecv] = false := by decide  -- Close went on before the updater returned

end Cli


theorem snoc_eq_append_cons {ε : Type} {h l r : List ε} {e a : ε} (he : h ++ [e] = l ++ a :: r) :
    (r = [] ∧ h = l ∧ e = a) ∨ ∃ r0, r = r0 ++ [e] ∧ h = l ++ a :: r0 := by
  rcases List.eq_nil_or_concat r with rfl | ⟨r0, x, rfl⟩
  · left
    have : h ++ [e] = l ++ [a] := by simpa using he
    have := List.append_inj' this rfl
    simp_all
  · right
    have h1 : h ++ [e] = (l ++ a :: r0) ++ [x] := by simpa using he
    have := List.append_inj' h1 rfl
    refine ⟨r0, ?_, this.1⟩
    have h2 : [e] = [x] := this.2
    simp_all

namespace Br
open Model.Lifecycle.Br

local macro "acc" h:ident : tactic =>
  `(tactic| (simp only [step] at $h:ident <;> (repeat' split at $h:ident) <;>
      first | (cases $h:ident; done) | (injection $h:ident with $h:ident; subst $h:ident; simp_all)))

/-- `responses` exists and is open -/
def respOpen (s : St) : Bool := s.conn && !s.respClosed
/-- the response receiver is draining after `responses` was closed -/
def draining (s : St) : Bool := s.respClosed && !s.doneClosed

structure BInv (s : St) : Prop where
  resp_conn : s.respClosed = true → s.conn = true
  done_resp : s.doneClosed = true → s.respClosed = true ∧ s.pending = 0

theorem init_inv : BInv {} := ⟨by simp, by simp⟩
theorem step_inv (s : St) (e : Ev) (s' : St) (hi : BInv s) (h : step s e = .ok s') : BInv s' := by
  obtain ⟨h1, h2⟩ := hi
  cases e <;> acc h <;> constructor <;> simp_all
theorem reach_inv {evs : List Ev} {s : St} (h : run {} evs = .ok s) : BInv s :=
  run_inv BInv step_inv h init_inv

/-- per connection, `responses` and `done` are closed at most once: every close is preceded by the Open of this
    connection (resp. the close of `responses`) with no other close of the same channel in between -/
theorem never_double_close_broker {evs : List Ev} {s : St} (h : run {} evs = .ok s) :
    Precedes (· = .open_) (fun e => e = .respClose ∨ e = .connClose) (· = .respClose) evs ∧
    Precedes (· = .respClose) (fun e => e = .doneClose ∨ e = .connClose) (· = .doneClose) evs := by
  constructor
  · exact needs respOpen _ _ _ {} rfl
      (by intro s e s' h hf; cases e <;> acc h <;> simp_all [respOpen])
      (by intro s e s' he h; subst he; acc h; simp_all [respOpen]) h
  · exact needs draining _ _ _ {} rfl
      (by intro s e s' h hf; cases e <;> acc h <;> simp_all [draining])
      (by intro s e s' he h; subst he; acc h; simp_all [draining]) h

/-- a promise is only sent on `responses` of the current connection while it is open -/
theorem no_send_after_close_broker {evs : List Ev} {s : St} (h : run {} evs = .ok s) :
    Precedes (· = .open_) (fun e => e = .respClose ∨ e = .connClose) (· = .send) evs := by
  exact needs respOpen _ _ _ {} rfl
      (by intro s e s' h hf; cases e <;> acc h <;> simp_all [respOpen])
      (by intro s e s' he h; subst he; acc h; simp_all [respOpen]) h

/-- Close: `responses` closed, then the receiver closes `done` (awaited), then the connection is closed -/
theorem close_order_broker {evs : List Ev} {s : St} (h : run {} evs = .ok s) :
    Precedes (· = .respClose) (fun e => e = .doneClose ∨ e = .connClose) (· = .doneClose) evs ∧
    Precedes (· = .doneClose) (fun e => e = .connClose) (· = .connClose) evs := by
  refine ⟨(never_double_close_broker h).2, ?_⟩
  exact needs (fun s : St => s.doneClosed) _ _ _ {} rfl
      (by intro s e s' h hf; cases e <;> acc h)
      (by intro s e s' he h; subst he; acc h) h

/-- the receiver drains: when `done` is closed every promise sent on this connection has been taken -/
theorem outputs_closed_after_last_event_broker {pre : List Ev} {s : St} (h : run {} (pre ++ [.doneClose]) = .ok s) :
    ∀ l r, pre = l ++ .open_ :: r → .open_ ∉ r → r.count .recv = r.count .send := by
  obtain ⟨s1, h1, h2⟩ := run_append.mp h
  obtain ⟨s2, h3, _⟩ := run_cons.mp h2
  have hp : s1.pending = 0 := by acc h3
  have key := run_hist (step := step)
    (fun hst (s : St) => ∀ l r, hst = l ++ .open_ :: r → .open_ ∉ r → s.pending + r.count .recv = r.count .send)
    (by
      intro hst s e s' ih hs l r he hno
      rcases snoc_eq_append_cons he with ⟨rfl, rfl, rfl⟩ | ⟨r0, rfl, rfl⟩
      · acc hs
      · have hne : e ≠ .open_ := by intro hc; apply hno; simp [hc]
        have hno0 : .open_ ∉ r0 := by intro hc; apply hno; simp [hc]
        cases e <;> acc hs <;> (try (have := ih l r0 rfl hno0; omega)))
    (h0 := []) h1 (by intro l r he; simp at he)
  intro l r he hno
  have := key l r (by simpa using he) hno
  omega

/-- a second Close finds the broker not connected and touches nothing -/
theorem close_twice_harmless_broker (s s' : St) (h : step s .closeNotConn = .ok s') : s.conn = false ∧ s' = s := by
  acc h

/-- once `responses` is closed, the receiver or Close can always move until the connection is closed -/
theorem no_deadlock_after_close_broker {evs : List Ev} {s : St} (h : run {} evs = .ok s) (hc : s.respClosed = true) :
    ∃ e s', internal e = true ∧ step s e = .ok s' := by
  have hi := reach_inv h
  by_cases hd : s.doneClosed = true
  · exact ⟨.connClose, _, rfl, by simp [step, hd]; rfl⟩
  · by_cases hp : s.pending = 0
    · exact ⟨.doneClose, _, rfl, by simp [step, hc, hp, hd]; rfl⟩
    · exact ⟨.recv, _, rfl, by simp [step, hp, hd]; rfl⟩

/-- ... and each such move decreases the rank (promises still to drain + steps of Close) -/
theorem close_terminates_broker {evs : List Ev} {s : St} (h : run {} evs = .ok s) (hc : s.respClosed = true)
    (e : Ev) (s' : St) (hs : step s e = .ok s') (hi : internal e = true) : rank s' < rank s := by
  have hv := reach_inv h
  have hconn := hv.resp_conn hc
  cases e <;> simp [internal] at hi <;> acc hs <;> simp_all [rank] <;> omega

example : accepts step {} [.closeNotConn, .open_, .send, .send, .recv, .respClose, .recv, .doneClose, .connClose, .closeNotConn,
    .open_, .send, .respClose, .recv, .doneClose, .connClose] = true := by decide
example : accepts step {} [.open_, .send, .respClose, .doneClose] = false := by decide   -- done closed with a promise pending
example : accepts step {} [.open_, .respClose, .connClose] = false := by decide         -- Close did not wait for the receiver
example : accepts step {} [.open_, .respClose, .respClose] = false := by decide         -- double close
example : accepts step {} [.open_, .respClose, .send] = false := by decide              -- send on closed channel

end Br


namespace POM
open Model.Lifecycle.POM

local macro "acc" h:ident : tactic =>
  `(tactic| (simp only [step] at $h:ident <;> (repeat' split at $h:ident) <;>
      first | (cases $h:ident; done) | (injection $h:ident with $h:ident; subst $h:ident; simp_all)))

theorem closed_set (s : St) (e : Ev) (s' : St) (h : step s e = .ok s') : (s'.closed = true ↔ s.closed = true ∨ e = .errClose) := by
  cases e <;> acc h

/-- the errors channel of a partition offset manager is closed at most once (releaseOnce) -/
theorem never_double_close_pom {evs : List Ev} {s : St} (h : run {} evs = .ok s) : evs.count .errClose ≤ 1 := by
  have := count_le_one (p := fun e => e = Ev.errClose) (fun s : St => s.closed) closed_set
    (by intro s e s' he h; subst he; acc h) h
  rw [count_eq_countP]; simpa using this

/-- the errors channel is closed after the last handleError: no send is accepted after the close -/
theorem outputs_closed_after_last_event_pom {pre post : List Ev} {s : St} (h : run {} (pre ++ .errClose :: post) = .ok s) :
    ∀ e ∈ post, e ≠ .errSend := by
  exact none_after (fun s : St => s.closed) (· = .errClose) (· = .errSend)
    (by intro s e s' h hf; exact (closed_set s e s' h).mpr (Or.inl hf))
    (by intro s e s' he h; exact (closed_set s e s' h).mpr (Or.inr he))
    (by intro s e s' he h; subst he; acc h) h rfl

/-- a POM is released only after it was closed by its owner (AsyncClose / asyncClosePOMs) -/
theorem close_order_pom {evs : List Ev} {s : St} (h : run {} evs = .ok s) :
    Precedes (· = .done) (fun _ => False) (· = .errClose) evs := by
  exact needs (fun s : St => s.done) _ _ _ {} rfl
    (by intro s e s' h hf; cases e <;> acc h)
    (by intro s e s' he h; subst he; acc h) h

example : accepts step {} [.new, .errSend, .done, .errSend, .done, .errClose] = true := by decide
example : accepts step {} [.new, .done, .errClose, .errSend] = false := by decide
example : accepts step {} [.new, .done, .errClose, .errClose] = false := by decide
end POM

namespace BC
open Model.Lifecycle.BC

local macro "acc" h:ident : tactic =>
  `(tactic| (simp only [step] at $h:ident <;> (repeat' split at $h:ident) <;>
      first | (cases $h:ident; done) | (injection $h:ident with $h:ident; subst $h:ident; simp_all)))

theorem input_set (s : St) (e : Ev) (s' : St) (h : step s e = .ok s') : (s'.inputClosed = true ↔ s.inputClosed = true ∨ e = .inputClose) := by
  cases e <;> acc h
theorem wait_set (s : St) (e : Ev) (s' : St) (h : step s e = .ok s') : (s'.waitClosed = true ↔ s.waitClosed = true ∨ e = .waitClose) := by
  cases e <;> acc h
theorem newsubs_set (s : St) (e : Ev) (s' : St) (h : step s e = .ok s') : (s'.newsubsClosed = true ↔ s.newsubsClosed = true ∨ e = .newsubsClose) := by
  cases e <;> acc h

/-- `input`, `wait` and `newSubscriptions` of a broker worker are closed at most once -/
theorem never_double_close_bc {evs : List Ev} {s : St} (h : run {} evs = .ok s) :
    evs.count .inputClose ≤ 1 ∧ evs.count .waitClose ≤ 1 ∧ evs.count .newsubsClose ≤ 1 := by
  refine ⟨?_, ?_, ?_⟩
  · have := count_le_one (p := fun e => e = Ev.inputClose) (fun s : St => s.inputClosed) input_set
      (by intro s e s' he h; subst he; acc h) h
    rw [count_eq_countP]; simpa using this
  · have := count_le_one (p := fun e => e = Ev.waitClose) (fun s : St => s.waitClosed) wait_set
      (by intro s e s' he h; subst he; acc h) h
    rw [count_eq_countP]; simpa using this
  · have := count_le_one (p := fun e => e = Ev.newsubsClose) (fun s : St => s.newsubsClosed) newsubs_set
      (by intro s e s' he h; subst he; acc h) h
    rw [count_eq_countP]; simpa using this

/-- no partition consumer sends itself on `input` after it was closed; no new reference is handed out either;
    nothing is sent on `newSubscriptions` after it was closed -/
theorem no_send_after_close_bc {pre post : List Ev} {s : St} :
    (run {} (pre ++ .inputClose :: post) = .ok s → ∀ e ∈ post, e ≠ .inputSend ∧ ∀ n, e ≠ .ref n) ∧
    (run {} (pre ++ .newsubsClose :: post) = .ok s → ∀ e ∈ post, ∀ n, e ≠ .flush n) := by
  constructor
  · intro h e he
    have := none_after (fun s : St => s.inputClosed) (· = .inputClose) (fun e => e = .inputSend ∨ ∃ n, e = .ref n)
      (by intro s e s' h hf; exact (input_set s e s' h).mpr (Or.inl hf))
      (by intro s e s' he h; exact (input_set s e s' h).mpr (Or.inr he))
      (by intro s e s' he h; rcases he with rfl | ⟨n, rfl⟩ <;> acc h) h rfl e he
    constructor
    · intro hc; exact this (Or.inl hc)
    · intro n hc; exact this (Or.inr ⟨n, hc⟩)
  · intro h e he n hc
    exact none_after (fun s : St => s.newsubsClosed) (· = .newsubsClose) (fun e => ∃ n, e = .flush n)
      (by intro s e s' h hf; exact (newsubs_set s e s' h).mpr (Or.inl hf))
      (by intro s e s' he h; exact (newsubs_set s e s' h).mpr (Or.inr he))
      (by intro s e s' he h; rcases he with ⟨n, rfl⟩; acc h) h rfl e he ⟨n, hc⟩

def isRef : Ev → Bool | .ref _ => true | _ => false
def isUnref : Ev → Bool | .unref _ => true | _ => false

/-- `input` is closed exactly when every reference that was handed out has been returned -/
theorem input_closed_when_unreferenced {pre : List Ev} {s : St} (h : run {} (pre ++ [.inputClose]) = .ok s) :
    pre.countP isUnref = pre.countP isRef := by
  obtain ⟨s1, h1, h2⟩ := run_append.mp h
  obtain ⟨s2, h3, _⟩ := run_cons.mp h2
  have hp : s1.refs = 0 := by acc h3
  have key := run_hist (step := step)
    (fun hst (s : St) => s.refs + hst.countP isUnref = hst.countP isRef)
    (by intro hst s e s' ih hs
        cases e <;> acc hs <;> simp_all [isRef, isUnref] <;> omega)
    (h0 := []) h1 (by simp)
  simp at key; omega

/-- the wind-down of a broker worker: input closed (last reference returned), then the subscription manager closes
    `wait`, then `newSubscriptions`; the worker goroutine returns only after that -/
theorem close_order_bc {evs : List Ev} {s : St} (h : run {} evs = .ok s) :
    Precedes (· = .inputClose) (fun _ => False) (· = .waitClose) evs ∧
    Precedes (· = .waitClose) (fun _ => False) (· = .newsubsClose) evs ∧
    Precedes (· = .newsubsClose) (fun _ => False) (fun e => ∃ a, e = .exit a) evs := by
  refine ⟨?_, ?_, ?_⟩
  · exact needs (fun s : St => s.inputClosed) _ _ _ {} rfl
      (by intro s e s' h hf; have := (input_set s e s' h).mp hf; simpa using this)
      (by intro s e s' he h; subst he; acc h) h
  · exact needs (fun s : St => s.waitClosed) _ _ _ {} rfl
      (by intro s e s' h hf; have := (wait_set s e s' h).mp hf; simpa using this)
      (by intro s e s' he h; subst he; acc h) h
  · exact needs (fun s : St => s.newsubsClosed) _ _ _ {} rfl
      (by intro s e s' h hf; have := (newsubs_set s e s' h).mp hf; simpa using this)
      (by intro s e s' he h; rcases he with ⟨a, rfl⟩; acc h) h

/-- once `input` is closed the worker's goroutines can always move until the worker has returned -/
theorem no_deadlock_after_close_bc (s : St) (hc : s.inputClosed = true) (hx : s.exited = false) :
    ∃ e s', internal e = true ∧ step s e = .ok s' := by
  by_cases h1 : s.waitClosed = true
  · by_cases h2 : s.newsubsClosed = true
    · exact ⟨.exit s.aborted, _, rfl, by simp [step, hx, h2]; rfl⟩
    · exact ⟨.newsubsClose, _, rfl, by simp [step, h1, h2]; rfl⟩
  · exact ⟨.waitClose, _, rfl, by simp [step, hc, h1]; rfl⟩

/-- ... and each of their moves decreases the rank -/
theorem close_terminates_bc (s : St) (e : Ev) (s' : St) (h : step s e = .ok s') (hi : internal e = true) : rank s' < rank s := by
  cases e <;> simp [internal] at hi <;> acc h <;> simp_all [rank] <;> omega

example : accepts step {} [.new, .ref 0, .inputSend, .subAdd, .ref 1, .inputSend, .unref 2, .subAdd, .unref 1, .inputClose,
    .waitClose, .newsubsClose, .exit false] = true := by decide
example : accepts step {} [.new, .ref 0, .inputSend, .subAdd, .abort, .unref 1, .inputClose, .waitClose, .flush 1, .newsubsClose, .exit true] = true := by decide
example : accepts step {} [.new, .ref 0, .unref 1, .inputClose, .inputSend] = false := by decide   -- send on closed input
example : accepts step {} [.new, .ref 0, .ref 1, .unref 2, .inputClose] = false := by decide        -- closed while referenced
end BC

namespace Cons
open Model.Lifecycle.Cons

local macro "acc" h:ident : tactic =>
  `(tactic| (simp only [step] at $h:ident <;> (repeat' split at $h:ident) <;>
      first | (cases $h:ident; done) | (injection $h:ident with $h:ident; subst $h:ident; simp_all)))

/-- the documented order: when Consumer.Close is accepted every partition consumer that was registered has been
    removed again (its dispatcher has finished) -/
theorem close_order_consumer {pre : List Ev} {s : St} (h : run {} (pre ++ [.close]) = .ok s) :
    ∀ c, pre.count (.childAdd c) = pre.count (.childRemove c) := by
  obtain ⟨s1, h1, h2⟩ := run_append.mp h
  obtain ⟨s2, h3, _⟩ := run_cons.mp h2
  have hp : s1.live = [] := by acc h3
  have key := run_hist (step := step)
    (fun hst (s : St) => s.live.Nodup ∧ ∀ c, hst.count (.childAdd c) = hst.count (.childRemove c) + (if c ∈ s.live then 1 else 0))
    (by intro hst s e s' ⟨hnd, ih⟩ hs
        cases e with
        | childAdd c0 =>
          simp only [step] at hs
          split at hs; · cases hs
          split at hs; · cases hs
          rename_i _ hnotin
          injection hs with hs; subst hs
          refine ⟨List.nodup_cons.mpr ⟨hnotin, hnd⟩, ?_⟩
          intro c
          have := ih c
          simp only [List.count_append, List.count_cons, List.count_nil, List.mem_cons]
          by_cases hc : c = c0
          · subst hc; simp [hnotin] at this ⊢; omega
          · have hc' : ¬ c0 = c := fun h => hc h.symm
            simp [hc, hc'] at this ⊢; omega
        | childRemove c0 =>
          simp only [step] at hs
          split at hs; · cases hs
          rename_i hin
          have hin : c0 ∈ s.live := by simpa using hin
          injection hs with hs; subst hs
          refine ⟨hnd.erase _, ?_⟩
          intro c
          have := ih c
          simp only [List.count_append, List.count_cons, List.count_nil]
          by_cases hc : c = c0
          · subst hc
            have hne : c ∉ s.live.erase c := fun hm => ((List.Nodup.mem_erase_iff hnd).mp hm).1 rfl
            simp [hin, hne] at this ⊢; omega
          · have hc' : ¬ c0 = c := fun h => hc h.symm
            have hiff : c ∈ s.live.erase c0 ↔ c ∈ s.live := List.mem_erase_of_ne hc
            simp [hc', hiff] at this ⊢; omega
        | close =>
          simp only [step] at hs
          split at hs; · cases hs
          injection hs with hs; subst hs
          refine ⟨hnd, ?_⟩
          intro c; have := ih c
          simp only [List.count_append, List.count_cons, List.count_nil]
          simp at this ⊢; omega)
    (h0 := []) h1 (by simp)
  intro c
  have := key.2 c
  simp [hp] at this
  exact this

example : accepts step {} [.childAdd 1, .childAdd 2, .childRemove 1, .childRemove 2, .close, .close] = true := by decide
example : accepts step {} [.childAdd 1, .close] = false := by decide
end Cons


namespace OM
open Model.Lifecycle.OM

local macro "acc" h:ident : tactic =>
  `(tactic| (simp only [step] at $h:ident <;> (repeat' split at $h:ident) <;>
      first | (cases $h:ident; done) | (injection $h:ident with $h:ident; subst $h:ident; simp_all)))

theorem closing_set (s : St) (e : Ev) (s' : St) (h : step s e = .ok s') : (s'.closing = true ↔ s.closing = true ∨ e = .closingClose) := by
  cases e <;> acc h
theorem loop_set (s : St) (e : Ev) (s' : St) (h : step s e = .ok s') : (s'.loopExited = true ↔ s.loopExited = true ∨ e = .closedClose) := by
  cases e <;> acc h
theorem recv_set (s : St) (e : Ev) (s' : St) (h : step s e = .ok s') : (s'.recv = true ↔ s.recv = true ∨ e = .closedRecv) := by
  cases e <;> acc h
theorem async_set (s : St) (e : Ev) (s' : St) (h : step s e = .ok s') : (s'.asyncClosed = true ↔ s.asyncClosed = true ∨ e = .asyncClose) := by
  cases e <;> acc h
theorem final_set (s : St) (e : Ev) (s' : St) (h : step s e = .ok s') : (s'.inFinal = true ↔ s.inFinal = true ∨ ∃ m, e = .finalBegin m) := by
  cases e <;> acc h
theorem forced_set (s : St) (e : Ev) (s' : St) (h : step s e = .ok s') : (s'.forced = true ↔ s.forced = true ∨ e = .releaseForce) := by
  cases e <;> acc h

/-- `closing` is closed at most once (closeOnce), `closed` at most once (mainLoop returns once) -/
theorem never_double_close_om {evs : List Ev} {s : St} (h : run {} evs = .ok s) :
    evs.count .closingClose ≤ 1 ∧ evs.count .closedClose ≤ 1 := by
  constructor
  · have := count_le_one (p := fun e => e = Ev.closingClose) (fun s : St => s.closing) closing_set
      (by intro s e s' he h; subst he; acc h) h
    rw [count_eq_countP]; simpa using this
  · have := count_le_one (p := fun e => e = Ev.closedClose) (fun s : St => s.loopExited) loop_set
      (by intro s e s' he h; subst he; acc h) h
    rw [count_eq_countP]; simpa using this

/-- OffsetManager.Close: closing closed → mainLoop returns and is awaited → POMs marked closed → final flush loop
    (only after both) → forced release → done -/
theorem close_order_om {evs : List Ev} {s : St} (h : run {} evs = .ok s) :
    Precedes (· = .closingClose) (fun _ => False) (· = .closedClose) evs ∧
    Precedes (· = .closedClose) (fun _ => False) (· = .closedRecv) evs ∧
    Precedes (· = .closingClose) (fun _ => False) (· = .asyncClose) evs ∧
    Precedes (· = .asyncClose) (fun _ => False) (fun e => ∃ m, e = .finalBegin m) evs ∧
    Precedes (· = .closedRecv) (fun _ => False) (fun e => ∃ m, e = .finalBegin m) evs ∧
    Precedes (fun e => ∃ m, e = .finalBegin m) (fun _ => False) (fun e => ∃ k, e = .finalFlush k) evs ∧
    Precedes (· = .asyncClose) (fun _ => False) (· = .releaseForce) evs ∧
    Precedes (· = .releaseForce) (fun _ => False) (· = .closeDone) evs := by
  refine ⟨?_, ?_, ?_, ?_, ?_, ?_, ?_, ?_⟩
  · exact needs (fun s : St => s.closing) _ _ _ {} rfl
      (by intro s e s' h hf; have := (closing_set s e s' h).mp hf; simpa using this)
      (by intro s e s' he h; subst he; acc h) h
  · exact needs (fun s : St => s.loopExited) _ _ _ {} rfl
      (by intro s e s' h hf; have := (loop_set s e s' h).mp hf; simpa using this)
      (by intro s e s' he h; subst he; acc h) h
  · exact needs (fun s : St => s.closing) _ _ _ {} rfl
      (by intro s e s' h hf; have := (closing_set s e s' h).mp hf; simpa using this)
      (by intro s e s' he h; subst he; acc h) h
  · exact needs (fun s : St => s.asyncClosed) _ _ _ {} rfl
      (by intro s e s' h hf; have := (async_set s e s' h).mp hf; simpa using this)
      (by intro s e s' he h; rcases he with ⟨m, rfl⟩; acc h) h
  · exact needs (fun s : St => s.recv) _ _ _ {} rfl
      (by intro s e s' h hf; have := (recv_set s e s' h).mp hf; simpa using this)
      (by intro s e s' he h; rcases he with ⟨m, rfl⟩; acc h) h
  · exact needs (fun s : St => s.inFinal) _ _ _ {} rfl
      (by intro s e s' h hf; have := (final_set s e s' h).mp hf; simpa using this)
      (by intro s e s' he h; rcases he with ⟨m, rfl⟩; acc h) h
  · exact needs (fun s : St => s.asyncClosed) _ _ _ {} rfl
      (by intro s e s' h hf; have := (async_set s e s' h).mp hf; simpa using this)
      (by intro s e s' he h; subst he; acc h) h
  · exact needs (fun s : St => s.forced) _ _ _ {} rfl
      (by intro s e s' h hf; have := (forced_set s e s' h).mp hf; simpa using this)
      (by intro s e s' he h; subst he; acc h) h

def isFlush : Ev → Bool | .finalFlush _ => true | _ => false

/-- the final flush loop is bounded: at most Retry.Max + 1 flushes, whatever the coordinator answers -/
theorem final_loop_bounded {evs : List Ev} {s : St} (h : run {} evs = .ok s) :
    evs.countP isFlush = s.attempts ∧ s.attempts ≤ s.max + 1 := by
  have key := run_hist (step := step)
    (fun hst (s : St) => hst.countP isFlush = s.attempts ∧ s.attempts ≤ s.max + 1 ∧ (s.inFinal = false → s.attempts = 0))
    (by intro hst s e s' ⟨h1, h2, h3⟩ hs
        cases e <;> acc hs <;> simp_all [isFlush] <;> omega)
    (h0 := []) h (by simp)
  simp at key; exact ⟨key.1, key.2.1⟩

def isNew : Ev → Bool | .pomNew => true | _ => false
def isRelease : Ev → Bool | .pomRelease => true | _ => false

/-- Close is done only when every registered POM has been released (its errors channel closed) -/
theorem outputs_closed_after_last_event_om {pre : List Ev} {s : St} (h : run {} (pre ++ [.closeDone]) = .ok s) :
    pre.countP isRelease = pre.countP isNew := by
  obtain ⟨s1, h1, h2⟩ := run_append.mp h
  obtain ⟨s2, h3, _⟩ := run_cons.mp h2
  have hp : s1.live = 0 := by acc h3
  have key := run_hist (step := step)
    (fun hst (s : St) => s.live + hst.countP isRelease = hst.countP isNew)
    (by intro hst s e s' ih hs
        cases e <;> acc hs <;> simp_all [isNew, isRelease] <;> omega)
    (h0 := []) h1 (by simp)
  simp at key; omega

/-- after `closing` was closed, Close (or a POM release inside it) can always move until it is done -/
theorem no_deadlock_after_close_om {evs : List Ev} {s : St} (h : run {} evs = .ok s) (hc : s.closing = true) (hd : s.done = false) :
    ∃ e s', internal e = true ∧ step s e = .ok s' := by
  have hb := (final_loop_bounded h).2
  by_cases h1 : s.asyncClosed = true
  · by_cases h2 : s.forced = true
    · by_cases h3 : s.live = 0
      · exact ⟨.closeDone, _, rfl, by simp [step, h2, h3, hd]; rfl⟩
      · exact ⟨.pomRelease, _, rfl, by simp [step, h3]; rfl⟩
    · by_cases h3 : s.inFinal = true ∧ s.clean = false ∧ s.attempts ≠ s.max + 1
      · obtain ⟨h4, h5, h6⟩ := h3
        have h2' : s.forced = false := by simpa using h2
        have : ¬ s.max < s.attempts := by omega
        exact ⟨.finalFlush s.attempts, _, rfl, by simp [step, h4, h5, h2', this]; rfl⟩
      · have h2' : s.forced = false := by simpa using h2
        refine ⟨.releaseForce, { s with forced := true }, rfl, ?_⟩
        simp only [step, h1, h2']
        simp only [not_true_eq_false, ↓reduceIte, Bool.false_eq_true]
        split
        · rename_i hx; exfalso; apply h3; simpa using hx
        · rfl
  · exact ⟨.asyncClose, _, rfl, by simp [step, hc, h1]; rfl⟩

/-- termination measure of Close: every internal move decreases (phase, Retry.Max + 1 - attempts + live POMs)
    lexicographically -/
theorem close_terminates_om (s : St) (e : Ev) (s' : St) (h : step s e = .ok s') (hi : internal e = true) :
    Prod.Lex (· < ·) (· < ·) (phase s', inner s') (phase s, inner s) := by
  have key : phase s' < phase s ∨ (phase s' = phase s ∧ inner s' < inner s) := by
    cases e <;> simp [internal] at hi <;> acc h <;> simp_all [phase, inner] <;> omega
  rcases key with h1 | ⟨h1, h2⟩
  · exact Prod.Lex.left _ _ h1
  · rw [h1]; exact Prod.Lex.right _ h2

theorem close_order_wf : WellFounded (Prod.Lex (· < ·) (· < ·) : Nat × Nat → Nat × Nat → Prop) :=
  (Prod.lex Nat.lt_wfRel Nat.lt_wfRel).wf

example : accepts step {} [.pomNew, .pomNew, .closingClose, .closedClose, .closedRecv, .asyncClose, .finalBegin 2, .finalFlush 0,
    .pomRelease, .finalFlush 1, .finalFlush 2, .releaseForce, .pomRelease, .closeDone] = true := by decide
example : accepts step {} [.pomNew, .closingClose, .asyncClose, .releaseForce, .pomRelease, .closeDone] = true := by decide  -- auto-commit off
example : accepts step {} [.closingClose, .closedClose, .closedRecv, .asyncClose, .finalBegin 1, .finalFlush 0, .finalFlush 1, .finalFlush 2] = false := by decide
example : accepts step {} [.closingClose, .asyncClose, .finalBegin 1] = false := by decide  -- mainLoop not awaited
end OM



namespace Grp
open Model.Lifecycle.Grp

local macro "acc" h:ident : tactic =>
  `(tactic| (simp only [step] at $h:ident <;> (repeat' split at $h:ident) <;>
      first | (cases $h:ident; done) | (injection $h:ident with $h:ident; subst $h:ident; simp_all)))

theorem closed_set (s : St) (e : Ev) (s' : St) (h : step s e = .ok s') : (s'.closed = true ↔ s.closed = true ∨ e = .closedClose) := by
  cases e <;> acc h
theorem left_set (s : St) (e : Ev) (s' : St) (h : step s e = .ok s') : (s'.left = true ↔ s.left = true ∨ e = .leaveUnlock) := by
  cases e <;> acc h
theorem errs_set (s : St) (e : Ev) (s' : St) (h : step s e = .ok s') : (s'.errsClosed = true ↔ s.errsClosed = true ∨ e = .errorsClose) := by
  cases e <;> acc h
theorem client_set (s : St) (e : Ev) (s' : St) (h : step s e = .ok s') : (s'.clientClosed = true ↔ s.clientClosed = true ∨ e = .clientClose) := by
  cases e <;> acc h

def isSessStart : Ev → Prop | .sessStart _ => True | _ => False

/-- the group's `closed` and `errors` channels are closed at most once (closeOnce); per session `hbDying` and
    `hbDead` are closed at most once: each close is preceded by the start of its session with no other close of
    the same channel in between -/
theorem never_double_close_group {evs : List Ev} {s : St} (h : run {} evs = .ok s) :
    evs.count .closedClose ≤ 1 ∧ evs.count .errorsClose ≤ 1 ∧
    Precedes isSessStart (fun e => (∃ n, e = .hbDyingClose n) ∨ e = .consumeLock ∨ e = .consumeUnlock) (fun e => ∃ n, e = .hbDyingClose n) evs ∧
    Precedes isSessStart (fun e => (∃ n, e = .hbDeadClose n) ∨ e = .consumeLock ∨ e = .consumeUnlock) (fun e => ∃ n, e = .hbDeadClose n) evs := by
  refine ⟨?_, ?_, ?_, ?_⟩
  · have := count_le_one (p := fun e => e = Ev.closedClose) (fun s : St => s.closed) closed_set
      (by intro s e s' he h; subst he; acc h) h
    rw [count_eq_countP]; simpa using this
  · have := count_le_one (p := fun e => e = Ev.errorsClose) (fun s : St => s.errsClosed) errs_set
      (by intro s e s' he h; subst he; acc h) h
    rw [count_eq_countP]; simpa using this
  · exact needs (fun s : St => s.sess.isSome && !s.hbDying) _ _ _ {} rfl
      (by intro s e s' h hf; cases e <;> acc h <;> simp_all [isSessStart])
      (by intro s e s' he h; rcases he with ⟨n, rfl⟩; acc h) h
  · exact needs (fun s : St => s.sess.isSome && !s.hbDead) _ _ _ {} rfl
      (by intro s e s' h hf; cases e <;> acc h <;> simp_all [isSessStart])
      (by intro s e s' he h; rcases he with ⟨n, rfl⟩; acc h) h

/-- nothing is sent on the group's errors channel after it was closed -/
theorem no_send_after_close_group {pre post : List Ev} {s : St} (h : run {} (pre ++ .errorsClose :: post) = .ok s) :
    ∀ e ∈ post, e ≠ .errorsSend := by
  exact none_after (fun s : St => s.errsClosed) (· = .errorsClose) (· = .errorsSend)
    (by intro s e s' h hf; exact (errs_set s e s' h).mpr (Or.inl hf))
    (by intro s e s' he h; exact (errs_set s e s' h).mpr (Or.inr he))
    (by intro s e s' he h; subst he; acc h) h rfl

structure GInv (s : St) : Prop where
  lock_sess : s.lock ≠ .consume → s.sess = none
  claims_le : s.claimsDone ≤ s.claims

theorem init_inv : GInv {} := ⟨by simp, by simp⟩
theorem step_inv (s : St) (e : Ev) (s' : St) (hi : GInv s) (h : step s e = .ok s') : GInv s' := by
  obtain ⟨h1, h2⟩ := hi
  cases e <;> acc h <;> constructor <;> simp_all <;> omega
theorem reach_inv {evs : List Ev} {s : St} (h : run {} evs = .ok s) : GInv s :=
  run_inv GInv step_inv h init_inv

/-- the group's Errors channel is closed only after leave(), leave() takes the lock only when no session is running:
    every session that was started before has been released completely (release returned); and no session is
    started after leave() -/
theorem outputs_closed_after_last_event_group {evs : List Ev} {s : St} (h : run {} evs = .ok s) :
    Precedes (· = .leaveUnlock) (fun _ => False) (· = .errorsClose) evs ∧
    (∀ pre post, evs = pre ++ .leaveLock :: post → ∀ l n r, pre = l ++ .sessStart n :: r → .releaseDone n ∈ r) ∧
    (∀ pre post, evs = pre ++ .leaveUnlock :: post → ∀ e ∈ post, ∀ n, e ≠ .sessStart n) := by
  refine ⟨?_, ?_, ?_⟩
  · exact needs (fun s : St => s.left) _ _ _ {} rfl
      (by intro s e s' h hf; have := (left_set s e s' h).mp hf; simpa using this)
      (by intro s e s' he h; subst he; acc h) h
  · intro pre post he l n r hp
    subst he
    obtain ⟨s1, h1, h2⟩ := run_append.mp h
    obtain ⟨s2, h3, _⟩ := run_cons.mp h2
    have hfree : s1.lock = .free := by acc h3
    have hinv := reach_inv h1
    have hnone : s1.sess = none := hinv.lock_sess (by simp [hfree])
    have key := run_hist (step := step)
      (fun hst (s : St) => GInv s ∧ ∀ l n r, hst = l ++ .sessStart n :: r → .releaseDone n ∈ r ∨ (s.sess = some n ∧ s.released = false))
      (by
        intro hst s e s' ⟨hi, ih⟩ hs
        refine ⟨step_inv s e s' hi hs, ?_⟩
        intro l n r he
        rcases snoc_eq_append_cons he with ⟨rfl, rfl, rfl⟩ | ⟨r0, rfl, rfl⟩
        · right; acc hs
        · rcases ih l n r0 rfl with hm | ⟨hs1, hs2⟩
          · left; simp [hm]
          · have hl := hi.lock_sess
            cases e <;> acc hs <;> simp_all)
      (h0 := []) h1 ⟨init_inv, by intro l n r he; simp at he⟩
    rcases key.2 l n r (by simpa using hp) with hm | ⟨hs1, _⟩
    · exact hm
    · simp [hnone] at hs1
  · intro pre post he e hmem n hc
    subst he
    exact none_after (fun s : St => s.left) (· = .leaveUnlock) (fun e => ∃ n, e = .sessStart n)
      (by intro s e s' h hf; exact (left_set s e s' h).mpr (Or.inl hf))
      (by intro s e s' he h; exact (left_set s e s' h).mpr (Or.inr he))
      (by intro s e s' he h; rcases he with ⟨n, rfl⟩; acc h) h rfl e hmem ⟨n, hc⟩

/-- ConsumerGroup.Close: closed closed → leave under the lock → errors closed → client closed → done -/
theorem close_order_group {evs : List Ev} {s : St} (h : run {} evs = .ok s) :
    Precedes (· = .closedClose) (fun _ => False) (· = .leaveLock) evs ∧
    Precedes (· = .leaveLock) (fun e => e = .leaveUnlock) (· = .leaveUnlock) evs ∧
    Precedes (· = .leaveUnlock) (fun _ => False) (· = .errorsClose) evs ∧
    Precedes (· = .errorsClose) (fun _ => False) (· = .clientClose) evs ∧
    Precedes (· = .clientClose) (fun _ => False) (· = .closeDone) evs := by
  refine ⟨?_, ?_, ?_, ?_, ?_⟩
  · exact needs (fun s : St => s.closed) _ _ _ {} rfl
      (by intro s e s' h hf; have := (closed_set s e s' h).mp hf; simpa using this)
      (by intro s e s' he h; subst he; acc h) h
  · exact needs (fun s : St => decide (s.lock = .leave)) _ _ _ {} rfl
      (by intro s e s' h hf; cases e <;> acc h)
      (by intro s e s' he h; subst he; acc h) h
  · exact (outputs_closed_after_last_event_group h).1
  · exact needs (fun s : St => s.errsClosed) _ _ _ {} rfl
      (by intro s e s' h hf; have := (errs_set s e s' h).mp hf; simpa using this)
      (by intro s e s' he h; subst he; acc h) h
  · exact needs (fun s : St => s.clientClosed) _ _ _ {} rfl
      (by intro s e s' h hf; have := (client_set s e s' h).mp hf; simpa using this)
      (by intro s e s' he h; subst he; acc h) h

/-- release of a session: cancel → claim goroutines joined → Cleanup (before the offset manager is closed) →
    offsets.Close → hbDying closed → hbDead awaited (the heartbeat loop has closed it) → release returns; all within
    the same session -/
theorem close_order_session {evs : List Ev} {s : St} (h : run {} evs = .ok s) :
    Precedes (fun e => ∃ n, e = .release n) isSessStart (fun e => ∃ n, e = .claimsJoined n) evs ∧
    Precedes (fun e => ∃ n, e = .claimsJoined n) (fun e => isSessStart e ∨ ∃ n, e = .offsetsClose n) (fun e => ∃ n, e = .cleanup n) evs ∧
    Precedes (fun e => ∃ n, e = .claimsJoined n) isSessStart (fun e => ∃ n, e = .offsetsClose n) evs ∧
    Precedes (fun e => ∃ n, e = .offsetsClose n) isSessStart (fun e => ∃ n, e = .hbDyingClose n) evs ∧
    Precedes (fun e => ∃ n, e = .hbDyingClose n) isSessStart (fun e => ∃ n, e = .hbDeadRecv n) evs ∧
    Precedes (fun e => ∃ n, e = .hbDeadClose n) isSessStart (fun e => ∃ n, e = .hbDeadRecv n) evs ∧
    Precedes (fun e => ∃ n, e = .hbDeadRecv n) isSessStart (fun e => ∃ n, e = .releaseDone n) evs := by
  refine ⟨?_, ?_, ?_, ?_, ?_, ?_, ?_⟩
  · exact needs (fun s : St => s.releasing) _ _ _ {} rfl
      (by intro s e s' h hf; cases e <;> acc h <;> simp_all [isSessStart])
      (by intro s e s' he h; rcases he with ⟨n, rfl⟩; acc h) h
  · exact needs (fun s : St => s.joined && !s.omClosed) _ _ _ {} rfl
      (by intro s e s' h hf; cases e <;> acc h <;> simp_all [isSessStart])
      (by intro s e s' he h; rcases he with ⟨n, rfl⟩; acc h) h
  · exact needs (fun s : St => s.joined) _ _ _ {} rfl
      (by intro s e s' h hf; cases e <;> acc h <;> simp_all [isSessStart])
      (by intro s e s' he h; rcases he with ⟨n, rfl⟩; acc h) h
  · exact needs (fun s : St => s.omClosed) _ _ _ {} rfl
      (by intro s e s' h hf; cases e <;> acc h <;> simp_all [isSessStart])
      (by intro s e s' he h; rcases he with ⟨n, rfl⟩; acc h) h
  · exact needs (fun s : St => s.hbDying) _ _ _ {} rfl
      (by intro s e s' h hf; cases e <;> acc h <;> simp_all [isSessStart])
      (by intro s e s' he h; rcases he with ⟨n, rfl⟩; acc h) h
  · exact needs (fun s : St => s.hbDead) _ _ _ {} rfl
      (by intro s e s' h hf; cases e <;> acc h <;> simp_all [isSessStart])
      (by intro s e s' he h; rcases he with ⟨n, rfl⟩; acc h) h
  · exact needs (fun s : St => s.hbRecv) _ _ _ {} rfl
      (by intro s e s' h hf; cases e <;> acc h <;> simp_all [isSessStart])
      (by intro s e s' he h; rcases he with ⟨n, rfl⟩; acc h) h

def isClaimAdd : Ev → Bool | .claimAdd _ => true | _ => false
def isClaimDone : Ev → Bool | .claimDone _ => true | _ => false

/-- blocked claims: when waitGroup.Wait() returns in release, every ConsumeClaim goroutine of the session has returned -/
theorem claims_joined_after_all_claims_done {pre : List Ev} {n : Nat} {s : St} (h : run {} (pre ++ [.claimsJoined n]) = .ok s) :
    ∀ l r, pre = l ++ .sessStart n :: r → (∀ m, .sessStart m ∉ r) → r.countP isClaimDone = r.countP isClaimAdd := by
  obtain ⟨s1, h1, h2⟩ := run_append.mp h
  obtain ⟨s2, h3, _⟩ := run_cons.mp h2
  have hp : s1.claimsDone = s1.claims := by acc h3
  have key := run_hist (step := step)
    (fun hst (s : St) => ∀ l n r, hst = l ++ .sessStart n :: r → (∀ m, .sessStart m ∉ r) →
        s.claimsDone = r.countP isClaimDone ∧ s.claims = r.countP isClaimAdd)
    (by
      intro hst s e s' ih hs l n r he hno
      rcases snoc_eq_append_cons he with ⟨rfl, rfl, rfl⟩ | ⟨r0, rfl, rfl⟩
      · acc hs
      · have hno0 : ∀ m, .sessStart m ∉ r0 := by intro m hc; exact hno m (by simp [hc])
        have hne : ∀ m, e ≠ .sessStart m := by intro m hc; exact hno m (by simp [hc])
        have := ih l n r0 rfl hno0
        cases e <;> acc hs <;> simp_all [isClaimAdd, isClaimDone])
    (h0 := []) h1 (by intro l n r he; simp at he)
  intro l r he hno
  have := key l n r (by simpa using he) hno
  omega

/-- after Close started (closed closed) some goroutine of the group can always move until Close is done -/
theorem no_deadlock_after_close_group {evs : List Ev} {s : St} (h : run {} evs = .ok s) (hc : s.closed = true) (hd : s.done = false) :
    ∃ e s', internal e = true ∧ step s e = .ok s' := by
  have hi := reach_inv h
  cases hl : s.lock with
  | leave => exact ⟨.leaveUnlock, _, rfl, by simp [step, hl]; rfl⟩
  | free =>
    by_cases h1 : s.left = true
    · by_cases h2 : s.errsClosed = true
      · by_cases h3 : s.clientClosed = true
        · exact ⟨.closeDone, _, rfl, by simp [step, h3, hd]; rfl⟩
        · exact ⟨.clientClose, _, rfl, by simp [step, h2, h3]; rfl⟩
      · exact ⟨.errorsClose, _, rfl, by simp [step, h1, h2]; rfl⟩
    · exact ⟨.leaveLock, _, rfl, by simp [step, hc, hl, h1]; rfl⟩
  | consume =>
    cases hs : s.sess with
    | none => exact ⟨.consumeUnlock, _, rfl, by simp [step, hl, hs]; rfl⟩
    | some n =>
      by_cases h1 : s.released = true
      · exact ⟨.consumeUnlock, _, rfl, by simp [step, hl, hs, h1]; rfl⟩
      by_cases h2 : s.hbRecv = true
      · exact ⟨.releaseDone n, _, rfl, by simp [step, hs, h2]; rfl⟩
      by_cases h3 : s.hbDying = true
      · by_cases h4 : s.hbDead = true
        · exact ⟨.hbDeadRecv n, _, rfl, by simp [step, hs, h3, h4]; rfl⟩
        · exact ⟨.hbDeadClose n, _, rfl, by simp [step, hs, h4]; rfl⟩
      by_cases h4 : s.omClosed = true
      · exact ⟨.hbDyingClose n, _, rfl, by simp [step, hs, h3, h4]; rfl⟩
      by_cases h5 : s.joined = true
      · exact ⟨.offsetsClose n, _, rfl, by simp [step, hs, h4, h5]; rfl⟩
      by_cases h6 : s.releasing = true
      · by_cases h7 : s.claimsDone = s.claims
        · exact ⟨.claimsJoined n, _, rfl, by simp [step, hs, h6, h7]; rfl⟩
        · have := hi.claims_le
          have h8 : ¬ s.claims ≤ s.claimsDone := by omega
          exact ⟨.claimDone n, _, rfl, by simp [step, hs, h8]; rfl⟩
      · exact ⟨.release n, _, rfl, by simp [step, hs]; rfl⟩

example : accepts step {} [.consumeLock, .sessStart 1, .claimAdd 1, .claimAdd 1, .errorsSend, .closedClose, .claimDone 1, .release 1,
    .claimDone 1, .claimsJoined 1, .cleanup 1, .offsetsClose 1, .hbDyingClose 1, .hbDeadClose 1, .hbDeadRecv 1, .releaseDone 1,
    .consumeUnlock, .leaveLock, .leaveUnlock, .errorsClose, .clientClose, .closeDone] = true := by decide
example : accepts step {} [.consumeLock, .sessStart 1, .release 1, .claimsJoined 1, .offsetsClose 1, .hbDyingClose 1, .hbDeadRecv 1] = false := by decide  -- release did not wait for the heartbeat loop
example : accepts step {} [.consumeLock, .sessStart 1, .closedClose, .leaveLock] = false := by decide    -- leave while a session holds the lock
example : accepts step {} [.closedClose, .leaveLock, .leaveUnlock, .errorsClose, .errorsSend] = false := by decide
example : accepts step {} [.closedClose, .closedClose] = false := by decide
end Grp


/-- `none_after` with a state invariant available to the guard argument -/
theorem none_after_inv {σ ε : Type} {step : σ → ε → Except String σ} (I : σ → Prop) (f : σ → Bool) (pc pb : ε → Prop)
    (hI : ∀ s e s', I s → step s e = .ok s' → I s')
    (hkeep : ∀ s e s', step s e = .ok s' → f s = true → f s' = true)
    (hclose : ∀ s e s', pc e → step s e = .ok s' → f s' = true)
    (hreq : ∀ s e s', I s → pb e → step s e = .ok s' → f s = false)
    {init : σ} (h0 : I init) {pre post : List ε} {c : ε} {s' : σ} (h : runWith step init (pre ++ c :: post) = .ok s') (hc : pc c) :
    ∀ e ∈ post, ¬ pb e := by
  obtain ⟨s1, h1, h2⟩ := run_append.mp h
  obtain ⟨s2, h3, h4⟩ := run_cons.mp h2
  have hi2 : I s2 := hI s1 c s2 (run_inv I hI h1 h0) h3
  have hf2 := hclose s1 c s2 hc h3
  clear h h2 h3 h1
  induction post generalizing s2 with
  | nil => simp
  | cons x xs ih =>
    obtain ⟨s3, h5, h6⟩ := run_cons.mp h4
    intro e he
    rcases List.mem_cons.mp he with rfl | he
    · intro hb; have := hreq s2 e s3 hi2 hb h5; simp [hf2] at this
    · exact ih s3 h6 (hI s2 x s3 hi2 h5) (hkeep s2 x s3 h5 hf2) e he

namespace PC
open Model.Lifecycle.PC

local macro "acc" h:ident : tactic =>
  `(tactic| (simp only [step] at $h:ident <;> (repeat' split at $h:ident) <;>
      first | (cases $h:ident; done) | (injection $h:ident with $h:ident; subst $h:ident; simp_all)))

/-- the ownership discipline of the hand-shake (who holds the child decides who may touch its channels) -/
structure PInv (s : St) : Prop where
  nobody_   : s.owner = .nobody → s.ref = none ∧ s.trigClosed = false
  bc_       : ∀ b, s.owner = .bc b → s.trigClosed = false ∧ s.ref.isSome = true
  feeder_   : s.owner = .feeder → s.trigClosed = false ∧ s.slow = true ∧ s.ref.isSome = true
  busy_     : s.busy = true → s.owner = .disp ∧ s.token = false
  token_    : s.token = true → s.owner = .disp ∧ s.trigClosed = false
  disp_     : s.owner = .disp → s.trigClosed = false → s.busy = true ∨ s.token = true
  slow_     : s.slow = true → s.owner = .feeder
  trig_     : s.trigClosed = true → s.owner = .disp
  exiting_  : s.exiting = true → s.trigClosed = true ∧ s.ref = none
  removed_  : s.removed = true → s.exiting = true ∧ s.ref = none
  fclosed_  : s.feederClosed = true → s.removed = true
  fexited_  : s.feederExited = true → s.feederClosed = true ∧ s.inflight = false ∧ s.feeding = false
  mclosed_  : s.msgsClosed = true → s.feederExited = true
  eclosed_  : s.errsClosed = true → s.msgsClosed = true
  dying_    : s.dying = true → s.started = true
  started_  : s.started = false → s.owner = .nobody

theorem init_inv : PInv {} := by constructor <;> simp

theorem step_inv (s : St) (e : Ev) (s' : St) (hi : PInv s) (h : step s e = .ok s') : PInv s' := by
  obtain ⟨i1, i2, i3, i4, i5, i6, i7, i8, i9, i10, i11, i12, i13, i14, i15, i16⟩ := hi
  cases e with
  | inputSend w b => cases w <;> acc h <;> constructor <;> simp_all
  | _ => acc h <;> constructor <;> simp_all

theorem reach_inv {evs : List Ev} {s : St} (h : run {} evs = .ok s) : PInv s :=
  run_inv PInv step_inv h init_inv

theorem dying_set (s : St) (e : Ev) (s' : St) (h : step s e = .ok s') : (s'.dying = true ↔ s.dying = true ∨ e = .dyingClose) := by
  cases e with
  | inputSend w b => cases w <;> acc h
  | _ => acc h
def isTrigClose : Ev → Prop | .trigCloseDisp => True | .trigCloseBc _ _ => True | _ => False
def isTrigSend : Ev → Prop | .trigSendDisp => True | .trigSendBc _ => True | _ => False
instance : DecidablePred isTrigClose := fun e => by cases e <;> simp [isTrigClose] <;> infer_instance
theorem trig_set (s : St) (e : Ev) (s' : St) (h : step s e = .ok s') : (s'.trigClosed = true ↔ s.trigClosed = true ∨ isTrigClose e) := by
  cases e with
  | inputSend w b => cases w <;> acc h <;> simp [isTrigClose]
  | _ => acc h <;> simp_all [isTrigClose]
theorem removed_set (s : St) (e : Ev) (s' : St) (h : step s e = .ok s') : (s'.removed = true ↔ s.removed = true ∨ e = .remove) := by
  cases e with
  | inputSend w b => cases w <;> acc h
  | _ => acc h
theorem fclosed_set (s : St) (e : Ev) (s' : St) (h : step s e = .ok s') : (s'.feederClosed = true ↔ s.feederClosed = true ∨ e = .feederClose) := by
  cases e with
  | inputSend w b => cases w <;> acc h
  | _ => acc h
theorem fexited_set (s : St) (e : Ev) (s' : St) (h : step s e = .ok s') : (s'.feederExited = true ↔ s.feederExited = true ∨ e = .feederExit) := by
  cases e with
  | inputSend w b => cases w <;> acc h
  | _ => acc h
theorem mclosed_set (s : St) (e : Ev) (s' : St) (h : step s e = .ok s') : (s'.msgsClosed = true ↔ s.msgsClosed = true ∨ e = .msgsClose) := by
  cases e with
  | inputSend w b => cases w <;> acc h
  | _ => acc h
theorem eclosed_set (s : St) (e : Ev) (s' : St) (h : step s e = .ok s') : (s'.errsClosed = true ↔ s.errsClosed = true ∨ e = .errsClose) := by
  cases e with
  | inputSend w b => cases w <;> acc h
  | _ => acc h

/-- every channel of a partition consumer is closed at most once: dying (closeOnce), trigger (by whoever holds the
    child: its dispatcher or the broker worker), feeder, messages, errors -/
theorem never_double_close_pc {evs : List Ev} {s : St} (h : run {} evs = .ok s) :
    evs.count .dyingClose ≤ 1 ∧ evs.countP (fun e => decide (isTrigClose e)) ≤ 1 ∧ evs.count .feederClose ≤ 1 ∧
    evs.count .msgsClose ≤ 1 ∧ evs.count .errsClose ≤ 1 := by
  refine ⟨?_, ?_, ?_, ?_, ?_⟩
  · have := count_le_one (p := fun e => e = Ev.dyingClose) (fun s : St => s.dying) dying_set
      (by intro s e s' he h; subst he; acc h) h
    rw [count_eq_countP]; simpa using this
  · have := count_le_one (p := isTrigClose) (fun s : St => s.trigClosed) trig_set
      (by intro s e s' he h; cases e <;> simp [isTrigClose] at he <;> acc h) h
    simpa using this
  · have := count_le_one (p := fun e => e = Ev.feederClose) (fun s : St => s.feederClosed) fclosed_set
      (by intro s e s' he h; subst he; acc h) h
    rw [count_eq_countP]; simpa using this
  · have := count_le_one (p := fun e => e = Ev.msgsClose) (fun s : St => s.msgsClosed) mclosed_set
      (by intro s e s' he h; subst he; acc h) h
    rw [count_eq_countP]; simpa using this
  · have := count_le_one (p := fun e => e = Ev.errsClose) (fun s : St => s.errsClosed) eclosed_set
      (by intro s e s' he h; subst he; acc h) h
    rw [count_eq_countP]; simpa using this

/-- no send on a closed channel: nothing on trigger after it was closed (by either side), no response into feeder
    after the dispatcher closed it, no message after Messages() was closed, no error after Errors() was closed -/
theorem no_send_after_close_pc {pre post : List Ev} {c : Ev} {s : St} (h : run {} (pre ++ c :: post) = .ok s) :
    (isTrigClose c → ∀ e ∈ post, ¬ isTrigSend e) ∧
    (c = .feederClose → ∀ e ∈ post, ∀ b, e ≠ .feederSend b) ∧
    (c = .msgsClose → ∀ e ∈ post, e ≠ .msgSend) ∧
    (c = .errsClose → ∀ e ∈ post, e ≠ .errSend) := by
  refine ⟨?_, ?_, ?_, ?_⟩
  · intro hc
    exact none_after (fun s : St => s.trigClosed) isTrigClose isTrigSend
      (by intro s e s' h hf; exact (trig_set s e s' h).mpr (Or.inl hf))
      (by intro s e s' he h; exact (trig_set s e s' h).mpr (Or.inr he))
      (by intro s e s' he h; cases e <;> simp [isTrigSend] at he <;> acc h) h hc
  · intro hc e he b hb
    exact none_after (fun s : St => s.feederClosed) (· = .feederClose) (fun e => ∃ b, e = .feederSend b)
      (by intro s e s' h hf; exact (fclosed_set s e s' h).mpr (Or.inl hf))
      (by intro s e s' he h; exact (fclosed_set s e s' h).mpr (Or.inr he))
      (by intro s e s' he h; rcases he with ⟨b, rfl⟩; acc h) h hc e he ⟨b, hb⟩
  · intro hc
    exact none_after (fun s : St => s.msgsClosed) (· = .msgsClose) (· = .msgSend)
      (by intro s e s' h hf; exact (mclosed_set s e s' h).mpr (Or.inl hf))
      (by intro s e s' he h; exact (mclosed_set s e s' h).mpr (Or.inr he))
      (by intro s e s' he h; subst he; acc h) h hc
  · intro hc
    exact none_after (fun s : St => s.errsClosed) (· = .errsClose) (· = .errSend)
      (by intro s e s' h hf; exact (eclosed_set s e s' h).mpr (Or.inl hf))
      (by intro s e s' he h; exact (eclosed_set s e s' h).mpr (Or.inr he))
      (by intro s e s' he h; subst he; acc h) h hc

/-- the ownership discipline makes the closed-channel guards redundant: whoever holds the child finds the channels
    it may touch open.  (A broker worker that holds it: trigger, feeder, errors open and trigger empty; the
    dispatcher handling a token before it closed trigger: trigger empty, errors open; the feeder with a response in
    hand or on the slow path: messages open.) -/
theorem holder_finds_channels_open {evs : List Ev} {s : St} (h : run {} evs = .ok s) :
    (∀ b, s.owner = .bc b → s.trigClosed = false ∧ s.token = false ∧ s.feederClosed = false ∧ s.errsClosed = false) ∧
    (s.busy = true → s.trigClosed = false → s.token = false ∧ s.errsClosed = false) ∧
    (s.slow = true → s.msgsClosed = false ∧ s.trigClosed = false) := by
  have hi := reach_inv h
  refine ⟨?_, ?_, ?_⟩
  · intro b hb
    have h1 := (hi.bc_ b hb).1
    have h2 : s.token = false := by
      cases ht : s.token with
      | false => rfl
      | true => have := (hi.token_ ht).1; simp [hb] at this
    have h3 : s.feederClosed = false := by
      cases hf : s.feederClosed with
      | false => rfl
      | true =>
        have := (hi.exiting_ (hi.removed_ (hi.fclosed_ hf)).1).1
        simp [h1] at this
    have h4 : s.errsClosed = false := by
      cases he : s.errsClosed with
      | false => rfl
      | true =>
        have := (hi.fexited_ (hi.mclosed_ (hi.eclosed_ he))).1
        simp [h3] at this
    exact ⟨h1, h2, h3, h4⟩
  · intro hb ht
    refine ⟨(hi.busy_ hb).2, ?_⟩
    cases he : s.errsClosed with
    | false => rfl
    | true =>
      have := (hi.exiting_ (hi.removed_ (hi.fclosed_ (hi.fexited_ (hi.mclosed_ (hi.eclosed_ he))).1)).1).1
      simp [ht] at this
  · intro hs
    have ho := hi.slow_ hs
    have ht := (hi.feeder_ ho).1
    refine ⟨?_, ht⟩
    cases hm : s.msgsClosed with
    | false => rfl
    | true =>
      have := (hi.exiting_ (hi.removed_ (hi.fclosed_ (hi.fexited_ (hi.mclosed_ hm)).1)).1).1
      simp [ht] at this

/-- Messages()/Errors() are closed after the feeder's last delivery: the feeder leaves its loop only when the
    dispatcher closed the feeder channel and no response is in flight or in hand, and after that nothing is taken
    from the feeder channel, acknowledged or delivered any more -/
theorem outputs_closed_after_last_event_pc {evs : List Ev} {s : St} (h : run {} evs = .ok s) :
    Precedes (· = .feederExit) (fun _ => False) (· = .msgsClose) evs ∧
    Precedes (· = .msgsClose) (fun _ => False) (· = .errsClose) evs ∧
    (∀ pre post, evs = pre ++ .feederExit :: post → ∀ e ∈ post, e ≠ .msgSend ∧ e ≠ .feederRecv ∧ (∀ w, e ≠ .ack w) ∧ ∀ b, e ≠ .feederSend b) := by
  refine ⟨?_, ?_, ?_⟩
  · exact needs (fun s : St => s.feederExited) _ _ _ {} rfl
      (by intro s e s' h hf; have := (fexited_set s e s' h).mp hf; simpa using this)
      (by intro s e s' he h; subst he; acc h) h
  · exact needs (fun s : St => s.msgsClosed) _ _ _ {} rfl
      (by intro s e s' h hf; have := (mclosed_set s e s' h).mp hf; simpa using this)
      (by intro s e s' he h; subst he; acc h) h
  · intro pre post he e hmem
    subst he
    have key := none_after_inv PInv (fun s : St => s.feederExited) (· = .feederExit)
      (fun e => e = .msgSend ∨ e = .feederRecv ∨ (∃ w, e = .ack w) ∨ ∃ b, e = .feederSend b)
      step_inv
      (by intro s e s' h hf; exact (fexited_set s e s' h).mpr (Or.inl hf))
      (by intro s e s' he h; exact (fexited_set s e s' h).mpr (Or.inr he))
      (by
        intro s e s' hi he h
        cases hx : s.feederExited with
        | false => rfl
        | true =>
          exfalso
          obtain ⟨h1, h2, h3⟩ := hi.fexited_ hx
          have h4 : s.slow = false := by
            cases hs : s.slow with
            | false => rfl
            | true =>
              have := (hi.feeder_ (hi.slow_ hs)).1
              have := (hi.exiting_ (hi.removed_ (hi.fclosed_ h1)).1).1
              simp_all
          rcases he with rfl | rfl | ⟨w, rfl⟩ | ⟨b, rfl⟩ <;> acc h)
      init_inv h rfl e hmem
    refine ⟨fun hc => key (Or.inl hc), fun hc => key (Or.inr (Or.inl hc)), fun w hc => key (Or.inr (Or.inr (Or.inl ⟨w, hc⟩))),
      fun b hc => key (Or.inr (Or.inr (Or.inr ⟨b, hc⟩)))⟩

/-- the documented order of the tear-down: dying closed (AsyncClose) → trigger closed (by the dispatcher or the broker
    worker, whoever holds the child; only an out-of-range shutdown closes it without dying) → child removed from the
    consumer → feeder channel closed → feeder leaves its loop → Messages() closed → Errors() closed -/
theorem close_order_pc {evs : List Ev} {s : St} (h : run {} evs = .ok s) :
    Precedes (· = .dyingClose) (fun _ => False) (fun e => e = .trigCloseDisp ∨ ∃ b, e = .trigCloseBc b false) evs ∧
    Precedes isTrigClose (fun _ => False) (· = .remove) evs ∧
    Precedes (· = .remove) (fun _ => False) (· = .feederClose) evs ∧
    Precedes (· = .feederClose) (fun _ => False) (· = .feederExit) evs ∧
    Precedes (· = .feederExit) (fun _ => False) (· = .msgsClose) evs ∧
    Precedes (· = .msgsClose) (fun _ => False) (· = .errsClose) evs := by
  refine ⟨?_, ?_, ?_, ?_, (outputs_closed_after_last_event_pc h).1, (outputs_closed_after_last_event_pc h).2.1⟩
  · exact needs (fun s : St => s.dying) _ _ _ {} rfl
      (by intro s e s' h hf; have := (dying_set s e s' h).mp hf; simpa using this)
      (by intro s e s' he h; rcases he with rfl | ⟨b, rfl⟩ <;> acc h) h
  · exact needs (fun s : St => s.trigClosed) _ _ _ {} rfl
      (by intro s e s' h hf; have := (trig_set s e s' h).mp hf; simpa using this)
      (by intro s e s' he h; subst he; acc h) h
  · exact needs (fun s : St => s.removed) _ _ _ {} rfl
      (by intro s e s' h hf; have := (removed_set s e s' h).mp hf; simpa using this)
      (by intro s e s' he h; subst he; acc h) h
  · exact needs (fun s : St => s.feederClosed) _ _ _ {} rfl
      (by intro s e s' h hf; have := (fclosed_set s e s' h).mp hf; simpa using this)
      (by intro s e s' he h; subst he; acc h) h

/-- no deadlock after AsyncClose: in every reachable state in which dying is closed and Errors() is still open, one of
    the partition consumer's goroutines (dispatcher, feeder) or the broker worker holding it has an enabled step -/
theorem no_deadlock_after_close_pc {evs : List Ev} {s : St} (h : run {} evs = .ok s) (hd : s.dying = true) (he : s.errsClosed = false) :
    ∃ e s', internal e = true ∧ step s e = .ok s' := by
  have hi := reach_inv h
  have hst := hi.dying_ hd
  cases ho : s.owner with
  | nobody => exact ⟨.inputSend .new 0, _, rfl, by simp [step, hst, ho]; rfl⟩
  | bc b =>
    have ht := (hi.bc_ b ho).1
    exact ⟨.trigCloseBc b false, _, rfl, by simp [step, ho, hd, ht]; rfl⟩
  | feeder =>
    obtain ⟨_, _, hr⟩ := hi.feeder_ ho
    obtain ⟨b, hb⟩ := Option.isSome_iff_exists.mp hr
    exact ⟨.inputSend .feeder b, _, rfl, by simp [step, ho, hb]; rfl⟩
  | disp =>
    cases ht : s.trigClosed with
    | false =>
      cases hb : s.busy with
      | true => exact ⟨.trigCloseDisp, _, rfl, by simp [step, hb, ho, hd, ht]; rfl⟩
      | false =>
        have htok : s.token = true := by
          rcases hi.disp_ ho ht with h1 | h1
          · simp [hb] at h1
          · exact h1
        have hex : s.exiting = false := by
          cases hx : s.exiting with
          | false => rfl
          | true => have := (hi.exiting_ hx).1; simp [ht] at this
        exact ⟨.dispToken, _, rfl, by simp [step, htok, hb, hex, ho]; rfl⟩
    | true =>
      cases hrm : s.removed with
      | false =>
        cases hr : s.ref with
        | none => exact ⟨.remove, _, rfl, by simp [step, ht, ho, hrm, hr]; rfl⟩
        | some b =>
          cases hx : s.exiting with
          | false => exact ⟨.unrefExit b, _, rfl, by simp [step, ht, ho, hx, hr]; rfl⟩
          | true =>
            exfalso
            have := (hi.exiting_ hx).2
            simp [hr] at this
      | true =>
        cases hfc : s.feederClosed with
        | false => exact ⟨.feederClose, _, rfl, by simp [step, hrm, hfc]; rfl⟩
        | true =>
          cases hfe : s.feederExited with
          | false =>
            cases hin : s.inflight with
            | true => exact ⟨.feederRecv, _, rfl, by simp [step, hin]; rfl⟩
            | false =>
              cases hfd : s.feeding with
              | true => exact ⟨.ack 0, _, rfl, by simp [step, hfd]; rfl⟩
              | false =>
                have hsl : s.slow = false := by
                  cases hs : s.slow with
                  | false => rfl
                  | true => have := hi.slow_ hs; simp [ho] at this
                exact ⟨.feederExit, _, rfl, by simp [step, hfc, hin, hfd, hsl, hfe]; rfl⟩
          | true =>
            cases hm : s.msgsClosed with
            | false => exact ⟨.msgsClose, _, rfl, by simp [step, hfe, hm]; rfl⟩
            | true => exact ⟨.errsClose, _, rfl, by simp [step, hm, he]; rfl⟩

example : accepts step {} [.start, .inputSend .new 7, .feederSend 7, .feederRecv, .msgSend, .msgSend, .ack 0, .dyingClose,
    .feederSend 7, .feederRecv, .msgSend, .ack 1, .trigCloseBc 7 false, .unrefExit 7, .remove, .feederClose, .feederExit,
    .msgsClose, .errsClose] = true := by decide
-- slow reader, broker worker aborts, redispatch fails once, then closed at the dispatcher
example : accepts step {} [.start, .inputSend .new 7, .feederSend 7, .feederRecv, .ack 2, .msgSend, .inputSend .feeder 7, .errSend,
    .trigSendBc 7, .dispToken, .unrefRedispatch 7, .errSend, .trigSendDisp, .dyingClose, .dispToken, .trigCloseDisp, .remove,
    .feederClose, .feederExit, .msgsClose, .errsClose] = true := by decide
example : accepts step {} [.start, .inputSend .new 7, .dyingClose, .dyingClose] = false := by decide   -- AsyncClose without closeOnce
example : accepts step {} [.start, .inputSend .new 7, .dyingClose, .trigCloseBc 7 false, .unrefExit 7, .remove, .feederClose,
    .msgsClose] = false := by decide   -- messages closed before the feeder left its loop
example : accepts step {} [.start, .inputSend .new 7, .dyingClose, .trigCloseBc 7 false, .trigSendBc 7] = false := by decide
example : accepts step {} [.start, .inputSend .new 7, .feederSend 7, .dyingClose, .trigCloseBc 7 false, .unrefExit 7, .remove,
    .feederClose, .feederExit] = false := by decide   -- feeder left with a response still in the channel

end PC

end Props.C12life
