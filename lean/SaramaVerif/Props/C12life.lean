import SaramaVerif.Model.Lifecycle
namespace Props.C12life
open Model.Lifecycle

section Generic
variable {σ ε : Type} {step : σ → ε → Except String σ}

theorem run_cons {s : σ} {e : ε} {es : List ε} {s'' : σ} :
    runWith step s (e :: es) = .ok s'' ↔ ∃ s', step s e = .ok s' ∧ runWith step s' es = .ok s'' := by
  simp only [runWith]
  cases h : step s e with
  | ok s' => simp
  | error m => simp

theorem run_append {s : σ} {xs ys : List ε} {s'' : σ} :
    runWith step s (xs ++ ys) = .ok s'' ↔ ∃ s', runWith step s xs = .ok s' ∧ runWith step s' ys = .ok s'' := by
  induction xs generalizing s with
  | nil => simp [runWith]
  | cons x xs ih =>
    simp only [List.cons_append, run_cons, ih]
    constructor
    · rintro ⟨s1, h1, s2, h2, h3⟩; exact ⟨s2, ⟨s1, h1, h2⟩, h3⟩
    · rintro ⟨s2, ⟨s1, h1, h2⟩, h3⟩; exact ⟨s1, h1, s2, h2, h3⟩

/-- the acceptors are prefix-closed -/
theorem run_prefix {s : σ} {xs ys : List ε} {s'' : σ} (h : runWith step s (xs ++ ys) = .ok s'') :
    ∃ s', runWith step s xs = .ok s' := by
  obtain ⟨s', h1, _⟩ := run_append.mp h; exact ⟨s', h1⟩

/-- state invariants are preserved along accepted runs -/
theorem run_inv (P : σ → Prop) (hstep : ∀ s e s', P s → step s e = .ok s' → P s')
    {s : σ} {evs : List ε} {s' : σ} (h : runWith step s evs = .ok s') (h0 : P s) : P s' := by
  induction evs generalizing s with
  | nil => simp [runWith] at h; exact h ▸ h0
  | cons e es ih =>
    obtain ⟨s1, h1, h2⟩ := run_cons.mp h
    exact ih h2 (hstep s e s1 h0 h1)

/-- history-aware invariants -/
theorem run_hist (P : List ε → σ → Prop) (hstep : ∀ h s e s', P h s → step s e = .ok s' → P (h ++ [e]) s')
    {evs : List ε} : ∀ {h0 : List ε} {s s' : σ}, runWith step s evs = .ok s' → P h0 s → P (h0 ++ evs) s' := by
  induction evs with
  | nil => intro h0 s s' h hp; simp [runWith] at h; simpa [h] using h ▸ hp
  | cons e es ih =>
    intro h0 s s' h hp
    obtain ⟨s1, h1, h2⟩ := run_cons.mp h
    have := ih h2 (hstep h0 s e s1 hp h1)
    simpa using this

/-- `pre` contains an event satisfying `pa` after which no event satisfying `pr` occurs -/
def Since (pa pr : ε → Prop) (pre : List ε) : Prop := ∃ l a r, pre = l ++ a :: r ∧ pa a ∧ ∀ x ∈ r, ¬ pr x

/-- where a flag comes from: it was set by a `pa` event and not reset (`pr`) since -/
theorem flag_origin (f : σ → Bool) (pa pr : ε → Prop)
    (hset : ∀ s e s', step s e = .ok s' → f s' = true → (f s = true ∧ ¬ pr e) ∨ pa e)
    {evs : List ε} : ∀ {s s' : σ}, runWith step s evs = .ok s' → f s' = true →
      (f s = true ∧ ∀ x ∈ evs, ¬ pr x) ∨ Since pa pr evs := by
  induction evs with
  | nil => intro s s' h hf; simp [runWith] at h; subst h; left; exact ⟨hf, by simp⟩
  | cons e es ih =>
    intro s s' h hf
    obtain ⟨s1, h1, h2⟩ := run_cons.mp h
    rcases ih h2 hf with ⟨hf1, hno⟩ | ⟨l, a, r, he, hpa, hr⟩
    · rcases hset s e s1 h1 hf1 with ⟨hf0, hnr⟩ | hpa
      · left; refine ⟨hf0, ?_⟩
        intro x hx; rcases List.mem_cons.mp hx with rfl | hx
        · exact hnr
        · exact hno x hx
      · right; exact ⟨[], e, es, rfl, hpa, hno⟩
    · right; exact ⟨e :: l, a, r, by simp [he], hpa, hr⟩

/-- an event that requires a flag is preceded by the event that sets it (with no reset in between) -/
theorem needs (f : σ → Bool) (pa pr pb : ε → Prop) (init : σ) (hinit : f init = false)
    (hset : ∀ s e s', step s e = .ok s' → f s' = true → (f s = true ∧ ¬ pr e) ∨ pa e)
    (hreq : ∀ s e s', pb e → step s e = .ok s' → f s = true)
    {evs : List ε} {s' : σ} (h : runWith step init evs = .ok s') :
    ∀ pre b post, evs = pre ++ b :: post → pb b → Since pa pr pre := by
  intro pre b post he hb
  subst he
  obtain ⟨s1, h1, h2⟩ := run_append.mp h
  obtain ⟨s2, h3, _⟩ := run_cons.mp h2
  have hf := hreq s1 b s2 hb h3
  rcases flag_origin f pa pr hset h1 hf with ⟨hf0, _⟩ | hs
  · simp [hinit] at hf0
  · exact hs

/-- a flag that is set by the `p` events only, never reset, and must be clear for a `p` event: at most one `p` event -/
theorem count_le_one [DecidablePred p] (f : σ → Bool)
    (hset : ∀ s e s', step s e = .ok s' → (f s' = true ↔ f s = true ∨ p e))
    (hreq : ∀ s e s', p e → step s e = .ok s' → f s = false)
    {evs : List ε} : ∀ {s s' : σ}, runWith step s evs = .ok s' →
      evs.countP (fun e => decide (p e)) + (if f s then 1 else 0) ≤ 1 := by
  induction evs with
  | nil => intro s s' _; simp; split <;> omega
  | cons e es ih =>
    intro s s' h
    obtain ⟨s1, h1, h2⟩ := run_cons.mp h
    have ih' := ih h2
    have hs := hset s e s1 h1
    by_cases hp : p e
    · have hf0 := hreq s e s1 hp h1
      have hf1 : f s1 = true := hs.mpr (Or.inr hp)
      simp only [List.countP_cons, hp, decide_true, ↓reduceIte, hf0, hf1] at ih' ⊢
      simp at ih' ⊢; omega
    · simp only [List.countP_cons, hp, decide_false] at ih' ⊢
      by_cases hf0 : f s = true
      · have hf1 : f s1 = true := hs.mpr (Or.inl hf0)
        simp [hf0, hf1] at ih' ⊢; omega
      · have hf0' : f s = false := by simpa using hf0
        simp [hf0'] 
        split at ih' <;> omega

/-- once a flag is set and never reset, an event that needs it clear is not accepted any more -/
theorem none_after (f : σ → Bool) (pc pb : ε → Prop)
    (hkeep : ∀ s e s', step s e = .ok s' → f s = true → f s' = true)
    (hclose : ∀ s e s', pc e → step s e = .ok s' → f s' = true)
    (hreq : ∀ s e s', pb e → step s e = .ok s' → f s = false)
    {init : σ} {pre post : List ε} {c : ε} {s' : σ} (h : runWith step init (pre ++ c :: post) = .ok s') (hc : pc c) :
    ∀ e ∈ post, ¬ pb e := by
  obtain ⟨s1, _, h2⟩ := run_append.mp h
  obtain ⟨s2, h3, h4⟩ := run_cons.mp h2
  have hf2 := hclose s1 c s2 hc h3
  clear h h2 h3
  induction post generalizing s2 with
  | nil => simp
  | cons x xs ih =>
    obtain ⟨s3, h5, h6⟩ := run_cons.mp h4
    intro e he
    rcases List.mem_cons.mp he with rfl | he
    · intro hb; have := hreq s2 e s3 hb h5; simp [hf2] at this
    · exact ih s3 h6 (hkeep s2 x s3 h5 hf2) e he

end Generic


theorem count_eq_countP {ε : Type} [DecidableEq ε] (a : ε) (l : List ε) :
    l.count a = l.countP (fun e => decide (e = a)) := by
  induction l with
  | nil => rfl
  | cons x xs ih => simp only [List.count_cons, List.countP_cons, ih, beq_iff_eq, decide_eq_true_eq]

/-- every occurrence of an event satisfying `pb` is preceded by one satisfying `pa`, with no `pr` in between -/
def Precedes {ε : Type} (pa pr pb : ε → Prop) (evs : List ε) : Prop :=
  ∀ pre b post, evs = pre ++ b :: post → pb b → Since pa pr pre

namespace Cli
open Model.Lifecycle.Cli

local macro "acc" h:ident : tactic =>
  `(tactic| (simp only [step] at $h:ident <;> (repeat' split at $h:ident) <;> simp_all <;> (try (subst $h:ident; simp_all))))

theorem closer_set (s : St) (e : Ev) (s' : St) (h : step s e = .ok s') : (s'.closer = true ↔ s.closer = true ∨ e = .closerClose) := by
  cases e <;> acc h
theorem closed_set (s : St) (e : Ev) (s' : St) (h : step s e = .ok s') : (s'.closed = true ↔ s.closed = true ∨ e = .closedClose) := by
  cases e <;> acc h
theorem waited_set (s : St) (e : Ev) (s' : St) (h : step s e = .ok s') : (s'.waited = true ↔ s.waited = true ∨ e = .closedRecv) := by
  cases e <;> acc h
theorem nilled_set (s : St) (e : Ev) (s' : St) (h : step s e = .ok s') : (s'.nilled = true ↔ s.nilled = true ∨ e = .mapsNil) := by
  cases e <;> acc h

/-- `closer` and `closed` are closed at most once, the maps are dropped at most once (a second close of `closer` -
    e.g. a Close that does not notice the client is closed already - is not accepted) -/
theorem never_double_close_client {evs : List Ev} {s : St} (h : run {} evs = .ok s) :
    evs.count .closerClose ≤ 1 ∧ evs.count .closedClose ≤ 1 ∧ evs.count .mapsNil ≤ 1 := by
  refine ⟨?_, ?_, ?_⟩
  · have := count_le_one (p := fun e => e = Ev.closerClose) (fun s : St => s.closer) closer_set
      (by intro s e s' he h; subst he; acc h) h
    rw [count_eq_countP]; simpa using this
  · have := count_le_one (p := fun e => e = Ev.closedClose) (fun s : St => s.closed) closed_set
      (by intro s e s' he h; subst he; acc h) h
    rw [count_eq_countP]; simpa using this
  · have := count_le_one (p := fun e => e = Ev.mapsNil) (fun s : St => s.nilled) nilled_set
      (by intro s e s' he h; subst he; acc h) h
    rw [count_eq_countP]; simpa using this

/-- the documented order of Client.Close: closer closed, then the background updater's `closed` awaited (and the
    updater has closed it before), then the brokers are closed, then the maps are dropped; ErrClosedClient only
    from a client whose maps were dropped -/
theorem close_order_client {evs : List Ev} {s : St} (h : run {} evs = .ok s) :
    Precedes (· = .closerClose) (fun _ => False) (· = .closedRecv) evs ∧
    Precedes (· = .closedClose) (fun _ => False) (· = .closedRecv) evs ∧
    Precedes (· = .closedRecv) (fun _ => False) (· = .brokerClose) evs ∧
    Precedes (· = .closedRecv) (fun _ => False) (· = .mapsNil) evs ∧
    Precedes (· = .mapsNil) (fun _ => False) (· = .closeAgain) evs := by
  refine ⟨?_, ?_, ?_, ?_, ?_⟩
  · exact needs (fun s : St => s.closer) _ _ _ {} rfl
      (by intro s e s' h hf; have := (closer_set s e s' h).mp hf; simpa using this)
      (by intro s e s' he h; subst he; acc h) h
  · exact needs (fun s : St => s.closed) _ _ _ {} rfl
      (by intro s e s' h hf; have := (closed_set s e s' h).mp hf; simpa using this)
      (by intro s e s' he h; subst he; acc h) h
  · exact needs (fun s : St => s.waited) _ _ _ {} rfl
      (by intro s e s' h hf; have := (waited_set s e s' h).mp hf; simpa using this)
      (by intro s e s' he h; subst he; acc h) h
  · exact needs (fun s : St => s.waited) _ _ _ {} rfl
      (by intro s e s' h hf; have := (waited_set s e s' h).mp hf; simpa using this)
      (by intro s e s' he h; subst he; acc h) h
  · exact needs (fun s : St => s.nilled) _ _ _ {} rfl
      (by intro s e s' h hf; have := (nilled_set s e s' h).mp hf; simpa using this)
      (by intro s e s' he h; subst he; acc h) h

/-- no broker is closed through the client after its maps were dropped -/
theorem no_broker_close_after_maps_nil {pre post : List Ev} {s : St} (h : run {} (pre ++ .mapsNil :: post) = .ok s) :
    ∀ e ∈ post, e ≠ .brokerClose := by
  exact none_after (fun s : St => s.nilled) (· = .mapsNil) (· = .brokerClose)
    (by intro s e s' h hf; exact (nilled_set s e s' h).mpr (Or.inl hf))
    (by intro s e s' he h; exact (nilled_set s e s' h).mpr (Or.inr he))
    (by intro s e s' he h; subst he; acc h) h rfl

/-- closing twice is harmless: the second Close touches no channel -/
theorem close_twice_harmless_client (s s' : St) (h : step s .closeAgain = .ok s') :
    s.nilled = true ∧ s' = { s with again := s.again + 1 } := by
  acc h

/-- after Close started (closer closed) and until the maps are dropped, Close or the updater can always move -/
theorem no_deadlock_after_close_client (s : St) (hc : s.closer = true) (hn : s.nilled = false) :
    ∃ e s', internal e = true ∧ step s e = .ok s' := by
  by_cases h1 : s.closed = true
  · by_cases h2 : s.waited = true
    · exact ⟨.mapsNil, { s with nilled := true }, rfl, by simp [step, h2, hn]⟩
    · exact ⟨.closedRecv, { s with waited := true }, rfl, by simp [step, hc, h1, h2]⟩
  · exact ⟨.closedClose, { s with closed := true }, rfl, by simp [step, h1]⟩

/-- ... and every such move except closing one more broker (a loop over the finite broker maps) decreases the rank -/
theorem close_terminates_client (s : St) (e : Ev) (s' : St) (h : step s e = .ok s') (hi : internal e = true) :
    (e ≠ .brokerClose → rank s' < rank s) ∧ (e = .brokerClose → rank s' = rank s) := by
  cases e <;> simp [internal] at hi <;> simp only [step] at h <;> (repeat' split at h) <;>
    first
    | (cases h; done)
    | (injection h with h; subst h; simp_all [rank])

example : accepts step {} [.closedClose, .closerClose, .closedRecv, .brokerClose, .brokerClose, .mapsNil, .closeAgain] = true := by decide
example : accepts step {} [.closerClose, .closedClose, .closedRecv, .mapsNil, .closerClose] = false := by decide  -- closer closed twice
example : accepts step {} [.closerClose, .closedRecv] = false := by decide  -- Close went on before the updater returned

end Cli


theorem snoc_eq_append_cons {ε : Type} {h l r : List ε} {e a : ε} (he : h ++ [e] = l ++ a :: r) :
    (r = [] ∧ h = l ∧ e = a) ∨ ∃ r0, r = r0 ++ [e] ∧ h = l ++ a :: r0 := by
  rcases List.eq_nil_or_concat r with rfl | ⟨r0, x, rfl⟩
  · left
    have : h ++ [e] = l ++ [a] := by simpa using he
    have := List.append_inj' this rfl
    simp_all
  · right
    have h1 : h ++ [e] = (l ++ a :: r0) ++ [x] := by simpa using he
    have := List.append_inj' h1 rfl
    refine ⟨r0, ?_, this.1⟩
    have h2 : [e] = [x] := this.2
    simp_all

namespace Br
open Model.Lifecycle.Br

local macro "acc" h:ident : tactic =>
  `(tactic| (simp only [step] at $h:ident <;> (repeat' split at $h:ident) <;>
      first | (cases $h:ident; done) | (injection $h:ident with $h:ident; subst $h:ident; simp_all)))

/-- `responses` exists and is open -/
def respOpen (s : St) : Bool := s.conn && !s.respClosed
/-- the response receiver is draining after `responses` was closed -/
def draining (s : St) : Bool := s.respClosed && !s.doneClosed

structure BInv (s : St) : Prop where
  resp_conn : s.respClosed = true → s.conn = true
  done_resp : s.doneClosed = true → s.respClosed = true ∧ s.pending = 0

theorem init_inv : BInv {} := ⟨by simp, by simp⟩
theorem step_inv (s : St) (e : Ev) (s' : St) (hi : BInv s) (h : step s e = .ok s') : BInv s' := by
  obtain ⟨h1, h2⟩ := hi
  cases e <;> acc h <;> constructor <;> simp_all
theorem reach_inv {evs : List Ev} {s : St} (h : run {} evs = .ok s) : BInv s :=
  run_inv BInv step_inv h init_inv

/-- per connection, `responses` and `done` are closed at most once: every close is preceded by the Open of this
    connection (resp. the close of `responses`) with no other close of the same channel in between -/
theorem never_double_close_broker {evs : List Ev} {s : St} (h : run {} evs = .ok s) :
    Precedes (· = .open_) (fun e => e = .respClose ∨ e = .connClose) (· = .respClose) evs ∧
    Precedes (· = .respClose) (fun e => e = .doneClose ∨ e = .connClose) (· = .doneClose) evs := by
  constructor
  · exact needs respOpen _ _ _ {} rfl
      (by intro s e s' h hf; cases e <;> acc h <;> simp_all [respOpen])
      (by intro s e s' he h; subst he; acc h; simp_all [respOpen]) h
  · exact needs draining _ _ _ {} rfl
      (by intro s e s' h hf; cases e <;> acc h <;> simp_all [draining])
      (by intro s e s' he h; subst he; acc h; simp_all [draining]) h

/-- a promise is only sent on `responses` of the current connection while it is open -/
theorem no_send_after_close_broker {evs : List Ev} {s : St} (h : run {} evs = .ok s) :
    Precedes (· = .open_) (fun e => e = .respClose ∨ e = .connClose) (· = .send) evs := by
  exact needs respOpen _ _ _ {} rfl
      (by intro s e s' h hf; cases e <;> acc h <;> simp_all [respOpen])
      (by intro s e s' he h; subst he; acc h; simp_all [respOpen]) h

/-- Close: `responses` closed, then the receiver closes `done` (awaited), then the connection is closed -/
theorem close_order_broker {evs : List Ev} {s : St} (h : run {} evs = .ok s) :
    Precedes (· = .respClose) (fun e => e = .doneClose ∨ e = .connClose) (· = .doneClose) evs ∧
    Precedes (· = .doneClose) (fun e => e = .connClose) (· = .connClose) evs := by
  refine ⟨(never_double_close_broker h).2, ?_⟩
  exact needs (fun s : St => s.doneClosed) _ _ _ {} rfl
      (by intro s e s' h hf; cases e <;> acc h)
      (by intro s e s' he h; subst he; acc h) h

/-- the receiver drains: when `done` is closed every promise sent on this connection has been taken -/
theorem outputs_closed_after_last_event_broker {pre : List Ev} {s : St} (h : run {} (pre ++ [.doneClose]) = .ok s) :
    ∀ l r, pre = l ++ .open_ :: r → .open_ ∉ r → r.count .recv = r.count .send := by
  obtain ⟨s1, h1, h2⟩ := run_append.mp h
  obtain ⟨s2, h3, _⟩ := run_cons.mp h2
  have hp : s1.pending = 0 := by acc h3
  have key := run_hist (step := step)
    (fun hst (s : St) => ∀ l r, hst = l ++ .open_ :: r → .open_ ∉ r → s.pending + r.count .recv = r.count .send)
    (by
      intro hst s e s' ih hs l r he hno
      rcases snoc_eq_append_cons he with ⟨rfl, rfl, rfl⟩ | ⟨r0, rfl, rfl⟩
      · acc hs
      · have hne : e ≠ .open_ := by intro hc; apply hno; simp [hc]
        have hno0 : .open_ ∉ r0 := by intro hc; apply hno; simp [hc]
        cases e <;> acc hs <;> (try (have := ih l r0 rfl hno0; omega)))
    (h0 := []) h1 (by intro l r he; simp at he)
  intro l r he hno
  have := key l r (by simpa using he) hno
  omega

/-- a second Close finds the broker not connected and touches nothing -/
theorem close_twice_harmless_broker (s s' : St) (h : step s .closeNotConn = .ok s') : s.conn = false ∧ s' = s := by
  acc h

/-- once `responses` is closed, the receiver or Close can always move until the connection is closed -/
theorem no_deadlock_after_close_broker {evs : List Ev} {s : St} (h : run {} evs = .ok s) (hc : s.respClosed = true) :
    ∃ e s', internal e = true ∧ step s e = .ok s' := by
  have hi := reach_inv h
  by_cases hd : s.doneClosed = true
  · exact ⟨.connClose, _, rfl, by simp [step, hd]; rfl⟩
  · by_cases hp : s.pending = 0
    · exact ⟨.doneClose, _, rfl, by simp [step, hc, hp, hd]; rfl⟩
    · exact ⟨.recv, _, rfl, by simp [step, hp, hd]; rfl⟩

/-- ... and each such move decreases the rank (promises still to drain + steps of Close) -/
theorem close_terminates_broker {evs : List Ev} {s : St} (h : run {} evs = .ok s) (hc : s.respClosed = true)
    (e : Ev) (s' : St) (hs : step s e = .ok s') (hi : internal e = true) : rank s' < rank s := by
  have hv := reach_inv h
  have hconn := hv.resp_conn hc
  cases e <;> simp [internal] at hi <;> acc hs <;> simp_all [rank] <;> omega

example : accepts step {} [.closeNotConn, .open_, .send, .send, .recv, .respClose, .recv, .doneClose, .connClose, .closeNotConn,
    .open_, .send, .respClose, .recv, .doneClose, .connClose] = true := by decide
example : accepts step {} [.open_, .send, .respClose, .doneClose] = false := by decide   -- done closed with a promise pending
example : accepts step {} [.open_, .respClose, .connClose] = false := by decide         -- Close did not wait for the receiver
example : accepts step {} [.open_, .respClose, .respClose] = false := by decide         -- double close
example : accepts step {} [.open_, .respClose, .send] = false := by decide              -- send on closed channel

end Br
end Props.C12life
