import SaramaVerif.Props.C01
/-
  C12 — shutdown always completes: no hang, no panic, channels closed (producer part proved on the accounting
  model; the consumer / group / offset-manager / client parts are decided by close-point enumeration on the real
  code, see lib/props_C12.py).

  For EVERY accepted event sequence - in particular for AsyncClose/Close issued at any point of the trace, since
  the shutdown events may be interleaved anywhere - the producer's output channels are closed at most once,
  only after the shutdown marker went through the dispatcher and the in-flight counter reached zero, never
  while a message or an internal marker is still in the pipeline, and no terminal event (a send on Successes or
  Errors) is emitted afterwards: the two ways the shutdown could panic (send on a closed channel, double close)
  are not accepted by the model, and trace validation checks that the real pipeline never takes them.
-/
namespace Props.C12
open Model.Producer Props.C01

/-- the shutdown handshake happens in order: shutdown started → marker consumed → Wait returned → close -/
theorem shutdown_order (cfg : Cfg) (es : List Ev) (s : St) (h : run (init cfg) es = .ok s) (hc : s.closed = true) :
    s.waited = true ∧ s.shutdownSeen = true ∧ s.shutdownStarted = true ∧ s.live = [] ∧ s.markers = 0 := by
  have hi := reachable_inv cfg es s h
  have hw := hi.closed_w hc
  have he := hi.waited_emp hw
  exact ⟨hw, he.2.2, hi.seen_start he.2.2, he.1, he.2.1⟩

/-- the channels are never closed twice -/
theorem close_once (s s' : St) (h : step s .close = .ok s') : s.closed = false ∧ s'.closed = true := by
  simp only [step] at h
  split at h; · cases h
  split at h; · cases h
  rename_i h1 h2
  injection h with h; subst h
  exact ⟨by simpa using h2, rfl⟩

/-- nothing is sent on Successes/Errors after they were closed, and nothing is accepted any more -/
theorem no_send_after_close (s s' : St) (e : Ev) (hc : s.closed = true) (h : step s e = .ok s') :
    s'.succ = s.succ ∧ s'.errs = s.errs ∧ s'.accepted = s.accepted := by
  have := close_after_all_outcomes s s' e hc h
  refine ⟨this.1, this.2, ?_⟩
  cases e <;> simp only [step, hc] at h <;> (repeat' split at h) <;>
    first | (cases h; done) | (injection h with h; subst h; first | rfl | (exfalso; simp_all))

/-- when the channels are closed, every message the producer accepted or rejected has had its event: the
    channels are closed after their last event -/
theorem outputs_closed_after_last_event (cfg : Cfg) (es : List Ev) (s : St) (h : run (init cfg) es = .ok s)
    (hc : s.closed = true) (id : Int) (hm : id ∈ s.accepted ∨ id ∈ s.rejected) :
    s.succ.count id + s.errs.count id = 1 :=
  closed_implies_exactly_one cfg es s h hc id hm

/-- once shutdown has been seen by the dispatcher no new message enters the pipeline (it is rejected with an
    error event instead), so the in-flight set can only shrink: with the retry bound `pass_bound` this is the
    measure behind "Close completes" (termination itself is observed by the harness, with a time bound) -/
theorem no_accept_after_shutdown (s s' : St) (id : Int) (hs : s.shutdownSeen = true) :
    step s (.accept id) ≠ .ok s' := by
  simp only [step, hs]
  intro h
  (repeat' split at h) <;> first | (cases h; done) | simp_all

/-! non-vacuity: shutdown issued while a message is still being retried; close happens after its outcome -/
example :
    (run (init { retryMax := 1, icepts := 0, idem := false })
      [.accept 1, .pass 1 0, .wgAdd true, .shutdownSeen, .reject 2, .retry 1 1, .pass 1 1, .retErr 1, .waited, .close]).toOption.map
      (fun s => (s.closed, s.errs)) = some (true, [1, 2]) := by decide
/-- … and closing before the outcome is not accepted -/
example : (run (init { retryMax := 1, icepts := 0, idem := false })
      [.accept 1, .pass 1 0, .wgAdd true, .shutdownSeen, .waited]).toOption.isNone = true := by decide

end Props.C12
