import SaramaVerif.Model.BalanceRange
import SaramaVerif.Model.BalanceRoundRobin
import SaramaVerif.Lemmas.C08Valid
import SaramaVerif.Lemmas.C08StickyFinal
/-
  C08 — every balance strategy yields a valid partition assignment.
  Property theorems only; helper developments are in Lemmas/C08*.lean.
-/
namespace Props.C08
open Model.Balance

/-! ## Range -/

/-- For ANY bounds `r` satisfying the relational spec of the float computation, and ANY members-by-topic map
    of the group (any iteration order, any order inside each list — the hash order is one, a member may be
    listed twice): every partition of a topic with a subscriber is planned exactly as often as it occurs in the
    topic's partition list, partitions of other topics not at all; every holder is a group member that lists the
    topic, and every planned partition exists. -/
theorem range_partition (members : Members) (ts : Topics) (mbt : AL Member) (r : Topic → Nat → Nat)
    (hmbt : MbtOf members mbt)
    (hr : ∀ e, e ∈ mbt → RangeBoundary (partsOf ts e.1).length e.2.length (r e.1)) :
    (∀ t p, AL.countAll (rangePlan r ts mbt []) (t, p) =
        if hasSubscriber members t = true then (partsOf ts t).count p else 0) ∧
    PlanAll (fun m tp => (∃ e, e ∈ members ∧ e.1 = m ∧ tp.1 ∈ e.2) ∧ tp.2 ∈ partsOf ts tp.1)
      (rangePlan r ts mbt []) ∧
    PlanKeys (fun m => ∃ e, e ∈ members ∧ e.1 = m) (rangePlan r ts mbt []) := by
  obtain ⟨hnd, hiff⟩ := hmbt
  have hsub : ∀ e, e ∈ mbt → ∀ m, m ∈ e.2 → ∃ e', e' ∈ members ∧ e'.1 = m ∧ e.1 ∈ e'.2 := by
    intro e he m hm
    have : AL.get mbt e.1 = e.2 := AL.get_of_mem_nodup hnd (by cases e; exact he)
    exact (hiff e.1 m).mp (by rw [this]; exact hm)
  refine ⟨?_, ?_, ?_⟩
  · intro t p
    rw [countAll_rangePlan r ts t p mbt [] hnd hr]
    simp only [AL.countAll, Nat.zero_add]
    by_cases hk : t ∈ AL.keys mbt
    · rw [if_pos hk]
      cases hs : hasSubscriber members t with
      | true => rfl
      | false =>
        -- a key without subscriber has an empty member list, so RangeBoundary n 0 forces n = 0
        have hmem := AL.mem_of_mem_keys hk
        have hnil : AL.get mbt t = [] := by
          cases hg : AL.get mbt t with
          | nil => rfl
          | cons m rest =>
            exfalso
            obtain ⟨e', he', _, ht⟩ := (hiff t m).mp (by rw [hg]; exact List.mem_cons_self)
            have : hasSubscriber members t = true := by
              unfold hasSubscriber; rw [List.any_eq_true]
              exact ⟨e', he', List.contains_iff_mem.mpr ht⟩
            rw [hs] at this; cases this
        have hb := hr _ hmem
        simp only [hnil, List.length_nil] at hb
        have h0 : (partsOf ts t).length = 0 := by rw [← hb.2.1, hb.1]
        rw [List.length_eq_zero_iff.mp h0]; simp
    · rw [if_neg hk]
      cases hs : hasSubscriber members t with
      | false => simp
      | true =>
        exfalso
        unfold hasSubscriber at hs; rw [List.any_eq_true] at hs
        obtain ⟨e', he', hc⟩ := hs
        have : e'.1 ∈ AL.get mbt t := (hiff t e'.1).mpr ⟨e', he', rfl, List.contains_iff_mem.mp hc⟩
        rw [AL.get_eq_nil_of_not_mem_keys hk] at this
        simp at this
  · apply planAll_rangePlan
    · intro e he; simp at he
    · intro e he m hm p hp
      exact ⟨hsub e he m hm, hp⟩
  · apply planKeys_rangePlan
    · intro k hk; simp [AL.keys] at hk
    · intro e he m hm
      obtain ⟨e', he', hm', _⟩ := hsub e he m hm
      exact ⟨e', he', hm'⟩

/-- … hence the plan passes the executable validity predicate of the statement (distinct member ids, distinct
    topics, distinct partition ids per topic — what Go maps and the cluster metadata provide). -/
theorem range_valid (members : Members) (ts : Topics) (mbt : AL Member) (r : Topic → Nat → Nat)
    (hids : (members.map (·.1)).Nodup) (htk : (AL.keys ts).Nodup) (htp : ∀ e, e ∈ ts → e.2.Nodup)
    (hmbt : MbtOf members mbt)
    (hr : ∀ e, e ∈ mbt → RangeBoundary (partsOf ts e.1).length e.2.length (r e.1)) :
    validPlan members ts (rangePlan r ts mbt []) = true := by
  obtain ⟨hc, ha, hk⟩ := range_partition members ts mbt r hmbt hr
  apply validPlan_of hids hk ha
  intro e he hs p hp
  rw [hc, if_pos hs]
  have : partsOf ts e.1 = e.2 := AL.get_of_mem_nodup htk (by cases e; exact he)
  rw [this]
  exact count_eq_one_of_mem_nodup (htp e he) hp

/-- the relation is satisfiable and admits BOTH roundings at an exact half point (n = 5, m = 2: 2.5 ↦ 2 or 3) -/
example : RangeBoundary 5 2 (fun i => [0, 3, 5].getD i 0) ∧ RangeBoundary 5 2 (fun i => [0, 2, 5].getD i 0) :=
  ⟨(rangeBoundaryB_iff _ _ _).mp (by decide), (rangeBoundaryB_iff _ _ _).mp (by decide)⟩

/-- non-vacuity of `range_valid` on a group with overlapping subscriptions, a member listed twice under a topic
    and a topic nobody subscribes to: members 1{t0,t1}, 2{t0}, 3{t1,t1}; t0 has 5 partitions, t1 has 3, t2 has 2 -/
example :
    validPlan [(1, [0, 1]), (2, [0]), (3, [1, 1])] [(0, [0, 1, 2, 3, 4]), (1, [0, 1, 2]), (2, [0, 1])]
      (rangePlan (fun t i => if t = 0 then [0, 3, 5].getD i 0 else [0, 1, 2, 3].getD i 0)
        [(0, [0, 1, 2, 3, 4]), (1, [0, 1, 2]), (2, [0, 1])] [(1, [3, 1, 3]), (0, [2, 1])] []) = true := by decide

/-! ## Round-robin -/

/-- termination of the inner cursor loop: if the topic has a subscriber, at most `n` cursor positions are tried
    (the measure "distance to the next subscriber" is below n), the position found is the first one at or after
    the cursor whose member has the topic. -/
theorem rr_find_terminates (ms : Members) (t : Topic) (i : Nat) (h : hasSubscriber ms t = true) :
    ∃ j, rrFind ms t i ms.length = some j ∧ i ≤ j ∧ j < i + ms.length ∧ rrHas ms t j ∧
      ∀ k, i ≤ k → k < j → ¬ rrHas ms t k := by
  obtain ⟨j, hj⟩ := rrFind_complete h i
  exact ⟨j, hj, rrFind_some hj⟩

/-- the hypothesis is necessary: without a subscriber the loop `for !m.hasTopic(tp.topic) { i++ }` is not left
    within ANY number of steps, so `Plan` does not return (candidate F13). -/
theorem rr_diverges_without_subscriber (ms : Members) (tps : List TP)
    (h : ∃ tp, tp ∈ tps ∧ hasSubscriber ms tp.1 = false) :
    ∀ fuel i plan, rrLoop ms fuel tps i plan = none :=
  fun fuel i plan => rrLoop_diverges ms fuel tps i plan h

/-- every partition is assigned exactly once (as often as it is listed), to a group member that has the topic;
    for every member order and every order of the topic partitions. -/
theorem rr_valid (ms : Members) (tps : List TP) (hne : ms ≠ [])
    (hsub : ∀ tp, tp ∈ tps → hasSubscriber ms tp.1 = true) :
    ∃ plan, rrPlan ms false tps = .plan plan ∧
      (∀ x, AL.countAll plan x = tps.count x) ∧
      PlanAll (fun m tp => ∃ e, e ∈ ms ∧ e.1 = m ∧ e.2.contains tp.1 = true) plan := by
  obtain ⟨out, ho, hc, hp⟩ := rrLoop_spec ms tps 0 [] hsub
  refine ⟨out, ?_, ?_, ?_⟩
  · unfold rrPlan
    have : ms.isEmpty = false := by cases ms with
      | nil => exact absurd rfl hne
      | cons _ _ => rfl
    simp only [this, Bool.or_self, Bool.false_eq_true, ↓reduceIte, ho]
  · intro x; rw [hc x]; simp [AL.countAll]
  · apply hp; intro e he; simp at he

private theorem planKeys_of_planAll_nonempty {Q : Member → Prop} {P : Member → TP → Prop} {plan : Plan}
    (hne : ∀ e, e ∈ plan → e.2 ≠ []) (h : PlanAll P plan) (hq : ∀ m tp, P m tp → Q m) : PlanKeys Q plan := by
  intro k hk
  obtain ⟨e, he, rfl⟩ := List.mem_map.mp hk
  cases hl : e.2 with
  | nil => exact absurd hl (hne e he)
  | cons tp rest => exact hq e.1 tp (h e he tp (by rw [hl]; exact List.mem_cons_self))

private theorem add_nonempty {plan : Plan} (h : ∀ e, e ∈ plan → e.2 ≠ []) (m : Member) (t : Topic) (ps : List Int) :
    ∀ e, e ∈ plan.add m t ps → e.2 ≠ [] := by
  unfold Plan.add
  cases ps with
  | nil => simpa using h
  | cons q r =>
    intro e he
    simp only [List.isEmpty_cons, Bool.false_eq_true, ↓reduceIte] at he
    rcases AL.mem_set he with rfl | he
    · simp
    · exact h e he

private theorem rrLoop_nonempty (ms : Members) (fuel : Nat) : ∀ (tps : List TP) (i : Nat) (plan out : Plan),
    (∀ e, e ∈ plan → e.2 ≠ []) → rrLoop ms fuel tps i plan = some out → ∀ e, e ∈ out → e.2 ≠ [] := by
  intro tps
  induction tps with
  | nil => intro i plan out h ho; simp only [rrLoop, Option.some.injEq] at ho; subst ho; exact h
  | cons tp rest ih =>
    intro i plan out h ho
    rw [rrLoop] at ho
    cases hf : rrFind ms tp.1 i fuel with
    | none => rw [hf] at ho; cases ho
    | some j =>
      rw [hf] at ho
      exact ih _ _ _ (add_nonempty h _ _ _) ho

/-- … hence the executable validity predicate holds for the round-robin plan, when `tps` lists the partitions of
    the `topics` map (in any order) and every topic has a subscriber — which `consumerGroup.balance` guarantees,
    since it builds `topics` from the members' subscriptions. -/
theorem rr_plan_valid (ms : Members) (ts : Topics) (tps : List TP) (hne : ms ≠ [])
    (hids : (ms.map (·.1)).Nodup) (htk : (AL.keys ts).Nodup) (htp : ∀ e, e ∈ ts → e.2.Nodup)
    (htps : ∀ t p, tps.count (t, p) = (partsOf ts t).count p)
    (hsub : ∀ tp, tp ∈ tps → hasSubscriber ms tp.1 = true) :
    ∃ plan, rrPlan ms false tps = .plan plan ∧ validPlan ms ts plan = true := by
  obtain ⟨plan, hp, hc, ha⟩ := rr_valid ms tps hne hsub
  refine ⟨plan, hp, ?_⟩
  have hne' : ∀ e, e ∈ plan → e.2 ≠ [] := by
    unfold rrPlan at hp
    have : ms.isEmpty = false := by cases ms with
      | nil => exact absurd rfl hne
      | cons _ _ => rfl
    simp only [this, Bool.or_self, Bool.false_eq_true, ↓reduceIte] at hp
    cases hl : rrLoop ms ms.length tps 0 [] with
    | none => rw [hl] at hp; cases hp
    | some out =>
      rw [hl] at hp; injection hp with hp; subst hp
      exact rrLoop_nonempty ms _ tps 0 [] out (by intro e he; simp at he) hl
  have hmemtp : ∀ tp, tp ∈ tps ↔ tp.2 ∈ partsOf ts tp.1 := by
    intro tp
    rw [← List.count_pos_iff, ← List.count_pos_iff, htps]
  have hholds : ∀ e, e ∈ plan → ∀ tp, tp ∈ e.2 → tp ∈ tps := by
    intro e he tp htp'
    rw [← List.count_pos_iff, ← hc]
    exact AL.countAll_pos_of_mem he htp'
  apply validPlan_of hids
  · exact planKeys_of_planAll_nonempty hne' ha (fun m tp ⟨e, he, hm, _⟩ => ⟨e, he, hm⟩)
  · intro e he tp htp'
    obtain ⟨e', he', hm, hc'⟩ := ha e he tp htp'
    exact ⟨⟨e', he', hm, List.contains_iff_mem.mp hc'⟩, (hmemtp tp).mp (hholds e he tp htp')⟩
  · intro e he _ p hp'
    rw [hc, htps]
    have : partsOf ts e.1 = e.2 := AL.get_of_mem_nodup htk (by cases e; exact he)
    rw [this]
    exact count_eq_one_of_mem_nodup (htp e he) hp'

/-- the call site provides the hypothesis of `rr_valid`: `consumerGroup.balance` builds the `topics` argument from
    the members' subscriptions, so every topic in it has a subscriber (the harness compares the model function with
    what the real `balance` hands to the strategy) -/
theorem balance_topics_have_subscribers (ms : Members) (t : Topic) (h : t ∈ topicsOfMembers ms) :
    hasSubscriber ms t = true := by
  unfold topicsOfMembers at h
  rw [List.mem_eraseDups, List.mem_flatMap] at h
  obtain ⟨e, he, ht⟩ := h
  unfold hasSubscriber
  rw [List.any_eq_true]
  exact ⟨e, he, List.contains_iff_mem.mpr ht⟩

/-- non-vacuity: members 1{t0,t1}, 2{t1}, 3{t0}; t0 has 3 partitions, t1 has 2; the cursor skips non-subscribers -/
example : rrPlan [(1, [0, 1]), (2, [1]), (3, [0])] false [(0, 0), (0, 1), (0, 2), (1, 0), (1, 1)] =
    .plan [(1, [(0, 0), (0, 2), (1, 1)]), (3, [(0, 1)]), (2, [(1, 0)])] := by decide

/-- the F13 shape: topic 1 has a partition and no subscriber — the model loop is not left -/
example : rrPlan [(1, [0]), (2, [0])] false [(0, 0), (0, 1), (1, 0)] = .diverges := by decide

/-! ## Sticky -/

/-- Every plan the (guarded variant of the) sticky strategy returns is valid — for ANY previous assignment state:
    `pp` is whatever `prepopulateCurrentAssignments` made of the members' user data (one current owner per
    claimed partition, owners and claimed partitions arbitrary: stale, conflicting, partly deleted), `ops` is any
    sequence of operations whose guards (the code's conditions) hold, i.e. any map iteration order, any partition
    order, any choice of the "actual partition to be moved", with or without revert. -/
theorem sticky_valid (ms : Members) (ts : Topics) (env : SEnv) (wf : SWf ms ts env)
    (pp : List (TP × Member × Option Member)) (hpp : (pp.map (·.1)).Nodup)
    (ops : List SOp) (st : SState)
    (hrun : runOps .guarded env (initState ms ts pp) ops = some st) (hass : st.assigned = true) :
    validPlan ms ts (finish .guarded st) = true :=
  (SInv.run wf ops _ st (SInv.init wf pp hpp) hrun).finish_valid wf hass

/-- the state invariant behind it, for every reachable state (also mid-run) -/
theorem sticky_invariant (ms : Members) (ts : Topics) (env : SEnv) (wf : SWf ms ts env)
    (pp : List (TP × Member × Option Member)) (hpp : (pp.map (·.1)).Nodup)
    (ops : List SOp) (st : SState) (hrun : runOps .guarded env (initState ms ts pp) ops = some st) :
    SInv env st :=
  SInv.run wf ops _ st (SInv.init wf pp hpp) hrun

private theorem guard_weaken (env : SEnv) (st : SState) (op : SOp) (h : Model.Balance.guard .guarded env st op = true) :
    Model.Balance.guard .pinned env st op = true := by
  cases op with
  | movePrev p q =>
    simp only [Model.Balance.guard, Bool.and_eq_true] at h ⊢
    refine ⟨h.1, ?_⟩
    cases ho : ownerGet st.owner p with
    | none => rw [ho] at h; exact h.2
    | some c =>
      cases hn : prevOf env p with
      | none => rw [ho, hn] at h; exact h.2
      | some pm =>
        rw [ho, hn] at h
        simp only [Bool.and_eq_true] at h ⊢
        exact ⟨h.2.1, trivial⟩
  | _ => exact h

private theorem apply_same (env : SEnv) (st : SState) (op : SOp) (h : op ≠ .revert) :
    Model.Balance.apply .pinned env st op = Model.Balance.apply .guarded env st op := by
  cases op with
  | revert => exact absurd rfl h
  | _ => rfl

private theorem not_reverted (v : Variant) (env : SEnv) : ∀ (ops : List SOp) (st st' : SState),
    SOp.revert ∉ ops → st.reverted = false → runOps v env st ops = some st' → st'.reverted = false := by
  intro ops
  induction ops with
  | nil => intro st st' _ h hr; simp only [runOps, Option.some.injEq] at hr; subst hr; exact h
  | cons op rest ih =>
    intro st st' hno h hr
    rw [runOps] at hr
    split at hr
    · apply ih _ _ (fun hm => hno (List.mem_cons_of_mem _ hm)) ?_ hr
      have hne : op ≠ .revert := fun e => hno (e ▸ List.mem_cons_self)
      cases op with
      | revert => exact absurd rfl hne
      | assignAll us => exact h
      | park m => exact h
      | snapshot => exact h
      | movePrev p q =>
        simp only [Model.Balance.apply]
        cases prevOf env p with
        | none => exact h
        | some pm => simp only; unfold processMove; cases ownerGet st.owner q <;> exact h
      | moveOther p q =>
        simp only [Model.Balance.apply]
        cases newConsumerFor st.cur env.pot p with
        | none => exact h
        | some pm => simp only; unfold processMove; cases ownerGet st.owner q <;> exact h
    · cases hr

private theorem run_pinned_of_guarded (env : SEnv) : ∀ (ops : List SOp) (st st' : SState),
    SOp.revert ∉ ops → runOps .guarded env st ops = some st' → runOps .pinned env st ops = some st' := by
  intro ops
  induction ops with
  | nil => intro st st' _ h; exact h
  | cons op rest ih =>
    intro st st' hno h
    rw [runOps] at h ⊢
    by_cases hg : Model.Balance.guard .guarded env st op = true
    · rw [if_pos hg] at h
      rw [if_pos (guard_weaken env st op hg), apply_same env st op (fun e => hno (e ▸ List.mem_cons_self))]
      exact ih _ _ (fun hm => hno (List.mem_cons_of_mem _ hm)) h
    · rw [if_neg hg] at h; cases h

/-- PARTIAL, for the tree as pinned.  Missing for the full statement: (1) the "previous owner" branch checks
    only the sizes, so a run may move a partition to a member that is parked or does not list the topic;
    (2) the revert restores a copy that `Plan` never sees.  Under the exact extra hypotheses that every operation of
    the run also passes the strengthened guard and that no revert happens, the pinned code takes the same steps
    and returns the same, valid, plan. -/
theorem sticky_valid_partial (ms : Members) (ts : Topics) (env : SEnv) (wf : SWf ms ts env)
    (pp : List (TP × Member × Option Member)) (hpp : (pp.map (·.1)).Nodup)
    (ops : List SOp) (st : SState) (hno : SOp.revert ∉ ops)
    (hrun : runOps .guarded env (initState ms ts pp) ops = some st) (hass : st.assigned = true) :
    runOps .pinned env (initState ms ts pp) ops = some st ∧ validPlan ms ts (finish .pinned st) = true := by
  refine ⟨run_pinned_of_guarded env ops _ st hno hrun, ?_⟩
  have hr : st.reverted = false := not_reverted .guarded env ops _ st hno rfl hrun
  have : finish .pinned st = finish .guarded st := by unfold finish; rw [hr]
  rw [this]
  exact sticky_valid ms ts env wf pp hpp ops st hrun hass

/-! ### the two defects of the pinned tree, as accepted runs of the model (kernel-checked) -/

/-- F12 witness: members 1{t2; claims t1/0 at generation 1}, 2{t1; claims t1/0,1,2 at generation 2}, 3{t1};
    topics t1, t2 with partitions 0,1,2.  Member 1 gets all of t2 and is parked; the previous-owner branch then
    hands it t1/0, and adding the fixed assignments back overwrites that: t1/0 is in nobody's plan.
    (The real `BalanceStrategySticky.Plan` returns exactly this plan.) -/
def f12Members : Members := [(1, [2]), (2, [1]), (3, [1])]
def f12Topics : Topics := [(1, [0, 1, 2]), (2, [0, 1, 2])]
def f12Env : SEnv :=
  { pot := potOf f12Members f12Topics, prev := [((1, 0), 1)], reassignable := [(1, 0), (1, 1), (1, 2)],
    initializing := true, parts := allParts f12Topics }
def f12Ops : List SOp :=
  [.assignAll [(2, 1), (2, 0), (2, 2)], .park 1, .snapshot, .movePrev (1, 0) (1, 0), .moveOther (1, 1) (1, 1)]

example : (runOps .pinned f12Env
      (initState f12Members f12Topics [((1, 0), 2, some 1), ((1, 1), 2, none), ((1, 2), 2, none)]) f12Ops).map
      (fun st => (finish .pinned st, validPlan f12Members f12Topics (finish .pinned st))) =
    some ([(2, [(1, 2)]), (3, [(1, 1)]), (1, [(2, 1), (2, 0), (2, 2)])], false) := by decide

/-- … and the strengthened guard refuses that run -/
example : runOps .guarded f12Env
    (initState f12Members f12Topics [((1, 0), 2, some 1), ((1, 1), 2, none), ((1, 2), 2, none)]) f12Ops = none := by
  decide

/-- revert witness: members 1{t2; claims t1/0, t2/0 at generation 1}, 2{t1; claims t1/0,1,2 at generation 2},
    3{t1; claims t1/3 at generation 2}; t1 has partitions 0..3, t2 has partition 0.  Member 1 keeps t2/0 and is
    parked; the previous-owner branch moves t1/0 to it, the score does not improve, `balance` reverts its local
    copy and adds the fixed assignment to that copy: `Plan` returns member 1 with t1/0 (a topic it does not list)
    and t2/0 unassigned.  (Again exactly what the real code returns.) -/
def revMembers : Members := [(1, [2]), (2, [1]), (3, [1])]
def revTopics : Topics := [(1, [0, 1, 2, 3]), (2, [0])]
def revEnv : SEnv :=
  { pot := potOf revMembers revTopics, prev := [((1, 0), 1)], reassignable := [(1, 0), (1, 1), (1, 2), (1, 3)],
    initializing := false, parts := allParts revTopics }
def revOps : List SOp := [.assignAll [], .park 1, .snapshot, .movePrev (1, 0) (1, 0), .revert]

example : (runOps .pinned revEnv
      (initState revMembers revTopics [((1, 0), 2, some 1), ((1, 1), 2, none), ((1, 2), 2, none), ((1, 3), 3, none), ((2, 0), 1, none)])
      revOps).map (fun st => (finish .pinned st, validPlan revMembers revTopics (finish .pinned st))) =
    some ([(2, [(1, 1), (1, 2)]), (3, [(1, 3)]), (1, [(1, 0)])], false) := by decide

/-- non-vacuity of `sticky_valid`: an accepted guarded run on a group with a member that joins late
    (members 1{t1}, 2{t1}, 3{t1}; member 1 held all of t1 = 0..3): two moves to the least loaded member -/
def nvMembers : Members := [(1, [1]), (2, [1]), (3, [1])]
def nvTopics : Topics := [(1, [0, 1, 2, 3])]
def nvEnv : SEnv :=
  { pot := potOf nvMembers nvTopics, prev := [], reassignable := [(1, 0), (1, 1), (1, 2), (1, 3)],
    initializing := true, parts := allParts nvTopics }

example : (runOps .guarded nvEnv
      (initState nvMembers nvTopics [((1, 0), 1, none), ((1, 1), 1, none), ((1, 2), 1, none), ((1, 3), 1, none)])
      [.assignAll [], .snapshot, .moveOther (1, 0) (1, 0), .moveOther (1, 1) (1, 1)]).map
      (fun st => (finish .guarded st, st.assigned)) =
    some ([(1, [(1, 2), (1, 3)]), (2, [(1, 0)]), (3, [(1, 1)])], true) := by decide

example : SWf nvMembers nvTopics nvEnv :=
  ⟨rfl, rfl, by decide, by decide, by decide, by
    intro p hp
    have : ∀ p ∈ nvEnv.reassignable, canPartitionParticipate nvEnv.pot p = true ∧ p ∈ nvEnv.parts := by decide
    exact this p hp⟩

end Props.C08
