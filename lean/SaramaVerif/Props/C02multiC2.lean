/-
  C02 composition, stage C: the VISIBLE `deliver` step of a CONNECTION-ERROR answer, lifted to the system step, and
  the assembly.
    * `proj_deliver_visible_conn_p` - the set holds something of `p`, the prepared answer is `.conn a`: the `deliver`
      step of the model with several partitions is the `deliver` step of the one-partition model, `WRel (BRp p)` kept.
    * `deliverVisConnProj_holds`, `deliverVisProj_holds`, `deliverProj_holds` - the named Props are PROVED.
    * `ProjSim_projOK`, `log_order_every_partition_projOK` - `ProjSim_partial` / `log_order_every_partition_partial`
      with NO open hypothesis (side condition `projOK` only).
-/
import SaramaVerif.Props.C02multiC

set_option linter.unusedSimpArgs false
set_option linter.unusedVariables false

namespace Props.C02sys
open Model Model.Pipeline Model.PipelineN Model.BrokerProd Lemmas.C02sys

/-- the same for any VISIBLE set (the one-partition worker has a set at its bridge), also one that is empty for `p` -/
theorem proj_deliver_visible_conn_j {M : Nat} {p : Int} {sN sN' : SysN} {s : Sys} {w : Nat} {still : Bool}
    {a : Bool} {base : Int → Nat} {sent : List Pipeline.Tok} {rest : List (List Pipeline.Tok)}
    (h : WRel (BRp p) p sN s) (hpd : (sN.wk w).pend = some (.conn a, base))
    (hsets : (sN.wk w).bp.sets = sent :: rest) (hj : (s.wk w).bp.sets ≠ [])
    (hs : sysStepN M sN (.deliver w still) = some sN') :
    ∃ s', sysStep M s (.deliver w still) = some s' ∧ WRel (BRp p) p sN' s' := by
  obtain ⟨hid, hb, hs1, hhid, hk0, hpend⟩ := h.br w
  cases hid with
  | true => exact absurd (by simpa using hs1) hj
  | false =>
    obtain ⟨a1, a2, a3, a4⟩ := brp_fields hb
    have hjs : (s.wk w).bp.sets = projL p sent :: rest.map (projL p) := by rw [hs1, hsets]; rfl
    have hjp : (s.wk w).pend = some (Pipeline.Verdict.conn a, base p) := by rw [hpend, hpd]; rfl
    obtain ⟨c0, c1, c2, c3, c4, c5, c6⟩ := resp_proj_conn M (sN.wk w).bp (s.wk w).bp sent rest (rest.map (projL p))
      still p hsets hjs a1 a2 a3 a4
    have hen : (step M (s.wk w).bp (.resp (.connErr [] []) still)).2 ≠ [Action.disabled] :=
      resp_enabled M _ _ still (by rw [hjs]; exact List.cons_ne_nil _ _)
    have hstep : sysStep M s (.deliver w still) = some (bpActs { s with wk := setW s.wk w ⟨(s.wk w).inq, (resp M (s.wk w).bp (.connErr [] []) still).1, none⟩ } (base p) (resp M (s.wk w).bp (.connErr [] []) still).2) := by
      simp only [sysStep, hjp, bpRun, Verdict.toResp]
      simp only [step] at hen ⊢
      simp only [hen, ↓reduceIte]
    have hout : (resp M (s.wk w).bp (.connErr [] []) still).2.filter isOut =
        ((resp M (sN.wk w).bp (.connErr [] []) still).2.filter (isOwn p)).map relabA := by
      have hP : P0 (projL p sent) := P0_projL p sent
      have hPb : P0 (s.wk w).bp.buffer := a3 ▸ P0_projL p _
      have hw0 : ∀ t', (s.wk w).bp.wait = some t' → t'.part = 0 := by
        intro t' ht'
        rw [a4] at ht'
        cases hwt : (sN.wk w).bp.wait with
        | none => rw [hwt] at ht'; cases ht'
        | some t0 =>
          rw [hwt] at ht'
          simp only [projWait] at ht'
          split at ht'
          · cases ht'; rfl
          · cases ht'
      rw [resp_P0_out_conn M (s.wk w).bp (projL p sent) (rest.map (projL p)) still hjs hP hPb hw0]
      exact c0
    simp only [sysStepN, hpd, bpRunN, RespN.toResp, step] at hs
    by_cases hdd : (resp M (sN.wk w).bp (.connErr [] []) still).2 = [Action.disabled]
    · simp [hdd] at hs
    · simp only [hdd, ↓reduceIte] at hs
      cases hs
      have hq0 : QRel p { sN with wk := setWN sN.wk w ⟨(sN.wk w).inq, (resp M (sN.wk w).bp (.connErr [] []) still).1, none⟩ } { s with wk := setW s.wk w ⟨(s.wk w).inq, (resp M (s.wk w).bp (.connErr [] []) still).1, none⟩ } :=
        ⟨h.q.next, h.q.dq, h.q.pq, h.q.pp, h.q.ret, h.q.ldr, h.q.log, h.q.succ, h.q.errs, h.q.pqp⟩
      obtain ⟨r1, r2, r3, r4, r5⟩ := bpActsN_mixed (resp M (sN.wk w).bp (.connErr [] []) still).2 base hq0
      rw [← hout, bpActs_filter_out] at r1 r4 r5
      refine ⟨_, hstep, r1, by rw [r5, r3]; exact h.cur, fun k => ?_, fun k => ?_⟩
      · rw [r2, r4]
        by_cases hk : k = w
        · subst hk; simp only [setW, setWN, if_true]; exact h.inq k
        · simp only [setW, setWN, hk, if_false]; exact h.inq k
      · rw [r2, r4]
        by_cases hk : k = w
        · subst hk
          simp only [setW, setWN, if_true]
          refine ⟨false, brp_mk _ _ c1 c2 c3 c4, by rw [c5, c6]; rfl, (fun e => by cases e), (fun _ => rfl), rfl⟩
        · simp only [setW, setWN, hk, if_false]; exact h.br k

theorem proj_deliver_visible_conn_p {M : Nat} {p : Int} {sN sN' : SysN} {s : Sys} {w : Nat} {still : Bool}
    {a : Bool} {base : Int → Nat} {sent : List Pipeline.Tok} {rest : List (List Pipeline.Tok)}
    (h : WRel (BRp p) p sN s) (hpd : (sN.wk w).pend = some (.conn a, base))
    (hsets : (sN.wk w).bp.sets = sent :: rest) (hne : projL p sent ≠ [])
    (hs : sysStepN M sN (.deliver w still) = some sN') :
    ∃ s', sysStep M s (.deliver w still) = some s' ∧ WRel (BRp p) p sN' s' := by
  have hj : (s.wk w).bp.sets ≠ [] := by
    obtain ⟨hid, _, hs1, hhid, _, _⟩ := h.br w
    cases hid with
    | true => exact absurd ((hhid rfl).2 sent (by rw [hsets]; simp)) hne
    | false => rw [hs1, hsets]; simp
  exact proj_deliver_visible_conn_j h hpd hsets hj hs

/-- the last single-step statement -/
theorem deliverVisConnProj_holds (M : Nat) (p : Int) : DeliverVisConnProj M p := by
  intro sN sN' s w st sent rest a base h hsets hne hpd hs
  obtain ⟨s', h1, h2⟩ := proj_deliver_visible_conn_p h hpd hsets hne hs
  exact Or.inr ⟨_, s', h1, h2⟩

theorem deliverVisProj_holds (M : Nat) (p : Int) : DeliverVisProj M p :=
  deliverVisProj_of_conn (deliverVisConnProj_holds M p)

/-- **the projection of the `deliver` step under `delOK`** - PROVED -/
theorem deliverProj_holds (M : Nat) (p : Int) : DeliverProj M p :=
  deliverProj_of_vis (deliverVisProj_holds M p)

/-- **ProjSim under the decidable side condition `projOK`, no open hypothesis** -/
theorem ProjSim_projOK {M : Nat} {p : Int} (cs : List ChoiceN) (sN : SysN)
    (hok : projOK M p {} cs = true) (hr : runN M {} cs = some sN) :
    ∃ (cs' : List Choice) (s : Sys), run M {} cs' = some s ∧ s.log = sN.log p ∧ s.succ = sN.succ p ∧
      s.errs = sN.errs p :=
  ProjSim_partial (deliverProj_holds M p) cs sN hok hr

/-- LogOrder for partition `p` of a run with several partitions under `projOK`, provided the exhibited one-partition
    run is inside the scope of `log_order_reselect` (`splitOKs`); no open hypothesis -/
theorem log_order_every_partition_projOK {M : Nat} (hM : 1 ≤ M) {p : Int}
    (cs : List ChoiceN) (sN : SysN) (hok : projOK M p {} cs = true) (hr : runN M {} cs = some sN) :
    ∃ (cs' : List Choice) (s : Sys), run M {} cs' = some s ∧ s.log = sN.log p ∧ s.succ = sN.succ p ∧
      (splitOKs M cs' = true → LogOrderOf (sN.log p) (sN.succ p)) :=
  log_order_every_partition_partial hM (deliverProj_holds M p) cs sN hok hr

/-! ### non-vacuity -/

example : ∃ (cs' : List Choice) (s : Sys), run 2 {} cs' = some s ∧
    (∃ sN, runN 2 {} exTwo = some sN ∧ s.log = sN.log 1 ∧ s.succ = sN.succ 1) := by
  cases hr : runN 2 {} exTwo with
  | none => exact absurd hr (by decide)
  | some sN =>
    obtain ⟨cs', s, h1, h2, h3, _⟩ := ProjSim_projOK (M := 2) (p := 1) exTwo sN (by decide) hr
    exact ⟨cs', s, h1, sN, rfl, h2, h3⟩

/-- a connection error for a set with messages of both partitions: both are re-queued, the worker is closing -/
def exConn : List ChoiceN :=
  [.submit 0, .submit 1, .dispatch, .dispatch, .ppRecv 0 [some 0], .ppRecv 1 [some 0],
   .bpRecv 0 false, .bpRecv 0 false, .bpRecv 0 false, .bpRecv 0 false, .handover 0,
   .broker 0 (.conn false), .deliver 0 false]

example : projOK 2 0 {} exConn = true ∧ projOK 2 1 {} exConn = true := by decide
example : (runN 2 {} exConn).map (fun s => (s.log 0, s.log 1)) = some ([], []) := by decide
example : (runN 2 {} exConn).map (fun s => s.ret.map (fun t => t.part)) = some [0, 1] := by decide
example : (runN 2 {} exConn).map (fun s => (s.wk 0).bp.closing) = some true := by decide
/-- `exConn` is outside `projOKp` (its answer is a connection error), inside `projOK` -/
example : projOKp 2 0 {} exConn = false := by decide

example : ∃ (cs' : List Choice) (s : Sys), run 2 {} cs' = some s ∧
    (∃ sN, runN 2 {} exConn = some sN ∧ s.log = sN.log 0 ∧ s.errs = sN.errs 0) := by
  cases hr : runN 2 {} exConn with
  | none => exact absurd hr (by decide)
  | some sN =>
    obtain ⟨cs', s, h1, h2, _, h4⟩ := ProjSim_projOK (M := 2) (p := 0) exConn sN (by decide) hr
    exact ⟨cs', s, h1, sN, rfl, h2, h4⟩

end Props.C02sys
