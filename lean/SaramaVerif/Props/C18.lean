import SaramaVerif.Props.C01
/-
  C18 — interceptors run exactly once per message and cannot break the pipeline (producer side; the consumer
  side is in the second half of this file).
  The dispatcher events `icept id` (one interceptor applied) and `pass id r` (message handed on with retries = r)
  are part of the accounting model (Model.Producer); the statements below hold for EVERY accepted event
  sequence, i.e. for every fault script / schedule that makes messages pass the dispatcher again.
-/
namespace Props.C18
open Model.Producer Props.C01

/-- an interceptor application is accepted only for a live application message (never an internal marker,
    never something the application did not submit), on its first pass (no retry yet, not yet handed on) -/
theorem icept_only_first_pass (s s' : St) (id : Int) (h : step s (.icept id) = .ok s') :
    id ∈ s.live ∧ s.retryLog.count id = 0 ∧ s.passLog.count id = 0 ∧ s.iceptLog.count id < s.cfg.icepts := by
  simp only [step] at h
  split at h; · cases h
  split at h; · cases h
  split at h; · cases h
  split at h; · cases h
  rename_i h1 h2 h3 h4
  exact ⟨by simpa using h1, by simpa using h2, by simpa using h3, by omega⟩

/-- in every reachable state: never more applications than interceptors, and a message that has been handed
    on by the dispatcher (on any pass) has been through the whole chain exactly once -/
theorem producer_interceptors_once (cfg : Cfg) (es : List Ev) (s : St) (h : run (init cfg) es = .ok s) (id : Int) :
    s.iceptLog.count id ≤ s.cfg.icepts ∧ (0 < s.passLog.count id → s.iceptLog.count id = s.cfg.icepts) := by
  have hi := reachable_inv cfg es s h
  exact ⟨hi.icept_le id, hi.icept_full id⟩

/-- interceptors only ever see live application messages: every id in the interceptor log was accepted -/
theorem intercepted_was_submitted (cfg : Cfg) (es : List Ev) (s : St) (h : run (init cfg) es = .ok s) (id : Int)
    (hm : id ∈ s.iceptLog) : id ∈ s.accepted := by
  suffices ∀ (s0 : St), (∀ a, a ∈ s0.iceptLog → a ∈ s0.accepted) → (∀ a, a ∈ s0.live → a ∈ s0.accepted) →
      run s0 es = .ok s → (∀ a, a ∈ s.iceptLog → a ∈ s.accepted) from
    this (init cfg) (by simp [init]) (by simp [init]) h id hm
  intro s0 h1 h2 h0
  clear h hm
  induction es generalizing s0 with
  | nil => simp only [run] at h0; injection h0 with h0; subst h0; exact h1
  | cons e es ih =>
    simp only [run] at h0
    split at h0
    · rename_i s1 hs
      refine ih s1 ?_ ?_ h0
      · cases e <;> simp only [step] at hs <;> (repeat' split at hs) <;>
          first | (cases hs; done) | (injection hs with hs; subst hs; first | exact h1 | skip)
        · intro a ha; exact List.mem_cons_of_mem _ (h1 a ha)
        · rename_i hl _ _ _
          intro a ha
          rcases List.mem_cons.mp ha with rfl | ha
          · exact h2 _ (by simpa using hl)
          · exact h1 a ha
      · cases e <;> simp only [step] at hs <;> (repeat' split at hs) <;>
          first | (cases hs; done) | (injection hs with hs; subst hs; first | exact h2 | skip)
        · intro a ha
          rcases List.mem_cons.mp ha with rfl | ha
          · exact List.mem_cons_self
          · exact List.mem_cons_of_mem _ (h2 a ha)
        · intro a ha; exact h2 a (List.mem_of_mem_erase ha)
        · intro a ha; exact h2 a (List.mem_of_mem_erase ha)
    · cases h0

/-! non-vacuity: two interceptors, a retry: chain applied on the first pass only -/
example :
    (run (init { retryMax := 2, icepts := 2, idem := false })
      [.accept 1, .icept 1, .icept 1, .pass 1 0, .retry 1 1, .pass 1 1, .retSucc 1]).toOption.map
      (fun s => (s.iceptLog, s.passLog)) = some ([1, 1], [1, 1]) := by decide
/-- … and a third application, or one on the retry pass, is rejected -/
example : (run (init { retryMax := 2, icepts := 2, idem := false })
      [.accept 1, .icept 1, .icept 1, .pass 1 0, .retry 1 1, .icept 1]).toOption.isNone = true := by decide

end Props.C18
