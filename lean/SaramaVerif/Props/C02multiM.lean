/-
  C02 composition, stage C, towards `DeliverVisProj`: the actions of a worker step with SEVERAL partitions, seen from
  `p`.  `bpActsN_mixed`: applying a list of actions to the state with several partitions is, for `p`, applying the
  (relabelled) outcome-bearing actions of `p` to the one-partition state, offsets from `off p`; the other actions do
  nothing to `p`.  (`bpActsN_own` / `bpActsN_foreign` are the two pure cases.)
-/
import SaramaVerif.Props.C02multiY

set_option linter.unusedSimpArgs false
set_option linter.unusedVariables false

namespace Props.C02sys
open Model Model.Pipeline Model.PipelineN Model.BrokerProd Lemmas.C02sys

/-- an outcome-bearing action of partition `p` -/
def isOwn (p : Int) : Action → Bool
  | .requeue _ q _ _ => q == p
  | .succ _ q => q == p
  | .expire _ q _ => q == p
  | .fail _ q => q == p
  | _ => false

theorem bpActsN_mixed {p : Int} (as : List Action) : ∀ {sN : SysN} {s : Sys} (off : Int → Nat), QRel p sN s →
    QRel p (bpActsN sN off as) (bpActs s (off p) ((as.filter (isOwn p)).map relabA)) ∧
    (bpActsN sN off as).wk = sN.wk ∧ (bpActsN sN off as).cur = sN.cur ∧
    (bpActs s (off p) ((as.filter (isOwn p)).map relabA)).wk = s.wk ∧
    (bpActs s (off p) ((as.filter (isOwn p)).map relabA)).cur = s.cur := by
  induction as with
  | nil => intro sN s off h; exact ⟨h, rfl, rfl, rfl, rfl⟩
  | cons a r ih =>
    intro sN s off h
    by_cases ho : isOwn p a = true
    · have hown : OwnActs p [a] := by
        intro x hx
        have : x = a := by simpa using hx
        subst this
        cases x <;> simp_all [isOwn]
      obtain ⟨q1, q2, q3, q4, q5⟩ := bpActsN_own [a] off h hown
      have hoff : (bpActN sN off a).2 p = (bpAct s (off p) (relabA a)).2 := by
        cases a <;> simp_all [isOwn, bpActN, bpAct, relabA, upd]
      simp only [bpActsN, bpActs, List.map_cons, List.map_nil] at q1 q2 q3 q4 q5
      obtain ⟨r1, r2, r3, r4, r5⟩ := ih (bpActN sN off a).2 q1
      simp only [List.filter_cons, ho, if_true, List.map_cons, bpActsN, bpActs]
      rw [hoff] at r1 r4 r5
      exact ⟨r1, r2.trans q2, r3.trans q3, r4.trans q4, r5.trans q5⟩
    · have hfor : ForeignActs p [a] := by
        intro x hx
        have : x = a := by simpa using hx
        subst this
        cases x <;> simp_all [isOwn] <;> (intro id q r; exact ⟨fun _ e _ _ => e ▸ ho, fun _ e _ _ => e ▸ ho⟩)
      obtain ⟨q1, q2, q3⟩ := bpActsN_foreign [a] off h hfor
      have hoff : (bpActN sN off a).2 p = off p := by
        cases a <;> simp_all [isOwn, bpActN, upd] <;> (intro e; exact ho e.symm)
      simp only [bpActsN] at q1 q2 q3
      obtain ⟨r1, r2, r3, r4, r5⟩ := ih (bpActN sN off a).2 q1
      simp only [List.filter_cons, ho, Bool.false_eq_true, if_false, bpActsN]
      rw [hoff] at r1 r4 r5
      exact ⟨r1, r2.trans q2, r3.trans q3, r4, r5⟩

/-- non-vacuity: an interleaving of outcomes of partitions 0 and 1, seen from partition 0 -/
example : ((([Action.succ 5 1, .succ 6 0, .requeue 7 1 1 false, .fail 8 0, .drop 1] : List Action).filter
    (isOwn 0)).map relabA) = [.succ 6 0, .fail 8 0] := by decide

end Props.C02sys
