import SaramaVerif.Model.BrokerProd
namespace Props.C02bp
open Model.BrokerProd

def ids (ts : List Tok) : List Int := ts.map (·.id)

/-- everything the worker holds: the set at the bridge, the buffer, the token held in waitForSpace -/
def inside (s : St) : List Tok := s.sets.flatten ++ s.buffer ++ s.wait.toList

/-! ### partition views of token lists -/

theorem onPart_append (p : Int) (a b : List Tok) : onPart p (a ++ b) = onPart p a ++ onPart p b := by
  simp [onPart]

theorem onPart_onPart (p q : Int) (l : List Tok) : onPart p (onPart q l) = if p = q then onPart p l else [] := by
  induction l with
  | nil => simp [onPart]
  | cons t ts ih =>
    simp only [onPart, List.filter_cons] at *
    by_cases h1 : t.part = q <;> by_cases h2 : t.part = p <;> by_cases h3 : p = q <;>
      simp_all [List.filter_cons]

theorem onPart_offPart (p q : Int) (l : List Tok) : onPart p (offPart q l) = if p = q then [] else onPart p l := by
  induction l with
  | nil => simp [onPart, offPart]
  | cons t ts ih =>
    simp only [onPart, offPart, List.filter_cons] at *
    by_cases h1 : t.part = q <;> by_cases h2 : t.part = p <;> by_cases h3 : p = q <;>
      simp_all [List.filter_cons]

theorem mem_parts_of_onPart (p : Int) (l : List Tok) (h : onPart p l ≠ []) : p ∈ partsOf l := by
  induction l with
  | nil => simp [onPart] at h
  | cons t ts ih =>
    simp only [partsOf, List.map_cons, List.mem_cons]
    by_cases h2 : t.part = p
    · exact Or.inl h2.symm
    · right
      apply ih
      simpa [onPart, List.filter_cons, h2] using h

theorem onPart_arrange (p : Int) (ps : List Int) (rem : List Tok) :
    onPart p (arrange ps rem) = if p ∈ ps then onPart p rem else [] := by
  induction ps generalizing rem with
  | nil => simp [arrange, onPart]
  | cons q ps ih =>
    simp only [arrange, onPart_append, onPart_onPart, ih, onPart_offPart, List.mem_cons]
    by_cases h : p = q
    · subst h; simp
    · simp [h]

/-- map iteration visits every partition of the set: the arranged list has the same partition parts -/
theorem onPart_arrange_all (p : Int) (o : List Int) (l : List Tok) :
    onPart p (arrange (o ++ partsOf l) l) = onPart p l := by
  rw [onPart_arrange]
  by_cases h : onPart p l = []
  · simp [h]
  · have := mem_parts_of_onPart p l h
    simp [this]

end Props.C02bp
