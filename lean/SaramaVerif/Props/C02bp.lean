import SaramaVerif.Model.BrokerProd
/-
  C02, lemma L2 of DESIGN.md Appendix D: "a broker worker bounces in order and goes quiet".

  Everything here is about `Model.BrokerProd.step`, the transducer model of one broker worker of the non-idempotent
  producer, and holds for EVERY input sequence (tokens, hand-overs to the bridge, responses with any verdicts, any
  map-iteration orders, any wouldOverflow answers), from the worker's initial state:

    bp_at_most_one_set_in_flight   at most one produce set between hand-over and response handling
    bp_partition_fifo              per partition: data tokens out (success / failure / bounce) ++ tokens inside = arrivals
    bp_conservation                per (id, partition): received = in set + in buffer + held + left; fins are never held
    bp_quiet_after_failure         from a failing response until the partition's fin / syn: nothing of it is added
    bp_quiet_while_refused         the same from any reachable state that refuses the partition
    bp_bounces_in_order            bounce sequence of the partition = set part, buffer part, held message, later arrivals
    bp_bounce_order_preserving     bounced data tokens of a partition are a subsequence of its arrivals
    bp_empty_set_needs_stale /     an empty produce set reaches the bridge only via the stale `output` variable, which
    bp_stale_origin                arises only when waitForSpace bounces its held message (defect of the pinned code)

  Tie to the Go code: Driver/ProducerTrace.lean (`BPW`) replays every broker worker of every scenario through the
  same `step` and compares its actions with the hook events of the real code.
-/
set_option linter.unusedSimpArgs false
set_option linter.unnecessarySimpa false
namespace Props.C02bp
open Model.BrokerProd

def ids (ts : List Tok) : List Int := ts.map (·.id)

/-- everything the worker holds: the set at the bridge, the buffer, the token held in waitForSpace -/
def inside (s : St) : List Tok := s.sets.flatten ++ s.buffer ++ s.wait.toList

/-! ### partition views of token lists -/

theorem onPart_append (p : Int) (a b : List Tok) : onPart p (a ++ b) = onPart p a ++ onPart p b := by
  simp [onPart]

theorem onPart_onPart (p q : Int) (l : List Tok) : onPart p (onPart q l) = if p = q then onPart p l else [] := by
  induction l with
  | nil => simp [onPart]
  | cons t ts ih =>
    simp only [onPart, List.filter_cons] at *
    by_cases h1 : t.part = q <;> by_cases h2 : t.part = p <;> by_cases h3 : p = q <;>
      simp_all [List.filter_cons]

theorem onPart_offPart (p q : Int) (l : List Tok) : onPart p (offPart q l) = if p = q then [] else onPart p l := by
  induction l with
  | nil => simp [onPart, offPart]
  | cons t ts ih =>
    simp only [onPart, offPart, List.filter_cons] at *
    by_cases h1 : t.part = q <;> by_cases h2 : t.part = p <;> by_cases h3 : p = q <;>
      simp_all [List.filter_cons]

theorem mem_parts_of_onPart (p : Int) (l : List Tok) (h : onPart p l ≠ []) : p ∈ partsOf l := by
  induction l with
  | nil => simp [onPart] at h
  | cons t ts ih =>
    simp only [partsOf, List.map_cons, List.mem_cons]
    by_cases h2 : t.part = p
    · exact Or.inl h2.symm
    · right
      apply ih
      simpa [onPart, List.filter_cons, h2] using h

theorem onPart_arrange (p : Int) (ps : List Int) (rem : List Tok) :
    onPart p (arrange ps rem) = if p ∈ ps then onPart p rem else [] := by
  induction ps generalizing rem with
  | nil => simp [arrange, onPart]
  | cons q ps ih =>
    simp only [arrange, onPart_append, onPart_onPart, ih, onPart_offPart, List.mem_cons]
    by_cases h : p = q
    · subst h; simp
    · simp [h]

/-- map iteration visits every partition of the set: the arranged list has the same partition parts -/
theorem onPart_arrange_all (p : Int) (o : List Int) (l : List Tok) :
    onPart p (arrange (o ++ partsOf l) l) = onPart p l := by
  rw [onPart_arrange]
  by_cases h : onPart p l = []
  · simp [h]
  · have := mem_parts_of_onPart p l h
    simp [this]

/-! ### views of action lists -/

/-- data tokens of partition `p` leaving the worker (success, failure, bounce), in order -/
def outD (p : Int) : Action → Option Int
  | .requeue i q _ false => if q = p then some i else none
  | .expire i q false => if q = p then some i else none
  | .succ i q => if q = p then some i else none
  | .fail i q => if q = p then some i else none
  | _ => none

def outData (p : Int) (as : List Action) : List Int := as.filterMap (outD p)

/-- every token of partition `p` handed to retryMessage (re-queued, or failed because the budget is spent), fin
    chasers included, in order -/
def bnc (p : Int) : Action → Option Int
  | .requeue i q _ _ => if q = p then some i else none
  | .expire i q _ => if q = p then some i else none
  | _ => none

def bounces (p : Int) (as : List Action) : List Int := as.filterMap (bnc p)

/-- tokens of partition `p` appended to the buffer -/
def addD (p : Int) : Action → Option Int
  | .add i q => if q = p then some i else none
  | _ => none

def adds (p : Int) (as : List Action) : List Int := as.filterMap (addD p)

theorem outData_append (p : Int) (a b : List Action) : outData p (a ++ b) = outData p a ++ outData p b := by
  simp [outData, List.filterMap_append]
theorem bounces_append (p : Int) (a b : List Action) : bounces p (a ++ b) = bounces p a ++ bounces p b := by
  simp [bounces, List.filterMap_append]
theorem adds_append (p : Int) (a b : List Action) : adds p (a ++ b) = adds p a ++ adds p b := by
  simp [adds, List.filterMap_append]

theorem isFin_of_data (t : Tok) (h : t.kind = .data) : t.isFin = false := by simp [Tok.isFin, h]

theorem outData_retry (max : Nat) (p : Int) (ts : List Tok) (h : ∀ t ∈ ts, t.kind = .data) :
    outData p (retryMsgs max ts) = ids (onPart p ts) := by
  induction ts with
  | nil => rfl
  | cons t ts ih =>
    have ht := isFin_of_data t (h t (by simp))
    have := ih (fun x hx => h x (by simp [hx]))
    simp only [outData, retryMsgs, ids, onPart, List.map_cons, List.filterMap_cons, List.filter_cons] at *
    by_cases h1 : t.retries ≥ max <;> by_cases h2 : t.part = p <;> simp [retryMsg, h1, h2, ht, outD, this]

theorem bounces_retry (max : Nat) (p : Int) (ts : List Tok) :
    bounces p (retryMsgs max ts) = ids (onPart p ts) := by
  induction ts with
  | nil => rfl
  | cons t ts ih =>
    simp only [bounces, retryMsgs, ids, onPart, List.map_cons, List.filterMap_cons, List.filter_cons] at *
    by_cases h1 : t.retries ≥ max <;> by_cases h2 : t.part = p <;> simp [retryMsg, h1, h2, bnc, ih]

theorem adds_retry (max : Nat) (p : Int) (ts : List Tok) : adds p (retryMsgs max ts) = [] := by
  induction ts with
  | nil => rfl
  | cons t ts ih =>
    simp only [adds, retryMsgs, List.map_cons, List.filterMap_cons] at *
    by_cases h1 : t.retries ≥ max <;> simp [retryMsg, h1, addD, ih]

theorem outData_succ (p : Int) (ts : List Tok) :
    outData p (ts.map (fun t => Action.succ t.id t.part)) = ids (onPart p ts) := by
  induction ts with
  | nil => rfl
  | cons t ts ih =>
    simp only [outData, ids, onPart, List.map_cons, List.filterMap_cons, List.filter_cons] at *
    by_cases h2 : t.part = p <;> simp [h2, outD, ih]

theorem outData_fail (p : Int) (ts : List Tok) :
    outData p (ts.map (fun t => Action.fail t.id t.part)) = ids (onPart p ts) := by
  induction ts with
  | nil => rfl
  | cons t ts ih =>
    simp only [outData, ids, onPart, List.map_cons, List.filterMap_cons, List.filter_cons] at *
    by_cases h2 : t.part = p <;> simp [h2, outD, ih]

theorem bounces_succ (p : Int) (ts : List Tok) : bounces p (ts.map (fun t => Action.succ t.id t.part)) = [] := by
  induction ts with
  | nil => rfl
  | cons t ts ih => simpa [bounces, bnc] using ih
theorem bounces_fail (p : Int) (ts : List Tok) : bounces p (ts.map (fun t => Action.fail t.id t.part)) = [] := by
  induction ts with
  | nil => rfl
  | cons t ts ih => simpa [bounces, bnc] using ih
theorem adds_succ (p : Int) (ts : List Tok) : adds p (ts.map (fun t => Action.succ t.id t.part)) = [] := by
  induction ts with
  | nil => rfl
  | cons t ts ih => simpa [adds, addD] using ih
theorem adds_fail (p : Int) (ts : List Tok) : adds p (ts.map (fun t => Action.fail t.id t.part)) = [] := by
  induction ts with
  | nil => rfl
  | cons t ts ih => simpa [adds, addD] using ih

/-- a partition whose verdict leaves its messages to the second pass of handleSuccess -/
def stays (max : Nat) (vd : Verdict) : Prop := 0 < max ∧ vd = .retriable

instance (max : Nat) (vd : Verdict) : Decidable (stays max vd) := by unfold stays; infer_instance

theorem outData_verdictActs (max : Nat) (p : Int) (vd : Verdict) (ts : List Tok) :
    outData p (verdictActs max vd ts) = if stays max vd then [] else ids (onPart p ts) := by
  unfold verdictActs stays
  by_cases he : ts.isEmpty
  · have : ts = [] := by simpa using he
    subst this; simp [outData, ids, onPart]
  · simp only [he, Bool.false_eq_true, ↓reduceIte]
    cases vd <;> by_cases hm : max = 0 <;>
      simp [hm, outData_append, outData_succ, outData_fail, Nat.pos_iff_ne_zero] <;>
      simp [outData, outD, outData_fail] <;> exact outData_fail p ts

theorem bounces_verdictActs (max : Nat) (p : Int) (vd : Verdict) (ts : List Tok) :
    bounces p (verdictActs max vd ts) = [] := by
  unfold verdictActs
  by_cases he : ts.isEmpty
  · simp [he, bounces]
  · simp only [he, Bool.false_eq_true, ↓reduceIte]
    cases vd <;> by_cases hm : max = 0 <;>
      simp [hm, bounces_append, bounces_succ, bounces_fail] <;>
      simp [bounces, bnc] <;> exact bounces_fail p ts

theorem adds_verdictActs (max : Nat) (p : Int) (vd : Verdict) (ts : List Tok) :
    adds p (verdictActs max vd ts) = [] := by
  unfold verdictActs
  by_cases he : ts.isEmpty
  · simp [he, adds]
  · simp only [he, Bool.false_eq_true, ↓reduceIte]
    cases vd <;> by_cases hm : max = 0 <;>
      simp [hm, adds_append, adds_succ, adds_fail] <;>
      simp [adds, addD] <;> exact adds_fail p ts

/-! ### the two passes of handleSuccess, seen from one partition -/

theorem outData_loop1 (max : Nat) (v : Int → Verdict) (p : Int) (ps : List Int) (rem : List Tok) :
    outData p (loop1 max v ps rem) = if p ∈ ps ∧ ¬ stays max (v p) then ids (onPart p rem) else [] := by
  induction ps generalizing rem with
  | nil => simp [loop1, outData]
  | cons q ps ih =>
    simp only [loop1, outData_append, outData_verdictActs, ih, onPart_onPart, onPart_offPart, List.mem_cons]
    by_cases h : p = q
    · subst h
      by_cases hs : stays max (v p) <;> simp [hs, ids]
    · by_cases hs : stays max (v q) <;> simp [hs, h, ids]

theorem bounces_loop1 (max : Nat) (v : Int → Verdict) (p : Int) (ps : List Int) (rem : List Tok) :
    bounces p (loop1 max v ps rem) = [] := by
  induction ps generalizing rem with
  | nil => simp [loop1, bounces]
  | cons q ps ih => simp [loop1, bounces_append, bounces_verdictActs, ih]

theorem adds_loop1 (max : Nat) (v : Int → Verdict) (p : Int) (ps : List Int) (rem : List Tok) :
    adds p (loop1 max v ps rem) = [] := by
  induction ps generalizing rem with
  | nil => simp [loop1, adds]
  | cons q ps ih => simp [loop1, adds_append, adds_verdictActs, ih]

/-- partition `p` is bounced by the second pass -/
def hit (v : Int → Verdict) (p : Int) (ps : List Int) (rem : List Tok) : Prop :=
  p ∈ ps ∧ onPart p rem ≠ [] ∧ v p = .retriable

instance (v : Int → Verdict) (p : Int) (ps : List Int) (rem : List Tok) : Decidable (hit v p ps rem) := by
  unfold hit; infer_instance

theorem hit_cons_self_skip (v : Int → Verdict) (p : Int) (ps : List Int) (rem : List Tok)
    (g : (onPart p rem).isEmpty = true ∨ v p ≠ .retriable) :
    ¬ hit v p (p :: ps) rem ∧ ¬ hit v p ps (offPart p rem) := by
  constructor
  · rintro ⟨_, h2, h3⟩
    rcases g with g | g
    · exact h2 (by simpa using g)
    · exact g h3
  · rintro ⟨_, h2, _⟩
    exact h2 (by simp [onPart_offPart])

theorem hit_cons_other (v : Int → Verdict) (p q : Int) (ps : List Int) (rem : List Tok) (h : p ≠ q) :
    hit v p (q :: ps) rem ↔ hit v p ps (offPart q rem) := by
  simp [hit, onPart_offPart, h]

/-- the second pass: fields it does not touch -/
theorem loop2_frame (max : Nat) (v : Int → Verdict) (ps : List Int) (rem : List Tok) (s : St) :
    (loop2 max v ps rem s).1.sets = s.sets ∧ (loop2 max v ps rem s).1.wait = s.wait ∧
    (loop2 max v ps rem s).1.closing = s.closing ∧ (loop2 max v ps rem s).1.stale = s.stale ∧
    (∀ t ∈ (loop2 max v ps rem s).1.buffer, t ∈ s.buffer) := by
  induction ps generalizing rem s with
  | nil => simp [loop2]
  | cons q ps ih =>
    unfold loop2
    by_cases g : (onPart q rem).isEmpty = true ∨ v q ≠ .retriable
    · simp only [g, ↓reduceIte]; exact ih _ _
    · simp only [g, ↓reduceIte]
      obtain ⟨a, b, c, d, e⟩ := ih (offPart q rem) { s with cr := setCr s.cr q true, buffer := offPart q s.buffer }
      refine ⟨a, b, c, d, ?_⟩
      intro t ht
      have := e t ht
      simp only [offPart, List.mem_filter] at this
      exact this.1

theorem bounces_drop (p q : Int) (l : List Action) : bounces p (Action.drop q :: l) = bounces p l := by
  simp only [bounces]; rw [List.filterMap_cons]; rfl
theorem adds_drop (p q : Int) (l : List Action) : adds p (Action.drop q :: l) = adds p l := by
  simp only [adds]; rw [List.filterMap_cons]; rfl
theorem outData_drop (p q : Int) (l : List Action) : outData p (Action.drop q :: l) = outData p l := by
  simp only [outData]; rw [List.filterMap_cons]; rfl

/-- the second pass, seen from partition `p` -/
theorem loop2_part (max : Nat) (v : Int → Verdict) (p : Int) (ps : List Int) (rem : List Tok) (s : St) :
    onPart p (loop2 max v ps rem s).1.buffer = (if hit v p ps rem then [] else onPart p s.buffer) ∧
    (loop2 max v ps rem s).1.cr p = (s.cr p || decide (hit v p ps rem)) ∧
    bounces p (loop2 max v ps rem s).2 = (if hit v p ps rem then ids (onPart p rem) ++ ids (onPart p s.buffer) else []) ∧
    adds p (loop2 max v ps rem s).2 = [] := by
  induction ps generalizing rem s with
  | nil => simp [loop2, hit, bounces, adds]
  | cons q ps ih =>
    unfold loop2
    by_cases g : (onPart q rem).isEmpty = true ∨ v q ≠ .retriable
    · simp only [g, ↓reduceIte]
      obtain ⟨i1, i2, i3, i4⟩ := ih (offPart q rem) s
      by_cases h : p = q
      · subst h
        obtain ⟨n1, n2⟩ := hit_cons_self_skip v p ps rem g
        simp only [n1, n2, ↓reduceIte, decide_false, Bool.or_false] at *
        exact ⟨i1, i2, i3, i4⟩
      · have e := hit_cons_other v p q ps rem h
        simp only [e]
        simp only [onPart_offPart, h, ↓reduceIte] at i3
        exact ⟨i1, i2, i3, i4⟩
    · simp only [g, ↓reduceIte]
      obtain ⟨i1, i2, i3, i4⟩ := ih (offPart q rem) { s with cr := setCr s.cr q true, buffer := offPart q s.buffer }
      have g1 : onPart q rem ≠ [] := by
        intro hh; apply g; left; simp [hh]
      have g2 : v q = .retriable := by
        by_cases hv : v q = .retriable
        · exact hv
        · exact absurd (Or.inr hv) g
      simp only [bounces_append, bounces_drop, bounces_retry, adds_append, adds_drop, adds_retry, onPart_onPart,
        onPart_offPart, i1, i2, i3, i4, List.append_nil]
      by_cases h : p = q
      · subst h
        have n2 : ¬ hit v p ps (offPart p rem) := by
          rintro ⟨_, h2, _⟩; exact h2 (by simp [onPart_offPart])
        have n1 : hit v p (p :: ps) rem := ⟨by simp, g1, g2⟩
        simp [n1, n2, setCr]
      · have e := hit_cons_other v p q ps rem h
        simp only [e]
        by_cases hh : hit v p ps (offPart q rem) <;> simp [h, hh, setCr, ids]

theorem mem_onPart {p : Int} {l : List Tok} {t : Tok} (h : t ∈ onPart p l) : t ∈ l := by
  simp only [onPart, List.mem_filter] at h; exact h.1
theorem mem_offPart {p : Int} {l : List Tok} {t : Tok} (h : t ∈ offPart p l) : t ∈ l := by
  simp only [offPart, List.mem_filter] at h; exact h.1

theorem outData_loop2 (max : Nat) (v : Int → Verdict) (p : Int) (ps : List Int) (rem : List Tok) (s : St)
    (hr : ∀ t ∈ rem, t.kind = .data) (hb : ∀ t ∈ s.buffer, t.kind = .data) :
    outData p (loop2 max v ps rem s).2 = (if hit v p ps rem then ids (onPart p rem) ++ ids (onPart p s.buffer) else []) := by
  induction ps generalizing rem s with
  | nil => simp [loop2, hit, outData]
  | cons q ps ih =>
    unfold loop2
    by_cases g : (onPart q rem).isEmpty = true ∨ v q ≠ .retriable
    · simp only [g, ↓reduceIte]
      have i3 := ih (offPart q rem) s (fun t ht => hr t (mem_offPart ht)) hb
      by_cases h : p = q
      · subst h
        obtain ⟨n1, n2⟩ := hit_cons_self_skip v p ps rem g
        simp only [n1, n2, ↓reduceIte] at *
        exact i3
      · have e := hit_cons_other v p q ps rem h
        simp only [e]
        simp only [onPart_offPart, h, ↓reduceIte] at i3
        exact i3
    · simp only [g, ↓reduceIte]
      have i3 := ih (offPart q rem) { s with cr := setCr s.cr q true, buffer := offPart q s.buffer }
        (fun t ht => hr t (mem_offPart ht)) (fun t ht => hb t (mem_offPart ht))
      have g1 : onPart q rem ≠ [] := by
        intro hh; apply g; left; simp [hh]
      have g2 : v q = .retriable := by
        by_cases hv : v q = .retriable
        · exact hv
        · exact absurd (Or.inr hv) g
      rw [outData_append, outData_append, outData_drop,
        outData_retry max p _ (fun t ht => hr t (mem_onPart ht)),
        outData_retry max p _ (fun t ht => hb t (mem_onPart ht)), i3]
      simp only [onPart_onPart, onPart_offPart]
      by_cases h : p = q
      · subst h
        have n2 : ¬ hit v p ps (offPart p rem) := by
          rintro ⟨_, h2, _⟩; exact h2 (by simp [onPart_offPart])
        have n1 : hit v p (p :: ps) rem := ⟨by simp, g1, g2⟩
        simp [n1, n2]
      · have e := hit_cons_other v p q ps rem h
        simp only [e]
        by_cases hh : hit v p ps (offPart q rem) <;> simp [h, hh, ids]

/-! ### handleResponse for one set -/

theorem hit_all (v : Int → Verdict) (p : Int) (o : List Int) (sent : List Tok) :
    hit v p (o ++ partsOf sent) sent ↔ onPart p sent ≠ [] ∧ v p = .retriable := by
  unfold hit
  constructor
  · rintro ⟨_, a, b⟩; exact ⟨a, b⟩
  · rintro ⟨a, b⟩; exact ⟨by simp [mem_parts_of_onPart p sent a], a, b⟩

theorem retryTopics_iff (max : Nat) (v : Int → Verdict) (sent : List Tok) :
    retryTopics max v sent = true ↔ 0 < max ∧ ∃ t ∈ sent, v t.part = .retriable := by
  simp [retryTopics]

theorem exists_of_onPart_ne {p : Int} {l : List Tok} (h : onPart p l ≠ []) : ∃ t ∈ l, t.part = p := by
  cases hl : onPart p l with
  | nil => exact absurd hl h
  | cons t ts =>
    have : t ∈ onPart p l := by rw [hl]; simp
    simp only [onPart, List.mem_filter, beq_iff_eq] at this
    exact ⟨t, this.1, this.2⟩

/-- the response fails partition `p`: its messages are to be retried -/
def failsFor (max : Nat) (p : Int) (sent : List Tok) : Resp → Prop
  | .verdicts v _ _ => 0 < max ∧ v p = .retriable ∧ onPart p sent ≠ []
  | .encErr _ => False
  | .connErr _ _ => True

instance (max : Nat) (p : Int) (sent : List Tok) (r : Resp) : Decidable (failsFor max p sent r) := by
  cases r <;> unfold failsFor <;> infer_instance

theorem handle_frame (max : Nat) (s : St) (sent : List Tok) (r : Resp) :
    (handle max s sent r).1.sets = s.sets ∧ (handle max s sent r).1.wait = s.wait ∧
    (∀ t ∈ (handle max s sent r).1.buffer, t ∈ s.buffer) := by
  cases r with
  | verdicts v o1 o2 =>
    unfold handle
    by_cases h : retryTopics max v sent = true
    · simp only [h, ↓reduceIte]
      obtain ⟨a, b, _, _, e⟩ := loop2_frame max v (o2 ++ partsOf sent) sent s
      exact ⟨a, b, e⟩
    · simp [h]
  | encErr o => simp [handle]
  | connErr o1 o2 => simp [handle]

theorem handle_stale (max : Nat) (s : St) (sent : List Tok) (r : Resp) : (handle max s sent r).1.stale = s.stale := by
  cases r with
  | verdicts v o1 o2 =>
    unfold handle
    by_cases h : retryTopics max v sent = true
    · simp only [h, ↓reduceIte]
      exact (loop2_frame max v (o2 ++ partsOf sent) sent s).2.2.2.1
    · simp [h]
  | encErr o => simp [handle]
  | connErr o1 o2 => simp [handle]

/-- per partition: what leaves, followed by what stays in the buffer, is the set followed by the old buffer -/
theorem handle_fifo (max : Nat) (s : St) (sent : List Tok) (r : Resp) (p : Int)
    (hd1 : ∀ t ∈ sent, t.kind = .data) (hd2 : ∀ t ∈ s.buffer, t.kind = .data) :
    outData p (handle max s sent r).2 ++ ids (onPart p (handle max s sent r).1.buffer) =
      ids (onPart p sent) ++ ids (onPart p s.buffer) := by
  cases r with
  | verdicts v o1 o2 =>
    unfold handle
    by_cases h : retryTopics max v sent = true
    · simp only [h, ↓reduceIte]
      obtain ⟨hm, _⟩ := (retryTopics_iff max v sent).1 h
      obtain ⟨b1, _, _, _⟩ := loop2_part max v p (o2 ++ partsOf sent) sent s
      rw [outData_append, outData_loop1, outData_loop2 max v p _ sent s hd1 hd2, b1]
      by_cases he : onPart p sent = []
      · have nh : ¬ hit v p (o2 ++ partsOf sent) sent := by rw [hit_all]; exact fun x => x.1 he
        simp [he, nh, ids]
      · have hp : p ∈ o1 ++ partsOf sent := by simp [mem_parts_of_onPart p sent he]
        by_cases hv : v p = .retriable
        · have hh : hit v p (o2 ++ partsOf sent) sent := (hit_all v p o2 sent).2 ⟨he, hv⟩
          have st : stays max (v p) := ⟨hm, hv⟩
          simp [hh, st, hp, ids]
        · have nh : ¬ hit v p (o2 ++ partsOf sent) sent := by rw [hit_all]; exact fun x => hv x.2
          have st : ¬ stays max (v p) := fun x => hv x.2
          simp [nh, st, hp, ids]
    · simp only [h, Bool.false_eq_true, ↓reduceIte]
      rw [outData_loop1]
      by_cases he : onPart p sent = []
      · simp [he, ids]
      · have hp : p ∈ o1 ++ partsOf sent := by simp [mem_parts_of_onPart p sent he]
        have st : ¬ stays max (v p) := by
          rintro ⟨hm, hv⟩
          obtain ⟨t, ht, htp⟩ := exists_of_onPart_ne he
          exact h ((retryTopics_iff max v sent).2 ⟨hm, t, ht, by rw [htp]; exact hv⟩)
        simp [st, hp]
  | encErr o =>
    simp only [handle]
    rw [show (List.map (fun t => Action.fail t.id t.part) (arrange (o ++ partsOf sent) sent)) =
      (arrange (o ++ partsOf sent) sent).map (fun t => Action.fail t.id t.part) from rfl, outData_fail, onPart_arrange_all]
  | connErr o1 o2 =>
    simp only [handle]
    have a1 : ∀ t ∈ arrange (o1 ++ partsOf sent) sent, t.kind = .data := by
      intro t ht
      have : t ∈ onPart t.part (arrange (o1 ++ partsOf sent) sent) := by simp [onPart, ht]
      rw [onPart_arrange_all] at this
      exact hd1 t (mem_onPart this)
    have a2 : ∀ t ∈ arrange (o2 ++ partsOf s.buffer) s.buffer, t.kind = .data := by
      intro t ht
      have : t ∈ onPart t.part (arrange (o2 ++ partsOf s.buffer) s.buffer) := by simp [onPart, ht]
      rw [onPart_arrange_all] at this
      exact hd2 t (mem_onPart this)
    have : outData p (Action.closing :: Action.abandon :: retryMsgs max (arrange (o1 ++ partsOf sent) sent) ++
        retryMsgs max (arrange (o2 ++ partsOf s.buffer) s.buffer)) =
        outData p (retryMsgs max (arrange (o1 ++ partsOf sent) sent)) ++
        outData p (retryMsgs max (arrange (o2 ++ partsOf s.buffer) s.buffer)) := by
      simp [outData, outD, List.filterMap_cons, List.filterMap_append]
    rw [this, outData_retry max p _ a1, outData_retry max p _ a2, onPart_arrange_all, onPart_arrange_all]
    simp [onPart, ids]

theorem failsFor_verdicts_iff (max : Nat) (v : Int → Verdict) (o1 o2 o : List Int) (p : Int) (sent : List Tok) :
    failsFor max p sent (.verdicts v o1 o2) ↔ (retryTopics max v sent = true ∧ hit v p (o ++ partsOf sent) sent) := by
  rw [hit_all, retryTopics_iff]
  unfold failsFor
  constructor
  · rintro ⟨a, b, c⟩
    obtain ⟨t, ht, htp⟩ := exists_of_onPart_ne c
    exact ⟨⟨a, t, ht, by rw [htp]; exact b⟩, c, b⟩
  · rintro ⟨⟨a, _⟩, c, b⟩; exact ⟨a, b, c⟩

/-- which partitions the worker refuses afterwards, what it bounces, and that it adds nothing -/
theorem handle_needs (max : Nat) (s : St) (sent : List Tok) (r : Resp) (p : Int) :
    (needsRetry (handle max s sent r).1 p = (needsRetry s p || decide (failsFor max p sent r))) ∧
    (failsFor max p sent r → onPart p (handle max s sent r).1.buffer = []) ∧
    bounces p (handle max s sent r).2 =
      (if failsFor max p sent r then ids (onPart p sent) ++ ids (onPart p s.buffer) else []) ∧
    adds p (handle max s sent r).2 = [] := by
  cases r with
  | verdicts v o1 o2 =>
    have fe := failsFor_verdicts_iff max v o1 o2 o2 p sent
    unfold handle
    by_cases h : retryTopics max v sent = true
    · simp only [h, ↓reduceIte, true_and] at fe ⊢
      obtain ⟨b1, b2, b3, b4⟩ := loop2_part max v p (o2 ++ partsOf sent) sent s
      obtain ⟨_, _, c, _, _⟩ := loop2_frame max v (o2 ++ partsOf sent) sent s
      refine ⟨?_, ?_, ?_, ?_⟩
      · simp only [needsRetry, c, b2, Bool.or_assoc]
        congr 2
        exact decide_eq_decide.2 fe.symm
      · intro hf; rw [b1]; simp [fe.1 hf]
      · rw [bounces_append, bounces_loop1, b3]
        by_cases hh : hit v p (o2 ++ partsOf sent) sent
        · simp [hh, fe.2 hh]
        · have : ¬ failsFor max p sent (.verdicts v o1 o2) := fun x => hh (fe.1 x)
          simp [hh, this]
      · rw [adds_append, adds_loop1, b4]; rfl
    · have nf : ¬ failsFor max p sent (.verdicts v o1 o2) := fun x => h (fe.1 x).1
      simp only [h, Bool.false_eq_true, ↓reduceIte, nf, decide_false, Bool.or_false, false_implies,
        bounces_loop1, adds_loop1, and_self]
  | encErr o =>
    simp only [handle, failsFor, false_implies, ↓reduceIte, true_and]
    refine ⟨?_, bounces_fail p _, adds_fail p _⟩
    rw [decide_eq_false (fun h => h)]; simp
  | connErr o1 o2 =>
    simp only [handle, failsFor, ↓reduceIte, true_implies]
    refine ⟨by rw [decide_eq_true trivial]; simp [needsRetry], by simp [onPart], ?_, ?_⟩
    · have : bounces p (Action.closing :: Action.abandon :: retryMsgs max (arrange (o1 ++ partsOf sent) sent) ++
          retryMsgs max (arrange (o2 ++ partsOf s.buffer) s.buffer)) =
          bounces p (retryMsgs max (arrange (o1 ++ partsOf sent) sent)) ++
          bounces p (retryMsgs max (arrange (o2 ++ partsOf s.buffer) s.buffer)) := by
        simp [bounces, bnc, List.filterMap_cons, List.filterMap_append]
      rw [this, bounces_retry, bounces_retry, onPart_arrange_all, onPart_arrange_all]
    · have : adds p (Action.closing :: Action.abandon :: retryMsgs max (arrange (o1 ++ partsOf sent) sent) ++
          retryMsgs max (arrange (o2 ++ partsOf s.buffer) s.buffer)) =
          adds p (retryMsgs max (arrange (o1 ++ partsOf sent) sent)) ++
          adds p (retryMsgs max (arrange (o2 ++ partsOf s.buffer) s.buffer)) := by
        simp [adds, addD, List.filterMap_cons, List.filterMap_append]
      rw [this, adds_retry, adds_retry]; rfl

/-! ### the invariant and the per-partition FIFO step -/

structure PInv (s : St) : Prop where
  one : s.sets.length ≤ 1
  data : ∀ t ∈ inside s, t.kind = .data
  quiet : ∀ p, needsRetry s p = true → onPart p (inside s) = []

theorem init_inv : PInv {} := ⟨by simp, by simp [inside], by simp [needsRetry]⟩

/-- the data tokens of partition `p` a step takes in -/
def dataArrived (p : Int) (s : St) (i : In) : List Tok := onPart p ((arrived s i).filter (fun t => !t.isFin))

theorem kind_data_of {t : Tok} (h1 : t.kind ≠ .syn) (h2 : t.kind ≠ .fin) : t.kind = .data := by
  cases h : t.kind <;> simp_all

theorem isFin_of_fin {t : Tok} (h : t.kind = .fin) : t.isFin = true := by simp [Tok.isFin, h]

theorem outData_bounce1 (max : Nat) (p : Int) (t : Tok) :
    outData p [.refuse t.id, retryMsg max t] = if t.part = p ∧ t.isFin = false then [t.id] else [] := by
  cases hf : t.isFin <;> by_cases hr : t.retries ≥ max <;> by_cases hp : t.part = p <;>
    simp [outData, outD, retryMsg, hf, hr, hp, List.filterMap_cons]

theorem bounces_bounce1 (max : Nat) (p : Int) (t : Tok) :
    bounces p [.refuse t.id, retryMsg max t] = if t.part = p then [t.id] else [] := by
  by_cases hr : t.retries ≥ max <;> by_cases hp : t.part = p <;>
    simp [bounces, bnc, retryMsg, hr, hp, List.filterMap_cons]

theorem onPart_single (p : Int) (t : Tok) : onPart p [t] = if t.part = p then [t] else [] := by
  by_cases hp : t.part = p <;> simp [onPart, hp]

theorem recv_fifo (max : Nat) (s : St) (t : Tok) (ov : Bool) (p : Int) (h : PInv s) :
    outData p (recv max s t ov).2 ++ ids (onPart p (inside (recv max s t ov).1)) =
      ids (onPart p (inside s)) ++ ids (dataArrived p s (.recv t ov)) := by
  unfold recv dataArrived arrived
  by_cases hw : s.wait.isSome = true
  · simp [hw, outData, outD, onPart, ids]
  · simp only [hw, Bool.false_eq_true, ↓reduceIte]
    have hwn : s.wait = none := by simpa using hw
    by_cases hs : t.kind = .syn
    · simp [hs, outData, outD, inside, onPart, ids]
    · simp only [hs, ↓reduceIte]
      by_cases hn : needsRetry s t.part = true
      · simp only [hn, ↓reduceIte, outData_bounce1]
        have hin : ∀ s' : St, s'.sets = s.sets → s'.buffer = s.buffer → s'.wait = s.wait → inside s' = inside s := by
          intro s' a b c; simp [inside, a, b, c]
        have e : inside (if (!s.closing && decide (t.kind = Kind.fin)) = true then
            { s with cr := setCr s.cr t.part false } else s) = inside s := by
          split <;> simp [inside]
        rw [e]
        by_cases hp : t.part = p
        · have q := h.quiet p (by rw [← hp]; exact hn)
          rw [q]
          cases hf : t.isFin <;> simp [hp, hf, onPart, ids]
        · simp [hp, onPart, ids]
      · simp only [hn, Bool.false_eq_true, ↓reduceIte]
        by_cases hf : t.kind = .fin
        · simp [hf, outData_bounce1, isFin_of_fin hf, onPart, ids]
        · simp only [hf, ↓reduceIte]
          have hd := kind_data_of hs hf
          have hnf : t.isFin = false := isFin_of_data t hd
          cases ov
          · simp [inside, hwn, onPart_append, hnf, outData, outD, ids, onPart_single]
          · simp [inside, hwn, onPart_append, hnf, outData, ids, onPart_single]

theorem recv_inv (max : Nat) (s : St) (t : Tok) (ov : Bool) (h : PInv s) : PInv (recv max s t ov).1 := by
  unfold recv
  by_cases hw : s.wait.isSome = true
  · simpa [hw] using h
  · simp only [hw, Bool.false_eq_true, ↓reduceIte]
    have hwn : s.wait = none := by simpa using hw
    by_cases hs : t.kind = .syn
    · simp only [hs, ↓reduceIte]
      refine ⟨h.one, h.data, ?_⟩
      intro p hp
      apply h.quiet p
      simp only [needsRetry, setCr, Bool.or_eq_true] at hp ⊢
      rcases hp with hp | hp
      · exact Or.inl hp
      · by_cases e : p = t.part
        · simp [e] at hp
        · simp only [e, ↓reduceIte] at hp; exact Or.inr hp
    · simp only [hs, ↓reduceIte]
      by_cases hn : needsRetry s t.part = true
      · simp only [hn, ↓reduceIte]
        split
        · refine ⟨h.one, h.data, ?_⟩
          intro p hp
          apply h.quiet p
          simp only [needsRetry, setCr, Bool.or_eq_true] at hp ⊢
          rcases hp with hp | hp
          · exact Or.inl hp
          · by_cases e : p = t.part
            · simp [e] at hp
            · simp only [e, ↓reduceIte] at hp; exact Or.inr hp
        · exact h
      · simp only [hn, Bool.false_eq_true, ↓reduceIte]
        by_cases hf : t.kind = .fin
        · simpa [hf] using h
        · simp only [hf, ↓reduceIte]
          have hd := kind_data_of hs hf
          have key : ∀ s' : St, s'.sets = s.sets → inside s' = inside s ++ [t] →
              (∀ p, needsRetry s' p = needsRetry s p) → PInv s' := by
            intro s' a b c
            refine ⟨by rw [a]; exact h.one, ?_, ?_⟩
            · intro x hx
              rw [b] at hx
              rcases List.mem_append.1 hx with hx | hx
              · exact h.data x hx
              · have : x = t := by simpa using hx
                rw [this]; exact hd
            · intro p hp
              rw [c] at hp
              rw [b, onPart_append, h.quiet p hp, onPart_single]
              by_cases e : t.part = p
              · rw [e] at hn; exact absurd hp hn
              · simp [e]
          cases ov
          · exact key _ rfl (by simp [inside, hwn]) (fun p => rfl)
          · exact key _ rfl (by simp [inside, hwn]) (fun p => rfl)

theorem handover_inside (s : St) : inside (handover s).1 = inside s ∧ outData p (handover s).2 = [] ∧
    bounces p (handover s).2 = [] ∧ (∀ q, needsRetry (handover s).1 q = needsRetry s q) ∧ (handover s).1.sets.length ≤ 1 ∨
    ((handover s).1 = s ∧ (handover s).2 = [.disabled]) := by
  unfold handover
  by_cases h1 : (!s.sets.isEmpty) = true
  · right; simp [h1]
  · simp only [h1, Bool.false_eq_true, ↓reduceIte]
    have hs : s.sets = [] := by simpa using h1
    cases hw : s.wait with
    | none =>
      simp only []
      by_cases h2 : (s.buffer.isEmpty && !s.stale) = true
      · right; simp [h2]
      · left; simp [h2, inside, hs, hw, outData, bounces, needsRetry]
    | some t =>
      left; simp [inside, hs, hw, outData, outD, bounces, bnc, needsRetry, List.filterMap_cons]

theorem handover_fifo (s : St) (p : Int) :
    outData p (handover s).2 ++ ids (onPart p (inside (handover s).1)) = ids (onPart p (inside s)) := by
  rcases handover_inside (p := p) s with ⟨a, b, _⟩ | ⟨a, b⟩
  · rw [a, b]; rfl
  · rw [a, b]; simp [outData, outD, List.filterMap_cons]

theorem handover_inv (s : St) (h : PInv s) : PInv (handover s).1 := by
  rcases handover_inside (p := 0) s with ⟨a, _, _, d, e⟩ | ⟨a, _⟩
  · exact ⟨e, by rw [a]; exact h.data, fun p hp => by rw [a]; exact h.quiet p (by rw [← d]; exact hp)⟩
  · rw [a]; exact h

/-- the re-check of waitForSpace, given what handleResponse guarantees (`H` = its result) -/
theorem recheck_core (max : Nat) (s : St) (sent : List Tok) (H : St × List Action) (still : Bool)
    (hs : s.sets = [sent])
    (hd2 : ∀ t ∈ s.buffer, t.kind = .data) (hd3 : ∀ t, s.wait = some t → t.kind = .data)
    (f1 : H.1.sets = []) (f2 : H.1.wait = s.wait) (f3 : ∀ t ∈ H.1.buffer, t ∈ s.buffer)
    (ff : ∀ p, outData p H.2 ++ ids (onPart p H.1.buffer) = ids (onPart p sent) ++ ids (onPart p s.buffer))
    (hbq : ∀ p, needsRetry H.1 p = true → onPart p H.1.buffer = []) :
    (∀ p, outData p (recheck max H.1 H.2 still).2 ++ ids (onPart p (inside (recheck max H.1 H.2 still).1)) =
      ids (onPart p (inside s))) ∧
    PInv (recheck max H.1 H.2 still).1 := by
  obtain ⟨x, acts⟩ := H
  simp only at f1 f2 f3 ff hbq ⊢
  unfold recheck
  cases hw : s.wait with
  | none =>
    rw [hw] at f2
    simp only [f2]
    constructor
    · intro p
      have e := ff p
      simp only [inside, f1, f2, hw, hs, List.flatten_nil, List.nil_append, Option.toList_none, List.append_nil,
        List.flatten_cons, onPart_append, ids, List.map_append] at e ⊢
      exact e
    · refine ⟨by simp [f1], ?_, ?_⟩
      · intro t ht
        simp only [inside, f1, f2, List.flatten_nil, List.nil_append, Option.toList_none, List.append_nil] at ht
        exact hd2 t (f3 t ht)
      · intro p hp
        simp only [inside, f1, f2, List.flatten_nil, List.nil_append, Option.toList_none, List.append_nil]
        exact hbq p hp
  | some t =>
    have htd := hd3 t hw
    rw [hw] at f2
    simp only [f2]
    by_cases hn : needsRetry x t.part = true
    · simp only [hn, ↓reduceIte]
      constructor
      · intro p
        have e := ff p
        have o1 : outData p [retryMsg max t] = ids (onPart p [t]) := by
          have := outData_retry max p [t] (by simpa using htd)
          simpa [retryMsgs] using this
        simp only [inside, f1, hw, hs, List.flatten_nil, List.nil_append, Option.toList_none, List.append_nil,
          List.flatten_cons, onPart_append, Option.toList_some, outData_append, o1] at e ⊢
        by_cases hp : t.part = p
        · have := hbq p (by rw [← hp]; exact hn)
          rw [this] at e ⊢
          simp only [ids, List.map_nil, List.append_nil, List.map_append] at e ⊢
          rw [e]
        · simp only [onPart_single, hp, ↓reduceIte, ids, List.map_nil, List.append_nil, List.map_append] at e ⊢
          exact e
      · refine ⟨by simp [f1], ?_, ?_⟩
        · intro y hy
          simp only [inside, f1, List.flatten_nil, List.nil_append, Option.toList_none, List.append_nil] at hy
          exact hd2 y (f3 y hy)
        · intro p hp
          simp only [inside, f1, List.flatten_nil, List.nil_append, Option.toList_none, List.append_nil]
          exact hbq p hp
    · simp only [hn, Bool.false_eq_true, ↓reduceIte]
      have key : ∀ s' : St, s'.sets = [] → inside s' = x.buffer ++ [t] →
          (∀ p, needsRetry s' p = needsRetry x p) →
          (∀ p, outData p acts ++ ids (onPart p (inside s')) = ids (onPart p (inside s))) ∧ PInv s' := by
        intro s' a b c
        constructor
        · intro p
          have e := ff p
          rw [b, onPart_append]
          simp only [inside, hw, hs, List.flatten_nil, Option.toList_some,
            List.flatten_cons, onPart_append, List.append_nil, ids, List.map_append] at e ⊢
          rw [← List.append_assoc, e]
        · refine ⟨by simp [a], ?_, ?_⟩
          · intro y hy
            rw [b] at hy
            rcases List.mem_append.1 hy with hy | hy
            · exact hd2 y (f3 y hy)
            · have : y = t := by simpa using hy
              rw [this]; exact htd
          · intro p hp
            rw [c] at hp
            rw [b, onPart_append, hbq p hp, onPart_single]
            by_cases e : t.part = p
            · rw [e] at hn; exact absurd hp hn
            · simp [e]
      cases still
      · simp only [Bool.false_eq_true, ↓reduceIte]
        have k := key { x with wait := none, buffer := x.buffer ++ [t], stale := false }
          (by simp [f1]) (by simp [inside, f1]) (fun p => rfl)
        refine ⟨fun p => ?_, k.2⟩
        rw [outData_append]
        have : outData p [Action.add t.id t.part] = [] := by simp [outData, outD, List.filterMap_cons]
        rw [this, List.append_nil]
        exact k.1 p
      · simp only [↓reduceIte]
        exact key x f1 (by simp [inside, f1, f2]) (fun p => rfl)

/-- handleResponse + re-check, for a state whose only set in flight is `sent` -/
theorem resp_core (max : Nat) (s : St) (sent : List Tok) (r : Resp) (still : Bool) (h : PInv s)
    (hs : s.sets = [sent]) :
    (∀ p, outData p (resp max s r still).2 ++ ids (onPart p (inside (resp max s r still).1)) = ids (onPart p (inside s))) ∧
    PInv (resp max s r still).1 := by
  have hd1 : ∀ t ∈ sent, t.kind = .data := fun t ht => h.data t (by simp [inside, hs, ht])
  have hd2 : ∀ t ∈ s.buffer, t.kind = .data := fun t ht => h.data t (by simp [inside, ht])
  have hd3 : ∀ t, s.wait = some t → t.kind = .data := fun t ht => h.data t (by simp [inside, ht])
  obtain ⟨f1, f2, f3⟩ := handle_frame max { s with sets := [] } sent r
  have ff := fun p => handle_fifo max { s with sets := [] } sent r p hd1 hd2
  have fn := fun p => handle_needs max { s with sets := [] } sent r p
  have hq : ∀ p, needsRetry s p = true → onPart p sent = [] ∧ onPart p s.buffer = [] := by
    intro p hp
    have := h.quiet p hp
    simp only [inside, hs, List.flatten_cons, List.flatten_nil, List.append_nil, onPart_append, List.append_eq_nil_iff] at this
    exact ⟨this.1.1, this.1.2⟩
  have hbq : ∀ p, needsRetry (handle max { s with sets := [] } sent r).1 p = true →
      onPart p (handle max { s with sets := [] } sent r).1.buffer = [] := by
    intro p hp
    rw [(fn p).1] at hp
    by_cases hf : failsFor max p sent r
    · exact (fn p).2.1 hf
    · have hp' : needsRetry s p = true := by
        have : decide (failsFor max p sent r) = false := decide_eq_false hf
        simpa [this, needsRetry] using hp
      have e := ff p
      simp only [] at e
      rw [(hq p hp').1, (hq p hp').2] at e
      have hl := congrArg List.length e
      simp only [List.length_append, ids, List.map_nil, List.length_nil, List.length_map] at hl
      exact List.eq_nil_of_length_eq_zero (by omega)
  unfold resp
  simp only [hs]
  exact recheck_core max s sent (handle max { s with sets := [] } sent r) still hs hd2 hd3 f1 f2 f3 ff hbq

/-- ONE STEP: per partition, (data tokens that leave) ++ (what is inside afterwards) = (what was inside) ++ (the
    data token taken in, if any); and the invariant is kept -/
theorem step_fifo (max : Nat) (s : St) (i : In) (h : PInv s) :
    (∀ p, outData p (step max s i).2 ++ ids (onPart p (inside (step max s i).1)) =
      ids (onPart p (inside s)) ++ ids (dataArrived p s i)) ∧ PInv (step max s i).1 := by
  cases i with
  | recv t ov => exact ⟨fun p => recv_fifo max s t ov p h, recv_inv max s t ov h⟩
  | handover =>
    refine ⟨fun p => ?_, handover_inv s h⟩
    simp only [step, dataArrived, arrived, List.filter_nil, onPart, ids, List.map_nil, List.append_nil]
    exact handover_fifo s p
  | resp r still =>
    simp only [step, dataArrived, arrived, List.filter_nil, onPart, ids, List.map_nil, List.append_nil]
    cases hs : s.sets with
    | nil => simp [resp, hs, outData, outD, List.filterMap_cons, h]
    | cons sent rest =>
      have : rest = [] := by
        have := h.one; rw [hs] at this
        simp only [List.length_cons] at this
        exact List.eq_nil_of_length_eq_zero (by omega)
      subst this
      exact resp_core max s sent r still h hs

/-- data tokens of partition `p` taken in along a run -/
def dataArrivals (max : Nat) (p : Int) (s : St) (ins : List In) : List Tok :=
  onPart p ((arrivals max s ins).filter (fun t => !t.isFin))

theorem dataArrivals_cons (max : Nat) (p : Int) (s : St) (i : In) (is : List In) :
    dataArrivals max p s (i :: is) = dataArrived p s i ++ dataArrivals max p (step max s i).1 is := by
  simp [dataArrivals, dataArrived, arrivals, onPart_append]

theorem run_fifo (max : Nat) (s : St) (ins : List In) (h : PInv s) :
    (∀ p, outData p (runAll max s ins).2 ++ ids (onPart p (inside (runAll max s ins).1)) =
      ids (onPart p (inside s)) ++ ids (dataArrivals max p s ins)) ∧ PInv (runAll max s ins).1 := by
  induction ins generalizing s with
  | nil => exact ⟨fun p => by simp [runAll, outData, dataArrivals, arrivals, onPart, ids], h⟩
  | cons i is ih =>
    obtain ⟨a, b⟩ := step_fifo max s i h
    obtain ⟨c, d⟩ := ih (step max s i).1 b
    refine ⟨fun p => ?_, d⟩
    simp only [runAll, outData_append, dataArrivals_cons]
    rw [List.append_assoc, c p, ← List.append_assoc, a p]
    simp [ids, List.append_assoc]

/-! ### the quiet period of a partition -/

/-- inputs that end the quiet period of partition `p`: its fin chaser (when the worker is not closing) or a syn -/
def reopens (p : Int) : In → Prop
  | .recv t _ => t.part = p ∧ (t.kind = .syn ∨ t.kind = .fin)
  | _ => False

instance (p : Int) (i : In) : Decidable (reopens p i) := by
  cases i <;> unfold reopens <;> infer_instance

theorem recv_quiet (max : Nat) (s : St) (t : Tok) (ov : Bool) (p : Int) (_h : PInv s) (hn : needsRetry s p = true) :
    bounces p (recv max s t ov).2 = ids (onPart p (arrived s (.recv t ov))) ∧
    (¬ reopens p (.recv t ov) → adds p (recv max s t ov).2 = [] ∧ needsRetry (recv max s t ov).1 p = true) := by
  unfold recv arrived reopens
  by_cases hw : s.wait.isSome = true
  · simp [hw, bounces, bnc, adds, addD, onPart, ids, hn, List.filterMap_cons]
  · simp only [hw, Bool.false_eq_true, ↓reduceIte]
    by_cases hs : t.kind = .syn
    · simp only [hs, ↓reduceIte]
      refine ⟨by simp [bounces, bnc, onPart, ids, List.filterMap_cons], fun hr => ⟨by simp [adds, addD, List.filterMap_cons], ?_⟩⟩
      have : t.part ≠ p := fun e => hr ⟨e, Or.inl trivial⟩
      simp only [needsRetry, setCr, Bool.or_eq_true] at hn ⊢
      rcases hn with hn | hn
      · exact Or.inl hn
      · right; simp [Ne.symm this, hn]
    · simp only [hs, ↓reduceIte]
      by_cases hnt : needsRetry s t.part = true
      · simp only [hnt, ↓reduceIte, bounces_bounce1, onPart_single]
        refine ⟨by by_cases e : t.part = p <;> simp [e, ids], fun hr => ⟨?_, ?_⟩⟩
        · by_cases hr2 : t.retries ≥ max <;> simp [adds, addD, retryMsg, hr2, List.filterMap_cons]
        · split
          · rename_i hc
            have hf : t.kind = .fin := by
              simp only [Bool.and_eq_true, decide_eq_true_eq] at hc; exact hc.2
            have : t.part ≠ p := fun e => hr ⟨e, Or.inr hf⟩
            simp only [needsRetry, setCr, Bool.or_eq_true] at hn ⊢
            rcases hn with hn | hn
            · exact Or.inl hn
            · right; simp [Ne.symm this, hn]
          · exact hn
      · have hpt : t.part ≠ p := fun e => hnt (by rw [e]; exact hn)
        simp only [hnt, Bool.false_eq_true, ↓reduceIte]
        by_cases hf : t.kind = .fin
        · simp only [hf, ↓reduceIte, bounces_bounce1, onPart_single, hpt]
          refine ⟨rfl, fun _ => ⟨?_, hn⟩⟩
          by_cases hr2 : t.retries ≥ max <;> simp [adds, addD, retryMsg, hr2, List.filterMap_cons]
        · simp only [hf, ↓reduceIte, onPart_single, hpt]
          cases ov
          · simp [bounces, bnc, adds, addD, hpt, ids, List.filterMap_cons, needsRetry] at hn ⊢
            exact hn
          · simp [bounces, adds, ids, needsRetry] at hn ⊢
            exact hn

theorem handover_quiet (s : St) (p : Int) (h : PInv s) (hn : needsRetry s p = true) :
    bounces p (handover s).2 = [] ∧ adds p (handover s).2 = [] ∧ needsRetry (handover s).1 p = true := by
  have q := h.quiet p hn
  unfold handover
  by_cases h1 : (!s.sets.isEmpty) = true
  · simp [h1, bounces, bnc, adds, addD, hn, List.filterMap_cons]
  · simp only [h1, Bool.false_eq_true, ↓reduceIte]
    cases hw : s.wait with
    | none =>
      simp only []
      by_cases h2 : (s.buffer.isEmpty && !s.stale) = true
      · simp [h2, bounces, bnc, adds, addD, hn, List.filterMap_cons]
      · simp only [h2, Bool.false_eq_true, ↓reduceIte]
        exact ⟨rfl, rfl, hn⟩
    | some t =>
      have : t.part ≠ p := by
        intro e
        simp only [inside, hw, Option.toList_some, onPart_append, List.append_eq_nil_iff, onPart_single, e, ↓reduceIte] at q
        exact absurd q.2 (by simp)
      simp only []
      refine ⟨by simp [bounces, bnc, List.filterMap_cons], by simp [adds, addD, this], hn⟩

theorem resp_quiet (max : Nat) (s : St) (r : Resp) (still : Bool) (p : Int) (h : PInv s) (hn : needsRetry s p = true) :
    bounces p (resp max s r still).2 = [] ∧ adds p (resp max s r still).2 = [] ∧
    needsRetry (resp max s r still).1 p = true := by
  have q := h.quiet p hn
  unfold resp
  cases hs : s.sets with
  | nil => simp [bounces, bnc, adds, addD, hn, List.filterMap_cons]
  | cons sent rest =>
    simp only []
    obtain ⟨_, f2, _⟩ := handle_frame max { s with sets := rest } sent r
    obtain ⟨n1, _, n3, n4⟩ := handle_needs max { s with sets := rest } sent r p
    have q1 : onPart p sent = [] ∧ onPart p s.buffer = [] ∧ onPart p s.wait.toList = [] := by
      simp only [inside, hs, List.flatten_cons, onPart_append, List.append_eq_nil_iff] at q
      exact ⟨q.1.1.1, q.1.2, q.2⟩
    have hb : bounces p (handle max { s with sets := rest } sent r).2 = [] := by
      rw [n3]; simp only []; rw [q1.1, q1.2.1]; simp [ids]
    have hnn : needsRetry (handle max { s with sets := rest } sent r).1 p = true := by
      rw [n1]
      have : needsRetry { s with sets := rest } p = true := hn
      rw [this]; rfl
    generalize handle max { s with sets := rest } sent r = H at *
    obtain ⟨x, acts⟩ := H
    simp only at f2 hb n4 hnn ⊢
    unfold recheck
    cases hw : s.wait with
    | none =>
      rw [hw] at f2
      simp only [f2]
      exact ⟨hb, n4, hnn⟩
    | some t =>
      rw [hw] at f2
      simp only [f2]
      have htp : t.part ≠ p := by
        intro e
        have := q1.2.2
        simp only [hw, Option.toList_some, onPart_single, e, ↓reduceIte] at this
        exact absurd this (by simp)
      by_cases hn2 : needsRetry x t.part = true
      · simp only [hn2, ↓reduceIte, bounces_append, adds_append, hb, n4, List.nil_append]
        refine ⟨?_, ?_, hnn⟩
        · by_cases hr2 : t.retries ≥ max <;> simp [bounces, bnc, retryMsg, hr2, htp]
        · by_cases hr2 : t.retries ≥ max <;> simp [adds, addD, retryMsg, hr2, List.filterMap_cons]
      · simp only [hn2, Bool.false_eq_true, ↓reduceIte]
        cases still
        · simp only [Bool.false_eq_true, ↓reduceIte, bounces_append, adds_append, hb, n4, List.nil_append]
          exact ⟨by simp [bounces, bnc, List.filterMap_cons], by simp [adds, addD, htp], hnn⟩
        · simp only [↓reduceIte]
          exact ⟨hb, n4, hnn⟩

/-- ONE STEP while partition `p` is refused: what is bounced of `p` is exactly what arrives of `p`; and unless the
    input is the partition's fin chaser or a syn, nothing of `p` is added and `p` stays refused -/
theorem step_quiet (max : Nat) (s : St) (i : In) (p : Int) (h : PInv s) (hn : needsRetry s p = true) :
    bounces p (step max s i).2 = ids (onPart p (arrived s i)) ∧
    (¬ reopens p i → adds p (step max s i).2 = [] ∧ needsRetry (step max s i).1 p = true) := by
  cases i with
  | recv t ov => exact recv_quiet max s t ov p h hn
  | handover =>
    obtain ⟨a, b, c⟩ := handover_quiet s p h hn
    exact ⟨by simp [step, arrived, a, onPart, ids], fun _ => ⟨b, c⟩⟩
  | resp r still =>
    obtain ⟨a, b, c⟩ := resp_quiet max s r still p h hn
    exact ⟨by simp [step, arrived, a, onPart, ids], fun _ => ⟨b, c⟩⟩

theorem arrivals_cons (max : Nat) (s : St) (i : In) (is : List In) :
    arrivals max s (i :: is) = arrived s i ++ arrivals max (step max s i).1 is := rfl

/-- a run without the partition's fin chaser / syn, started while the partition is refused -/
theorem run_quiet (max : Nat) (s : St) (mid : List In) (p : Int) (h : PInv s) (hn : needsRetry s p = true)
    (hm : ∀ i ∈ mid, ¬ reopens p i) :
    bounces p (runAll max s mid).2 = ids (onPart p (arrivals max s mid)) ∧
    adds p (runAll max s mid).2 = [] ∧ needsRetry (runAll max s mid).1 p = true ∧ PInv (runAll max s mid).1 := by
  induction mid generalizing s with
  | nil => exact ⟨by simp [runAll, bounces, arrivals, onPart, ids], by simp [runAll, adds], hn, h⟩
  | cons i is ih =>
    obtain ⟨a, b⟩ := step_quiet max s i p h hn
    obtain ⟨b1, b2⟩ := b (hm i (by simp))
    obtain ⟨c1, c2, c3, c4⟩ := ih (step max s i).1 (step_fifo max s i h).2 b2 (fun j hj => hm j (by simp [hj]))
    refine ⟨?_, ?_, c3, c4⟩
    · simp only [runAll, bounces_append, arrivals_cons, onPart_append, a, c1, ids, List.map_append]
    · simp only [runAll, adds_append, b1, c2, List.append_nil]

/-- the failing response itself: the partition's part of the answered set, then of the buffer, then the message
    held in waitForSpace are handed to retryMessage in this order; the partition is refused from now on -/
theorem resp_fails (max : Nat) (s : St) (sent : List Tok) (r : Resp) (still : Bool) (p : Int)
    (hs : s.sets = [sent]) (hf : failsFor max p sent r) :
    bounces p (resp max s r still).2 =
      ids (onPart p sent) ++ ids (onPart p s.buffer) ++ ids (onPart p s.wait.toList) ∧
    adds p (resp max s r still).2 = [] ∧ needsRetry (resp max s r still).1 p = true := by
  unfold resp
  simp only [hs]
  obtain ⟨_, f2, _⟩ := handle_frame max { s with sets := [] } sent r
  obtain ⟨n1, _, n3, n4⟩ := handle_needs max { s with sets := [] } sent r p
  have hb : bounces p (handle max { s with sets := [] } sent r).2 = ids (onPart p sent) ++ ids (onPart p s.buffer) := by
    rw [n3]; simp [hf]
  have hnn : needsRetry (handle max { s with sets := [] } sent r).1 p = true := by
    rw [n1, decide_eq_true hf]; simp
  generalize handle max { s with sets := [] } sent r = H at *
  obtain ⟨x, acts⟩ := H
  simp only at f2 hb n4 hnn ⊢
  unfold recheck
  cases hw : s.wait with
  | none =>
    rw [hw] at f2
    simp only [f2, Option.toList_none, onPart, List.filter_nil, ids, List.map_nil, List.append_nil]
    exact ⟨by simpa [ids, onPart] using hb, n4, hnn⟩
  | some t =>
    rw [hw] at f2
    simp only [f2, Option.toList_some, onPart_single]
    by_cases hn2 : needsRetry x t.part = true
    · simp only [hn2, ↓reduceIte, bounces_append, adds_append, hb, n4, List.nil_append]
      refine ⟨?_, ?_, hnn⟩
      · congr 1
        by_cases hr2 : t.retries ≥ max <;> by_cases e : t.part = p <;>
          simp [bounces, bnc, retryMsg, hr2, e, ids, List.filterMap_cons]
      · by_cases hr2 : t.retries ≥ max <;> simp [adds, addD, retryMsg, hr2, List.filterMap_cons]
    · have htp : t.part ≠ p := fun e => hn2 (by rw [e]; exact hnn)
      simp only [hn2, Bool.false_eq_true, ↓reduceIte, htp, ids, List.map_nil, List.append_nil]
      cases still
      · simp only [Bool.false_eq_true, ↓reduceIte, bounces_append, adds_append, hb, n4, List.nil_append]
        exact ⟨by simp [bounces, bnc, ids, List.filterMap_cons], by simp [adds, addD, htp], hnn⟩
      · simp only [↓reduceIte]
        exact ⟨by simpa [ids] using hb, n4, hnn⟩

/-! ### the stale `output` variable: an EMPTY produce set can go to the broker

  In brokerProducer.run the `continue` statements of the message arm skip the `if bp.timerFired ||
  bp.buffer.readyToFlush() { output = bp.output } else { output = nil }` at the bottom of the loop.  When
  waitForSpace handles a response that empties the buffer (drop of the failed partition, or [closing]) and the held
  message is bounced, the loop continues with `output` still armed and hands the empty buffer to the bridge: an
  empty ProduceRequest goes to the broker, and on a dead connection a second handleError abandons the broker
  again (which can unregister the worker that was created in the meantime).  The model carries this as `stale`. -/

/-- an empty set reaches the bridge only through the stale `output` (or from inside waitForSpace) -/
theorem bp_empty_set_needs_stale (s : St) (hw : s.wait = none) (h : (handover s).1.sets = [[]]) (h0 : s.sets = []) :
    s.buffer = [] ∧ s.stale = true := by
  unfold handover at h
  simp only [h0, List.isEmpty_nil, Bool.not_true, Bool.false_eq_true, ↓reduceIte, hw] at h
  by_cases h2 : (s.buffer.isEmpty && !s.stale) = true
  · simp [h2, h0] at h
  · simp only [h2, Bool.false_eq_true, ↓reduceIte, List.cons.injEq, and_true] at h
    refine ⟨h, ?_⟩
    simp only [h, List.isEmpty_nil, Bool.true_and, Bool.not_eq_eq_eq_not, Bool.not_true, Bool.not_eq_false] at h2
    exact h2

/-- `output` becomes stale in exactly one way: a response handled inside waitForSpace after which the held message
    is bounced (`continue`) -/
theorem bp_stale_origin (max : Nat) (s : St) (i : In) (h : (step max s i).1.stale = true) :
    s.stale = true ∨ ∃ t r still, s.wait = some t ∧ i = .resp r still ∧ (step max s i).1.wait = none := by
  cases i with
  | recv t ov =>
    left
    simp only [step, recv] at h
    by_cases hw : s.wait.isSome = true
    · simpa [hw] using h
    · simp only [hw, Bool.false_eq_true, ↓reduceIte] at h
      by_cases hs : t.kind = .syn
      · simpa [hs] using h
      · simp only [hs, ↓reduceIte] at h
        by_cases hn : needsRetry s t.part = true
        · simp only [hn, ↓reduceIte] at h
          split at h <;> exact h
        · simp only [hn, Bool.false_eq_true, ↓reduceIte] at h
          by_cases hf : t.kind = .fin
          · simpa [hf] using h
          · cases ov <;> simp [hf] at h
            exact h
  | handover =>
    left
    simp only [step, handover] at h
    by_cases h1 : (!s.sets.isEmpty) = true
    · simpa [h1] using h
    · simp only [h1, Bool.false_eq_true, ↓reduceIte] at h
      cases hw : s.wait with
      | none =>
        simp only [hw] at h
        by_cases h2 : (s.buffer.isEmpty && !s.stale) = true
        · simpa [h2] using h
        · simp [h2] at h
      | some t => simp [hw] at h
  | resp r still =>
    simp only [step, resp] at h ⊢
    cases hs : s.sets with
    | nil => left; simpa [hs] using h
    | cons sent rest =>
      simp only [hs] at h ⊢
      obtain ⟨_, f2, _⟩ := handle_frame max { s with sets := rest } sent r
      have f4 := handle_stale max { s with sets := rest } sent r
      generalize handle max { s with sets := rest } sent r = H at *
      obtain ⟨x, acts⟩ := H
      simp only at f2 f4 h ⊢
      unfold recheck at h ⊢
      cases hw : s.wait with
      | none =>
        rw [hw] at f2
        simp [f2] at h
      | some t =>
        rw [hw] at f2
        simp only [f2] at h ⊢
        by_cases hn : needsRetry x t.part = true
        · right; exact ⟨t, r, still, rfl, rfl, by simp [hn]⟩
        · simp only [hn, Bool.false_eq_true, ↓reduceIte] at h
          cases still
          · simp at h
          · left; simp only [↓reduceIte] at h; rw [← f4]; exact h

/-- witness of the defect: three messages fill the buffer to Flush.MaxMessages, the set goes out, a fourth message
    does not fit (waitForSpace); the connection dies; the buffer is bounced, the held message too; the loop then
    hands an EMPTY set to the bridge -/
example : (runAll 3 {} [.recv ⟨-1, 0, 0, .syn⟩ false, .recv ⟨1, 0, 0, .data⟩ false, .handover,
      .recv ⟨2, 0, 0, .data⟩ false, .recv ⟨3, 0, 0, .data⟩ true, .resp (.connErr [] []) false, .handover]).1.sets = [[]] ∧
    (runAll 3 {} [.recv ⟨-1, 0, 0, .syn⟩ false, .recv ⟨1, 0, 0, .data⟩ false, .handover,
      .recv ⟨2, 0, 0, .data⟩ false, .recv ⟨3, 0, 0, .data⟩ true, .resp (.connErr [] []) false, .handover]).2 =
      [.ackSyn 0, .add 1 0, .add 2 0, .closing, .abandon, .requeue 1 0 1 false, .requeue 2 0 1 false,
       .requeue 3 0 1 false] := by decide

theorem runAll_append (max : Nat) (s : St) (a b : List In) :
    runAll max s (a ++ b) = ((runAll max (runAll max s a).1 b).1, (runAll max s a).2 ++ (runAll max (runAll max s a).1 b).2) := by
  induction a generalizing s with
  | nil => simp [runAll]
  | cons i is ih => simp [runAll, ih, List.append_assoc]

theorem arrivals_append (max : Nat) (s : St) (a b : List In) :
    arrivals max s (a ++ b) = arrivals max s a ++ arrivals max (runAll max s a).1 b := by
  induction a generalizing s with
  | nil => simp [arrivals, runAll]
  | cons i is ih => simp [arrivals, runAll, ih, List.append_assoc]

/-! ## The theorems (every one for EVERY input sequence of the worker, from its initial state) -/

/-- example run (Retry.Max = 3): partitions 0 and 1 share the worker; messages 1, 2 (partition 0) and 9 (partition 1)
    are at the bridge, 3 (partition 0) is in the buffer -/
def exPre : List In :=
  [.recv ⟨-1, 0, 0, .syn⟩ false, .recv ⟨1, 0, 0, .data⟩ false, .recv ⟨2, 0, 0, .data⟩ false,
   .recv ⟨9, 1, 0, .data⟩ false, .handover, .recv ⟨3, 0, 0, .data⟩ false]
def exSent : List Tok := [⟨1, 0, 0, .data⟩, ⟨2, 0, 0, .data⟩, ⟨9, 1, 0, .data⟩]
/-- the response: partition 0 not-leader (retriable), partition 1 fine -/
def exResp : Resp := .verdicts (fun p => if p = 0 then .retriable else .ok) [1, 0] [0]
/-- afterwards: message 4 (partition 0) and message 8 (partition 1) arrive, then partition 0's fin chaser -/
def exMid : List In := [.recv ⟨4, 0, 0, .data⟩ false, .recv ⟨8, 1, 0, .data⟩ false]
def exLast : In := .recv ⟨-2, 0, 0, .fin⟩ false

/-- every reachable state satisfies the invariant -/
theorem run_inv (max : Nat) (ins : List In) : PInv (runAll max {} ins).1 := (run_fifo max {} ins init_inv).2

/-- **At most one set in flight.**  Whatever the inputs, at most one produce set is between hand-over to the bridge
    and the handling of its response. -/
theorem bp_at_most_one_set_in_flight (max : Nat) (ins : List In) : (runAll max {} ins).1.sets.length ≤ 1 :=
  (run_inv max ins).one

example : (runAll 2 {} [.recv ⟨1, 0, 0, .data⟩ false, .handover, .recv ⟨2, 0, 0, .data⟩ false, .handover]).1.sets.length = 1
    ∧ (runAll 2 {} [.recv ⟨1, 0, 0, .data⟩ false, .handover, .recv ⟨2, 0, 0, .data⟩ false, .handover]).2
        = [.add 1 0, .add 2 0, .disabled] := by decide

/-- **Per-partition FIFO.**  The data tokens of a partition that have left the worker (success, failure or bounce), in
    the order they left, followed by the partition's tokens still inside (set at the bridge, buffer, held message), are
    exactly the data tokens of the partition in the order they arrived. -/
theorem bp_partition_fifo (max : Nat) (ins : List In) (p : Int) :
    outData p (runAll max {} ins).2 ++ ids (onPart p (inside (runAll max {} ins).1)) =
      ids (dataArrivals max p {} ins) := by
  have := (run_fifo max {} ins init_inv).1 p
  simpa [inside, onPart, ids] using this

example : outData 0 (runAll 3 {} (exPre ++ [.resp exResp false])).2 = [1, 2, 3] ∧
    outData 1 (runAll 3 {} (exPre ++ [.resp exResp false])).2 = [9] ∧
    ids (dataArrivals 3 0 {} (exPre ++ [.resp exResp false])) = [1, 2, 3] := by decide

/-- **Conservation.**  At any time every data token received (counted by id and partition) is exactly one of: in the set
    awaiting its response, in the buffer, held in waitForSpace, or gone via success / failure / bounce - nothing is
    lost, nothing duplicated.  And only data tokens are ever held: a fin chaser is never buffered. -/
theorem bp_conservation (max : Nat) (ins : List In) (p : Int) (i : Int) :
    (ids (dataArrivals max p {} ins)).count i =
      (ids (onPart p (runAll max {} ins).1.sets.flatten)).count i + (ids (onPart p (runAll max {} ins).1.buffer)).count i +
      (ids (onPart p (runAll max {} ins).1.wait.toList)).count i + (outData p (runAll max {} ins).2).count i ∧
    (∀ t ∈ inside (runAll max {} ins).1, t.kind = .data) := by
  refine ⟨?_, (run_inv max ins).data⟩
  rw [← bp_partition_fifo max ins p]
  simp only [inside, onPart_append, ids, List.map_append, List.count_append]
  omega

example : (ids (dataArrivals 3 0 {} exPre)).count 3 = 1 ∧ (ids (onPart 0 (runAll 3 {} exPre).1.buffer)).count 3 = 1 ∧
    (ids (onPart 0 (runAll 3 {} exPre).1.sets.flatten)).count 1 = 1 ∧ (outData 0 (runAll 3 {} exPre).2).count 1 = 0 ∧
    (outData 0 (runAll 3 {} (exPre ++ [.resp exResp false])).2).count 1 = 1 := by decide

/-- **Quiet after failure.**  From a response that fails partition `p` (retriable verdict with Retry.Max > 0, or a
    connection-level error) on, as long as the worker receives neither the partition's fin chaser nor a syn for it,
    no token of `p` is added to the buffer, nothing of `p` is inside, and `p` stays refused. -/
theorem bp_quiet_after_failure (max : Nat) (pre : List In) (sent : List Tok) (r : Resp) (still : Bool) (mid : List In)
    (p : Int) (hs : (runAll max {} pre).1.sets = [sent]) (hf : failsFor max p sent r)
    (hm : ∀ i ∈ mid, ¬ reopens p i) :
    adds p (runAll max (runAll max {} pre).1 (.resp r still :: mid)).2 = [] ∧
    needsRetry (runAll max (runAll max {} pre).1 (.resp r still :: mid)).1 p = true ∧
    onPart p (inside (runAll max (runAll max {} pre).1 (.resp r still :: mid)).1) = [] := by
  have h0 := run_inv max pre
  obtain ⟨_, a2, a3⟩ := resp_fails max _ sent r still p hs hf
  have h1 := (step_fifo max _ (.resp r still) h0).2
  obtain ⟨_, b2, b3, b4⟩ := run_quiet max _ mid p h1 a3 hm
  refine ⟨?_, b3, b4.quiet p b3⟩
  simp only [runAll, adds_append]
  rw [show (step max (runAll max {} pre).1 (.resp r still)).2 = (resp max (runAll max {} pre).1 r still).2 from rfl, a2]
  exact b2

example : (runAll 3 {} exPre).1.sets = [exSent] ∧ failsFor 3 0 exSent exResp ∧ (∀ i ∈ exMid, ¬ reopens 0 i) ∧
    -- partition 1 is not affected: its message 8 is added
    adds 1 (runAll 3 (runAll 3 {} exPre).1 (.resp exResp false :: exMid)).2 = [8] ∧
    -- after the fin chaser partition 0 is open again
    needsRetry (runAll 3 (runAll 3 {} exPre).1 (.resp exResp false :: (exMid ++ [exLast]))).1 0 = false := by decide

/-- the same for any reachable state in which `p` is refused (e.g. after the quiet period was entered earlier) -/
theorem bp_quiet_while_refused (max : Nat) (pre mid : List In) (p : Int)
    (hn : needsRetry (runAll max {} pre).1 p = true) (hm : ∀ i ∈ mid, ¬ reopens p i) :
    adds p (runAll max (runAll max {} pre).1 mid).2 = [] ∧ needsRetry (runAll max (runAll max {} pre).1 mid).1 p = true := by
  obtain ⟨_, b2, b3, _⟩ := run_quiet max _ mid p (run_inv max pre) hn hm
  exact ⟨b2, b3⟩

/-- **Bounces in order.**  When a response fails partition `p`, the tokens of `p` handed to retryMessage from then on -
    until and including the next input after any run `mid` free of the partition's fin / syn (that input is the fin
    chaser in the real pipeline) - are, in this order: the partition's part of the answered set in set order, its
    part of the buffer in arrival order, the message held in waitForSpace, and then every token of `p` that arrives,
    in arrival order. -/
theorem bp_bounces_in_order (max : Nat) (pre : List In) (sent : List Tok) (r : Resp) (still : Bool) (mid : List In)
    (last : In) (p : Int) (hs : (runAll max {} pre).1.sets = [sent]) (hf : failsFor max p sent r)
    (hm : ∀ i ∈ mid, ¬ reopens p i) :
    bounces p (runAll max (runAll max {} pre).1 (.resp r still :: (mid ++ [last]))).2 =
      ids (onPart p sent) ++ ids (onPart p (runAll max {} pre).1.buffer) ++ ids (onPart p (runAll max {} pre).1.wait.toList) ++
      ids (onPart p (arrivals max (step max (runAll max {} pre).1 (.resp r still)).1 (mid ++ [last]))) := by
  have h0 := run_inv max pre
  obtain ⟨a1, _, a3⟩ := resp_fails max _ sent r still p hs hf
  have h1 := (step_fifo max _ (.resp r still) h0).2
  obtain ⟨b1, _, b3, b4⟩ := run_quiet max _ mid p h1 a3 hm
  obtain ⟨c1, _⟩ := step_quiet max _ last p b4 b3
  simp only [runAll, bounces_append]
  rw [show (step max (runAll max {} pre).1 (.resp r still)).2 = (resp max (runAll max {} pre).1 r still).2 from rfl, a1]
  rw [runAll_append, arrivals_append]
  simp only [bounces_append, b1, runAll, List.append_nil, c1, arrivals, onPart_append, ids, List.map_append]

example : (runAll 3 {} exPre).1.sets = [exSent] ∧ failsFor 3 0 exSent exResp ∧ (∀ i ∈ exMid, ¬ reopens 0 i) ∧
    bounces 0 (runAll 3 (runAll 3 {} exPre).1 (.resp exResp false :: (exMid ++ [exLast]))).2 = [1, 2, 3, 4, -2] ∧
    (runAll 3 (runAll 3 {} exPre).1 (.resp exResp false :: (exMid ++ [exLast]))).2 =
      [.succ 9 1, .requeue 1 0 1 false, .requeue 2 0 1 false, .drop 0, .requeue 3 0 1 false,
       .refuse 4, .requeue 4 0 1 false, .add 8 1, .refuse (-2), .requeue (-2) 0 1 true] := by decide

/-- data tokens of partition `p` that were bounced -/
def bncD (p : Int) : Action → Option Int
  | .requeue i q _ false => if q = p then some i else none
  | .expire i q false => if q = p then some i else none
  | _ => none

def bouncedData (p : Int) (as : List Action) : List Int := as.filterMap (bncD p)

theorem sublist_filterMap {f g : Action → Option Int} (hfg : ∀ a i, f a = some i → g a = some i) (l : List Action) :
    List.Sublist (l.filterMap f) (l.filterMap g) := by
  induction l with
  | nil => simp
  | cons a as ih =>
    rw [List.filterMap_cons, List.filterMap_cons]
    cases hf : f a with
    | none =>
      cases hg : g a with
      | none => exact ih
      | some j => exact List.Sublist.cons j ih
    | some i =>
      rw [hfg a i hf]
      exact List.Sublist.cons_cons i ih

/-- **Bounces preserve arrival order.**  For every input sequence, the bounced data tokens of a partition, in bounce
    order, form a subsequence of the partition's data tokens in arrival order. -/
theorem bp_bounce_order_preserving (max : Nat) (ins : List In) (p : Int) :
    List.Sublist (bouncedData p (runAll max {} ins).2) (ids (dataArrivals max p {} ins)) := by
  rw [← bp_partition_fifo max ins p]
  refine List.Sublist.trans (sublist_filterMap ?_ _) (List.sublist_append_left _ _)
  intro a i h
  cases a <;> simp_all [bncD, outD]
  all_goals (rename_i f; cases f <;> simp_all [bncD, outD])

example : bouncedData 0 (runAll 3 {} (exPre ++ .resp exResp false :: (exMid ++ [exLast]))).2 = [1, 2, 3, 4] ∧
    ids (dataArrivals 3 0 {} (exPre ++ .resp exResp false :: (exMid ++ [exLast]))) = [1, 2, 3, 4] := by decide

/-- Retry.Max = 0: a retriable verdict fails the messages at once, abandons the broker and leaves the partition open -/
example : (runAll 0 {} (exPre ++ [.resp exResp false, .recv ⟨4, 0, 0, .data⟩ false])).2 =
    [.ackSyn 0, .add 1 0, .add 2 0, .add 9 1, .add 3 0, .succ 9 1, .abandon, .fail 1 0, .fail 2 0, .add 4 0] := by decide

end Props.C02bp
