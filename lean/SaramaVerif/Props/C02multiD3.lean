/-
  C02 composition, stage C, towards `DeliverProj`: the `deliver` step for a set that holds NOTHING of `p`, from `delOK`
  alone.  Such a set is either hidden (the one-partition worker has no set: NO step) or it is a visible EMPTY set (a
  hand-over while a message of `p` was held and none was buffered hands over the empty projection): then the
  one-partition worker delivers its empty set, without actions.  `proj_deliver_noneOfP_p` covers both.
-/
import SaramaVerif.Props.C02multiD2

set_option linter.unusedSimpArgs false
set_option linter.unusedVariables false

namespace Props.C02sys
open Model Model.Pipeline Model.PipelineN Model.BrokerProd Lemmas.C02sys

/-- an answer for an empty set, nothing held: the set is removed, no actions -/
theorem resp_emptyset (M : Nat) (b : St) (rest : List (List Pipeline.Tok)) (u : Int → BrokerProd.Verdict) (st : Bool)
    (hs : b.sets = [] :: rest) (hw : b.wait = none) :
    resp M b (.verdicts u [] []) st = ({ b with sets := rest, stale := false }, []) := by
  simp [resp, hs, handle, retryTopics, partsOf, loop1, recheck, hw]

theorem projV_parts_toResp (p : Int) (v : Int → Pipeline.Verdict) :
    ∃ u, (projV p (.parts v)).toResp = .verdicts u [] [] := by
  cases h : v p <;> simp [projV, h, Verdict.toResp]

/-- what `delOK` says when the set holds nothing of `p` -/
theorem delOK_noneOfP {p : Int} {sN : SysN} {w : Nat} {sent : List Pipeline.Tok} {rest : List (List Pipeline.Tok)}
    {r : RespN} {base : Int → Nat} (hd : delOK p sN w = true) (hsets : (sN.wk w).bp.sets = sent :: rest)
    (hpd : (sN.wk w).pend = some (r, base)) (he : projL p sent = []) :
    (∃ v, r = .parts v) ∧ projWait p (sN.wk w).bp.wait = none := by
  simp only [delOK, hsets, hpd, he] at hd
  cases r with
  | conn a => simp [isConn] at hd
  | parts v => exact ⟨⟨v, rfl⟩, by simpa [isConn] using hd⟩

/-- **the `deliver` step for a set that holds nothing of `p`** (under `delOK`): no step if the set is hidden (the
    one-partition worker has no set), the `deliver` step of the empty set if it is visible -/
theorem proj_deliver_noneOfP_c {M : Nat} {p : Int} {sN sN' : SysN} {s : Sys} {w : Nat} {still : Bool}
    {sent : List Pipeline.Tok} {rest : List (List Pipeline.Tok)}
    (h : WRel (BRp p) p sN s) (hd : delOK p sN w = true)
    (hsets : (sN.wk w).bp.sets = sent :: rest) (he : projL p sent = [])
    (hs : sysStepN M sN (.deliver w still) = some sN') :
    ((s.wk w).bp.sets = [] ∧ WRel (BRp p) p sN' s) ∨
      ((s.wk w).bp.sets ≠ [] ∧ ∃ s', sysStep M s (.deliver w still) = some s' ∧ WRel (BRp p) p sN' s') := by
  cases hpd : (sN.wk w).pend with
  | none => simp [sysStepN, hpd] at hs
  | some rb =>
    obtain ⟨r, base⟩ := rb
    obtain ⟨⟨v, rfl⟩, hwt⟩ := delOK_noneOfP hd hsets hpd he
    obtain ⟨hid, hb, hs1, hhid, hk0, hpend⟩ := h.br w
    cases hid with
    | true =>
      exact Or.inl ⟨by simpa using hs1, proj_deliver_hidden_parts_p h hpd hsets he hwt (by simpa using hs1) hs⟩
    | false =>
      refine Or.inr ⟨by rw [hs1, hsets]; simp, ?_⟩
      obtain ⟨a1, a2, a3, a4⟩ := brp_fields hb
      have he' : onPart p sent = [] := by simpa [projL] using he
      have hw' : ∀ t, (sN.wk w).bp.wait = some t → t.part ≠ p := by
        intro t ht hp; simp [projWait, ht, hp] at hwt
      obtain ⟨fa, c1, _, _, _, _⟩ :=
        resp_hidden_parts M (sN.wk w).bp sent rest (fun q => bvOf (v q)) still p hsets he' hw'
      have pb := projB_hidden_parts M (sN.wk w).bp sent rest (fun q => bvOf (v q)) still p hsets he hwt
      have hjs : (s.wk w).bp.sets = [] :: rest.map (projL p) := by rw [hs1, hsets]; simp [he]
      have hjw : (s.wk w).bp.wait = none := by rw [a4, hwt]
      have hjp : (s.wk w).pend = some (projV p (.parts v), base p) := by rw [hpend, hpd]; rfl
      obtain ⟨u, hu⟩ := projV_parts_toResp p v
      have hst := resp_emptyset M (s.wk w).bp (rest.map (projL p)) u still hjs hjw
      have hstep : sysStep M s (.deliver w still) = some { s with wk := setW s.wk w ⟨(s.wk w).inq, ({ (s.wk w).bp with sets := rest.map (projL p), stale := false } : St), none⟩ } := by
        simp only [sysStep, hjp, bpRun, hu, step, hst]
        simp [bpActs]
      simp only [sysStepN, hpd, bpRunN, RespN.toResp, step] at hs
      by_cases hdd : (resp M (sN.wk w).bp (.verdicts (fun q => bvOf (v q)) [] []) still).2 = [Action.disabled]
      · simp [hdd] at hs
      · simp only [hdd, ↓reduceIte] at hs
        cases hs
        have hq0 : QRel p { sN with wk := setWN sN.wk w ⟨(sN.wk w).inq,
            (resp M (sN.wk w).bp (.verdicts (fun q => bvOf (v q)) [] []) still).1, none⟩ } s :=
          ⟨h.q.next, h.q.dq, h.q.pq, h.q.pp, h.q.ret, h.q.ldr, h.q.log, h.q.succ, h.q.errs, h.q.pqp⟩
        obtain ⟨r1, r2, r3⟩ := bpActsN_foreign (resp M (sN.wk w).bp (.verdicts (fun q => bvOf (v q)) [] []) still).2
          base hq0 fa
        refine ⟨_, hstep,
          ⟨r1.next, r1.dq, r1.pq, r1.pp, r1.ret, r1.ldr, r1.log, r1.succ, r1.errs, r1.pqp⟩,
          by rw [r3]; exact h.cur, fun k => ?_, fun k => ?_⟩
        · rw [r2]
          by_cases hk : k = w
          · subst hk; simp only [setW, setWN, if_true]; exact h.inq k
          · simp only [setW, setWN, hk, if_false]; exact h.inq k
        · rw [r2]
          by_cases hk : k = w
          · subst hk
            simp only [setW, setWN, if_true]
            refine ⟨false, ?_, by rw [c1]; rfl, (fun e => by cases e), (fun _ => rfl), rfl⟩
            show ({ (s.wk k).bp with sets := rest.map (projL p), stale := false } : St) = _
            rw [pb]
            conv => lhs; rw [hb]
          · simp only [setW, setWN, hk, if_false]; exact h.br k


/-- the same, without saying which case -/
theorem proj_deliver_noneOfP_p {M : Nat} {p : Int} {sN sN' : SysN} {s : Sys} {w : Nat} {still : Bool}
    {sent : List Pipeline.Tok} {rest : List (List Pipeline.Tok)}
    (h : WRel (BRp p) p sN s) (hd : delOK p sN w = true)
    (hsets : (sN.wk w).bp.sets = sent :: rest) (he : projL p sent = [])
    (hs : sysStepN M sN (.deliver w still) = some sN') :
    WRel (BRp p) p sN' s ∨ ∃ c' s', sysStep M s c' = some s' ∧ WRel (BRp p) p sN' s' := by
  rcases proj_deliver_noneOfP_c h hd hsets he hs with ⟨_, h1⟩ | ⟨_, s', h1, h2⟩
  · exact Or.inl h1
  · exact Or.inr ⟨_, s', h1, h2⟩

end Props.C02sys
