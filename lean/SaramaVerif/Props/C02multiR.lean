/-
  C02 composition, stage C, system level: a worker takes a token from its input channel (`bpRecv`) in the model with
  several partitions, seen from partition `p`.  `BRx`: the inner state of the one-partition worker IS the projection
  `projB p` of the shared worker's, and no answer is pending on either side.
    * `proj_bpRecv_own`     - PROVED: a token of `p`: the `bpRecv` step of `Model.Pipeline` on the relabelled token.
    * a token of another partition: at worker level `recv_proj_foreign` (Props/C02multiW.lean): the projection of
      the worker does not move, up to the `stale` flag (`BRs`); the system-level statement is NOT proved here.
  Missing for composing the steps along a run: the system-level foreign-token case, a congruence of
  `BrokerProd.step` under "equal up to stale" (the worker step reads `stale` only in the hand-over of an empty
  buffer), the hand-over / broker / deliver steps with hidden sets, and the answer step.
-/
import SaramaVerif.Props.C02multiS

set_option linter.unusedSimpArgs false

namespace Props.C02sys
open Model Model.Pipeline Model.PipelineN Model.BrokerProd Lemmas.C02sys

def BRx (p : Int) (k : WorkerN) (j : Worker) : Prop := j.bp = projB p k.bp ∧ k.pend = none ∧ j.pend = none

/-- related up to the `stale` flag -/
def BRs (p : Int) (k : WorkerN) (j : Worker) : Prop :=
  j.bp = { projB p k.bp with stale := j.bp.stale } ∧ k.pend = none ∧ j.pend = none

theorem innerOnly_BRx (p : Int) : InnerOnly (BRx p) := by
  intro k k' j j' h1 h2 h3 h4 ⟨a, b, c⟩
  exact ⟨by rw [h3, h1]; exact a, by rw [h2]; exact b, by rw [h4]; exact c⟩

theorem BRx.toBRs {p : Int} {k : WorkerN} {j : Worker} (h : BRx p k j) : BRs p k j :=
  ⟨by rw [h.1], h.2.1, h.2.2⟩

/-- relabel the partition of an action to 0 -/
def relabA : Action → Action
  | .ackSyn _ => .ackSyn 0
  | .requeue id _ r f => .requeue id 0 r f
  | .expire id _ f => .expire id 0 f
  | .add id _ => .add id 0
  | .succ id _ => .succ id 0
  | .fail id _ => .fail id 0
  | .drop _ => .drop 0
  | a => a

theorem retryMsg_relab (M : Nat) (t : Pipeline.Tok) : retryMsg M (relab t) = relabA (retryMsg M t) := by
  have hf : Tok.isFin (relab t) = Tok.isFin t := rfl
  by_cases h : t.retries ≥ M
  · simp [retryMsg, relab, h, relabA, Tok.isFin]
  · simp [retryMsg, relab, h, relabA, Tok.isFin]

/-- the actions of the projected worker taking the relabelled token are the relabelled actions -/
theorem recv_proj_own_acts (M : Nat) (p : Int) (b : St) (t : Pipeline.Tok) (ov : Bool) (ht : t.part = p) (hw : b.wait = none) :
    (step M (projB p b) (.recv (relab t) ov)).2 = (step M b (.recv t ov)).2.map relabA := by
  have hwp : (projB p b).wait = none := by simp [projB, projWait, hw]
  have hn := needsRetry_proj p b
  have hr := retryMsg_relab M t
  by_cases hk : t.kind = .syn
  · simp [step, recv, hw, hwp, relab_kind, hk, relab_part, relabA]
  · cases hnr : needsRetry b p with
    | true =>
      have hnr' : needsRetry (projB p b) 0 = true := by rw [hn, hnr]
      simp [step, recv, hw, hwp, relab_kind, hk, relab_part, ht, hnr, hnr', relabA, relab]
      exact hr
    | false =>
      have hnr' : needsRetry (projB p b) 0 = false := by rw [hn, hnr]
      by_cases hf : t.kind = .fin
      · simp [step, recv, hw, hwp, relab_kind, hk, relab_part, ht, hnr, hnr', hf, relabA, relab]
        have hr' := hr
        simp only [relab, hf] at hr'
        exact hr'
      · cases ov <;> simp [step, recv, hw, hwp, relab_kind, hk, relab_part, ht, hnr, hnr', hf, relabA, relab]

/-- the outcome-bearing actions of a list are all of partition `p` -/
def OwnActs (p : Int) (as : List Action) : Prop :=
  ∀ a ∈ as, (∀ id q r f, a = Action.requeue id q r f → q = p) ∧ (∀ id q, a = Action.succ id q → q = p) ∧
    (∀ id q f, a = Action.expire id q f → q = p) ∧ (∀ id q, a = Action.fail id q → q = p)

theorem bpActN_keep (s : SysN) (off : Int → Nat) (a : Action) :
    (bpActN s off a).1.wk = s.wk ∧ (bpActN s off a).1.cur = s.cur ∧ (bpActN s off a).1.next = s.next ∧
    (bpActN s off a).1.dq = s.dq ∧ (bpActN s off a).1.pq = s.pq ∧ (bpActN s off a).1.pp = s.pp ∧
    (bpActN s off a).1.ldr = s.ldr ∧ (bpActN s off a).1.log = s.log := by
  cases a <;> simp [bpActN] <;> (try split) <;> simp

/-- the actions of a worker step that concerns partition `p` only, in both models -/
theorem bpActsN_own {p : Int} (as : List Action) : ∀ {sN : SysN} {s : Sys} (off : Int → Nat), QRel p sN s →
    OwnActs p as →
    QRel p (bpActsN sN off as) (bpActs s (off p) (as.map relabA)) ∧
    (bpActsN sN off as).wk = sN.wk ∧ (bpActsN sN off as).cur = sN.cur ∧
    (bpActs s (off p) (as.map relabA)).wk = s.wk ∧ (bpActs s (off p) (as.map relabA)).cur = s.cur := by
  induction as with
  | nil => intro sN s off h _; exact ⟨h, rfl, rfl, rfl, rfl⟩
  | cons a r ih =>
    intro sN s off h ho
    obtain ⟨k1, k2, k3, k4, k5, k6, k7, k8⟩ := bpActN_keep sN off a
    have hoa := ho a (List.mem_cons_self ..)
    have hor : OwnActs p r := fun x hx => ho x (List.mem_cons_of_mem _ hx)
    have upp : ∀ {α : Type} (f : Int → α) (v : α), upd f p v p = v := fun f v => by simp [upd]
    have step1 : QRel p (bpActN sN off a).1 (bpAct s (off p) (relabA a)).1 ∧
        (bpActN sN off a).2 p = (bpAct s (off p) (relabA a)).2 ∧ (bpAct s (off p) (relabA a)).1.wk = s.wk ∧
        (bpAct s (off p) (relabA a)).1.cur = s.cur := by
      cases a with
      | requeue id q rr f =>
        have hq := hoa.1 id q rr f rfl; subst hq
        refine ⟨⟨h.next, h.dq, h.pq, h.pp, ?_, h.ldr, h.log, h.succ, h.errs, h.pqp⟩, rfl, rfl, rfl⟩
        simp only [bpActN, bpAct, relabA]
        rw [projQ_push_same q _ rfl, h.ret]; rfl
      | succ id q =>
        have hq := hoa.2.1 id q rfl; subst hq
        refine ⟨⟨h.next, h.dq, h.pq, h.pp, h.ret, h.ldr, h.log, ?_, h.errs, h.pqp⟩, by simp [bpActN, bpAct, relabA, upd], rfl, rfl⟩
        simp only [bpActN, bpAct, relabA, upp, h.succ]
      | expire id q f =>
        have hq := hoa.2.2.1 id q f rfl; subst hq
        refine ⟨⟨h.next, h.dq, h.pq, h.pp, h.ret, h.ldr, h.log, h.succ, ?_, h.pqp⟩, rfl, rfl, rfl⟩
        simp only [bpActN, bpAct, relabA]
        split
        · exact h.errs
        · rw [upp, h.errs]
      | fail id q =>
        have hq := hoa.2.2.2 id q rfl; subst hq
        refine ⟨⟨h.next, h.dq, h.pq, h.pp, h.ret, h.ldr, h.log, h.succ, ?_, h.pqp⟩, rfl, rfl, rfl⟩
        simp only [bpActN, bpAct, relabA, upp, h.errs]
      | ackSyn q => exact ⟨h, rfl, rfl, rfl⟩
      | refuse id => exact ⟨h, rfl, rfl, rfl⟩
      | add id q => exact ⟨h, rfl, rfl, rfl⟩
      | drop q => exact ⟨h, rfl, rfl, rfl⟩
      | closing => exact ⟨h, rfl, rfl, rfl⟩
      | abandon => exact ⟨h, rfl, rfl, rfl⟩
      | disabled => exact ⟨h, rfl, rfl, rfl⟩
    obtain ⟨q1, q2, q3, q4⟩ := step1
    obtain ⟨r1, r2, r3, r4, r5⟩ := ih (bpActN sN off a).2 q1 hor
    simp only [bpActsN, bpActs, List.map_cons]
    rw [q2] at r1 r4 r5
    exact ⟨r1, r2.trans k1, r3.trans k2, r4.trans q3, r5.trans q4⟩

theorem recv_acts_mem (M : Nat) (b : St) (t : Pipeline.Tok) (ov : Bool) (hw : b.wait = none) :
    ∀ a ∈ (step M b (.recv t ov)).2, a = Action.ackSyn t.part ∨ a = Action.refuse t.id ∨ a = retryMsg M t ∨
      a = Action.add t.id t.part := by
  intro a ha
  by_cases hk : t.kind = .syn
  · simp [step, recv, hw, hk] at ha; exact Or.inl ha
  · cases hn : needsRetry b t.part with
    | true => simp [step, recv, hw, hk, hn] at ha; rcases ha with e | e <;> simp [e]
    | false =>
      by_cases hf : t.kind = .fin
      · simp [step, recv, hw, hk, hn, hf] at ha; rcases ha with e | e <;> simp [e]
      · cases ov <;> simp [step, recv, hw, hk, hn, hf] at ha
        exact Or.inr (Or.inr (Or.inr ha))

theorem recv_ownActs (M : Nat) (b : St) (t : Pipeline.Tok) (ov : Bool) (hw : b.wait = none) :
    OwnActs t.part (step M b (.recv t ov)).2 := by
  intro a ha
  rcases recv_acts_mem M b t ov hw a ha with e | e | e | e
  · subst e; refine ⟨?_, ?_, ?_, ?_⟩ <;> intros <;> simp_all
  · subst e; refine ⟨?_, ?_, ?_, ?_⟩ <;> intros <;> simp_all
  · subst e
    simp only [retryMsg]
    split <;> refine ⟨?_, ?_, ?_, ?_⟩ <;> intros <;> simp_all
  · subst e; refine ⟨?_, ?_, ?_, ?_⟩ <;> intros <;> simp_all

/-- **a worker takes a token of `p`: the `bpRecv` step of the one-partition model** -/
theorem proj_bpRecv_own {M : Nat} {p : Int} {sN sN' : SysN} {s : Sys} {w : Nat} {ov : Bool} {t : Pipeline.Tok}
    {r : List Pipeline.Tok} (h : WRel (BRx p) p sN s) (hq : (sN.wk w).inq = t :: r) (ht : t.part = p)
    (hs : sysStepN M sN (.bpRecv w ov) = some sN') :
    ∃ s', sysStep M s (.bpRecv w ov) = some s' ∧ WRel (BRx p) p sN' s' := by
  obtain ⟨hb, hpN, hpS⟩ := h.br w
  simp only [sysStepN, hq, hpN, bpRunN] at hs
  split at hs
  · cases hs
  · rename_i hd
    simp only [Option.some.injEq] at hs
    have hw : (sN.wk w).bp.wait = none := recv_disabled M _ t ov hd
    have hwp : (projB p (sN.wk w).bp).wait = none := by simp [projB, projWait, hw]
    have hsq : (s.wk w).inq = relab t :: projQ p r := by rw [h.inq w, hq, projQ_cons_same ht]
    have hen := recv_enabled M (projB p (sN.wk w).bp) (relab t) ov hwp
    have hst := recv_proj_own M p (sN.wk w).bp t ov ht hw
    have hacts := recv_proj_own_acts M p (sN.wk w).bp t ov ht hw
    have hown : OwnActs p (step M (sN.wk w).bp (.recv t ov)).2 := by rw [← ht]; exact recv_ownActs M _ t ov hw
    have hq0 : QRel p { sN with wk := setWN sN.wk w ⟨r, (step M (sN.wk w).bp (.recv t ov)).1, none⟩ }
        { s with wk := setW s.wk w ⟨projQ p r, (step M (projB p (sN.wk w).bp) (.recv (relab t) ov)).1, none⟩ } :=
      ⟨h.q.next, h.q.dq, h.q.pq, h.q.pp, h.q.ret, h.q.ldr, h.q.log, h.q.succ, h.q.errs, h.q.pqp⟩
    obtain ⟨r1, r2, r3, r4, r5⟩ := bpActsN_own (step M (sN.wk w).bp (.recv t ov)).2 (fun _ => 0) hq0 hown
    rw [hs] at r1 r2 r3
    have hen' : ¬(List.map relabA (step M (sN.wk w).bp (.recv t ov)).2 = [Action.disabled]) := by rw [← hacts]; exact hen
    refine ⟨bpActs { s with wk := setW s.wk w ⟨projQ p r, (step M (projB p (sN.wk w).bp) (.recv (relab t) ov)).1, none⟩ } 0
      (List.map relabA (step M (sN.wk w).bp (.recv t ov)).2), by
        simp only [sysStep, hsq, hpS, hb, bpRun, hacts, hen', if_false], ?_⟩
    refine ⟨r1, by rw [r5, r3]; exact h.cur, fun k => ?_, fun k => ?_⟩
    · rw [r4, r2]
      by_cases hk : k = w
      · subst hk; simp [setW, setWN]
      · simp only [setW, setWN, hk, if_false]; exact h.inq k
    · rw [r4, r2]
      by_cases hk : k = w
      · subst hk; simp only [setW, setWN, if_true]; exact ⟨hst, rfl, rfl⟩
      · simp only [setW, setWN, hk, if_false]; exact h.br k

/-! ### non-vacuity -/

theorem projB_init (p : Int) : projB p {} = {} := by
  simp only [projB, projWait, projL, onPart]
  congr 1
  funext q; simp

example : WRel (BRx 0) 0 {} {} := ⟨qrel_init 0, rfl, fun _ => rfl, fun _ => ⟨(projB_init 0).symm, rfl, rfl⟩⟩

/-- in `exTwo` the 10th and 11th choices are worker 0 taking the syn and then message 0 of partition 0 -/
example : ((runN 2 {} (exTwo.take 9)).map (fun s => ((s.wk 0).inq.head?.map (·.part)))) = some (some 0) := by decide
example : ((runN 2 {} (exTwo.take 9)).bind (fun s => sysStepN 2 s (.bpRecv 0 false))).isSome = true := by decide

end Props.C02sys
