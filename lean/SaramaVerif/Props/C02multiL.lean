/-
  C02 composition, stage C: the VISIBLE `deliver` step with a per-partition answer, lifted to the system step.
  `proj_deliver_visible_parts_p`: the set at the bridge of `w` holds something of `p`, the prepared answer is `.parts v`:
  the `deliver` step of the model with several partitions is the `deliver` step of the one-partition model (answer
  `projV p (.parts v)`, offsets from `base p`), `WRel (BRp p)` is kept.  (Worker level: `resp_proj_parts`; actions:
  `bpActsN_mixed`, `bpActs_filter_out`, `resp_P0_out`.)
-/
import SaramaVerif.Props.C02multiL0

set_option linter.unusedSimpArgs false
set_option linter.unusedVariables false

namespace Props.C02sys
open Model Model.Pipeline Model.PipelineN Model.BrokerProd Lemmas.C02sys

theorem proj_deliver_visible_parts_p {M : Nat} {p : Int} {sN sN' : SysN} {s : Sys} {w : Nat} {still : Bool}
    {v : Int → Pipeline.Verdict} {base : Int → Nat} {sent : List Pipeline.Tok} {rest : List (List Pipeline.Tok)}
    (h : WRel (BRp p) p sN s) (hpd : (sN.wk w).pend = some (.parts v, base))
    (hsets : (sN.wk w).bp.sets = sent :: rest) (hne : projL p sent ≠ [])
    (hs : sysStepN M sN (.deliver w still) = some sN') :
    ∃ s', sysStep M s (.deliver w still) = some s' ∧ WRel (BRp p) p sN' s' := by
  obtain ⟨hid, hb, hs1, hhid, hk0, hpend⟩ := h.br w
  cases hid with
  | true => exact absurd ((hhid rfl).2 sent (by rw [hsets]; simp)) hne
  | false =>
    obtain ⟨a1, a2, a3, a4⟩ := brp_fields hb
    have hjs : (s.wk w).bp.sets = projL p sent :: rest.map (projL p) := by rw [hs1, hsets]; rfl
    have hjp : (s.wk w).pend = some (projV p (.parts v), base p) := by rw [hpend, hpd]; rfl
    obtain ⟨c0, c1, c2, c3, c4, c5, c6⟩ := resp_proj_parts M (sN.wk w).bp (s.wk w).bp sent rest (rest.map (projL p))
      (fun q => bvOf (v q)) still p hsets hjs hne a1 a2 a3 a4
    -- the one-partition step
    have hen : (step M (s.wk w).bp (.resp (.verdicts (fun _ => bvOf (v p)) [] []) still)).2 ≠ [Action.disabled] :=
      resp_enabled M _ _ still (by rw [hjs]; exact List.cons_ne_nil _ _)
    have hstep : sysStep M s (.deliver w still) = some (bpActs { s with wk := setW s.wk w ⟨(s.wk w).inq, (resp M (s.wk w).bp (.verdicts (fun _ => bvOf (v p)) [] []) still).1, none⟩ } (base p) (resp M (s.wk w).bp (.verdicts (fun _ => bvOf (v p)) [] []) still).2) := by
      simp only [sysStep, hjp, bpRun, projV_parts_toResp_eq]
      simp only [step] at hen ⊢
      simp only [hen, ↓reduceIte]
    -- the actions of the one-partition worker: only those of partition 0 count
    have hout : (resp M (s.wk w).bp (.verdicts (fun _ => bvOf (v p)) [] []) still).2.filter isOut =
        ((resp M (sN.wk w).bp (.verdicts (fun q => bvOf (v q)) [] []) still).2.filter (isOwn p)).map relabA := by
      cases hsr : projL p sent with
      | nil => exact absurd hsr hne
      | cons t r =>
        have hP : P0 (t :: r) := hsr ▸ P0_projL p sent
        have hPb : P0 (s.wk w).bp.buffer := a3 ▸ P0_projL p _
        have hw0 : ∀ t', (s.wk w).bp.wait = some t' → t'.part = 0 := by
          intro t' ht'
          rw [a4] at ht'
          cases hwt : (sN.wk w).bp.wait with
          | none => rw [hwt] at ht'; cases ht'
          | some t0 =>
            rw [hwt] at ht'
            simp only [projWait] at ht'
            split at ht'
            · cases ht'; rfl
            · cases ht'
        rw [resp_P0_out M (s.wk w).bp t r (rest.map (projL p)) (bvOf (v p)) still (by rw [hjs, hsr]) hP hPb hw0]
        exact c0
    -- the N-side
    simp only [sysStepN, hpd, bpRunN, RespN.toResp, step] at hs
    by_cases hdd : (resp M (sN.wk w).bp (.verdicts (fun q => bvOf (v q)) [] []) still).2 = [Action.disabled]
    · simp [hdd] at hs
    · simp only [hdd, ↓reduceIte] at hs
      cases hs
      have hq0 : QRel p { sN with wk := setWN sN.wk w ⟨(sN.wk w).inq, (resp M (sN.wk w).bp (.verdicts (fun q => bvOf (v q)) [] []) still).1, none⟩ } { s with wk := setW s.wk w ⟨(s.wk w).inq, (resp M (s.wk w).bp (.verdicts (fun _ => bvOf (v p)) [] []) still).1, none⟩ } :=
        ⟨h.q.next, h.q.dq, h.q.pq, h.q.pp, h.q.ret, h.q.ldr, h.q.log, h.q.succ, h.q.errs, h.q.pqp⟩
      obtain ⟨r1, r2, r3, r4, r5⟩ :=
        bpActsN_mixed (resp M (sN.wk w).bp (.verdicts (fun q => bvOf (v q)) [] []) still).2 base hq0
      rw [← hout, bpActs_filter_out] at r1 r4 r5
      refine ⟨_, hstep, r1, by rw [r5, r3]; exact h.cur, fun k => ?_, fun k => ?_⟩
      · rw [r2, r4]
        by_cases hk : k = w
        · subst hk; simp only [setW, setWN, if_true]; exact h.inq k
        · simp only [setW, setWN, hk, if_false]; exact h.inq k
      · rw [r2, r4]
        by_cases hk : k = w
        · subst hk
          simp only [setW, setWN, if_true]
          refine ⟨false, brp_mk _ _ c1 c2 c3 c4, by rw [c5, c6]; rfl, (fun e => by cases e), (fun _ => rfl), rfl⟩
        · simp only [setW, setWN, hk, if_false]; exact h.br k

end Props.C02sys
