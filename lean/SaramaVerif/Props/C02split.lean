/-
  C02 composition: THE SIMULATION behind the per-stay split, and with it LogOrder for runs in which the partition
  producer selects a worker again.
    * `split_sim` - every run of `Model.Pipeline` that satisfies the decidable side condition (`splitOK`: whenever
      a worker takes a chaser it is afterwards as a fresh worker; and at most 64 lookups, the number of worker
      incarnations the model has per broker) is simulated by a HANDOVER CHAIN - one fresh worker per stay - with the
      same partition log, successes and errors.
    * `log_order_reselect` - hence `LogOrder` for these runs, with no condition on which workers the lookups name.
  Proof: the relation `Lemmas.C02sys.Rel` (a real worker's input channel is the concatenation of the inputs of the
  chain workers of its stays, its state is the state of the stay it is serving, the waiting stays are untouched fresh
  workers), one simulation lemma per choice (Lemmas/C02splitRel, C02splitW, C02splitP), and the general invariant
  that all tokens are of partition 0 (Lemmas/C02splitInv), which makes "as a fresh worker" an equality of states.
-/
import SaramaVerif.Lemmas.C02splitP

namespace Props.C02sys
open Model Model.Pipeline Lemmas.C02sys

/-- the side condition of the simulation, decidable -/
def splitOKs (M : Nat) (cs : List Choice) : Bool :=
  splitOK M {} cs && decide ((cs.flatMap lookupsOf).length ≤ 64)

theorem splitOK_cons {M : Nat} {s s1 : Sys} {c : Choice} {cs : List Choice} (hs : sysStep M s c = some s1)
    (h : splitOK M s (c :: cs) = true) :
    splitOK M s1 cs = true ∧
    (∀ w ov, c = .bpRecv w ov → ∀ y r, (s.wk w).inq = y :: r → y.kind = .fin → freshAfter (s1.wk w) = true) := by
  simp only [splitOK, hs, Bool.and_eq_true] at h
  refine ⟨h.2, ?_⟩
  intro w ov hc y r hq hk
  subst hc
  have := h.1
  simp only [hq, hk, if_true] at this
  exact this

/-- ONE STEP of the simulation -/
theorem sim_step {M : Nat} (hM : 1 ≤ M) {seen : List Nat} {g : Ghost} {s t s1 : Sys} (h : Rel M seen g s t)
    (c : Choice) (hs : sysStep M s c = some s1)
    (hok : ∀ w ov, c = .bpRecv w ov → ∀ y r, (s.wk w).inq = y :: r → y.kind = .fin → freshAfter (s1.wk w) = true)
    (hb : seen.length + (lookupsOf c).length ≤ 64) :
    ∃ c' g' t1, sysStep M t c' = some t1 ∧ Rel M (seen ++ lookupsOf c') g' s1 t1 ∧
      (lookupsOf c').length ≤ (lookupsOf c).length ∧ (∀ j ∈ lookupsOf c', j ∉ seen) ∧ (lookupsOf c').Nodup := by
  have plain : ∀ c0 : Choice, lookupsOf c0 = [] → (∃ g' t1, sysStep M t c0 = some t1 ∧ Rel M seen g' s1 t1) →
      ∃ c' g' t1, sysStep M t c' = some t1 ∧ Rel M (seen ++ lookupsOf c') g' s1 t1 ∧
        (lookupsOf c').length ≤ (lookupsOf c).length ∧ (∀ j ∈ lookupsOf c', j ∉ seen) ∧ (lookupsOf c').Nodup := by
    intro c0 hl ⟨g', t1, h1, h2⟩
    exact ⟨c0, g', t1, h1, by rw [hl, List.append_nil]; exact h2, by rw [hl]; simp, by rw [hl]; simp, by rw [hl]; simp⟩
  cases c with
  | submit => obtain ⟨t1, h1, h2⟩ := sim_plain hM h .submit (Or.inl rfl) hs; exact plain .submit rfl ⟨g, t1, h1, h2⟩
  | retryOut =>
    obtain ⟨t1, h1, h2⟩ := sim_plain hM h .retryOut (Or.inr (Or.inl rfl)) hs; exact plain .retryOut rfl ⟨g, t1, h1, h2⟩
  | dispatch =>
    obtain ⟨t1, h1, h2⟩ := sim_plain hM h .dispatch (Or.inr (Or.inr (Or.inl rfl))) hs
    exact plain .dispatch rfl ⟨g, t1, h1, h2⟩
  | moveLeader b =>
    obtain ⟨t1, h1, h2⟩ := sim_plain hM h (.moveLeader b) (Or.inr (Or.inr (Or.inr ⟨b, rfl⟩))) hs
    exact plain (.moveLeader b) rfl ⟨g, t1, h1, h2⟩
  | ppRecv lks =>
    obtain ⟨lks', g', t1, h1, h2, h3, h4, h5⟩ := sim_ppRecv hM h (by simpa [lookupsOf] using hb) hs
    exact ⟨.ppRecv lks', g', t1, h1, h2, h3, h4, h5⟩
  | bpRecv w ov =>
    obtain ⟨a, g', t1, h1, h2⟩ := sim_bpRecv hM h hs (hok w ov rfl)
    exact plain (.bpRecv a ov) rfl ⟨g', t1, h1, h2⟩
  | handover w =>
    obtain ⟨a, t1, h1, h2⟩ := sim_handover hM h hs; exact plain (.handover a) rfl ⟨g, t1, h1, h2⟩
  | broker w v =>
    obtain ⟨a, t1, h1, h2⟩ := sim_broker hM h hs; exact plain (.broker a v) rfl ⟨g, t1, h1, h2⟩
  | deliver w st =>
    obtain ⟨a, t1, h1, h2⟩ := sim_deliver hM h hs; exact plain (.deliver a st) rfl ⟨g, t1, h1, h2⟩
  | closeW w =>
    obtain ⟨a, t1, h1, h2⟩ := sim_closeW hM h hs; exact plain (.closeW a) rfl ⟨g, t1, h1, h2⟩

theorem sim_run {M : Nat} (hM : 1 ≤ M) (cs : List Choice) : ∀ {seen : List Nat} {g : Ghost} {s t s' : Sys},
    Rel M seen g s t → splitOK M s cs = true → seen.length + (cs.flatMap lookupsOf).length ≤ 64 →
    run M s cs = some s' →
    ∃ cs' seen' g' t', run M t cs' = some t' ∧ Rel M seen' g' s' t' ∧ (cs'.flatMap lookupsOf).Nodup ∧
      (∀ j ∈ cs'.flatMap lookupsOf, j ∉ seen) := by
  induction cs with
  | nil =>
    intro seen g s t s' h _ _ hr
    simp only [run, Option.some.injEq] at hr; subst hr
    exact ⟨[], seen, g, t, rfl, h, by simp, by simp⟩
  | cons c cs ih =>
    intro seen g s t s' h hok hb hr
    simp only [run] at hr
    cases hs : sysStep M s c with
    | none => simp [hs] at hr
    | some s1 =>
      simp only [hs] at hr
      obtain ⟨hok1, hfin⟩ := splitOK_cons hs hok
      simp only [List.flatMap_cons, List.length_append] at hb
      obtain ⟨c', g1, t1, k1, k2, k3, k4, k5⟩ := sim_step hM h c hs hfin (by omega)
      obtain ⟨cs', seen', g', t', r1, r2, r3, r4⟩ := ih k2 hok1 (by simp only [List.length_append]; omega) hr
      refine ⟨c' :: cs', seen', g', t', by simp only [run, k1]; exact r1, r2, ?_, ?_⟩
      · simp only [List.flatMap_cons]
        exact List.nodup_append.2 ⟨k5, r3, fun x hx y hy e => r4 y hy (by rw [← e]; exact List.mem_append_right _ hx)⟩
      · intro j hj
        simp only [List.flatMap_cons] at hj
        rcases List.mem_append.1 hj with e | e
        · exact k4 j e
        · exact fun hm => r4 j e (List.mem_append_left _ hm)

/-- **the simulation behind the per-stay split**: a run whose workers are, whenever they take a chaser, as fresh
    workers afterwards (and that has at most 64 lookups) has the same partition log, successes and errors as a
    handover chain -/
theorem split_sim {M : Nat} (hM : 1 ≤ M) (cs : List Choice) (s : Sys) (hok : splitOKs M cs = true)
    (hr : run M {} cs = some s) :
    ∃ cs' s', HandoverChain cs' ∧ run M {} cs' = some s' ∧ s'.log = s.log ∧ s'.succ = s.succ ∧ s'.errs = s.errs := by
  simp only [splitOKs, Bool.and_eq_true, decide_eq_true_eq] at hok
  obtain ⟨cs', seen', g', t', r1, r2, r3, _⟩ := sim_run hM cs (rel_init M) hok.1 (by simpa using hok.2) hr
  exact ⟨cs', t', r3, r1, r2.log.symm, r2.succ.symm, r2.errs.symm⟩

/-- **log order with re-selection**: for every retry budget `M ≥ 1` and every choice sequence that satisfies the
    decidable side condition `splitOKs` - NO condition on which workers the leader lookups name: a worker may be
    selected again while it still drains the previous stay - the state reached satisfies `LogOrder` -/
theorem log_order_reselect {M : Nat} (hM : 1 ≤ M) (cs : List Choice) (hok : splitOKs M cs = true) {s : Sys}
    (hr : run M {} cs = some s) : LogOrder s := by
  obtain ⟨cs', s', hc, hr', hl, hs, _⟩ := split_sim hM cs s hok hr
  have := log_order_handover_chain hM cs' hc hr'
  simpa [LogOrder, hl, hs] using this

example : splitOKs 2 exReselect = true := by decide
example : ∀ s, run 2 {} exReselect = some s → LogOrder s := fun _ h => log_order_reselect (by decide) _ (by decide) h

end Props.C02sys
