/-
  C02 composition, stage C: what is PROVED of `DeliverProj`, and the run-level theorems that follow.
    * `DeliverVisProj M p` - (a named Prop; PROVED in Props/C02multiC2.lean, `deliverVisProj_holds`), narrower than `DeliverProj`: the projection of the `deliver` step for
      a set that holds SOMETHING of `p`.
    * `deliverProj_of_vis` - PROVED: `DeliverVisProj M p → DeliverProj M p` (a set that holds nothing of `p` is
      `proj_deliver_noneOfP_p`; no set at the bridge means no prepared answer, so no `deliver` step).
    * `ProjSim_partial'`, `log_order_every_partition_partial'` - as the unprimed theorems, from `DeliverVisProj`.
    * `projOKn` - `projOK` with `delOK` restricted to exclude exactly the unfinished case (`delOKn`: the delivered set
      holds nothing of `p`, the answer is per-partition, no message of `p` is held); `ProjSim_noneDelivered` and
      `log_order_every_partition_noneDelivered` - UNCONDITIONAL (no open hypothesis) under `projOKn`.
-/
import SaramaVerif.Props.C02multiD3

set_option linter.unusedSimpArgs false
set_option linter.unusedVariables false

namespace Props.C02sys
open Model Model.Pipeline Model.PipelineN Model.BrokerProd Lemmas.C02sys

/-- **the projection of the `deliver` step for a set that holds something of `p`** (a named Prop; proved in Props/C02multiC2.lean) -/
def DeliverVisProj (M : Nat) (p : Int) : Prop :=
  ∀ (sN sN' : SysN) (s : Sys) (w : Nat) (st : Bool) (sent : List Pipeline.Tok) (rest : List (List Pipeline.Tok)),
    WRel (BRp p) p sN s → (sN.wk w).bp.sets = sent :: rest → projL p sent ≠ [] →
    sysStepN M sN (.deliver w st) = some sN' →
    WRel (BRp p) p sN' s ∨ ∃ c' s', sysStep M s c' = some s' ∧ WRel (BRp p) p sN' s'

/-- the `deliver` step under `delOK`, given the case of a set that holds something of `p` -/
theorem deliver_step_of_vis {M : Nat} {p : Int} (hv : DeliverVisProj M p) {sN sN' : SysN} {s : Sys} {w : Nat}
    {st : Bool} (h : WRel (BRp p) p sN s) (hd : delOK p sN w = true)
    (hs : sysStepN M sN (.deliver w st) = some sN') :
    WRel (BRp p) p sN' s ∨ ∃ c' s', sysStep M s c' = some s' ∧ WRel (BRp p) p sN' s' := by
  cases hsets : (sN.wk w).bp.sets with
  | nil =>
    obtain ⟨_, _, _, _, hk0, _⟩ := h.br w
    simp [sysStepN, hk0 hsets] at hs
  | cons sent rest =>
    by_cases he : projL p sent = []
    · exact proj_deliver_noneOfP_p h hd hsets he hs
    · exact hv sN sN' s w st sent rest h hsets he hs

theorem deliverProj_of_vis {M : Nat} {p : Int} (hv : DeliverVisProj M p) : DeliverProj M p :=
  fun sN sN' s w st h hd hs => deliver_step_of_vis hv h hd hs

theorem ProjSim_partial' {M : Nat} {p : Int} (hv : DeliverVisProj M p) (cs : List ChoiceN) (sN : SysN)
    (hok : projOK M p {} cs = true) (hr : runN M {} cs = some sN) :
    ∃ (cs' : List Choice) (s : Sys), run M {} cs' = some s ∧ s.log = sN.log p ∧ s.succ = sN.succ p ∧
      s.errs = sN.errs p :=
  ProjSim_partial (deliverProj_of_vis hv) cs sN hok hr

theorem log_order_every_partition_partial' {M : Nat} (hM : 1 ≤ M) {p : Int} (hv : DeliverVisProj M p)
    (cs : List ChoiceN) (sN : SysN) (hok : projOK M p {} cs = true) (hr : runN M {} cs = some sN) :
    ∃ (cs' : List Choice) (s : Sys), run M {} cs' = some s ∧ s.log = sN.log p ∧ s.succ = sN.succ p ∧
      (splitOKs M cs' = true → LogOrderOf (sN.log p) (sN.succ p)) :=
  log_order_every_partition_partial hM (deliverProj_of_vis hv) cs sN hok hr

/-! ### the unconditional form: `delOK` restricted to the finished case -/

/-- the deliver step is one of the PROVED cases: the set holds nothing of `p`, the answer is per-partition, no message
    of `p` is held -/
def delOKn (p : Int) (sN : SysN) (w : Nat) : Bool :=
  match (sN.wk w).bp.sets, (sN.wk w).pend with
  | sent :: _, some (r, _) => (projL p sent).isEmpty && (!isConn r && (projWait p (sN.wk w).bp.wait).isNone)
  | _, _ => true

def projOKn (M : Nat) (p : Int) : SysN → List ChoiceN → Bool
  | _, [] => true
  | sN, c :: cs =>
    match sysStepN M sN c with
    | none => false
    | some sN' =>
      (match c with
        | .broker w r => brOK p sN w r
        | .deliver w _ => delOKn p sN w
        | _ => true) && projOKn M p sN' cs

theorem deliver_step_n {M : Nat} {p : Int} {sN sN' : SysN} {s : Sys} {w : Nat}
    {st : Bool} (h : WRel (BRp p) p sN s) (hd : delOKn p sN w = true)
    (hs : sysStepN M sN (.deliver w st) = some sN') :
    WRel (BRp p) p sN' s ∨ ∃ c' s', sysStep M s c' = some s' ∧ WRel (BRp p) p sN' s' := by
  cases hsets : (sN.wk w).bp.sets with
  | nil =>
    obtain ⟨_, _, _, _, hk0, _⟩ := h.br w
    simp [sysStepN, hk0 hsets] at hs
  | cons sent rest =>
    cases hpd : (sN.wk w).pend with
    | none => simp [sysStepN, hpd] at hs
    | some rb =>
      obtain ⟨r, base⟩ := rb
      simp only [delOKn, hsets, hpd, Bool.and_eq_true] at hd
      have he : projL p sent = [] := by simpa using hd.1
      have hd' : delOK p sN w = true := by
        simp only [delOK, hsets, hpd, Bool.or_eq_true, Bool.and_eq_true]
        exact Or.inr hd.2
      exact proj_deliver_noneOfP_p h hd' hsets he hs

/-- the induction along the run, no open hypothesis -/
theorem proj_run_n {M : Nat} {p : Int} (cs : List ChoiceN) :
    ∀ {sN sN' : SysN} {s : Sys} (pre : List Choice), WRel (BRp p) p sN s → run M {} pre = some s →
    projOKn M p sN cs = true → runN M sN cs = some sN' →
    ∃ cs' s', run M {} cs' = some s' ∧ WRel (BRp p) p sN' s' := by
  induction cs with
  | nil =>
    intro sN sN' s pre h hr _ hrn
    simp only [runN, Option.some.injEq] at hrn; subst hrn
    exact ⟨pre, s, hr, h⟩
  | cons c cs ih =>
    intro sN sN' s pre h hr hok hrn
    simp only [runN] at hrn
    cases hs : sysStepN M sN c with
    | none => simp [hs] at hrn
    | some sN1 =>
      simp only [hs] at hrn
      simp only [projOKn, hs, Bool.and_eq_true] at hok
      obtain ⟨hc, hok1⟩ := hok
      have hstep : WRel (BRp p) p sN1 s ∨ ∃ c' s', sysStep M s c' = some s' ∧ WRel (BRp p) p sN1 s' := by
        by_cases hd : ∃ w st, c = .deliver w st
        · obtain ⟨w, st, rfl⟩ := hd
          exact deliver_step_n h (by simpa using hc) hs
        · refine proj_step_partial h c (fun w st e => hd ⟨w, st, e⟩) ?_ hs
          intro w r e _
          subst e
          simp only [brOK, Bool.and_eq_true, beq_iff_eq, Bool.not_eq_true'] at hc
          refine ⟨hc.1, ?_⟩
          rw [h.q.ldr]
          simpa using hc.2
      rcases hstep with h1 | ⟨c', s', h1, h2⟩
      · exact ih pre h1 hr hok1 hrn
      · exact ih (pre ++ [c']) h2 (run_snoc M pre {} s s' c' hr h1) hok1 hrn

/-- **ProjSim for a partition of which nothing is delivered** (unconditional): under the decidable `projOKn`, the
    projection of a run with several partitions on `p` is a run of the one-partition model with the log, successes
    and errors of `p` -/
theorem ProjSim_noneDelivered {M : Nat} {p : Int} (cs : List ChoiceN) (sN : SysN)
    (hok : projOKn M p {} cs = true) (hr : runN M {} cs = some sN) :
    ∃ (cs' : List Choice) (s : Sys), run M {} cs' = some s ∧ s.log = sN.log p ∧ s.succ = sN.succ p ∧
      s.errs = sN.errs p := by
  obtain ⟨cs', s', h1, h2⟩ := proj_run_n cs [] (wrel_init p) rfl hok hr
  exact ⟨cs', s', h1, h2.q.log, h2.q.succ, h2.q.errs⟩

theorem log_order_every_partition_noneDelivered {M : Nat} (hM : 1 ≤ M) {p : Int}
    (cs : List ChoiceN) (sN : SysN) (hok : projOKn M p {} cs = true) (hr : runN M {} cs = some sN) :
    ∃ (cs' : List Choice) (s : Sys), run M {} cs' = some s ∧ s.log = sN.log p ∧ s.succ = sN.succ p ∧
      (splitOKs M cs' = true → LogOrderOf (sN.log p) (sN.succ p)) := by
  obtain ⟨cs', s, h1, h2, h3, _⟩ := ProjSim_noneDelivered cs sN hok hr
  refine ⟨cs', s, h1, h2, h3, fun hsp => ?_⟩
  have := log_order_reselect hM cs' hsp h1
  rw [logOrder_iff, h2, h3] at this
  exact this

/-! ### non-vacuity: a run in which a set of partition 1 is answered and delivered while a message of partition 0 is
      on its way; afterwards messages of both partitions share a set, which the broker appends (not yet delivered).
      For `p = 0` the `deliver` step is hidden; `projOKn` holds, and the theorem gives the one-partition run. -/

def exHid : List ChoiceN :=
  [.submit 0, .submit 1, .dispatch, .dispatch, .ppRecv 1 [some 0], .bpRecv 0 false, .bpRecv 0 false, .handover 0,
   .broker 0 (.parts (fun _ => .ok)), .deliver 0 false, .ppRecv 0 [some 0], .bpRecv 0 false, .bpRecv 0 false,
   .submit 1, .dispatch, .ppRecv 1 [], .bpRecv 0 false, .handover 0, .broker 0 (.parts (fun _ => .ok))]

example : projOKn 2 0 {} exHid = true := by decide
example : (runN 2 {} exHid).map (fun s => (s.log 0, s.log 1, s.succ 0, s.succ 1)) =
    some ([0], [0, 1], [], [(0, 0)]) := by decide
/-- the first `deliver` of `exTwo` holds messages of both partitions: outside `projOKn`, inside `projOK` -/
example : projOKn 2 0 {} exTwo = false ∧ projOK 2 0 {} exTwo = true := by decide

example : ∃ (cs' : List Choice) (s : Sys), run 2 {} cs' = some s ∧ s.log = [0] ∧ s.succ = [] := by
  cases hr : runN 2 {} exHid with
  | none => exact absurd hr (by decide)
  | some sN =>
    obtain ⟨cs', s, h1, h2, h3, _⟩ := ProjSim_noneDelivered (M := 2) (p := 0) exHid sN (by decide) hr
    have e : (runN 2 {} exHid).map (fun s => (s.log 0, s.succ 0)) = some ([0], []) := by decide
    rw [hr] at e
    simp only [Option.map_some, Option.some.injEq, Prod.mk.injEq] at e
    exact ⟨cs', s, h1, by rw [h2, e.1], by rw [h3, e.2]⟩

example (hv : DeliverVisProj 2 0) : DeliverProj 2 0 := deliverProj_of_vis hv

end Props.C02sys
