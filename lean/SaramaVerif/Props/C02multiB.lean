/-
  C02 composition, stage C, system level: the broker processes a set that carries several partitions (`broker`),
  seen from partition `p`.
    * `dataIds_projL`   - the message ids of the projected set are the ids of the set's messages of `p`.
    * `proj_broker_log` - PROVED: the log of `p` changes exactly as in the one-partition `broker` step on the PROJECTED
      set (appended iff the answer appends for `p`; nothing is appended when the set holds nothing of `p`), and nothing
      else that `QRel p` looks at changes.
  Not proved: the relation of the pending answers (`pend`) through `WRel`, and the `deliver` step (the answer step of
  the worker with several partitions in the set).
-/
import SaramaVerif.Props.C02multiH

set_option linter.unusedSimpArgs false

namespace Props.C02sys
open Model Model.Pipeline Model.PipelineN Model.BrokerProd Lemmas.C02sys

theorem dataIds_projL (p : Int) (l : List Pipeline.Tok) : dataIds (projL p l) = dataIdsOf p l := by
  simp only [dataIds, dataIdsOf, projL, onPart]
  induction l with
  | nil => rfl
  | cons t r ih =>
    by_cases hp : t.part = p
    · by_cases hk : t.kind = .data
      · simp [hp, hk, relab] at ih ⊢; exact ih
      · simp [hp, hk, relab] at ih ⊢; exact ih
    · simp [hp] at ih ⊢; exact ih

/-- **the broker step, seen from `p`** -/
theorem proj_broker_log {M : Nat} {p : Int} {sN sN' : SysN} {s : Sys} {w : Nat} {r : RespN} (h : QRel p sN s)
    (hs : sysStepN M sN (.broker w r) = some sN') :
    ∃ sent rest, (sN.wk w).bp.sets = sent :: rest ∧
      QRel p sN' { s with log := if r.appends p then s.log ++ dataIds (projL p sent) else s.log } := by
  simp only [sysStepN] at hs
  split at hs
  · rename_i sent rest hsets hp
    split at hs
    · cases hs
    · simp only [Option.some.injEq] at hs
      refine ⟨sent, rest, hsets, ?_⟩
      rw [← hs]
      refine ⟨h.next, h.dq, h.pq, h.pp, h.ret, h.ldr, ?_, h.succ, h.errs, h.pqp⟩
      simp only [dataIds_projL, h.log]
  · cases hs

/-! ### non-vacuity: the first broker step of `exTwo` appends message 0 and 1 of partition 0 and nothing of partition 1
    (retriable, not appended) -/

example : ((runN 2 {} (exTwo.take 16)).map (fun s => (s.log 0, s.log 1))) = some ([0, 1], []) := by decide
