import SaramaVerif.Model.IdemBroker
import SaramaVerif.Props.C01
/-
  C05 — the idempotent producer never writes a message twice.

  Broker side (this file, first part): for EVERY arrival history of batches - any resends, reorderings, epochs -
  a leader enforcing Kafka's rules never appends two records with the same (epoch, sequence): the stamps in the
  log are strictly increasing in lexicographic order.  Hence a message is appended at most once PROVIDED the
  producer always sends a given message under the same (epoch, sequence) stamp (`StampFunctional`).
  Producer side (second part): the accounting model stamps a message at most once, only on its first forward.
  What is NOT proved - because it is false of the pinned tree - is that the stamp on the wire is the message's
  stamp: after an epoch bump a resend of an old-epoch message is put into a batch of the new epoch (known
  finding C05:duplicate-append:copies-in-different-epochs); see `no_duplicate_append` for the exact hypothesis.
-/
namespace Props.C05
open Model.IdemBroker

def lexLt (a b : Int × Nat) : Prop := a.1 < b.1 ∨ (a.1 = b.1 ∧ a.2 < b.2)

def stamp (r : Rec) : Int × Nat := (r.epoch, r.seq)

/-- broker invariant -/
structure BInv (s : PState) : Prop where
  sorted : (s.log.map stamp).Pairwise lexLt
  below  : ∀ r ∈ s.log, r.epoch < s.epoch ∨ (r.epoch = s.epoch ∧ r.seq < s.nextSeq)
  fresh  : s.known = false → s.log = []

private theorem mkRecs_mem (epoch : Int) (f : Nat) (ps : List Int) :
    ∀ r ∈ mkRecs epoch f ps, r.epoch = epoch ∧ f ≤ r.seq ∧ r.seq < f + ps.length := by
  induction ps generalizing f with
  | nil => intro r hr; simp [mkRecs] at hr
  | cons p ps ih =>
    intro r hr
    simp only [mkRecs, List.mem_cons] at hr
    rcases hr with rfl | hr
    · simp
    · have := ih (f + 1) r hr; simp only [List.length_cons]; omega

private theorem mkRecs_sorted (epoch : Int) (f : Nat) (ps : List Int) :
    ((mkRecs epoch f ps).map stamp).Pairwise lexLt := by
  induction ps generalizing f with
  | nil => simp [mkRecs]
  | cons p ps ih =>
    simp only [mkRecs, List.map_cons, List.pairwise_cons]
    refine ⟨?_, ih (f + 1)⟩
    intro b hb
    rcases List.mem_map.mp hb with ⟨r, hr, rfl⟩
    have := mkRecs_mem epoch (f + 1) ps r hr
    right; simp only [stamp]; omega

theorem init_inv : BInv {} := ⟨by simp, by simp, by simp⟩

private theorem same_epoch_inv (s : PState) (epoch : Int) (f : Nat) (ps : List Int) (hi : BInv s)
    (he : epoch = s.epoch) (hk : s.known = true) : BInv (arriveSameEpoch s epoch f ps).1 := by
  unfold arriveSameEpoch
  split
  · rename_i hf
    refine ⟨?_, ?_, ?_⟩
    · simp only [List.map_append, List.pairwise_append]
      refine ⟨hi.sorted, mkRecs_sorted epoch f ps, ?_⟩
      intro a ha b hb
      rcases List.mem_map.mp ha with ⟨r, hr, rfl⟩
      rcases List.mem_map.mp hb with ⟨q, hq, rfl⟩
      have h1 := hi.below r hr
      have h2 := mkRecs_mem epoch f ps q hq
      simp only [lexLt, stamp]; omega
    · intro r hr
      simp only [List.mem_append] at hr
      rcases hr with hr | hr
      · have := hi.below r hr; simp only; omega
      · have := mkRecs_mem epoch f ps r hr; simp only; omega
    · intro hkn; simp only at hkn; simp [hk] at hkn
  · split <;> exact hi

/-- every arrival preserves the invariant, whatever the batch -/
theorem arrive_inv (s : PState) (epoch : Int) (f : Nat) (ps : List Int) (hi : BInv s) :
    BInv (arrive s epoch f ps).1 := by
  unfold arrive
  split
  · exact hi
  · rename_i h1
    split
    · rename_i h2
      split
      · exact hi
      · -- new epoch (or first batch): the state is reset, every old record has a smaller epoch
        have hi' : BInv { s with known := true, epoch := epoch, nextSeq := 0, cache := [] } := by
          refine ⟨hi.sorted, ?_, by simp⟩
          intro r hr
          rcases h2 with hk | hgt
          · have : s.known = false := by simpa using hk
            have := hi.fresh this; simp [this] at hr
          · have := hi.below r hr; simp only; omega
        exact same_epoch_inv _ epoch f ps hi' rfl rfl
    · rename_i h2
      have hk : s.known = true := by
        cases hkn : s.known
        · exact absurd (Or.inl (by simp [hkn])) h2
        · rfl
      have he : epoch = s.epoch := by
        have : ¬ (epoch > s.epoch) := fun h => h2 (Or.inr h)
        have : ¬ (epoch < s.epoch) := fun h => h1 ⟨hk, h⟩
        omega
      exact same_epoch_inv s epoch f ps hi he hk

theorem arriveAll_inv (s : PState) (bs : List (Int × Nat × List Int)) (hi : BInv s) : BInv (arriveAll s bs) := by
  induction bs generalizing s with
  | nil => exact hi
  | cons b bs ih => obtain ⟨e, f, ps⟩ := b; exact ih _ (arrive_inv s e f ps hi)

/-- For every arrival history, no two positions of the log carry the same (epoch, sequence) stamp. -/
theorem no_two_records_share_stamp (bs : List (Int × Nat × List Int)) (i j : Nat)
    (hi : i < (arriveAll {} bs).log.length) (hj : j < (arriveAll {} bs).log.length)
    (h : stamp ((arriveAll {} bs).log[i]) = stamp ((arriveAll {} bs).log[j])) : i = j := by
  have hs := (arriveAll_inv {} bs init_inv).sorted
  rw [List.pairwise_iff_getElem] at hs
  rcases Nat.lt_trichotomy i j with hlt | heq | hgt
  · have := hs i j (by simpa using hi) (by simpa using hj) hlt
    simp only [List.getElem_map] at this
    rw [h] at this; simp only [lexLt] at this; omega
  · exact heq
  · have := hs j i (by simpa using hj) (by simpa using hi) hgt
    simp only [List.getElem_map] at this
    rw [h] at this; simp only [lexLt] at this; omega

/-- The producer-side obligation under which the broker rules give exactly-once appends: a message (payload)
    always travels with one and the same stamp. -/
def StampFunctional (log : List Rec) : Prop :=
  ∀ r ∈ log, ∀ q ∈ log, r.payload = q.payload → stamp r = stamp q

/-- no message is appended twice, for every arrival history whose log satisfies the producer obligation -/
theorem no_duplicate_append (bs : List (Int × Nat × List Int)) (hf : StampFunctional (arriveAll {} bs).log)
    (i j : Nat) (hi : i < (arriveAll {} bs).log.length) (hj : j < (arriveAll {} bs).log.length)
    (h : (arriveAll {} bs).log[i].payload = (arriveAll {} bs).log[j].payload) : i = j :=
  no_two_records_share_stamp bs i j hi hj
    (hf _ (List.getElem_mem hi) _ (List.getElem_mem hj) h)

/-- The producer obligation in the form the trace rules check it: if what goes on the wire for a message is always the
    stamp THAT message was given (a function of the message: `sequence_assigned_once` says a message is stamped at most
    once, rules R2/R3 that a resend keeps the stamp), the log satisfies `StampFunctional` - and with
    `Props.C05stamps.stamps_never_repeat` (no two messages are given the same stamp) every message is appended at most
    once.  The pinned producer breaks the hypothesis on the retry paths listed as known findings. -/
theorem stampFunctional_of_wire_stamp_function (log : List Rec) (f : Int → Int × Nat)
    (h : ∀ r ∈ log, stamp r = f r.payload) : StampFunctional log := by
  intro r hr q hq hp
  rw [h r hr, h q hq, hp]

/-- exactly-once append for every arrival history whose records travel under their own message's stamp -/
theorem no_duplicate_append_of_wire_stamp_function (bs : List (Int × Nat × List Int)) (f : Int → Int × Nat)
    (h : ∀ r ∈ (arriveAll {} bs).log, stamp r = f r.payload)
    (i j : Nat) (hi : i < (arriveAll {} bs).log.length) (hj : j < (arriveAll {} bs).log.length)
    (hp : (arriveAll {} bs).log[i].payload = (arriveAll {} bs).log[j].payload) : i = j :=
  no_duplicate_append bs (stampFunctional_of_wire_stamp_function _ f h) i j hi hj hp

/-- a resent batch that is still among the last five is recognised: nothing is appended and the answer carries
    the base offset of the first append -/
theorem resend_is_deduplicated (s : PState) (epoch : Int) (f : Nat) (ps : List Int)
    (hk : s.known = true) (he : epoch = s.epoch) (hne : f ≠ s.nextSeq) (b : Nat)
    (hd : findDup s.cache f ps.length = some b) :
    arrive s epoch f ps = (s, .duplicate b) := by
  unfold arrive
  have h1 : ¬ (s.known = true ∧ epoch < s.epoch) := by omega
  have h2 : ¬ (¬ s.known = true ∨ epoch > s.epoch) := by simp [hk]; omega
  simp only [h1, h2, ↓reduceIte, arriveSameEpoch, hne, hd]

/-! ### producer side: a message is stamped at most once, on its first forward (from the accounting model) -/

open Model.Producer in
theorem sequence_assigned_once (cfg : Cfg) (es : List Ev) (s : St) (h : run (init cfg) es = .ok s) (id : Int) :
    s.seqLog.count id ≤ 1 := (Props.C01.reachable_inv cfg es s h).seq_once id

open Model.Producer in
theorem sequence_only_on_first_forward (s s' : St) (id : Int) (h : step s (.seq id) = .ok s') :
    s.cfg.idem = true ∧ id ∈ s.live ∧ s.retryLog.count id = 0 ∧ s.seqLog.count id = 0 := by
  simp only [step] at h
  split at h; · cases h
  split at h; · cases h
  split at h; · cases h
  split at h; · cases h
  rename_i h1 h2 h3 h4
  exact ⟨by simpa using h1, by simpa using h2, by simpa using h3, by simpa using h4⟩

open Model.Producer in
/-- **R1** — a produce set never carries an epoch older than the stamp of one of its messages
    (accepted `sent` events only; the trace validation replays every batch the real producer hands to a broker) -/
theorem batch_epoch_not_older_than_message (s s' : St) (id idx e f me mq : Int) (hid : 0 < id)
    (hc : s.curStamp = some (e, f)) (hm : lookup3 s.msgStamp id = some (me, mq))
    (h : step s (.sent id idx) = .ok s') : me ≤ e := by
  simp only [step, hc, hm] at h
  have hn : ¬ (id ≤ 0) := by omega
  simp only [hn, ↓reduceIte] at h
  split at h
  · cases h
  · rename_i hlt; omega

open Model.Producer in
/-- **R2** — a whole-batch resend (retryBatch) goes out under exactly the (epoch, sequence) of its previous send:
    "a resent batch carries the identical sequence range, epoch and records" for the retryBatch path -/
theorem retrybatch_resend_identical (s s' : St) (id idx e f me mq pe pq : Int) (hid : 0 < id)
    (hc : s.curStamp = some (e, f)) (hm : lookup3 s.msgStamp id = some (me, mq))
    (hp : lookup3 s.lastSent id = some (pe, pq)) (hv : id ∈ s.viaBatch)
    (h : step s (.sent id idx) = .ok s') : (pe, pq) = (e, f + idx) := by
  simp only [step, hc, hm, hp] at h
  have hn : ¬ (id ≤ 0) := by omega
  simp only [hn, ↓reduceIte] at h
  split at h
  · cases h
  · split at h
    · cases h
    · rename_i hne
      by_cases heq : (pe, pq) = (e, f + idx)
      · exact heq
      · exact absurd ⟨hv, heq⟩ hne

open Model.Producer in
/-- an idempotent batch never carries a message that was not given a sequence number -/
theorem sent_message_was_stamped (s s' : St) (id idx e f : Int) (hid : 0 < id)
    (hc : s.curStamp = some (e, f)) (h : step s (.sent id idx) = .ok s') : (lookup3 s.msgStamp id).isSome := by
  simp only [step, hc] at h
  have hn : ¬ (id ≤ 0) := by omega
  simp only [hn, ↓reduceIte] at h
  cases hl : lookup3 s.msgStamp id with
  | none => simp [hl] at h
  | some v => rfl

/-! non-vacuity: a lost acknowledgement, the resend is de-duplicated, the log holds each message once -/
example :
    let s := arriveAll {} [(0, 0, [1, 2]), (0, 2, [3]), (0, 2, [3]), (0, 3, [4])]
    s.log.map (·.payload) = [1, 2, 3, 4] ∧ (arrive (arriveAll {} [(0, 0, [1, 2]), (0, 2, [3])]) 0 2 [3]).2 = .duplicate 2 := by
  decide
/-- … whereas the pinned producer's behaviour after an epoch bump violates `StampFunctional`: message 3, first
    sent as (epoch 0, sequence 2), is sent again inside a batch of epoch 1 and is appended twice -/
example :
    let s := arriveAll {} [(0, 0, [1, 2]), (0, 2, [3]), (1, 0, [3, 4])]
    s.log.map (·.payload) = [1, 2, 3, 3, 4] := by decide

end Props.C05
