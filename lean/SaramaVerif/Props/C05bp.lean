import SaramaVerif.Model.BrokerProdIdem
import SaramaVerif.Props.C02bp
/-
  The broker worker of the IDEMPOTENT producer (`Model.BrokerProdIdem.stepIE`): what carries over from Props/C02bp.lean
  and what does not.  Everything is for EVERY input sequence (tokens, hand-overs, responses, sets injected by
  retryBatch goroutines, failing buffer.add) from the worker's initial state.

    bpI_at_most_one_set_in_flight   unchanged: the bridge holds at most one set, own or injected
    bpI_conservation                per (id, partition): received from partition producers + injected by retryBatch
                                    = in set + in buffer + held + left (success / failure / bounce) + GIVEN TO retryBatch
                                    (the third sink; nothing is lost or duplicated by the worker itself)
    bpI_only_data_buffered          the buffer and the held message are data tokens (a fin is never buffered)
    bpI_quiet_while_refused         while a partition is refused and neither its fin nor a syn arrives, nothing of it is
                                    added to the buffer and nothing of it is in the buffer
    bpI_empty_set_needs_stale       as in C02bp, for hand-overs outside waitForSpace
    (example)                       the per-partition FIFO of C02bp (bp_partition_fifo, bp_bounces_in_order for the set
                                    part) does NOT carry over: a batch in the hands of retryBatch and a younger message
                                    in the buffer reach the bridge in either order - the known retryBatch reordering
-/
set_option linter.unusedSimpArgs false
set_option linter.unnecessarySimpa false
namespace Props.C05bp
open Model.BrokerProd Model.BrokerProdIdem Props.C02bp

/-- every token of partition `p` leaving the worker through an action (fin chasers included) -/
def outA (p : Int) : Action → Option Int
  | .requeue i q _ _ => if q = p then some i else none
  | .expire i q _ => if q = p then some i else none
  | .succ i q => if q = p then some i else none
  | .fail i q => if q = p then some i else none
  | _ => none

def outAll (p : Int) (as : List Action) : List Int := as.filterMap (outA p)

theorem outAll_append (p : Int) (a b : List Action) : outAll p (a ++ b) = outAll p a ++ outAll p b := by
  simp [outAll, List.filterMap_append]

theorem outAll_retry (max : Nat) (p : Int) (ts : List Tok) : outAll p (retryMsgs max ts) = ids (onPart p ts) := by
  induction ts with
  | nil => rfl
  | cons t ts ih =>
    simp only [outAll, retryMsgs, ids, onPart, List.map_cons, List.filterMap_cons, List.filter_cons] at *
    by_cases h1 : t.retries ≥ max <;> by_cases h2 : t.part = p <;> simp [retryMsg, h1, h2, outA, ih]

theorem outAll_succ (p : Int) (ts : List Tok) :
    outAll p (ts.map (fun t => Action.succ t.id t.part)) = ids (onPart p ts) := by
  induction ts with
  | nil => rfl
  | cons t ts ih =>
    simp only [outAll, ids, onPart, List.map_cons, List.filterMap_cons, List.filter_cons] at *
    by_cases h2 : t.part = p <;> simp [h2, outA, ih]

theorem outAll_fail (p : Int) (ts : List Tok) :
    outAll p (ts.map (fun t => Action.fail t.id t.part)) = ids (onPart p ts) := by
  induction ts with
  | nil => rfl
  | cons t ts ih =>
    simp only [outAll, ids, onPart, List.map_cons, List.filterMap_cons, List.filter_cons] at *
    by_cases h2 : t.part = p <;> simp [h2, outA, ih]

theorem outAll_drop (p q : Int) (l : List Action) : outAll p (Action.drop q :: l) = outAll p l := by
  simp only [outAll]; rw [List.filterMap_cons]; rfl

theorem outAll_nil (p : Int) : outAll p [] = [] := rfl

theorem outAll_abandon (p : Int) (l : List Action) : outAll p (Action.abandon :: l) = outAll p l := by
  simp only [outAll]; rw [List.filterMap_cons]; rfl

theorem outAll_verdictActs (max : Nat) (p : Int) (vd : Verdict) (ts : List Tok) :
    outAll p (verdictActs max vd ts) = if stays max vd then [] else ids (onPart p ts) := by
  unfold verdictActs stays
  by_cases he : ts.isEmpty
  · have : ts = [] := by simpa using he
    subst this; simp [outAll, ids, onPart]
  · simp only [he, Bool.false_eq_true, ↓reduceIte]
    cases max with
    | zero =>
      cases vd <;> simp [outAll_append, outAll_succ, outAll_fail, outAll_abandon]
    | succ n =>
      cases vd <;> simp [outAll_append, outAll_succ, outAll_fail, outAll_abandon, outAll_nil]

theorem outAll_loop1 (max : Nat) (v : Int → Verdict) (p : Int) (ps : List Int) (rem : List Tok) :
    outAll p (loop1 max v ps rem) = if p ∈ ps ∧ ¬ stays max (v p) then ids (onPart p rem) else [] := by
  induction ps generalizing rem with
  | nil => simp [loop1, outAll]
  | cons q ps ih =>
    simp only [loop1, outAll_append, outAll_verdictActs, ih, onPart_onPart, onPart_offPart, List.mem_cons]
    by_cases h : p = q
    · subst h
      by_cases hs : stays max (v p) <;> simp [hs, ids]
    · by_cases hs : stays max (v q) <;> simp [hs, h, ids]

/-! ### the second pass of handleSuccess, idempotent -/

theorem loop2I_frame (max : Nat) (v : Int → Verdict) (ps : List Int) (rem : List Tok) (s : St) :
    (loop2I max v ps rem s).1.sets = s.sets ∧ (loop2I max v ps rem s).1.wait = s.wait ∧
    (loop2I max v ps rem s).1.closing = s.closing ∧ (loop2I max v ps rem s).1.stale = s.stale ∧
    (∀ t ∈ (loop2I max v ps rem s).1.buffer, t ∈ s.buffer) := by
  induction ps generalizing rem s with
  | nil => simp [loop2I]
  | cons q ps ih =>
    unfold loop2I
    by_cases g : (onPart q rem).isEmpty = true ∨ v q ≠ .retriable
    · simp only [g, ↓reduceIte]; exact ih _ _
    · simp only [g, ↓reduceIte]
      obtain ⟨a, b, c, d, e⟩ := ih (offPart q rem) { s with cr := setCr s.cr q true, buffer := offPart q s.buffer }
      exact ⟨a, b, c, d, fun t ht => mem_offPart (e t ht)⟩

theorem loop2I_part (max : Nat) (v : Int → Verdict) (p : Int) (ps : List Int) (rem : List Tok) (s : St) :
    onPart p (loop2I max v ps rem s).1.buffer = (if hit v p ps rem then [] else onPart p s.buffer) ∧
    (loop2I max v ps rem s).1.cr p = (s.cr p || decide (hit v p ps rem)) ∧
    outAll p (loop2I max v ps rem s).2.1 = (if hit v p ps rem then ids (onPart p s.buffer) else []) ∧
    bounces p (loop2I max v ps rem s).2.1 = (if hit v p ps rem then ids (onPart p s.buffer) else []) ∧
    adds p (loop2I max v ps rem s).2.1 = [] ∧
    onPart p (loop2I max v ps rem s).2.2.flatten = (if hit v p ps rem then onPart p rem else []) := by
  induction ps generalizing rem s with
  | nil => simp [loop2I, hit, bounces, adds, outAll, onPart]
  | cons q ps ih =>
    unfold loop2I
    by_cases g : (onPart q rem).isEmpty = true ∨ v q ≠ .retriable
    · simp only [g, ↓reduceIte]
      obtain ⟨i1, i2, i3, i4, i5, i6⟩ := ih (offPart q rem) s
      by_cases h : p = q
      · subst h
        obtain ⟨n1, n2⟩ := hit_cons_self_skip v p ps rem g
        simp only [n1, n2, ↓reduceIte, decide_false, Bool.or_false] at *
        exact ⟨i1, i2, i3, i4, i5, i6⟩
      · have e := hit_cons_other v p q ps rem h
        simp only [e]
        simp only [onPart_offPart, h, ↓reduceIte] at i6
        exact ⟨i1, i2, i3, i4, i5, i6⟩
    · simp only [g, ↓reduceIte]
      obtain ⟨i1, i2, i3, i4, i5, i6⟩ := ih (offPart q rem) { s with cr := setCr s.cr q true, buffer := offPart q s.buffer }
      have g1 : onPart q rem ≠ [] := by
        intro hh; apply g; left; simp [hh]
      have g2 : v q = .retriable := by
        by_cases hv : v q = .retriable
        · exact hv
        · exact absurd (Or.inr hv) g
      simp only [bounces_append, bounces_drop, bounces_retry, adds_append, adds_drop, adds_retry, outAll_append,
        outAll_drop, outAll_retry, onPart_onPart, onPart_offPart, i1, i2, i3, i4, i5, i6, List.append_nil,
        List.flatten_cons, onPart_append]
      by_cases h : p = q
      · subst h
        have n2 : ¬ hit v p ps (offPart p rem) := by
          rintro ⟨_, h2, _⟩; exact h2 (by simp [onPart_offPart])
        have n1 : hit v p (p :: ps) rem := ⟨by simp, g1, g2⟩
        simp [n1, n2, setCr]
      · have e := hit_cons_other v p q ps rem h
        simp only [e]
        by_cases hh : hit v p ps (offPart q rem) <;> simp [h, hh, setCr, ids]

theorem onPart_nil (p : Int) : onPart p [] = [] := rfl

/-! ### handleResponse, idempotent -/

theorem handleI_frame (max : Nat) (s : St) (sent : List Tok) (r : Resp) :
    (handleI max s sent r).1.sets = s.sets ∧ (handleI max s sent r).1.wait = s.wait ∧
    (∀ t ∈ (handleI max s sent r).1.buffer, t ∈ s.buffer) := by
  cases r with
  | verdicts v o1 o2 =>
    unfold handleI
    by_cases h : retryTopics max v sent = true
    · simp only [h, ↓reduceIte]
      obtain ⟨a, b, _, _, e⟩ := loop2I_frame max v (o2 ++ partsOf sent) sent s
      exact ⟨a, b, e⟩
    · simp [h]
  | encErr o => simp [handleI, handle]
  | connErr o1 o2 => simp [handleI, handle]

/-- per partition: given to retryBatch ++ leaving by actions ++ staying in the buffer = the set ++ the old buffer -/
theorem handleI_split (max : Nat) (s : St) (sent : List Tok) (r : Resp) (p : Int) :
    ids (onPart p (handleI max s sent r).2.2.flatten) ++ outAll p (handleI max s sent r).2.1 ++
      ids (onPart p (handleI max s sent r).1.buffer) = ids (onPart p sent) ++ ids (onPart p s.buffer) := by
  cases r with
  | verdicts v o1 o2 =>
    unfold handleI
    by_cases h : retryTopics max v sent = true
    · simp only [h, ↓reduceIte]
      obtain ⟨hm, _⟩ := (retryTopics_iff max v sent).1 h
      obtain ⟨b1, _, b3, _, _, b6⟩ := loop2I_part max v p (o2 ++ partsOf sent) sent s
      rw [outAll_append, outAll_loop1, b3, b1, b6]
      by_cases he : onPart p sent = []
      · have nh : ¬ hit v p (o2 ++ partsOf sent) sent := by rw [hit_all]; exact fun x => x.1 he
        simp [he, nh, ids]
      · have hp : p ∈ o1 ++ partsOf sent := by simp [mem_parts_of_onPart p sent he]
        by_cases hv : v p = .retriable
        · have hh : hit v p (o2 ++ partsOf sent) sent := (hit_all v p o2 sent).2 ⟨he, hv⟩
          have st : stays max (v p) := ⟨hm, hv⟩
          simp [hh, st, hp, ids]
        · have nh : ¬ hit v p (o2 ++ partsOf sent) sent := by rw [hit_all]; exact fun x => hv x.2
          have st : ¬ stays max (v p) := fun x => hv x.2
          simp [nh, st, hp, ids]
    · simp only [h, Bool.false_eq_true, ↓reduceIte]
      rw [outAll_loop1]
      by_cases he : onPart p sent = []
      · simp [he, ids, onPart_nil]
      · have hp : p ∈ o1 ++ partsOf sent := by simp [mem_parts_of_onPart p sent he]
        have st : ¬ stays max (v p) := by
          rintro ⟨hm, hv⟩
          obtain ⟨t, ht, htp⟩ := exists_of_onPart_ne he
          exact h ((retryTopics_iff max v sent).2 ⟨hm, t, ht, by rw [htp]; exact hv⟩)
        simp [st, hp, ids, onPart_nil]
  | encErr o =>
    simp only [handleI, handle, List.flatten_nil]
    rw [outAll_fail, onPart_arrange_all]
    simp [onPart, ids]
  | connErr o1 o2 =>
    simp only [handleI, handle, List.flatten_nil]
    have : outAll p (Action.closing :: Action.abandon :: retryMsgs max (arrange (o1 ++ partsOf sent) sent) ++
        retryMsgs max (arrange (o2 ++ partsOf s.buffer) s.buffer)) =
        outAll p (retryMsgs max (arrange (o1 ++ partsOf sent) sent)) ++
        outAll p (retryMsgs max (arrange (o2 ++ partsOf s.buffer) s.buffer)) := by
      simp [outAll, outA, List.filterMap_cons, List.filterMap_append]
    rw [this, outAll_retry, outAll_retry, onPart_arrange_all, onPart_arrange_all]
    simp [onPart, ids]

theorem handleI_needs (max : Nat) (s : St) (sent : List Tok) (r : Resp) (p : Int) :
    (needsRetry (handleI max s sent r).1 p = (needsRetry s p || decide (failsFor max p sent r))) ∧
    (failsFor max p sent r → onPart p (handleI max s sent r).1.buffer = []) ∧
    adds p (handleI max s sent r).2.1 = [] := by
  cases r with
  | verdicts v o1 o2 =>
    have fe := failsFor_verdicts_iff max v o1 o2 o2 p sent
    unfold handleI
    by_cases h : retryTopics max v sent = true
    · simp only [h, ↓reduceIte, true_and] at fe ⊢
      obtain ⟨b1, b2, _, _, b5, _⟩ := loop2I_part max v p (o2 ++ partsOf sent) sent s
      obtain ⟨_, _, c, _, _⟩ := loop2I_frame max v (o2 ++ partsOf sent) sent s
      refine ⟨?_, ?_, ?_⟩
      · simp only [needsRetry, c, b2, Bool.or_assoc]
        congr 2
        exact decide_eq_decide.2 fe.symm
      · intro hf; rw [b1]; simp [fe.1 hf]
      · rw [adds_append, adds_loop1, b5]; rfl
    · have nf : ¬ failsFor max p sent (.verdicts v o1 o2) := fun x => h (fe.1 x).1
      simp only [h, Bool.false_eq_true, ↓reduceIte, nf, decide_false, Bool.or_false, false_implies,
        adds_loop1, and_self]
  | encErr o =>
    obtain ⟨a, b, _, d⟩ := handle_needs max s sent (.encErr o) p
    exact ⟨a, b, d⟩
  | connErr o1 o2 =>
    obtain ⟨a, b, _, d⟩ := handle_needs max s sent (.connErr o1 o2) p
    exact ⟨a, b, d⟩

/-! ### conservation, one step -/

/-- the tokens a step takes in: from a partition producer (non-syn), or a whole set from a retryBatch goroutine -/
def arrivedI (s : St) : InI → List Tok
  | .recv t _ => if s.wait.isSome then [] else if t.kind = .syn then [] else [t]
  | .inject set => if s.sets.isEmpty then set else []
  | _ => []

/-- the balance of partition `p`, id `i`: given to retryBatch + left by an action + inside -/
def bal (p : Int) (i : Int) (r : St × List Action × List (List Tok)) : Nat :=
  (ids (onPart p r.2.2.flatten)).count i + (outAll p r.2.1).count i + (ids (onPart p (inside r.1))).count i

theorem outAll_bounce1 (max : Nat) (p : Int) (t : Tok) :
    outAll p [.refuse t.id, retryMsg max t] = if t.part = p then [t.id] else [] := by
  by_cases hr : t.retries ≥ max <;> by_cases hp : t.part = p <;>
    simp [outAll, outA, retryMsg, hr, hp, List.filterMap_cons]

theorem recv_bal (max : Nat) (s : St) (t : Tok) (ov : Bool) (p i : Int) :
    bal p i ((recv max s t ov).1, (recv max s t ov).2, []) =
      (ids (onPart p (inside s))).count i + (ids (onPart p (arrivedI s (.recv t ov)))).count i := by
  unfold bal recv arrivedI
  by_cases hw : s.wait.isSome = true
  · simp [hw, outAll, outA, onPart, ids, List.filterMap_cons]
  · simp only [hw, Bool.false_eq_true, ↓reduceIte]
    have hwn : s.wait = none := by simpa using hw
    by_cases hs : t.kind = .syn
    · simp [hs, outAll, outA, inside, onPart, ids, List.filterMap_cons]
    · simp only [hs, ↓reduceIte]
      by_cases hn : needsRetry s t.part = true
      · simp only [hn, ↓reduceIte, outAll_bounce1]
        have e : inside (if (!s.closing && decide (t.kind = Kind.fin)) = true then
            { s with cr := setCr s.cr t.part false } else s) = inside s := by
          split <;> simp [inside]
        rw [e]
        by_cases hp : t.part = p <;> simp [hp, onPart, ids, Nat.add_comm]
      · simp only [hn, Bool.false_eq_true, ↓reduceIte]
        by_cases hf : t.kind = .fin
        · simp only [hf, ↓reduceIte, outAll_bounce1]
          by_cases hp : t.part = p <;> simp [hp, onPart, ids, Nat.add_comm]
        · simp only [hf, ↓reduceIte]
          cases ov
          · simp only [Bool.false_eq_true, ↓reduceIte, inside, hwn, Option.toList_none, List.append_nil,
              onPart_append, ids, List.map_append, List.count_append, List.flatten_nil, onPart_nil, List.map_nil,
              List.count_nil, Nat.zero_add]
            simp [outAll, outA, List.filterMap_cons]
            omega
          · simp only [↓reduceIte, inside, hwn, Option.toList_none, Option.toList_some, List.append_nil,
              onPart_append, ids, List.map_append, List.count_append, List.flatten_nil, onPart_nil, List.map_nil,
              List.count_nil, Nat.zero_add, outAll_nil]

theorem handoverI_bal (s : St) (again : Bool) (p i : Int) :
    bal p i ((handoverI s again).1, (handoverI s again).2, []) = (ids (onPart p (inside s))).count i := by
  unfold bal handoverI
  by_cases h0 : (again && s.wait.isSome && s.sets.isEmpty) = true
  · simp only [h0, ↓reduceIte]
    have hs : s.sets = [] := by
      simp only [Bool.and_eq_true, List.isEmpty_iff] at h0; exact h0.2
    simp [inside, hs, outAll_nil, onPart_nil, ids, onPart_append]
  · simp only [h0, Bool.false_eq_true, ↓reduceIte]
    unfold handover
    by_cases h1 : (!s.sets.isEmpty) = true
    · simp [h1, outAll, outA, onPart_nil, ids, List.filterMap_cons]
    · simp only [h1, Bool.false_eq_true, ↓reduceIte]
      have hs : s.sets = [] := by simpa using h1
      cases hw : s.wait with
      | none =>
        simp only []
        by_cases h2 : (s.buffer.isEmpty && !s.stale) = true
        · simp [h2, outAll, outA, onPart_nil, ids, List.filterMap_cons]
        · simp [h2, inside, hs, hw, outAll_nil, onPart_nil, ids]
      | some t =>
        simp [inside, hs, hw, outAll, outA, onPart_nil, ids, onPart_append, List.filterMap_cons]

theorem inject_bal (s : St) (set : List Tok) (p i : Int) :
    bal p i ((inject s set).1, (inject s set).2, []) =
      (ids (onPart p (inside s))).count i + (ids (onPart p (arrivedI s (.inject set)))).count i := by
  unfold bal inject arrivedI
  by_cases h1 : (!s.sets.isEmpty) = true
  · have : s.sets.isEmpty = false := by simpa using h1
    simp [h1, this, outAll, outA, onPart_nil, ids, List.filterMap_cons]
  · have hs : s.sets = [] := by simpa using h1
    simp [hs, inside, outAll_nil, onPart_nil, ids, onPart_append, List.count_append]
    omega

theorem recheck_bal (max : Nat) (x : St) (acts : List Action) (still : Bool) (p i : Int) (hs : x.sets = []) :
    (outAll p (recheck max x acts still).2).count i + (ids (onPart p (inside (recheck max x acts still).1))).count i =
      (outAll p acts).count i + (ids (onPart p x.buffer)).count i + (ids (onPart p x.wait.toList)).count i := by
  unfold recheck
  cases hw : x.wait with
  | none => simp [inside, hs, onPart_nil, ids]
  | some t =>
    simp only []
    by_cases hn : needsRetry x t.part = true
    · simp only [hn, ↓reduceIte, outAll_append, List.count_append]
      have : outAll p [retryMsg max t] = ids (onPart p [t]) := by
        have := outAll_retry max p [t]; simpa [retryMsgs] using this
      rw [this]
      simp [inside, hs, onPart_nil, ids, Nat.add_assoc, Nat.add_comm]
      omega
    · simp only [hn, Bool.false_eq_true, ↓reduceIte]
      cases still
      · simp only [Bool.false_eq_true, ↓reduceIte, outAll_append, List.count_append]
        have : outAll p [Action.add t.id t.part] = [] := by simp [outAll, outA, List.filterMap_cons]
        rw [this]
        simp [inside, hs, onPart_nil, onPart_append, ids, List.count_append]
        omega
      · simp only [↓reduceIte]
        simp [inside, hs, hw, onPart_nil, onPart_append, ids, List.count_append]
        omega

theorem respI_bal (max : Nat) (s : St) (r : Resp) (still : Bool) (p i : Int) (h1 : s.sets.length ≤ 1) :
    bal p i (respI max s r still) = (ids (onPart p (inside s))).count i := by
  unfold bal respI
  cases hs : s.sets with
  | nil => simp [inside, hs, outAll, outA, onPart_nil, ids, List.filterMap_cons]
  | cons sent rest =>
    have hr : rest = [] := by
      rw [hs] at h1; simp only [List.length_cons] at h1
      exact List.eq_nil_of_length_eq_zero (by omega)
    subst hr
    simp only []
    obtain ⟨f1, f2, _⟩ := handleI_frame max { s with sets := [] } sent r
    have sp := handleI_split max { s with sets := [] } sent r p
    have rb := recheck_bal max (handleI max { s with sets := [] } sent r).1 (handleI max { s with sets := [] } sent r).2.1
      still p i f1
    rw [f2] at rb
    have c := congrArg (List.count i) sp
    simp only [List.count_append] at c
    simp only [inside, hs, List.flatten_cons, List.flatten_nil, List.append_nil, onPart_append, ids, List.map_append,
      List.count_append] at c rb ⊢
    omega

/-- a failing buffer.add: the message that was just appended leaves by `fail` -/
theorem failAdd_bal (r : St × List Action × List (List Tok)) (p i : Int) : bal p i (failAdd r) = bal p i r := by
  unfold failAdd
  split
  · rename_i j q t h1 h2
    obtain ⟨ys, hys⟩ := List.getLast?_eq_some_iff.1 h2
    have hd : r.1.buffer.dropLast = ys := by rw [hys]; simp
    have ho : outAll p [Action.fail t.id t.part] = ids (onPart p [t]) := by
      have := outAll_fail p [t]; simpa using this
    unfold bal
    simp only [outAll_append, List.count_append, ho, inside, hd]
    rw [hys]
    simp only [onPart_append, ids, List.map_append, List.count_append]
    omega
  · rfl

/-- the tokens a step takes in do not depend on whether its buffer.add fails -/
theorem stepIE_bal (max : Nat) (s : St) (inp : InI) (addErr : Bool) (p i : Int) (h1 : s.sets.length ≤ 1) :
    bal p i (stepIE max s inp addErr) =
      (ids (onPart p (inside s))).count i + (ids (onPart p (arrivedI s inp))).count i := by
  have base : bal p i (stepI max s inp) =
      (ids (onPart p (inside s))).count i + (ids (onPart p (arrivedI s inp))).count i := by
    cases inp with
    | recv t ov => exact recv_bal max s t ov p i
    | handover again => simpa [stepI, arrivedI, onPart_nil, ids] using handoverI_bal s again p i
    | resp r still => simpa [stepI, arrivedI, onPart_nil, ids] using respI_bal max s r still p i h1
    | inject set => exact inject_bal s set p i
  unfold stepIE
  cases addErr
  · simpa using base
  · simp only [↓reduceIte]; rw [failAdd_bal]; exact base

/-! ### the invariant -/

/-- what the worker built itself: the buffer and the message held in waitForSpace -/
def own (s : St) : List Tok := s.buffer ++ s.wait.toList

structure QInv (s : St) : Prop where
  one : s.sets.length ≤ 1
  data : ∀ t ∈ own s, t.kind = .data
  quiet : ∀ p, needsRetry s p = true → ∀ t ∈ own s, t.part ≠ p

theorem initI_inv : QInv {} := ⟨by simp, by simp [own], by simp [needsRetry]⟩

/-- a state whose own tokens all come from an invariant state's, and which refuses no more than that state -/
theorem QInv_sub (s s' : St) (h : QInv s) (h1 : s'.sets.length ≤ 1) (hsub : ∀ t ∈ own s', t ∈ own s)
    (hn : ∀ p, needsRetry s' p = true → needsRetry s p = true) : QInv s' :=
  ⟨h1, fun t ht => h.data t (hsub t ht), fun p hp t ht => h.quiet p (hn p hp) t (hsub t ht)⟩

theorem recvI_inv (max : Nat) (s : St) (t : Tok) (ov : Bool) (h : QInv s) : QInv (recv max s t ov).1 := by
  unfold recv
  by_cases hw : s.wait.isSome = true
  · simpa [hw] using h
  · simp only [hw, Bool.false_eq_true, ↓reduceIte]
    have hwn : s.wait = none := by simpa using hw
    have clr : ∀ p, needsRetry { s with cr := setCr s.cr t.part false } p = true → needsRetry s p = true := by
      intro p hp
      simp only [needsRetry, setCr, Bool.or_eq_true] at hp ⊢
      rcases hp with hp | hp
      · exact Or.inl hp
      · by_cases e : p = t.part
        · simp [e] at hp
        · simp only [e, ↓reduceIte] at hp; exact Or.inr hp
    by_cases hs : t.kind = .syn
    · simp only [hs, ↓reduceIte]
      exact QInv_sub s _ h h.one (fun x hx => hx) clr
    · simp only [hs, ↓reduceIte]
      by_cases hn : needsRetry s t.part = true
      · simp only [hn, ↓reduceIte]
        split
        · exact QInv_sub s _ h h.one (fun x hx => hx) clr
        · exact h
      · simp only [hn, Bool.false_eq_true, ↓reduceIte]
        by_cases hf : t.kind = .fin
        · simpa [hf] using h
        · simp only [hf, ↓reduceIte]
          have hd := kind_data_of hs hf
          have key : ∀ s' : St, s'.sets = s.sets → own s' = own s ++ [t] →
              (∀ p, needsRetry s' p = needsRetry s p) → QInv s' := by
            intro s' a b c
            refine ⟨by rw [a]; exact h.one, ?_, ?_⟩
            · intro x hx
              rw [b] at hx
              rcases List.mem_append.1 hx with hx | hx
              · exact h.data x hx
              · have : x = t := by simpa using hx
                rw [this]; exact hd
            · intro p hp x hx
              rw [c] at hp
              rw [b] at hx
              rcases List.mem_append.1 hx with hx | hx
              · exact h.quiet p hp x hx
              · have : x = t := by simpa using hx
                rw [this]; intro e; rw [e] at hn; exact hn hp
          cases ov
          · exact key _ rfl (by simp [own, hwn]) (fun p => rfl)
          · exact key _ rfl (by simp [own, hwn]) (fun p => rfl)

theorem handoverI_inv (s : St) (again : Bool) (h : QInv s) : QInv (handoverI s again).1 := by
  unfold handoverI
  by_cases h0 : (again && s.wait.isSome && s.sets.isEmpty) = true
  · simp only [h0, ↓reduceIte]
    exact QInv_sub s _ h (by simp) (fun x hx => by simp [own] at hx ⊢; exact Or.inr hx) (fun p hp => hp)
  · simp only [h0, Bool.false_eq_true, ↓reduceIte]
    unfold handover
    by_cases h1 : (!s.sets.isEmpty) = true
    · simpa [h1] using h
    · simp only [h1, Bool.false_eq_true, ↓reduceIte]
      cases hw : s.wait with
      | none =>
        simp only []
        by_cases h2 : (s.buffer.isEmpty && !s.stale) = true
        · simpa [h2] using h
        · simp only [h2, Bool.false_eq_true, ↓reduceIte]
          exact QInv_sub s _ h (by simp) (fun x hx => by simp [own, hw] at hx) (fun p hp => hp)
      | some t =>
        exact QInv_sub s _ h (by simp) (fun x hx => by simp [own, hw] at hx ⊢; exact Or.inr hx) (fun p hp => hp)

theorem injectI_inv (s : St) (set : List Tok) (h : QInv s) : QInv (inject s set).1 := by
  unfold inject
  by_cases h1 : (!s.sets.isEmpty) = true
  · simpa [h1] using h
  · simp only [h1, Bool.false_eq_true, ↓reduceIte]
    exact QInv_sub s _ h (by simp) (fun x hx => hx) (fun p hp => hp)

theorem respI_inv (max : Nat) (s : St) (r : Resp) (still : Bool) (h : QInv s) : QInv (respI max s r still).1 := by
  unfold respI
  cases hs : s.sets with
  | nil => simpa [hs] using h
  | cons sent rest =>
    have hr : rest = [] := by
      have := h.one; rw [hs] at this; simp only [List.length_cons] at this
      exact List.eq_nil_of_length_eq_zero (by omega)
    subst hr
    simp only []
    obtain ⟨f1, f2, f3⟩ := handleI_frame max { s with sets := [] } sent r
    have fn := fun p => handleI_needs max { s with sets := [] } sent r p
    -- the buffer after handleResponse holds nothing of a refused partition
    have hbq : ∀ p, needsRetry (handleI max { s with sets := [] } sent r).1 p = true →
        ∀ t ∈ (handleI max { s with sets := [] } sent r).1.buffer, t.part ≠ p := by
      intro p hp t ht
      rw [(fn p).1] at hp
      by_cases hf : failsFor max p sent r
      · have := (fn p).2.1 hf
        intro e
        have : t ∈ onPart p (handleI max { s with sets := [] } sent r).1.buffer := by
          simp [onPart, ht, e]
        rw [(fn p).2.1 hf] at this; simp at this
      · have hp' : needsRetry s p = true := by
          have : decide (failsFor max p sent r) = false := decide_eq_false hf
          simpa [this, needsRetry] using hp
        exact h.quiet p hp' t (by simp [own]; exact Or.inl (f3 t ht))
    generalize handleI max { s with sets := [] } sent r = H at *
    obtain ⟨x, acts, bs⟩ := H
    simp only at f1 f2 f3 hbq ⊢
    unfold recheck
    cases hw : s.wait with
    | none =>
      rw [hw] at f2
      simp only [f2]
      refine ⟨by simp [f1], ?_, ?_⟩
      · intro t ht; simp only [own, f2, Option.toList_none, List.append_nil] at ht
        exact h.data t (by simp [own]; exact Or.inl (f3 t ht))
      · intro p hp t ht; simp only [own, f2, Option.toList_none, List.append_nil] at ht
        exact hbq p hp t ht
    | some t =>
      have htd : t.kind = .data := h.data t (by simp [own, hw])
      rw [hw] at f2
      simp only [f2]
      by_cases hn : needsRetry x t.part = true
      · simp only [hn, ↓reduceIte]
        refine ⟨by simp [f1], ?_, ?_⟩
        · intro y hy; simp only [own, Option.toList_none, List.append_nil] at hy
          exact h.data y (by simp [own]; exact Or.inl (f3 y hy))
        · intro p hp y hy; simp only [own, Option.toList_none, List.append_nil] at hy
          exact hbq p hp y hy
      · simp only [hn, Bool.false_eq_true, ↓reduceIte]
        have key : ∀ s' : St, s'.sets = [] → own s' = x.buffer ++ [t] →
            (∀ p, needsRetry s' p = needsRetry x p) → QInv s' := by
          intro s' a b c
          refine ⟨by simp [a], ?_, ?_⟩
          · intro y hy
            rw [b] at hy
            rcases List.mem_append.1 hy with hy | hy
            · exact h.data y (by simp [own]; exact Or.inl (f3 y hy))
            · have : y = t := by simpa using hy
              rw [this]; exact htd
          · intro p hp y hy
            rw [c] at hp
            rw [b] at hy
            rcases List.mem_append.1 hy with hy | hy
            · exact hbq p hp y hy
            · have : y = t := by simpa using hy
              rw [this]; intro e; rw [e] at hn; exact hn hp
        cases still
        · simp only [Bool.false_eq_true, ↓reduceIte]
          exact key _ (by simp [f1]) (by simp [own]) (fun p => rfl)
        · simp only [↓reduceIte]
          exact key x f1 (by simp [own, f2]) (fun p => rfl)

theorem failAdd_inv (r : St × List Action × List (List Tok)) (h : QInv r.1) : QInv (failAdd r).1 := by
  unfold failAdd
  split
  · exact QInv_sub r.1 _ h h.one
      (fun x hx => by
        simp only [own, List.mem_append] at hx ⊢
        rcases hx with hx | hx
        · exact Or.inl ((List.dropLast_sublist _).subset hx)
        · exact Or.inr hx)
      (fun p hp => hp)
  · exact h

theorem stepIE_inv (max : Nat) (s : St) (inp : InI) (addErr : Bool) (h : QInv s) : QInv (stepIE max s inp addErr).1 := by
  have base : QInv (stepI max s inp).1 := by
    cases inp with
    | recv t ov => exact recvI_inv max s t ov h
    | handover again => exact handoverI_inv s again h
    | resp r still => exact respI_inv max s r still h
    | inject set => exact injectI_inv s set h
  unfold stepIE
  cases addErr
  · simpa using base
  · simp only [↓reduceIte]; exact failAdd_inv _ base

/-! ### runs -/

/-- a run: inputs paired with "the final buffer.add of this step fails" -/
def runIE (max : Nat) (s : St) : List (InI × Bool) → St × List Action × List (List Tok)
  | [] => (s, [], [])
  | i :: is =>
    ((runIE max (stepIE max s i.1 i.2).1 is).1, (stepIE max s i.1 i.2).2.1 ++ (runIE max (stepIE max s i.1 i.2).1 is).2.1,
     (stepIE max s i.1 i.2).2.2 ++ (runIE max (stepIE max s i.1 i.2).1 is).2.2)

def arrivalsI (max : Nat) (s : St) : List (InI × Bool) → List Tok
  | [] => []
  | i :: is => arrivedI s i.1 ++ arrivalsI max (stepIE max s i.1 i.2).1 is

theorem runIE_inv (max : Nat) (s : St) (ins : List (InI × Bool)) (h : QInv s) : QInv (runIE max s ins).1 := by
  induction ins generalizing s with
  | nil => exact h
  | cons i is ih => exact ih _ (stepIE_inv max s i.1 i.2 h)

theorem runIE_bal (max : Nat) (s : St) (ins : List (InI × Bool)) (p i : Int) (h : QInv s) :
    bal p i (runIE max s ins) =
      (ids (onPart p (inside s))).count i + (ids (onPart p (arrivalsI max s ins))).count i := by
  induction ins generalizing s with
  | nil => simp [runIE, bal, arrivalsI, outAll_nil, onPart_nil, ids]
  | cons x xs ih =>
    have a := stepIE_bal max s x.1 x.2 p i h.one
    have b := ih (stepIE max s x.1 x.2).1 (stepIE_inv max s x.1 x.2 h)
    simp only [bal, runIE, arrivalsI, List.flatten_append, onPart_append, ids, List.map_append, List.count_append,
      outAll_append] at a b ⊢
    omega

/-! ## The theorems -/

/-- **At most one set in flight** - own or injected by a retryBatch goroutine. -/
theorem bpI_at_most_one_set_in_flight (max : Nat) (ins : List (InI × Bool)) : (runIE max {} ins).1.sets.length ≤ 1 :=
  (runIE_inv max {} ins initI_inv).one

/-- **Conservation, idempotent.**  Per (id, partition): what the worker received from partition producers plus what
    retryBatch goroutines injected into its bridge equals what is in the set in flight, in the buffer, held in
    waitForSpace, what left by success / failure / bounce, and - the third sink - what was given to retryBatch. -/
theorem bpI_conservation (max : Nat) (ins : List (InI × Bool)) (p i : Int) :
    (ids (onPart p (arrivalsI max {} ins))).count i =
      (ids (onPart p (runIE max {} ins).1.sets.flatten)).count i + (ids (onPart p (runIE max {} ins).1.buffer)).count i +
      (ids (onPart p (runIE max {} ins).1.wait.toList)).count i + (outAll p (runIE max {} ins).2.1).count i +
      (ids (onPart p (runIE max {} ins).2.2.flatten)).count i := by
  have := runIE_bal max {} ins p i initI_inv
  simp only [bal, inside, onPart_append, ids, List.map_append, List.count_append, List.flatten_nil, onPart_nil,
    List.map_nil, List.count_nil, Option.toList_none, List.append_nil] at this ⊢
  omega

/-- **Only data is buffered**: the buffer and the held message never contain a fin chaser (or a syn). -/
theorem bpI_only_data_buffered (max : Nat) (ins : List (InI × Bool)) :
    ∀ t ∈ (runIE max {} ins).1.buffer ++ (runIE max {} ins).1.wait.toList, t.kind = .data :=
  (runIE_inv max {} ins initI_inv).data

/-! ### the quiet period of a partition, idempotent -/

def reopensI (p : Int) : InI → Prop
  | .recv t _ => t.part = p ∧ (t.kind = .syn ∨ t.kind = .fin)
  | _ => False

instance (p : Int) (i : InI) : Decidable (reopensI p i) := by
  cases i <;> unfold reopensI <;> infer_instance

theorem adds_fail1 (p i q : Int) (l : List Action) : adds p (l ++ [Action.fail i q]) = adds p l := by
  simp [adds, addD, List.filterMap_append]

theorem recvI_quiet (max : Nat) (s : St) (t : Tok) (ov : Bool) (p : Int) (hn : needsRetry s p = true)
    (hr : ¬ reopensI p (.recv t ov)) :
    adds p (recv max s t ov).2 = [] ∧ needsRetry (recv max s t ov).1 p = true := by
  unfold recv
  unfold reopensI at hr
  by_cases hw : s.wait.isSome = true
  · simp [hw, adds, addD, hn, List.filterMap_cons]
  · simp only [hw, Bool.false_eq_true, ↓reduceIte]
    have keep : t.part ≠ p → needsRetry { s with cr := setCr s.cr t.part false } p = true := by
      intro this
      simp only [needsRetry, setCr, Bool.or_eq_true] at hn ⊢
      rcases hn with hn | hn
      · exact Or.inl hn
      · right; simp [Ne.symm this, hn]
    by_cases hs : t.kind = .syn
    · simp only [hs, ↓reduceIte]
      exact ⟨by simp [adds, addD, List.filterMap_cons], keep (fun e => hr ⟨e, Or.inl hs⟩)⟩
    · simp only [hs, ↓reduceIte]
      by_cases hnt : needsRetry s t.part = true
      · simp only [hnt, ↓reduceIte]
        refine ⟨?_, ?_⟩
        · by_cases hr2 : t.retries ≥ max <;> simp [adds, addD, retryMsg, hr2, List.filterMap_cons]
        · split
          · rename_i hc
            have hf : t.kind = .fin := by
              simp only [Bool.and_eq_true, decide_eq_true_eq] at hc; exact hc.2
            exact keep (fun e => hr ⟨e, Or.inr hf⟩)
          · exact hn
      · have hpt : t.part ≠ p := fun e => hnt (by rw [e]; exact hn)
        simp only [hnt, Bool.false_eq_true, ↓reduceIte]
        by_cases hf : t.kind = .fin
        · simp only [hf, ↓reduceIte]
          refine ⟨?_, hn⟩
          by_cases hr2 : t.retries ≥ max <;> simp [adds, addD, retryMsg, hr2, List.filterMap_cons]
        · simp only [hf, ↓reduceIte]
          cases ov
          · simp [adds, addD, hpt, List.filterMap_cons, needsRetry] at hn ⊢
            exact hn
          · simp [adds, needsRetry] at hn ⊢
            exact hn

theorem handoverI_quiet (s : St) (again : Bool) (p : Int) (h : QInv s) (hn : needsRetry s p = true) :
    adds p (handoverI s again).2 = [] ∧ needsRetry (handoverI s again).1 p = true := by
  unfold handoverI
  by_cases h0 : (again && s.wait.isSome && s.sets.isEmpty) = true
  · simp only [h0, ↓reduceIte]; exact ⟨rfl, hn⟩
  · simp only [h0, Bool.false_eq_true, ↓reduceIte]
    unfold handover
    by_cases h1 : (!s.sets.isEmpty) = true
    · simp [h1, adds, addD, hn, List.filterMap_cons]
    · simp only [h1, Bool.false_eq_true, ↓reduceIte]
      cases hw : s.wait with
      | none =>
        simp only []
        by_cases h2 : (s.buffer.isEmpty && !s.stale) = true
        · simp [h2, adds, addD, hn, List.filterMap_cons]
        · simp only [h2, Bool.false_eq_true, ↓reduceIte]; exact ⟨rfl, hn⟩
      | some t =>
        have : t.part ≠ p := h.quiet p hn t (by simp [own, hw])
        exact ⟨by simp [adds, addD, this], hn⟩

theorem respI_quiet (max : Nat) (s : St) (r : Resp) (still : Bool) (p : Int) (h : QInv s) (hn : needsRetry s p = true) :
    adds p (respI max s r still).2.1 = [] ∧ needsRetry (respI max s r still).1 p = true := by
  unfold respI
  cases hs : s.sets with
  | nil => simp [adds, addD, hn, List.filterMap_cons]
  | cons sent rest =>
    simp only []
    obtain ⟨_, f2, _⟩ := handleI_frame max { s with sets := rest } sent r
    obtain ⟨n1, _, n4⟩ := handleI_needs max { s with sets := rest } sent r p
    have hnn : needsRetry (handleI max { s with sets := rest } sent r).1 p = true := by
      rw [n1]
      have : needsRetry { s with sets := rest } p = true := hn
      rw [this]; rfl
    generalize handleI max { s with sets := rest } sent r = H at *
    obtain ⟨x, acts, bs⟩ := H
    simp only at f2 n4 hnn ⊢
    unfold recheck
    cases hw : s.wait with
    | none =>
      rw [hw] at f2
      simp only [f2]
      exact ⟨n4, hnn⟩
    | some t =>
      rw [hw] at f2
      simp only [f2]
      have htp : t.part ≠ p := h.quiet p hn t (by simp [own, hw])
      by_cases hn2 : needsRetry x t.part = true
      · simp only [hn2, ↓reduceIte, adds_append, n4, List.nil_append]
        refine ⟨?_, hnn⟩
        by_cases hr2 : t.retries ≥ max <;> simp [adds, addD, retryMsg, hr2, List.filterMap_cons]
      · simp only [hn2, Bool.false_eq_true, ↓reduceIte]
        cases still
        · simp only [Bool.false_eq_true, ↓reduceIte, adds_append, n4, List.nil_append]
          exact ⟨by simp [adds, addD, htp], hnn⟩
        · simp only [↓reduceIte]
          exact ⟨n4, hnn⟩

theorem failAdd_quiet (r : St × List Action × List (List Tok)) (p : Int) :
    adds p (failAdd r).2.1 = adds p r.2.1 ∧ needsRetry (failAdd r).1 p = needsRetry r.1 p := by
  unfold failAdd
  split
  · exact ⟨adds_fail1 p _ _ _, rfl⟩
  · exact ⟨rfl, rfl⟩

theorem stepIE_quiet (max : Nat) (s : St) (inp : InI) (addErr : Bool) (p : Int) (h : QInv s)
    (hn : needsRetry s p = true) (hr : ¬ reopensI p inp) :
    adds p (stepIE max s inp addErr).2.1 = [] ∧ needsRetry (stepIE max s inp addErr).1 p = true := by
  have base : adds p (stepI max s inp).2.1 = [] ∧ needsRetry (stepI max s inp).1 p = true := by
    cases inp with
    | recv t ov => exact recvI_quiet max s t ov p hn hr
    | handover again => exact handoverI_quiet s again p h hn
    | resp r still => exact respI_quiet max s r still p h hn
    | inject set =>
      simp only [stepI, inject]
      by_cases h1 : (!s.sets.isEmpty) = true
      · simp [h1, adds, addD, hn, List.filterMap_cons]
      · simp only [h1, Bool.false_eq_true, ↓reduceIte]; exact ⟨rfl, hn⟩
  unfold stepIE
  cases addErr
  · simpa using base
  · simp only [↓reduceIte]
    obtain ⟨a, b⟩ := failAdd_quiet (stepI max s inp) p
    rw [a, b]; exact base

/-- **Quiet while refused, idempotent.**  From any reachable state that refuses partition `p` (a retriable verdict or a
    connection error has set it), as long as neither the partition's fin chaser nor a syn arrives: nothing of `p` is
    added to the buffer, `p` stays refused, and the worker's own buffer and held message contain nothing of `p`.
    (Unlike the plain producer, the SET IN FLIGHT may contain messages of `p`: a batch injected by retryBatch.) -/
theorem bpI_quiet_while_refused (max : Nat) (pre mid : List (InI × Bool)) (p : Int)
    (hn : needsRetry (runIE max {} pre).1 p = true) (hm : ∀ i ∈ mid, ¬ reopensI p i.1) :
    adds p (runIE max (runIE max {} pre).1 mid).2.1 = [] ∧ needsRetry (runIE max (runIE max {} pre).1 mid).1 p = true ∧
    (∀ t ∈ own (runIE max (runIE max {} pre).1 mid).1, t.part ≠ p) := by
  have h0 := runIE_inv max {} pre initI_inv
  generalize (runIE max {} pre).1 = s at *
  induction mid generalizing s with
  | nil => exact ⟨rfl, hn, h0.quiet p hn⟩
  | cons x xs ih =>
    obtain ⟨a, b⟩ := stepIE_quiet max s x.1 x.2 p h0 hn (hm x (by simp))
    obtain ⟨c, d, e⟩ := ih (fun j hj => hm j (by simp [hj])) (stepIE max s x.1 x.2).1 b (stepIE_inv max s x.1 x.2 h0)
    exact ⟨by simp only [runIE, adds_append, a, c, List.append_nil], d, e⟩

/-- **Empty produce set**: outside waitForSpace an empty set still needs the stale `output`; inside waitForSpace the
    second (forced) wait hands over whatever is in the buffer, also nothing. -/
theorem bpI_empty_set_needs_stale (s : St) (hw : s.wait = none) (again : Bool)
    (h : (handoverI s again).1.sets = [[]]) (h0 : s.sets = []) : s.buffer = [] ∧ s.stale = true := by
  have : handoverI s again = handover s := by simp [handoverI, hw]
  rw [this] at h
  exact bp_empty_set_needs_stale s hw h h0

/-! ### examples -/

/-- Retry.Max = 3.  Messages 1, 2 (partition 0) are sent, 3 (partition 0) waits in the buffer; the response is
    retriable: 1, 2 go to retryBatch (third component), 3 is bounced, partition 0 is refused. -/
def exI : List (InI × Bool) :=
  [(.recv ⟨-1, 0, 0, .syn⟩ false, false), (.recv ⟨1, 0, 0, .data⟩ false, false), (.recv ⟨2, 0, 0, .data⟩ false, false),
   (.handover false, false), (.recv ⟨3, 0, 0, .data⟩ false, false),
   (.resp (.verdicts (fun _ => .retriable) [] []) false, false)]

example : (runIE 3 {} exI).2.1 = [.ackSyn 0, .add 1 0, .add 2 0, .add 3 0, .drop 0, .requeue 3 0 1 false] ∧
    (runIE 3 {} exI).2.2 = [[⟨1, 0, 0, .data⟩, ⟨2, 0, 0, .data⟩]] ∧
    needsRetry (runIE 3 {} exI).1 0 = true ∧
    retryBatch 3 [⟨1, 0, 0, .data⟩, ⟨2, 0, 0, .data⟩] true =
      [.bump 1 1, .bump 2 1, .offer [⟨1, 0, 1, .data⟩, ⟨2, 0, 1, .data⟩]] ∧
    -- a spent budget fails the WHOLE batch (the bump already made stays)
    retryBatch 1 [⟨1, 0, 0, .data⟩, ⟨2, 0, 1, .data⟩] true = [.bump 1 1, .fail 1, .fail 2] := by decide

/-- **The per-partition FIFO of the plain producer does not hold.**  After `exI` the fin chaser re-opens partition 0
    and message 4 (partition 0, submitted after 1 and 2) is buffered while the retryBatch goroutine still holds [1, 2].
    First run: the goroutine reaches the bridge before the worker's next hand-over - [1, 2] are sent, then 4.
    Second run: the hand-over comes first - 4 is sent BEFORE 1 and 2.  Which one happens is decided by the scheduler,
    not by the worker (the known retryBatch reordering; the broker's sequence check turns it into errors). -/
example :
    (runIE 3 {} (exI ++ [(.recv ⟨-2, 0, 0, .fin⟩ false, false), (.recv ⟨-3, 0, 0, .syn⟩ false, false),
      (.recv ⟨4, 0, 0, .data⟩ false, false), (.inject [⟨1, 0, 1, .data⟩, ⟨2, 0, 1, .data⟩], false)])).1.sets
      = [[⟨1, 0, 1, .data⟩, ⟨2, 0, 1, .data⟩]] ∧
    (runIE 3 {} (exI ++ [(.recv ⟨-2, 0, 0, .fin⟩ false, false), (.recv ⟨-3, 0, 0, .syn⟩ false, false),
      (.recv ⟨4, 0, 0, .data⟩ false, false), (.handover false, false),
      (.inject [⟨1, 0, 1, .data⟩, ⟨2, 0, 1, .data⟩], false)])).1.sets = [[⟨4, 0, 0, .data⟩]] := by decide

/-- a failing buffer.add: the hook bp.add fires, the message is failed and is not in the buffer -/
example : (stepIE 3 {} (.recv ⟨7, 0, 0, .data⟩ false) true).2.1 = [.add 7 0, .fail 7 0] ∧
    (stepIE 3 {} (.recv ⟨7, 0, 0, .data⟩ false) true).1.buffer = [] := by decide

example : (ids (onPart 0 (arrivalsI 3 {} exI))).count 1 = 1 ∧ (ids (onPart 0 (runIE 3 {} exI).2.2.flatten)).count 1 = 1 ∧
    (outAll 0 (runIE 3 {} exI).2.1).count 3 = 1 := by decide

end Props.C05bp
