/-
  C02 / C01 / C12, composition, PROGRESS of the producer pipeline (`Model.Pipeline`), for the executions the real
  producer has (handover chains, Props/C02chain.lean; `HandoverChain` is checked on every replayed run):
    * `no_stuck_state` - ENABLEDNESS: in every reachable state in which some submitted id has neither a success
      nor an error, a choice that moves a token (not `submit`, not `moveLeader`) is enabled.
      (`no_stuck_state_handover_chain`: a reachable state is quiet or has such a choice;
       `no_loss_handover_chain`: every submitted id is held somewhere or has an outcome.)
    * `moves_bounded` / `moves_terminate` - TERMINATION: the variant `Lemmas.C02sys.vmu` (a weight per token by
      its place, 32 per retry left) falls at every token-moving choice, so after any reachable state at most
      `vmu` such choices can happen before the next submission, under EVERY scheduling (no fairness needed
      beyond "an enabled token-moving choice is eventually taken"; `moveLeader` leaves the variant unchanged).
    Together: without new submissions every maximal run decides every submitted message
    (`all_decided_when_nothing_moves`).
  The one place where a message can wait for something else is a retry buffer of the partition producer; the
  invariant `Lemmas.C02sys.FinS` says that the chaser it waits for is always on its way.
  What this does NOT say about the Go code: that its goroutines are scheduled fairly, that the broker answers,
  that channel operations the model treats as one step (a token moving from one queue to the next) cannot block
  for other reasons (Flush.* timers, MaxOpenRequests, back-pressure of unread Successes/Errors channels).
-/
import SaramaVerif.Lemmas.C02termPP
import SaramaVerif.Props.C02chain

namespace Props.C02sys
open Model Model.Pipeline Lemmas.C02sys

/-- the chain invariant with the chaser invariant -/
def LInv (M : Nat) (seen : List Nat) (s : Sys) : Prop := CInv M seen s ∧ FinS s ∧ NoLoss s

/-- what the progress argument takes from the safety invariant -/
theorem cinv_facts {M : Nat} {seen : List Nat} {s : Sys} (h : CInv M seen s) :
    (∀ t r, s.pq = t :: r → t.kind = .fin → 1 ≤ t.retries ∧ t.retries ≤ s.pp.hwm) ∧
    (∀ w, ∀ t ∈ (s.wk w).inq, t.kind = .fin → t.retries < M) ∧ s.crash = false ∧
    (∀ w vd base, (s.wk w).pend = some (vd, base) → (s.wk w).bp.sets ≠ []) ∧
    (∀ l, s.pp.hwm ≤ l → s.pp.bufs l = []) ∧
    (∀ w, Props.C02bp.PInv (s.wk w).bp) ∧ (∀ l, ∀ t ∈ s.pp.bufs l, t.fin = false) := by
  obtain ⟨olds, v, hg, _, _⟩ := h
  obtain ⟨gw, tc, g, _, hv⟩ := hg.rep
  refine ⟨?_, hg.conc.finq, hg.conc.crash, ?_, ?_, hg.conc.pinv, ?_⟩
  rotate_right 1
  · have := hg.vinv.pinv.typed
    rw [hv] at this
    exact fun l t ht => (this l t ht).2
  · intro t r hq hk
    have hm : t ∈ v.av := by rw [hv]; simp [hq]
    have := hg.vinv.fin1 t hm hk
    rw [hv] at this
    exact ⟨this.1, this.2.1⟩
  · intro w vd base hp
    obtain ⟨sent, hs, _⟩ := hg.log.pend w vd base hp
    rw [hs]; simp
  · have := hg.vinv.pinv.above
    rw [hv] at this
    exact this

theorem live_init (M : Nat) : LInv M [] {} := ⟨chain_init M, finS_init, noLoss_init⟩

theorem live_step {M : Nat} (hM : 1 ≤ M) {seen : List Nat} {s s' : Sys} (c : Choice)
    (hfresh : ∀ w ∈ lookupsOf c, w ∉ seen) (h : LInv M seen s) (hs : sysStep M s c = some s') :
    LInv M (seen ++ lookupsOf c) s' := by
  have h1 := chain_step hM c hfresh h.1 hs
  obtain ⟨f1, f2, _, _, _, f6, f7⟩ := cinv_facts h.1
  exact ⟨h1, finS_step h.2.1 f1 f2 (cinv_facts h1).2.2.1 hs, noLoss_step f6 f7 hs h.2.2⟩

theorem live_run {M : Nat} (hM : 1 ≤ M) (cs : List Choice) : ∀ {seen : List Nat} {s s' : Sys},
    (cs.flatMap lookupsOf).Nodup → (∀ w ∈ cs.flatMap lookupsOf, w ∉ seen) → LInv M seen s →
    run M s cs = some s' → ∃ seen', LInv M seen' s' := by
  induction cs with
  | nil => intro seen s s' _ _ h hr; simp only [run, Option.some.injEq] at hr; rw [← hr]; exact ⟨seen, h⟩
  | cons c cs ih =>
    intro seen s s' hnd hdis h hr
    simp only [run] at hr
    cases hs : sysStep M s c with
    | none => simp [hs] at hr
    | some s1 =>
      simp only [hs] at hr
      simp only [List.flatMap_cons, List.nodup_append] at hnd
      obtain ⟨_, hnd2, hnd3⟩ := hnd
      have h1 := live_step hM c (fun w hw => hdis w (by simp [List.flatMap_cons, hw])) h hs
      refine ih hnd2 ?_ h1 hr
      intro w hw hm
      rcases List.mem_append.1 hm with hm | hm
      · exact hdis w (by simp only [List.flatMap_cons, List.mem_append]; exact Or.inr hw) hm
      · exact hnd3 w hm w hw rfl

/-- **no stuck state, handover chain** (enabledness): in every state a handover-chain run reaches, either a
    choice that moves a token is enabled (`Enabled`: some choice other than `submit` / `moveLeader` has a
    successor state), or nothing is left anywhere (`Quiet`: p.input, pp.input, the retries queue, every worker's
    input channel, buffer, bridge and pending answer, and every retry buffer of the partition producer are
    empty). -/
theorem no_stuck_state_handover_chain {M : Nat} (hM : 1 ≤ M) (cs : List Choice) (hc : HandoverChain cs) {s : Sys}
    (hr : run M {} cs = some s) : Enabled M s ∨ Quiet s := by
  obtain ⟨seen', h⟩ := live_run hM cs hc (fun _ _ hm => by cases hm) (live_init M) hr
  obtain ⟨_, _, _, f4, f5, _, _⟩ := cinv_facts h.1
  exact enabled_or_quiet M s f4 h.2.1 f5

/-- no loss along handover-chain runs: every submitted id is held somewhere or has an outcome -/
theorem no_loss_handover_chain {M : Nat} (hM : 1 ≤ M) (cs : List Choice) (hc : HandoverChain cs) {s : Sys}
    (hr : run M {} cs = some s) : NoLoss s := by
  obtain ⟨seen', h⟩ := live_run hM cs hc (fun _ _ hm => by cases hm) (live_init M) hr
  exact h.2.2

/-- **no stuck state** (the form asked for): in every state a handover-chain run reaches, if some submitted id
    has neither a success nor an error yet, then a choice other than `submit` (and other than `moveLeader`) is
    enabled. -/
theorem no_stuck_state {M : Nat} (hM : 1 ≤ M) (cs : List Choice) (hc : HandoverChain cs) {s : Sys}
    (hr : run M {} cs = some s) (i : Int) (h0 : 0 ≤ i) (h1 : i < (s.next : Int))
    (hs : i ∉ s.succ.map (·.1)) (he : i ∉ s.errs) : Enabled M s := by
  rcases no_stuck_state_handover_chain hM cs hc hr with h | h
  · exact h
  · rcases quiet_outcome h (no_loss_handover_chain hM cs hc hr i h0 h1) with e | e
    · exact absurd e hs
    · exact absurd e he

/-- a run that cannot move any more has decided every submitted message -/
theorem all_decided_when_nothing_moves {M : Nat} (hM : 1 ≤ M) (cs : List Choice) (hc : HandoverChain cs) {s : Sys}
    (hr : run M {} cs = some s) (hn : ¬ Enabled M s) (i : Int) (h0 : 0 ≤ i) (h1 : i < (s.next : Int)) :
    i ∈ s.succ.map (·.1) ∨ i ∈ s.errs := by
  rcases no_stuck_state_handover_chain hM cs hc hr with h | h
  · exact absurd h hn
  · exact quiet_outcome h (no_loss_handover_chain hM cs hc hr i h0 h1)

/-! ### non-vacuity -/

/-- after the retriable answer of `exChain` (13 choices) messages 0, 1, 2 are undecided: a step is enabled -/
example : ∀ s, run 2 {} (exChain.take 13) = some s → Enabled 2 s := by
  intro s h
  have key : (run 2 {} (exChain.take 13)).map (fun s => (s.next, s.succ, s.errs)) = some (3, [], []) := by decide
  rw [h] at key
  simp only [Option.map_some, Option.some.injEq, Prod.mk.injEq] at key
  obtain ⟨k1, k2, k3⟩ := key
  exact no_stuck_state (by decide) _ (by decide) h 0 (by decide) (by rw [k1]; decide) (by simp [k2]) (by simp [k3])

/-- the end state of `exChain` is quiet: nothing is enabled, everything is decided -/
example : (run 2 {} exChain).map (fun s => (s.dq.length + s.pq.length + s.ret.length + (s.wk 0).inq.length +
    (s.wk 1).inq.length + s.pp.hwm, s.succ.length + s.errs.length, s.next)) = some (0, 4, 4) := by decide

/-! ### termination: the variant -/

/-- what the variant argument takes from the invariants -/
theorem linv_facts {M : Nat} {seen : List Nat} {s : Sys} (h : LInv M seen s) (N : Nat) (hN : ∀ w ∈ seen, w < N) :
    (∀ c, s.cur = some c → c ∈ List.range N) ∧ (∀ w, w ∉ List.range N → s.wk w = {}) ∧ s.pp.hwm ≤ M + 1 ∧
    (∀ w vd base, (s.wk w).pend = some (vd, base) → ∃ sent, (s.wk w).bp.sets = [sent]) ∧
    (∀ w, P0 (insideB (s.wk w).bp)) := by
  obtain ⟨olds, v, hg, ho, hcs⟩ := h.1
  refine ⟨fun c hc => List.mem_range.2 (hN c (hcs c hc)), fun w hw => ?_, ?_, ?_, ?_⟩
  · have hwN : ¬ w < N := fun e => hw (List.mem_range.2 e)
    exact hg.conc.fresh w (fun e => hwN (hN w (ho w e))) (fun e => hwN (hN w (hcs w e)))
  · rcases Nat.eq_zero_or_pos s.pp.hwm with e | e
    · omega
    · rcases h.2.1.fin3 _ (h.2.1.top e) with ⟨f, hf, _, h2⟩ | ⟨w, f, hf, h1, h2⟩
      · have := hg.conc.lvl f hf; omega
      · have := hg.conc.finq w f hf h1; omega
  · intro w vd base hp
    obtain ⟨sent, hs, _⟩ := hg.log.pend w vd base hp
    exact ⟨sent, hs⟩
  · intro w
    exact (P0_append.1 (hg.conc.p0w w)).2

theorem vmu_moveLeader (M B : Nat) (ws : List Nat) (s : Sys) (b : Nat) :
    vmu M B ws { s with ldr := b } = vmu M B ws s := rfl

/-- along a continuation without submissions every token-moving choice costs one unit of the variant -/
theorem term_run {M : Nat} (hM : 1 ≤ M) (N : Nat) (ds : List Choice) : ∀ {seen : List Nat} {s s' : Sys},
    LInv M seen s → (∀ w ∈ seen, w < N) → (ds.flatMap lookupsOf).Nodup →
    (∀ w ∈ ds.flatMap lookupsOf, w ∉ seen ∧ w < N) → (∀ c ∈ ds, c ≠ .submit) → run M s ds = some s' →
    (ds.filter moves).length + vmu M (M + 1) (List.range N) s' ≤ vmu M (M + 1) (List.range N) s := by
  induction ds with
  | nil => intro seen s s' _ _ _ _ _ hr; simp only [run, Option.some.injEq] at hr; rw [hr]; simp
  | cons c ds ih =>
    intro seen s s' h hN hnd hdis hns hr
    simp only [run] at hr
    cases hs : sysStep M s c with
    | none => simp [hs] at hr
    | some s1 =>
      simp only [hs] at hr
      simp only [List.flatMap_cons, List.nodup_append] at hnd
      obtain ⟨_, hnd2, hnd3⟩ := hnd
      have hc1 : ∀ w ∈ lookupsOf c, w ∉ seen ∧ w < N := fun w hw => hdis w (by simp [List.flatMap_cons, hw])
      have h1 := live_step hM c (fun w hw => (hc1 w hw).1) h hs
      have hN1 : ∀ w ∈ seen ++ lookupsOf c, w < N := by
        intro w hw
        rcases List.mem_append.1 hw with e | e
        · exact hN w e
        · exact (hc1 w e).2
      have hrest := ih h1 hN1 hnd2 (by
        intro w hw
        refine ⟨fun hm => ?_, (hdis w (by simp only [List.flatMap_cons, List.mem_append]; exact Or.inr hw)).2⟩
        rcases List.mem_append.1 hm with hm | hm
        · exact (hdis w (by simp only [List.flatMap_cons, List.mem_append]; exact Or.inr hw)).1 hm
        · exact hnd3 w hm w hw rfl) (fun c' hc' => hns c' (List.mem_cons_of_mem _ hc')) hr
      by_cases hmv : moves c = true
      · obtain ⟨g1, g2, g3, g4, g5⟩ := linv_facts h N hN
        obtain ⟨f1, _⟩ := cinv_facts h.1
        have := mu_step hM (List.nodup_range) hmv g1 (fun w hw => List.mem_range.2 (hc1 w hw).2) g2 g3 f1 g4 g5 hs
        simp only [List.filter_cons, hmv, if_true, List.length_cons]
        omega
      · have hsame : vmu M (M + 1) (List.range N) s1 = vmu M (M + 1) (List.range N) s := by
          cases c <;> simp [moves] at hmv
          · exact absurd rfl (hns _ (List.mem_cons_self ..))
          · simp only [sysStep, Option.some.injEq] at hs
            subst hs; exact vmu_moveLeader _ _ _ _ _
          · exact vmu_closeW hs
        simp only [List.filter_cons, hmv]
        rw [hsame] at hrest
        exact hrest

theorem live_run_seen {M : Nat} (hM : 1 ≤ M) (cs : List Choice) : ∀ {seen : List Nat} {s s' : Sys},
    (cs.flatMap lookupsOf).Nodup → (∀ w ∈ cs.flatMap lookupsOf, w ∉ seen) → LInv M seen s →
    run M s cs = some s' → LInv M (seen ++ cs.flatMap lookupsOf) s' := by
  induction cs with
  | nil => intro seen s s' _ _ h hr; simp only [run, Option.some.injEq] at hr; rw [← hr]; simpa using h
  | cons c cs ih =>
    intro seen s s' hnd hdis h hr
    simp only [run] at hr
    cases hs : sysStep M s c with
    | none => simp [hs] at hr
    | some s1 =>
      simp only [hs] at hr
      simp only [List.flatMap_cons, List.nodup_append] at hnd
      obtain ⟨_, hnd2, hnd3⟩ := hnd
      have h1 := live_step hM c (fun w hw => hdis w (by simp [List.flatMap_cons, hw])) h hs
      have := ih hnd2 (by
        intro w hw hm
        rcases List.mem_append.1 hm with hm | hm
        · exact hdis w (by simp only [List.flatMap_cons, List.mem_append]; exact Or.inr hw) hm
        · exact hnd3 w hm w hw rfl) h1 hr
      simpa [List.flatMap_cons, List.append_assoc] using this

/-- **termination of the token-moving choices**: continue any handover-chain run `cs` by any choice sequence
    `ds` without new submissions (the whole still a handover chain).  Then the number of token-moving choices
    in `ds` is bounded by the variant of the state after `cs` (minus what is left of it).  `N` is any bound on
    the workers named in the run; the workers beyond those named in `cs` are in their initial state and weigh
    nothing. -/
theorem moves_terminate {M : Nat} (hM : 1 ≤ M) (cs ds : List Choice) (hc : HandoverChain (cs ++ ds))
    (hns : ∀ c ∈ ds, c ≠ .submit) {s s' : Sys} (hr : run M {} cs = some s) (hr' : run M s ds = some s')
    (N : Nat) (hN : ∀ w ∈ (cs ++ ds).flatMap lookupsOf, w < N) :
    (ds.filter moves).length + vmu M (M + 1) (List.range N) s' ≤ vmu M (M + 1) (List.range N) s := by
  simp only [HandoverChain, List.flatMap_append, List.nodup_append] at hc
  obtain ⟨hc1, hc2, hc3⟩ := hc
  have h := live_run_seen hM cs hc1 (fun _ _ hm => by cases hm) (live_init M) hr
  simp only [List.nil_append] at h
  refine term_run hM N ds h (fun w hw => hN w (by simp [List.flatMap_append, hw])) hc2 ?_ hns hr'
  intro w hw
  exact ⟨fun hm => hc3 w hm w hw rfl, hN w (by simp only [List.flatMap_append, List.mem_append]; exact Or.inr hw)⟩

theorem lt_foldr_max (l : List Nat) : ∀ w ∈ l, w < l.foldr max 0 + 1 := by
  induction l with
  | nil => intro w h; cases h
  | cons a r ih =>
    intro w h
    simp only [List.foldr_cons]
    rcases List.mem_cons.1 h with e | e
    · subst e; omega
    · have := ih w e; omega

theorem wsW_range_default (M : Nat) (f : Nat → Worker) (N0 : Nat) (hd : ∀ w, N0 ≤ w → f w = {}) :
    ∀ N, N0 ≤ N → wsW M (List.range N) f = wsW M (List.range N0) f := by
  intro N
  induction N with
  | zero => intro h; have : N0 = 0 := by omega
            subst this; rfl
  | succ n ih =>
    intro h
    rcases Nat.eq_or_lt_of_le h with e | e
    · rw [e]
    · have := ih (by omega)
      simp only [wsW, List.range_succ, List.map_append, List.sum_append, List.map_cons, List.map_nil,
        List.sum_cons, List.sum_nil] at this ⊢
      rw [this, hd n (by omega), wW_default]; simp

/-- the bound does not depend on the continuation: after the handover-chain run `cs`, no continuation without
    submissions contains more than `vmu` (of the state reached, over the workers named in `cs`) token-moving
    choices.  With `no_stuck_state`: the run can always be continued by a token-moving choice until every
    submitted message is decided, and that takes at most `vmu` such choices - whatever the scheduling. -/
theorem moves_bounded {M : Nat} (hM : 1 ≤ M) (cs ds : List Choice) (hc : HandoverChain (cs ++ ds))
    (hns : ∀ c ∈ ds, c ≠ .submit) {s s' : Sys} (hr : run M {} cs = some s) (hr' : run M s ds = some s')
    (N0 : Nat) (hN0 : ∀ w ∈ cs.flatMap lookupsOf, w < N0) :
    (ds.filter moves).length ≤ vmu M (M + 1) (List.range N0) s := by
  have hc' := hc
  simp only [HandoverChain, List.flatMap_append, List.nodup_append] at hc'
  have h := live_run_seen hM cs hc'.1 (fun _ _ hm => by cases hm) (live_init M) hr
  simp only [List.nil_append] at h
  obtain ⟨_, g2, _, _, _⟩ := linv_facts h N0 hN0
  have hb := lt_foldr_max (ds.flatMap lookupsOf)
  have := moves_terminate hM cs ds hc hns hr hr' (max N0 ((ds.flatMap lookupsOf).foldr max 0 + 1)) (by
    intro w hw
    simp only [List.flatMap_append, List.mem_append] at hw
    rcases hw with e | e
    · have := hN0 w e; omega
    · have := hb w e; omega)
  have heq : vmu M (M + 1) (List.range (max N0 ((ds.flatMap lookupsOf).foldr max 0 + 1))) s =
      vmu M (M + 1) (List.range N0) s := by
    simp only [vmu]
    rw [wsW_range_default M s.wk N0 (fun w hw => g2 w (by simp; omega)) _ (by omega)]
  omega

/-- the variant along `exChain`: 199 after the retriable answer, 0 at the end (it grows by 87 at a submission and
    falls at every other choice) -/
example : (run 2 {} (exChain.take 13)).map (fun s => vmu 2 3 (List.range 2) s) = some 199 := by decide
example : (run 2 {} exChain).map (fun s => vmu 2 3 (List.range 2) s) = some 0 := by decide

/-- the 8 choices of `exChain` after the retriable answer (no submission among them) are within the bound -/
example : ∀ s s', run 2 {} (exChain.take 13) = some s → run 2 s ((exChain.drop 13).take 8) = some s' →
    (((exChain.drop 13).take 8).filter moves).length ≤ vmu 2 3 (List.range 2) s :=
  fun _ _ h h' => moves_bounded (by decide) _ _ (by decide)
    (by intro c hc e; subst e; simp [exChain] at hc) h h' 2 (by decide)

/-! ### the repaired dispatch (`PartProd.recvG`) and the model (`PartProd.recv`) -/

/-- in every state a handover-chain run reaches, a token of a new, higher retry level at the head of pp.input finds
    a broker worker selected: `newHighWatermark` has somewhere to send its chaser -/
theorem rise_finds_worker {M : Nat} (hM : 1 ≤ M) (cs : List Choice) (hc : HandoverChain cs) {s : Sys}
    (hr : run M {} cs = some s) (t : Pipeline.Tok) (r : List Pipeline.Tok) (hq : s.pq = t :: r) (hlvl : s.pp.hwm < t.retries) :
    s.cur ≠ none := by
  obtain ⟨seen, h⟩ := chain_run hM cs hc (fun _ _ hm => by cases hm) (chain_init M) hr
  intro hcur
  have hs : sysStep M s (.ppRecv []) = some (ppActs { s with pq := r, pp := (PartProd.recv s.pp (toPP t)).1 } []
      (PartProd.recv s.pp (toPP t)).2) := by simp [sysStep, hq]
  have h1 := chain_step hM (.ppRecv []) (fun w hw => by simp [lookupsOf] at hw) h hs
  have hcr := (cinv_facts h1).2.2.1
  rw [recv_rise_acts s.pp (toPP t) (by simpa [toPP] using hlvl)] at hcr
  obtain ⟨_, g2, _⟩ := ppActs_grow [PartProd.Action.emit (toPP t).id (toPP t).retries (toPP t).fin]
    (ppAct { s with pq := r, pp := (PartProd.recv s.pp (toPP t)).1 } [] (.finSend ((toPP t).retries - 1))).1
    (ppAct { s with pq := r, pp := (PartProd.recv s.pp (toPP t)).1 } [] (.finSend ((toPP t).retries - 1))).2
  have : (ppAct { s with pq := r, pp := (PartProd.recv s.pp (toPP t)).1 } []
      (.finSend ((toPP t).retries - 1))).1.crash = true := by simp [ppAct, hcur]
  have e := g2 this
  exact absurd (e.symm.trans hcr) (by simp)

/-- so the branch that the repair added to the partition producer (`recvG`: fail the token when no worker is
    selected and the look-up fails) is never taken in these runs: the model's `recv` is the repaired dispatch -/
theorem recvG_eq_recv {M : Nat} (hM : 1 ≤ M) (cs : List Choice) (hc : HandoverChain cs) {s : Sys}
    (hr : run M {} cs = some s) (t : Pipeline.Tok) (r : List Pipeline.Tok) (hq : s.pq = t :: r) (avail : Bool)
    (hav : s.cur ≠ none → avail = true) :
    PartProd.recvG s.pp (toPP t) avail = PartProd.recv s.pp (toPP t) := by
  simp only [PartProd.recvG]
  split
  · rename_i hg
    have := rise_finds_worker hM cs hc hr t r hq (by simpa [toPP] using hg.1)
    rw [hav this] at hg; exact absurd hg.2 (by simp)
  · rfl

end Props.C02sys
