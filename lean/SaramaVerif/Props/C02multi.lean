/-
  C02 composition, stage C: SEVERAL PARTITIONS (`Model.PipelineN`) and their projections on one partition.
    * `LogOrderOf` - LogOrder as a statement about a partition log and its successes; `logOrder_iff`.
    * `QRel` / `proj_plain` - PROVED: the steps that do not involve workers (submit, retryOut, dispatch, moveLeader)
      of a run with several partitions project, on every partition `p`, to the same step of the one-partition model
      when they concern a token of `p`, and to no step otherwise (shared FIFOs project by filtering).
    * worker-local facts - PROVED: `recv_other_partition` (a token of another partition changes neither the retry
      mark of `p` nor the closing mode nor what the worker holds of `p`), and, from Props/C02bp.lean,
      `Props.C02bp.step_fifo` (every step of a worker conserves every partition separately).
    * `ProjSim` - OPEN: the projection of a whole run on `p`, with the rules of the replay (sets that hold nothing
      of `p` and are not answered with a connection error are hidden, overflow caused by other partitions is looked
      through, a foreign connection error is `closeW` or hand-over + failed request + delivery, one model worker per
      stay), is a run of `Model.Pipeline` inside the proved scope (`splitOKs`) with the partition's log and outcomes.
      It is what the projection replay checks for every partition of every real run with several partitions.
      (Random exploration of `Model.PipelineN`, 2 partitions sharing 2 workers, M = 0..3, 20 000 runs: LogOrder holds
      for every partition in every run.)
    * `log_order_every_partition` - PROVED from `ProjSim`: for every partition, LogOrder.
  Partial results towards `ProjSim` (all PROVED, each a SINGLE-STEP projection; they are not yet assembled along a run):
    * Props/C02multiW.lean - worker level: `recv_proj_own`, `recv_proj_foreign` (stutter up to `stale`),
      `handover_proj`, `handover_hidden` (the hidden sets).
    * Props/C02multiS.lean - `WRel BR` (QRel + current worker + every worker's input projected by filtering + a relation
      `BR` on the inner states), `proj_ppRecv_other` (no step), `proj_ppRecv_own` (the same `ppRecv`); any `BR` that
      looks at the inner state only.
    * Props/C02multiR.lean, C02multiF.lean - `bpRecv`: `recv_stale` (taking a token does not read `stale`),
      `proj_bpRecv_foreign` (a token of another partition: no step) and `proj_bpRecv_own_s` (a token of `p`: the
      `bpRecv` step, same outcomes), for `BRs` = inner state is `projB p` up to `stale`, no pending answer
      (`proj_bpRecv_own`: the same for exact equality `BRx`).
    * Props/C02multiH.lean - `handover`: `proj_handover_hidden` (the set holds nothing of `p`, no message of `p` held:
      no step, the set is hidden) and `proj_handover_visible` (otherwise: the `handover` step), for `BRh` = inner states
      related field by field, set projected or hidden, no pending answer without a set.
    * Props/C02multiB.lean - `broker`: `proj_broker_log` (the log of `p` changes as in the one-partition step on the
      projected set; nothing else of `QRel p` changes).
    * Props/C02multiP.lean, C02multiP2.lean, C02multiA.lean - ONE relation for all worker steps: `BRp p` (inner state
      = `projB p` except `stale` and the set at the bridge, which is projected or HIDDEN; pending answer = `projPend`:
      verdict of `p` / request-level error, base offset of `p`; hidden set => no set and no pending answer).  For
      `WRel (BRp p)`: `proj_bpRecv_own_p`, `proj_bpRecv_foreign_p` (a set - visible or hidden - may be at the bridge;
      `recv_ss`: taking a token reads neither `stale` nor the set), `proj_handover_hidden_p`, `proj_handover_visible_p`,
      `proj_broker_hidden_p` (no step, log of `p` unchanged), `proj_broker_visible_p` (the `broker` step with
      `projV p r`, pending answers stay related; hypotheses: the answer is well-formed for `p` and an appending answer
      comes from the leader of `p`), and the assembly `proj_step_partial`: EVERY CHOICE BUT `deliver`, from related
      states, is no step or one step of `Model.Pipeline` between related states.
    * Props/C02multiZ.lean - THE RUN: `projOK M p sN cs` (decidable side condition, checked along the N-run: `brOK` for
      every broker step - answer well-formed for `p`, an appending answer comes from the leader of `p`; `delOK` for every
      deliver step - the set holds something of `p`, or the answer is not a connection error and no message of `p` is
      held), `DeliverProj M p` (a named Prop, PROVED in Props/C02multiC2.lean: the projection of the `deliver` step under `delOK`),
      `ProjSim_partial` (PROVED from `DeliverProj`: `projOK` + `runN M {} cs = some sN` give a run of `Model.Pipeline`
      with the log, successes and errors of `p`; invariant `WRel (BRp p)`, induction step `proj_step_partial`), and
      `log_order_every_partition_partial` (LogOrder for `p`, provided the exhibited one-partition run satisfies
      `splitOKs`).  `projOK` holds for `exTwo` and both of its partitions (by `decide`).
    * Props/C02multiD.lean - towards `DeliverProj`, the worker-local half of the HIDDEN case: `resp_hidden_parts` (a
      per-partition answer for a set that holds nothing of `p`, while no message of `p` is held: the actions are
      `ForeignActs p`, the set is removed, closing / the retry mark of `p` / the buffered messages of `p` are unchanged,
      the held message stays foreign; no worker invariant needed) and `projB_hidden_parts` (so `projB p` is unchanged
      up to `sets` and `stale`).  Props/C02multiD2.lean lifts it to the system step: `proj_deliver_hidden_parts_p` (set
      without messages of `p`, the one-partition worker has no set, no message of `p` held, per-partition answer:
      `deliver` is NO step, `WRel (BRp p)` kept).
    * Props/C02multiD3.lean - `proj_deliver_noneOfP_p`: the `deliver` step for a set that holds NOTHING of `p`, from
      `delOK` alone.  NOTE: "a visible set holds something of `p`" is NOT an invariant - a hand-over while a message
      of `p` is held and none is buffered hands over the EMPTY projection (the held message goes to the new buffer) -
      so the case is split on `hid` of `BRp`: hidden => no step; visible empty set => the `deliver` step of the
      one-partition worker on its empty set, no actions (`resp_emptyset`).
    * Props/C02multiY.lean - `DeliverVisProj M p` (a named Prop, PROVED in Props/C02multiC2.lean, narrower than `DeliverProj`: the `deliver` step
      for a set that holds SOMETHING of `p`), `deliverProj_of_vis : DeliverVisProj M p → DeliverProj M p` (PROVED),
      `ProjSim_partial'` / `log_order_every_partition_partial'` (as the unprimed ones, from `DeliverVisProj`);
      and the UNCONDITIONAL form: `projOKn` = `projOK` with `delOK` restricted to exclude exactly the unfinished case
      (`delOKn`: the delivered set holds nothing of `p`, per-partition answer, no message of `p` held),
      `ProjSim_noneDelivered` and `log_order_every_partition_noneDelivered` (no open hypothesis).  Example `exHid`
      (a set of partition 1 delivered while partition 0 is in flight, then a shared set appended): `projOKn 2 0`
      holds and the theorem is instantiated; `exTwo` (first `deliver` holds both partitions) is inside `projOK`,
      outside `projOKn`.
    * Props/C02multiM.lean - `bpActsN_mixed` (system level): applying ANY action list to the N-state is, for `p`,
      applying `(as.filter (isOwn p)).map relabA` to the one-partition state, offsets from `off p`.
    * Props/C02multiV.lean, C02multiV2.lean, C02multiV3.lean - the WORKER LEVEL of the visible `deliver` with a
      per-partition answer (`.parts v`, i.e. `.verdicts (bvOf ∘ v) [] []`), PROVED, no worker invariant needed:
      `own_loop1` / `own_loop2` / `own_handle` (the outcome-bearing actions of `p` of the two passes of handleSuccess
      over a set with several partitions, with retries and fin flags, and cr `p` / buffer of `p` afterwards),
      `handle_P0` (the one-partition worker on a non-empty set with a constant verdict), `handle_proj_parts`,
      `recheck_proj` (held message of `p`, of another partition, or none) and `resp_proj_parts`: for a set with
      `projL p sent ≠ []`, `BrokerProd.resp` on the worker with several partitions and on the one-partition worker
      (projected set, verdict of `p`) have the same relabelled outcome-bearing actions of `p`
      (`A1.filter (isOwn 0) = (A.filter (isOwn p)).map relabA`), the states stay related (`closing`, `cr`, `buffer`,
      `wait` as `projB p`), both lose the head of `sets`.
    * Props/C02multiV4.lean, C02multiL0.lean, C02multiL.lean - THE LIFT, PROVED: `projV_parts_toResp_eq`,
      `bpActs_filter_out` (`bpActs` reads the outcome-bearing actions only), `resp_P0_out` (on the one-partition worker
      they are all of partition 0), and `proj_deliver_visible_parts_p`: the `deliver` step of a `.parts` answer for a
      set that holds something of `p` IS the `deliver` step of the one-partition model (answer `projV p r`, offsets
      from `base p`), `WRel (BRp p)` kept.
    * Props/C02multiX.lean - `DeliverVisConnProj M p` (a named Prop, PROVED in Props/C02multiC2.lean: the `deliver` step of a CONNECTION-ERROR
      answer `.conn a` for a set that holds something of `p`), `deliverVisProj_of_conn : DeliverVisConnProj M p →
      DeliverVisProj M p` (PROVED), `ProjSim_partial''` / `log_order_every_partition_partial''` (under `projOK`, from
      `DeliverVisConnProj`); and the UNCONDITIONAL form for runs whose delivered answers are all per-partition:
      `projOKp` (= `projOK` with `delOKp`: the answer is not a connection error, and the set holds something of `p`
      or no message of `p` is held), `ProjSim_parts` and `log_order_every_partition_parts` (no open hypothesis; the
      latter still has `splitOKs` of the exhibited one-partition run as the premise of its LogOrder conclusion - it
      is NOT computed, the run is existential).  `projOKp 2 0 {} exTwo` and `projOKp 2 1 {} exTwo` hold by `decide`;
      `ProjSim_parts` is instantiated on `exTwo` (log `[0, 1]`, successes `[(0,0),(1,1)]` for partition 0), and
      `log_order_every_partition_parts` on partition 1 with `splitOKs` as the hypothesis.
    * Props/C02multiC.lean, C02multiC2.lean - CONNECTION-ERROR answers and the assembly, PROVED: `handle_proj_conn`,
      `resp_proj_conn`, `resp_P0_out_conn` (worker level: all messages of `p` in the set and in the buffer are
      re-queued or expired on both sides, `closing` set, `recheck_proj` reused), `proj_deliver_visible_conn_p` (the
      lift), `deliverVisConnProj_holds`, `deliverVisProj_holds`, `deliverProj_holds : DeliverProj M p`, and
      `ProjSim_projOK` / `log_order_every_partition_projOK` = `ProjSim_partial` / `log_order_every_partition_partial`
      with NO open hypothesis: under the decidable `projOK M p {} cs`, a run `runN M {} cs = some sN` projects on a
      run of `Model.Pipeline` with the log, successes and errors of `p`.  Example `exConn` (a connection error for a
      set with messages of both partitions; inside `projOK` for both partitions, outside `projOKp`).
    * Props/C02multiK.lean - THE COMPUTED PROJECTION, PROVED: `projChoice p sN s c` (the step of the one-partition model
      that the choice `c` is for `p`, or `none`; decided from the two states with the case split of the step lemmas:
      partition of the token / hidden or visible set = whether the one-partition worker has a set), `proj_plain_c`
      and `proj_step_c` (every step, under its side condition `stepOK` = `brOK` / `delOK`, IS the computed one; uses
      `proj_deliver_noneOfP_c`, the explicit form of `proj_deliver_noneOfP_p` in Props/C02multiD3.lean), `projRun M p
      sN s cs` (projected choice list and final state along the N-run), `projRun_sound` (under `projOK`, `projRun`
      succeeds, its result is a run of `Model.Pipeline` with the log / successes / errors of `p`: the witness of
      `ProjSim_projOK` is the computed one), `projSplitOK M p cs` (= `splitOKs` of the computed projection) and
      `log_order_every_partition_checked : 1 ≤ M → projOK M p {} cs = true → projSplitOK M p cs = true →
      runN M {} cs = some sN → LogOrderOf (sN.log p) (sN.succ p)` - ALL premises decidable from `cs`.  Instantiated
      fully by `decide` on `exTwo` and `exConn`, both partitions.
  NO single-step statement is open any more: EVERY choice of the model with several partitions, from
  `WRel (BRp p)`-related states and under the per-step side conditions (`brOK`, `delOK`), is no step or one step of
  the one-partition model, and which one is computed (`projChoice`).  What the side conditions EXCLUDE (not covered):
    - `brOK`: a broker answer that is not well-formed for `p`, or that appends for `p` without coming from the leader
      of `p`.
    - `delOK`: a `deliver` for a set that holds NOTHING of `p` when (i) the answer is a connection error or (ii) a
      message of `p` is held in waitForSpace.  Why these are no simulation step as the model stands: the worker with
      several partitions goes to closing mode and bounces everything in its buffer (i), or re-checks the held message
      of `p` (ii) - retried if the worker is closing / `p` is in retry mode, else appended to the buffer -, i.e. the
      state of `p` changes; but the one-partition worker has no set at its bridge and no prepared answer, so its
      `deliver` is not enabled, and the only other step that sets `closing`, `Choice.closeW`, requires (`canClose`)
      an empty buffer, nothing held, normal mode and `cur = some w`.  Props/C02multiQ.lean PROVES the two sub-cases of
      (i) with nothing of `p` buffered or held, as single-step lemmas that keep `WRel (BRp p)`:
      `proj_deliver_hidden_conn_closeW_p` (the worker is `p`'s current worker, normal mode, syn consumed, `p` not in
      retry mode: the `Choice.closeW w` step, `canClose` holds) and `proj_deliver_hidden_conn_closing_p` (the worker
      is already closing: no step); worker level `resp_hidden_conn`.  Props/C02multiK2.lean WIRES THEM IN, as widened
      versions next to the unchanged `delOK` / `projOK` / `projChoice` / `projRun`: `hidConnOK`, `delOK2` (= `delOK`
      or `hidConnOK`), `stepOK2`, `projOK2`, `projChoice2` (a hidden connection error is `closeW w` when the worker
      is not closing, no step when it is), `proj_step_c2`, `projRun2`, `projRun2_sound`, `projSplitOK2` and
      `log_order_every_partition_checked2` (same statement as `..._checked` with the 2-versions); a connection error
      for a VISIBLE set that is empty for `p` is covered too (`proj_deliver_visible_conn_j`, Props/C02multiC2.lean).
      `exForeignConn` is outside `projOK 2 0`, inside `projOK2 2 0`; its projection has 9 steps ending in `closeW`,
      and LogOrder for both of its partitions is obtained by `decide` from the choice list; `exTwo` and `exConn`
      satisfy the 2-versions as well.
      Still no simulation step: (i) in normal mode when the worker is not `p`'s current worker or `p` is in retry
      mode there (`BRp` equates the closing modes), (i) with messages of `p` buffered/held, and (ii) - these need a
      weaker `BRp` or a new choice in `Model.Pipeline` - not done.
  Also not established: that the computed projection ALWAYS satisfies `splitOKs` (`projSplitOK` is a checked premise
  of `log_order_every_partition_checked`, not a theorem), and the full `ProjSim` (no side condition).
-/
import SaramaVerif.Model.PipelineN
import SaramaVerif.Props.C02split

namespace Props.C02sys
open Model Model.Pipeline Model.PipelineN Lemmas.C02sys

/-- LogOrder of a partition log with its successes -/
def LogOrderOf (log : List Int) (succ : List (Int × Nat)) : Prop :=
  (∀ a b oa ob, (a, oa) ∈ succ → (b, ob) ∈ succ → a < b → oa < ob) ∧
  (∀ a b, a < b → a ∈ log → b ∈ log → log.idxOf a < log.idxOf b)

theorem logOrder_iff (s : Sys) : LogOrder s ↔ LogOrderOf s.log s.succ := Iff.rfl

/-- **the projection of a run with several partitions on a partition** (OPEN): there is a run of the one-partition
    model, inside the scope of `log_order_reselect`, with the log, successes and errors of partition `p` -/
def ProjSim (M : Nat) : Prop :=
  ∀ (cs : List ChoiceN) (sN : SysN) (p : Int), runN M {} cs = some sN →
    ∃ (cs' : List Choice) (s : Sys), splitOKs M cs' = true ∧ run M {} cs' = some s ∧
      s.log = sN.log p ∧ s.succ = sN.succ p ∧ s.errs = sN.errs p

/-- for every partition, LogOrder - given the projection -/
theorem log_order_every_partition {M : Nat} (hM : 1 ≤ M) (hp : ProjSim M) (cs : List ChoiceN) (sN : SysN)
    (hr : runN M {} cs = some sN) (p : Int) : LogOrderOf (sN.log p) (sN.succ p) := by
  obtain ⟨cs', s, hok, hr', hl, hs, _⟩ := hp cs sN p hr
  have := log_order_reselect hM cs' hok hr'
  rw [logOrder_iff, hl, hs] at this
  exact this

/-! ### the shared channels project by filtering -/

def relab (t : Pipeline.Tok) : Pipeline.Tok := { t with part := 0 }

def projQ (p : Int) (l : List Pipeline.Tok) : List Pipeline.Tok := (l.filter (fun t => t.part == p)).map relab

theorem projQ_append (p : Int) (a b : List Pipeline.Tok) : projQ p (a ++ b) = projQ p a ++ projQ p b := by
  simp [projQ]

theorem projQ_cons_same {p : Int} {t : Pipeline.Tok} (h : t.part = p) (l : List Pipeline.Tok) : projQ p (t :: l) = relab t :: projQ p l := by
  simp [projQ, h]

theorem projQ_cons_other {p : Int} {t : Pipeline.Tok} (h : t.part ≠ p) (l : List Pipeline.Tok) : projQ p (t :: l) = projQ p l := by
  simp [projQ, h]

/-- what the one-partition state `s` shares with partition `p` of the state `sN` outside the workers -/
structure QRel (p : Int) (sN : SysN) (s : Sys) : Prop where
  next : s.next = sN.next p
  dq   : s.dq = projQ p sN.dq
  pq   : s.pq = projQ p (sN.pq p)
  pp   : s.pp = sN.pp p
  ret  : s.ret = projQ p sN.ret
  ldr  : s.ldr = sN.ldr p
  log  : s.log = sN.log p
  succ : s.succ = sN.succ p
  errs : s.errs = sN.errs p
  pqp  : ∀ q, ∀ t ∈ sN.pq q, t.part = q

theorem qrel_init (p : Int) : QRel p {} {} :=
  ⟨rfl, rfl, rfl, rfl, rfl, rfl, rfl, rfl, rfl, fun _ _ h => by cases h⟩

/-- **projection of the steps that do not involve workers**: no step of the one-partition model (the step concerns
    another partition), or the same step -/
theorem proj_plain {M : Nat} {p : Int} {sN sN' : SysN} {s : Sys} (h : QRel p sN s) (c : ChoiceN)
    (hc : (∃ q, c = .submit q) ∨ c = .retryOut ∨ c = .dispatch ∨ ∃ q b, c = .moveLeader q b)
    (hs : sysStepN M sN c = some sN') :
    QRel p sN' s ∨ ∃ c' s', sysStep M s c' = some s' ∧ QRel p sN' s' ∧ s'.wk = s.wk ∧ s'.cur = s.cur := by
  rcases hc with ⟨q, rfl⟩ | rfl | rfl | ⟨q, b, rfl⟩
  · simp only [sysStepN, Option.some.injEq] at hs; subst hs
    by_cases hq : q = p
    · subst hq
      refine Or.inr ⟨.submit, _, rfl, ?_, rfl, rfl⟩
      exact ⟨by simp [PipelineN.upd, h.next], by
        simp only [projQ_append, h.dq, h.next]
        rw [projQ_cons_same (by simp [mkTokP])]; rfl, h.pq, h.pp, h.ret, h.ldr, h.log, h.succ, h.errs, h.pqp⟩
    · refine Or.inl ⟨by simp [PipelineN.upd, Ne.symm hq, h.next], by
        simp only [projQ_append, h.dq]
        rw [projQ_cons_other (by simp [mkTokP, hq])]; simp [projQ], h.pq, h.pp, h.ret, h.ldr, h.log, h.succ, h.errs, h.pqp⟩
  · cases hr : sN.ret with
    | nil => simp [sysStepN, hr] at hs
    | cons t r =>
      simp only [sysStepN, hr, Option.some.injEq] at hs; subst hs
      by_cases ht : t.part = p
      · have hr' : s.ret = relab t :: projQ p r := by rw [h.ret, hr, projQ_cons_same ht]
        refine Or.inr ⟨.retryOut, { s with ret := projQ p r, dq := s.dq ++ [relab t] }, by simp [sysStep, hr'], ?_, rfl, rfl⟩
        exact ⟨h.next, by simp only [projQ_append, h.dq]; rw [projQ_cons_same ht]; rfl, h.pq, h.pp, rfl, h.ldr, h.log,
          h.succ, h.errs, h.pqp⟩
      · refine Or.inl ⟨h.next, by simp only [projQ_append, h.dq]; rw [projQ_cons_other ht]; simp [projQ], h.pq, h.pp,
          by rw [h.ret, hr, projQ_cons_other ht], h.ldr, h.log, h.succ, h.errs, h.pqp⟩
  · cases hd : sN.dq with
    | nil => simp [sysStepN, hd] at hs
    | cons t r =>
      simp only [sysStepN, hd, Option.some.injEq] at hs; subst hs
      have hpqp : ∀ q, ∀ x ∈ PipelineN.upd sN.pq t.part (sN.pq t.part ++ [t]) q, x.part = q := by
        intro q x hx
        by_cases hq : q = t.part
        · subst hq
          simp only [PipelineN.upd, if_true, List.mem_append, List.mem_singleton] at hx
          rcases hx with e | e
          · exact h.pqp _ x e
          · rw [e]
        · simp only [PipelineN.upd, hq, if_false] at hx; exact h.pqp q x hx
      by_cases ht : t.part = p
      · have hd' : s.dq = relab t :: projQ p r := by rw [h.dq, hd, projQ_cons_same ht]
        refine Or.inr ⟨.dispatch, { s with dq := projQ p r, pq := s.pq ++ [relab t] }, by simp [sysStep, hd'], ?_, rfl, rfl⟩
        refine ⟨h.next, rfl, ?_, h.pp, h.ret, h.ldr, h.log, h.succ, h.errs, hpqp⟩
        simp only [PipelineN.upd, ht, if_true, projQ_append, h.pq]
        rw [projQ_cons_same ht]; rfl
      · refine Or.inl ⟨h.next, by rw [h.dq, hd, projQ_cons_other ht], ?_, h.pp, h.ret, h.ldr, h.log, h.succ, h.errs, hpqp⟩
        simp only [PipelineN.upd, Ne.symm ht, if_false]; exact h.pq
  · simp only [sysStepN, Option.some.injEq] at hs; subst hs
    by_cases hq : q = p
    · subst hq
      refine Or.inr ⟨.moveLeader b, { s with ldr := b }, rfl, ?_, rfl, rfl⟩
      exact ⟨h.next, h.dq, h.pq, h.pp, h.ret, by simp [PipelineN.upd], h.log, h.succ, h.errs, h.pqp⟩
    · exact Or.inl ⟨h.next, h.dq, h.pq, h.pp, h.ret, by simp [PipelineN.upd, Ne.symm hq, h.ldr], h.log, h.succ, h.errs,
        h.pqp⟩

/-! ### worker-local facts -/

/-- a token of another partition taken by a worker changes nothing of partition `p`: not the closing mode, not the
    retry mark of `p`, not the set at the bridge, not what the buffer holds of `p` -/
theorem recv_other_partition (M : Nat) (b : BrokerProd.St) (t : Pipeline.Tok) (ov : Bool) (p : Int) (ht : t.part ≠ p) :
    (BrokerProd.step M b (.recv t ov)).1.closing = b.closing ∧ (BrokerProd.step M b (.recv t ov)).1.cr p = b.cr p ∧
    (BrokerProd.step M b (.recv t ov)).1.sets = b.sets ∧
    BrokerProd.onPart p (BrokerProd.step M b (.recv t ov)).1.buffer = BrokerProd.onPart p b.buffer := by
  have hcr : ∀ v, BrokerProd.setCr b.cr t.part v p = b.cr p := fun v => by simp [BrokerProd.setCr, Ne.symm ht]
  cases hw : b.wait with
  | some w => simp [BrokerProd.step, BrokerProd.recv, hw]
  | none =>
    by_cases hk : t.kind = .syn
    · simp [BrokerProd.step, BrokerProd.recv, hw, hk, hcr]
    · cases hn : BrokerProd.needsRetry b t.part with
      | true =>
        by_cases hc : (!b.closing && decide (t.kind = .fin)) = true
        · simp [BrokerProd.step, BrokerProd.recv, hw, hk, hn, hc, hcr]
        · simp [BrokerProd.step, BrokerProd.recv, hw, hk, hn, hc]
      | false =>
        by_cases hf : t.kind = .fin
        · simp [BrokerProd.step, BrokerProd.recv, hw, hn, hf]
        · cases ov with
          | true => simp [BrokerProd.step, BrokerProd.recv, hw, hk, hn, hf]
          | false => simp [BrokerProd.step, BrokerProd.recv, hw, hk, hn, hf, BrokerProd.onPart, ht]

/-- every step of a worker conserves every partition separately (what leaves + what is inside afterwards = what was
    inside + what arrived, per partition): `Props.C02bp.step_fifo`, restated -/
theorem worker_step_partition_local (M : Nat) (b : BrokerProd.St) (i : BrokerProd.In) (h : Props.C02bp.PInv b) (p : Int) :
    Props.C02bp.outData p (BrokerProd.step M b i).2 ++
        Props.C02bp.ids (BrokerProd.onPart p (Props.C02bp.inside (BrokerProd.step M b i).1)) =
      Props.C02bp.ids (BrokerProd.onPart p (Props.C02bp.inside b)) ++ Props.C02bp.ids (Props.C02bp.dataArrived p b i) :=
  (Props.C02bp.step_fifo M b i h).1 p

/-! ### an instance: two partitions share worker 0; partition 1 gets a retriable error for its message while
    partition 0's message in the same set is acknowledged -/

def exTwo : List ChoiceN :=
  [.submit 0, .submit 1, .submit 0, .dispatch, .dispatch, .dispatch,
   .ppRecv 0 [some 0], .ppRecv 1 [some 0], .ppRecv 0 [],
   .bpRecv 0 false, .bpRecv 0 false, .bpRecv 0 false, .bpRecv 0 false, .bpRecv 0 false,
   .handover 0,
   .broker 0 (.parts (fun q => if q = 1 then .retriable false else .ok)), .deliver 0 false,
   .retryOut, .dispatch, .ppRecv 1 [some 0],
   .bpRecv 0 false, .retryOut, .dispatch, .ppRecv 1 [],
   .bpRecv 0 false, .bpRecv 0 false, .handover 0, .broker 0 (.parts (fun _ => .ok)), .deliver 0 false]

example : (runN 2 {} exTwo).map (fun s => (s.log 0, s.succ 0)) = some ([0, 1], [(0, 0), (1, 1)]) := by decide
example : (runN 2 {} exTwo).map (fun s => (s.log 1, s.succ 1, s.errs 0 ++ s.errs 1)) = some ([0], [(0, 0)], []) := by
  decide

end Props.C02sys
