/-
  C02 composition, stage C, towards `DeliverProj`: the HIDDEN deliver step with a per-partition answer, lifted to the
  system step.  `proj_deliver_hidden_parts_p`: the set at the bridge of `w` holds nothing of `p`, the one-partition
  worker has no set (the set is hidden), no message of `p` is held, the prepared answer is per-partition: the
  `deliver` step of the multi-partition model is NO step of the one-partition model, `WRel (BRp p)` is kept.
-/
import SaramaVerif.Props.C02multiD

set_option linter.unusedSimpArgs false
set_option linter.unusedVariables false

namespace Props.C02sys
open Model Model.Pipeline Model.PipelineN Model.BrokerProd Lemmas.C02sys

theorem proj_deliver_hidden_parts_p {M : Nat} {p : Int} {sN sN' : SysN} {s : Sys} {w : Nat} {still : Bool}
    {v : Int → Pipeline.Verdict} {base : Int → Nat} {sent : List Pipeline.Tok} {rest : List (List Pipeline.Tok)}
    (h : WRel (BRp p) p sN s) (hpd : (sN.wk w).pend = some (.parts v, base))
    (hsets : (sN.wk w).bp.sets = sent :: rest) (he : projL p sent = [])
    (hwt : projWait p (sN.wk w).bp.wait = none) (hj : (s.wk w).bp.sets = [])
    (hs : sysStepN M sN (.deliver w still) = some sN') : WRel (BRp p) p sN' s := by
  have he' : onPart p sent = [] := by simpa [projL] using he
  have hw' : ∀ t, (sN.wk w).bp.wait = some t → t.part ≠ p := by
    intro t ht hp; simp [projWait, ht, hp] at hwt
  obtain ⟨fa, c1, _, _, _, _⟩ :=
    resp_hidden_parts M (sN.wk w).bp sent rest (fun q => bvOf (v q)) still p hsets he' hw'
  have pb := projB_hidden_parts M (sN.wk w).bp sent rest (fun q => bvOf (v q)) still p hsets he hwt
  simp only [sysStepN, hpd, bpRunN, RespN.toResp, step] at hs
  by_cases hd : (resp M (sN.wk w).bp (.verdicts (fun q => bvOf (v q)) [] []) still).2 = [Action.disabled]
  · simp [hd] at hs
  · simp only [hd, ↓reduceIte] at hs
    cases hs
    have hq0 : QRel p { sN with wk := setWN sN.wk w ⟨(sN.wk w).inq,
        (resp M (sN.wk w).bp (.verdicts (fun q => bvOf (v q)) [] []) still).1, none⟩ } s :=
      ⟨h.q.next, h.q.dq, h.q.pq, h.q.pp, h.q.ret, h.q.ldr, h.q.log, h.q.succ, h.q.errs, h.q.pqp⟩
    obtain ⟨r1, r2, r3⟩ := bpActsN_foreign (resp M (sN.wk w).bp (.verdicts (fun q => bvOf (v q)) [] []) still).2
      base hq0 fa
    refine ⟨r1, by rw [r3]; exact h.cur, fun k => ?_, fun k => ?_⟩
    · rw [r2]
      by_cases hk : k = w
      · subst hk; simp only [setWN, if_true]; exact h.inq k
      · simp only [setWN, hk, if_false]; exact h.inq k
    · rw [r2]
      by_cases hk : k = w
      · subst hk
        simp only [setWN, if_true]
        obtain ⟨hid, hb, hs1, hhid, hk0, hpend⟩ := h.br k
        cases hid with
        | false => rw [hj, hsets] at hs1; simp at hs1
        | true =>
          have hjp : (s.wk k).pend = none := by simpa using hpend
          have hbn : (s.wk k).bp = ({ projB p (resp M (sN.wk k).bp (.verdicts (fun q => bvOf (v q)) [] []) still).1 with
              sets := (s.wk k).bp.sets, stale := (s.wk k).bp.stale } : St) := by rw [pb]; exact hb
          cases rest with
          | nil =>
            exact ⟨false, hbn, by rw [c1]; simpa using hj, (fun e => by cases e), (fun _ => rfl), by simpa [projPend] using hjp⟩
          | cons x xs =>
            refine ⟨true, hbn, by simpa using hj, fun _ => ⟨by rw [c1]; exact List.cons_ne_nil _ _, fun y hy => ?_⟩,
              (fun e => absurd (c1 ▸ e) (List.cons_ne_nil _ _)), by simpa using hjp⟩
            rw [c1] at hy
            exact (hhid rfl).2 y (by rw [hsets]; exact List.mem_cons_of_mem _ hy)
      · simp only [setWN, hk, if_false]; exact h.br k

end Props.C02sys
