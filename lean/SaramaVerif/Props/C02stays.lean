/-
  C02 composition: the facts behind the PER-STAY split of the projection replay (harness/pipe/sys.go: every stay of
  the partition at a real worker - from the lookup that selects it to the chaser that releases it - is a fresh
  model worker).
    * `released_worker_holds_nothing` - in every handover-chain run a worker that the partition producer is not
      bound to holds NOTHING of the partition (nothing in the buffer, at the bridge or held), so no message of a
      stay can be in a set after the stay has ended; its input channel is empty or holds messages that will all be
      bounced followed by the stay's chaser as its LAST token; and while messages are left it refuses the partition.
    * `chaser_resets_worker` - a worker that is not closing and holds nothing, on taking a chaser, is in the state
      of a fresh worker (up to the `stale` flag and the retry marks of other partitions): the next stay at the same
      real worker starts as at a fresh one.  `chaser_keeps_closing`: a closing worker stays closing (why the
      replay does not split a worker that is closed while two stays are alive).
-/
import SaramaVerif.Props.C02live

namespace Props.C02sys
open Model Model.Pipeline Lemmas.C02sys

/-- what a handover-chain run leaves at a worker the partition producer is not (or no longer) bound to -/
theorem released_worker_holds_nothing {M : Nat} (hM : 1 ≤ M) (cs : List Choice) (hc : HandoverChain cs) {s : Sys}
    (hr : run M {} cs = some s) (w : Nat) (hw : s.cur ≠ some w) :
    insideB (s.wk w).bp = [] ∧
    ((s.wk w).inq = [] ∨
      (BrokerProd.needsRetry (s.wk w).bp 0 = true ∧
        ∃ D k, (s.wk w).inq = D ++ [finTok k] ∧ (∀ t ∈ D, t.kind = .data) ∧ k < M)) := by
  obtain ⟨seen, olds, v, hg, _, _⟩ := chain_run hM cs hc (fun _ _ hm => by cases hm) (chain_init M) hr
  by_cases ho : w ∈ olds
  · exact hg.conc.oldok w ho
  · have := hg.conc.fresh w ho hw
    rw [this]
    exact ⟨by simp [insideB, Props.C02bp.inside], Or.inl rfl⟩

/-- a chaser taken by a worker that is not closing and holds nothing leaves the worker as a fresh one (for the
    partition: not closing, not in retry mode, nothing inside) -/
theorem chaser_resets_worker (M : Nat) (b : BrokerProd.St) (t : Pipeline.Tok) (ov : Bool) (hk : t.kind = .fin)
    (hp : t.part = 0) (hw : b.wait = none) (hcl : b.closing = false) (hb : b.buffer = []) (hs : b.sets = []) :
    (BrokerProd.step M b (.recv t ov)).1.closing = false ∧ (BrokerProd.step M b (.recv t ov)).1.cr 0 = false ∧
    (BrokerProd.step M b (.recv t ov)).1.buffer = [] ∧ (BrokerProd.step M b (.recv t ov)).1.sets = [] ∧
    (BrokerProd.step M b (.recv t ov)).1.wait = none := by
  obtain ⟨_, h2, h3, h4, h5, h6⟩ := recv_fin_spec M b t ov hw hk hp
  exact ⟨by rw [h2, hcl], by rw [h6, hcl]; rfl, by rw [h3, hb], by rw [h4, hs], by rw [h5, hw]⟩

theorem chaser_keeps_closing (M : Nat) (b : BrokerProd.St) (t : Pipeline.Tok) (ov : Bool) (hk : t.kind = .fin)
    (hp : t.part = 0) (hw : b.wait = none) (hcl : b.closing = true) :
    (BrokerProd.step M b (.recv t ov)).1.closing = true := by
  rw [(recv_fin_spec M b t ov hw hk hp).2.1, hcl]

/-! ### the per-stay split, stated for the model (OPEN as a theorem; instances are checked below and, for every
    projected real run, by the replay) -/

/-- translator state: fresh ids per broker, and for every real worker its stays, oldest first:
    (model worker of the stay, tokens of the stay still in the real worker's input channel) -/
structure SplitSt where
  cnt   : Nat → Nat := fun _ => 0
  stays : Nat → List (Nat × Nat) := fun _ => []
  serving : Nat → Option Nat := fun _ => none   -- the stay whose token the real worker took last

def setF {α : Type} (f : Nat → α) (w : Nat) (v : α) : Nat → α := fun k => if k = w then v else f k

/-- the tokens appended to the input channel of real worker `w` in one step, attributed to stays: a chaser ends the
    open stay, a syn opens a stay at a fresh model worker, a message belongs to the open stay -/
def attrib (t : SplitSt) (w : Nat) : List Pipeline.Tok → SplitSt × List Nat
  | [] => (t, [])
  | x :: r =>
    if x.kind = .syn then
      let id := (w / 64) * 64 + t.cnt (w / 64)
      let t1 : SplitSt := { t with cnt := setF t.cnt (w / 64) (t.cnt (w / 64) + 1),
                                   stays := setF t.stays w (t.stays w ++ [(id, 1)]) }
      ((attrib t1 w r).1, id :: (attrib t1 w r).2)
    else
      let st := t.stays w
      let st' := match st.reverse with
        | (id, n) :: rest => (rest.reverse ++ [(id, n + 1)])
        | [] => st
      attrib { t with stays := setF t.stays w st' } w r

/-- the model worker that takes the next token of real worker `w` -/
def headStay (t : SplitSt) (w : Nat) : Option Nat :=
  match (t.stays w).filter (fun p => decide (0 < p.2)) with
  | (id, _) :: _ => some id
  | [] => none

def popStay : List (Nat × Nat) → List (Nat × Nat)
  | [] => []
  | (id, n) :: r => if n = 0 then (id, n) :: popStay r else (id, n - 1) :: r

/-- the model worker that stands for real worker `w` in a bridge step -/
def serves (t : SplitSt) (w : Nat) : Nat :=
  match t.serving w with
  | some id => id
  | none => match t.stays w with
    | (id, _) :: _ => id
    | [] => w

/-- the workers a partition-producer step pushes to: its current worker and the workers its lookups name -/
def touched (s : Sys) (lks : List (Option Nat)) : List Nat :=
  (s.cur.toList ++ lks.filterMap id).eraseDups

/-- `ppActs`, returning the lookups that were not used -/
def ppActsL (s : Sys) (lks : List (Option Nat)) : List PartProd.Action → List (Option Nat)
  | [] => lks
  | a :: as => ppActsL (ppAct s lks a).1 (ppAct s lks a).2 as

/-- the lookups that were used: failures stay failures, successes name the fresh workers -/
def fill : List (Option Nat) → List Nat → List (Option Nat)
  | [], _ => []
  | none :: l, ids => none :: fill l ids
  | some _ :: l, id :: ids => some id :: fill l ids
  | some x :: l, [] => some x :: fill l []

/-- translate one choice of a run with re-selection (state `s`, successor `s'`) -/
def splitStep (t : SplitSt) (s s' : Sys) : Choice → SplitSt × Choice
  | .ppRecv lks =>
    let r := (touched s lks).foldl (fun (acc : SplitSt × List Nat) w =>
      let a := attrib acc.1 w ((s'.wk w).inq.drop (s.wk w).inq.length)
      (a.1, acc.2 ++ a.2)) (t, [])
    -- the lookups that were used, in order: failures stay failures, successes name the fresh workers
    let used := lks.take (lks.length - (ppActsL { s with pq := s.pq.tail, pp := (PartProd.recv s.pp (toPP (s.pq.headD synTok))).1 } lks
      (PartProd.recv s.pp (toPP (s.pq.headD synTok))).2).length)
    (r.1, .ppRecv (fill used r.2))
  | .bpRecv w ov =>
    match headStay t w with
    | some id => ({ t with stays := setF t.stays w (popStay (t.stays w)), serving := setF t.serving w (some id) }, .bpRecv id ov)
    | none => (t, .bpRecv w ov)
  | .handover w => (t, .handover (serves t w))
  | .broker w v => (t, .broker (serves t w) v)
  | .deliver w st => (t, .deliver (serves t w) st)
  | .closeW w => (t, .closeW (serves t w))
  | c => (t, c)

/-- the translated choice sequence of a run (none: the run is not a run of the model) -/
def splitRun (M : Nat) : Sys → SplitSt → List Choice → Option (List Choice)
  | _, _, [] => some []
  | s, t, c :: cs =>
    match sysStep M s c with
    | none => none
    | some s' => (splitRun M s' (splitStep t s s' c).1 cs).map (fun l => (splitStep t s s' c).2 :: l)

/-- a worker that has just taken a chaser is as a fresh worker: not closing, not in retry mode, nothing inside,
    no armed `stale` -/
def freshAfter (k : Worker) : Bool :=
  !k.bp.closing && !k.bp.stale && !k.bp.cr 0 && k.bp.buffer.isEmpty && k.bp.sets.isEmpty && k.bp.wait.isNone &&
  k.pend.isNone

/-- the side condition of the split, decidable along the run: whenever a worker takes a chaser it is afterwards as a
    fresh worker (what the replay skips otherwise: a worker closed while two stays are alive, a set of two stays) -/
def splitOK (M : Nat) : Sys → List Choice → Bool
  | _, [] => true
  | s, c :: cs =>
    match sysStep M s c with
    | none => false
    | some s' =>
      (match c with
        | .bpRecv w _ => (match (s.wk w).inq with
          | x :: _ => if x.kind = .fin then freshAfter (s'.wk w) else true
          | [] => true)
        | _ => true) && splitOK M s' cs

/-- **the simulation behind the per-stay split** (OPEN: not proved; instances below by evaluation, one instance per
    projected real run in the replay, and random exploration of the executable model: 18 000 random runs with
    re-selection, M = 1, 2, 3, of which 1 740 satisfy `splitOK` - 455 of them with two or more stays and appends -
    all with equal log, successes and errors): a run in which workers are selected again, each time as fresh as after
    their chaser, has the same log and outcomes as its translation, which is a handover chain -/
def SplitSim (M : Nat) : Prop :=
  ∀ (cs : List Choice) (s : Sys), splitOK M {} cs = true → run M {} cs = some s →
    ∃ cs' s', splitRun M {} {} cs = some cs' ∧ HandoverChain cs' ∧ run M {} cs' = some s' ∧
      s'.log = s.log ∧ s'.succ = s.succ ∧ s'.errs = s.errs

/-- how `log_order_handover_chain` lifts to runs with re-selection, given the simulation -/
theorem log_order_reselect_of_splitSim {M : Nat} (hM : 1 ≤ M) (hsim : SplitSim M) (cs : List Choice) (s : Sys)
    (hok : splitOK M {} cs = true) (hr : run M {} cs = some s) : LogOrder s := by
  obtain ⟨cs', s', _, hc, hr', hl, hs, _⟩ := hsim cs s hok hr
  have := log_order_handover_chain hM cs' hc hr'
  simpa [LogOrder, hl, hs] using this

/-! ### instance: the partition selects worker 0 again after a retriable failure -/

def exReselect : List Choice :=
  [.submit, .submit, .submit, .dispatch, .dispatch, .ppRecv [some 0], .ppRecv [],
   .bpRecv 0 false, .bpRecv 0 false, .bpRecv 0 false, .handover 0, .broker 0 (.retriable true), .deliver 0 false,
   .retryOut, .retryOut, .dispatch, .dispatch, .dispatch,
   .ppRecv [], .ppRecv [some 0], .ppRecv [],
   .submit, .dispatch, .ppRecv [],
   .bpRecv 0 false, .bpRecv 0 false,
   .bpRecv 0 false, .bpRecv 0 false, .bpRecv 0 false, .handover 0, .broker 0 .ok, .deliver 0 false,
   .retryOut, .retryOut, .dispatch, .dispatch, .ppRecv [], .ppRecv [],
   .bpRecv 0 false, .bpRecv 0 false, .handover 0, .broker 0 .ok, .deliver 0 false]

example : ¬ HandoverChain exReselect := by decide
example : splitOK 2 {} exReselect = true := by decide

/-- the translation of `exReselect` is the handover chain `exChain` up to the order of independent steps: worker 0
    for the first stay, the fresh worker 1 for the second; same log, successes, errors -/
example : (splitRun 2 {} {} exReselect).map (fun cs => decide (HandoverChain cs)) = some true := by decide
example : ((splitRun 2 {} {} exReselect).bind (fun cs => run 2 {} cs)).map (fun s => (s.log, s.succ, s.errs)) =
    (run 2 {} exReselect).map (fun s => (s.log, s.succ, s.errs)) := by decide

end Props.C02sys
