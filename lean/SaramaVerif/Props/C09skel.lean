import SaramaVerif.Model.CodecSkel
import SaramaVerif.Lemmas.C09Fmt
/-
  C09, static tie: what the regenerated obligations of Bridge/C09Skel.lean buy.

  The skeletons of Gen/C09Skel.lean are read off the Go AST on every run.  For a type `T` the bridge proves
  (by kernel evaluation) `mirror T.encSkel T.decSkel = true`.  Here, generically:

    * `mirror_all_versions`: the check, which looks at the versions 0 .. one above every constant of a version
      condition, covers EVERY version (`normAt_stable`: above all constants nothing changes);
    * `mirror_sound`: if the normal forms of the two sides mirror each other and both interpret to a schema,
      the decode side's schema `g` refines the encode side's schema `f` (`Fmt.sub f g`: the same schema, except
      that the decoder may also accept a null array the encoder never writes);
    * `sub_sound`: then every value well-typed for `f` is well-typed for `g` and has the same bytes;
    * hence (`skel_roundtrip`, with the generic `dec_enc` / `size_eq_enc_length` of Props/C09.lean): for every
      version, decoding by the DECODE skeleton's schema what the ENCODE skeleton's schema wrote gives the value
      back and leaves the rest, and the sizing pass is exact - for every type with a discharged obligation.
-/
namespace Props.C09skel
open Model.Codec

/-! ### the version range -/

theorem allUpTo_spec (p : Nat → Bool) : ∀ n, allUpTo p n = true → ∀ v, v ≤ n → p v = true := by
  intro n
  induction n with
  | zero =>
    intro h v hv
    have : v = 0 := by omega
    subst this; exact h
  | succ n ih =>
    intro h v hv
    simp only [allUpTo, Bool.and_eq_true] at h
    by_cases hv' : v = n + 1
    · subst hv'; exact h.1
    · exact ih h.2 v (by omega)

/-- above its largest constant a version condition no longer changes -/
theorem eval_stable (c : VCond) (v1 v2 : Nat) (h1 : c.maxC < v1) (h2 : c.maxC < v2) : c.eval v1 = c.eval v2 := by
  induction c with
  | tt => rfl
  | ff => rfl
  | ge n | gt n | le n | lt n | eq n | ne n =>
    simp only [VCond.maxC] at h1 h2
    rw [Bool.eq_iff_iff]
    simp only [VCond.eval, decide_eq_true_eq]
    omega
  | not c ih =>
    simp only [VCond.maxC] at h1 h2
    simp only [VCond.eval, ih h1 h2]
  | and a b iha ihb | or a b iha ihb =>
    simp only [VCond.maxC] at h1 h2
    simp only [VCond.eval, iha (by omega) (by omega), ihb (by omega) (by omega)]

theorem resolve_stable (cs : CountSel) (v1 v2 : Nat) (h1 : cs.maxC < v1) (h2 : cs.maxC < v2) :
    cs.resolve v1 = cs.resolve v2 := by
  induction cs with
  | cnt k => rfl
  | nul k => rfl
  | sel c a b iha ihb =>
    simp only [CountSel.maxC] at h1 h2
    simp only [CountSel.resolve, eval_stable c v1 v2 (by omega) (by omega), iha (by omega) (by omega),
      ihb (by omega) (by omega)]
  | dsel a b iha ihb =>
    simp only [CountSel.maxC] at h1 h2
    simp only [CountSel.resolve, iha (by omega) (by omega), ihb (by omega) (by omega)]

/-- above every constant of a skeleton its normal form no longer changes -/
theorem normAt_stable (s : Skel) (v1 v2 : Nat) (h1 : s.maxC < v1) (h2 : s.maxC < v2) :
    ∀ k, normAt v1 s k = normAt v2 s k := by
  induction s with
  | skip => intro k; rfl
  | prim p => intro k; rfl
  | lit p => intro k; rfl
  | unsupported r => intro k; rfl
  | atVer n s _ => intro k; rfl
  | seq a b iha ihb =>
    intro k
    simp only [Skel.maxC] at h1 h2
    simp only [normAt, ihb (by omega) (by omega) k, iha (by omega) (by omega)]
  | ifv c t e iht ihe =>
    intro k
    simp only [Skel.maxC] at h1 h2
    simp only [normAt, eval_stable c v1 v2 (by omega) (by omega), iht (by omega) (by omega) k,
      ihe (by omega) (by omega) k]
  | alt a b iha ihb =>
    intro k
    simp only [Skel.maxC] at h1 h2
    simp only [normAt, iha (by omega) (by omega), ihb (by omega) (by omega)]
  | array cs acc e ih =>
    intro k
    simp only [Skel.maxC] at h1 h2
    simp only [normAt, resolve_stable cs v1 v2 (by omega) (by omega), ih (by omega) (by omega)]
  | len32 s ih | varlen s ih =>
    intro k
    simp only [Skel.maxC] at h1 h2
    simp only [normAt, ih h1 h2]
  | crc p s ih =>
    intro k
    simp only [Skel.maxC] at h1 h2
    simp only [normAt, ih h1 h2]

/-- the bridge obligation `mirror e d = true` is a statement about every version -/
theorem mirror_all_versions (e d : Skel) (h : mirror e d = true) : ∀ ver, mirrorAt ver e d = true := by
  intro ver
  by_cases hv : ver ≤ vbound e d
  · exact allUpTo_spec _ _ h ver hv
  · have hb := allUpTo_spec _ _ h (vbound e d) (Nat.le_refl _)
    have he : e.maxC < vbound e d := by unfold vbound; omega
    have hd : d.maxC < vbound e d := by unfold vbound; omega
    unfold mirrorAt at *
    rw [normAt_stable e ver (vbound e d) (by omega) he, normAt_stable d ver (vbound e d) (by omega) hd]
    exact hb

theorem mirror_upto_versions (n : Nat) (e d : Skel) (h : mirrorUpTo n e d = true) :
    ∀ ver, ver ≤ n → mirrorAt ver e d = true := allUpTo_spec _ _ h

/-! ### refinement of schemas -/

private theorem allWT_mono (w w' : Val → Bool) (vs : List Val) (h : ∀ v ∈ vs, w v = true → w' v = true)
    (ha : allWT w vs = true) : allWT w' vs = true := by
  induction vs with
  | nil => rfl
  | cons x xs ih =>
    simp only [allWT, Bool.and_eq_true] at *
    exact ⟨h x List.mem_cons_self ha.1, ih (fun v hv => h v (List.mem_cons_of_mem _ hv)) ha.2⟩

private theorem map_congr_mem {α β : Type} (f g : α → β) (l : List α) (h : ∀ x ∈ l, f x = g x) : l.map f = l.map g := by
  induction l with
  | nil => rfl
  | cons x xs ih =>
    simp only [List.map_cons]
    rw [h x List.mem_cons_self, ih (fun y hy => h y (List.mem_cons_of_mem _ hy))]

private theorem countOK_null (n b : Nat) : countOK .i32null n b = countOK .i32 n b := rfl

private theorem prim_sub (p q : Prim) (h : primOK p q = true) (v : Val) (hw : wtP p v = true) :
    wtP q v = true ∧ encP q v = encP p v := by
  simp only [primOK, Bool.or_eq_true, Bool.and_eq_true, decide_eq_true_eq] at h
  rcases h with h | ⟨hp, hq⟩
  · subst h; exact ⟨hw, rfl⟩
  · subst hp; subst hq
    cases v <;> simp only [wtP, Bool.false_eq_true] at hw
    case list vs => exact ⟨hw, rfl⟩

private theorem allInt4_spec (ver : Nat) (vs : List Val) (h : allInt 4 vs = true) :
    allWT (WT (.prim .i32) ver) vs = true ∧ vs.map (enc (.prim .i32) ver) = (intsOf vs).map (putInt 4) ∧
    ((vs.map (enc (.prim .i32) ver)).flatten).length = 4 * vs.length := by
  induction vs with
  | nil => exact ⟨rfl, rfl, rfl⟩
  | cons x xs ih =>
    cases x <;> simp only [allInt, Bool.false_eq_true, Bool.and_eq_true] at h
    case int i =>
      have e1 : WT (.prim .i32) ver (.int i) = decide (InInt 4 i) := rfl
      have e2 : enc (.prim .i32) ver (.int i) = putInt 4 i := rfl
      obtain ⟨h1, h2, h3⟩ := ih h.2
      refine ⟨?_, ?_, ?_⟩
      · simp only [allWT, e1, h.1, h1, Bool.and_self]
      · show enc (.prim .i32) ver (.int i) :: xs.map (enc (.prim .i32) ver) = putInt 4 i :: (intsOf xs).map (putInt 4)
        rw [e2, h2]
      · simp only [List.map_cons, List.flatten_cons, List.length_append, h3, e2, Lemmas.C09.putInt_length,
          List.length_cons]
        omega

/-- `putCompactInt32Array` against the explicit loop -/
private theorem ci32arr_loop (ver : Nat) (v : Val) (hw : wtP .ci32arr v = true) :
    WT (.arr .compact (.prim .i32)) ver v = true ∧ enc (.arr .compact (.prim .i32)) ver v = encP .ci32arr v := by
  cases v <;> simp only [wtP, Bool.false_eq_true, Bool.and_eq_true, decide_eq_true_eq] at hw
  case list vs =>
    obtain ⟨h1, h2, h3⟩ := allInt4_spec ver vs hw.2
    constructor
    · have e : WT (.arr .compact (.prim .i32)) ver (.list vs) =
          (allWT (WT (.prim .i32) ver) vs &&
            countOK .compact vs.length ((vs.map (enc (.prim .i32) ver)).flatten).length) := rfl
      rw [e, h1, h3]
      simp only [countOK, Bool.true_and, decide_eq_true_eq]
      exact ⟨hw.1, by omega⟩
    · have e : enc (.arr .compact (.prim .i32)) ver (.list vs) =
          putCount .compact (some vs.length) ++ (vs.map (enc (.prim .i32) ver)).flatten := rfl
      rw [e, h2]
      simp only [encP, putCount, putCompactInt32Array, putCompactArrayLength, putInts, Lemmas.C09.intsOf_length]

/-- `sub_sound`: a refining schema accepts every well-typed value of the refined one and writes the same bytes -/
theorem sub_sound (f : Fmt) : ∀ (g : Fmt), Fmt.sub f g = true → ∀ (ver : Nat) (v : Val), WT f ver v = true →
    WT g ver v = true ∧ enc g ver v = enc f ver v := by
  induction f with
  | prim p =>
    intro g h ver v hw
    cases g <;> simp only [Fmt.sub, Bool.false_eq_true, Bool.and_eq_true, decide_eq_true_eq] at h
    case prim q => exact prim_sub p q h v hw
    case arr c e =>
      obtain ⟨⟨hp, hc⟩, he⟩ := h
      subst hp; subst hc
      cases e <;> simp only [Fmt.isPrim, Bool.false_eq_true, decide_eq_true_eq] at he
      subst he
      exact ci32arr_loop ver v hw
  | unit =>
    intro g h ver v hw
    cases g <;> simp only [Fmt.sub, Bool.false_eq_true] at h
    exact ⟨hw, rfl⟩
  | seq a b iha ihb =>
    intro g h ver v hw
    cases g <;> simp only [Fmt.sub, Bool.false_eq_true, Bool.and_eq_true] at h
    case seq c d =>
      cases v <;> simp only [WT, Bool.false_eq_true, Bool.and_eq_true] at hw
      case pair x y =>
        have ha := iha c h.1 ver x hw.1
        have hb := ihb d h.2 ver y hw.2
        simp only [WT, enc, ha.1, ha.2, hb.1, hb.2, Bool.and_self, and_self]
  | ite lo hi a b iha ihb =>
    intro g h ver v hw
    cases g <;> simp only [Fmt.sub, Bool.false_eq_true, Bool.and_eq_true, decide_eq_true_eq] at h
    case ite lo' hi' c d =>
      obtain ⟨⟨⟨hlo, hhi⟩, hac⟩, hbd⟩ := h
      subst hlo; subst hhi
      simp only [WT, enc] at *
      split
      · rename_i hc; simp only [hc] at hw; exact iha c hac ver v hw
      · rename_i hc; simp only [hc] at hw; exact ihb d hbd ver v hw
  | arr c e ih =>
    intro g h ver v hw
    cases g <;> simp only [Fmt.sub, Bool.false_eq_true, Bool.and_eq_true, Bool.or_eq_true, decide_eq_true_eq] at h
    case arr c' e' =>
      obtain ⟨hc, he⟩ := h
      cases v <;> simp only [WT, Bool.false_eq_true, Bool.and_eq_true, beq_iff_eq] at hw
      case null =>
        subst hw
        rcases hc with hc | ⟨hc, _⟩
        · subst hc; simp only [WT, enc, beq_self_eq_true, and_self]
        · cases hc
      case list vs =>
        have hall := Lemmas.C09.allWT_spec _ _ hw.1
        have henc : vs.map (enc e' ver) = vs.map (enc e ver) :=
          map_congr_mem _ _ vs (fun x hx => (ih e' he ver x (hall x hx)).2)
        have hwt : allWT (WT e' ver) vs = true :=
          allWT_mono _ _ vs (fun x hx hx' => (ih e' he ver x hx').1) hw.1
        rcases hc with hc | ⟨hc, hc'⟩
        · subst hc
          simp only [WT, enc, henc, hwt, hw.2, Bool.and_self, and_self]
        · subst hc; subst hc'
          simp only [WT, enc, henc, hwt, countOK_null, hw.2, Bool.and_self, putCount, and_self]
  | len32 f ih =>
    intro g h ver v hw
    cases g <;> simp only [Fmt.sub, Bool.false_eq_true] at h
    case len32 g' =>
      simp only [WT, Bool.and_eq_true] at hw
      have := ih g' h ver v hw.1
      simp only [WT, enc, this.1, this.2, hw.2, Bool.and_self, and_self]
  | varlen f ih =>
    intro g h ver v hw
    cases g <;> simp only [Fmt.sub, Bool.false_eq_true] at h
    case varlen g' =>
      simp only [WT, Bool.and_eq_true] at hw
      have := ih g' h ver v hw.1
      simp only [WT, enc, this.1, this.2, hw.2, Bool.and_self, Lemmas.C09.size_eq_enc_length, and_self]
  | crc p f ih =>
    intro g h ver v hw
    cases g <;> simp only [Fmt.sub, Bool.false_eq_true, Bool.and_eq_true, decide_eq_true_eq] at h
    case crc q g' =>
      obtain ⟨hp, hs⟩ := h
      subst hp
      simp only [WT] at hw
      have := ih g' hs ver v hw
      simp only [WT, enc, this.1, this.2, and_self]

/-! ### mirror soundness -/

private theorem mirror_isNil (e d : NF) (h : NF.mirror e d = true) : e.isNil = d.isNil := by
  cases e <;> cases d <;> simp only [NF.mirror, Bool.false_eq_true] at h <;> rfl

private theorem consFmt_sub (h h' : Option Fmt) (l : Bool) (fr fr' : Option Fmt) (f g : Fmt)
    (hh : ∀ a b, h = some a → h' = some b → Fmt.sub a b = true)
    (hr : l = false → ∀ a b, fr = some a → fr' = some b → Fmt.sub a b = true)
    (hf : consFmt h l fr = some f) (hg : consFmt h' l fr' = some g) : Fmt.sub f g = true := by
  cases h with
  | none => simp [consFmt] at hf
  | some a =>
    cases h' with
    | none => simp [consFmt] at hg
    | some b =>
      cases l with
      | true =>
        simp only [consFmt, Option.some.injEq] at hf hg
        subst hf; subst hg
        exact hh a b rfl rfl
      | false =>
        cases fr with
        | none => simp [consFmt] at hf
        | some x =>
          cases fr' with
          | none => simp [consFmt] at hg
          | some y =>
            simp only [consFmt, Option.some.injEq] at hf hg
            subst hf; subst hg
            simp only [Fmt.sub, hh a b rfl rfl, hr rfl x y rfl rfl, Bool.and_self]

private theorem countOf_sub (w : WKind) (n n' : Bool) (h : (!n || n') = true) :
    (decide (countOf w n = countOf w n') || (decide (countOf w n = Count.i32) && decide (countOf w n' = Count.i32null))) = true := by
  cases w <;> cases n <;> cases n' <;> simp_all [countOf]

/-- `mirror_sound`: when the decode side mirrors the encode side (field by field, on the normal forms of one
    version) and both have a schema, the decode side's schema refines the encode side's -/
theorem mirror_sound (e : NF) : ∀ (d : NF) (f g : Fmt), NF.mirror e d = true → e.toFmt = some f → d.toFmt = some g →
    Fmt.sub f g = true := by
  induction e with
  | nil =>
    intro d f g hm hf hg
    cases d <;> simp only [NF.mirror, Bool.false_eq_true] at hm
    simp only [NF.toFmt, Option.some.injEq] at hf hg
    subst hf; subst hg; rfl
  | bad => intro d f g hm; cases d <;> simp only [NF.mirror, Bool.false_eq_true] at hm
  | prim p r ih =>
    intro d f g hm hf hg
    cases d <;> simp only [NF.mirror, Bool.false_eq_true, Bool.and_eq_true] at hm
    case prim q s =>
      simp only [NF.toFmt, ← mirror_isNil r s hm.2] at hf hg
      refine consFmt_sub _ _ _ _ _ f g ?_ (fun _ a b ha hb => ih s a b hm.2 ha hb) hf hg
      intro a b ha hb
      simp only [Option.some.injEq] at ha hb
      subst ha; subst hb
      exact hm.1
    case arr w n el s =>
      obtain ⟨hl, hr⟩ := hm
      simp only [loopOK, Bool.and_eq_true, decide_eq_true_eq] at hl
      obtain ⟨⟨hp, hw⟩, hel⟩ := hl
      subst hp; subst hw
      simp only [NF.toFmt, ← mirror_isNil r s hr] at hf hg
      refine consFmt_sub _ _ _ _ _ f g ?_ (fun _ a b ha hb => ih s a b hr ha hb) hf hg
      intro a b ha hb
      cases el <;> simp only [NF.isPrim, Bool.false_eq_true] at hel
      case prim q t =>
        cases t <;> simp only [Bool.false_eq_true, decide_eq_true_eq] at hel
        subst hel
        simp only [NF.toFmt, consFmt, NF.isNil, Option.map_some, Option.some.injEq, countOf] at ha hb
        subst ha; subst hb
        simp [Fmt.sub, Fmt.isPrim]
  | arr w n el r ihe ihr =>
    intro d f g hm hf hg
    cases d <;> simp only [NF.mirror, Bool.false_eq_true, Bool.and_eq_true, decide_eq_true_eq] at hm
    case arr w' n' el' r' =>
      obtain ⟨⟨⟨hw, hn⟩, hel⟩, hr⟩ := hm
      subst hw
      simp only [NF.toFmt, ← mirror_isNil r r' hr] at hf hg
      refine consFmt_sub _ _ _ _ _ f g ?_ (fun _ a b ha hb => ihr r' a b hr ha hb) hf hg
      intro a b ha hb
      cases hx : el.toFmt with
      | none => simp [hx] at ha
      | some x =>
        cases hy : el'.toFmt with
        | none => simp [hy] at hb
        | some y =>
          simp only [hx, hy, Option.map_some, Option.some.injEq] at ha hb
          subst ha; subst hb
          simp only [Fmt.sub, countOf_sub w n n' hn, ihe el' x y hel hx hy, Bool.and_self]
  | len32 b r ihb ihr =>
    intro d f g hm hf hg
    cases d <;> simp only [NF.mirror, Bool.false_eq_true, Bool.and_eq_true] at hm
    case len32 b' r' =>
      simp only [NF.toFmt, ← mirror_isNil r r' hm.2] at hf hg
      refine consFmt_sub _ _ _ _ _ f g ?_ (fun _ a b ha hb => ihr r' a b hm.2 ha hb) hf hg
      intro a c ha hc
      cases hx : b.toFmt with
      | none => simp [hx] at ha
      | some x =>
        cases hy : b'.toFmt with
        | none => simp [hy] at hc
        | some y =>
          simp only [hx, hy, Option.map_some, Option.some.injEq] at ha hc
          subst ha; subst hc
          simp only [Fmt.sub, ihb b' x y hm.1 hx hy]
  | varlen b r ihb ihr =>
    intro d f g hm hf hg
    cases d <;> simp only [NF.mirror, Bool.false_eq_true, Bool.and_eq_true] at hm
    case varlen b' r' =>
      simp only [NF.toFmt, ← mirror_isNil r r' hm.2] at hf hg
      refine consFmt_sub _ _ _ _ _ f g ?_ (fun _ a b ha hb => ihr r' a b hm.2 ha hb) hf hg
      intro a c ha hc
      cases hx : b.toFmt with
      | none => simp [hx] at ha
      | some x =>
        cases hy : b'.toFmt with
        | none => simp [hy] at hc
        | some y =>
          simp only [hx, hy, Option.map_some, Option.some.injEq] at ha hc
          subst ha; subst hc
          simp only [Fmt.sub, ihb b' x y hm.1 hx hy]
  | crc p b r ihb ihr =>
    intro d f g hm hf hg
    cases d <;> simp only [NF.mirror, Bool.false_eq_true, Bool.and_eq_true, decide_eq_true_eq] at hm
    case crc q b' r' =>
      obtain ⟨⟨hp, hb⟩, hr⟩ := hm
      subst hp
      simp only [NF.toFmt, ← mirror_isNil r r' hr] at hf hg
      refine consFmt_sub _ _ _ _ _ f g ?_ (fun _ a b ha hb => ihr r' a b hr ha hb) hf hg
      intro a c ha hc
      cases hx : b.toFmt with
      | none => simp [hx] at ha
      | some x =>
        cases hy : b'.toFmt with
        | none => simp [hy] at hc
        | some y =>
          simp only [hx, hy, Option.map_some, Option.some.injEq] at ha hc
          subst ha; subst hc
          simp only [Fmt.sub, ihb b' x y hb hx hy, decide_true, Bool.and_self]

private theorem consFmt_some (h : Fmt) (l : Bool) (f : Fmt) : ∃ x, consFmt (some h) l (some f) = some x := by
  cases l <;> exact ⟨_, rfl⟩

/-- sides that mirror each other are inside the schema language: both have a schema (no `unsupported` node, no
    inconsistent count statement, no value-dependent alternative with different layouts is reachable at that version) -/
theorem mirror_toFmt_some (e : NF) : ∀ d : NF, NF.mirror e d = true → (∃ f, e.toFmt = some f) ∧ (∃ g, d.toFmt = some g) := by
  induction e with
  | nil =>
    intro d hm
    cases d <;> simp only [NF.mirror, Bool.false_eq_true] at hm
    exact ⟨⟨_, rfl⟩, ⟨_, rfl⟩⟩
  | bad => intro d hm; cases d <;> simp only [NF.mirror, Bool.false_eq_true] at hm
  | prim p r ih =>
    intro d hm
    cases d <;> simp only [NF.mirror, Bool.false_eq_true, Bool.and_eq_true] at hm
    case prim q s =>
      obtain ⟨⟨fr, hr⟩, ⟨gs, hs⟩⟩ := ih s hm.2
      simp only [NF.toFmt, hr, hs]
      exact ⟨consFmt_some _ _ _, consFmt_some _ _ _⟩
    case arr w n el s =>
      obtain ⟨⟨fr, hr⟩, ⟨gs, hs⟩⟩ := ih s hm.2
      have hl := hm.1
      simp only [loopOK, Bool.and_eq_true] at hl
      have hel := hl.2
      cases el <;> simp only [NF.isPrim, Bool.false_eq_true] at hel
      case prim q t =>
        cases t <;> simp only [Bool.false_eq_true] at hel
        simp only [NF.toFmt, hr, hs, consFmt, NF.isNil, Option.map_some]
        exact ⟨consFmt_some _ _ _, consFmt_some _ _ _⟩
  | arr w n el r ihe ihr =>
    intro d hm
    cases d <;> simp only [NF.mirror, Bool.false_eq_true, Bool.and_eq_true] at hm
    case arr w' n' el' r' =>
      obtain ⟨⟨fe, he⟩, ⟨ge, hge⟩⟩ := ihe el' hm.1.2
      obtain ⟨⟨fr, hr⟩, ⟨gr, hgr⟩⟩ := ihr r' hm.2
      simp only [NF.toFmt, he, hge, hr, hgr, Option.map_some]
      exact ⟨consFmt_some _ _ _, consFmt_some _ _ _⟩
  | len32 b r ihb ihr =>
    intro d hm
    cases d <;> simp only [NF.mirror, Bool.false_eq_true, Bool.and_eq_true] at hm
    case len32 b' r' =>
      obtain ⟨⟨fe, he⟩, ⟨ge, hge⟩⟩ := ihb b' hm.1
      obtain ⟨⟨fr, hr⟩, ⟨gr, hgr⟩⟩ := ihr r' hm.2
      simp only [NF.toFmt, he, hge, hr, hgr, Option.map_some]
      exact ⟨consFmt_some _ _ _, consFmt_some _ _ _⟩
  | varlen b r ihb ihr =>
    intro d hm
    cases d <;> simp only [NF.mirror, Bool.false_eq_true, Bool.and_eq_true] at hm
    case varlen b' r' =>
      obtain ⟨⟨fe, he⟩, ⟨ge, hge⟩⟩ := ihb b' hm.1
      obtain ⟨⟨fr, hr⟩, ⟨gr, hgr⟩⟩ := ihr r' hm.2
      simp only [NF.toFmt, he, hge, hr, hgr, Option.map_some]
      exact ⟨consFmt_some _ _ _, consFmt_some _ _ _⟩
  | crc p b r ihb ihr =>
    intro d hm
    cases d <;> simp only [NF.mirror, Bool.false_eq_true, Bool.and_eq_true] at hm
    case crc q b' r' =>
      obtain ⟨⟨fe, he⟩, ⟨ge, hge⟩⟩ := ihb b' hm.1.2
      obtain ⟨⟨fr, hr⟩, ⟨gr, hgr⟩⟩ := ihr r' hm.2
      simp only [NF.toFmt, he, hge, hr, hgr, Option.map_some]
      exact ⟨consFmt_some _ _ _, consFmt_some _ _ _⟩

/-! ### the corollaries every discharged obligation yields -/

/-- round trip ACROSS the two extracted skeletons, and exact sizing, at one version -/
theorem skel_roundtrip_at (e d : Skel) (ver : Nat) (f g : Fmt) (hm : mirrorAt ver e d = true)
    (hf : e.fmtAt ver = some f) (hg : d.fmtAt ver = some g) (v : Val) (rest : Bytes) (hw : WT f ver v = true) :
    dec g ver (enc f ver v ++ rest) = some (v, rest) ∧ size f ver v = (enc f ver v).length ∧
    size g ver v = size f ver v := by
  have hs := mirror_sound _ _ f g hm hf hg
  have h := sub_sound f g hs ver v hw
  refine ⟨?_, Lemmas.C09.size_eq_enc_length f ver v, ?_⟩
  · rw [← h.2]; exact Lemmas.C09.dec_enc g ver v rest h.1
  · rw [Lemmas.C09.size_eq_enc_length g ver v, Lemmas.C09.size_eq_enc_length f ver v, h.2]

/-- `skel_roundtrip`: for a type whose obligation `mirror T.encSkel T.decSkel = true` is discharged, at EVERY version:
    what the schema of the encode method writes for a well-typed value, the schema of the decode method reads back
    as that value, consuming exactly those bytes; and the prep pass computes exactly that length -/
theorem skel_roundtrip (e d : Skel) (h : mirror e d = true) (ver : Nat) (f g : Fmt)
    (hf : e.fmtAt ver = some f) (hg : d.fmtAt ver = some g) (v : Val) (rest : Bytes) (hw : WT f ver v = true) :
    dec g ver (enc f ver v ++ rest) = some (v, rest) ∧ size f ver v = (enc f ver v).length ∧
    size g ver v = size f ver v :=
  skel_roundtrip_at e d ver f g (mirror_all_versions e d h ver) hf hg v rest hw

/-- `skel_roundtrip_total`: nothing but the bridge obligation is assumed - at every version both skeletons have a schema,
    and those schemas round-trip across the two methods -/
theorem skel_roundtrip_total (e d : Skel) (h : mirror e d = true) (ver : Nat) :
    ∃ f g, e.fmtAt ver = some f ∧ d.fmtAt ver = some g ∧
      ∀ (v : Val) (rest : Bytes), WT f ver v = true →
        dec g ver (enc f ver v ++ rest) = some (v, rest) ∧ size f ver v = (enc f ver v).length := by
  have hm := mirror_all_versions e d h ver
  obtain ⟨⟨f, hf⟩, ⟨g, hg⟩⟩ := mirror_toFmt_some _ _ hm
  refine ⟨f, g, hf, hg, fun v rest hw => ?_⟩
  have := skel_roundtrip_at e d ver f g hm hf hg v rest hw
  exact ⟨this.1, this.2.1⟩

/-- the same for the types whose two sides agree on the versions 0..n they implement only -/
theorem skel_roundtrip_upto (n : Nat) (e d : Skel) (h : mirrorUpTo n e d = true) (ver : Nat) (hv : ver ≤ n) (f g : Fmt)
    (hf : e.fmtAt ver = some f) (hg : d.fmtAt ver = some g) (v : Val) (rest : Bytes) (hw : WT f ver v = true) :
    dec g ver (enc f ver v ++ rest) = some (v, rest) ∧ size f ver v = (enc f ver v).length ∧
    size g ver v = size f ver v :=
  skel_roundtrip_at e d ver f g (mirror_upto_versions n e d h ver hv) hf hg v rest hw

/-- re-encoding what was decoded gives the same bytes -/
theorem skel_reencode (e d : Skel) (h : mirror e d = true) (ver : Nat) (f g : Fmt)
    (hf : e.fmtAt ver = some f) (hg : d.fmtAt ver = some g) (v : Val) (hw : WT f ver v = true) :
    ∃ v', dec g ver (enc f ver v) = some (v', []) ∧ enc f ver v' = enc f ver v := by
  have := (skel_roundtrip e d h ver f g hf hg v [] hw).1
  rw [List.append_nil] at this
  exact ⟨v, this, rfl⟩

/-! ### non-vacuity: a pair in the style of OffsetFetchRequest (compact / classic layout by version, null array
    from v2, a field from v7), written the way the two Go methods differ -/

def exEnc : Skel :=
  Skel.seqL [.ifv (.ge 6) (.prim .cstr) (.prim .str),
    .array (.sel (.ge 6) (.dsel (.nul .compact) (.cnt .compact)) (.dsel (.sel (.ge 2) (.nul .i32) (.cnt .i32)) (.cnt .i32))) false
      (Skel.seqL [.ifv (.ge 6) (.prim .cstr) (.prim .str), .ifv (.ge 6) (.prim .ci32arr) (.prim .i32arr),
                  .ifv (.ge 6) (.prim .tagged) .skip]),
    .ifv (.ge 7) (.prim .bool) .skip, .ifv (.ge 6) (.prim .tagged) .skip]

def exDec : Skel :=
  Skel.seqL [.ifv (.gt 5) (.prim .cstr) (.prim .str),
    .array (.sel (.ge 6) (.cnt .uvarintRaw) (.cnt .i32)) true
      (Skel.seqL [.ifv (.ge 6) (.prim .cstr) (.prim .str), .ifv (.ge 6) (.prim .nci32arr) (.prim .i32arr),
                  .ifv (.not (.lt 6)) (.prim .tagged) .skip]),
    .ifv (.ge 7) (.prim .bool) .skip, .ifv (.ge 6) (.prim .tagged) .skip]

example : mirror exEnc exDec = true := by decide +kernel
example : exEnc.fmtAt 1 =
    some (.seq (.prim .str) (.arr .i32 (.seq (.prim .str) (.prim .i32arr)))) := rfl
example : exEnc.fmtAt 3 =
    some (.seq (.prim .str) (.arr .i32null (.seq (.prim .str) (.prim .i32arr)))) := rfl
example : exDec.fmtAt 7 = some (.seq (.prim .cstr) (.seq (.arr .compact (.seq (.prim .cstr) (.seq (.prim .nci32arr) (.prim .tagged))))
    (.seq (.prim .bool) (.prim .tagged)))) := rfl

def exVal : Val := .pair (.bytes [103]) (.list [.pair (.bytes [116]) (.list [.int 0, .int 7])])

example : dec (.seq (.prim .str) (.arr .i32null (.seq (.prim .str) (.prim .i32arr)))) 1
    (enc (.seq (.prim .str) (.arr .i32 (.seq (.prim .str) (.prim .i32arr)))) 1 exVal ++ [9]) = some (exVal, [9]) :=
  (skel_roundtrip exEnc exDec (by decide +kernel) 1 _ _ rfl rfl exVal [9] (by decide)).1

/-- a gate changed on the decode side only: the obligation fails -/
example : mirror exEnc (Skel.seqL [.ifv (.ge 6) (.prim .cstr) (.prim .str),
    .array (.sel (.ge 6) (.cnt .uvarintRaw) (.cnt .i32)) true
      (Skel.seqL [.ifv (.ge 6) (.prim .cstr) (.prim .str), .ifv (.ge 6) (.prim .nci32arr) (.prim .i32arr),
                  .ifv (.ge 6) (.prim .tagged) .skip]),
    .ifv (.ge 8) (.prim .bool) .skip, .ifv (.ge 6) (.prim .tagged) .skip]) = false := by decide +kernel

/-- a decoder that rejects the null array the encoder may write does not mirror it -/
example : mirror (.array (.dsel (.cnt .i32) (.nul .i32)) false (.prim .str)) (.array (.cnt .i32) false (.prim .str)) = false := by
  decide +kernel
example : mirror (.array (.dsel (.cnt .i32) (.nul .i32)) false (.prim .str)) (.array (.cnt .i32raw) true (.prim .str)) = true := by
  decide +kernel

end Props.C09skel
