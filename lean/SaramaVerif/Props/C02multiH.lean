/-
  C02 composition, stage C, system level: the bridge of a shared worker takes the buffer (`handover`), seen from
  partition `p`.  `BRh`: the inner states are related field by field (closing mode, retry mark of `p`, buffer and held
  message projected; `stale` is not related), the set at the bridge is either projected or HIDDEN (it holds nothing
  of `p`: the one-partition worker has no set at its bridge), and a worker without a set has no pending answer.
    * `proj_handover_hidden`  - PROVED: the buffer holds nothing of `p` and no message of `p` is held: no step of the
                                projection; the set is hidden.
    * `proj_handover_visible` - PROVED: otherwise: the `handover` step of the one-partition model; the set at its bridge
                                is the projection of the set.
-/
import SaramaVerif.Props.C02multiF

set_option linter.unusedSimpArgs false

namespace Props.C02sys
open Model Model.Pipeline Model.PipelineN Model.BrokerProd Lemmas.C02sys

def BRh (p : Int) (k : WorkerN) (j : Worker) : Prop :=
  ∃ hid : Bool,
    j.bp.closing = k.bp.closing ∧ j.bp.cr 0 = k.bp.cr p ∧ j.bp.buffer = projL p k.bp.buffer ∧
    j.bp.wait = projWait p k.bp.wait ∧ j.bp.sets = (if hid then [] else k.bp.sets.map (projL p)) ∧
    (hid = true → k.bp.sets ≠ [] ∧ ∀ x ∈ k.bp.sets, projL p x = []) ∧
    (k.bp.sets = [] → k.pend = none) ∧ (j.bp.sets = [] → j.pend = none)

theorem innerOnly_BRh (p : Int) : InnerOnly (BRh p) := by
  intro k k' j j' h1 h2 h3 h4 ⟨hid, a⟩
  exact ⟨hid, by rw [h3, h1, h2, h4]; exact a⟩

/-- what a hand-over does (when the bridge is free and the worker can hand over) -/
theorem handover_fields (M : Nat) (b : St) (hs : b.sets = []) (hd : (step M b .handover).2 ≠ [Action.disabled]) :
    (step M b .handover).1.sets = [b.buffer] ∧ (step M b .handover).1.closing = b.closing ∧
    (step M b .handover).1.cr = b.cr ∧ (step M b .handover).1.wait = none ∧
    (step M b .handover).1.buffer = b.wait.toList ∧
    (∀ a ∈ (step M b .handover).2, ∃ id q, a = Action.add id q) := by
  cases hw : b.wait with
  | some t => simp [step, handover, hs, hw]
  | none =>
    by_cases hdd : (b.buffer.isEmpty && !b.stale) = true
    · simp [step, handover, hs, hw, hdd] at hd
    · simp [step, handover, hs, hw, hdd]

theorem bpActsN_adds (as : List Action) (h : ∀ a ∈ as, ∃ id q, a = Action.add id q) (s : SysN) (off : Int → Nat) :
    bpActsN s off as = s := by
  induction as generalizing s off with
  | nil => rfl
  | cons a r ih =>
    obtain ⟨id, q, rfl⟩ := h a (List.mem_cons_self ..)
    simp only [bpActsN, bpActN]
    exact ih (fun x hx => h x (List.mem_cons_of_mem _ hx)) s off

theorem bpActs_adds (as : List Action) (h : ∀ a ∈ as, ∃ id q, a = Action.add id q) (s : Sys) (off : Nat) :
    bpActs s off as = s := by
  induction as generalizing s off with
  | nil => rfl
  | cons a r ih =>
    obtain ⟨id, q, rfl⟩ := h a (List.mem_cons_self ..)
    simp only [bpActs, bpAct]
    exact ih (fun x hx => h x (List.mem_cons_of_mem _ hx)) s off

theorem projL_toList_none {p : Int} {w : Option Pipeline.Tok} (h : projWait p w = none) : projL p w.toList = [] := by
  cases w with
  | none => rfl
  | some t =>
    by_cases ht : t.part = p
    · simp [projWait, ht] at h
    · simpa using projL_foreign ht

theorem projL_toList_some {p : Int} {w : Option Pipeline.Tok} {t' : Pipeline.Tok} (h : projWait p w = some t') :
    projL p w.toList = [t'] := by
  cases w with
  | none => simp [projWait] at h
  | some t =>
    by_cases ht : t.part = p
    · simp only [projWait, ht, if_true, Option.some.injEq] at h
      rw [← h]; simpa using projL_own ht
    · simp [projWait, ht] at h

/-- the N-side of a hand-over step -/
theorem handoverN_spec {M : Nat} {sN sN' : SysN} {w : Nat} (hs : sysStepN M sN (.handover w) = some sN') :
    (sN.wk w).bp.sets = [] ∧ (step M (sN.wk w).bp .handover).2 ≠ [Action.disabled] ∧
    sN' = { sN with wk := setWN sN.wk w ⟨(sN.wk w).inq, (step M (sN.wk w).bp .handover).1, (sN.wk w).pend⟩ } := by
  simp only [sysStepN, bpRunN] at hs
  split at hs
  · cases hs
  · rename_i hd
    have hsets : (sN.wk w).bp.sets = [] := by
      cases h : (sN.wk w).bp.sets with
      | nil => rfl
      | cons x r => simp [step, handover, h] at hd
    simp only [Option.some.injEq] at hs
    rw [bpActsN_adds _ (handover_fields M _ hsets hd).2.2.2.2.2] at hs
    exact ⟨hsets, hd, hs.symm⟩

/-- **a hand-over of a set that holds nothing of `p`, while no message of `p` is held: no step of the projection** -/
theorem proj_handover_hidden {M : Nat} {p : Int} {sN sN' : SysN} {s : Sys} {w : Nat} (h : WRel (BRh p) p sN s)
    (hbuf : projL p (sN.wk w).bp.buffer = []) (hwt : projWait p (sN.wk w).bp.wait = none)
    (hs : sysStepN M sN (.handover w) = some sN') : WRel (BRh p) p sN' s := by
  obtain ⟨hsets, hd, rfl⟩ := handoverN_spec hs
  obtain ⟨f1, f2, f3, f4, f5, _⟩ := handover_fields M _ hsets hd
  refine ⟨⟨h.q.next, h.q.dq, h.q.pq, h.q.pp, h.q.ret, h.q.ldr, h.q.log, h.q.succ, h.q.errs, h.q.pqp⟩, h.cur,
    fun k => ?_, fun k => ?_⟩
  · by_cases hk : k = w
    · subst hk; simp only [setWN, if_true]; exact h.inq k
    · simp only [setWN, hk, if_false]; exact h.inq k
  · by_cases hk : k = w
    · subst hk
      simp only [setWN, if_true]
      obtain ⟨hid, a1, a2, a3, a4, a5, a6, a7, a8⟩ := h.br k
      have hj : (s.wk k).bp.sets = [] := by
        rw [a5, hsets]; cases hid <;> rfl
      refine ⟨true, by rw [f2]; exact a1, by rw [f3]; exact a2, ?_, ?_, by simpa using hj, ?_, ?_, a8⟩
      · rw [a3, hbuf, f5, projL_toList_none hwt]
      · rw [a4, hwt, f4]; rfl
      · intro _; rw [f1]; exact ⟨by simp, fun x hx => by rw [List.mem_singleton.1 hx]; exact hbuf⟩
      · intro e; rw [f1] at e; cases e
    · simp only [setWN, hk, if_false]; exact h.br k

theorem projWait_toList (p : Int) (w : Option Pipeline.Tok) : (projWait p w).toList = projL p w.toList := by
  cases h : projWait p w with
  | none => rw [projL_toList_none h]; rfl
  | some t' => rw [projL_toList_some h]; rfl

/-- **a hand-over of a set that holds something of `p`, or while a message of `p` is held: the `handover` step of the
    one-partition model** -/
theorem proj_handover_visible {M : Nat} {p : Int} {sN sN' : SysN} {s : Sys} {w : Nat} (h : WRel (BRh p) p sN s)
    (hvis : projL p (sN.wk w).bp.buffer ≠ [] ∨ projWait p (sN.wk w).bp.wait ≠ none)
    (hs : sysStepN M sN (.handover w) = some sN') :
    ∃ s', sysStep M s (.handover w) = some s' ∧ WRel (BRh p) p sN' s' := by
  obtain ⟨hsets, hd, rfl⟩ := handoverN_spec hs
  obtain ⟨f1, f2, f3, f4, f5, _⟩ := handover_fields M _ hsets hd
  obtain ⟨hid, a1, a2, a3, a4, a5, a6, a7, a8⟩ := h.br w
  have hj : (s.wk w).bp.sets = [] := by rw [a5, hsets]; cases hid <;> rfl
  have hen : (step M (s.wk w).bp .handover).2 ≠ [Action.disabled] :=
    handover_enabled M _ hj (by
      rcases hvis with e | e
      · exact Or.inr (by rw [a3]; exact e)
      · exact Or.inl (by rw [a4]; exact e))
  obtain ⟨g1, g2, g3, g4, g5, g6⟩ := handover_fields M _ hj hen
  have hstep : sysStep M s (.handover w) =
      some { s with wk := setW s.wk w ⟨(s.wk w).inq, (step M (s.wk w).bp .handover).1, (s.wk w).pend⟩ } := by
    simp only [sysStep, bpRun, hen, if_false]
    rw [bpActs_adds _ g6]
  refine ⟨_, hstep, ⟨h.q.next, h.q.dq, h.q.pq, h.q.pp, h.q.ret, h.q.ldr, h.q.log, h.q.succ, h.q.errs, h.q.pqp⟩, h.cur,
    fun k => ?_, fun k => ?_⟩
  · by_cases hk : k = w
    · subst hk; simp only [setW, setWN, if_true]; exact h.inq k
    · simp only [setW, setWN, hk, if_false]; exact h.inq k
  · by_cases hk : k = w
    · subst hk
      simp only [setW, setWN, if_true]
      refine ⟨false, by rw [g2, f2]; exact a1, by rw [g3, f3]; exact a2, ?_, ?_, ?_, (fun e => by cases e), ?_, ?_⟩
      · rw [g5, f5, a4]; exact projWait_toList p _
      · rw [g4, f4]; rfl
      · rw [g1, f1, a3]; rfl
      · intro e; rw [f1] at e; cases e
      · intro e; rw [g1] at e; cases e
    · simp only [setW, setWN, hk, if_false]; exact h.br k

/-! ### non-vacuity -/

example : WRel (BRh 0) 0 {} {} :=
  ⟨qrel_init 0, rfl, fun _ => rfl, fun _ => ⟨false, rfl, rfl, rfl, rfl, rfl, (fun e => by cases e), fun _ => rfl, fun _ => rfl⟩⟩

/-- in `exTwo` the 15th choice is the hand-over of a set with messages of both partitions -/
example : ((runN 2 {} (exTwo.take 14)).bind (fun s => sysStepN 2 s (.handover 0))).isSome = true := by decide
example : ((runN 2 {} (exTwo.take 14)).map (fun s => (projL 0 (s.wk 0).bp.buffer).length)) = some 2 := by decide
example : ((runN 2 {} (exTwo.take 14)).map (fun s => (projL 1 (s.wk 0).bp.buffer).length)) = some 1 := by decide

end Props.C02sys
