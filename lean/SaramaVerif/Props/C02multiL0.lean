/-
  C02 composition, stage C, for the lift of `resp_proj_parts`: on a one-partition worker (set at the bridge, buffer and
  held message all of partition 0) every outcome-bearing action of the `resp` arm with a per-partition answer is of
  partition 0, so `isOut` and `isOwn 0` select the same actions (`resp_P0_out`).
-/
import SaramaVerif.Props.C02multiV4
import SaramaVerif.Lemmas.C02liveEn

set_option linter.unusedSimpArgs false
set_option linter.unusedVariables false

namespace Props.C02sys
open Model Model.Pipeline Model.PipelineN Model.BrokerProd Lemmas.C02sys

/-- outcome-bearing actions are of partition 0 -/
def AllP0 (as : List Action) : Prop := ∀ a ∈ as, isOut a = isOwn 0 a

theorem AllP0.filter {as : List Action} (h : AllP0 as) : as.filter isOut = as.filter (isOwn 0) :=
  List.filter_congr h

theorem AllP0.append {a b : List Action} (ha : AllP0 a) (hb : AllP0 b) : AllP0 (a ++ b) := by
  intro x hx
  rcases List.mem_append.mp hx with h | h
  · exact ha x h
  · exact hb x h

theorem AllP0.nil : AllP0 [] := by intro a ha; cases ha

theorem AllP0.cons {a : Action} {l : List Action} (h : isOut a = isOwn 0 a) (hl : AllP0 l) : AllP0 (a :: l) := by
  intro x hx
  rcases List.mem_cons.mp hx with e | e
  · rw [e]; exact h
  · exact hl x e

theorem AllP0_retryMsg (M : Nat) {t : Pipeline.Tok} (ht : t.part = 0) : isOut (retryMsg M t) = isOwn 0 (retryMsg M t) := by
  unfold retryMsg; split <;> simp [isOut, isOwn, ht]

theorem AllP0_retryMsgs (M : Nat) {l : List Pipeline.Tok} (hl : P0 l) : AllP0 (retryMsgs M l) := by
  intro a ha
  obtain ⟨t, ht, rfl⟩ := List.mem_map.mp ha
  exact AllP0_retryMsg M (hl t ht)

theorem AllP0_succs {l : List Pipeline.Tok} (hl : P0 l) : AllP0 (l.map (fun t => Action.succ t.id t.part)) := by
  intro a ha
  obtain ⟨t, ht, rfl⟩ := List.mem_map.mp ha
  simp [isOut, isOwn, hl t ht]

theorem AllP0_fails {l : List Pipeline.Tok} (hl : P0 l) : AllP0 (l.map (fun t => Action.fail t.id t.part)) := by
  intro a ha
  obtain ⟨t, ht, rfl⟩ := List.mem_map.mp ha
  simp [isOut, isOwn, hl t ht]

theorem AllP0_verdictActs (M : Nat) (x : BrokerProd.Verdict) {l : List Pipeline.Tok} (hl : P0 l) :
    AllP0 (verdictActs M x l) := by
  unfold verdictActs
  split
  · exact AllP0.nil
  · cases x with
    | ok => exact AllP0_succs hl
    | missing => exact AllP0_fails hl
    | fatal =>
      by_cases hm : M = 0
      · simp only [hm, ↓reduceIte]; exact AllP0.append (AllP0.cons rfl AllP0.nil) (AllP0_fails hl)
      · simp only [hm, ↓reduceIte]; exact AllP0.append AllP0.nil (AllP0_fails hl)
    | retriable =>
      by_cases hm : M = 0
      · simp only [hm, ↓reduceIte]; exact AllP0.cons rfl (AllP0_fails hl)
      · simp only [hm, ↓reduceIte]; exact AllP0.nil

theorem AllP0_recheck (M : Nat) (S : St) (A : List Action) (st : Bool) (hA : AllP0 A)
    (hw : ∀ t, S.wait = some t → t.part = 0) : AllP0 (recheck M S A st).2 := by
  unfold recheck
  cases hwt : S.wait with
  | none => exact hA
  | some t =>
    dsimp only
    split
    · exact AllP0.append hA (AllP0.cons (AllP0_retryMsg M (hw t hwt)) AllP0.nil)
    · split
      · exact hA
      · exact AllP0.append hA (AllP0.cons rfl AllP0.nil)

/-- the `resp` arm of a one-partition worker with a constant per-partition verdict -/
theorem resp_P0_out (M : Nat) (b1 : St) (t : Pipeline.Tok) (r : List Pipeline.Tok) (rest : List (List Pipeline.Tok))
    (x : BrokerProd.Verdict) (st : Bool) (hs : b1.sets = (t :: r) :: rest) (hP : P0 (t :: r)) (hb : P0 b1.buffer)
    (hw : ∀ t, b1.wait = some t → t.part = 0) :
    (resp M b1 (.verdicts (fun _ => x) [] []) st).2.filter isOut =
      (resp M b1 (.verdicts (fun _ => x) [] []) st).2.filter (isOwn 0) := by
  apply AllP0.filter
  simp only [resp, hs]
  have hh := handle_P0 M { b1 with sets := rest } t r x hP hb
  apply AllP0_recheck
  · rw [hh]
    split
    · exact AllP0.append (AllP0_retryMsgs M hP) (AllP0.cons rfl (AllP0_retryMsgs M hb))
    · exact AllP0_verdictActs M x hP
  · intro t' ht'
    have : (handle M { b1 with sets := rest } (t :: r) (.verdicts (fun _ => x) [] [])).1.wait = b1.wait :=
      (Props.C02bp.handle_frame M { b1 with sets := rest } (t :: r) (.verdicts (fun _ => x) [] [])).2.1
    rw [this] at ht'
    exact hw t' ht'

end Props.C02sys
