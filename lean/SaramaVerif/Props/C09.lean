import SaramaVerif.Model.CodecMachine
import SaramaVerif.Lemmas.C09Records
import SaramaVerif.Lemmas.C09Machine
/-
  C09 — wire encoding round-trips for every message type and version.

  Everything here is about the model (Model/Codec*.lean); the tie to /repo is the bridge (Bridge/C09.lean,
  constants) and the differential correspondence of cmd/c09 (every primitive, every protocol body × version as
  the call sequence its real encode/decode makes, records / batches / message sets).

  Statements quantify over ALL values, byte strings, versions, schemas.
-/
namespace Props.C09
open Model.Codec Lemmas.C09

/-! ## primitives: every getter inverts its putter, both encoder passes agree -/

/-- big-endian intN: `getIntN (putIntN x ++ rest) = (x, rest)` for every x of the Go type (N = 8·n, n ≥ 1) -/
theorem int_roundtrip (n : Nat) (x : Int) (rest : Bytes) (hn : 0 < n) (h : InInt n x) :
    getInt n (putInt n x ++ rest) = some (x, rest) ∧ (putInt n x).length = n :=
  ⟨getInt_putInt n x rest hn h, putInt_length n x⟩

example : getInt 4 (putInt 4 (-2) ++ [7]) = some (-2, [7]) := (int_roundtrip 4 (-2) [7] (by decide) (by decide)).1
example : putInt 4 (-2) = [0xff, 0xff, 0xff, 0xfe] := by decide
example : putInt 8 (-9223372036854775808) = [0x80, 0, 0, 0, 0, 0, 0, 0] := by decide

/-- varint and uvarint round trips over the whole int64 / uint64 range -/
theorem varint_roundtrip (x : Int) (rest : Bytes) (h : InInt 8 x) :
    getVarint (putVarint x ++ rest) = some (x, rest) := getVarint_putVarint x rest h

theorem uvarint_roundtrip (x : Nat) (rest : Bytes) (h : x < 2 ^ 64) :
    getUVarint (putUVarint x ++ rest) = some (x, rest) := getUVarint_putUVarint x rest h

example : putVarint (-9223372036854775808) = [0xff, 0xff, 0xff, 0xff, 0xff, 0xff, 0xff, 0xff, 0xff, 0x01] := by decide
example : putUVarint 300 = [0xac, 0x02] := by decide

/-- `varint_zigzag_spec`: the signed → unsigned map is the prescribed `(x << 1) ^ (x >> 63)` on 64 bits -/
theorem varint_zigzag_spec (x : Int) (h : InInt 8 x) :
    zigzag x = ((BitVec.ofInt 64 x <<< 1) ^^^ (BitVec.ofInt 64 x).sshiftRight 63).toNat ∧ unzigzag (zigzag x) = x :=
  ⟨zigzag_bitvec x h, unzigzag_zigzag x⟩

example : zigzag (-1) = 1 ∧ zigzag 1 = 2 ∧ zigzag (-2) = 3 := by decide

/-- `uvarint_spec`: base-128 little-endian groups whose value is x, continuation bit on all groups but the
    last, no superfluous trailing zero group, at most 10 groups -/
theorem uvarint_spec (x : Nat) (h : x < 2 ^ 64) :
    uvarintVal (putUVarint x) = x ∧ Canonical (putUVarint x) ∧ (putUVarint x).length ≤ 10 := by
  have hx : x < 2 * 128 ^ 9 := by simpa using h
  exact ⟨uvarintF_val 9 x hx, uvarintF_canonical 9 x hx, uvarintF_length_bound 9 x hx⟩

/-- every primitive of packet_encoder.go / packet_decoder.go (strings, nullable and compact strings, bytes,
    varint bytes, int32/int64/string arrays, compact arrays, bool, empty tagged fields, raw bytes):
    the getter inverts the putter on well-typed values … -/
theorem prim_dec_enc (p : Prim) (v : Val) (rest : Bytes) (h : wtP p v = true) :
    decP p (encP p v ++ rest) = some (v, rest) := decP_encP p v rest h

/-- … and the prep encoder adds exactly what the real encoder writes (for every value) -/
theorem prim_size_eq (p : Prim) (v : Val) : sizeP p v = (encP p v).length := sizeP_eq p v

example : decP .nstr (encP .nstr .null ++ [9]) = some (.null, [9]) := prim_dec_enc .nstr .null [9] (by decide)
example : encP .nstr .null = [0xff, 0xff] ∧ encP .ncstr .null = [0] ∧ encP .cstr (.bytes []) = [1] := by decide
example : decP .i32arr (encP .i32arr (.list [.int 1, .int (-1)])) = some (.list [.int 1, .int (-1)], []) := by
  have := prim_dec_enc .i32arr (.list [.int 1, .int (-1)]) [] (by decide)
  simpa using this

/-- array lengths: `getArrayLength` gives the count back when the count does not exceed the bytes that follow
    nor 2·MaxUint16 (its own plausibility guards); compact lengths when they do not exceed the bytes that follow -/
theorem array_length_roundtrip (n : Int) (rest : Bytes) (h : InInt 4 n) (hr : n ≤ rest.length) (hm : n ≤ 131070)
    (hneg : -1 ≤ n) : getArrayLength (putArrayLength n ++ rest) = some (n, rest) := getArrayLength_put n rest h hr hm hneg

theorem compact_array_length_roundtrip (n : Nat) (rest : Bytes) (h : n + 1 < 2 ^ 64) (hr : n ≤ rest.length) :
    getCompactArrayLength (putCompactArrayLength n ++ rest) = some (n, rest) := getCompactArrayLength_put n rest h hr

/-! ## the schema interpreters -/

/-- GT `size_eq_enc_length`: prepEncoder pass = realEncoder pass, for every schema, version and value
    (including the varint length field, whose prep size comes out of reserve + adjust) -/
theorem size_eq_enc_length (f : Fmt) (ver : Nat) (v : Val) : size f ver v = (enc f ver v).length :=
  Lemmas.C09.size_eq_enc_length f ver v

/-- the varint length field's push + adjustLength add `len(varint(body)) + body`, whatever stale length the
    field held before (0 for a fresh Record, the old size for a re-encoded one) -/
theorem varlen_adjust_exact (stale : Int) (body : Nat) :
    prepVarLen stale body = ((prepVarint body + body : Nat) : Int) := prepVarLen_exact stale body

/-- GT `dec_enc`: decoding an encoding followed by anything returns the value and exactly the rest -/
theorem dec_enc (f : Fmt) (ver : Nat) (v : Val) (rest : Bytes) (h : WT f ver v = true) :
    dec f ver (enc f ver v ++ rest) = some (v, rest) := Lemmas.C09.dec_enc f ver v rest h

/-- `reencode_same_bytes`: encode ∘ decode ∘ encode = encode, and the second decode gives the same value -/
theorem reencode_same_bytes (f : Fmt) (ver : Nat) (v : Val) (h : WT f ver v = true) :
    ∃ v', dec f ver (enc f ver v) = some (v', []) ∧ enc f ver v' = enc f ver v ∧
          dec f ver (enc f ver v') = some (v', []) := by
  have := dec_enc f ver v [] h
  rw [List.append_nil] at this
  exact ⟨v, this, rfl, this⟩

/-- a field gated to versions ≥ lo is on the wire exactly from version lo on (otherwise the value must be
    `unit`: what a version does not carry cannot come back) -/
theorem gate_spec (lo : Nat) (f : Fmt) (ver : Nat) (v : Val) :
    enc (Fmt.gate lo f) ver v = (if lo ≤ ver ∧ ver ≤ 1000000 then enc f ver v else []) := by
  simp only [Fmt.gate, enc]

/-- a small body in the style of OffsetFetchRequest: string / compact string by `isFlexible`, an int32 array
    per topic, a bool from v7, tagged fields on flexible versions -/
def exampleBody : Fmt :=
  .seq (.ite 6 100 (.prim .cstr) (.prim .str))
    (.seq (.ite 6 100 (.arr .compact (.seq (.prim .cstr) (.seq (.prim .ci32arr) (.prim .tagged))))
                      (.arr .i32null (.seq (.prim .str) (.prim .i32arr))))
      (.seq (Fmt.gate 7 (.prim .bool)) (.ite 6 100 (.prim .tagged) .unit)))

def exampleV5 : Val :=
  .pair (.bytes [103]) (.pair (.list [.pair (.bytes [116]) (.list [.int 0, .int 7])]) (.pair .unit .unit))
def exampleV7 : Val :=
  .pair (.bytes [103]) (.pair (.list [.pair (.bytes [116]) (.pair (.list [.int 0, .int 7]) .unit)]) (.pair (.int 1) .unit))

example : dec exampleBody 5 (enc exampleBody 5 exampleV5 ++ [1]) = some (exampleV5, [1]) :=
  dec_enc exampleBody 5 exampleV5 [1] (by decide)
example : dec exampleBody 7 (enc exampleBody 7 exampleV7) = some (exampleV7, []) := by
  have := dec_enc exampleBody 7 exampleV7 [] (by decide)
  simpa using this
example : enc exampleBody 7 exampleV7 = [2, 103, 2, 2, 116, 3, 0, 0, 0, 0, 0, 0, 0, 7, 0, 1, 0] := by decide +kernel
example : enc exampleBody 5 exampleV5 = [0, 1, 103, 0, 0, 0, 1, 0, 1, 116, 0, 0, 0, 2, 0, 0, 0, 0, 0, 0, 0, 7] := by decide +kernel
/-- the hypotheses matter: a value carrying the v7 field is not well-typed at v5, and does not round-trip there -/
example : WT exampleBody 5 exampleV7 = false := by decide

/-- `len32_covers`: the int32 prefix written by a lengthField is the number of bytes between push and pop -/
theorem len32_covers (f : Fmt) (ver : Nat) (v : Val) (h : (enc f ver v).length < 2 ^ 31) :
    enc (.len32 f) ver v = putInt 4 (enc f ver v).length ++ enc f ver v ∧
    getInt 4 (enc (.len32 f) ver v) = some (((enc f ver v).length : Int), enc f ver v) := by
  refine ⟨rfl, ?_⟩
  simp only [enc, putLen32]
  exact getInt_putInt 4 _ _ (by decide) (inInt4_len _ h)

/-- `crc_covers`: the 4 bytes written by a crc32Field are the CRC-32 (of the field's polynomial) of exactly
    the bytes between the field and pop -/
theorem crc_covers (p : Poly) (f : Fmt) (ver : Nat) (v : Val) :
    enc (.crc p f) ver v = be 4 (crc32 p (enc f ver v)) ++ enc f ver v ∧
    getUInt 4 (enc (.crc p f) ver v) = some (crc32 p (enc f ver v), enc f ver v) := by
  refine ⟨rfl, ?_⟩
  simp only [enc, putCrc]
  exact getUInt_be 4 _ _ (crc32_lt p _)

/-- the two polynomials are the standard ones: check value of "123456789" -/
example : crc32 .ieee [49, 50, 51, 52, 53, 54, 55, 56, 57] = 0xCBF43926 := by decide +kernel
example : crc32 .castagnoli [49, 50, 51, 52, 53, 54, 55, 56, 57] = 0xE3069283 := by decide +kernel

/-- (the record of the examples below, needed here already) -/
def exampleRecord' : Record :=
  { attributes := 0, timestampDelta := 5, offsetDelta := 1, key := none, value := some [97, 98],
    headers := [(some [1], none), (none, some [])] }

/-! ## the packet machines: call sequences on prepEncoder / realEncoder denote `size` / `enc` -/

/-- `machine_encode`: running the model of `encode()` (prep pass, then real pass with every push/pop done on
    the buffer: reserve, then patch the length / CRC / varint at pop) over the call sequence of a schema gives
    `(size, enc)`.  The harness compares exactly this machine with the real prepEncoder/realEncoder on the call
    sequences recorded from the real encode of every protocol body. -/
theorem machine_encode (f : Fmt) (ver : Nat) (v : Val) :
    runEncode (toks false f ver v) = (((size f ver v : Nat) : Int), enc f ver v) := by
  unfold runEncode runPrep runReal
  rw [prep_toks false f ver v {}, real_toks f ver v {}]
  simp

/-- the first prep pass over a fresh value (varint length fields still 0) computes the same size -/
theorem machine_prep_fresh (f : Fmt) (ver : Nat) (v : Val) :
    (runPrep (toks true f ver v)).length = (size f ver v : Nat) := by
  unfold runPrep
  rw [prep_toks true f ver v {}]
  simp

example : runEncode (toks false recordFmt 0 exampleRecord'.toVal) =
    ((14 : Int), [26, 0, 10, 2, 1, 4, 97, 98, 4, 2, 1, 1, 1, 0]) := by decide +kernel

/-! ## records, record batches, legacy message sets -/

/-- `record_varlen_spec`: a record is the zig-zag varint of its body length followed by the body; the prep
    pass computes that total -/
theorem record_varlen_spec (r : Record) :
    encRecord r = putVarint ((enc recordBodyFmt 0 r.toVal).length : Int) ++ enc recordBodyFmt 0 r.toVal ∧
    sizeRecord r = (encRecord r).length := by
  constructor
  · simp only [encRecord, recordFmt, enc, putVarLen, Lemmas.C09.size_eq_enc_length]
  · exact Lemmas.C09.size_eq_enc_length recordFmt 0 r.toVal

theorem record_roundtrip (r : Record) (rest : Bytes) (h : r.WT = true) :
    decRecord (encRecord r ++ rest) = some (r, rest) := record_dec_enc r rest h

def exampleRecord : Record :=
  { attributes := 0, timestampDelta := 5, offsetDelta := 1, key := none, value := some [97, 98],
    headers := [(some [1], none), (none, some [])] }

example : decRecord (encRecord exampleRecord ++ [3]) = some (exampleRecord, [3]) :=
  record_roundtrip exampleRecord [3] (by decide)
example : encRecord exampleRecord = [26, 0, 10, 2, 1, 4, 97, 98, 4, 2, 1, 1, 1, 0] := by decide

/-- `batch_length_overhead`: the length prefix of a record batch is recordBatchOverhead (49) + the size of
    the (compressed) records; `maximumRecordOverhead` is 5 varint32 + 1 varint64 + 1 -/
theorem batch_length_overhead (comp : Int → Bytes → Bytes) (b : Batch) :
    (b.lenBody comp).length = 49 + (comp b.codec (encRecords b.records)).length ∧
    encBatch comp b = putInt 8 b.firstOffset ++ putInt 4 ((b.lenBody comp).length : Int) ++ b.lenBody comp ∧
    sizeBatch comp b = (encBatch comp b).length := by
  have h := lenBody_length comp b
  simp only [recordBatchOverhead] at h
  refine ⟨h, by simp only [encBatch, putLen32, List.append_assoc], ?_⟩
  simp only [sizeBatch, encBatch, putLen32, List.length_append, putInt_length, h]
  omega

/-- the batch CRC is Castagnoli over the batch from the attributes on (the IEEE one of a legacy message covers
    the message from the magic byte on, `message_crc_covers`) -/
theorem batch_crc_covers (comp : Int → Bytes → Bytes) (b : Batch) :
    b.lenBody comp = putInt 4 b.partitionLeaderEpoch ++ putInt 1 b.magic ++
      (be 4 (crc32 .castagnoli (b.crcBody comp)) ++ b.crcBody comp) := rfl

theorem message_crc_covers (comp : Int → Bytes → Bytes) (m : Msg) :
    encMessage comp m = be 4 (crc32 .ieee (m.crcBody comp)) ++ m.crcBody comp := rfl

/-- `recordbatch_roundtrip`: all codecs as a parameter with the law `decomp ∘ comp = id` on this payload; no
    condition on how well the records compress (the record count is compared with the decompressed records) -/
theorem recordbatch_roundtrip (comp : Int → Bytes → Bytes) (decomp : Int → Bytes → Option Bytes) (b : Batch)
    (rest : Bytes) (hlaw : decomp b.codec (comp b.codec (encRecords b.records)) = some (encRecords b.records))
    (hwt : b.WTP comp) :
    decBatch decomp (encBatch comp b ++ rest) = some (b, rest) := batch_dec_enc comp decomp b rest hlaw hwt

/-- with the code's own compress/decompress switch: codec 0 needs no library -/
theorem recordbatch_roundtrip_uncompressed (clib : Int → Bytes → Bytes) (dlib : Int → Bytes → Option Bytes)
    (b : Batch) (rest : Bytes) (hc : b.codec = 0) (hwt : b.WTP (compress clib)) :
    decBatch (decompress dlib) (encBatch (compress clib) b ++ rest) = some (b, rest) := by
  apply recordbatch_roundtrip (compress clib) (decompress dlib) b rest
  · exact decompress_compress clib dlib b.codec _ (by omega) (fun h => absurd hc h)
  · exact hwt

def exampleBatch : Batch :=
  { firstOffset := 100, partitionLeaderEpoch := -1, magic := 2, codec := 0, control := false, logAppendTime := true,
    isTransactional := true, lastOffsetDelta := 0, firstTimestamp := 1600000000000, maxTimestamp := -1,
    producerID := 7, producerEpoch := 1, firstSequence := 0, records := [exampleRecord] }

private theorem exampleBatch_wt (lib : Int → Bytes → Bytes) : exampleBatch.WTP (compress lib) := by
  refine ⟨by decide, by decide, by decide, by decide, by decide, by decide, by decide, by decide, by decide,
    by decide, by decide, rfl, by decide, ?_⟩
  simp only [compress, exampleBatch, ↓reduceIte]
  decide

example (clib : Int → Bytes → Bytes) (dlib : Int → Bytes → Option Bytes) :
    decBatch (decompress dlib) (encBatch (compress clib) exampleBatch ++ [1, 2]) = some (exampleBatch, [1, 2]) :=
  recordbatch_roundtrip_uncompressed clib dlib exampleBatch [1, 2] rfl (exampleBatch_wt clib)

/-- a (degenerate but lawful on this payload) library that compresses the one record to nothing: the batch still
    round-trips, whatever follows it -/
example : decBatch (fun _ _ => some (encRecords [exampleRecord]))
    (encBatch (fun _ _ => []) { exampleBatch with codec := 4 }) = some ({ exampleBatch with codec := 4 }, []) := by
  have := recordbatch_roundtrip (fun _ _ => []) (fun _ _ => some (encRecords [exampleRecord]))
    { exampleBatch with codec := 4 } [] rfl
    ⟨by decide, by decide, by decide, by decide, by decide, by decide, by decide, by decide, by decide,
      by decide, by decide, rfl, by decide, by decide⟩
  simpa using this

/-- legacy message (magic 0/1): CRC, magic, attributes, timestamp from magic 1 on, key, value;
    `innerOK` stands for `Message.decodeSet` on the decompressed value of a wrapper -/
theorem message_roundtrip (comp : Int → Bytes → Bytes) (decomp : Int → Bytes → Option Bytes) (innerOK : Bytes → Bool)
    (m : Msg) (rest : Bytes) (hwt : m.WTP comp)
    (hnone : ∀ v, m.value = some v → m.codec = 0 → comp m.codec v = v)
    (hlaw : ∀ v, m.value = some v → m.codec ≠ 0 → decomp m.codec (comp m.codec v) = some v ∧ innerOK v = true) :
    decMessage decomp innerOK (encMessage comp m ++ rest) = some (m, rest) :=
  message_dec_enc comp decomp innerOK m rest hwt hnone hlaw

/-- `messageset_roundtrip` (v0/v1): a set is the concatenation of (offset, length-prefixed message) blocks and
    decodes back to exactly those blocks, nothing partial, nothing left -/
theorem messageset_roundtrip (comp : Int → Bytes → Bytes) (decomp : Int → Bytes → Option Bytes) (innerOK : Bytes → Bool)
    (bs : List Block) (fuel : Nat) (hf : bs.length ≤ fuel) (h : ∀ b ∈ bs, BlockOK comp decomp innerOK b) :
    decSet decomp innerOK fuel (encSet comp bs) = some ⟨bs, false, false, []⟩ :=
  set_dec_enc comp decomp innerOK bs fuel hf h

/-- wrappers: a compressed message whose value is an encoded inner set passes `decodeSet` one nesting level
    up; by induction on the depth this covers every nesting -/
theorem messageset_wrapper_inner (comp : Int → Bytes → Bytes) (decomp : Int → Bytes → Option Bytes) (d : Nat)
    (bs : List Block) (h : ∀ b ∈ bs, BlockOK comp decomp (innerOKd decomp d) b) :
    innerOKd decomp (d + 1) (encSet comp bs) = true := innerOKd_encSet comp decomp d bs h

def exampleMsg : Msg :=
  { magic := 1, codec := 0, logAppendTime := false, timestamp := 1600000000000, key := none, value := some [104, 105] }

private theorem exampleBlock_ok (lib : Int → Bytes → Bytes) (dlib : Int → Bytes → Option Bytes) (ok : Bytes → Bool) :
    BlockOK (compress lib) (decompress dlib) ok (42, exampleMsg) := by
  refine ⟨by decide, ⟨by decide, by decide, by decide, by decide, by decide, ?_⟩, ?_, ?_, ?_⟩
  · intro v hv
    simp only [exampleMsg, Option.some.injEq] at hv
    subst hv; simp only [compress, exampleMsg, ↓reduceIte]; decide
  · simp only [encMessage, putCrc, Msg.crcBody, exampleMsg, List.length_append, be_length, putInt_length,
      Option.map_some, compress, ↓reduceIte]
    decide
  · intro v _ _; simp only [compress, exampleMsg, ↓reduceIte]
  · intro v _ hc; exact absurd rfl hc

example (lib : Int → Bytes → Bytes) (dlib : Int → Bytes → Option Bytes) :
    decSet (decompress dlib) (fun _ => false) 5 (encSet (compress lib) [(42, exampleMsg), (43, exampleMsg)]) =
      some ⟨[(42, exampleMsg), (43, exampleMsg)], false, false, []⟩ := by
  apply messageset_roundtrip
  · decide
  · intro b hb
    simp only [List.mem_cons, List.mem_nil_iff, or_false] at hb
    rcases hb with hb | hb <;> subst hb
    · exact exampleBlock_ok lib dlib _
    · have := exampleBlock_ok lib dlib (fun _ => false)
      exact ⟨by decide, this.2.1, this.2.2.1, this.2.2.2.1, this.2.2.2.2⟩

/-- `records_magic_dispatch`: byte 16 of both formats is the magic byte, so `Records.decode` sends what
    `RecordBatch.encode` wrote (magic 2) to the batch decoder and what `MessageSet.encode` wrote (magic 0/1) to
    the legacy decoder -/
theorem records_magic_dispatch (comp : Int → Bytes → Bytes) :
    (∀ (b : Batch) (rest : Bytes), b.magic = 2 → recordsKind (encBatch comp b ++ rest) = some .default) ∧
    (∀ (b : Block) (bs : List Block), (b.2.magic = 0 ∨ b.2.magic = 1) →
        recordsKind (encSet comp (b :: bs)) = some .legacy) := by
  constructor
  · intro b rest hm
    rw [recordsKind_batch comp b rest (by rw [hm]; decide), hm]; rfl
  · intro b bs hm
    rw [recordsKind_set comp b bs (by unfold InInt; simp only [Nat.reducePow, Nat.reduceDiv]; omega)]
    rcases hm with h | h <;> rw [h] <;> rfl

end Props.C09
