/-
  C02 composition, stage C, towards `DeliverVisProj`, worker level: the re-check of waitForSpace and the whole `resp`
  arm for a per-partition answer, projected on a partition of which the set holds something.
    * `recheck_proj`     - related states and action lists with the same outcomes of `p` stay so through the re-check
      (held message of `p`, of another partition, or none).
    * `resp_proj_parts`  - `BrokerProd.resp` with `.verdicts v [] []` on a worker with several partitions against the
      one-partition worker with `.verdicts (fun _ => v p) [] []` on the projected set: same outcome-bearing actions
      of `p` (relabelled), states related by `projB p` up to `sets` / `stale`, the sets lose their head on both sides.
-/
import SaramaVerif.Props.C02multiV2

set_option linter.unusedSimpArgs false
set_option linter.unusedVariables false

namespace Props.C02sys
open Model Model.Pipeline Model.PipelineN Model.BrokerProd Lemmas.C02sys

theorem isOwn_retryMsg (M : Nat) (t : Pipeline.Tok) : isOwn t.part (retryMsg M t) = true := by
  unfold retryMsg; split <;> simp [isOwn]

theorem recheck_proj (M : Nat) (S S1 : St) (A A1 : List Action) (st : Bool) (p : Int)
    (h1 : S1.closing = S.closing) (h2 : S1.cr = (projB p S).cr) (h3 : S1.buffer = projL p S.buffer)
    (h4 : S1.wait = projWait p S.wait) (hA : A1.filter (isOwn 0) = (A.filter (isOwn p)).map relabA) :
    (recheck M S1 A1 st).2.filter (isOwn 0) = ((recheck M S A st).2.filter (isOwn p)).map relabA ∧
    (recheck M S1 A1 st).1.closing = (recheck M S A st).1.closing ∧
    (recheck M S1 A1 st).1.cr = (projB p (recheck M S A st).1).cr ∧
    (recheck M S1 A1 st).1.buffer = projL p (recheck M S A st).1.buffer ∧
    (recheck M S1 A1 st).1.wait = projWait p (recheck M S A st).1.wait ∧
    (recheck M S1 A1 st).1.sets = S1.sets ∧ (recheck M S A st).1.sets = S.sets := by
  cases hw : S.wait with
  | none =>
    have hw1 : S1.wait = none := by rw [h4, hw]; rfl
    simp only [recheck, hw, hw1]
    exact ⟨hA, h1, h2, h3, by simp [projWait], trivial, trivial⟩
  | some t =>
    by_cases ht : t.part = p
    · have hw1 : S1.wait = some (relab t) := by rw [h4, hw]; simp [projWait, ht]
      have hn : needsRetry S1 (relab t).part = needsRetry S t.part := by
        simp only [needsRetry, h1, h2, relab_part, projB, ht]; simp
      simp only [recheck, hw, hw1, hn]
      by_cases hnr : needsRetry S t.part = true
      · simp only [hnr, ↓reduceIte]
        refine ⟨?_, h1, h2, h3, by simp [projWait], trivial, trivial⟩
        have e : isOwn p (retryMsg M t) = true := ht ▸ isOwn_retryMsg M t
        have e' : isOwn 0 (retryMsg M (relab t)) = true := isOwn_retryMsg M (relab t)
        rw [List.filter_append, List.filter_append, hA]
        have e'' : isOwn 0 (relabA (retryMsg M t)) = true := retryMsg_relab M t ▸ e'
        simp [List.filter_cons, e, e', e'', retryMsg_relab]
      · simp only [hnr, Bool.false_eq_true, ↓reduceIte]
        cases st with
        | true =>
          simp only [↓reduceIte]
          exact ⟨hA, h1, h2, h3, by rw [hw1, hw]; simp [projWait, ht], trivial, trivial⟩
        | false =>
          simp only [Bool.false_eq_true, ↓reduceIte]
          refine ⟨?_, h1, h2, ?_, by simp [projWait], trivial, trivial⟩
          · rw [List.filter_append, List.filter_append, hA]; simp [isOwn]
          · show S1.buffer ++ [relab t] = projL p (S.buffer ++ [t])
            rw [projL_append, projL_own ht, h3]
    · have hw1 : S1.wait = none := by rw [h4, hw]; simp [projWait, ht]
      simp only [recheck, hw, hw1]
      by_cases hnr : needsRetry S t.part = true
      · simp only [hnr, ↓reduceIte]
        refine ⟨?_, h1, h2, h3, by simp [projWait], trivial, trivial⟩
        rw [List.filter_append, own_of_foreign (foreign_retryMsg M ht), List.append_nil]; exact hA
      · simp only [hnr, Bool.false_eq_true, ↓reduceIte]
        cases st with
        | true =>
          simp only [↓reduceIte]
          exact ⟨hA, h1, h2, h3, by rw [hw]; simp [projWait, ht], trivial, trivial⟩
        | false =>
          simp only [Bool.false_eq_true, ↓reduceIte]
          refine ⟨?_, h1, h2, ?_, by simp [projWait], trivial, trivial⟩
          · rw [List.filter_append]; simp [isOwn]; exact hA
          · show S1.buffer = projL p (S.buffer ++ [t])
            rw [projL_append, projL_foreign ht, h3]; simp

/-- **the `resp` arm with a per-partition answer, projected on a partition of which the set holds something** -/
theorem resp_proj_parts (M : Nat) (b b1 : St) (sent : List Pipeline.Tok) (rest rest1 : List (List Pipeline.Tok))
    (v : Int → BrokerProd.Verdict) (st : Bool) (p : Int)
    (hs : b.sets = sent :: rest) (hs1 : b1.sets = projL p sent :: rest1) (hne : projL p sent ≠ [])
    (h1 : b1.closing = b.closing) (h2 : b1.cr = (projB p b).cr) (h3 : b1.buffer = projL p b.buffer)
    (h4 : b1.wait = projWait p b.wait) :
    (resp M b1 (.verdicts (fun _ => v p) [] []) st).2.filter (isOwn 0) =
      ((resp M b (.verdicts v [] []) st).2.filter (isOwn p)).map relabA ∧
    (resp M b1 (.verdicts (fun _ => v p) [] []) st).1.closing = (resp M b (.verdicts v [] []) st).1.closing ∧
    (resp M b1 (.verdicts (fun _ => v p) [] []) st).1.cr = (projB p (resp M b (.verdicts v [] []) st).1).cr ∧
    (resp M b1 (.verdicts (fun _ => v p) [] []) st).1.buffer =
      projL p (resp M b (.verdicts v [] []) st).1.buffer ∧
    (resp M b1 (.verdicts (fun _ => v p) [] []) st).1.wait = projWait p (resp M b (.verdicts v [] []) st).1.wait ∧
    (resp M b1 (.verdicts (fun _ => v p) [] []) st).1.sets = rest1 ∧
    (resp M b (.verdicts v [] []) st).1.sets = rest := by
  obtain ⟨a0, a1, a2, a3, a4, a5, a6⟩ := handle_proj_parts M { b with sets := rest } { b1 with sets := rest1 } sent v p
    hne h1 h2 h3 h4
  obtain ⟨r0, r1, r2, r3, r4, r5, r6⟩ := recheck_proj M _ _ _ _ st p a1 a2 a3 a4 a0
  simp only [resp, hs, hs1]
  exact ⟨r0, r1, r2, r3, r4, r5.trans a5, r6.trans a6⟩

/-- non-vacuity: a set with a message of partition 0 and one of partition 1, answer `ok` for 0 and retriable for 1,
    seen from partition 0 -/
example : ((resp 2 { sets := [[⟨5, 0, 0, .data⟩, ⟨6, 1, 0, .data⟩]] }
      (.verdicts (fun q => if q = 1 then .retriable else .ok) [] []) false).2.filter (isOwn 0)).map relabA =
    [Action.succ 5 0] ∧
    (resp 2 { sets := [[⟨5, 0, 0, .data⟩]] } (.verdicts (fun _ => .ok) [] []) false).2.filter (isOwn 0) =
    [Action.succ 5 0] := by decide

end Props.C02sys
