/-
  C02 composition, stage C: a CONNECTION ERROR for a HIDDEN set (the set holds nothing of `p`, the one-partition
  worker has no set at its bridge) while nothing of `p` is buffered or held.  The worker with several partitions goes
  to closing mode; for `p`:
    * `proj_deliver_hidden_conn_closeW_p`  - the worker is `p`'s current worker, in normal mode, syn consumed, `p` not
      in retry mode: this is the `Choice.closeW w` step of `Model.Pipeline` (`canClose` holds).
    * `proj_deliver_hidden_conn_closing_p` - the worker is already closing: NO step.
  Both keep `WRel (BRp p)`.  They are wired into the widened side condition and computed projection of
  Props/C02multiK2.lean (`delOK2`, `projChoice2`); `delOK` / `projChoice` themselves are unchanged.
  (If the worker is in normal mode but is not `p`'s current worker, or `p` is in retry mode there, `BRp` - which
  equates the closing modes - cannot be kept by either of the two: not covered.)
-/
import SaramaVerif.Props.C02multiK

set_option linter.unusedSimpArgs false
set_option linter.unusedVariables false

namespace Props.C02sys
open Model Model.Pipeline Model.PipelineN Model.BrokerProd Lemmas.C02sys

/-- worker level: a connection error for a set without messages of `p`, nothing of `p` buffered or held -/
theorem resp_hidden_conn (M : Nat) (b : St) (sent : List Pipeline.Tok) (rest : List (List Pipeline.Tok)) (st : Bool)
    (p : Int) (hs : b.sets = sent :: rest) (he : onPart p sent = []) (hbuf : onPart p b.buffer = [])
    (hw : ∀ t, b.wait = some t → t.part ≠ p) :
    (resp M b (.connErr [] []) st).2.filter (isOwn p) = [] ∧
    (resp M b (.connErr [] []) st).1.sets = rest ∧
    (resp M b (.connErr [] []) st).1.closing = true ∧
    (resp M b (.connErr [] []) st).1.cr = b.cr ∧
    (resp M b (.connErr [] []) st).1.buffer = [] ∧
    (resp M b (.connErr [] []) st).1.wait = none := by
  have a1 := Props.C02bp.onPart_arrange_all p [] sent
  have a2 := Props.C02bp.onPart_arrange_all p [] b.buffer
  simp only [List.nil_append] at a1 a2
  have hA : (Action.closing :: Action.abandon :: retryMsgs M (arrange (partsOf sent) sent) ++
      retryMsgs M (arrange (partsOf b.buffer) b.buffer)).filter (isOwn p) = [] := by
    have eR : (Action.closing :: Action.abandon :: retryMsgs M (arrange (partsOf sent) sent) ++
        retryMsgs M (arrange (partsOf b.buffer) b.buffer)) =
        [Action.closing, Action.abandon] ++ (retryMsgs M (arrange (partsOf sent) sent) ++
        retryMsgs M (arrange (partsOf b.buffer) b.buffer)) := by simp
    have hd' : ([Action.closing, Action.abandon] : List Action).filter (isOwn p) = [] := by simp [isOwn]
    rw [eR, List.filter_append, List.filter_append, hd', own_retryMsgs_onPart, own_retryMsgs_onPart, a1, a2, he, hbuf]
    rfl
  simp only [resp, hs, handle, List.nil_append]
  cases hwt : b.wait with
  | none =>
    simp only [recheck, hwt]
    exact ⟨hA, by first | trivial | rfl, by first | trivial | rfl, by first | trivial | rfl,
      by first | trivial | rfl, by first | trivial | rfl⟩
  | some t =>
    have htp := hw t hwt
    simp only [recheck, hwt, needsRetry, Bool.true_or, ↓reduceIte]
    refine ⟨?_, by first | trivial | rfl, by first | trivial | rfl, by first | trivial | rfl,
      by first | trivial | rfl, by first | trivial | rfl⟩
    rw [List.filter_append, hA, own_of_foreign (foreign_retryMsg M htp)]; rfl

/-- the hidden connection error, for any one-partition inner state `B1` that is closing and otherwise as before (no
    set, nothing buffered, nothing held) -/
theorem proj_deliver_hidden_conn_core {M : Nat} {p : Int} {sN sN' : SysN} {s : Sys} {w : Nat} {still : Bool}
    {a : Bool} {base : Int → Nat} {sent : List Pipeline.Tok} {rest : List (List Pipeline.Tok)} (B1 : St)
    (h : WRel (BRp p) p sN s) (hpd : (sN.wk w).pend = some (.conn a, base))
    (hsets : (sN.wk w).bp.sets = sent :: rest) (he : projL p sent = [])
    (hbuf : projL p (sN.wk w).bp.buffer = []) (hwt : projWait p (sN.wk w).bp.wait = none)
    (hj : (s.wk w).bp.sets = [])
    (hB1 : B1.closing = true ∧ B1.cr = (s.wk w).bp.cr ∧ B1.buffer = [] ∧ B1.wait = none ∧ B1.sets = [])
    (hs : sysStepN M sN (.deliver w still) = some sN') :
    WRel (BRp p) p sN' { s with wk := setW s.wk w ⟨(s.wk w).inq, B1, none⟩ } := by
  obtain ⟨hid, hb, hs1, hhid, hk0, hpend⟩ := h.br w
  cases hid with
  | false => rw [hj, hsets] at hs1; simp at hs1
  | true =>
    obtain ⟨a1, a2, a3, a4⟩ := brp_fields hb
    have he' : onPart p sent = [] := by simpa [projL] using he
    have hbuf' : onPart p (sN.wk w).bp.buffer = [] := by simpa [projL] using hbuf
    have hw' : ∀ t, (sN.wk w).bp.wait = some t → t.part ≠ p := by
      intro t ht hp; simp [projWait, ht, hp] at hwt
    obtain ⟨c0, c1, c2, c3, c4, c5⟩ := resp_hidden_conn M (sN.wk w).bp sent rest still p hsets he' hbuf' hw'
    simp only [sysStepN, hpd, bpRunN, RespN.toResp, step] at hs
    by_cases hdd : (resp M (sN.wk w).bp (.connErr [] []) still).2 = [Action.disabled]
    · simp [hdd] at hs
    · simp only [hdd, ↓reduceIte] at hs
      cases hs
      have hq0 : QRel p { sN with wk := setWN sN.wk w ⟨(sN.wk w).inq, (resp M (sN.wk w).bp (.connErr [] []) still).1, none⟩ } { s with wk := setW s.wk w ⟨(s.wk w).inq, B1, none⟩ } :=
        ⟨h.q.next, h.q.dq, h.q.pq, h.q.pp, h.q.ret, h.q.ldr, h.q.log, h.q.succ, h.q.errs, h.q.pqp⟩
      obtain ⟨r1, r2, r3, r4, r5⟩ := bpActsN_mixed (resp M (sN.wk w).bp (.connErr [] []) still).2 base hq0
      rw [c0] at r1 r4 r5
      simp only [List.map_nil, bpActs] at r1 r4 r5
      refine ⟨r1, by rw [r3]; exact h.cur, fun k => ?_, fun k => ?_⟩
      · rw [r2]
        by_cases hk : k = w
        · subst hk; simp only [setW, setWN, if_true]; exact h.inq k
        · simp only [setW, setWN, hk, if_false]; exact h.inq k
      · rw [r2]
        by_cases hk : k = w
        · subst hk
          simp only [setW, setWN, if_true]
          obtain ⟨b1, b2, b3, b4, b5⟩ := hB1
          have hbn : B1 = ({ projB p (resp M (sN.wk k).bp (.connErr [] []) still).1 with sets := B1.sets, stale := B1.stale } : St) := by
            refine brp_mk _ _ (by rw [b1, c2]) ?_ (by rw [b3, c4]; rfl) (by rw [b4, c5]; rfl)
            rw [b2, a2]; funext q; simp [projB, c3]
          cases rest with
          | nil =>
            exact ⟨false, hbn, by rw [c1]; simpa using b5, (fun e => by cases e), (fun _ => rfl), rfl⟩
          | cons x xs =>
            refine ⟨true, hbn, by simpa using b5, fun _ => ⟨by rw [c1]; exact List.cons_ne_nil _ _, fun y hy => ?_⟩,
              (fun e => absurd (c1 ▸ e) (List.cons_ne_nil _ _)), rfl⟩
            rw [c1] at hy
            exact (hhid rfl).2 y (by rw [hsets]; exact List.mem_cons_of_mem _ hy)
        · simp only [setW, setWN, hk, if_false]; exact h.br k

/-- **a connection error for a hidden set, the worker is `p`'s current worker in normal mode and holds nothing of
    `p`: the `closeW` step** -/
theorem proj_deliver_hidden_conn_closeW_p {M : Nat} {p : Int} {sN sN' : SysN} {s : Sys} {w : Nat} {still : Bool}
    {a : Bool} {base : Int → Nat} {sent : List Pipeline.Tok} {rest : List (List Pipeline.Tok)}
    (h : WRel (BRp p) p sN s) (hpd : (sN.wk w).pend = some (.conn a, base))
    (hsets : (sN.wk w).bp.sets = sent :: rest) (he : projL p sent = [])
    (hbuf : projL p (sN.wk w).bp.buffer = []) (hwt : projWait p (sN.wk w).bp.wait = none)
    (hj : (s.wk w).bp.sets = [])
    (hcur : sN.cur p = some w) (hsyn : headSyn (projQ p (sN.wk w).inq) = false)
    (hcl : (sN.wk w).bp.closing = false) (hcr : (sN.wk w).bp.cr p = false)
    (hs : sysStepN M sN (.deliver w still) = some sN') :
    ∃ s', sysStep M s (.closeW w) = some s' ∧ WRel (BRp p) p sN' s' := by
  obtain ⟨hid, hb, hs1, hhid, hk0, hpend⟩ := h.br w
  obtain ⟨a1, a2, a3, a4⟩ := brp_fields hb
  have hidt : hid = true := by
    cases hid with
    | true => rfl
    | false => rw [hj, hsets] at hs1; simp at hs1
  subst hidt
  have hjp : (s.wk w).pend = none := by simpa using hpend
  have hcan : canClose s w = true := by
    simp only [canClose, Bool.and_eq_true, decide_eq_true_eq, Bool.not_eq_true']
    refine ⟨⟨⟨⟨⟨⟨⟨?_, ?_⟩, ?_⟩, ?_⟩, ?_⟩, ?_⟩, ?_⟩, ?_⟩
    · rw [h.cur, hcur]
    · rw [h.inq w]; exact hsyn
    · rw [a1]; exact hcl
    · rw [a2]; simpa [projB] using hcr
    · rw [hj]; rfl
    · rw [a3, hbuf]; rfl
    · rw [a4, hwt]; rfl
    · rw [hjp]; rfl
  refine ⟨{ s with wk := setW s.wk w ⟨(s.wk w).inq, closeBp (s.wk w).bp, none⟩ }, by simp only [sysStep, hcan, if_true], ?_⟩
  exact proj_deliver_hidden_conn_core (closeBp (s.wk w).bp) h hpd hsets he hbuf hwt hj
    ⟨rfl, rfl, by show (s.wk w).bp.buffer = []; rw [a3, hbuf], by show (s.wk w).bp.wait = none; rw [a4, hwt], hj⟩ hs

/-- **a connection error for a hidden set, the worker is already closing and holds nothing of `p`: no step** -/
theorem proj_deliver_hidden_conn_closing_p {M : Nat} {p : Int} {sN sN' : SysN} {s : Sys} {w : Nat} {still : Bool}
    {a : Bool} {base : Int → Nat} {sent : List Pipeline.Tok} {rest : List (List Pipeline.Tok)}
    (h : WRel (BRp p) p sN s) (hpd : (sN.wk w).pend = some (.conn a, base))
    (hsets : (sN.wk w).bp.sets = sent :: rest) (he : projL p sent = [])
    (hbuf : projL p (sN.wk w).bp.buffer = []) (hwt : projWait p (sN.wk w).bp.wait = none)
    (hj : (s.wk w).bp.sets = []) (hcl : (sN.wk w).bp.closing = true)
    (hs : sysStepN M sN (.deliver w still) = some sN') : WRel (BRp p) p sN' s := by
  obtain ⟨hid, hb, hs1, hhid, hk0, hpend⟩ := h.br w
  obtain ⟨a1, a2, a3, a4⟩ := brp_fields hb
  have hidt : hid = true := by
    cases hid with
    | true => rfl
    | false => rw [hj, hsets] at hs1; simp at hs1
  subst hidt
  have hjp : (s.wk w).pend = none := by simpa using hpend
  have W := proj_deliver_hidden_conn_core (s.wk w).bp h hpd hsets he hbuf hwt hj
    ⟨by rw [a1, hcl], rfl, by rw [a3, hbuf], by rw [a4, hwt], hj⟩ hs
  refine ⟨⟨W.q.next, W.q.dq, W.q.pq, W.q.pp, W.q.ret, W.q.ldr, W.q.log, W.q.succ, W.q.errs, W.q.pqp⟩, W.cur,
    fun k => ?_, fun k => ?_⟩
  · have := W.inq k
    by_cases hk : k = w
    · subst hk; simp only [setW, if_true] at this; exact this
    · simp only [setW, hk, if_false] at this; exact this
  · have := W.br k
    by_cases hk : k = w
    · subst hk
      simp only [setW, if_true] at this
      exact innerOnly_BRp p (sN'.wk k) (sN'.wk k) ⟨(s.wk k).inq, (s.wk k).bp, none⟩ (s.wk k) rfl rfl rfl hjp this
    · simp only [setW, hk, if_false] at this; exact this

/-! ### non-vacuity: a connection error for a set of partition 1 on worker 0, which is also the current worker of
      partition 0 (its syn consumed, nothing of partition 0 there): `closeW` is enabled in the projection -/

def exForeignConn : List ChoiceN :=
  [.submit 0, .dispatch, .ppRecv 0 [some 0], .bpRecv 0 false, .bpRecv 0 false, .handover 0,
   .broker 0 (.parts (fun _ => .ok)), .deliver 0 false,
   .submit 1, .dispatch, .ppRecv 1 [some 0], .bpRecv 0 false, .bpRecv 0 false, .handover 0,
   .broker 0 (.conn false), .deliver 0 false]

example : (runN 2 {} exForeignConn).map (fun s => ((s.wk 0).bp.closing, s.cur 0, s.log 0, s.succ 0)) =
    some (true, some 0, [0], [(0, 0)]) := by decide

end Props.C02sys
