import SaramaVerif.Model.BalanceRange
import SaramaVerif.Model.BalanceRoundRobin
import SaramaVerif.Lemmas.C13Range
import SaramaVerif.Lemmas.C13RR
import SaramaVerif.Lemmas.C13Sticky
/-
  C13 — assignments are balanced, and the sticky strategy is sticky.
  Property theorems only; helper developments are in Lemmas/C13*.lean (and Lemmas/C08*.lean).
-/
namespace Props.C13
open Model.Balance

/-! ## Range -/

/-- For ANY bounds satisfying the relational spec: every slice has ⌊n/m⌋ or ⌈n/m⌉ partitions (never one less or
    one more, also when m divides n), any two slices differ by at most one, and a slice is a contiguous run of
    the topic's partition list. -/
theorem range_sizes (n m : Nat) (r : Nat → Nat) (hb : RangeBoundary n m r) (ps : List Int) (hn : ps.length = n)
    (i : Nat) (hi : i < m) :
    n / m ≤ (slice r ps i).length ∧ (slice r ps i).length ≤ (n + m - 1) / m ∧
    (∀ j, j < m → (slice r ps i).length ≤ (slice r ps j).length + 1) ∧
    isRun ps (slice r ps i) = true := by
  have hm : 0 < m := by omega
  have hsz := hb.size_bounds hi
  rw [slice_length hb hn hi]
  refine ⟨?_, ?_, ?_, slice_isRun hb hn hi⟩
  · apply Nat.le_of_lt_succ
    rw [Nat.div_lt_iff_lt_mul hm, Nat.succ_mul]
    exact hsz.2
  · rw [Nat.le_div_iff_mul_le hm]
    omega
  · intro j hj
    rw [slice_length hb hn hj]
    have hsj := hb.size_bounds hj
    have h1 : (r (i + 1) - r i) * m < (r (j + 1) - r j + 2) * m := by
      rw [Nat.add_mul]; omega
    have := Nat.lt_of_mul_lt_mul_right h1
    omega

/-- plan level: for a topic whose subscriber list has no duplicate, the member at position k of the list holds
    exactly slice k — so the subscribers of the topic hold contiguous runs whose sizes differ by at most one —
    whatever the iteration order of the members-by-topic map and whatever the other topics do. -/
theorem range_plan_sizes (ts : Topics) (mbt : AL Member) (r : Topic → Nat → Nat) (t : Topic) (ms : List Member)
    (hk : (AL.keys mbt).Nodup) (hmem : (t, ms) ∈ mbt) (hms : ms.Nodup)
    (hb : RangeBoundary (partsOf ts t).length ms.length (r t)) :
    ∀ k (hk1 : k < ms.length),
      heldOf (rangePlan r ts mbt []) ms[k] t = slice (r t) (partsOf ts t) k ∧
      isRun (partsOf ts t) (heldOf (rangePlan r ts mbt []) ms[k] t) = true ∧
      ∀ k' (hk2 : k' < ms.length),
        (heldOf (rangePlan r ts mbt []) ms[k] t).length ≤ (heldOf (rangePlan r ts mbt []) ms[k'] t).length + 1 := by
  intro k hk1
  have hheld : ∀ k (h : k < ms.length), heldOf (rangePlan r ts mbt []) ms[k] t = slice (r t) (partsOf ts t) k := by
    intro k h
    have := heldOf_rangePlan r ts t ms[k] ms k hms (List.getElem?_eq_getElem h) mbt [] hk hmem
    simpa [heldOf, AL.get] using this
  have hs := range_sizes _ _ (r t) hb (partsOf ts t) rfl k hk1
  refine ⟨hheld k hk1, ?_, ?_⟩
  · rw [hheld k hk1]; exact hs.2.2.2
  · intro k' hk2
    rw [hheld k hk1, hheld k' hk2]
    exact hs.2.2.1 k' hk2

/-- non-vacuity, incl. the divisible case (6 partitions, 3 members: all sizes exactly 2) and an exact half point -/
example : RangeBoundary 6 3 (fun i => [0, 2, 4, 6].getD i 0) := (rangeBoundaryB_iff _ _ _).mp (by decide)
example : ¬ RangeBoundary 6 3 (fun i => [0, 1, 4, 6].getD i 0) := fun h => by
  have := (rangeBoundaryB_iff _ _ _).mpr h; revert this; decide
example : rangeTopicOK [(1, [0]), (2, [0])] (rangePlan (fun _ i => [0, 3, 5].getD i 0) [(0, [0, 1, 2, 3, 4])] [(0, [2, 1])] [])
    0 [0, 1, 2, 3, 4] = true := by decide

/-! ## Round-robin -/

/-- when every member has every topic that occurs, the cursor never skips: member number k (in memberID order)
    gets ⌊L/n⌋ partitions plus one if k < L mod n; so totals differ by at most one. For every member order and
    every order of the L topic partitions. -/
theorem rr_identical_subs_diff_le_one (ms : Members) (tps : List TP) (hne : ms ≠ [])
    (hids : (ms.map (·.1)).Nodup)
    (hall : ∀ e, e ∈ ms → ∀ tp, tp ∈ tps → e.2.contains tp.1 = true) :
    ∃ plan, rrPlan ms false tps = .plan plan ∧
      (∀ k (hk : k < ms.length), size plan (ms[k]).1 = rrShare ms.length tps.length k) ∧
      spreadLE1 ms plan = true := by
  have hlen : 0 < ms.length := List.length_pos_iff.mpr hne
  -- the loop result does not depend on which member we look at
  cases hl : rrLoop ms ms.length tps 0 [] with
  | none =>
    obtain ⟨out, ho, _⟩ := rrLoop_identical ms hne 0 tps 0 [] hall
    rw [hl] at ho; cases ho
  | some plan =>
    have hsize : ∀ k (hk : k < ms.length), size plan (ms[k]).1 = rrShare ms.length tps.length k := by
      intro k hk
      obtain ⟨out, ho, hs⟩ := rrLoop_identical ms hne (ms[k]).1 tps 0 [] hall
      rw [hl] at ho; injection ho with ho; subst ho
      rw [hs, rrVisits_eq_hits hids hk]
      have := rrHits_share hlen hk tps.length 0
      simp only [rrShare, Nat.zero_div, Nat.zero_mod, Nat.not_lt_zero, ↓reduceIte, Nat.add_zero, Nat.zero_add] at this
      simp only [size, AL.get, List.length_nil, Nat.zero_add, rrShare]
      exact this
    refine ⟨plan, ?_, hsize, ?_⟩
    · unfold rrPlan
      have : ms.isEmpty = false := by cases ms with
        | nil => exact absurd rfl hne
        | cons _ _ => rfl
      simp only [this, Bool.or_self, Bool.false_eq_true, ↓reduceIte, hl]
    · unfold spreadLE1
      simp only [List.all_eq_true, decide_eq_true_eq]
      intro x hx y hy
      obtain ⟨k, hk, rfl⟩ := List.getElem_of_mem hx
      obtain ⟨k', hk', rfl⟩ := List.getElem_of_mem hy
      rw [hsize k hk, hsize k' hk']
      unfold rrShare
      split <;> split <;> omega

/-- the hypothesis of `rr_identical_subs_diff_le_one` from the executable predicate: identical subscription
    sets and every occurring topic has some subscriber -/
theorem identicalSubs_all (ms : Members) (tps : List TP) (hi : identicalSubs ms = true)
    (hsub : ∀ tp, tp ∈ tps → hasSubscriber ms tp.1 = true) :
    ∀ e, e ∈ ms → ∀ tp, tp ∈ tps → e.2.contains tp.1 = true := by
  intro e he tp htp
  cases ms with
  | nil => simp at he
  | cons e0 rest =>
    simp only [identicalSubs, List.all_eq_true, sameSet, Bool.and_eq_true] at hi
    have hs := hsub tp htp
    unfold hasSubscriber at hs
    rw [List.any_eq_true] at hs
    obtain ⟨e', he', hc'⟩ := hs
    -- e' has the topic, so the head has it, so e has it
    have h0 : e0.2.contains tp.1 = true := (hi e' he').1 tp.1 (List.contains_iff_mem.mp hc')
    exact (hi e he).2 tp.1 (List.contains_iff_mem.mp h0)

/-- non-vacuity: 3 members with the same two topics (listed in different orders), 7 topic partitions: 3,2,2 -/
example : rrPlan [(1, [0, 1]), (2, [1, 0]), (3, [0, 1])] false
      [(0, 0), (0, 1), (0, 2), (0, 3), (1, 0), (1, 1), (1, 2)] =
    .plan [(1, [(0, 0), (0, 3), (1, 2)]), (2, [(0, 1), (1, 0)]), (3, [(0, 2), (1, 1)])] := by decide

/-- the statement cannot be strengthened to "any two members with equal subscriptions differ by at most one":
    members 1 and 3 both have topics {1,3,5,7}, member 2 has {2,4,6}; one partition each; member 1 gets 1, member 3
    gets 3 (this is Kafka's round-robin behaviour as well, not a defect of the Go code). -/
example : rrPlan [(1, [1, 3, 5, 7]), (2, [2, 4, 6]), (3, [1, 3, 5, 7])] false
      [(1, 0), (2, 0), (3, 0), (4, 0), (5, 0), (6, 0), (7, 0)] =
    .plan [(1, [(1, 0)]), (2, [(2, 0), (4, 0), (6, 0)]), (3, [(3, 0), (5, 0), (7, 0)])] := by decide

/-! ## Sticky -/

/-- SOUNDNESS of `isBalanced` (the test that stops `performReassignments`): on a working assignment with pairwise
    disjoint duplicate-free lists in which everybody holds only what it may hold (the invariant `sticky_invariant`
    of C08 provides exactly that), a `true` answer implies Kafka's balance criterion: a member holding a partition
    another member could take has at most one partition more than that member. -/
theorem sticky_isBalanced_sound (cur pot : Asg) (hone : ∀ p, AL.countAll cur p ≤ 1)
    (hholds : PlanAll (fun m tp => tp ∈ AL.get pot m) cur) (hb : isBalanced cur pot = true) :
    ∀ a b, a ∈ AL.keys cur → b ∈ AL.keys cur → a ≠ b →
      ∀ p, p ∈ AL.get cur a → p ∈ AL.get pot b → sizeIn cur a ≤ sizeIn cur b + 1 :=
  isBalanced_sound cur pot hone hholds hb

/-- non-vacuity: sizes 3/1 with the big member holding a partition the small one could take: the test says no;
    sizes 2/2: yes -/
example : isBalanced [(1, [(0, 0), (0, 1), (0, 2)]), (2, [(0, 3)])]
    [(1, [(0, 0), (0, 1), (0, 2), (0, 3)]), (2, [(0, 0), (0, 1), (0, 2), (0, 3)])] = false := by decide
example : isBalanced [(1, [(0, 0), (0, 1)]), (2, [(0, 3), (0, 2)])]
    [(1, [(0, 0), (0, 1), (0, 2), (0, 3)]), (2, [(0, 0), (0, 1), (0, 2), (0, 3)])] = true := by decide

private theorem match_some_ne_nil {L l : List TP} (h : (match L with | [] => none | l => some l) = some l) :
    l ≠ [] := by
  cases L with
  | nil => cases h
  | cons a r => injection h with h; subst h; simp

private theorem exists_actual (mv : Movements) (p : TP) (c new : Member) : ∃ q, actualOK mv p q c new = true := by
  unfold actualOK
  cases h : actualCandidates mv p c new with
  | none => exact ⟨p, by simp⟩
  | some l =>
    cases l with
    | nil =>
      exfalso
      unfold actualCandidates at h
      by_cases h1 : (!(mv.any (fun e => e.1.1 == p.1))) = true
      · rw [if_pos h1] at h; cases h
      · rw [if_neg h1] at h
        exact match_some_ne_nil h rfl
    | cons a r => exact ⟨a, by simp⟩

private theorem runOps_cons_some {v : Variant} {env : SEnv} {st st' : SState} {op : SOp} {r : List SOp}
    (h : runOps v env st (op :: r) = some st') :
    Model.Balance.guard v env st op = true ∧ runOps v env (Model.Balance.apply v env st op) r = some st' := by
  rw [runOps] at h
  by_cases hg : Model.Balance.guard v env st op = true
  · rw [if_pos hg] at h; exact ⟨hg, h⟩
  · rw [if_neg hg] at h; cases h

/-- FIXPOINT: when the "better suited consumer" branch is not enabled for a reassignable partition `p` (for no
    choice of the partition actually moved), then either the balance test passes or the holder of `p` has at most one
    partition more than every member that could take `p` — i.e. a state in which `performReassignments` makes a full
    pass without a move is locally balanced in Kafka's sense. -/
theorem sticky_fixpoint_balanced (v : Variant) (env : SEnv) (st : SState) (hs : st.snap.isSome = true)
    (hr : st.reverted = false) (p : TP) (hp : env.reassignable.contains p = true) (c new : Member)
    (hc : ownerGet st.owner p = some c) (hnew : newConsumerFor st.cur env.pot p = some new)
    (hno : ∀ q, Model.Balance.guard v env st (.moveOther p q) = false) :
    isBalanced st.cur env.pot = true ∨
      ∀ o, o ∈ consumersOf env.pot p → sizeIn st.cur c ≤ sizeIn st.cur o + 1 := by
  cases hb : isBalanced st.cur env.pot with
  | true => exact Or.inl rfl
  | false =>
    right
    intro o ho
    apply Nat.le_of_not_lt
    intro hlt
    obtain ⟨q, hq⟩ := exists_actual st.moves p c new
    have := hno q
    simp only [Model.Balance.guard, hs, hr, hp, hb, hc, hnew, hq, Bool.not_false, Bool.true_and, Bool.and_true,
      List.any_eq_false, decide_eq_false_iff_not, Bool.not_eq_true] at this
    have h2 := this o ho
    simp only [gt_iff_lt] at h2
    omega

/-- while the balance test passes nothing moves, and without a move nothing is reverted (both variants) -/
theorem sticky_balanced_blocks_moves (v : Variant) (env : SEnv) (st : SState)
    (hb : isBalanced st.cur env.pot = true) (p q : TP) :
    Model.Balance.guard v env st (.movePrev p q) = false ∧ Model.Balance.guard v env st (.moveOther p q) = false :=
  balanced_blocks_moves v env st hb p q

/-- RE-PLANNING IS THE IDENTITY, under explicit hypotheses: the working assignment `st0.cur` (= what the members
    report, after the filter loop of `Plan`) leaves nothing unassigned that somebody could take (`hcomplete`: the
    unassigned loop finds no takers), and once the members that cannot take part are parked (any set `ps` the guards
    allow) the balance test passes.  Then the run cannot contain any further operation — no move, no revert — and
    the plan assembled at the end gives every member exactly the list it had.  Both variants. -/
theorem replan_is_identity (v : Variant) (env : SEnv) (st0 : SState)
    (h0 : st0.fixed = []) (h0r : st0.reverted = false) (hnd : (AL.keys st0.cur).Nodup)
    (us : List TP) (hcomplete : ∀ u, u ∈ us → consumersOf env.pot u = [])
    (ps : List Member) (rest : List SOp) (st : SState)
    (hrun : runOps v env st0 (.assignAll us :: (ps.map .park ++ .snapshot :: rest)) = some st)
    (hbal : isBalanced (ps.foldl AL.erase st0.cur) env.pot = true) :
    rest = [] ∧ ∀ m, AL.get (finish v st) m = AL.get st0.cur m := by
  obtain ⟨_, hrun⟩ := runOps_cons_some hrun
  -- the unassigned loop changes nothing
  have hnoop := assignFold_noop env us (st0.cur, st0.owner) hcomplete
  have hst1 : Model.Balance.apply v env st0 (.assignAll us) = { st0 with assigned := true } := by
    simp only [Model.Balance.apply, hnoop]
  rw [hst1] at hrun
  have hnd1 : (AL.keys ({ st0 with assigned := true } : SState).cur ++
      AL.keys ({ st0 with assigned := true } : SState).fixed).Nodup := by
    simp only [h0, AL.keys, List.map_nil, List.append_nil]; exact hnd
  obtain ⟨stp, hrun2, hcur, hsnap, hperf, hrev, hass, _, hmap⟩ :=
    run_parks v env (.snapshot :: rest) ps _ st hnd1 hrun
  simp only at hcur hsnap hperf hrev hass hmap
  obtain ⟨_, hrun2⟩ := runOps_cons_some hrun2
  -- after the snapshot every guard is closed
  have hrest : rest = [] := by
    cases rest with
    | nil => rfl
    | cons op r =>
      exfalso
      obtain ⟨hg, _⟩ := runOps_cons_some hrun2
      have hb' : isBalanced (Model.Balance.apply v env stp .snapshot).cur env.pot = true := by
        simp only [Model.Balance.apply, hcur]; exact hbal
      cases op with
      | assignAll us' => simp [Model.Balance.guard, Model.Balance.apply, hass] at hg
      | park m => simp [Model.Balance.guard, Model.Balance.apply] at hg
      | snapshot => simp [Model.Balance.guard, Model.Balance.apply] at hg
      | movePrev p q => rw [(balanced_blocks_moves v env _ hb' p q).1] at hg; cases hg
      | moveOther p q => rw [(balanced_blocks_moves v env _ hb' p q).2] at hg; cases hg
      | revert => simp [Model.Balance.guard, Model.Balance.apply] at hg
  subst hrest
  simp only [runOps, Option.some.injEq] at hrun2
  subst hrun2
  refine ⟨rfl, ?_⟩
  intro m
  have hfin : finish v (Model.Balance.apply v env stp .snapshot) = addFixed stp.cur stp.fixed := by
    unfold finish
    simp only [Model.Balance.apply, hrev, h0r]
  rw [hfin, hmap m, h0]
  rfl

/-- non-vacuity of `replan_is_identity`: two members with the same topic, plan 2/2 reported back: the run
    [assignAll [], snapshot] is accepted, the balance test passes, the plan is returned as it was -/
example : (runOps .pinned
      { pot := potOf [(1, [0]), (2, [0])] [(0, [0, 1, 2, 3])], prev := [], reassignable := [(0, 0), (0, 1), (0, 2), (0, 3)],
        initializing := false, parts := allParts [(0, [0, 1, 2, 3])] }
      (initState [(1, [0]), (2, [0])] [(0, [0, 1, 2, 3])]
        [((0, 0), 1, none), ((0, 1), 1, none), ((0, 2), 2, none), ((0, 3), 2, none)])
      [.assignAll [], .snapshot]).map (fun st => finish .pinned st) =
    some [(1, [(0, 0), (0, 1)]), (2, [(0, 2), (0, 3)])] := by decide

end Props.C13
