import SaramaVerif.Model.PartProd
import SaramaVerif.Props.C01
/-
  C02 — per-partition submission order survives retries.

  What is proved here (for EVERY arrival sequence at a partition producer, i.e. every fault script and schedule
  that produces it): the partition producer is FIFO per retry level - the data tokens of level ℓ leave it in
  exactly the order in which they arrived, and what has not left yet is exactly what is parked in the level's
  buffer (`pp_level_fifo`); a parked buffer only exists below the current high watermark
  (`parked_only_below_hwm`).  This is the component discipline the ordering argument of DESIGN.md (Appendix D,
  L3/L4) rests on; the composition into the end-to-end statement `log_order` (first copies in submission order)
  is NOT proved - it is decided per run by the oracle on the simulated partition logs - and is stated below as
  a comment.

  Tie: every pp.recv event of the real partitionProducer is replayed through `Model.PartProd.recv` and the
  actions the real code takes next (park / forward or fail / send chaser / consume chaser, with ids and levels)
  must be exactly the model's.
-/
namespace Props.C02
open Model.PartProd

def emitAt (l : Nat) : Action → Option Int
  | .emit id lv false => if lv = l then some id else none
  | _ => none

/-- ids of the data tokens of level `l` that left the partition producer, in order -/
def dataEmits (l : Nat) (as : List Action) : List Int := as.filterMap (emitAt l)

/-- ids of the data tokens of level `l` in an arrival sequence, in order -/
def dataArrivals (l : Nat) (ts : List Tok) : List Int :=
  (ts.filter (fun t => !t.fin && t.retries == l)).map (·.id)

def bufIds (s : St) (l : Nat) : List Int := (s.bufs l).map (·.id)

structure PPInv (s : St) : Prop where
  above : ∀ l, s.hwm ≤ l → s.bufs l = []
  typed : ∀ l, ∀ t ∈ s.bufs l, t.retries = l ∧ t.fin = false

theorem init_inv : PPInv {} := ⟨by intro l _; rfl, by intro l t h; simp at h⟩

private theorem dataEmits_append (l : Nat) (a b : List Action) :
    dataEmits l (a ++ b) = dataEmits l a ++ dataEmits l b := by
  simp [dataEmits, List.filterMap_append]

private theorem dataEmits_buf (l k : Nat) (buf : List Tok) (h : ∀ t ∈ buf, t.retries = k ∧ t.fin = false) :
    dataEmits l (buf.map (fun t => Action.emit t.id t.retries t.fin)) = if k = l then buf.map (·.id) else [] := by
  induction buf with
  | nil => simp [dataEmits]
  | cons t ts ih =>
    have ht := h t (by simp)
    have := ih (fun x hx => h x (by simp [hx]))
    simp only [dataEmits, List.map_cons, List.filterMap_cons] at *
    rw [ht.1, ht.2]
    simp only [emitAt]
    by_cases hk : k = l
    · simp only [hk, ↓reduceIte] at *; rw [this]
    · simp only [hk, ↓reduceIte] at *; exact this

/-- what flushRetryBuffers does, level by level -/
private theorem flush_spec (h : Nat) (bufs : Nat → List Tok) (expect : Nat → Bool)
    (hty : ∀ l, ∀ t ∈ bufs l, t.retries = l ∧ t.fin = false) :
    (flush h bufs expect).1 ≤ h ∧ (0 < h → (flush h bufs expect).1 < h) ∧
    (∀ l, (flush h bufs expect).1 ≤ l → l < h → (flush h bufs expect).2.1 l = []) ∧
    (∀ l, (l < (flush h bufs expect).1 ∨ h ≤ l) → (flush h bufs expect).2.1 l = bufs l) ∧
    (∀ l, dataEmits l (flush h bufs expect).2.2 =
        if (flush h bufs expect).1 ≤ l ∧ l < h then (bufs l).map (·.id) else []) := by
  induction h generalizing bufs with
  | zero => simp [flush, dataEmits]
  | succ h ih =>
    have base : ∀ l, dataEmits l ((bufs h).map (fun t => Action.emit t.id t.retries t.fin)) =
        if h = l then (bufs h).map (·.id) else [] := fun l => dataEmits_buf l h (bufs h) (hty h)
    unfold flush
    by_cases he : expect h = true
    · simp only [he, ↓reduceIte]
      refine ⟨by omega, fun _ => by omega, ?_, ?_, ?_⟩
      · intro l h1 h2; have : l = h := by omega
        subst this; simp [setBuf]
      · intro l hl; have : l ≠ h := by omega
        simp [setBuf, this]
      · intro l; rw [base l]
        by_cases hl : h = l
        · subst hl; simp
        · have : ¬ (h ≤ l ∧ l < h + 1) := by omega
          simp [hl, this]
    · simp only [he, Bool.false_eq_true, ↓reduceIte]
      by_cases h0 : h = 0
      · simp only [h0, ↓reduceIte]
        subst h0
        refine ⟨by omega, fun _ => by omega, ?_, ?_, ?_⟩
        · intro l h1 h2; have : l = 0 := by omega
          subst this; simp [setBuf]
        · intro l hl; have : l ≠ 0 := by omega
          simp [setBuf, this]
        · intro l; rw [base l]
          by_cases hl : 0 = l
          · subst hl; simp
          · have : ¬ (0 ≤ l ∧ l < 0 + 1) := by omega
            simp only [hl, this, ↓reduceIte]
      · simp only [h0, ↓reduceIte]
        have hty' : ∀ l, ∀ t ∈ setBuf bufs h [] l, t.retries = l ∧ t.fin = false := by
          intro l t ht
          by_cases hl : l = h
          · subst hl; simp [setBuf] at ht
          · simp only [setBuf, hl, ↓reduceIte] at ht; exact hty l t ht
        obtain ⟨i1, i2, i3, i4, i5⟩ := ih (setBuf bufs h []) hty'
        have i2' := i2 (by omega)
        refine ⟨by omega, fun _ => by omega, ?_, ?_, ?_⟩
        · intro l h1 h2
          by_cases hl : l < h
          · exact i3 l h1 hl
          · have : l = h := by omega
            subst this
            rw [i4 l (Or.inr (by omega))]; simp [setBuf]
        · intro l hl
          rcases hl with hl | hl
          · rw [i4 l (Or.inl hl)]
            have : l ≠ h := by omega
            simp [setBuf, this]
          · rw [i4 l (Or.inr (by omega))]
            have : l ≠ h := by omega
            simp [setBuf, this]
        · intro l
          rw [dataEmits_append, base l, i5 l]
          by_cases hl : h = l
          · subst hl
            have : ¬ ((flush h (setBuf bufs h []) expect).1 ≤ h ∧ h < h) := by omega
            have h2 : (flush h (setBuf bufs h []) expect).1 ≤ h ∧ h < h + 1 := by omega
            simp [this, h2]
          · simp only [hl, ↓reduceIte, List.nil_append]
            have hb : setBuf bufs h [] l = bufs l := by simp [setBuf, Ne.symm hl]
            rw [hb]
            by_cases hc : (flush h (setBuf bufs h []) expect).1 ≤ l ∧ l < h
            · have : (flush h (setBuf bufs h []) expect).1 ≤ l ∧ l < h + 1 := by omega
              simp [hc, this]
            · have : ¬ ((flush h (setBuf bufs h []) expect).1 ≤ l ∧ l < h + 1) := by omega
              simp [hc, this]

private theorem arrivals_single (l : Nat) (t : Tok) :
    dataArrivals l [t] = if t.fin = false ∧ t.retries = l then [t.id] else [] := by
  simp only [dataArrivals, List.filter_cons, List.filter_nil]
  cases hf : t.fin <;> by_cases hr : t.retries = l <;> simp [hf, hr]

/-- one arrival: per level, (what left) ++ (what is parked afterwards) = (what was parked) ++ (the arrival, if it is
    a data token of that level); and the invariant is kept -/
theorem recv_level (s : St) (t : Tok) (hi : PPInv s) (l : Nat) :
    dataEmits l (recv s t).2 ++ bufIds (recv s t).1 l = bufIds s l ++ dataArrivals l [t] ∧ PPInv (recv s t).1 := by
  rw [arrivals_single]
  unfold recv
  by_cases h1 : t.retries > s.hwm
  · simp only [h1, ↓reduceIte]
    refine ⟨?_, ⟨?_, hi.typed⟩⟩
    · simp only [dataEmits, List.filterMap_cons, emitAt, List.filterMap_nil, bufIds]
      cases hf : t.fin
      · by_cases hl : t.retries = l
        · have : s.bufs l = [] := hi.above l (by omega)
          simp [hl, this]
        · simp [hl]
      · simp
    · intro k hk; exact hi.above k (by simp only at hk; omega)
  · simp only [h1, ↓reduceIte]
    by_cases h2 : s.hwm > 0
    · simp only [h2, ↓reduceIte]
      by_cases h3 : t.retries < s.hwm
      · simp only [h3, ↓reduceIte]
        cases hf : t.fin
        · -- parked
          simp only [Bool.false_eq_true, ↓reduceIte]
          refine ⟨?_, ⟨?_, ?_⟩⟩
          · simp only [dataEmits, List.filterMap_cons, emitAt, List.filterMap_nil, bufIds, List.nil_append, setBuf, true_and]
            by_cases hl : t.retries = l
            · subst hl; simp
            · have : ¬ (l = t.retries) := fun e => hl e.symm
              simp [hl, this]
          · intro k hk
            have : k ≠ t.retries := by simp only at hk; omega
            simp only [setBuf, this, ↓reduceIte]; exact hi.above k hk
          · intro k x hx
            by_cases hk : k = t.retries
            · subst hk
              simp only [setBuf, ↓reduceIte, List.mem_append, List.mem_singleton] at hx
              rcases hx with hx | rfl
              · exact hi.typed _ x hx
              · exact ⟨rfl, hf⟩
            · simp only [setBuf, hk, ↓reduceIte] at hx; exact hi.typed k x hx
        · -- a chaser of a lower level: consumed
          simp only [↓reduceIte]
          refine ⟨by simp [dataEmits, emitAt, bufIds], ⟨hi.above, hi.typed⟩⟩
      · simp only [h3, ↓reduceIte]
        cases hf : t.fin
        · -- data token of the current level: goes straight on
          simp only [Bool.false_eq_true, ↓reduceIte]
          refine ⟨?_, hi⟩
          have hr : t.retries = s.hwm := by omega
          simp only [dataEmits, List.filterMap_cons, emitAt, List.filterMap_nil, bufIds, true_and]
          by_cases hl : t.retries = l
          · have : s.bufs l = [] := hi.above l (by omega)
            simp [hl, this]
          · simp [hl]
        · -- the chaser of the current level: flush downwards
          simp only [↓reduceIte]
          obtain ⟨f1, f2, f3, f4, f5⟩ := flush_spec s.hwm s.bufs (setExp s.expect s.hwm false) hi.typed
          have f2' := f2 h2
          refine ⟨?_, ⟨?_, ?_⟩⟩
          · have : dataEmits l (Action.finDone :: (flush s.hwm s.bufs (setExp s.expect s.hwm false)).2.2) =
                dataEmits l (flush s.hwm s.bufs (setExp s.expect s.hwm false)).2.2 := by
              simp only [dataEmits, List.filterMap_cons, emitAt]
            rw [this, f5 l]
            simp only [bufIds, Bool.true_eq_false, false_and, ↓reduceIte, List.append_nil]
            by_cases hc : (flush s.hwm s.bufs (setExp s.expect s.hwm false)).1 ≤ l ∧ l < s.hwm
            · simp only [hc, and_self, ↓reduceIte]
              rw [f3 l hc.1 hc.2]; simp
            · simp only [hc, ↓reduceIte, List.nil_append]
              rw [f4 l (by omega)]
          · intro k hk
            simp only at hk ⊢
            by_cases hkh : k < s.hwm
            · exact f3 k hk hkh
            · rw [f4 k (Or.inr (by omega))]; exact hi.above k (by omega)
          · intro k x hx
            simp only at hx
            by_cases hc : (flush s.hwm s.bufs (setExp s.expect s.hwm false)).1 ≤ k ∧ k < s.hwm
            · rw [f3 k hc.1 hc.2] at hx; simp at hx
            · rw [f4 k (by omega)] at hx; exact hi.typed k x hx
    · -- no retry in progress: everything goes straight on
      simp only [h2, ↓reduceIte]
      refine ⟨?_, hi⟩
      have hr : t.retries = 0 := by omega
      have hh : s.hwm = 0 := by omega
      simp only [dataEmits, List.filterMap_cons, emitAt, List.filterMap_nil, bufIds]
      cases hf : t.fin
      · by_cases hl : t.retries = l
        · have : s.bufs l = [] := hi.above l (by omega)
          simp [hl, this]
        · simp [hl]
      · simp

/-- **Per-level FIFO** for every arrival sequence: the data tokens of a level leave the partition producer in
    arrival order, and the ones that have not left are exactly the parked ones (a suffix of the arrivals). -/
theorem pp_level_fifo (ts : List Tok) (l : Nat) :
    dataEmits l (runAll {} ts).2 ++ bufIds (runAll {} ts).1 l = dataArrivals l ts := by
  suffices ∀ (s : St), PPInv s →
      dataEmits l (runAll s ts).2 ++ bufIds (runAll s ts).1 l = bufIds s l ++ dataArrivals l ts ∧ PPInv (runAll s ts).1 by
    have := (this {} init_inv).1
    simpa [bufIds] using this
  induction ts with
  | nil => intro s hi; simp [runAll, dataEmits, dataArrivals, hi]
  | cons t ts ih =>
    intro s hi
    obtain ⟨h1, h2⟩ := recv_level s t hi l
    obtain ⟨h3, h4⟩ := ih (recv s t).1 h2
    refine ⟨?_, by simpa [runAll] using h4⟩
    simp only [runAll, dataEmits_append]
    have hsplit : dataArrivals l (t :: ts) = dataArrivals l [t] ++ dataArrivals l ts := by
      simp [dataArrivals, List.filter_cons]; split <;> simp
    rw [hsplit, List.append_assoc, h3, ← List.append_assoc, h1, List.append_assoc]

/-- in every reachable state parked tokens exist only strictly below the level that is currently let through -/
theorem runAll_inv (ts : List Tok) : ∀ (s : St), PPInv s → PPInv (runAll s ts).1 := by
  induction ts with
  | nil => intro s hi; simpa [runAll] using hi
  | cons t ts ih => intro s hi; simpa [runAll] using ih _ (recv_level s t hi 0).2

theorem parked_only_below_hwm (ts : List Tok) (l : Nat) (h : (runAll {} ts).1.hwm ≤ l) :
    (runAll {} ts).1.bufs l = [] := (runAll_inv ts {} init_inv).above l h


/-! ### the repaired dispatch (`recvG`): a token of a new level whose leader look-up fails is failed on the spot -/

theorem recvG_level (s : St) (t : Tok) (a : Bool) (hi : PPInv s) (l : Nat) :
    dataEmits l (recvG s t a).2 ++ bufIds (recvG s t a).1 l = bufIds s l ++ dataArrivals l [t] ∧ PPInv (recvG s t a).1 := by
  unfold recvG
  by_cases h : t.retries > s.hwm ∧ a = false
  · simp only [h, and_self, ↓reduceIte]
    refine ⟨?_, hi⟩
    rw [arrivals_single]
    simp only [dataEmits, List.filterMap_cons, emitAt, List.filterMap_nil, bufIds]
    cases hf : t.fin
    · by_cases hl : t.retries = l
      · have : s.bufs l = [] := hi.above l (by omega)
        simp [hl, this]
      · simp [hl]
    · simp
  · simp only [h, ↓reduceIte]
    exact recv_level s t hi l

/-- **Per-level FIFO, repaired dispatch**: for every arrival sequence and every outcome of the leader look-ups -/
theorem pp_level_fifo_G (ts : List (Tok × Bool)) (l : Nat) :
    dataEmits l (runAllG {} ts).2 ++ bufIds (runAllG {} ts).1 l = dataArrivals l (ts.map (·.1)) := by
  suffices ∀ (s : St), PPInv s →
      dataEmits l (runAllG s ts).2 ++ bufIds (runAllG s ts).1 l = bufIds s l ++ dataArrivals l (ts.map (·.1)) ∧ PPInv (runAllG s ts).1 by
    have := (this {} init_inv).1
    simpa [bufIds] using this
  induction ts with
  | nil => intro s hi; simp [runAllG, dataEmits, dataArrivals, hi]
  | cons ta ts ih =>
    obtain ⟨t, a⟩ := ta
    intro s hi
    obtain ⟨h1, h2⟩ := recvG_level s t a hi l
    obtain ⟨h3, h4⟩ := ih (recvG s t a).1 h2
    refine ⟨?_, by simpa [runAllG] using h4⟩
    simp only [runAllG, dataEmits_append, List.map_cons]
    have hsplit : dataArrivals l (t :: ts.map (·.1)) = dataArrivals l [t] ++ dataArrivals l (ts.map (·.1)) := by
      simp [dataArrivals, List.filter_cons]; split <;> simp
    rw [hsplit, List.append_assoc, h3, ← List.append_assoc, h1, List.append_assoc]

theorem runAllG_inv (ts : List (Tok × Bool)) : ∀ (s : St), PPInv s → PPInv (runAllG s ts).1 := by
  induction ts with
  | nil => intro s hi; simpa [runAllG] using hi
  | cons ta ts ih => obtain ⟨t, a⟩ := ta; intro s hi; simpa [runAllG] using ih _ (recvG_level s t a hi 0).2

theorem parked_only_below_hwm_G (ts : List (Tok × Bool)) (l : Nat) (h : (runAllG {} ts).1.hwm ≤ l) :
    (runAllG {} ts).1.bufs l = [] := (runAllG_inv ts {} init_inv).above l h

/- The end-to-end statement (not proved; decided per run by the oracle on the simulated partition logs):
     log_order: for two messages a, b of one partition submitted in this order by one goroutine,
       (i)  both successful → offset a < offset b;
       (ii) the first copy of a precedes the first copy of b in the partition log.
   The proved lemmas above are L3/L4 of DESIGN.md Appendix D for the partition producer; the broker-worker
   lemmas (L2) and the composition are open. -/

/-! non-vacuity: a retry at level 1 with fresh input arriving meanwhile; the parked fresh message leaves after
    the retried one, in arrival order of its level -/
example :
    let ts := [⟨1, 0, false⟩, ⟨2, 0, false⟩, ⟨1, 1, false⟩, ⟨3, 0, false⟩, ⟨2, 1, false⟩, ⟨-1, 1, true⟩, ⟨4, 0, false⟩]
    (runAll {} ts).2 = [.emit 1 0 false, .emit 2 0 false, .finSend 0, .emit 1 1 false, .park 3, .emit 2 1 false,
                        .finDone, .emit 3 0 false, .emit 4 0 false] := by decide

end Props.C02
