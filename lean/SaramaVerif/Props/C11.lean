import SaramaVerif.Lemmas.C11Resp
import SaramaVerif.Lemmas.C11Index
/-
  C11 — read-committed consumers never see aborted or control records.

  `L : List LUnit` is an arbitrary transactional partition log (several producers, overlapping transactions,
  the same producer aborting and committing in turn, non-transactional batches and legacy messages in between),
  well-formed (`LogWF`, `BaseWF`).  Ground truth (`Model.Txn.keepRC`): a transactional data batch is hidden
  from a read-committed consumer iff the first control batch of its producer after it is an abort marker;
  control batches are never visible.  A response is `FaithfulTxnData`: a run of consecutive units of the log that
  begins with the first unit reaching the asked offset (any fetch boundary, any start offset – also inside a
  transaction), with an aborted-transaction index that is `FaithfulIndex` for the fetched range: membership
  only, i.e. in ANY order (every permutation), with or without duplicates or later transactions.
-/
namespace Props.C11
open Model.ConsumerParse Model.Txn Lemmas.C03 Lemmas.C11

/-- a faithful index exists for every log and fetch: the hypothesis below is satisfiable for all inputs -/
theorem faithful_index_exists (L : List LUnit) (o hiEnd : Int) : ∃ idx, FaithfulIndex L o hiEnd idx :=
  ⟨brokerIndex L o hiEnd, brokerIndex_faithful L o hiEnd⟩

/-- faithfulness of an index does not depend on its order: every permutation of a faithful index is faithful -/
theorem faithfulIndex_perm {L : List LUnit} {o hiEnd : Int} {idx idx' : List (Int × Int)} (hp : idx.Perm idx')
    (h : FaithfulIndex L o hiEnd idx) : FaithfulIndex L o hiEnd idx' :=
  ⟨fun p f m a b c => hp.mem_iff.1 (h.1 p f m a b c), fun p f hin hle => h.2 p f (hp.mem_iff.2 hin) hle⟩

/-- what `visibleIso` contains: exactly the records of the units the ground truth keeps -/
theorem visibleIso_mem (rc tsw : Bool) (m : SRec) : ∀ (L : List LUnit), m ∈ visibleIso rc tsw L ↔
    ∃ A u S, L = A ++ u :: S ∧ keepIso rc u S = true ∧ m ∈ unitRecs tsw u
  | [] => by simp [visibleIso, annot]
  | u :: us => by
      have ih := visibleIso_mem rc tsw m us
      simp only [visibleIso, annot, List.flatMap_cons, List.mem_append] at ih ⊢
      rw [ih]
      constructor
      · rintro (h | ⟨A, v, S, hL, hk, hm⟩)
        · by_cases hk : keepIso rc u us = true
          · exact ⟨[], u, us, rfl, hk, by simpa [hk] using h⟩
          · simp [hk] at h
        · exact ⟨u :: A, v, S, by simp [hL], hk, hm⟩
      · rintro ⟨A, v, S, hL, hk, hm⟩
        cases A with
        | nil =>
          simp only [List.nil_append, List.cons.injEq] at hL
          obtain ⟨rfl, rfl⟩ := hL
          left; simpa [hk] using hm
        | cons a A' =>
          simp only [List.cons_append, List.cons.injEq] at hL
          exact Or.inr ⟨A', v, S, hL.2, hk, hm⟩

/-- under read-uncommitted the visible records are all data records, whatever the outcome of their transaction -/
theorem visibleIso_uncommitted (tsw : Bool) : ∀ (L : List LUnit), visibleIso false tsw L = visible tsw L
  | [] => rfl
  | u :: us => by
      have ih := visibleIso_uncommitted tsw us
      simp only [visibleIso, visible, annot, List.flatMap_cons, keepIso] at ih ⊢
      rw [ih]
      cases h : unitIsControl u <;> simp

/-- **read_committed_exact (one response)**: for every well-formed transactional log, every asked offset (also
    inside a transaction), every fetch boundary and every faithful aborted-transaction index in any order: the
    messages handed over are exactly the read-committed-visible records of the log between the asked and the next
    offset – every record of committed transactions and of non-transactional batches, no record of an aborted
    transaction, no control record – and the next offset has passed every record of the response. -/
theorem read_committed_exact (cfg : Cfg) (hrc : cfg.readCommitted = true) (L : List LUnit) (b0 : Int) (st : PState)
    (es : List Entry) (pt : Bool) (idx : List (Int × Int))
    (hwf : LogWF cfg.tsFromWrapper b0 L) (hbase : BaseWF L) (hf : FaithfulTxnData L st.offset es idx)
    (hn : nRecs es ≠ 0) :
    (parseBlock cfg st (.data es pt idx)).1 =
      window st.offset (parseBlock cfg st (.data es pt idx)).2.1.offset (visibleIso true cfg.tsFromWrapper L) ∧
    st.offset < (parseBlock cfg st (.data es pt idx)).2.1.offset ∧
    (parseBlock cfg st (.data es pt idx)).2.2 = .ok :=
  have ⟨r1, r2, r3, _, _⟩ := resp_rc cfg hrc L b0 st es pt idx hwf hbase hf hn
  ⟨r1, r2, r3⟩

/-- … the same for every permutation of the index -/
theorem read_committed_exact_perm (cfg : Cfg) (hrc : cfg.readCommitted = true) (L : List LUnit) (b0 : Int) (st : PState)
    (es : List Entry) (pt : Bool) (idx idx' : List (Int × Int)) (hperm : idx.Perm idx')
    (hwf : LogWF cfg.tsFromWrapper b0 L) (hbase : BaseWF L) (hf : FaithfulTxnData L st.offset es idx)
    (hn : nRecs es ≠ 0) :
    (parseBlock cfg st (.data es pt idx')).1 = (parseBlock cfg st (.data es pt idx)).1 ∧
    (parseBlock cfg st (.data es pt idx')).2.1 = (parseBlock cfg st (.data es pt idx)).2.1 := by
  have hf' : FaithfulTxnData L st.offset es idx' := by
    obtain ⟨h1, h2, hiEnd, h3, h4⟩ := hf
    exact ⟨h1, h2, hiEnd, h3, faithfulIndex_perm hperm h4⟩
  have ⟨a1, a2, _, a4, _⟩ := resp_rc cfg hrc L b0 st es pt idx hwf hbase hf hn
  have ⟨b1, b2, _, b4, _⟩ := resp_rc cfg hrc L b0 st es pt idx' hwf hbase hf' hn
  -- both deliver a window [asked, next) of the same ascending list and pass the same records: same next offset
  have hoff : (parseBlock cfg st (.data es pt idx')).2.1.offset = (parseBlock cfg st (.data es pt idx)).2.1.offset := by
    simp only [parseBlock, hn, ↓reduceIte]
    obtain ⟨⟨_, _, _, _, _, _, hbad⟩, hne, _⟩ := hf
    rw [decodeView_id hne (by
      obtain ⟨⟨_, _, _, _, _, hl, _⟩, _⟩ := hf'; exact hl)]
    rw [parse_eq_walk cfg es st.offset (sortAborted idx') [] hbad, parse_eq_walk cfg es st.offset (sortAborted idx) [] hbad]
    exact walk_offset_indep _ _ _ _ _ (by rw [keeps_length, keeps_length])
  refine ⟨by rw [a1, b1, hoff], ?_⟩
  cases h1 : (parseBlock cfg st (.data es pt idx')).2.1
  cases h2 : (parseBlock cfg st (.data es pt idx)).2.1
  rw [h1] at hoff b4; rw [h2] at hoff a4
  simp only at hoff a4 b4
  rw [hoff, a4, b4]

private theorem window_empty {a b : Int} (h : b ≤ a) (l : List SRec) : window a b l = [] := by
  unfold window
  apply List.filter_eq_nil_iff.2
  intro r _; simp only [decide_eq_true_eq]; omega

private theorem isoOK_uncommitted {cfg : Cfg} (h : cfg.readCommitted = false) (es : List Entry) : IsoOK cfg es := Or.inl h

/-- one faithful response of a transactional log, either isolation level -/
theorem step_window_iso (cfg : Cfg) (L : List LUnit) (b0 : Int) (hwf : LogWF cfg.tsFromWrapper b0 L) (hbase : BaseWF L)
    (st : PState) (b : Block) (hf : FaithfulTxnResp cfg L st b) :
    (parseBlock cfg st b).1 =
      window st.offset (parseBlock cfg st b).2.1.offset (visibleIso cfg.readCommitted cfg.tsFromWrapper L) ∧
    st.offset ≤ (parseBlock cfg st b).2.1.offset := by
  cases b with
  | throttled => exact ⟨(window_empty (Int.le_refl _) _).symm, Int.le_refl _⟩
  | missing => exact ⟨(window_empty (Int.le_refl _) _).symm, Int.le_refl _⟩
  | err c => exact ⟨(window_empty (Int.le_refl _) _).symm, Int.le_refl _⟩
  | data es pt idx =>
    obtain ⟨hd, hg⟩ := hf
    by_cases hn : nRecs es = 0
    · simp only [parseBlock, hn, ↓reduceIte]
      by_cases hp : pt = true
      · have := hg hp hn
        simp only [hp, ↓reduceIte, this]
        exact ⟨(window_empty (Int.le_refl _) _).symm, Int.le_refl _⟩
      · simp only [hp, Bool.false_eq_true, ↓reduceIte]
        exact ⟨(window_empty (Int.le_refl _) _).symm, Int.le_refl _⟩
    · cases hrc : cfg.readCommitted
      · have ⟨r1, r2, _⟩ := resp_static cfg L b0 st es pt idx hwf hd.1 (isoOK_uncommitted hrc es) hn
        rw [visibleIso_uncommitted]
        exact ⟨r1, by omega⟩
      · have ⟨r1, r2, _⟩ := resp_rc cfg hrc L b0 st es pt idx hwf hbase hd hn
        exact ⟨r1, by omega⟩

private theorem hist_conv (cfg : Cfg) (L : List LUnit) : ∀ (bs : List Block) (st : PState),
    FaithfulTxnHist cfg L st bs → HistOK cfg (FaithfulTxnResp cfg L) st bs
  | [], _, _ => trivial
  | _ :: bs, _, ⟨h1, h2⟩ => ⟨h1, hist_conv cfg L bs _ h2⟩

private theorem visibleIso_asc (rc tsw : Bool) {L : List LUnit} {b0 : Int} (h : LogWF tsw b0 L) :
    Asc b0 (visibleIso rc tsw L) := by
  rw [visibleIso_eq]
  exact segVis_asc (segsWF_ann _ _ _ (by rw [annot_fst]; exact h))

/-- **read_committed_exact (whole histories)**: for every well-formed transactional log, every start offset `S`
    and every history of faithful responses (errors, throttled, partial data, any fetch boundaries, any faithful
    index order), everything delivered is exactly the part of the log visible under the configured isolation
    level between `S` and the next offset: with ReadCommitted all records of committed transactions and of
    non-transactional batches, none of an aborted transaction; never a control record -/
theorem read_committed_exact_history (cfg : Cfg) (L : List LUnit) (b0 S fs : Int) (bs : List Block)
    (hwf : LogWF cfg.tsFromWrapper b0 L) (hbase : BaseWF L) (hf : FaithfulTxnHist cfg L ⟨S, fs⟩ bs) :
    (run cfg ⟨S, fs⟩ bs).1 =
      window S (run cfg ⟨S, fs⟩ bs).2.offset (visibleIso cfg.readCommitted cfg.tsFromWrapper L) ∧
    S ≤ (run cfg ⟨S, fs⟩ bs).2.offset :=
  hist_window cfg _ b0 (visibleIso_asc _ _ hwf) (FaithfulTxnResp cfg L)
    (fun st b h => step_window_iso cfg L b0 hwf hbase st b h) bs ⟨S, fs⟩ (hist_conv cfg L bs _ hf)

/-- **control_never_delivered_but_advances**: at either isolation level no delivered message stems from a control
    batch (every delivered message is a record of a non-control unit of the log), yet the next offset lies
    beyond every record of the response – the commit / abort markers included -/
theorem control_never_delivered_but_advances (cfg : Cfg) (L : List LUnit) (b0 : Int) (st : PState)
    (es : List Entry) (pt : Bool) (idx : List (Int × Int))
    (hwf : LogWF cfg.tsFromWrapper b0 L) (hbase : BaseWF L) (hf : FaithfulTxnData L st.offset es idx)
    (hn : nRecs es ≠ 0) :
    (∀ m ∈ (parseBlock cfg st (.data es pt idx)).1,
       ∃ u ∈ L, unitIsControl u = false ∧ m ∈ unitRecs cfg.tsFromWrapper u) ∧
    (∀ b, Entry.batch b ∈ es → b.control = true → ∀ r ∈ batchRecs b,
       r.off < (parseBlock cfg st (.data es pt idx)).2.1.offset) := by
  have hwin := (step_window_iso cfg L b0 hwf hbase st (.data es pt idx) ⟨hf, fun _ h => absurd h hn⟩).1
  constructor
  · intro m hm
    rw [hwin] at hm
    simp only [window, List.mem_filter] at hm
    obtain ⟨A, u, S, hL, hk, hmu⟩ := (visibleIso_mem _ _ m L).1 hm.1
    refine ⟨u, by rw [hL]; simp, ?_, hmu⟩
    cases u with
    | blk _ => rfl
    | bat b =>
      cases hrc : cfg.readCommitted <;> simp only [hrc, keepIso, keepRC, unitIsControl] at hk ⊢
      · simpa using hk
      · cases hc : b.control
        · rfl
        · simp [hc] at hk
  · intro b hb _ r hr
    cases hrc : cfg.readCommitted
    · have ⟨_, _, _, _, r5⟩ := resp_static cfg L b0 st es pt idx hwf hf.1 (isoOK_uncommitted hrc es) hn
      obtain ⟨⟨_, _, _, _, _, hl, _⟩, hne, _⟩ := hf
      rw [decodeView_id hne hl] at r5
      exact r5 (.batch b) hb r hr
    · have ⟨_, _, _, _, r5⟩ := resp_rc cfg hrc L b0 st es pt idx hwf hbase hf hn
      exact r5 (.batch b) hb r hr

/-- **pid_reuse_after_abort** (corollary): a transactional batch of the response whose transaction is not aborted
    (the first control batch of its producer after it is not an abort marker) has all its records from the asked
    offset on delivered – also when the same producer id aborted an earlier transaction that is listed in the index -/
theorem pid_reuse_after_abort (cfg : Cfg) (hrc : cfg.readCommitted = true) (L : List LUnit) (b0 : Int) (st : PState)
    (es : List Entry) (pt : Bool) (idx : List (Int × Int))
    (hwf : LogWF cfg.tsFromWrapper b0 L) (hbase : BaseWF L) (hf : FaithfulTxnData L st.offset es idx)
    (hn : nRecs es ≠ 0) (A S : List LUnit) (b : Batch) (hL : L = A ++ LUnit.bat b :: S) (hb : Entry.batch b ∈ es)
    (hkeep : keepRC (LUnit.bat b) S = true) :
    ∀ m ∈ batchRecs b, st.offset ≤ m.off → m ∈ (parseBlock cfg st (.data es pt idx)).1 := by
  intro m hm hge
  have ⟨r1, _, _, _, r5⟩ := resp_rc cfg hrc L b0 st es pt idx hwf hbase hf hn
  rw [r1]
  simp only [window, List.mem_filter, decide_eq_true_eq]
  refine ⟨(visibleIso_mem true _ m L).2 ⟨A, LUnit.bat b, S, hL, by simpa [keepIso] using hkeep, hm⟩, hge, ?_⟩
  exact r5 (.batch b) hb m hm

/-- **read_uncommitted_all_data**: with ReadUncommitted every data record of the fetched range is delivered, whatever
    the outcome of its transaction and whatever the index says; control records are not -/
theorem read_uncommitted_all_data (cfg : Cfg) (hru : cfg.readCommitted = false) (L : List LUnit) (b0 : Int) (st : PState)
    (es : List Entry) (pt : Bool) (idx : List (Int × Int))
    (hwf : LogWF cfg.tsFromWrapper b0 L) (hf : FaithfulData L st.offset es) (hn : nRecs es ≠ 0) :
    (parseBlock cfg st (.data es pt idx)).1 =
      window st.offset (parseBlock cfg st (.data es pt idx)).2.1.offset (visible cfg.tsFromWrapper L) ∧
    st.offset < (parseBlock cfg st (.data es pt idx)).2.1.offset :=
  have ⟨r1, r2, _⟩ := resp_static cfg L b0 st es pt idx hwf hf (isoOK_uncommitted hru es) hn
  ⟨r1, r2⟩

/-! ### non-vacuity -/

section Examples
private def r (d : Int) : Rec := ⟨d, "k", "v", "-", 0⟩
private def dat (base ld pid : Int) (txn : Bool) (recs : List Rec) : Batch :=
  ⟨base, ld, recs, false, .unknown, txn, pid, false, 1000, 1000⟩
private def mk (base pid : Int) (c : Ctl) : Batch := ⟨base, 0, [r 0], true, c, true, pid, false, 1000, 1000⟩
private def d7a := dat 0 1 7 true [r 0, r 1]
private def d8 := dat 2 0 8 true [r 0]
private def ab7 := mk 3 7 .abort
private def d7b := dat 4 0 7 true [r 0]
private def c8 := mk 5 8 .commit
private def c7 := mk 6 7 .commit
private def pl := dat 7 0 (-1) false [r 0]
/-- producer 7 aborts a transaction (offsets 0-1, marker 3) and then commits another one (offset 4, marker 6);
    producer 8's transaction (offset 2, marker 5) overlaps both; a non-transactional batch follows -/
private def exL : List LUnit := [.bat d7a, .bat d8, .bat ab7, .bat d7b, .bat c8, .bat c7, .bat pl]
private def cfgRC : Cfg := ⟨100, 0, true, false⟩

example : LogWF cfgRC.tsFromWrapper (-1) exL := by
  simp [exL, cfgRC, LogWF, Asc, unitRecs, batchRecs, unitHi, batchLast, d7a, d8, ab7, d7b, c8, c7, pl, dat, mk, r]
example : BaseWF exL := by
  constructor
  · intro b hb
    simp only [exL, List.mem_cons, LUnit.bat.injEq, List.not_mem_nil, or_false] at hb
    rcases hb with rfl | rfl | rfl | rfl | rfl | rfl | rfl <;> decide
  · intro a b ha hb
    simp only [exL, List.mem_cons, LUnit.bat.injEq, List.not_mem_nil, or_false] at ha hb
    rcases ha with rfl | rfl | rfl | rfl | rfl | rfl | rfl <;>
      rcases hb with rfl | rfl | rfl | rfl | rfl | rfl | rfl <;> decide
/-- the broker's index for a fetch at 1 ending at 2, and for a fetch at 3 ending at 5 -/
example : brokerIndex exL 1 2 = [(7, 0)] ∧ brokerIndex exL 3 5 = [(7, 0)] ∧ brokerIndex exL 6 7 = [] := by decide
/-- three fetches, the first one starting inside the aborted transaction, boundaries inside transactions -/
private def hist : List Block :=
  [.data [.batch d7a, .batch d8] false (brokerIndex exL 1 2),
   .data [.batch ab7, .batch d7b, .batch c8] false (brokerIndex exL 3 5),
   .data [.batch c7, .batch pl] true (brokerIndex exL 6 7)]
example : FaithfulTxnHist cfgRC exL ⟨1, 100⟩ hist := by
  refine ⟨⟨⟨⟨[], [.bat ab7, .bat d7b, .bat c8, .bat c7, .bat pl], rfl, ?_, ?_, ?_, ?_⟩, ?_, 2, ?_, brokerIndex_faithful exL 1 2⟩, ?_⟩,
    ⟨⟨⟨[.bat d7a, .bat d8], [.bat c7, .bat pl], rfl, ?_, ?_, ?_, ?_⟩, ?_, 5, ?_, brokerIndex_faithful exL 3 5⟩, ?_⟩,
    ⟨⟨⟨[.bat d7a, .bat d8, .bat ab7, .bat d7b, .bat c8], [], rfl, ?_, ?_, ?_, ?_⟩, ?_, 7, ?_, brokerIndex_faithful exL 6 7⟩, ?_⟩, trivial⟩
  all_goals first | decide | (intro b hb; simp at hb; rcases hb with h | h | h <;> subst h <;> decide) |
    (intro b hb; simp at hb; rcases hb with h | h <;> subst h <;> decide) | (intro b hb; simp at hb; done)
/-- delivered: producer 8's committed record (2), producer 7's committed record (4) – its aborted records 0-1 are
    not delivered, although the same producer id is reused – and the plain record (7); next offset 8 -/
example : ((run cfgRC ⟨1, 100⟩ hist).1.map (·.off), (run cfgRC ⟨1, 100⟩ hist).2) = ([2, 4, 7], ⟨8, 100⟩) := by decide
/-- read-uncommitted sees the aborted record 1 as well -/
example : (run ⟨100, 0, false, false⟩ ⟨1, 100⟩ hist).1.map (·.off) = [1, 2, 4, 7] := by decide
/-- the order of the index does not matter (two aborted transactions listed in either order) -/
example : (parseBlock cfgRC ⟨0, 100⟩ (.data [.batch d7a, .batch d8, .batch ab7, .batch d7b] false [(8, 2), (7, 0)])).1 =
          (parseBlock cfgRC ⟨0, 100⟩ (.data [.batch d7a, .batch d8, .batch ab7, .batch d7b] false [(7, 0), (8, 2)])).1 := by decide
end Examples

end Props.C11
