import SaramaVerif.Model.Partitioner
/-
  C17 — partitioners keep their contract and the producer honours their choice.
  Property theorems only (helper lemmas are local `private`).
-/
namespace Props.C17
open Go Model.Partitioner

private theorem tmod_bounds_nonneg {a n : Int} (ha : 0 ≤ a) (hn : 0 < n) :
    0 ≤ Int.tmod a n ∧ Int.tmod a n < n :=
  ⟨Int.tmod_nonneg n ha, Int.tmod_lt_of_pos a hn⟩

private theorem tmod_abs_bounds {a n : Int} (hn : 0 < n) :
    -n < Int.tmod a n ∧ Int.tmod a n < n := by
  constructor
  · rcases Int.le_total 0 a with h | h
    · have := Int.tmod_nonneg n h; omega
    · have h1 : Int.tmod (-a) n < n := Int.tmod_lt_of_pos (-a) hn
      rw [Int.neg_tmod] at h1; omega
  · exact Int.tmod_lt_of_pos a hn

/-- hash partitioners (both sign treatments) stay in range for EVERY 32-bit hash – including
    0x80000000, whose int32 reading is the minimum integer – and every positive partition count. -/
theorem hash_range (refAbs : Bool) (h n : Int) (hn : 0 < n) :
    0 ≤ hashChoice refAbs h n ∧ hashChoice refAbs h n < n := by
  unfold hashChoice
  cases refAbs
  · simp only [Bool.false_eq_true, ↓reduceIte]
    have := @tmod_abs_bounds (wrap32 h) n hn
    split <;> omega
  · simp only [↓reduceIte]
    exact tmod_bounds_nonneg (by omega) hn

/-- the reference variant is exactly Kafka's Java client formula for the same hash -/
theorem hash_reference_eq_java (h n : Int) :
    hashChoice true h n = javaChoice h n := by
  unfold hashChoice javaChoice
  simp only [↓reduceIte]
  have h0 : (0:Int) ≤ h % 2147483648 := by omega
  rw [Int.tmod_eq_emod_of_nonneg h0]

/-- equal keys (equal hash sums) map to equal partitions: the choice is a function of the hash alone -/
theorem hash_consistent (refAbs : Bool) (h₁ h₂ n : Int) (e : h₁ = h₂) :
    hashChoice refAbs h₁ n = hashChoice refAbs h₂ n := by rw [e]

/-- with the default FNV-1a hasher: in range and a function of the key BYTES (so equal keys, including keys that
    encode to zero bytes, always map to the same partition) -/
theorem hash_key_range (refAbs : Bool) (key : List UInt8) (n : Int) (hn : 0 < n) :
    0 ≤ hashKeyChoice refAbs key n ∧ hashKeyChoice refAbs key n < n := hash_range refAbs _ n hn

theorem hash_key_consistent (refAbs : Bool) (k₁ k₂ : List UInt8) (n : Int) (e : k₁ = k₂) :
    hashKeyChoice refAbs k₁ n = hashKeyChoice refAbs k₂ n := by rw [e]

example : fnv1a32 [] = 2166136261 ∧ fnv1a32 [0x61] = 3826002220 ∧ hashKeyChoice true [] 50 = (2166136261 % 2147483648) % 50 := by decide

/-- round-robin invariant and range: for every state reachable from 0 and every positive count the choice
    is in range, and the state stays within int32 (no wrap on `p.partition++`). -/
theorem rr_step_range (p n : Int) (hp : 0 ≤ p) (hn : 0 < n) :
    0 ≤ (rrStep p n).1 ∧ (rrStep p n).1 < n ∧ 0 ≤ (rrStep p n).2 ∧ (rrStep p n).2 ≤ n := by
  unfold rrStep; simp only; split <;> omega

theorem rr_run_range (p : Int) (ns : List Int) (hp : 0 ≤ p) (hns : ∀ n ∈ ns, 0 < n) :
    ∀ i (hi : i < (rrRun p ns).length), 0 ≤ (rrRun p ns)[i] ∧ (rrRun p ns)[i] < ns[i]'(by
      have : (rrRun p ns).length = ns.length := by
        clear hns hi hp
        induction ns generalizing p with
        | nil => rfl
        | cons n ns ih => simp [rrRun, ih]
      omega) := by
  induction ns generalizing p with
  | nil => intro i hi; simp [rrRun] at hi
  | cons n ns ih =>
    intro i hi
    have hn : 0 < n := hns n (by simp)
    have hs := rr_step_range p n hp hn
    cases i with
    | zero => simp only [rrRun, List.getElem_cons_zero]; omega
    | succ i =>
      simp only [rrRun, List.getElem_cons_succ]
      exact ih (rrStep p n).2 hs.2.2.1 (fun m hm => hns m (by simp [hm])) i (by simpa [rrRun] using hi)

/-- with a fixed count the round-robin partitioner cycles 0,1,…,n-1,0,…: the k-th call from state p ≤ n
    returns (p + k) mod n  (p = n is the wrapped state that yields 0). -/
theorem rr_cycle (n : Int) (hn : 0 < n) (k : Nat) (p : Int) (hp : 0 ≤ p ∧ p ≤ n) :
    ∀ i (hi : i < (rrRun p (List.replicate k n)).length),
      (rrRun p (List.replicate k n))[i] = (p + i) % n := by
  induction k generalizing p with
  | zero => intro i hi; simp [rrRun] at hi
  | succ k ih =>
    intro i hi
    simp only [List.replicate_succ, rrRun]
    have hs := rr_step_range p n hp.1 hn
    cases i with
    | zero =>
      simp only [List.getElem_cons_zero, rrStep]
      split
      · have : p = n := by omega
        subst this; simp
      · rw [Int.emod_eq_of_lt] <;> omega
    | succ i =>
      simp only [List.getElem_cons_succ]
      rw [ih (rrStep p n).2 ⟨hs.2.2.1, hs.2.2.2⟩ i (by simpa [rrRun, List.replicate_succ] using hi)]
      simp only [rrStep]
      split
      · have : p = n := by omega
        subst this
        have : (p + ((i:Nat) + 1 : Nat)) = (0 + 1 + (i:Int)) + p := by omega
        rw [this, Int.add_emod_right]
      · congr 1; omega

theorem rrRun_length (p : Int) (ns : List Int) : (rrRun p ns).length = ns.length := by
  induction ns generalizing p with
  | nil => rfl
  | cons n ns ih => simp [rrRun, ih]

/-- "round-robin cycles through ALL partitions": with a fixed count n, from every reachable state, any n consecutive
    calls return every partition 0 ≤ j < n (hence, the window having n entries, each exactly once). -/
theorem rr_covers_all (n : Int) (hn : 0 < n) (p : Int) (hp : 0 ≤ p ∧ p ≤ n) (j : Int) (hj : 0 ≤ j ∧ j < n) :
    ∃ i, ∃ (hi : i < (rrRun p (List.replicate n.toNat n)).length),
      (rrRun p (List.replicate n.toNat n))[i] = j := by
  have hm0 : 0 ≤ (j - p) % n := Int.emod_nonneg _ (by omega)
  have hm1 : (j - p) % n < n := Int.emod_lt_of_pos _ hn
  refine ⟨((j - p) % n).toNat, ?_, ?_⟩
  · rw [rrRun_length, List.length_replicate]; omega
  · rw [rr_cycle n hn n.toNat p hp]
    have : (((j - p) % n).toNat : Int) = (j - p) % n := Int.toNat_of_nonneg hm0
    rw [this, Int.add_emod_emod]
    have : p + (j - p) = j := by omega
    rw [this, Int.emod_eq_of_lt hj.1 hj.2]

/-- no partition is returned twice within a window of n calls -/
theorem rr_window_injective (n : Int) (hn : 0 < n) (p : Int) (hp : 0 ≤ p ∧ p ≤ n) (i k : Nat)
    (hi : i < (rrRun p (List.replicate n.toNat n)).length) (hk : k < (rrRun p (List.replicate n.toNat n)).length)
    (e : (rrRun p (List.replicate n.toNat n))[i] = (rrRun p (List.replicate n.toNat n))[k]) : i = k := by
  rw [rr_cycle n hn n.toNat p hp, rr_cycle n hn n.toNat p hp] at e
  rw [rrRun_length, List.length_replicate] at hi hk
  have hi' : (i:Int) < n := by omega
  have hk' : (k:Int) < n := by omega
  have e2 : ((p + i) - (p + k)) % n = 0 := (Int.emod_eq_emod_iff_emod_sub_eq_zero).mp e
  obtain ⟨c, hc⟩ := Int.dvd_of_emod_eq_zero e2
  have hc0 : c = 0 := by
    rcases Int.lt_trichotomy c 0 with h | h | h
    · have : n * c ≤ n * (-1) := Int.mul_le_mul_of_nonneg_left (by omega) (by omega)
      omega
    · exact h
    · have : n * 1 ≤ n * c := Int.mul_le_mul_of_nonneg_left (by omega) (by omega)
      omega
  subst hc0
  omega
example : rrRun 2 (List.replicate 3 3) = [2, 0, 1] ∧ rrRun 3 (List.replicate 3 3) = [0, 1, 2] := by decide

/-- the sequence of choices is periodic with period n (so every window of n consecutive calls, wherever it starts,
    is a rotation of 0,…,n-1 and over k·n calls every partition is chosen exactly k times) -/
theorem rr_periodic (n : Int) (hn : 0 < n) (k : Nat) (p : Int) (hp : 0 ≤ p ∧ p ≤ n) (i : Nat)
    (hi : i + n.toNat < (rrRun p (List.replicate k n)).length) :
    (rrRun p (List.replicate k n))[i + n.toNat] = (rrRun p (List.replicate k n))[i]'(by omega) := by
  rw [rr_cycle n hn k p hp, rr_cycle n hn k p hp]
  have : ((i + n.toNat : Nat) : Int) = i + n := by
    have := Int.toNat_of_nonneg (Int.le_of_lt hn); omega
  rw [this, ← Int.add_assoc, Int.add_emod_right]

/-- state of the round-robin partitioner after a run -/
def rrEnd : Int → List Int → Int
  | p, [] => p
  | p, n :: ns => rrEnd (rrStep p n).2 ns

theorem rrRun_append (p : Int) (a b : List Int) :
    rrRun p (a ++ b) = rrRun p a ++ rrRun (rrEnd p a) b := by
  induction a generalizing p with
  | nil => rfl
  | cons n a ih => simp [rrRun, rrEnd, ih]

theorem rrEnd_replicate_range (n : Int) (hn : 0 < n) (k : Nat) (p : Int) (hp : 0 ≤ p ∧ p ≤ n) :
    0 ≤ rrEnd p (List.replicate k n) ∧ rrEnd p (List.replicate k n) ≤ n := by
  induction k generalizing p with
  | zero => simpa [rrEnd] using hp
  | succ k ih =>
    have hs := rr_step_range p n hp.1 hn
    simp only [List.replicate_succ, rrEnd]
    exact ih _ ⟨hs.2.2.1, hs.2.2.2⟩

theorem rr_window_count (n : Int) (hn : 0 < n) (p : Int) (hp : 0 ≤ p ∧ p ≤ n) (j : Int) (hj : 0 ≤ j ∧ j < n) :
    (rrRun p (List.replicate n.toNat n)).count j = 1 := by
  have hnd : (rrRun p (List.replicate n.toNat n)).Nodup := by
    rw [List.nodup_iff_pairwise_ne, List.pairwise_iff_getElem]
    intro a b ha hb hab e
    have := rr_window_injective n hn p hp a b ha hb e
    omega
  have hmem : j ∈ rrRun p (List.replicate n.toNat n) := by
    obtain ⟨i, hi, e⟩ := rr_covers_all n hn p hp j hj
    exact List.mem_iff_getElem.mpr ⟨i, hi, e⟩
  rw [hnd.count, if_pos hmem]

/-- fairness: over k·n consecutive calls with a fixed count n, from every reachable state, every partition is
    chosen exactly k times -/
theorem rr_fair (n : Int) (hn : 0 < n) (k : Nat) (p : Int) (hp : 0 ≤ p ∧ p ≤ n) (j : Int) (hj : 0 ≤ j ∧ j < n) :
    (rrRun p (List.replicate (k * n.toNat) n)).count j = k := by
  induction k generalizing p with
  | zero => simp [rrRun]
  | succ k ih =>
    have : (k + 1) * n.toNat = n.toNat + k * n.toNat := by rw [Nat.succ_mul, Nat.add_comm]
    rw [this, ← List.replicate_append_replicate, rrRun_append, List.count_append, rr_window_count n hn p hp j hj,
      ih _ (rrEnd_replicate_range n hn _ p hp)]
    omega

example : (rrRun 1 (List.replicate (2 * 3) 3)).count 2 = 2 := by decide

/-- manual partitioner: identity (stated on the routing function: a manual choice `c` within range is
    looked up unchanged) -/
theorem manual_identity (parts : List Int) (c : Int) (h0 : 0 ≤ c) (h1 : c < parts.length) :
    partitionMessage true (.ok parts) (.ok []) (fun _ => .ok c) = .sent (parts.getD c.toNat 0) := by
  unfold partitionMessage
  simp only [↓reduceIte]
  have : ¬ ((parts.length : Int) = 0) := by omega
  simp only [this, ↓reduceIte]
  have : ¬ (c < 0 ∨ c ≥ parts.length) := by omega
  simp only [this, ↓reduceIte]

/-- decision table of the routing step, stated outright -/
theorem partition_message_spec (reqCons : Bool) (all writable : Except Int (List Int))
    (choose : Int → Except Int Int) :
    let offered := if reqCons then all else writable
    match offered with
    | .error e => partitionMessage reqCons all writable choose = .errClient e
    | .ok parts =>
      (parts = [] → partitionMessage reqCons all writable choose = .errLeaderNotAvailable) ∧
      (parts ≠ [] → ∀ e, choose parts.length = .error e →
          partitionMessage reqCons all writable choose = .errPartitioner e) ∧
      (parts ≠ [] → ∀ c, choose parts.length = .ok c → (c < 0 ∨ c ≥ parts.length) →
          partitionMessage reqCons all writable choose = .errInvalidPartition) ∧
      (parts ≠ [] → ∀ c, choose parts.length = .ok c → 0 ≤ c → c < parts.length →
          ∃ hlt : c.toNat < parts.length,
            partitionMessage reqCons all writable choose = .sent (parts[c.toNat]'hlt)) := by
  intro offered
  cases hoff : offered with
  | error e => simp only [partitionMessage]; rw [show (if reqCons then all else writable) = offered from rfl, hoff]
  | ok parts =>
    simp only
    refine ⟨?_, ?_, ?_, ?_⟩
    · intro hp; subst hp
      simp only [partitionMessage]; rw [show (if reqCons then all else writable) = offered from rfl, hoff]
      simp
    · intro hp e he
      have hl : ¬ ((parts.length : Int) = 0) := by
        intro h; apply hp; exact List.length_eq_zero_iff.mp (by omega)
      simp only [partitionMessage]; rw [show (if reqCons then all else writable) = offered from rfl, hoff]
      simp only [hl, ↓reduceIte, he]
    · intro hp c hc hr
      have hl : ¬ ((parts.length : Int) = 0) := by
        intro h; apply hp; exact List.length_eq_zero_iff.mp (by omega)
      simp only [partitionMessage]; rw [show (if reqCons then all else writable) = offered from rfl, hoff]
      simp only [hl, ↓reduceIte, hc, hr]
    · intro hp c hc h0 h1
      have hl : ¬ ((parts.length : Int) = 0) := by
        intro h; apply hp; exact List.length_eq_zero_iff.mp (by omega)
      have hlt : c.toNat < parts.length := by omega
      refine ⟨hlt, ?_⟩
      simp only [partitionMessage]; rw [show (if reqCons then all else writable) = offered from rfl, hoff]
      have : ¬ (c < 0 ∨ c ≥ parts.length) := by omega
      simp only [hl, ↓reduceIte, hc, this, List.getD_eq_getElem?_getD, List.getElem?_eq_getElem hlt, Option.getD_some]

/-- a message that fails partitioning is sent nowhere: the routing result is `sent _` only in the last row -/
theorem failed_partitioning_sends_nothing (reqCons : Bool) (all writable : Except Int (List Int))
    (choose : Int → Except Int Int) (p : Int)
    (h : partitionMessage reqCons all writable choose = .sent p) :
    ∃ parts, (if reqCons then all else writable) = .ok parts ∧ p ∈ parts ∧
      ∃ c, choose parts.length = .ok c ∧ 0 ≤ c ∧ c < parts.length := by
  unfold partitionMessage at h
  split at h
  · cases h
  · rename_i parts hparts
    refine ⟨parts, hparts, ?_⟩
    simp only at h
    split at h
    · cases h
    · split at h
      · cases h
      · rename_i c hc
        split at h
        · cases h
        · rename_i hr
          have hlt : c.toNat < parts.length := by omega
          injection h with h
          refine ⟨?_, c, hc, by omega, by omega⟩
          rw [← h]
          simp only [List.getD_eq_getElem?_getD, List.getElem?_eq_getElem hlt, Option.getD_some]
          exact List.getElem_mem hlt

/-- custom fallback: with the documented behaviour (`arg`) a keyless message gets the fallback
    partitioner's choice … -/
theorem custom_fallback_used (fuel : Nat) (refAbs : Bool) (n r a : Int) :
    hashPartition fuel .arg refAbs none n r a = some a := by
  unfold hashPartition; rfl

/-- … whereas the self-referential variant never returns for a keyless message, whatever the fuel
    (this is the defect variant F8; the correspondence check decides which variant /repo matches). -/
theorem self_fallback_diverges (fuel : Nat) (refAbs : Bool) (n r a : Int) :
    hashPartition fuel .self refAbs none n r a = none := by
  induction fuel with
  | zero => rfl
  | succ k ih => unfold hashPartition; exact ih

/-- a keyed call of a hash partitioner does not depend on the fallback, the fuel, the random draw or the
    fallback's answer, and is in range -/
theorem hash_partition_keyed (fuel : Nat) (fb : Fallback) (refAbs : Bool) (h n r a : Int) (hn : 0 < n) :
    ∃ c, hashPartition fuel fb refAbs (some h) n r a = some c ∧ c = hashChoice refAbs h n ∧ 0 ≤ c ∧ c < n := by
  refine ⟨hashChoice refAbs h n, ?_, rfl, hash_range refAbs h n hn⟩
  unfold hashPartition; rfl

/-- keyless call with the random or the custom fallback: the fallback's answer, in range when that is -/
theorem hash_partition_keyless (fuel : Nat) (fb : Fallback) (hfb : fb ≠ .self) (refAbs : Bool) (n r a : Int)
    (hr : 0 ≤ r ∧ r < n) (ha : 0 ≤ a ∧ a < n) :
    ∃ c, hashPartition fuel fb refAbs none n r a = some c ∧ 0 ≤ c ∧ c < n := by
  cases fb with
  | random => exact ⟨r, by unfold hashPartition; rfl, hr⟩
  | arg => exact ⟨a, by unfold hashPartition; rfl, ha⟩
  | self => exact absurd rfl hfb

/-- composition of the two halves of the statement: a keyed message of a hash partitioner (which requires
    consistency, so ALL partitions are offered) is sent — never failed with an invalid-partition error — to
    the element of the offered list at the hash's index; leaderless partitions (the `writable` answer), the
    fallback, the fuel and the random draw play no part. -/
theorem keyed_hash_message_routed (fuel : Nat) (fb : Fallback) (refAbs : Bool) (h r a : Int)
    (parts : List Int) (writable : Except Int (List Int)) (hp : parts ≠ []) :
    ∃ hlt : (hashChoice refAbs h parts.length).toNat < parts.length,
      partitionMessage true (.ok parts) writable
        (fun n => match hashPartition fuel fb refAbs (some h) n r a with
                  | some c => .ok c
                  | none => .error 0)
        = .sent (parts[(hashChoice refAbs h parts.length).toNat]'hlt) := by
  have hn : (0:Int) < parts.length := by
    have : parts.length ≠ 0 := fun e => hp (List.length_eq_zero_iff.mp e)
    omega
  have hr := hash_range refAbs h parts.length hn
  have hs := (partition_message_spec true (.ok parts) writable
      (fun n => match hashPartition fuel fb refAbs (some h) n r a with
                | some c => .ok c
                | none => .error 0))
  simp only [↓reduceIte] at hs
  exact hs.2.2.2 hp (hashChoice refAbs h parts.length) (by unfold hashPartition; rfl) hr.1 hr.2
example : ∃ hlt, partitionMessage true (.ok [10, 11, 12]) (.ok [11])
    (fun n => match hashPartition 0 .self true (some 2147483649) n 0 0 with | some c => .ok c | none => .error 0)
    = .sent ([10, 11, 12][(hashChoice true 2147483649 3).toNat]'hlt) :=
  keyed_hash_message_routed 0 .self true 2147483649 0 0 [10, 11, 12] (.ok [11]) (by decide)

/-! non-vacuity: concrete instances meeting the hypotheses -/
example : InU32 2147483648 ∧ (0:Int) < 7 ∧ hashChoice false 2147483648 7 = 2 ∧ hashChoice true 2147483648 7 = 0 := by
  decide
example : rrRun 0 [3,3,3,3,2,5] = [0,1,2,0,1,2] := by decide
example : partitionMessage false (.ok [0,1,2]) (.ok [0,2]) (fun _ => .ok 1) = .sent 2 := by decide

end Props.C17
