import SaramaVerif.Model.ProduceSet
/-
  C04 — a reported success identifies exactly where and what was written (produce-set / request-building /
  offset-arithmetic core).  Property theorems for ALL add sequences + non-vacuity examples.
-/
namespace Props.C04
open Model.ProduceSet

/-! ### every produce set that can exist -/

/-- any sequence of adds (no overflow discipline needed for C04), drops and retryBatch re-wrappings -/
inductive Reach (c : Conf) : State → Prop
  | empty : Reach c State.empty
  | add {s : State} (now : Int) (m : Msg) : Reach c s → Reach c (add c s now m)
  | drop {s : State} (tp : Nat × Nat) : Reach c s → Reach c (dropPartition s tp)
  | ofPartition {s : State} {p : PSet} : Reach c s → p ∈ s.parts → Reach c (State.single p)

/-- record `r` of a partition set with FirstTimestamp `fts` carries message `m`: same payload identity and
    lengths, the headers (record batches), and the timestamp if the application supplied one (formats that
    have a timestamp: message format 1 and record batches) -/
def Carries (c : Conf) (fts : Int) (m : Msg) (r : Rec) : Prop :=
  r.id = m.id ∧ r.keyLen = m.keyLen ∧ r.valLen = m.valLen ∧ (c.v2 = true → r.headers = m.headers) ∧
  (∀ t, m.ts = some t → (c.v2 = true → fts + r.tsDelta = t) ∧ (c.v2 = false → c.v1 = true → r.ts = some t))

/-- index-aligned lists -/
def Aligned (c : Conf) (fts : Int) : List Msg → List Rec → Prop
  | [], [] => True
  | m :: ms, r :: rs => Carries c fts m r ∧ Aligned c fts ms rs
  | _, _ => False

private theorem aligned_append {c : Conf} {fts : Int} {ms : List Msg} {rs : List Rec} {m : Msg} {r : Rec}
    (h : Aligned c fts ms rs) (hc : Carries c fts m r) : Aligned c fts (ms ++ [m]) (rs ++ [r]) := by
  induction ms generalizing rs with
  | nil =>
    cases rs with
    | nil => exact ⟨hc, trivial⟩
    | cons a t => exact absurd h (by simp [Aligned])
  | cons x xs ih =>
    cases rs with
    | nil => exact absurd h (by simp [Aligned])
    | cons a t => exact ⟨h.1, ih h.2⟩

private theorem aligned_length {c : Conf} {fts : Int} {ms : List Msg} {rs : List Rec} (h : Aligned c fts ms rs) :
    rs.length = ms.length := by
  induction ms generalizing rs with
  | nil =>
    cases rs with
    | nil => rfl
    | cons a t => exact absurd h (by simp [Aligned])
  | cons x xs ih =>
    cases rs with
    | nil => exact absurd h (by simp [Aligned])
    | cons a t => simp [ih h.2]

private theorem aligned_get {c : Conf} {fts : Int} {ms : List Msg} {rs : List Rec} (h : Aligned c fts ms rs)
    (i : Nat) (hi : i < ms.length) (hr : i < rs.length) : Carries c fts ms[i] rs[i] := by
  induction ms generalizing rs i with
  | nil => simp at hi
  | cons x xs ih =>
    cases rs with
    | nil => simp at hr
    | cons a t =>
      cases i with
      | zero => exact h.1
      | succ j => exact ih h.2 j (by simpa using hi) (by simpa using hr)

private theorem carries_mkRec (c : Conf) (now fts : Int) (m : Msg) : Carries c fts m (mkRec c now fts m) := by
  refine ⟨rfl, rfl, rfl, ?_, ?_⟩
  · intro hv; simp [mkRec, hv]
  · intro t ht
    refine ⟨?_, ?_⟩
    · intro hv; simp [mkRec, hv, effTs, ht]; omega
    · intro hv h1; simp [mkRec, hv, h1, effTs, ht]

/-- the alignment invariant of a partition set -/
def AInv (c : Conf) (p : PSet) : Prop :=
  Aligned c p.firstTs p.msgs p.recs ∧ p.msgs ≠ [] ∧ ∀ m ∈ p.msgs, m.tp = p.tp

private theorem lookup_some {tp : Nat × Nat} {ps : List PSet} {p : PSet} (h : lookup tp ps = some p) :
    p ∈ ps ∧ p.tp = tp := by
  induction ps with
  | nil => simp [lookup] at h
  | cons q t ih =>
    simp only [lookup] at h
    split at h
    · cases h; exact ⟨List.mem_cons_self, by assumption⟩
    · exact ⟨List.mem_cons_of_mem _ (ih h).1, (ih h).2⟩

private theorem ainv_addTo {c : Conf} (now : Int) (m : Msg) {ps : List PSet} (h : ∀ p ∈ ps, AInv c p) :
    ∀ p ∈ addTo c now m ps, AInv c p := by
  induction ps with
  | nil =>
    intro p hp
    simp only [addTo, List.mem_singleton] at hp
    subst hp
    refine ⟨⟨?_, trivial⟩, by simp [newPSet], by simp [newPSet]⟩
    have := carries_mkRec c now (effTs now m) m
    unfold newPSet
    cases hv : c.v2
    · -- legacy: firstTs is 0, irrelevant for the legacy clauses
      simp only [Bool.false_eq_true, ↓reduceIte]
      obtain ⟨a, b, d, e, f⟩ := this
      exact ⟨a, b, d, fun h => by simp [hv] at h, fun t ht => ⟨fun h => by simp [hv] at h, (f t ht).2⟩⟩
    · simpa [hv] using this
  | cons q t ih =>
    intro p hp
    simp only [addTo] at hp
    by_cases hq : q.tp = m.tp
    · simp only [hq, ↓reduceIte, List.mem_cons] at hp
      rcases hp with hp | hp
      · subst hp
        have hq' := h q List.mem_cons_self
        refine ⟨aligned_append hq'.1 (carries_mkRec c now q.firstTs m), by simp [extend], ?_⟩
        intro x hx
        simp only [extend, List.mem_append, List.mem_singleton] at hx
        rcases hx with hx | hx
        · exact hq'.2.2 x hx
        · simp [extend, hx, hq]
      · exact h p (List.mem_cons_of_mem _ hp)
    · simp only [hq, ↓reduceIte, List.mem_cons] at hp
      rcases hp with hp | hp
      · exact hp ▸ h q List.mem_cons_self
      · exact ih (fun x hx => h x (List.mem_cons_of_mem _ hx)) p hp

private theorem mem_removeTp {tp : Nat × Nat} {ps : List PSet} {p : PSet} (h : p ∈ removeTp tp ps) : p ∈ ps := by
  induction ps with
  | nil => simp [removeTp] at h
  | cons q t ih =>
    simp only [removeTp] at h
    split at h
    · exact List.mem_cons_of_mem _ h
    · rcases List.mem_cons.mp h with h | h
      · exact h ▸ List.mem_cons_self
      · exact List.mem_cons_of_mem _ (ih h)

theorem reach_ainv {c : Conf} {s : State} (h : Reach c s) : ∀ p ∈ s.parts, AInv c p := by
  induction h with
  | empty => simp [State.empty]
  | @add s now m _ ih =>
    unfold Model.ProduceSet.add
    split
    · exact ainv_addTo now m ih
    · exact ih
  | @drop s tp _ ih =>
    unfold dropPartition
    split
    · exact ih
    · intro p hp; exact ih p (mem_removeTp hp)
  | @ofPartition s p _ hp ih =>
    intro q hq
    simp only [State.single, List.mem_singleton] at hq
    exact hq ▸ ih p hp

/-- **msgs_records_aligned**: in every produce set that any sequence of adds can build, `msgs` and the
    records to send of each partition have equal length and record i carries key / value / headers (and the
    timestamp when supplied) of msgs[i]; all messages of a partition set belong to that topic-partition. -/
theorem msgs_records_aligned {c : Conf} {s : State} (h : Reach c s) {p : PSet} (hp : p ∈ s.parts) :
    p.recs.length = p.msgs.length ∧
    (∀ i (hi : i < p.msgs.length) (hr : i < p.recs.length), Carries c p.firstTs p.msgs[i] p.recs[i]) ∧
    (∀ m ∈ p.msgs, m.tp = p.tp) := by
  have := reach_ainv h p hp
  exact ⟨aligned_length this.1, fun i hi hr => aligned_get this.1 i hi hr, this.2.2⟩

/-! ### per-format offset lemmas of buildRequest -/

theorem renumber_length (i : Int) (rs : List Rec) : (renumber i rs).length = rs.length := by
  induction rs generalizing i with
  | nil => rfl
  | cons a t ih => simp [renumber, ih]

/-- `for i, x := range xs { x.Offset = int64(i) }`: element j gets offset i+j and keeps everything else -/
theorem renumber_get (i : Int) (rs : List Rec) (j : Nat) (hj : j < rs.length) :
    (renumber i rs)[j]'(by rw [renumber_length]; exact hj) = { rs[j] with offset := i + j } := by
  induction rs generalizing i j with
  | nil => simp at hj
  | cons a t ih =>
    cases j with
    | zero => simp [renumber]
    | succ k =>
      simp only [renumber, List.getElem_cons_succ]
      rw [ih (i + 1) k (by simpa using hj)]
      have : i + 1 + (k : Int) = i + ((k + 1 : Nat) : Int) := by push_cast; omega
      rw [this]

/-- a version gate ≥ 0.11 means record batches (given that one KafkaVersion answers the gates) -/
theorem reqVersion_ge3_iff (c : Conf) (hwf : c.WF) : reqVersion c ≥ 3 ↔ c.v2 = true := by
  unfold reqVersion
  obtain ⟨h1, _⟩ := hwf
  by_cases hc : c.codec = 4 <;> cases hv2 : c.v2 <;> cases hv21 : c.v21 <;> cases hv1 : c.v1 <;> simp_all

/-- **record batch v2**: OffsetDelta of record i is i, LastOffsetDelta is (number of records − 1) -/
theorem record_batch_offset_deltas (c : Conf) (hwf : c.WF) (hv : c.v2 = true) (p : PSet) (hne : p.recs ≠ []) :
    ∃ recs, buildBatch c p = .recordBatch p.firstTs ((p.recs.length : Int) - 1) c.codec recs ∧
      recs.length = p.recs.length ∧
      ∀ j (hj : j < p.recs.length) (hj' : j < recs.length), recs[j] = { p.recs[j] with offset := j } := by
  refine ⟨renumber 0 p.recs, ?_, renumber_length 0 p.recs, ?_⟩
  · unfold buildBatch
    have hlen : p.recs.length > 0 := List.length_pos_iff.mpr hne
    simp [(reqVersion_ge3_iff c hwf).mpr hv, hlen]
  · intro j hj hj'
    rw [renumber_get 0 p.recs j hj]; simp

/-- **compressed wrapper, format 1**: the inner messages carry relative offsets 0,1,2,… (KIP-31) and the
    wrapper carries the timestamp of the first inner message -/
theorem wrapper_relative_offsets (c : Conf) (hwf : c.WF) (hv : c.v2 = false) (h1 : c.v1 = true) (hc : c.codec ≠ 0)
    (p : PSet) :
    ∃ inner, buildBatch c p = .wrapper c.codec 1 (headTs p.recs) inner ∧ inner.length = p.recs.length ∧
      ∀ j (hj : j < p.recs.length) (hj' : j < inner.length), inner[j] = { p.recs[j] with offset := j } := by
  refine ⟨renumber 0 p.recs, ?_, renumber_length 0 p.recs, ?_⟩
  · unfold buildBatch
    have : ¬ reqVersion c ≥ 3 := by rw [reqVersion_ge3_iff c hwf]; simp [hv]
    simp [this, hc, h1]
  · intro j hj hj'
    rw [renumber_get 0 p.recs j hj]; simp

/-- **compressed wrapper, format 0**: offsets untouched (the broker assigns them), no timestamp -/
theorem wrapper_v0 (c : Conf) (hwf : c.WF) (h1 : c.v1 = false) (hc : c.codec ≠ 0) (p : PSet) :
    buildBatch c p = .wrapper c.codec 0 none p.recs := by
  have hv : c.v2 = false := by
    cases h : c.v2
    · rfl
    · have := hwf.2 h; simp [h1] at this
  unfold buildBatch
  have : ¬ reqVersion c ≥ 3 := by rw [reqVersion_ge3_iff c hwf]; simp [hv]
  simp [this, hc, h1]

/-- **uncompressed message set (formats 0 and 1)**: the set is sent as it is -/
theorem msgset_uncompressed (c : Conf) (hwf : c.WF) (hv : c.v2 = false) (hc : c.codec = 0) (p : PSet) :
    buildBatch c p = .msgSet (if c.v1 then 1 else 0) p.recs := by
  unfold buildBatch
  have : ¬ reqVersion c ≥ 3 := by rw [reqVersion_ge3_iff c hwf]; simp [hv]
  simp [this, hc]

/-! ### where the broker puts the batch, and what handleSuccess reports -/

/-- log entry `e` holds message `m`: payload identity and lengths, headers (record batches), the supplied
    timestamp where the format has one -/
def Holds (c : Conf) (m : Msg) (e : Entry) : Prop :=
  e.id = m.id ∧ e.keyLen = m.keyLen ∧ e.valLen = m.valLen ∧ (c.v2 = true → e.headers = m.headers) ∧
  (∀ t, m.ts = some t → (c.v1 = true ∨ c.v2 = true) → e.ts = some t)

/-- `log` consists of exactly one entry per message, in order, at consecutive positions from `o` -/
def Placed (c : Conf) : Int → List Msg → List (Int × Entry) → Prop
  | _, [], [] => True
  | o, m :: ms, (pos, e) :: es => pos = o ∧ Holds c m e ∧ Placed c (o + 1) ms es
  | _, _, _ => False

private theorem placed_v2 {c : Conf} (hv : c.v2 = true) (fts base : Int) :
    ∀ (ms : List Msg) (rs : List Rec) (i : Int), Aligned c fts ms rs →
      Placed c (base + i) ms
        (((renumber i rs).map (fun r => (r.offset, r.entry (some (fts + r.tsDelta))))).map (fun x => (base + x.1, x.2))) := by
  intro ms
  induction ms with
  | nil =>
    intro rs i h
    cases rs with
    | nil => trivial
    | cons a t => exact absurd h (by simp [Aligned])
  | cons m ms ih =>
    intro rs i h
    cases rs with
    | nil => exact absurd h (by simp [Aligned])
    | cons r t =>
      obtain ⟨⟨a, b, d, e, f⟩, ht⟩ := h
      refine ⟨rfl, ⟨a, b, d, e, ?_⟩, ?_⟩
      · intro tt htt _; simp [Rec.entry, (f tt htt).1 hv]
      · have := ih t (i + 1) ht
        rw [show base + (i + 1) = base + i + 1 by omega] at this
        exact this

private theorem placed_seq {c : Conf} (hv : c.v2 = false) (fts base : Int) :
    ∀ (ms : List Msg) (rs : List Rec) (i : Int), Aligned c fts ms rs →
      Placed c (base + i) ms ((seqPlace i rs).map (fun x => (base + x.1, x.2))) := by
  intro ms
  induction ms with
  | nil =>
    intro rs i h
    cases rs with
    | nil => trivial
    | cons a t => exact absurd h (by simp [Aligned])
  | cons m ms ih =>
    intro rs i h
    cases rs with
    | nil => exact absurd h (by simp [Aligned])
    | cons r t =>
      obtain ⟨⟨a, b, d, _, f⟩, ht⟩ := h
      refine ⟨rfl, ⟨a, b, d, fun h => by simp [hv] at h, ?_⟩, ?_⟩
      · intro tt htt h12
        have h1 : c.v1 = true := by rcases h12 with h | h; exact h; simp [hv] at h
        simpa [Rec.entry] using (f tt htt).2 hv h1
      · have := ih t (i + 1) ht
        rw [show base + (i + 1) = base + i + 1 by omega] at this
        exact this

private theorem placed_rel {c : Conf} (hv : c.v2 = false) (fts base : Int) :
    ∀ (ms : List Msg) (rs : List Rec) (i : Int), Aligned c fts ms rs →
      Placed c (base + i) ms
        (((renumber i rs).map (fun r => (r.offset, r.entry r.ts))).map (fun x => (base + x.1, x.2))) := by
  intro ms
  induction ms with
  | nil =>
    intro rs i h
    cases rs with
    | nil => trivial
    | cons a t => exact absurd h (by simp [Aligned])
  | cons m ms ih =>
    intro rs i h
    cases rs with
    | nil => exact absurd h (by simp [Aligned])
    | cons r t =>
      obtain ⟨⟨a, b, d, _, f⟩, ht⟩ := h
      refine ⟨rfl, ⟨a, b, d, fun h => by simp [hv] at h, ?_⟩, ?_⟩
      · intro tt htt h12
        have h1 : c.v1 = true := by rcases h12 with h | h; exact h; simp [hv] at h
        simpa [Rec.entry] using (f tt htt).2 hv h1
      · have := ih t (i + 1) ht
        rw [show base + (i + 1) = base + i + 1 by omega] at this
        exact this

/-- what the broker writes when it appends the batch built from a partition set at `base`: exactly the
    submitted messages, in order, at base, base+1, … — for every format / codec -/
theorem broker_log_placed {c : Conf} (hwf : c.WF) {s : State} (h : Reach c s) {p : PSet} (hp : p ∈ s.parts)
    (base : Int) : Placed c base p.msgs (brokerAppend base (buildBatch c p)) := by
  have hal := (reach_ainv h p hp).1
  unfold brokerAppend
  cases hv : c.v2
  · by_cases hc : c.codec = 0
    · rw [msgset_uncompressed c hwf hv hc]
      have := placed_seq hv p.firstTs base p.msgs p.recs 0 hal
      simpa [Batch.decoded] using this
    · cases h1 : c.v1
      · rw [wrapper_v0 c hwf h1 hc]
        have := placed_seq hv p.firstTs base p.msgs p.recs 0 hal
        simpa [Batch.decoded] using this
      · obtain ⟨inner, hb, _, _⟩ := wrapper_relative_offsets c hwf hv h1 hc p
        unfold buildBatch at hb ⊢
        have hn : ¬ reqVersion c ≥ 3 := by rw [reqVersion_ge3_iff c hwf]; simp [hv]
        simp only [hn, ↓reduceIte, hc, h1]
        have := placed_rel hv p.firstTs base p.msgs p.recs 0 hal
        simpa [Batch.decoded] using this
  · unfold buildBatch
    simp only [(reqVersion_ge3_iff c hwf).mpr hv, ↓reduceIte]
    have := placed_v2 hv p.firstTs base p.msgs p.recs 0 hal
    simpa [Batch.decoded] using this

/-- handleSuccess's loop reports base, base+1, … in message order -/
def Reported : Int → List Msg → List (Nat × Int) → Prop
  | _, [], [] => True
  | o, m :: ms, (id, off) :: rest => id = m.id ∧ off = o ∧ Reported (o + 1) ms rest
  | _, _, _ => False

theorem assign_offsets_reported (base : Int) : ∀ (ms : List Msg) (i : Int), Reported (base + i) ms (assignOffsets base i ms) := by
  intro ms
  induction ms with
  | nil => intro i; trivial
  | cons m t ih =>
    intro i
    refine ⟨rfl, rfl, ?_⟩
    have := ih (i + 1)
    rw [show base + (i + 1) = base + i + 1 by omega] at this
    exact this

private theorem placed_reported_get {c : Conf} {o : Int} {ms : List Msg} {log : List (Int × Entry)} {rep : List (Nat × Int)}
    (hp : Placed c o ms log) (hr : Reported o ms rep) :
    log.length = ms.length ∧ rep.length = ms.length ∧
    ∀ i (hi : i < ms.length) (hl : i < log.length) (hrep : i < rep.length),
      rep[i] = (ms[i].id, o + i) ∧ log[i].1 = o + i ∧ Holds c ms[i] log[i].2 := by
  induction ms generalizing o log rep with
  | nil =>
    cases log with
    | nil =>
      cases rep with
      | nil => exact ⟨rfl, rfl, fun i hi => by simp at hi⟩
      | cons a t => exact absurd hr (by simp [Reported])
    | cons a t => exact absurd hp (by simp [Placed])
  | cons m ms ih =>
    cases log with
    | nil => exact absurd hp (by simp [Placed])
    | cons a t =>
      cases rep with
      | nil => exact absurd hr (by simp [Reported])
      | cons b u =>
        obtain ⟨pos, e⟩ := a
        obtain ⟨id, off⟩ := b
        obtain ⟨hp1, hp2, hp3⟩ := hp
        obtain ⟨hr1, hr2, hr3⟩ := hr
        obtain ⟨l1, l2, hrest⟩ := ih hp3 hr3
        refine ⟨by simp [l1], by simp [l2], ?_⟩
        intro i hi hl hrep
        cases i with
        | zero => simp [hr1, hr2, hp1, hp2]
        | succ j =>
          have := hrest j (by simpa using hi) (by simpa using hl) (by simpa using hrep)
          simp only [List.getElem_cons_succ]
          refine ⟨?_, ?_, this.2.2⟩
          · rw [this.1]; congr 1; push_cast; omega
          · rw [this.2.1]; push_cast; omega

/-- **success_offset_is_log_position**: for every produce set any add sequence can build, every format and
    codec, and every base offset: if the broker appended the decoded batch at `base` and answered ErrNoError
    with that base offset, then handleSuccess reports for msgs[i] the offset base+i, the log holds exactly
    one entry per submitted message (nothing else), and the entry at base+i is msgs[i]'s payload (with its
    timestamp if supplied and the format has one). -/
theorem success_offset_is_log_position {c : Conf} (hwf : c.WF) {s : State} (h : Reach c s) {p : PSet}
    (hp : p ∈ s.parts) (base : Int) (retryMax : Int) (lat : Option Int) (dup : Bool) :
    ∃ offs, handleBlock c dup retryMax true (some (0, base, lat)) p.msgs = .successes offs (if c.v1 then lat else none) ∧
      (brokerAppend base (buildBatch c p)).length = p.msgs.length ∧ offs.length = p.msgs.length ∧
      (buildBatch c p).wellFormed = true ∧
      ∀ i (hi : i < p.msgs.length) (hl : i < (brokerAppend base (buildBatch c p)).length) (ho : i < offs.length),
        offs[i] = (p.msgs[i].id, base + i) ∧
        (brokerAppend base (buildBatch c p))[i].1 = base + i ∧
        Holds c p.msgs[i] (brokerAppend base (buildBatch c p))[i].2 := by
  refine ⟨assignOffsets base 0 p.msgs, by simp [handleBlock], ?_⟩
  have hpl := broker_log_placed hwf h hp base
  have hrep := assign_offsets_reported base p.msgs 0
  rw [show base + 0 = base by omega] at hrep
  obtain ⟨l1, l2, hget⟩ := placed_reported_get hpl hrep
  refine ⟨l1, l2, ?_, hget⟩
  -- well-formedness of the record batch: LastOffsetDelta = count − 1
  have hne : p.recs ≠ [] := by
    have ha := reach_ainv h p hp
    have hl := aligned_length ha.1
    intro hnil
    rw [hnil] at hl
    exact ha.2.1 (List.length_eq_zero_iff.mp hl.symm)
  cases hv : c.v2
  · by_cases hc : c.codec = 0
    · rw [msgset_uncompressed c hwf hv hc]; rfl
    · cases h1 : c.v1
      · rw [wrapper_v0 c hwf h1 hc]; rfl
      · obtain ⟨inner, hb, _, _⟩ := wrapper_relative_offsets c hwf hv h1 hc p
        rw [hb]; rfl
  · obtain ⟨recs, hb, hlen, _⟩ := record_batch_offset_deltas c hwf hv p hne
    rw [hb]; simp [Batch.wellFormed, hlen]

/-! ### handleSuccess decision table, duplicates -/

/-- the per-block verdict, spelled out (error codes from the `switch block.Err` of handleSuccess) -/
theorem handle_block_table (c : Conf) (dup : Bool) (retryMax : Int) (msgs : List Msg) :
    handleBlock c dup retryMax false none msgs = .successesUnassigned (msgs.map (·.id)) ∧
    handleBlock c dup retryMax true none msgs = .errors errIncompleteResponse (msgs.map (·.id)) ∧
    (∀ base lat, handleBlock c dup retryMax true (some (0, base, lat)) msgs =
      .successes (assignOffsets base 0 msgs) (if c.v1 then lat else none)) ∧
    (∀ err base lat, err ∈ retriable → retryMax > 0 →
      handleBlock c dup retryMax true (some (err, base, lat)) msgs = .retry err (msgs.map (·.id))) ∧
    (∀ err base lat, err ∈ retriable → retryMax ≤ 0 →
      handleBlock c dup retryMax true (some (err, base, lat)) msgs = .errors err (msgs.map (·.id))) ∧
    (∀ err base lat, err ≠ 0 → err ≠ errDuplicateSequenceNumber → err ∉ retriable →
      handleBlock c dup retryMax true (some (err, base, lat)) msgs = .errors err (msgs.map (·.id))) := by
  refine ⟨by simp [handleBlock], by simp [handleBlock], fun _ _ => by simp [handleBlock], ?_, ?_, ?_⟩
  · intro err base lat hr hm
    have h0 : err ≠ 0 := by intro h; subst h; simp [retriable] at hr
    have h46 : err ≠ errDuplicateSequenceNumber := by intro h; subst h; simp [retriable, errDuplicateSequenceNumber] at hr
    have : ¬ retryMax ≤ 0 := by omega
    simp [handleBlock, h0, h46, hr, this]
  · intro err base lat hr hm
    have h0 : err ≠ 0 := by intro h; subst h; simp [retriable] at hr
    have h46 : err ≠ errDuplicateSequenceNumber := by intro h; subst h; simp [retriable, errDuplicateSequenceNumber] at hr
    simp [handleBlock, h0, h46, hr, hm]
  · intro err base lat h0 h46 hr
    simp [handleBlock, h0, h46, hr]

/-- **dedup_success_offset** (full strength, variant with offsets assigned): a success reported for a batch
    the broker answered with DuplicateSequenceNumber carries base+i for msgs[i] -/
theorem dedup_success_offset (c : Conf) (retryMax base : Int) (lat : Option Int) (msgs : List Msg) :
    handleBlock c true retryMax true (some (errDuplicateSequenceNumber, base, lat)) msgs =
      .successes (assignOffsets base 0 msgs) none := by
  simp [handleBlock, errDuplicateSequenceNumber]

/-- pinned tree: successes are reported with offsets only under the extra hypothesis that the block's error
    is ErrNoError (the duplicate branch reports success without touching Offset) -/
theorem dedup_success_offset_partial (c : Conf) (retryMax base err : Int) (lat : Option Int) (msgs : List Msg)
    (offs : List (Nat × Int)) (l : Option Int)
    (h : handleBlock c false retryMax true (some (err, base, lat)) msgs = .successes offs l) :
    err = 0 ∧ offs = assignOffsets base 0 msgs := by
  unfold handleBlock at h
  simp only [Bool.not_true, Bool.false_eq_true, ↓reduceIte] at h
  by_cases h0 : err = 0
  · simp only [h0, ↓reduceIte, Verdict.successes.injEq] at h
    exact ⟨h0, h.1.symm⟩
  · simp only [h0, ↓reduceIte] at h
    split at h
    · cases h
    · split at h
      · split at h <;> cases h
      · cases h

/-! ### non-vacuity -/

def exV2 : Conf := ⟨true, true, false, 0, false, 104857600, 1000000, 0, 0, 0, 0⟩
def exGz1 : Conf := ⟨true, false, false, 1, false, 104857600, 1000000, 0, 0, 0, 0⟩
def exGz0 : Conf := ⟨false, false, false, 1, false, 104857600, 1000000, 0, 0, 0, 0⟩
def m1 : Msg := ⟨1, (0, 0), 3, 10, [(1, 2)], some 1000, 0⟩
def m2 : Msg := ⟨2, (0, 0), 0, 5, [], none, 0⟩
def m3 : Msg := ⟨3, (0, 0), 2, 2, [], some 990, 0⟩
def three (c : Conf) : State := add c (add c (add c State.empty 7 m1) 8 m2) 9 m3

example : exV2.WF ∧ exGz1.WF ∧ exGz0.WF := by simp [Conf.WF, exV2, exGz1, exGz0]
example : Reach exV2 (three exV2) := Reach.add 9 m3 (Reach.add 8 m2 (Reach.add 7 m1 Reach.empty))
/-- record batch: deltas 0,1,2, LastOffsetDelta 2, log positions 100,101,102 hold ids 1,2,3 with timestamps 1000, clock, 990 -/
example : (buildRequest exV2 (three exV2)).map (fun x => match x.2 with
    | .recordBatch _ lod _ recs => (lod, recs.map (·.offset), recs.map (·.tsDelta)) | _ => (0, [], [])) = [(2, [0, 1, 2], [0, -992, -10])] := by decide
example : (three exV2).parts.map (fun p => (brokerAppend 100 (buildBatch exV2 p)).map (fun x => (x.1, x.2.id, x.2.ts))) =
    [[(100, 1, some 1000), (101, 2, some 8), (102, 3, some 990)]] := by decide
/-- format-1 wrapper: relative offsets 0,1,2 and the wrapper takes the first message's timestamp -/
example : (buildRequest exGz1 (three exGz1)).map (fun x => match x.2 with
    | .wrapper codec magic ts inner => (codec, magic, ts, inner.map (·.offset)) | _ => (0, 0, none, [])) = [(1, 1, some 1000, [0, 1, 2])] := by decide
/-- format-0 wrapper: offsets untouched, no timestamp -/
example : (buildRequest exGz0 (three exGz0)).map (fun x => match x.2 with
    | .wrapper codec magic ts inner => (codec, magic, ts, inner.map (·.offset)) | _ => (0, 0, none, [])) = [(1, 0, none, [0, 0, 0])] := by decide
/-- handleSuccess: offsets 100,101,102 -/
example : handleBlock exV2 false 3 true (some (0, 100, none)) [m1, m2, m3] = .successes [(1, 100), (2, 101), (3, 102)] none := by decide
/-- the pinned duplicate branch: success without offsets (counter-example to the full-strength statement) -/
example : handleBlock exV2 false 3 true (some (46, 100, none)) [m1, m2] = .successesUnassigned [1, 2] := by decide
example : handleBlock exV2 true 3 true (some (46, 100, none)) [m1, m2] = .successes [(1, 100), (2, 101)] none := by decide

end Props.C04
