/-
  C02 composition, stage C, towards `DeliverVisProj`, worker level: the outcome-bearing actions of `p` (`isOwn p`) of
  the two passes of handleSuccess over a set with several partitions, with retries and fin flags.
    * `own_loop1`  - first pass: those of `verdictActs` on the messages of `p` in the set.
    * `own_loop2`  - second pass: if `p` is hit, the bounces of its messages in the set and in the buffer.
    * `own_handle` - both passes (a per-partition answer), with the state seen from `p`.
-/
import SaramaVerif.Props.C02multiM
import SaramaVerif.Lemmas.C02sysBP

set_option linter.unusedSimpArgs false
set_option linter.unusedVariables false

namespace Props.C02sys
open Model Model.Pipeline Model.PipelineN Model.BrokerProd Lemmas.C02sys
open Props.C02bp (mem_onPart onPart_offPart onPart_append onPart_single loop2_frame loop2_part hit hit_cons_self_skip
  hit_cons_other hit_all)

theorem own_of_foreign {p : Int} {as : List Action} (h : ForeignActs p as) : as.filter (isOwn p) = [] := by
  rw [List.filter_eq_nil_iff]
  intro a ha
  have := h a ha
  cases a with
  | requeue i q r f => simp only [isOwn, beq_iff_eq]; exact this.1 i q r f rfl
  | succ i q => simp only [isOwn, beq_iff_eq]; exact this.2.1 i q rfl
  | expire i q f => simp only [isOwn, beq_iff_eq]; exact this.2.2.1 i q f rfl
  | fail i q => simp only [isOwn, beq_iff_eq]; exact this.2.2.2 i q rfl
  | _ => simp [isOwn]

theorem own_retryMsgs (M : Nat) {p : Int} (ts : List Pipeline.Tok) (h : ∀ t ∈ ts, t.part = p) :
    (retryMsgs M ts).filter (isOwn p) = retryMsgs M ts := by
  rw [List.filter_eq_self]
  intro a ha
  obtain ⟨t, ht, rfl⟩ := List.mem_map.mp ha
  unfold retryMsg
  split <;> simp [isOwn, h t ht]

theorem verdictActs_nil (M : Nat) (vd : BrokerProd.Verdict) : verdictActs M vd [] = [] := by simp [verdictActs]

/-- first pass: the outcomes of `p` -/
theorem own_loop1 (M : Nat) (v : Int → BrokerProd.Verdict) (p : Int) (ps : List Int) :
    ∀ (rem : List Pipeline.Tok), (loop1 M v ps rem).filter (isOwn p) =
      if p ∈ ps then (verdictActs M (v p) (onPart p rem)).filter (isOwn p) else [] := by
  induction ps with
  | nil => intro rem; simp [loop1]
  | cons q ps ih =>
    intro rem
    unfold loop1
    rw [List.filter_append, ih]
    by_cases h : q = p
    · subst h
      simp [onPart_offPart, verdictActs_nil]
    · have hf : (verdictActs M (v q) (onPart q rem)).filter (isOwn p) = [] :=
        own_of_foreign (foreign_verdictActs M (v q) _ (fun t ht e => h ((part_of_onPart ht).symm.trans e)))
      have hp : p ≠ q := fun e => h e.symm
      rw [hf, onPart_offPart]
      simp [hp]

/-- second pass: the outcomes of `p` -/
theorem own_loop2 (M : Nat) (v : Int → BrokerProd.Verdict) (p : Int) (ps : List Int) :
    ∀ (rem : List Pipeline.Tok) (s : St), (loop2 M v ps rem s).2.filter (isOwn p) =
      if hit v p ps rem then retryMsgs M (onPart p rem) ++ retryMsgs M (onPart p s.buffer) else [] := by
  induction ps with
  | nil => intro rem s; simp [loop2, hit]
  | cons q ps ih =>
    intro rem s
    unfold loop2
    by_cases g : (onPart q rem).isEmpty = true ∨ v q ≠ .retriable
    · simp only [g, ↓reduceIte]
      rw [ih]
      by_cases h : p = q
      · subst h
        obtain ⟨n1, n2⟩ := hit_cons_self_skip v p ps rem g
        simp [n1, n2]
      · have e := hit_cons_other v p q ps rem h
        simp only [e, onPart_offPart, h, ↓reduceIte]
    · simp only [g, ↓reduceIte]
      have g1 : onPart q rem ≠ [] := by
        intro hh; apply g; left; simp [hh]
      have g2 : v q = .retriable := by
        by_cases hv : v q = .retriable
        · exact hv
        · exact absurd (Or.inr hv) g
      have e0 : retryMsgs M (onPart q rem) ++ Action.drop q :: retryMsgs M (onPart q s.buffer) ++
          (loop2 M v ps (offPart q rem) { s with cr := setCr s.cr q true, buffer := offPart q s.buffer }).2 =
          retryMsgs M (onPart q rem) ++ ([Action.drop q] ++ (retryMsgs M (onPart q s.buffer) ++
          (loop2 M v ps (offPart q rem) { s with cr := setCr s.cr q true, buffer := offPart q s.buffer }).2)) := by
        simp
      rw [e0, List.filter_append, List.filter_append, List.filter_append, ih]
      have hd : ([Action.drop q] : List Action).filter (isOwn p) = [] := by simp [isOwn]
      rw [hd]
      by_cases h : p = q
      · subst h
        have n2 : ¬ hit v p ps (offPart p rem) := by
          rintro ⟨_, h2, _⟩; exact h2 (by simp [onPart_offPart])
        have n1 : hit v p (p :: ps) rem := ⟨by simp, g1, g2⟩
        rw [own_retryMsgs M _ (fun t ht => part_of_onPart ht), own_retryMsgs M _ (fun t ht => part_of_onPart ht)]
        simp [n1, n2]
      · have e := hit_cons_other v p q ps rem h
        have hq : q ≠ p := fun x => h x.symm
        rw [own_of_foreign (foreign_retryMsgs M _ (fun t ht x => hq ((part_of_onPart ht).symm.trans x))),
          own_of_foreign (foreign_retryMsgs M _ (fun t ht x => hq ((part_of_onPart ht).symm.trans x)))]
        simp only [e, onPart_offPart, h, ↓reduceIte, List.nil_append]

/-- both passes, a per-partition answer, seen from a partition `p` of which the set holds something -/
theorem own_handle (M : Nat) (b : St) (sent : List Pipeline.Tok) (v : Int → BrokerProd.Verdict) (p : Int)
    (hne : onPart p sent ≠ []) :
    (handle M b sent (.verdicts v [] [])).2.filter (isOwn p) =
      (verdictActs M (v p) (onPart p sent)).filter (isOwn p) ++
        (if 0 < M ∧ v p = .retriable then retryMsgs M (onPart p sent) ++ retryMsgs M (onPart p b.buffer) else []) ∧
    (handle M b sent (.verdicts v [] [])).1.sets = b.sets ∧
    (handle M b sent (.verdicts v [] [])).1.wait = b.wait ∧
    (handle M b sent (.verdicts v [] [])).1.closing = b.closing ∧
    (handle M b sent (.verdicts v [] [])).1.cr p = (b.cr p || decide (0 < M ∧ v p = .retriable)) ∧
    onPart p (handle M b sent (.verdicts v [] [])).1.buffer =
      (if 0 < M ∧ v p = .retriable then [] else onPart p b.buffer) := by
  have hmem : p ∈ ([] ++ partsOf sent) := by simpa using Props.C02bp.mem_parts_of_onPart p sent hne
  unfold handle
  dsimp only
  by_cases h : retryTopics M v sent = true
  · rw [if_pos h]
    have hM : 0 < M := ((Props.C02bp.retryTopics_iff M v sent).1 h).1
    obtain ⟨a, bb, c, _, _⟩ := loop2_frame M v ([] ++ partsOf sent) sent b
    obtain ⟨b1, b2, _, _⟩ := loop2_part M v p ([] ++ partsOf sent) sent b
    have hh : hit v p ([] ++ partsOf sent) sent ↔ (0 < M ∧ v p = .retriable) := by
      rw [hit_all]; exact ⟨fun x => ⟨hM, x.2⟩, fun x => ⟨hne, x.2⟩⟩
    refine ⟨?_, a, bb, c, ?_, ?_⟩
    · rw [List.filter_append, own_loop1, own_loop2, if_pos hmem]
      by_cases hF : 0 < M ∧ v p = .retriable
      · rw [if_pos (hh.2 hF), if_pos hF]
      · rw [if_neg (fun x => hF (hh.1 x)), if_neg hF]
    · rw [b2]; by_cases hF : 0 < M ∧ v p = .retriable
      · rw [decide_eq_true (hh.2 hF), decide_eq_true hF]
      · rw [decide_eq_false (fun x => hF (hh.1 x)), decide_eq_false hF]
    · rw [b1]; by_cases hF : 0 < M ∧ v p = .retriable
      · rw [if_pos (hh.2 hF), if_pos hF]
      · rw [if_neg (fun x => hF (hh.1 x)), if_neg hF]
  · rw [if_neg h]
    have hF : ¬ (0 < M ∧ v p = .retriable) := by
      intro ⟨hM, hv⟩
      apply h
      rw [Props.C02bp.retryTopics_iff]
      obtain ⟨t, ht, htp⟩ := Props.C02bp.exists_of_onPart_ne hne
      exact ⟨hM, t, ht, by rw [htp]; exact hv⟩
    refine ⟨?_, rfl, rfl, rfl, ?_, ?_⟩
    · rw [own_loop1, if_pos hmem, if_neg hF]; simp
    · simp [hF]
    · rw [if_neg hF]

/-- the one-partition worker: both passes on a non-empty set of partition 0 with a constant verdict -/
theorem handle_P0 (M : Nat) (b1 : St) (t : Pipeline.Tok) (r : List Pipeline.Tok) (x : BrokerProd.Verdict)
    (hs : P0 (t :: r)) (hb : P0 b1.buffer) :
    handle M b1 (t :: r) (.verdicts (fun _ => x) [] []) =
      if 0 < M ∧ x = .retriable then
        (({ b1 with cr := setCr b1.cr 0 true, buffer := [] } : St),
          retryMsgs M (t :: r) ++ Action.drop 0 :: retryMsgs M b1.buffer)
      else (b1, verdictActs M x (t :: r)) := by
  unfold handle
  dsimp only
  by_cases hF : 0 < M ∧ x = .retriable
  · obtain ⟨hM, rfl⟩ := hF
    have hrt : retryTopics M (fun _ => BrokerProd.Verdict.retriable) (t :: r) = true := by
      simp [retryTopics, hM]
    have hM0 : ¬ M = 0 := by omega
    have h2 := loop2_P0_hit M (fun _ => BrokerProd.Verdict.retriable) t r hs b1 hb rfl
    rw [if_pos hrt, if_pos ⟨hM, rfl⟩]
    simp only [List.nil_append, loop1_P0 M _ hs, h2, verdictActs, hM0]
    simp
  · have hrt : ¬ retryTopics M (fun _ => x) (t :: r) = true := by
      intro h
      rw [Props.C02bp.retryTopics_iff] at h
      obtain ⟨hM, _, _, hx⟩ := h
      exact hF ⟨hM, hx⟩
    rw [if_neg hrt, if_neg hF]
    simp only [List.nil_append, loop1_P0 M _ hs]

end Props.C02sys
