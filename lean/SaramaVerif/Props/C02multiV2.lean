/-
  C02 composition, stage C, towards `DeliverVisProj`, worker level: handleSuccess (a per-partition answer) over a set
  with several partitions that holds something of `p`, against the one-partition worker on the projected set with the
  verdict of `p`: `handle_proj_parts` - same outcome-bearing actions of `p` (relabelled, with retries and fin flags),
  and the states stay related (`projB p`, up to `sets` and `stale`).
-/
import SaramaVerif.Props.C02multiV

set_option linter.unusedSimpArgs false
set_option linter.unusedVariables false

namespace Props.C02sys
open Model Model.Pipeline Model.PipelineN Model.BrokerProd Lemmas.C02sys

theorem P0_projL (p : Int) (l : List Pipeline.Tok) : P0 (projL p l) := by
  intro t ht
  simp only [projL, List.mem_map] at ht
  obtain ⟨x, _, rfl⟩ := ht
  rfl

theorem retryMsgs_relab (M : Nat) (l : List Pipeline.Tok) : retryMsgs M (l.map relab) = (retryMsgs M l).map relabA := by
  simp [retryMsgs, List.map_map, Function.comp_def, retryMsg_relab]

theorem own_succs_relab {p : Int} (l : List Pipeline.Tok) (hl : ∀ t ∈ l, t.part = p) :
    ((l.map relab).map (fun t => Action.succ t.id t.part)).filter (isOwn 0) =
      ((l.map (fun t => Action.succ t.id t.part)).filter (isOwn p)).map relabA := by
  induction l with
  | nil => rfl
  | cons t r ih =>
    have ht := hl t (List.mem_cons_self ..)
    have ih' := ih (fun x hx => hl x (List.mem_cons_of_mem _ hx))
    have e1 : isOwn 0 (Action.succ (relab t).id (relab t).part) = true := by simp [isOwn, relab]
    have e2 : isOwn p (Action.succ t.id t.part) = true := by simp [isOwn, ht]
    have e3 : isOwn 0 (Action.fail (relab t).id (relab t).part) = true := by simp [isOwn, relab]
    have e4 : isOwn p (Action.fail t.id t.part) = true := by simp [isOwn, ht]
    simp only [List.map_cons, List.filter_cons, e1, e2, e3, e4, if_true, ih']
    simp [relabA, relab]

theorem own_fails_relab {p : Int} (l : List Pipeline.Tok) (hl : ∀ t ∈ l, t.part = p) :
    ((l.map relab).map (fun t => Action.fail t.id t.part)).filter (isOwn 0) =
      ((l.map (fun t => Action.fail t.id t.part)).filter (isOwn p)).map relabA := by
  induction l with
  | nil => rfl
  | cons t r ih =>
    have ht := hl t (List.mem_cons_self ..)
    have ih' := ih (fun x hx => hl x (List.mem_cons_of_mem _ hx))
    have e1 : isOwn 0 (Action.succ (relab t).id (relab t).part) = true := by simp [isOwn, relab]
    have e2 : isOwn p (Action.succ t.id t.part) = true := by simp [isOwn, ht]
    have e3 : isOwn 0 (Action.fail (relab t).id (relab t).part) = true := by simp [isOwn, relab]
    have e4 : isOwn p (Action.fail t.id t.part) = true := by simp [isOwn, ht]
    simp only [List.map_cons, List.filter_cons, e1, e2, e3, e4, if_true, ih']
    simp [relabA, relab]

theorem own_verdictActs_relab (M : Nat) (x : BrokerProd.Verdict) {p : Int} (l : List Pipeline.Tok)
    (hl : ∀ t ∈ l, t.part = p) :
    (verdictActs M x (l.map relab)).filter (isOwn 0) = ((verdictActs M x l).filter (isOwn p)).map relabA := by
  have hs := own_succs_relab l hl
  have hf := own_fails_relab l hl
  cases l with
  | nil => simp [verdictActs]
  | cons t r =>
    unfold verdictActs
    cases x with
    | ok => simpa using hs
    | missing => simpa using hf
    | fatal =>
      by_cases hm : M = 0
      · simp only [hm, ↓reduceIte, List.map_cons, List.isEmpty_cons, Bool.false_eq_true, List.filter_append]
        simpa [isOwn] using hf
      · simp only [hm, ↓reduceIte, List.map_cons, List.isEmpty_cons, Bool.false_eq_true, List.nil_append]
        simpa using hf
    | retriable =>
      by_cases hm : M = 0
      · simp only [hm, ↓reduceIte, List.map_cons, List.isEmpty_cons, Bool.false_eq_true]
        simpa [isOwn] using hf
      · simp [hm]

/-- **handleSuccess with a per-partition answer, projected on a partition of which the set holds something** -/
theorem handle_proj_parts (M : Nat) (b b1 : St) (sent : List Pipeline.Tok) (v : Int → BrokerProd.Verdict) (p : Int)
    (hne : projL p sent ≠ [])
    (h1 : b1.closing = b.closing) (h2 : b1.cr = (projB p b).cr) (h3 : b1.buffer = projL p b.buffer)
    (h4 : b1.wait = projWait p b.wait) :
    (handle M b1 (projL p sent) (.verdicts (fun _ => v p) [] [])).2.filter (isOwn 0) =
      ((handle M b sent (.verdicts v [] [])).2.filter (isOwn p)).map relabA ∧
    (handle M b1 (projL p sent) (.verdicts (fun _ => v p) [] [])).1.closing =
      (handle M b sent (.verdicts v [] [])).1.closing ∧
    (handle M b1 (projL p sent) (.verdicts (fun _ => v p) [] [])).1.cr =
      (projB p (handle M b sent (.verdicts v [] [])).1).cr ∧
    (handle M b1 (projL p sent) (.verdicts (fun _ => v p) [] [])).1.buffer =
      projL p (handle M b sent (.verdicts v [] [])).1.buffer ∧
    (handle M b1 (projL p sent) (.verdicts (fun _ => v p) [] [])).1.wait =
      projWait p (handle M b sent (.verdicts v [] [])).1.wait ∧
    (handle M b1 (projL p sent) (.verdicts (fun _ => v p) [] [])).1.sets = b1.sets ∧
    (handle M b sent (.verdicts v [] [])).1.sets = b.sets := by
  have hne' : onPart p sent ≠ [] := by
    intro e; apply hne; simp [projL, e]
  have hpo : ∀ l : List Pipeline.Tok, ∀ t ∈ onPart p l, t.part = p := fun l t ht => part_of_onPart ht
  obtain ⟨n1, n2, n3, n4, n5, n6⟩ := own_handle M b sent v p hne'
  cases hsr : projL p sent with
  | nil => exact absurd hsr hne
  | cons t r =>
    have hP : P0 (t :: r) := hsr ▸ P0_projL p sent
    have hPb : P0 b1.buffer := h3 ▸ P0_projL p b.buffer
    rw [handle_P0 M b1 t r (v p) hP hPb]
    by_cases hF : 0 < M ∧ v p = .retriable
    · rw [if_pos hF] at n1 n6 ⊢
      have hM0 : ¬ M = 0 := by omega
      have hva : verdictActs M (v p) (onPart p sent) = [] := by
        rw [hF.2]; simp [verdictActs, hM0]
      refine ⟨?_, ?_, ?_, ?_, ?_, rfl, n2⟩
      · rw [n1, hva]
        have e : retryMsgs M (t :: r) ++ Action.drop 0 :: retryMsgs M b1.buffer =
            retryMsgs M (t :: r) ++ ([Action.drop 0] ++ retryMsgs M b1.buffer) := by simp
        show (retryMsgs M (t :: r) ++ Action.drop 0 :: retryMsgs M b1.buffer).filter (isOwn 0) = _
        rw [e, List.filter_append, List.filter_append, own_retryMsgs M _ hP, own_retryMsgs M _ hPb]
        rw [← hsr, h3]
        simp [projL, retryMsgs_relab, isOwn]
      · show b1.closing = _
        rw [h1, n4]
      · show setCr b1.cr 0 true = _
        funext q
        by_cases hq : q = 0
        · simp [setCr, projB, hq, n5, hF]
        · simp [setCr, projB, hq, h2]
      · show ([] : List Pipeline.Tok) = _
        simp [projL, n6]
      · show b1.wait = _
        rw [h4, n3]
    · rw [if_neg hF] at n1 n6 ⊢
      refine ⟨?_, ?_, ?_, ?_, ?_, rfl, n2⟩
      · show (verdictActs M (v p) (t :: r)).filter (isOwn 0) = _
        rw [n1, List.append_nil, ← hsr]
        exact own_verdictActs_relab M (v p) (onPart p sent) (hpo sent)
      · show b1.closing = _
        rw [h1, n4]
      · show b1.cr = _
        rw [h2]
        funext q
        by_cases hq : q = 0
        · simp [projB, hq, n5, hF]
        · simp [projB, hq]
      · show b1.buffer = _
        rw [h3]; simp only [projL, n6]
      · show b1.wait = _
        rw [h4, n3]

end Props.C02sys
