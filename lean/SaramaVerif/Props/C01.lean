import SaramaVerif.Model.Producer
/-
  C01 — every produced message gets exactly one terminal outcome.
  Theorems over ALL event sequences the accounting model accepts (any schedule, fault script, retry budget,
  flush setting: these only influence WHICH accepted sequence occurs).  Trace validation (harness) checks on
  every run that the real pipeline's event streams are accepted sequences.
-/
namespace Props.C01
open Model.Producer

/-- 1 while the shutdown marker is in the pipeline -/
def pendingShutdown (s : St) : Nat := if s.shutdownStarted ∧ ¬ s.shutdownSeen then 1 else 0

/-- the accounting invariant -/
structure PInv (s : St) : Prop where
  wg_eq      : s.wg = (s.live.length : Int) + (s.markers : Int) + (pendingShutdown s : Int)
  conserve   : ∀ id, s.live.count id + s.succ.count id + s.errs.count id = s.accepted.count id + s.rejected.count id
  once       : ∀ id, s.accepted.count id + s.rejected.count id ≤ 1
  live_pos   : ∀ id, id ∈ s.live → 0 < id
  rej_errs   : ∀ id, s.rejected.count id ≤ s.errs.count id
  retry_le   : ∀ id, s.retryLog.count id ≤ s.cfg.retryMax
  pass_le    : ∀ id, s.passLog.count id ≤ s.retryLog.count id + 1
  icept_le   : ∀ id, s.iceptLog.count id ≤ s.cfg.icepts
  icept_full : ∀ id, 0 < s.passLog.count id → s.iceptLog.count id = s.cfg.icepts
  seq_once   : ∀ id, s.seqLog.count id ≤ 1
  seen_start : s.shutdownSeen = true → s.shutdownStarted = true
  waited_emp : s.waited = true → s.live = [] ∧ s.markers = 0 ∧ s.shutdownSeen = true
  closed_w   : s.closed = true → s.waited = true

theorem init_inv (cfg : Cfg) : PInv (init cfg) := by
  constructor <;> simp [init, pendingShutdown]

private theorem count_cons_le (l : List Int) (a b : Int) : l.count a ≤ (b :: l).count a := by
  simp only [List.count_cons]; omega

private theorem count_erase_le (l : List Int) (a b : Int) : (l.erase b).count a ≤ l.count a := by
  by_cases h : a = b
  · subst h; rw [List.count_erase_self]; omega
  · rw [List.count_erase_of_ne h]; omega

private theorem mem_count_pos {l : List Int} {a : Int} (h : a ∈ l) : 0 < l.count a :=
  List.count_pos_iff.mpr h

private theorem terminate_conserve (live succ errs acc rej : List Int) (id : Int) (hl : id ∈ live)
    (h : ∀ a, live.count a + succ.count a + errs.count a = acc.count a + rej.count a) :
    (∀ a, (live.erase id).count a + (id :: succ).count a + errs.count a = acc.count a + rej.count a) ∧
    (∀ a, (live.erase id).count a + succ.count a + (id :: errs).count a = acc.count a + rej.count a) := by
  have hp := mem_count_pos hl
  constructor <;> intro a <;> have := h a <;> simp only [List.count_cons] <;> by_cases ha : a = id
  · subst ha; rw [List.count_erase_self]; simp; omega
  · rw [List.count_erase_of_ne ha]; have : ¬ (id = a) := fun e => ha e.symm; simp [this]; omega
  · subst ha; rw [List.count_erase_self]; simp; omega
  · rw [List.count_erase_of_ne ha]; have : ¬ (id = a) := fun e => ha e.symm; simp [this]; omega

private theorem erase_length (l : List Int) (id : Int) (h : id ∈ l) : ((l.erase id).length : Int) = l.length - 1 := by
  rw [List.length_erase_of_mem h]
  have : 0 < l.length := List.length_pos_of_mem h
  omega

/-- the invariant only mentions the accounting fields: a step that leaves them alone keeps it -/
local macro "keep_inv " hi:ident : tactic =>
  `(tactic| exact ⟨($hi).wg_eq, ($hi).conserve, ($hi).once, ($hi).live_pos, ($hi).rej_errs, ($hi).retry_le, ($hi).pass_le,
                   ($hi).icept_le, ($hi).icept_full, ($hi).seq_once, ($hi).seen_start, ($hi).waited_emp, ($hi).closed_w⟩)

/-- every step the model accepts preserves the invariant -/
theorem step_inv (s s' : St) (e : Ev) (h : step s e = .ok s') (hi : PInv s) : PInv s' := by
  cases e with
  | accept id =>
    simp only [step] at h
    split at h; · cases h
    split at h; · cases h
    split at h; · cases h
    split at h; · cases h
    rename_i hpos hdup hsd hcl
    injection h with h; subst h
    have hna : s.accepted.count id = 0 := List.count_eq_zero.mpr (fun hh => hdup (Or.inl hh))
    have hnr : s.rejected.count id = 0 := List.count_eq_zero.mpr (fun hh => hdup (Or.inr hh))
    refine { hi with wg_eq := ?_, conserve := ?_, once := ?_, live_pos := ?_, waited_emp := ?_ }
    · have := hi.wg_eq; simp only [List.length_cons, pendingShutdown] at *; push_cast; omega
    · intro a; have := hi.conserve a; simp only [List.count_cons]; split <;> omega
    · intro a; have := hi.once a; simp only [List.count_cons]
      by_cases ha : id = a
      · subst ha; simp; omega
      · simp [ha]; omega
    · intro a ha; rcases List.mem_cons.mp ha with rfl | h
      · omega
      · exact hi.live_pos a h
    · intro hw; have := hi.waited_emp hw; simp_all
  | reject id =>
    simp only [step] at h
    split at h; · cases h
    split at h; · cases h
    split at h; · cases h
    split at h; · cases h
    rename_i hpos hdup hsd hcl
    injection h with h; subst h
    have hna : s.accepted.count id = 0 := List.count_eq_zero.mpr (fun hh => hdup (Or.inl hh))
    have hnr : s.rejected.count id = 0 := List.count_eq_zero.mpr (fun hh => hdup (Or.inr hh))
    refine { hi with wg_eq := ?_, conserve := ?_, once := ?_, rej_errs := ?_ }
    · have := hi.wg_eq; simpa [pendingShutdown] using this
    · intro a; have := hi.conserve a; simp only [List.count_cons]; split <;> omega
    · intro a; have := hi.once a; simp only [List.count_cons]
      by_cases ha : id = a
      · subst ha; simp; omega
      · simp [ha]; omega
    · intro a; have := hi.rej_errs a; simp only [List.count_cons]; split <;> omega
  | icept id =>
    simp only [step] at h
    split at h; · cases h
    split at h; · cases h
    split at h; · cases h
    split at h; · cases h
    rename_i hl hr hp hc
    injection h with h; subst h
    refine { hi with wg_eq := ?_, icept_le := ?_, icept_full := ?_ }
    · have := hi.wg_eq; simpa [pendingShutdown] using this
    · intro a; simp only [List.count_cons]; have := hi.icept_le a
      by_cases ha : id = a
      · subst ha; simp; omega
      · simp [ha]; omega
    · intro a hpa; simp only [List.count_cons]
      have := hi.icept_full a hpa
      by_cases ha : id = a
      · subst ha; simp at hp; omega
      · simp [ha]; omega
  | pass id r =>
    simp only [step] at h
    split at h
    · injection h with h; subst h; exact hi
    split at h; · cases h
    split at h; · cases h
    split at h; · cases h
    split at h; · cases h
    rename_i hpos hl hr hp hc
    injection h with h; subst h
    refine { hi with wg_eq := ?_, pass_le := ?_, icept_full := ?_ }
    · have := hi.wg_eq; simpa [pendingShutdown] using this
    · intro a; simp only [List.count_cons]; have := hi.pass_le a
      by_cases ha : id = a
      · subst ha; simp; omega
      · simp [ha]; omega
    · intro a hpa; simp only [List.count_cons] at hpa
      by_cases ha : id = a
      · subst ha; simp at hc; omega
      · simp [ha] at hpa; exact hi.icept_full a (mem_count_pos hpa)
  | shutdownSeen =>
    simp only [step] at h
    split at h; · cases h
    split at h; · cases h
    rename_i h1 h2
    injection h with h; subst h
    refine { hi with wg_eq := ?_, seen_start := ?_, waited_emp := ?_ }
    · have := hi.wg_eq; simp only [pendingShutdown] at *; simp_all; try omega
    · intro _; simpa using h1
    · intro hw; have := hi.waited_emp hw; simp_all
  | wgAdd sh =>
    simp only [step] at h
    split at h; · cases h
    split at h; · cases h
    rename_i h1 h2
    split at h
    · rename_i hsh
      injection h with h; subst h
      refine { hi with wg_eq := ?_, seen_start := ?_, waited_emp := ?_ }
      · have := hi.wg_eq
        have hns : s.shutdownStarted = false := by simp_all
        have hnn : s.shutdownSeen = false := by
          cases hss : s.shutdownSeen
          · rfl
          · have := hi.seen_start hss; simp_all
        simp only [pendingShutdown] at *; simp_all; try omega
      · intro _; rfl
      · intro hw; simp only at hw; simp [hw] at h1
    · injection h with h; subst h
      refine { hi with wg_eq := ?_, waited_emp := ?_ }
      · have := hi.wg_eq; simp only [pendingShutdown] at *; push_cast; omega
      · intro hw; simp only at hw; simp [hw] at h1
  | wgDone id =>
    simp only [step] at h
    split at h; · cases h
    split at h; · cases h
    rename_i h1 h2
    injection h with h; subst h
    refine { hi with wg_eq := ?_, waited_emp := ?_ }
    · have := hi.wg_eq; simp only [pendingShutdown] at *; omega
    · intro hw; have := hi.waited_emp hw; simp_all
  | retry id r =>
    simp only [step] at h
    split at h
    · injection h with h; subst h; exact hi
    split at h; · cases h
    split at h; · cases h
    split at h; · cases h
    rename_i hneg hl hr hm
    injection h with h; subst h
    refine { hi with wg_eq := ?_, retry_le := ?_, pass_le := ?_ }
    · have := hi.wg_eq; simpa [pendingShutdown] using this
    · intro a; simp only [List.count_cons]; have := hi.retry_le a
      by_cases ha : id = a
      · subst ha; simp; omega
      · simp [ha]; omega
    · intro a; simp only [List.count_cons]; have := hi.pass_le a; split <;> omega
  | retErr id =>
    simp only [step] at h
    split at h; · cases h
    rename_i hcl
    split at h
    · split at h
      · rename_i hpos hl
        injection h with h; subst h
        have hc := terminate_conserve s.live s.succ s.errs s.accepted s.rejected id hl hi.conserve
        refine { hi with wg_eq := ?_, conserve := hc.2, live_pos := ?_, rej_errs := ?_, waited_emp := ?_ }
        · have := hi.wg_eq; have := erase_length s.live id hl
          simp only [pendingShutdown] at *; omega
        · intro a ha; exact hi.live_pos a (List.mem_of_mem_erase ha)
        · intro a; have := hi.rej_errs a; simp only [List.count_cons]; split <;> omega
        · intro hw; have := hi.waited_emp hw; simp_all
      · cases h
    · cases h
  | retSucc id =>
    simp only [step] at h
    split at h; · cases h
    rename_i hcl
    split at h
    · split at h
      · rename_i hpos hl
        injection h with h; subst h
        have hc := terminate_conserve s.live s.succ s.errs s.accepted s.rejected id hl hi.conserve
        refine { hi with wg_eq := ?_, conserve := hc.1, live_pos := ?_, waited_emp := ?_ }
        · have := hi.wg_eq; have := erase_length s.live id hl
          simp only [pendingShutdown] at *; omega
        · intro a ha; exact hi.live_pos a (List.mem_of_mem_erase ha)
        · intro hw; have := hi.waited_emp hw; simp_all
      · cases h
    · cases h
  | seq id =>
    simp only [step] at h
    split at h; · cases h
    split at h; · cases h
    split at h; · cases h
    split at h; · cases h
    rename_i h1 h2 h3 h4
    injection h with h; subst h
    refine { hi with wg_eq := ?_, seq_once := ?_ }
    · have := hi.wg_eq; simpa [pendingShutdown] using this
    · intro a; simp only [List.count_cons]; have := hi.seq_once a
      by_cases ha : id = a
      · subst ha; simp at h4; simp; omega
      · simp [ha]; omega
  | waited =>
    simp only [step] at h
    split at h; · cases h
    split at h; · cases h
    rename_i h1 h2
    injection h with h; subst h
    refine { hi with wg_eq := ?_, waited_emp := ?_, closed_w := fun _ => rfl }
    · have := hi.wg_eq; simpa [pendingShutdown] using this
    · intro _
      have hw := hi.wg_eq
      have h0 : s.wg = 0 := by simpa using h2
      have hst : s.shutdownStarted = true := by simpa using h1
      simp only [pendingShutdown] at hw
      have hlen : s.live.length = 0 := by split at hw <;> omega
      have hmk : s.markers = 0 := by split at hw <;> omega
      refine ⟨List.length_eq_zero_iff.mp hlen, hmk, ?_⟩
      cases hss : s.shutdownSeen
      · simp [hst, hss] at hw; omega
      · rfl
  | close =>
    simp only [step] at h
    split at h; · cases h
    split at h; · cases h
    rename_i h1 h2
    injection h with h; subst h
    refine { hi with wg_eq := ?_, closed_w := ?_ }
    · have := hi.wg_eq; simpa [pendingShutdown] using this
    · intro _; simpa using h1
  | other =>
    simp only [step] at h
    injection h with h; subst h; exact hi
  | stamp id e q =>
    simp only [step] at h
    injection h with h; subst h
    keep_inv hi
  | bump id =>
    simp only [step] at h
    (repeat' split at h) <;> first | (cases h; done) | (injection h with h; subst h; keep_inv hi)
  | stampAt p e q =>
    simp only [step] at h
    split at h
    · cases h
    · injection h with h; subst h; keep_inv hi
  | setStamp e f =>
    simp only [step] at h
    injection h with h; subst h
    keep_inv hi
  | sentEnd =>
    simp only [step] at h
    injection h with h; subst h
    keep_inv hi
  | reentry id b =>
    simp only [step] at h
    split at h
    · injection h with h; subst h; keep_inv hi
    · injection h with h; subst h; keep_inv hi
  | sent id idx =>
    simp only [step] at h
    (repeat' split at h) <;> first | (cases h; done) | (injection h with h; subst h; keep_inv hi)

/-- … hence every state reachable by an accepted event sequence satisfies it -/
theorem run_inv (s s' : St) (es : List Ev) (h : run s es = .ok s') (hi : PInv s) : PInv s' := by
  induction es generalizing s with
  | nil => simp only [run] at h; injection h with h; subst h; exact hi
  | cons e es ih =>
    simp only [run] at h
    split at h
    · rename_i s1 hs; exact ih s1 h (step_inv s s1 e hs hi)
    · cases h

theorem reachable_inv (cfg : Cfg) (es : List Ev) (s : St) (h : run (init cfg) es = .ok s) : PInv s :=
  run_inv _ _ es h (init_inv cfg)

/-! ### the property, for every accepted event sequence -/

/-- never two terminal events for one message -/
theorem at_most_one_outcome (cfg : Cfg) (es : List Ev) (s : St) (h : run (init cfg) es = .ok s) (id : Int) :
    (s.succ ++ s.errs).count id ≤ 1 := by
  have hi := reachable_inv cfg es s h
  have := hi.conserve id; have := hi.once id
  simp only [List.count_append]; omega

/-- no event for a message the application did not submit (in particular none for an internal marker:
    every id with a terminal event is a positive id that was accepted or rejected) -/
theorem no_phantom_outcome (cfg : Cfg) (es : List Ev) (s : St) (h : run (init cfg) es = .ok s) (id : Int)
    (hm : id ∈ s.succ ++ s.errs) : id ∈ s.accepted ∨ id ∈ s.rejected := by
  have hi := reachable_inv cfg es s h
  have hc := hi.conserve id
  have hp : 0 < (s.succ ++ s.errs).count id := mem_count_pos hm
  simp only [List.count_append] at hp
  by_cases ha : id ∈ s.accepted
  · exact Or.inl ha
  · right
    have : s.accepted.count id = 0 := List.count_eq_zero.mpr ha
    exact List.count_pos_iff.mp (by omega)

/-- when the output channels are closed every accepted message has exactly one terminal event, and every
    rejected one exactly one (error) event: "never none" holds at the latest when Close returns -/
theorem closed_implies_exactly_one (cfg : Cfg) (es : List Ev) (s : St) (h : run (init cfg) es = .ok s)
    (hc : s.closed = true) (id : Int) (hm : id ∈ s.accepted ∨ id ∈ s.rejected) :
    s.succ.count id + s.errs.count id = 1 := by
  have hi := reachable_inv cfg es s h
  have hw := hi.waited_emp (hi.closed_w hc)
  have hcv := hi.conserve id; have ho := hi.once id
  rw [hw.1] at hcv
  have : 0 < s.accepted.count id + s.rejected.count id := by
    rcases hm with hm | hm
    · have := mem_count_pos hm; omega
    · have := mem_count_pos hm; omega
  simp only [List.count_nil] at hcv; omega

/-- after the channels were closed no terminal event can be emitted any more -/
theorem close_after_all_outcomes (s s' : St) (e : Ev) (hc : s.closed = true) (h : step s e = .ok s') :
    s'.succ = s.succ ∧ s'.errs = s.errs := by
  cases e <;> simp only [step, hc] at h <;> (repeat' split at h) <;>
    first | (cases h; done) | (injection h with h; subst h; first | exact ⟨rfl, rfl⟩ | (exfalso; simp_all))

/-- Close can only complete after the WaitGroup reached zero, i.e. when nothing is in flight -/
theorem close_only_when_drained (cfg : Cfg) (es : List Ev) (s : St) (h : run (init cfg) es = .ok s)
    (hc : s.closed = true) : s.live = [] ∧ s.markers = 0 := by
  have hi := reachable_inv cfg es s h
  have := hi.waited_emp (hi.closed_w hc); exact ⟨this.1, this.2.1⟩

/-- a message passes the dispatcher at most Retry.Max + 1 times (progress: retries are bounded) -/
theorem pass_bound (cfg : Cfg) (es : List Ev) (s : St) (h : run (init cfg) es = .ok s) (id : Int) :
    s.passLog.count id ≤ s.cfg.retryMax + 1 := by
  have hi := reachable_inv cfg es s h
  have := hi.pass_le id; have := hi.retry_le id; omega

/-! non-vacuity: a concrete trace with a retry, an error, a shutdown, accepted by the model and closed -/
example :
    (run (init { retryMax := 1, icepts := 1, idem := false })
      [.accept 1, .icept 1, .pass 1 0, .wgAdd false, .wgDone (-1), .accept 2, .icept 2, .pass 2 0,
       .retry 1 1, .pass 1 1, .retSucc 2, .retErr 1, .wgAdd true, .shutdownSeen, .reject 3, .waited, .close]).toOption.map
      (fun s => (s.closed, s.succ, s.errs, s.live)) = some (true, [2], [3, 1], []) := by decide

end Props.C01
