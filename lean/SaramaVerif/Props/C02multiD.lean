/-
  C02 composition, stage C, towards `DeliverProj`: the worker-local half of the HIDDEN case.
  `resp_hidden_parts`: a per-partition answer (`.verdicts`) for a set that holds nothing of `p`, while no message of
  `p` is held in waitForSpace, does nothing to `p`: its actions are foreign to `p`, and what `projB p` reads of the
  inner state (closing, the retry mark of `p`, the buffered messages of `p`, the held message) is unchanged; the set
  is removed.  No invariant of the worker is needed.
-/
import SaramaVerif.Props.C02multiZ
import SaramaVerif.Props.C02bp

set_option linter.unusedSimpArgs false
set_option linter.unusedVariables false

namespace Props.C02sys
open Model Model.Pipeline Model.PipelineN Model.BrokerProd Lemmas.C02sys
open Props.C02bp (mem_onPart onPart_offPart onPart_append onPart_single loop2_frame loop2_part hit)

theorem foreign_nil (p : Int) : ForeignActs p [] := by intro a ha; cases ha

theorem foreign_append {p : Int} {a b : List Action} (ha : ForeignActs p a) (hb : ForeignActs p b) :
    ForeignActs p (a ++ b) := by
  intro x hx
  rcases List.mem_append.mp hx with h | h
  · exact ha x h
  · exact hb x h

theorem foreign_cons_other {p : Int} {a : Action} {l : List Action}
    (h1 : ∀ id q r f, a ≠ Action.requeue id q r f) (h2 : ∀ id q, a ≠ Action.succ id q)
    (h3 : ∀ id q f, a ≠ Action.expire id q f) (h4 : ∀ id q, a ≠ Action.fail id q) (hl : ForeignActs p l) :
    ForeignActs p (a :: l) := by
  intro x hx
  rcases List.mem_cons.mp hx with h | h
  · subst h
    exact ⟨fun id q r f e => absurd e (h1 id q r f), fun id q e => absurd e (h2 id q),
      fun id q f e => absurd e (h3 id q f), fun id q e => absurd e (h4 id q)⟩
  · exact hl x h

theorem foreign_retryMsg (max : Nat) {p : Int} {t : Pipeline.Tok} (h : t.part ≠ p) :
    ForeignActs p [retryMsg max t] := by
  intro a ha
  have ea : a = retryMsg max t := by simpa using ha
  subst ea
  unfold retryMsg
  split <;> simp <;> intros <;> simp_all <;> omega

theorem foreign_retryMsgs (max : Nat) {p : Int} (ts : List Pipeline.Tok) (h : ∀ t ∈ ts, t.part ≠ p) :
    ForeignActs p (retryMsgs max ts) := by
  induction ts with
  | nil => exact foreign_nil p
  | cons t r ih =>
    have : retryMsgs max (t :: r) = [retryMsg max t] ++ retryMsgs max r := by simp [retryMsgs]
    rw [this]
    exact foreign_append (foreign_retryMsg max (h t (List.mem_cons_self ..)))
      (ih (fun x hx => h x (List.mem_cons_of_mem _ hx)))

theorem foreign_succs {p : Int} (ts : List Pipeline.Tok) (h : ∀ t ∈ ts, t.part ≠ p) :
    ForeignActs p (ts.map (fun t => Action.succ t.id t.part)) := by
  intro a ha
  obtain ⟨t, ht, e⟩ := List.mem_map.mp ha
  subst e
  have := h t ht
  simp; exact this

theorem foreign_fails {p : Int} (ts : List Pipeline.Tok) (h : ∀ t ∈ ts, t.part ≠ p) :
    ForeignActs p (ts.map (fun t => Action.fail t.id t.part)) := by
  intro a ha
  obtain ⟨t, ht, e⟩ := List.mem_map.mp ha
  subst e
  have := h t ht
  simp; exact this

theorem foreign_abandon {p : Int} {l : List Action} (hl : ForeignActs p l) : ForeignActs p (Action.abandon :: l) :=
  foreign_cons_other (by intros; simp) (by intros; simp) (by intros; simp) (by intros; simp) hl

theorem foreign_verdictActs (max : Nat) {p : Int} (vd : BrokerProd.Verdict) (ts : List Pipeline.Tok)
    (h : ∀ t ∈ ts, t.part ≠ p) : ForeignActs p (verdictActs max vd ts) := by
  unfold verdictActs
  split
  · exact foreign_nil p
  · cases vd with
    | ok => exact foreign_succs ts h
    | missing => exact foreign_fails ts h
    | fatal =>
      by_cases hm : max = 0
      · simp only [hm, ↓reduceIte]; exact foreign_append (foreign_abandon (foreign_nil p)) (foreign_fails ts h)
      · simp only [hm, ↓reduceIte]; exact foreign_append (foreign_nil p) (foreign_fails ts h)
    | retriable =>
      by_cases hm : max = 0
      · simp only [hm, ↓reduceIte]; exact foreign_abandon (foreign_fails ts h)
      · simp only [hm, ↓reduceIte]; exact foreign_nil p

theorem part_of_onPart {q : Int} {l : List Pipeline.Tok} {t : Pipeline.Tok} (h : t ∈ onPart q l) : t.part = q := by
  simp [onPart] at h; exact h.2

theorem onPart_foreign {p q : Int} {l : List Pipeline.Tok} (he : onPart p l = []) :
    ∀ t ∈ onPart q l, t.part ≠ p := by
  intro t ht hp
  have h1 : t ∈ l := mem_onPart ht
  have : t ∈ onPart p l := by simp [onPart, h1, hp]
  rw [he] at this; cases this

theorem onPart_off_nil {p q : Int} {l : List Pipeline.Tok} (he : onPart p l = []) : onPart p (offPart q l) = [] := by
  rw [onPart_offPart]; split <;> simp [he]

/-- first pass of handleSuccess: nothing for a partition the set does not hold -/
theorem foreign_loop1 (max : Nat) (v : Int → BrokerProd.Verdict) (p : Int) (ps : List Int) :
    ∀ (rem : List Pipeline.Tok), onPart p rem = [] → ForeignActs p (loop1 max v ps rem) := by
  induction ps with
  | nil => intro rem _; exact foreign_nil p
  | cons q ps ih =>
    intro rem he
    unfold loop1
    exact foreign_append (foreign_verdictActs max (v q) _ (onPart_foreign he)) (ih _ (onPart_off_nil he))

/-- second pass of handleSuccess: nothing for a partition the set does not hold -/
theorem foreign_loop2 (max : Nat) (v : Int → BrokerProd.Verdict) (p : Int) (ps : List Int) :
    ∀ (rem : List Pipeline.Tok) (s : St), onPart p rem = [] → ForeignActs p (loop2 max v ps rem s).2 := by
  induction ps with
  | nil => intro rem s _; exact foreign_nil p
  | cons q ps ih =>
    intro rem s he
    unfold loop2
    split
    · exact ih _ _ (onPart_off_nil he)
    · rename_i hc
      have hne : onPart q rem ≠ [] := by
        intro e; apply hc; left; simp [e]
      have hqp : q ≠ p := by intro e; subst e; exact hne he
      have hb : ∀ t ∈ onPart q s.buffer, t.part ≠ p := fun t ht e => hqp ((part_of_onPart ht).symm.trans e)
      simp only
      have e : retryMsgs max (onPart q rem) ++ Action.drop q :: retryMsgs max (onPart q s.buffer) ++
          (loop2 max v ps (offPart q rem) { s with cr := setCr s.cr q true, buffer := offPart q s.buffer }).2 =
          retryMsgs max (onPart q rem) ++ (Action.drop q :: (retryMsgs max (onPart q s.buffer) ++
          (loop2 max v ps (offPart q rem) { s with cr := setCr s.cr q true, buffer := offPart q s.buffer }).2)) := by
        simp
      rw [e]
      exact foreign_append (foreign_retryMsgs max _ (onPart_foreign he))
        (foreign_cons_other (by intros; simp) (by intros; simp) (by intros; simp) (by intros; simp)
          (foreign_append (foreign_retryMsgs max _ hb) (ih _ _ (onPart_off_nil he))))

theorem loop2_closing (max : Nat) (v : Int → BrokerProd.Verdict) (ps : List Int) (rem : List Pipeline.Tok) (s : St) :
    (loop2 max v ps rem s).1.closing = s.closing := by
  obtain ⟨_, _, c, _, _⟩ := loop2_frame max v ps rem s
  exact c

theorem not_hit {v : Int → BrokerProd.Verdict} {p : Int} {ps : List Int} {rem : List Pipeline.Tok}
    (he : onPart p rem = []) : ¬ hit v p ps rem := by
  intro h; exact h.2.1 he

/-- handleSuccess for a set that holds nothing of `p` -/
theorem handle_hidden_parts (max : Nat) (s : St) (sent : List Pipeline.Tok) (v : Int → BrokerProd.Verdict) (p : Int)
    (he : onPart p sent = []) :
    ForeignActs p (handle max s sent (.verdicts v [] [])).2 ∧
    (handle max s sent (.verdicts v [] [])).1.sets = s.sets ∧
    (handle max s sent (.verdicts v [] [])).1.wait = s.wait ∧
    (handle max s sent (.verdicts v [] [])).1.closing = s.closing ∧
    (handle max s sent (.verdicts v [] [])).1.cr p = s.cr p ∧
    onPart p (handle max s sent (.verdicts v [] [])).1.buffer = onPart p s.buffer := by
  unfold handle
  dsimp only
  by_cases h : retryTopics max v sent = true
  · rw [if_pos h]
    obtain ⟨a, b, _, _, _⟩ := loop2_frame max v ([] ++ partsOf sent) sent s
    obtain ⟨b1, b2, _, _⟩ := loop2_part max v p ([] ++ partsOf sent) sent s
    have nh : ¬ hit v p ([] ++ partsOf sent) sent := not_hit he
    refine ⟨foreign_append (foreign_loop1 max v p _ sent he) (foreign_loop2 max v p _ sent s he), a, b,
      loop2_closing .., ?_, ?_⟩
    · rw [b2, decide_eq_false nh, Bool.or_false]
    · rw [b1, if_neg nh]
  · rw [if_neg h]
    exact ⟨foreign_loop1 max v p _ sent he, rfl, rfl, rfl, rfl, rfl⟩

/-- the re-check of waitForSpace when the held message (if any) is not of `p` -/
theorem recheck_hidden (max : Nat) (s : St) (acts : List Action) (still : Bool) (p : Int)
    (ha : ForeignActs p acts) (hw : ∀ t, s.wait = some t → t.part ≠ p) :
    ForeignActs p (recheck max s acts still).2 ∧
    (recheck max s acts still).1.sets = s.sets ∧
    (recheck max s acts still).1.closing = s.closing ∧
    (recheck max s acts still).1.cr p = s.cr p ∧
    onPart p (recheck max s acts still).1.buffer = onPart p s.buffer ∧
    (∀ t, (recheck max s acts still).1.wait = some t → t.part ≠ p) := by
  unfold recheck
  cases hwt : s.wait with
  | none => exact ⟨ha, rfl, rfl, rfl, rfl, by simp⟩
  | some t =>
    have htp := hw t hwt
    dsimp only
    by_cases hn : needsRetry s t.part = true
    · rw [if_pos hn]
      exact ⟨foreign_append ha (foreign_retryMsg max htp), rfl, rfl, rfl, rfl, by simp⟩
    · rw [if_neg hn]
      cases still with
      | true => rw [if_pos rfl]; exact ⟨ha, rfl, rfl, rfl, rfl, fun t' h' => hw t' h'⟩
      | false =>
        rw [if_neg (by simp)]
        refine ⟨foreign_append ha (foreign_cons_other (by intros; simp) (by intros; simp) (by intros; simp)
          (by intros; simp) (foreign_nil p)), rfl, rfl, rfl, ?_, by simp⟩
        show onPart p (s.buffer ++ [t]) = onPart p s.buffer
        rw [onPart_append, onPart_single]; simp [htp]

/-- HIDDEN set, per-partition answer, no message of `p` held: the answer does nothing to `p` -/
theorem resp_hidden_parts (max : Nat) (b : St) (sent : List Pipeline.Tok) (rest : List (List Pipeline.Tok))
    (v : Int → BrokerProd.Verdict) (still : Bool) (p : Int)
    (hs : b.sets = sent :: rest) (he : onPart p sent = []) (hw : ∀ t, b.wait = some t → t.part ≠ p) :
    ForeignActs p (resp max b (.verdicts v [] []) still).2 ∧
    (resp max b (.verdicts v [] []) still).1.sets = rest ∧
    (resp max b (.verdicts v [] []) still).1.closing = b.closing ∧
    (resp max b (.verdicts v [] []) still).1.cr p = b.cr p ∧
    onPart p (resp max b (.verdicts v [] []) still).1.buffer = onPart p b.buffer ∧
    (∀ t, (resp max b (.verdicts v [] []) still).1.wait = some t → t.part ≠ p) := by
  unfold resp
  rw [hs]
  simp only
  obtain ⟨f, h1, h2, h3, h4, h5⟩ := handle_hidden_parts max { b with sets := rest } sent v p he
  obtain ⟨g, r1, r2, r3, r4, r5⟩ := recheck_hidden max (handle max { b with sets := rest } sent (.verdicts v [] [])).1
    (handle max { b with sets := rest } sent (.verdicts v [] [])).2 still p f (by rw [h2]; exact hw)
  exact ⟨g, by rw [r1, h1], by rw [r2, h3], by rw [r3, h4], by rw [r4, h5], r5⟩

/-- what `projB p` reads is unchanged (all but the sets and `stale`) -/
theorem projB_hidden_parts (max : Nat) (b : St) (sent : List Pipeline.Tok) (rest : List (List Pipeline.Tok))
    (v : Int → BrokerProd.Verdict) (still : Bool) (p : Int)
    (hs : b.sets = sent :: rest) (he : projL p sent = []) (hw : projWait p b.wait = none) (x : List (List Pipeline.Tok))
    (y : Bool) :
    ({ projB p (resp max b (.verdicts v [] []) still).1 with sets := x, stale := y } : St) =
      ({ projB p b with sets := x, stale := y } : St) := by
  have he' : onPart p sent = [] := by simpa [projL] using he
  have hw' : ∀ t, b.wait = some t → t.part ≠ p := by
    intro t ht hp; simp [projWait, ht, hp] at hw
  obtain ⟨_, _, c, d, e, f⟩ := resp_hidden_parts max b sent rest v still p hs he' hw'
  have fw : projWait p (resp max b (.verdicts v [] []) still).1.wait = none := by
    cases hh : (resp max b (.verdicts v [] []) still).1.wait with
    | none => rfl
    | some t => simp [projWait, f t hh]
  simp only [projB, projL, c, d, e, fw, hw]

/-- non-vacuity: a set of partition 1 answered while partition 0 is watched -/
example : ForeignActs 0 (resp 2 { sets := [[⟨5, 1, 0, .data⟩]] } (.verdicts (fun _ => .ok) [] []) false).2 :=
  (resp_hidden_parts 2 { sets := [[⟨5, 1, 0, .data⟩]] } [⟨5, 1, 0, .data⟩] [] (fun _ => .ok) false 0 rfl
    (by decide) (by intro t h; cases h)).1

end Props.C02sys
