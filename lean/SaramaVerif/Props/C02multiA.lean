/-
  C02 composition, stage C: the single-step projections assembled for ONE relation.  `proj_step_partial`: for every
  choice of the model with several partitions EXCEPT `deliver`, a step from related states (`WRel (BRp p)`) is no step or
  one step of `Model.Pipeline` between related states - under the side conditions on the `broker` step of a visible set
  (well-formed answer for `p`, an appending answer comes from the leader of `p`).
  What remains for `ProjSim`: the `deliver` step (the answer step of a worker with several partitions in the set: hidden
  set = no step unless it is a connection error; visible set = the `deliver` step with `projV p r`, offsets from the
  base of `p`), the decidable side condition `projOK p cs` and the induction along the run.
-/
import SaramaVerif.Props.C02multiP2

set_option linter.unusedSimpArgs false

namespace Props.C02sys
open Model Model.Pipeline Model.PipelineN Model.BrokerProd Lemmas.C02sys

theorem plainN_frame {M : Nat} {sN sN' : SysN} (c : ChoiceN)
    (hc : (∃ q, c = .submit q) ∨ c = .retryOut ∨ c = .dispatch ∨ ∃ q b, c = .moveLeader q b)
    (hs : sysStepN M sN c = some sN') : sN'.wk = sN.wk ∧ sN'.cur = sN.cur := by
  rcases hc with ⟨q, rfl⟩ | rfl | rfl | ⟨q, b, rfl⟩
  · simp only [sysStepN, Option.some.injEq] at hs; subst hs; exact ⟨rfl, rfl⟩
  · simp only [sysStepN] at hs; split at hs
    · cases hs
    · simp only [Option.some.injEq] at hs; subst hs; exact ⟨rfl, rfl⟩
  · simp only [sysStepN] at hs; split at hs
    · cases hs
    · simp only [Option.some.injEq] at hs; subst hs; exact ⟨rfl, rfl⟩
  · simp only [sysStepN, Option.some.injEq] at hs; subst hs; exact ⟨rfl, rfl⟩

/-- **one step of the model with several partitions, any choice but `deliver`, seen from `p`** -/
theorem proj_step_partial {M : Nat} {p : Int} {sN sN' : SysN} {s : Sys} (h : WRel (BRp p) p sN s) (c : ChoiceN)
    (hnd : ∀ w st, c ≠ .deliver w st)
    (hbr : ∀ w r, c = .broker w r → (s.wk w).bp.sets ≠ [] →
      (projV p r).appends = r.appends p ∧ ¬(((projV p r).appends && !(brokerOf w == s.ldr)) = true))
    (hs : sysStepN M sN c = some sN') :
    WRel (BRp p) p sN' s ∨ ∃ c' s', sysStep M s c' = some s' ∧ WRel (BRp p) p sN' s' := by
  have plain : ((∃ q, c = .submit q) ∨ c = .retryOut ∨ c = .dispatch ∨ ∃ q b, c = .moveLeader q b) →
      WRel (BRp p) p sN' s ∨ ∃ c' s', sysStep M s c' = some s' ∧ WRel (BRp p) p sN' s' := by
    intro hc
    obtain ⟨fw, fc⟩ := plainN_frame c hc hs
    rcases proj_plain h.q c hc hs with hq | ⟨c', s', h1, hq, e1, e2⟩
    · exact Or.inl ⟨hq, by rw [fc]; exact h.cur, fun k => by rw [fw]; exact h.inq k, fun k => by rw [fw]; exact h.br k⟩
    · exact Or.inr ⟨c', s', h1, hq, by rw [e2, fc]; exact h.cur, fun k => by rw [e1, fw]; exact h.inq k,
        fun k => by rw [e1, fw]; exact h.br k⟩
  cases c with
  | submit q => exact plain (Or.inl ⟨q, rfl⟩)
  | retryOut => exact plain (Or.inr (Or.inl rfl))
  | dispatch => exact plain (Or.inr (Or.inr (Or.inl rfl)))
  | moveLeader q b => exact plain (Or.inr (Or.inr (Or.inr ⟨q, b, rfl⟩)))
  | ppRecv q lks =>
    by_cases hq : q = p
    · subst hq
      obtain ⟨s', h1, h2⟩ := proj_ppRecv_own (innerOnly_BRp q) h hs
      exact Or.inr ⟨_, s', h1, h2⟩
    · exact Or.inl (proj_ppRecv_other (innerOnly_BRp p) hq h hs)
  | bpRecv w ov =>
    cases hq : (sN.wk w).inq with
    | nil => simp [sysStepN, hq] at hs
    | cons t r =>
      by_cases ht : t.part = p
      · obtain ⟨s', h1, h2⟩ := proj_bpRecv_own_p h hq ht hs
        exact Or.inr ⟨_, s', h1, h2⟩
      · exact Or.inl (proj_bpRecv_foreign_p h hq ht hs)
  | handover w =>
    by_cases hv : projL p (sN.wk w).bp.buffer = [] ∧ projWait p (sN.wk w).bp.wait = none
    · exact Or.inl (proj_handover_hidden_p h hv.1 hv.2 hs)
    · have hvis : projL p (sN.wk w).bp.buffer ≠ [] ∨ projWait p (sN.wk w).bp.wait ≠ none := by
        by_cases e : projL p (sN.wk w).bp.buffer = []
        · exact Or.inr (fun e' => hv ⟨e, e'⟩)
        · exact Or.inl e
      obtain ⟨s', h1, h2⟩ := proj_handover_visible_p h hvis hs
      exact Or.inr ⟨_, s', h1, h2⟩
  | broker w r =>
    by_cases hj : (s.wk w).bp.sets = []
    · exact Or.inl (proj_broker_hidden_p h hj hs)
    · obtain ⟨hwf, hen⟩ := hbr w r rfl hj
      obtain ⟨s', h1, h2⟩ := proj_broker_visible_p h hj hwf hen hs
      exact Or.inr ⟨_, s', h1, h2⟩
  | deliver w st => exact absurd rfl (hnd w st)

/-! ### non-vacuity: the first 16 choices of `exTwo` contain no `deliver` -/

example : ∀ c ∈ exTwo.take 16, ∀ w st, c ≠ ChoiceN.deliver w st := by
  intro c hc w st e; subst e; simp [exTwo] at hc
example : (runN 2 {} (exTwo.take 16)).isSome = true := by decide

end Props.C02sys
