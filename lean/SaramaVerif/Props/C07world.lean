import SaramaVerif.Model.GroupWorld
import SaramaVerif.Props.C07
/-
  C07 for any number of members sharing one coordinator.

  * `world_projects`: a world history is accepted only if, for EVERY client, that client's own events are an accepted
    history of the single-member session model — so every theorem of Props/C07 (session order, identity carried, fresh
    identity after fencing, …) holds for every member of every accepted world history, whatever the other members do
    and however the histories interleave.
  * `no_double_claim_in_generation`: in every accepted world history a partition is claimed at most once per
    generation: two ConsumeClaim calls for one partition in sessions of one generation belong to the same client.
-/
namespace Props.C07world
open Model.GroupWorld
open Model.Group (St Ev)

/-! ### getL / setL -/

theorem getL_setL_same (l : List (Nat × St)) (c : Nat) (s : St) : getL (setL l c s) c = s := by
  simp [getL, setL]

theorem getL_setL_other (l : List (Nat × St)) (c c' : Nat) (s : St) (h : c' ≠ c) : getL (setL l c s) c' = getL l c' := by
  unfold getL setL
  have hne : ¬ (c = c') := fun e => h e.symm
  simp only [List.find?_cons, hne, decide_false]
  rw [List.find?_filter]
  have hf : ∀ a : Nat × St, decide (decide (a.1 ≠ c) = true ∧ decide (a.1 = c') = true) = decide (a.1 = c') := by
    intro a
    by_cases hx : a.1 = c'
    · simp [hx, h]
    · simp [hx]
  simp only [hf]

/-- the wguard only records; it never touches the clients' session states -/
theorem guard_sts (w w1 : World) (c : Nat) (e : Ev) (h : wguard w c e = .ok w1) : w1.sts = w.sts := by
  unfold wguard at h
  split at h
  · split at h
    · injection h with h; subst h; rfl
    · cases h
  · split at h
    · cases h
    · split at h
      · cases h
      · injection h with h; subst h; rfl
  · injection h with h; subst h; rfl

/-- one world wstep: the acting client takes exactly its own session wstep, every other client's state is untouched -/
theorem step_member (w w' : World) (c : Nat) (e : Ev) (h : wstep w (.member c e) = .ok w') :
    Model.Group.step (getSt w c) e = .ok (getSt w' c) ∧ ∀ c', c' ≠ c → getSt w' c' = getSt w c' := by
  simp only [wstep] at h
  split at h
  · cases h
  · rename_i w1 hg
    split at h
    · cases h
    · rename_i s' hs
      injection h with h; subst h
      refine ⟨?_, ?_⟩
      · rw [hs]; simp [getSt, getL_setL_same]
      · intro c' hc; simp [getSt, getL_setL_other _ _ _ _ hc]

theorem step_plan_sts (w w' : World) (c : Nat) (ps : List Nat) (h : wstep w (.plan c ps) = .ok w') : w'.sts = w.sts := by
  simp only [wstep] at h
  split at h
  · cases h
  · split at h
    · cases h
    · injection h with h; subst h; rfl

/-- **world_projects**: for every client, its own events form an accepted single-member history ending in the state the
    world holds for it -/
theorem world_projects (c : Nat) (es : List WEv) (w w' : World) (h : wrun w es = .ok w') :
    Model.Group.run (getSt w c) (proj c es) = .ok (getSt w' c) := by
  induction es generalizing w with
  | nil => simp only [wrun] at h; injection h with h; subst h; simp [proj, Model.Group.run]
  | cons e es ih =>
    simp only [wrun] at h
    split at h
    · rename_i w1 hs
      have h1 := ih w1 h
      cases e with
      | member c' ev =>
        obtain ⟨hown, hoth⟩ := step_member w w1 c' ev hs
        by_cases hc : c' = c
        · subst hc
          simp only [proj, ↓reduceIte, Model.Group.run, hown]
          exact h1
        · simp only [proj, hc, ↓reduceIte]
          have : getSt w1 c = getSt w c := hoth c (fun e => hc e.symm)
          rw [← this]; exact h1
      | plan c' ps =>
        have : getSt w1 c = getSt w c := by simp [getSt, step_plan_sts w w1 c' ps hs]
        simp only [proj]; rw [← this]; exact h1
    · cases h

/-- every single-member theorem transfers; e.g. the life-cycle invariant of Props/C07 holds for every member -/
theorem member_inv (c : Nat) (es : List WEv) (w' : World) (h : wrun {} es = .ok w') :
    Props.C07.GInv (getSt w' c) := by
  have hp := world_projects c es {} w' h
  have h0 : getSt ({} : World) c = ({} : St) := by simp [getSt, getL]
  rw [h0] at hp
  exact Props.C07.run_inv _ _ _ hp Props.C07.init_inv

/-! ### at most one claim per partition and generation -/

structure WInv (w : World) : Prop where
  plans_disjoint : ∀ q1 ∈ w.plans, ∀ q2 ∈ w.plans, q1.gen = q2.gen → q1.member ≠ q2.member → ∀ p, p ∈ q1.parts → p ∉ q2.parts
  issued_fun : ∀ i1 ∈ w.issued, ∀ i2 ∈ w.issued, i1.member = i2.member → i1.client = i2.client
  claim_ok : ∀ k ∈ w.claims, (⟨k.client, k.member⟩ : Issued) ∈ w.issued ∧ ∃ q ∈ w.plans, q.gen = k.gen ∧ q.member = k.member ∧ k.p ∈ q.parts

theorem init_winv : WInv {} := by
  refine ⟨?_, ?_, ?_⟩
  · intro q1 h; simp at h
  · intro i h; simp at h
  · intro k h; simp at h

private theorem compatible_spec (g : Int) (m : Nat) (ps : List Nat) (q : Plan) (h : compatible g m ps q = true)
    (hg : q.gen = g) (hm : q.member ≠ m) : ∀ p, p ∈ ps → p ∉ q.parts := by
  unfold compatible at h
  simp only [hg, ↓reduceIte, hm] at h
  intro p hp
  have := (List.all_eq_true.mp h) p hp
  simpa using this

theorem guard_inv (w w1 : World) (c : Nat) (e : Ev) (h : wguard w c e = .ok w1) (hi : WInv w) : WInv w1 := by
  unfold wguard at h
  split at h
  · -- successful join: a member id is issued
    rename_i im _ig
    split at h
    · rename_i hf
      injection h with h; subst h
      refine ⟨hi.plans_disjoint, ?_, ?_⟩
      · intro i1 h1 i2 h2 hm
        have hall := List.all_eq_true.mp hf
        rcases List.mem_cons.mp h1 with rfl | h1 <;> rcases List.mem_cons.mp h2 with rfl | h2
        · rfl
        · have := hall i2 h2
          simp only [Bool.or_eq_true, decide_eq_true_eq, ne_eq] at this
          rcases this with hne | heq
          · exact absurd hm.symm hne
          · exact heq.symm
        · have := hall i1 h1
          simp only [Bool.or_eq_true, decide_eq_true_eq, ne_eq] at this
          rcases this with hne | heq
          · exact absurd hm hne
          · exact heq
        · exact hi.issued_fun i1 h1 i2 h2 hm
      · intro k hk
        obtain ⟨h1, h2⟩ := hi.claim_ok k hk
        exact ⟨List.mem_cons_of_mem _ h1, h2⟩
    · cases h
  · -- a claim starts
    rename_i _n p
    split at h
    · cases h
    · rename_i hiss
      split at h
      · cases h
      · rename_i hpl
        injection h with h; subst h
        refine ⟨hi.plans_disjoint, hi.issued_fun, ?_⟩
        intro k hk
        rcases List.mem_cons.mp hk with rfl | hk
        · refine ⟨?_, ?_⟩
          · simpa using hiss
          · have hpl' : hasPlan w.plans (getSt w c).gen (getSt w c).member p = true := by
              cases hb : hasPlan w.plans (getSt w c).gen (getSt w c).member p
              · exact absurd hb (by simpa using hpl)
              · rfl
            unfold hasPlan at hpl'
            obtain ⟨q, hq, hq2⟩ := List.any_eq_true.mp hpl'
            simp only [Bool.and_eq_true, decide_eq_true_eq, List.contains_eq_mem] at hq2
            exact ⟨q, hq, hq2.1.1, hq2.1.2, by simpa using hq2.2⟩
        · exact hi.claim_ok k hk
  · injection h with h; subst h; exact hi

theorem step_winv (w w' : World) (e : WEv) (h : wstep w e = .ok w') (hi : WInv w) : WInv w' := by
  cases e with
  | member c ev =>
    simp only [wstep] at h
    split at h
    · cases h
    · rename_i w1 hg
      have h1 := guard_inv w w1 c ev hg hi
      split at h
      · cases h
      · injection h with h; subst h
        exact ⟨h1.plans_disjoint, h1.issued_fun, h1.claim_ok⟩
  | plan c ps =>
    simp only [wstep] at h
    split at h
    · cases h
    · split at h
      · cases h
      · rename_i hok
        injection h with h; subst h
        have hall : ∀ q ∈ w.plans, compatible (getSt w c).gen (getSt w c).member ps q = true := by
          have : planOk w.plans (getSt w c).gen (getSt w c).member ps = true := by simpa using hok
          exact fun q hq => (List.all_eq_true.mp this) q hq
        refine ⟨?_, hi.issued_fun, ?_⟩
        · intro q1 h1 q2 h2 hg hm p hp
          rcases List.mem_cons.mp h1 with rfl | h1 <;> rcases List.mem_cons.mp h2 with rfl | h2
          · exact absurd rfl hm
          · -- new plan vs old plan
            exact compatible_spec _ _ _ q2 (hall q2 h2) hg.symm (fun e => hm e.symm) p hp
          · -- old plan vs new plan
            intro hp2
            exact compatible_spec _ _ _ q1 (hall q1 h1) hg hm p hp2 hp
          · exact hi.plans_disjoint q1 h1 q2 h2 hg hm p hp
        · intro k hk
          obtain ⟨h1, q, hq, h2⟩ := hi.claim_ok k hk
          exact ⟨h1, q, List.mem_cons_of_mem _ hq, h2⟩

theorem run_winv (es : List WEv) (w w' : World) (h : wrun w es = .ok w') (hi : WInv w) : WInv w' := by
  induction es generalizing w with
  | nil => simp only [wrun] at h; injection h with h; subst h; exact hi
  | cons e es ih =>
    simp only [wrun] at h
    split at h
    · rename_i w1 hs; exact ih w1 h (step_winv w w1 e hs hi)
    · cases h

/-- **no_double_claim_in_generation**: in every accepted world history, two ConsumeClaim calls for the same partition in
    sessions of the same generation were made by the same client -/
theorem no_double_claim_in_generation (es : List WEv) (w' : World) (h : wrun {} es = .ok w')
    (k1 k2 : Claim) (h1 : k1 ∈ w'.claims) (h2 : k2 ∈ w'.claims) (hg : k1.gen = k2.gen) (hp : k1.p = k2.p) :
    k1.client = k2.client := by
  have hi := run_winv es {} w' h init_winv
  obtain ⟨i1, q1, hq1, g1, m1, p1⟩ := hi.claim_ok k1 h1
  obtain ⟨i2, q2, hq2, g2, m2, p2⟩ := hi.claim_ok k2 h2
  by_cases hm : k1.member = k2.member
  · exact hi.issued_fun _ i1 _ i2 hm
  · exfalso
    have hne : q1.member ≠ q2.member := by rw [m1, m2]; exact hm
    have hge : q1.gen = q2.gen := by rw [g1, g2]; exact hg
    exact hi.plans_disjoint q1 hq1 q2 hq2 hge hne k1.p p1 (by rw [hp]; exact p2)

/-- non-vacuity: two clients, one generation, disjoint assignments, both claim; and an overlapping assignment is rejected -/
example : (wrun {} [.member 1 (.join 0 .ok 1 1), .member 2 (.join 0 .ok 2 1),
                   .member 1 (.sync 1 1 .ok), .plan 1 [0, 2], .member 2 (.sync 2 1 .ok), .plan 2 [1],
                   .member 1 (.setup 100 1 1), .member 2 (.setup 200 2 1),
                   .member 1 (.claimStart 100 0), .member 2 (.claimStart 200 1), .member 1 (.claimStart 100 2)]).toOption.map
            (fun w => w.claims.length) = some 3 := by decide
example : (wrun {} [.member 1 (.join 0 .ok 1 1), .member 2 (.join 0 .ok 2 1),
                   .member 1 (.sync 1 1 .ok), .plan 1 [0, 2], .member 2 (.sync 2 1 .ok), .plan 2 [2]]).toOption.isNone = true := by decide

end Props.C07world
