/-
  C02, composition, the executions the real producer has with retries: the partition is handed from a broker
  worker to a FRESH successor at every retry-level change while the old worker drains (bounces what is in its
  input queue, the chaser last).  `log_order_handover_chain`: LogOrder for every choice sequence of
  `Model.Pipeline` in which no leader lookup ever names a worker twice (`HandoverChain`, decidable; the trace
  replay checks it on every replayed real run).  Any number of old workers may drain concurrently with the
  current one; their steps, leader moves, lookup failures, fault verdicts are unrestricted.
  The model includes `Choice.closeW`: the current worker, holding nothing of the partition, is closed by the
  connection error of a request that carries other partitions' messages (what a partition sees of a SHARED worker;
  Lemmas/C02chClose.lean) - with it the projection of a run with several partitions on one partition that satisfies
  `HandoverChain` is a run of this model (the replay counts them: sys-projected-inside-proved-scope).
  Proof: the invariant `Lemmas.C02sys.GoodC` - the single-worker view with the lanes of the old workers (disjoint
  retry-level bands, oldest first) between the retries queue and the tail of the current worker.
-/
import SaramaVerif.Lemmas.C02chRun
import SaramaVerif.Lemmas.C02chClose
import SaramaVerif.Props.C02sys

namespace Props.C02sys
open Model Model.Pipeline Lemmas.C02sys

/-- every leader lookup of the run names a worker that no lookup has named before: a released worker is never
    selected again (getBrokerProducer creates a new brokerProducer after unrefBrokerProducer closed the old one) -/
def HandoverChain (cs : List Choice) : Prop := (cs.flatMap lookupsOf).Nodup

instance (cs : List Choice) : Decidable (HandoverChain cs) := by unfold HandoverChain; infer_instance

/-- the executable form the trace replay evaluates on every replayed run -/
theorem chainScope_iff (cs : List Choice) : chainScope cs = true ↔ HandoverChain cs := by
  simp [chainScope, HandoverChain]

/-- the chain invariant, with the workers named so far -/
def CInv (M : Nat) (seen : List Nat) (s : Sys) : Prop :=
  ∃ olds v, GoodC M s olds v ∧ (∀ w ∈ olds, w ∈ seen) ∧ (∀ c, s.cur = some c → c ∈ seen)

theorem chain_init (M : Nat) : CInv M [] {} := by
  refine ⟨[], ⟨{}, [], [], true⟩, ⟨?_, ?_, ?_, ?_⟩, ?_, ?_⟩
  rotate_left 4
  · intro _ h; cases h
  · intro c h; cases h
  · exact ⟨[], [], true, CurRep.none rfl, by simp [lanes]⟩
  · refine ⟨?_, ?_, ?_, ?_, List.Pairwise.nil, ?_, ?_, List.Pairwise.nil, ?_,
      List.Pairwise.nil, ?_, List.Pairwise.nil, ?_, Props.C02.init_inv⟩ <;> simp [View.buf, data]
  · refine ⟨⟨fun _ => Props.C02bp.init_inv, ?_, ?_, ?_, ?_, ?_, List.nodup_nil, ?_, fun _ _ _ => rfl, rfl⟩,
      ⟨?_, trivial, ?_, ?_, ?_⟩⟩ <;> simp [P0, insW, insideB, Props.C02bp.inside, data]
  · refine ⟨?_, ?_, ?_, ?_, ?_, ?_, ?_, ?_, ?_⟩ <;> try (simp; done)
    intro a ⟨x, hx, _⟩
    simp [View.buf, data] at hx

/-- ONE STEP keeps the chain invariant, provided the leader lookups of the step name workers not named before -/
theorem chain_step {M : Nat} (hM : 1 ≤ M) {seen : List Nat} {s s' : Sys} (c : Choice)
    (hfresh : ∀ w ∈ lookupsOf c, w ∉ seen) (h : CInv M seen s) (hs : sysStep M s c = some s') :
    CInv M (seen ++ lookupsOf c) s' := by
  obtain ⟨olds, v, hg, ho, hcs⟩ := h
  have hcur' : ∀ c', s'.cur = some c' → c' ∈ seen ++ lookupsOf c := by
    intro c' hc'
    rcases sysStep_cur hs with h1 | h1 | ⟨w, hw, h1⟩
    · exact List.mem_append_left _ (hcs c' (by rw [← h1]; exact hc'))
    · rw [h1] at hc'; cases hc'
    · rw [h1] at hc'; cases hc'; exact List.mem_append_right _ hw
  have keep : ∀ v', GoodC M s' olds v' → CInv M (seen ++ lookupsOf c) s' :=
    fun v' hg' => ⟨olds, v', hg', fun w hw => List.mem_append_left _ (ho w hw), hcur'⟩
  cases c with
  | submit =>
    have : s' = submitS s := by simp only [sysStep, Option.some.injEq] at hs; exact hs.symm
    subst this
    obtain ⟨v', hg'⟩ := goodC_submit hg
    exact keep v' hg'
  | retryOut =>
    simp only [sysStep] at hs
    cases hr : s.ret with
    | nil => simp [hr] at hs
    | cons t r =>
      simp only [hr, Option.some.injEq] at hs
      subst hs; exact keep v (goodC_retryOut hg t r hr)
  | dispatch =>
    simp only [sysStep] at hs
    cases hr : s.dq with
    | nil => simp [hr] at hs
    | cons t r =>
      simp only [hr, Option.some.injEq] at hs
      subst hs; exact keep v (goodC_dispatch hg t r hr)
  | ppRecv lks =>
    have hl : ∀ w, some w ∈ lks → w ∉ olds ∧ s.cur ≠ some w := by
      intro w hw
      have hws : w ∉ seen := hfresh w (by simp [lookupsOf, hw])
      exact ⟨fun h => hws (ho w h), fun h => hws (hcs w h)⟩
    obtain ⟨olds', v', hg', hsub⟩ := goodC_ppRecv hg hl hs
    refine ⟨olds', v', hg', ?_, hcur'⟩
    intro w hw
    rcases hsub w hw with h1 | h1
    · exact List.mem_append_left _ (ho w h1)
    · exact List.mem_append_left _ (hcs w h1)
  | bpRecv w ov => obtain ⟨v', hg'⟩ := goodC_bpRecv hg hs; exact keep v' hg'
  | handover w => exact keep v (goodC_handover hg hs)
  | broker w vd => exact keep v (goodC_broker hg hs)
  | deliver w still => obtain ⟨v', hg'⟩ := goodC_deliver hM hg hs; exact keep v' hg'
  | moveLeader b =>
    simp only [sysStep, Option.some.injEq] at hs
    subst hs; exact keep v (goodC_moveLeader hg b)
  | closeW w => obtain ⟨v', hg'⟩ := goodC_closeW hg hs; exact keep v' hg'

theorem chain_run {M : Nat} (hM : 1 ≤ M) (cs : List Choice) : ∀ {seen : List Nat} {s s' : Sys},
    (cs.flatMap lookupsOf).Nodup → (∀ w ∈ cs.flatMap lookupsOf, w ∉ seen) → CInv M seen s →
    run M s cs = some s' → ∃ seen', CInv M seen' s' := by
  induction cs with
  | nil => intro seen s s' _ _ h hr; simp only [run, Option.some.injEq] at hr; rw [← hr]; exact ⟨seen, h⟩
  | cons c cs ih =>
    intro seen s s' hnd hdis h hr
    simp only [run] at hr
    cases hs : sysStep M s c with
    | none => simp [hs] at hr
    | some s1 =>
      simp only [hs] at hr
      simp only [List.flatMap_cons, List.nodup_append] at hnd
      obtain ⟨_, hnd2, hnd3⟩ := hnd
      have h1 := chain_step hM c (fun w hw => hdis w (by simp [List.flatMap_cons, hw])) h hs
      refine ih hnd2 ?_ h1 hr
      intro w hw hm
      rcases List.mem_append.1 hm with hm | hm
      · exact hdis w (by simp only [List.flatMap_cons, List.mem_append]; exact Or.inr hw) hm
      · exact hnd3 w hm w hw rfl

theorem cinv_logOrder {M : Nat} {seen : List Nat} {s : Sys} (h : CInv M seen s) : LogOrder s := by
  obtain ⟨olds, v, hg, _, _⟩ := h
  exact ⟨fun a b oa ob ha hb hab => hg.log.S3 (a, oa) ha (b, ob) hb hab, hg.log.J⟩

/-- **log order, handover chain**: for every retry budget `M ≥ 1` and EVERY choice sequence in which no leader
    lookup names a worker that an earlier lookup has named - so the partition is only ever handed to a fresh
    worker, while all the workers it has left go on draining concurrently - the state reached satisfies
    `LogOrder`: success offsets increase with the submission rank, and first copies in the log appear in
    submission order.  Everything else is unrestricted: interleaving of all components and of all workers, fault
    verdicts (retriable with or without append, fatal, connection errors), failed lookups, leader moves,
    overflow / flush timing, stale and empty produce sets. -/
theorem log_order_handover_chain {M : Nat} (hM : 1 ≤ M) (cs : List Choice) (hc : HandoverChain cs) {s : Sys}
    (hr : run M {} cs = some s) : LogOrder s := by
  obtain ⟨seen', h⟩ := chain_run hM cs hc (fun _ _ hm => by cases hm) (chain_init M) hr
  exact cinv_logOrder h

/-- in handover-chain runs `newHighWatermark` never finds `pp.brokerProducer == nil` -/
theorem no_nil_deref_handover_chain {M : Nat} (hM : 1 ≤ M) (cs : List Choice) (hc : HandoverChain cs) {s : Sys}
    (hr : run M {} cs = some s) : s.crash = false := by
  obtain ⟨seen', olds, v, hg, _, _⟩ := chain_run hM cs hc (fun _ _ hm => by cases hm) (chain_init M) hr
  exact hg.conc.crash

/-! ### non-vacuity: the successor worker (1) accepts, sends and gets acknowledged the retried messages 0 and 1
    BEFORE the old worker (0) has bounced message 2 and the chaser - an interleaving the single-worker model
    does not have -/

def exChain : List Choice :=
  [.submit, .submit, .submit, .dispatch, .dispatch, .ppRecv [some 0], .ppRecv [],
   .bpRecv 0 false, .bpRecv 0 false, .bpRecv 0 false, .handover 0, .broker 0 (.retriable true), .deliver 0 false,
   .retryOut, .retryOut, .dispatch, .dispatch, .dispatch,
   .ppRecv [], .ppRecv [some 1], .ppRecv [],
   .submit, .dispatch, .ppRecv [],
   .bpRecv 1 false, .bpRecv 1 false, .bpRecv 1 false, .handover 1, .broker 1 .ok, .deliver 1 false,
   .bpRecv 0 false, .bpRecv 0 false,
   .retryOut, .retryOut, .dispatch, .dispatch, .ppRecv [], .ppRecv [],
   .bpRecv 1 false, .bpRecv 1 false, .handover 1, .broker 1 .ok, .deliver 1 false]

example : HandoverChain exChain := by decide

example : (run 2 {} exChain).map (fun s => (s.log, s.succ, s.errs)) =
    some ([0, 1, 0, 1, 2, 3], [(0, 2), (1, 3), (2, 4), (3, 5)], []) := by decide

example : ∀ s, run 2 {} exChain = some s → LogOrder s :=
  fun _ h => log_order_handover_chain (by decide) exChain (by decide) h

end Props.C02sys
