/-
  C02 composition, stage C: `ProjSim_partial` - the projection of a run with several partitions on one partition,
  along the whole run, with exactly ONE single-step statement left open.
    * `projOK M p sN cs` - DECIDABLE side condition, checked along the N-run: every `broker` step has an answer that is
      well-formed for `p` and, if it appends for `p`, comes from the leader of `p` (`brOK`); every `deliver` step is not
      one of the excluded cases (`delOK`: the set holds something of `p`, or the answer is not a connection error and no
      message of `p` is held in waitForSpace).
    * `DeliverProj M p` - (a named Prop; PROVED in Props/C02multiC2.lean, `deliverProj_holds`): the projection of the `deliver` step under `delOK` (visible set: the
      `deliver` step with the projected answer; hidden set: no step).  It needs the projection of `BrokerProd.resp`
      with several partitions in the set on one partition.
    * `ProjSim_partial` - PROVED from `DeliverProj`: `projOK` and `runN M {} cs = some sN` give a run of
      `Model.Pipeline` with the log, successes and errors of `p` (invariant: `WRel (BRp p)`; induction step:
      `proj_step_partial` for every choice but `deliver`).
    * `log_order_every_partition_partial` - PROVED from `DeliverProj`: LogOrder for `p`, provided the exhibited
      one-partition run is inside the scope of `log_order_reselect` (`splitOKs`).
-/
import SaramaVerif.Props.C02multiA

set_option linter.unusedSimpArgs false

namespace Props.C02sys
open Model Model.Pipeline Model.PipelineN Model.BrokerProd Lemmas.C02sys

def isConn : RespN → Bool
  | .conn _ => true
  | _ => false

/-- the broker step is one the projection on `p` can follow -/
def brOK (p : Int) (sN : SysN) (w : Nat) (r : RespN) : Bool :=
  ((projV p r).appends == r.appends p) && !((projV p r).appends && !(brokerOf w == sN.ldr p))

/-- the deliver step is not one of the excluded cases -/
def delOK (p : Int) (sN : SysN) (w : Nat) : Bool :=
  match (sN.wk w).bp.sets, (sN.wk w).pend with
  | sent :: _, some (r, _) =>
    !(projL p sent).isEmpty || (!isConn r && (projWait p (sN.wk w).bp.wait).isNone)
  | _, _ => true

/-- the side condition of the projection on `p`, decidable, checked along the run -/
def projOK (M : Nat) (p : Int) : SysN → List ChoiceN → Bool
  | _, [] => true
  | sN, c :: cs =>
    match sysStepN M sN c with
    | none => false
    | some sN' =>
      (match c with
        | .broker w r => brOK p sN w r
        | .deliver w _ => delOK p sN w
        | _ => true) && projOK M p sN' cs

/-- **the projection of the `deliver` step** (a named Prop; proved in Props/C02multiC2.lean: `deliverProj_holds`) -/
def DeliverProj (M : Nat) (p : Int) : Prop :=
  ∀ (sN sN' : SysN) (s : Sys) (w : Nat) (st : Bool), WRel (BRp p) p sN s → delOK p sN w = true →
    sysStepN M sN (.deliver w st) = some sN' →
    WRel (BRp p) p sN' s ∨ ∃ c' s', sysStep M s c' = some s' ∧ WRel (BRp p) p sN' s'

theorem run_snoc (M : Nat) (cs : List Choice) : ∀ (s s1 s2 : Sys) (c : Choice), run M s cs = some s1 →
    sysStep M s1 c = some s2 → run M s (cs ++ [c]) = some s2 := by
  induction cs with
  | nil => intro s s1 s2 c h1 h2; simp only [run, Option.some.injEq] at h1; subst h1; simp [run, h2]
  | cons a r ih =>
    intro s s1 s2 c h1 h2
    simp only [run, List.cons_append] at h1 ⊢
    cases hs : sysStep M s a with
    | none => simp [hs] at h1
    | some s' => simp only [hs] at h1 ⊢; exact ih s' s1 s2 c h1 h2

/-- the induction along the run -/
theorem proj_run {M : Nat} {p : Int} (hdel : DeliverProj M p) (cs : List ChoiceN) :
    ∀ {sN sN' : SysN} {s : Sys} (pre : List Choice), WRel (BRp p) p sN s → run M {} pre = some s →
    projOK M p sN cs = true → runN M sN cs = some sN' →
    ∃ cs' s', run M {} cs' = some s' ∧ WRel (BRp p) p sN' s' := by
  induction cs with
  | nil =>
    intro sN sN' s pre h hr _ hrn
    simp only [runN, Option.some.injEq] at hrn; subst hrn
    exact ⟨pre, s, hr, h⟩
  | cons c cs ih =>
    intro sN sN' s pre h hr hok hrn
    simp only [runN] at hrn
    cases hs : sysStepN M sN c with
    | none => simp [hs] at hrn
    | some sN1 =>
      simp only [hs] at hrn
      simp only [projOK, hs, Bool.and_eq_true] at hok
      obtain ⟨hc, hok1⟩ := hok
      have hstep : WRel (BRp p) p sN1 s ∨ ∃ c' s', sysStep M s c' = some s' ∧ WRel (BRp p) p sN1 s' := by
        by_cases hd : ∃ w st, c = .deliver w st
        · obtain ⟨w, st, rfl⟩ := hd
          exact hdel sN sN1 s w st h (by simpa using hc) hs
        · refine proj_step_partial h c (fun w st e => hd ⟨w, st, e⟩) ?_ hs
          intro w r e _
          subst e
          simp only [brOK, Bool.and_eq_true, beq_iff_eq, Bool.not_eq_true'] at hc
          refine ⟨hc.1, ?_⟩
          rw [h.q.ldr]
          simpa using hc.2
      rcases hstep with h1 | ⟨c', s', h1, h2⟩
      · exact ih pre h1 hr hok1 hrn
      · exact ih (pre ++ [c']) h2 (run_snoc M pre {} s s' c' hr h1) hok1 hrn

theorem wrel_init (p : Int) : WRel (BRp p) p {} {} :=
  ⟨qrel_init p, rfl, fun _ => rfl,
   fun _ => ⟨false, by rw [projB_init], rfl, (fun e => by cases e), fun _ => rfl, rfl⟩⟩

/-- **ProjSim, partial**: under the decidable side condition `projOK`, and given the projection of the `deliver` step
    (`DeliverProj`, the one single-step statement still open), the projection of a run with several partitions on `p`
    is a run of the one-partition model with the log, successes and errors of `p` -/
theorem ProjSim_partial {M : Nat} {p : Int} (hdel : DeliverProj M p) (cs : List ChoiceN) (sN : SysN)
    (hok : projOK M p {} cs = true) (hr : runN M {} cs = some sN) :
    ∃ (cs' : List Choice) (s : Sys), run M {} cs' = some s ∧ s.log = sN.log p ∧ s.succ = sN.succ p ∧
      s.errs = sN.errs p := by
  obtain ⟨cs', s', h1, h2⟩ := proj_run hdel cs [] (wrel_init p) rfl hok hr
  exact ⟨cs', s', h1, h2.q.log, h2.q.succ, h2.q.errs⟩

/-- LogOrder for partition `p` of a run with several partitions: under `projOK`, given `DeliverProj`, and provided the
    exhibited one-partition run is inside the scope of `log_order_reselect` -/
theorem log_order_every_partition_partial {M : Nat} (hM : 1 ≤ M) {p : Int} (hdel : DeliverProj M p)
    (cs : List ChoiceN) (sN : SysN) (hok : projOK M p {} cs = true) (hr : runN M {} cs = some sN) :
    ∃ (cs' : List Choice) (s : Sys), run M {} cs' = some s ∧ s.log = sN.log p ∧ s.succ = sN.succ p ∧
      (splitOKs M cs' = true → LogOrderOf (sN.log p) (sN.succ p)) := by
  obtain ⟨cs', s, h1, h2, h3, _⟩ := ProjSim_partial hdel cs sN hok hr
  refine ⟨cs', s, h1, h2, h3, fun hsp => ?_⟩
  have := log_order_reselect hM cs' hsp h1
  rw [logOrder_iff, h2, h3] at this
  exact this

/-! ### non-vacuity: `exTwo` satisfies `projOK` for both partitions -/

example : projOK 2 0 {} exTwo = true := by decide
example : projOK 2 1 {} exTwo = true := by decide

example (h0 : DeliverProj 2 0) : ∃ (cs' : List Choice) (s : Sys), run 2 {} cs' = some s ∧
    (∃ sN, runN 2 {} exTwo = some sN ∧ s.log = sN.log 0) := by
  cases hr : runN 2 {} exTwo with
  | none => exact absurd hr (by decide)
  | some sN =>
    obtain ⟨cs', s, h1, h2, _, _⟩ := ProjSim_partial h0 exTwo sN (by decide) hr
    exact ⟨cs', s, h1, sN, rfl, h2⟩

end Props.C02sys
