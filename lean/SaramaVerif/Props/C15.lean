import SaramaVerif.Lemmas.C15Iter
/-
  C15 — client metadata answers reflect the latest cluster metadata.
  Property theorems (helper developments: Lemmas/C15Keyed, C15Update, C15Iter).

  "Newest" is spelled out with plain `List.find?` on reversed lists (last entry wins), independent of the
  model's map functions.
-/
namespace Props.C15
open Model.Metadata Lemmas.C15

/-! ### specification vocabulary -/
/-- the last entry for topic `t` in a response -/
def lastTopic (r : Resp) (t : Topic) : Option TopicMeta := r.topics.reverse.find? (fun tm => decide (tm.name = t))
/-- the last entry for partition `p` in a topic's partition list -/
def lastPart (ps : List PartMeta) (p : Int) : Option PartMeta := ps.reverse.find? (fun pm => decide (pm.id = p))
/-- the last entry for broker `id` in a response -/
def lastBroker (r : Resp) (id : Int) : Option (Int × Addr) := r.brokers.reverse.find? (fun b => decide (b.1 = id))

/-- does the topic's error class keep (partial) partition results: ErrNoError and ErrLeaderNotAvailable -/
def keeps (e : Int) : Bool := decide (e = 0 ∨ e = 5)

private theorem stores_eq_keeps (e : Int) : (topicClass e).stores = keeps e := by
  unfold topicClass keeps errNone errInvalidTopic errTopicAuthorizationFailed errUnknownTopicOrPartition
    errLeaderNotAvailable
  by_cases h0 : e = 0
  · simp [h0, TopicClass.stores]
  · by_cases h1 : e = 17 ∨ e = 29
    · have : ¬ e = 5 := by omega
      simp [h0, h1, this, TopicClass.stores]
    · by_cases h3 : e = 3
      · simp [h3, TopicClass.stores]
      · by_cases h5 : e = 5
        · simp [h5, TopicClass.stores]
        · simp [h0, h1, h3, h5, TopicClass.stores]

/-! ### the two workhorses: what one refresh leaves for a topic -/
theorem cachedMetadata_update (s : State) (r : Resp) (full : Bool) (t : Topic) (p : Int) :
    cachedMetadata (updateMetadata s r full).s t p =
      match lastTopic r t with
      | some tm => if keeps tm.err then lastPart tm.parts p else none
      | none => if full then none else cachedMetadata s t p := by
  unfold cachedMetadata updateMetadata
  rw [foldl_applyTopic_metadata]
  show _ = match kget TopicMeta.name t r.topics.reverse with
      | some tm => if keeps tm.err then kget PartMeta.id p tm.parts.reverse else none
      | none => _
  cases kget TopicMeta.name t r.topics.reverse with
  | some tm =>
    simp only [storedEntry, stores_eq_keeps]
    by_cases h : keeps tm.err = true
    · simp [h, kget_buildParts]
    · simp [h]
  | none =>
    cases full <;> simp [resetIfFull, withBrokers, kget_nil]

theorem cachedPartitions_update (s : State) (r : Resp) (full : Bool) (t : Topic) (w : Bool) :
    cachedPartitions (updateMetadata s r full).s t w =
      match lastTopic r t with
      | some tm => if keeps tm.err then
                     some (if w then writableIds (buildParts tm.parts) else allIds (buildParts tm.parts))
                   else none
      | none => if full then none else cachedPartitions s t w := by
  unfold cachedPartitions updateMetadata
  rw [foldl_applyTopic_cached]
  show _ = match kget TopicMeta.name t r.topics.reverse with
      | some tm => _
      | none => _
  cases kget TopicMeta.name t r.topics.reverse with
  | some tm =>
    simp only [storedCache, stores_eq_keeps]
    by_cases h : keeps tm.err = true
    · cases w <;> simp [h]
    · simp [h]
  | none =>
    cases full <;> simp [resetIfFull, withBrokers, kget_nil]

theorem setPartitionCache_update (s : State) (r : Resp) (full : Bool) (t : Topic) (w : Bool) :
    setPartitionCache (updateMetadata s r full).s.metadata t w =
      match lastTopic r t with
      | some tm => if keeps tm.err then
                     some (if w then writableIds (buildParts tm.parts) else allIds (buildParts tm.parts))
                   else none
      | none => if full then none else setPartitionCache s.metadata t w := by
  unfold setPartitionCache updateMetadata
  rw [foldl_applyTopic_metadata]
  show _ = match kget TopicMeta.name t r.topics.reverse with
      | some tm => _
      | none => _
  cases kget TopicMeta.name t r.topics.reverse with
  | some tm =>
    simp only [storedEntry, stores_eq_keeps]
    by_cases h : keeps tm.err = true
    · cases w <;> simp [h]
    · simp [h]
  | none =>
    cases full <;> simp [resetIfFull, withBrokers, kget_nil]

theorem brokers_update (s : State) (r : Resp) (full : Bool) :
    (updateMetadata s r full).s.brokers = updateBrokers s.brokers r.brokers ∧
    (updateMetadata s r full).s.controller = r.controller ∧
    (updateMetadata s r full).s.seeds = s.seeds ∧ (updateMetadata s r full).s.dead = s.dead := by
  unfold updateMetadata
  have h := foldl_applyTopic_frame r.topics ⟨resetIfFull full (withBrokers s r), false, errNone⟩
  cases full <;> simpa [resetIfFull, withBrokers] using h

/-! ### 1. Partitions / WritablePartitions -/

/-- After a refresh whose response lists topic `t` (last entry `tm`, class "keep"), the cached list of all
    partitions is strictly ascending and has exactly the partition ids of that entry — whatever the cache
    held before (so: for every sequence of earlier responses). -/
theorem partitions_after_refresh (s : State) (r : Resp) (full : Bool) (t : Topic) (tm : TopicMeta)
    (ht : lastTopic r t = some tm) (hk : keeps tm.err = true) :
    ∃ l, cachedPartitions (updateMetadata s r full).s t false = some l ∧ l.Pairwise (· < ·) ∧
         ∀ p, p ∈ l ↔ ∃ pm ∈ tm.parts, pm.id = p := by
  rw [cachedPartitions_update, ht]
  simp only [hk, ↓reduceIte, Bool.false_eq_true]
  have hs := allIds_spec (buildParts tm.parts) (buildParts_nodup tm.parts)
  refine ⟨_, rfl, hs.1, ?_⟩
  intro p
  rw [hs.2 p, kget_buildParts, kget_isSome]
  simp

example :
    cachedPartitions (updateMetadata (init [1]) ⟨[(1, 11)], 1,
      [⟨7, 0, [⟨2, 1, [1], [1], [], 0⟩, ⟨0, 1, [1], [1], [], 5⟩, ⟨1, 9, [1], [1], [], 0⟩, ⟨2, 1, [], [], [], 0⟩]⟩]⟩ false).s 7 false
      = some [0, 1, 2] := by decide

/-- … and the writable list is strictly ascending and has exactly the ids whose (last) entry does not carry
    ErrLeaderNotAvailable. -/
theorem writable_spec (s : State) (r : Resp) (full : Bool) (t : Topic) (tm : TopicMeta)
    (ht : lastTopic r t = some tm) (hk : keeps tm.err = true) :
    ∃ l, cachedPartitions (updateMetadata s r full).s t true = some l ∧ l.Pairwise (· < ·) ∧
         ∀ p, p ∈ l ↔ ∃ pm, lastPart tm.parts p = some pm ∧ pm.err ≠ 5 := by
  rw [cachedPartitions_update, ht]
  simp only [hk, ↓reduceIte]
  have hs := writableIds_spec (buildParts tm.parts) (buildParts_nodup tm.parts)
  refine ⟨_, rfl, hs.1, ?_⟩
  intro p
  rw [hs.2 p]
  simp only [kget_buildParts]
  rfl

example :
    cachedPartitions (updateMetadata (init [1]) ⟨[(1, 11)], 1,
      [⟨7, 0, [⟨2, 1, [1], [1], [], 0⟩, ⟨0, 1, [1], [1], [], 5⟩, ⟨1, 9, [1], [1], [], 0⟩]⟩]⟩ false).s 7 true
      = some [1, 2] := by decide

/-! ### 2. Leader / Replicas / InSyncReplicas / OfflineReplicas -/

/-- the partition metadata served after the refresh is the response's (last) entry, verbatim -/
theorem metadata_after_refresh (s : State) (r : Resp) (full : Bool) (t : Topic) (tm : TopicMeta) (p : Int)
    (ht : lastTopic r t = some tm) (hk : keeps tm.err = true) :
    cachedMetadata (updateMetadata s r full).s t p = lastPart tm.parts p := by
  rw [cachedMetadata_update, ht]
  simp [hk]

/-- `Leader`: what the newest response says; a leader id that is not among the brokers of the newest response
    is reported as ErrLeaderNotAvailable. -/
theorem leader_spec (s : State) (r : Resp) (full : Bool) (t : Topic) (tm : TopicMeta) (p : Int)
    (ht : lastTopic r t = some tm) (hk : keeps tm.err = true) :
    cachedLeader (updateMetadata s r full).s t p =
      match lastPart tm.parts p with
      | none => .unknownTopicOrPartition
      | some pm =>
        if pm.err = 5 then .leaderNotAvailable
        else match lastBroker r pm.leader with
          | none => .leaderNotAvailable
          | some b => .broker b.1 b.2 := by
  unfold cachedLeader
  rw [metadata_after_refresh s r full t tm p ht hk, (brokers_update s r full).1]
  unfold leaderVerdict
  cases lastPart tm.parts p with
  | none => rfl
  | some pm =>
    simp only [errLeaderNotAvailable, kget_updateBrokers]
    rfl

/-- never a stale broker: whatever topic is asked (also one last refreshed long ago), a broker returned by
    `Leader` right after a refresh is an entry of THAT refresh's broker list. -/
theorem leader_never_stale (s : State) (r : Resp) (full : Bool) (t : Topic) (p : Int) (id : Int) (a : Addr)
    (h : cachedLeader (updateMetadata s r full).s t p = .broker id a) : (id, a) ∈ r.brokers := by
  unfold cachedLeader leaderVerdict at h
  rw [(brokers_update s r full).1] at h
  split at h
  · cases h
  · split at h
    · cases h
    · split at h
      · cases h
      · rename_i b hb
        rw [kget_updateBrokers] at hb
        have := (kget_some Prod.fst hb).2
        cases h
        simpa using this

example :
    cachedLeader (updateMetadata
        (updateMetadata (init [1]) ⟨[(1, 11), (2, 12)], 1, [⟨7, 0, [⟨0, 2, [2], [2], [], 0⟩]⟩]⟩ true).s
        ⟨[(1, 11)], 1, []⟩ false).s 7 0 = .leaderNotAvailable := by decide

/-- "writable = leader available": for a response that marks a partition ErrLeaderNotAvailable exactly when its
    leader is not in the broker list it sends (what Kafka brokers do), the writable list has exactly the
    partitions for which `Leader` returns a broker. -/
theorem writable_iff_leader_available (s : State) (r : Resp) (full : Bool) (t : Topic) (tm : TopicMeta)
    (ht : lastTopic r t = some tm) (hk : keeps tm.err = true)
    (hfaith : ∀ p pm, lastPart tm.parts p = some pm → (pm.err = 5 ↔ lastBroker r pm.leader = none))
    (l : List Int) (hl : cachedPartitions (updateMetadata s r full).s t true = some l) (p : Int) :
    p ∈ l ↔ leaderIsBroker (cachedLeader (updateMetadata s r full).s t p) = true := by
  rcases writable_spec s r full t tm ht hk with ⟨l', hl', _, hmem⟩
  rw [hl] at hl'
  cases hl'
  rw [hmem p, leader_spec s r full t tm p ht hk]
  cases hp : lastPart tm.parts p with
  | none => simp [leaderIsBroker]
  | some pm =>
    have hf := hfaith p pm hp
    by_cases h5 : pm.err = 5
    · simp [h5, leaderIsBroker]
    · have hb : lastBroker r pm.leader ≠ none := fun e => h5 (hf.mpr e)
      cases hlb : lastBroker r pm.leader with
      | none => exact absurd hlb hb
      | some b => simp [h5, leaderIsBroker, hlb]

/-- without that hypothesis the two can differ: an entry with ErrNoError whose leader id is in no broker entry is
    listed writable, while `Leader` answers ErrLeaderNotAvailable (the code filters on the error code only) -/
example :
    cachedPartitions (updateMetadata (init [1]) ⟨[(1, 11)], 1, [⟨7, 0, [⟨0, 9, [1], [1], [], 0⟩]⟩]⟩ false).s 7 true
      = some [0] ∧
    cachedLeader (updateMetadata (init [1]) ⟨[(1, 11)], 1, [⟨7, 0, [⟨0, 9, [1], [1], [], 0⟩]⟩]⟩ false).s 7 0
      = .leaderNotAvailable := by decide

/-- `Replicas`, `InSyncReplicas`, `OfflineReplicas`: the lists of the newest response's entry (with
    ErrReplicaNotAvailable passed on next to the list), ErrUnknownTopicOrPartition when the entry is absent. -/
theorem replicas_isr_offline_spec (s : State) (r : Resp) (full : Bool) (t : Topic) (tm : TopicMeta) (p : Int)
    (sel : PartMeta → List Int) (ht : lastTopic r t = some tm) (hk : keeps tm.err = true) :
    replicasVerdict sel (cachedMetadata (updateMetadata s r full).s t p) =
      match lastPart tm.parts p with
      | none => .err 3
      | some pm => if pm.err = 9 then .okReplicaNotAvailable (sel pm) else .ok (sel pm) := by
  rw [metadata_after_refresh s r full t tm p ht hk]
  rfl

example :
    replicasVerdict PartMeta.isr (cachedMetadata (updateMetadata (init [1]) ⟨[(1, 11)], 1,
      [⟨7, 0, [⟨0, 1, [1, 2], [2], [3], 9⟩]⟩]⟩ false).s 7 0) = .okReplicaNotAvailable [2] := by decide

/-! ### 3. topic error classes -/

/-- the classes of `switch topic.Err`: exactly ErrNoError and ErrLeaderNotAvailable keep (partial) results;
    every other error forgets the topic (metadata and both cached lists) but keeps it tracked; retry is asked
    for ErrUnknownTopicOrPartition, ErrLeaderNotAvailable and leaderless partitions; the error returned is the
    last forgetting topic's. -/
theorem topic_error_classes (s : State) (r : Resp) (full : Bool) (t : Topic) (tm : TopicMeta)
    (ht : lastTopic r t = some tm) :
    (keeps tm.err = false →
        (∀ p, cachedMetadata (updateMetadata s r full).s t p = none) ∧
        (∀ w, cachedPartitions (updateMetadata s r full).s t w = none)) ∧
    (keeps tm.err = true →
        (∀ p, cachedMetadata (updateMetadata s r full).s t p = lastPart tm.parts p) ∧
        (∀ w, (cachedPartitions (updateMetadata s r full).s t w).isSome)) ∧
    t ∈ (updateMetadata s r full).s.tracked := by
  refine ⟨?_, ?_, ?_⟩
  · intro hk
    constructor
    · intro p; rw [cachedMetadata_update, ht]; simp [hk]
    · intro w; rw [cachedPartitions_update, ht]; simp [hk]
  · intro hk
    constructor
    · intro p; rw [cachedMetadata_update, ht]; simp [hk]
    · intro w; rw [cachedPartitions_update, ht]; simp [hk]
  · unfold updateMetadata
    rw [foldl_applyTopic_tracked]
    left
    have := List.mem_of_find?_eq_some ht
    have hn := List.find?_some ht
    exact ⟨tm, by simpa using this, by simpa using hn⟩

/-- which entries ask for a retry (spelled out with literal codes) -/
def asksRetry (tm : TopicMeta) : Bool :=
  decide (tm.err = 3 ∨ tm.err = 5 ∨ (tm.err = 0 ∧ ∃ pm ∈ tm.parts, pm.err = 5))

private theorem topicRetry_eq (tm : TopicMeta) : topicRetry tm = asksRetry tm := by
  unfold topicRetry asksRetry topicClass partsRetry errNone errInvalidTopic errTopicAuthorizationFailed
    errUnknownTopicOrPartition errLeaderNotAvailable
  by_cases h0 : tm.err = 0
  · simp [h0]
    rw [Bool.eq_iff_iff]
    simp [List.any_eq_true]
  · by_cases h1 : tm.err = 17 ∨ tm.err = 29
    · have h3 : ¬ tm.err = 3 := by omega
      have h5 : ¬ tm.err = 5 := by omega
      simp [h0, h1, h3, h5]
    · by_cases h3 : tm.err = 3
      · simp [h3]
      · by_cases h5 : tm.err = 5
        · simp [h5]
        · simp [h0, h1, h3, h5]

theorem retry_and_error_spec (s : State) (r : Resp) (full : Bool) :
    (updateMetadata s r full).retry = r.topics.any asksRetry ∧
    (updateMetadata s r full).err =
      match r.topics.reverse.find? (fun tm => !keeps tm.err) with
      | some tm => tm.err
      | none => 0 := by
  unfold updateMetadata
  rw [foldl_applyTopic_retry, foldl_applyTopic_err]
  constructor
  · simp only [Bool.false_or]
    congr 1
    funext tm
    exact topicRetry_eq tm
  · have : (fun tm : TopicMeta => !(topicClass tm.err).stores) = (fun tm => !keeps tm.err) := by
      funext tm; rw [stores_eq_keeps]
    rw [this]
    rfl

example : (updateMetadata (init [1]) ⟨[(1, 11)], 1,
      [⟨7, 3, []⟩, ⟨8, 17, []⟩, ⟨9, 0, [⟨0, 1, [], [], [], 0⟩]⟩]⟩ false).retry = true ∧
    (updateMetadata (init [1]) ⟨[(1, 11)], 1,
      [⟨7, 3, []⟩, ⟨8, 17, []⟩, ⟨9, 0, [⟨0, 1, [], [], [], 0⟩]⟩]⟩ false).err = 17 := by decide

/-! ### 4. brokers -/

/-- After a refresh the broker map IS the newest response's broker list: every id answers with the last
    entry carrying it (new id → added, changed address → replaced), ids absent from the response are gone;
    ids stay unique; the controller id is the response's. -/
theorem brokers_reconciled (s : State) (r : Resp) (full : Bool) :
    (∀ id, kget Prod.fst id (updateMetadata s r full).s.brokers = lastBroker r id) ∧
    (BNodup s → BNodup (updateMetadata s r full).s) ∧
    (updateMetadata s r full).s.controller = r.controller := by
  have h := brokers_update s r full
  refine ⟨?_, ?_, h.2.1⟩
  · intro id
    rw [h.1, kget_updateBrokers]
    rfl
  · intro hn
    unfold BNodup
    rw [h.1]
    exact updateBrokers_nodup _ _ hn

example : (updateMetadata
      (updateMetadata (init [1]) ⟨[(1, 11), (2, 12), (3, 13)], 1, []⟩ true).s
      ⟨[(3, 33), (1, 11)], 3, []⟩ false).s.brokers = [(3, 33), (1, 11)] := by decide

/-! ### 5. full refresh -/

/-- a full refresh forgets everything the response does not mention: metadata, both cached lists and the
    tracked-topics set are exactly the response's. -/
theorem full_refresh_resets (s : State) (r : Resp) (t : Topic) (ht : lastTopic r t = none) :
    (∀ p, cachedMetadata (updateMetadata s r true).s t p = none) ∧
    (∀ w, cachedPartitions (updateMetadata s r true).s t w = none) ∧
    t ∉ (updateMetadata s r true).s.tracked := by
  refine ⟨?_, ?_, ?_⟩
  · intro p; rw [cachedMetadata_update, ht]; simp
  · intro w; rw [cachedPartitions_update, ht]; simp
  · unfold updateMetadata
    rw [foldl_applyTopic_tracked]
    simp only [resetIfFull, ↓reduceIte, List.not_mem_nil, or_false]
    rintro ⟨tm, hm, e⟩
    unfold lastTopic at ht
    rw [List.find?_eq_none] at ht
    exact absurd e (by simpa using ht tm (by simpa using hm))

/-- a per-topic refresh leaves every topic it does not mention untouched -/
theorem partial_refresh_keeps_others (s : State) (r : Resp) (t : Topic) (ht : lastTopic r t = none) :
    (∀ p, cachedMetadata (updateMetadata s r false).s t p = cachedMetadata s t p) ∧
    (∀ w, cachedPartitions (updateMetadata s r false).s t w = cachedPartitions s t w) := by
  constructor
  · intro p; rw [cachedMetadata_update, ht]; simp
  · intro w; rw [cachedPartitions_update, ht]; simp

example : cachedPartitions (updateMetadata
      (updateMetadata (init [1]) ⟨[(1, 11)], 1, [⟨7, 0, [⟨0, 1, [], [], [], 0⟩]⟩]⟩ false).s
      ⟨[(1, 11)], 1, [⟨8, 0, [⟨0, 1, [], [], [], 0⟩]⟩]⟩ true).s 7 false = none := by decide

/-! ### 6. "never a mixture": the cached lists are a function of the metadata map, in every reachable state -/

/-- the state invariant readers rely on: both cached lists of every topic are what `setPartitionCache` computes
    from the metadata map of the SAME state (and a topic has cached lists iff it has metadata) -/
def SInv (s : State) : Prop := ∀ t w, cachedPartitions s t w = setPartitionCache s.metadata t w

theorem sinv_init (seeds : List Addr) : SInv (init seeds) := by
  intro t w; simp [cachedPartitions, setPartitionCache, init, kget_nil]

theorem sinv_update (s : State) (r : Resp) (full : Bool) (h : SInv s) : SInv (updateMetadata s r full).s := by
  intro t w
  rw [cachedPartitions_update, setPartitionCache_update, h t w]

private theorem deregisterSeed_frame (s : State) :
    (deregisterSeed s).metadata = s.metadata ∧ (deregisterSeed s).cached = s.cached := by
  unfold deregisterSeed
  split <;> simp

private theorem sinv_of_eq {s s' : State} (h : SInv s) (hm : s'.metadata = s.metadata) (hc : s'.cached = s.cached) :
    SInv s' := by
  intro t w
  have := h t w
  unfold cachedPartitions at *
  rw [hm, hc]
  exact this

theorem sinv_step (s : State) (op : Op) (h : SInv s) : SInv (step s op) := by
  cases op with
  | update r full => exact sinv_update s r full h
  | deregSeed => exact sinv_of_eq h (deregisterSeed_frame s).1 (deregisterSeed_frame s).2
  | deregKnown id => exact sinv_of_eq h rfl rfl
  | resurrect => exact sinv_of_eq h rfl rfl
  | register b => exact sinv_of_eq h rfl rfl
  | deregController => exact sinv_of_eq h rfl rfl
  | refreshBrokers a => exact sinv_of_eq h rfl rfl

/-- invariant over EVERY operation sequence (refreshes full or per topic, brokers set aside, seeds resurrected,
    coordinators registered, RefreshBrokers): each step is atomic, so a reader between any two steps sees cached
    lists that are the function of the metadata map — never a mixture of two refreshes. -/
theorem derived_lists_consistent (seeds : List Addr) (ops : List Op) : SInv (run (init seeds) ops) := by
  have : ∀ s, SInv s → SInv (run s ops) := by
    induction ops with
    | nil => intro s h; exact h
    | cons op ops ih => intro s h; exact ih _ (sinv_step s op h)
  exact this _ (sinv_init seeds)

/-- consequence for readers: in every reachable state the list `Partitions` serves is strictly ascending and
    has exactly the ids for which partition metadata is served; `WritablePartitions` exactly those whose
    metadata does not carry ErrLeaderNotAvailable. (needs: partition maps have unique ids) -/
def PInv (s : State) : Prop := ∀ e ∈ s.metadata, (keys PartMeta.id e.2).Nodup

private theorem pinv_forget (s : State) (t : Topic) (h : PInv s) : PInv (forgetTopic s t) := by
  intro e he
  simp only [forgetTopic] at he
  exact h e ((mem_kerase Prod.fst).mp he).1

private theorem pinv_applyTopic (a : Acc) (tm : TopicMeta) (h : PInv a.s) : PInv (applyTopic a tm).s := by
  have hf := pinv_forget a.s tm.name h
  have hs : PInv (storeTopic (forgetTopic a.s tm.name) tm) := by
    intro e he
    simp only [storeTopic, rebuildCache, putMeta, List.mem_cons] at he
    rcases he with e1 | e1
    · rw [e1]; exact buildParts_nodup tm.parts
    · exact hf e e1
  unfold applyTopic
  split <;> assumption

private theorem pinv_of_eq {s s' : State} (h : PInv s) (hm : s'.metadata = s.metadata) : PInv s' := by
  intro e he
  rw [hm] at he
  exact h e he

theorem pinv_step (s : State) (op : Op) (h : PInv s) : PInv (step s op) := by
  cases op with
  | update r full =>
    have h0 : PInv (resetIfFull full (withBrokers s r)) := by
      cases full
      · exact h
      · intro e he; simp [resetIfFull] at he
    have : ∀ (ts : List TopicMeta) (a : Acc), PInv a.s → PInv (ts.foldl applyTopic a).s := by
      intro ts
      induction ts with
      | nil => intro a h; exact h
      | cons tm ts ih => intro a h; exact ih _ (pinv_applyTopic a tm h)
    exact this r.topics ⟨resetIfFull full (withBrokers s r), false, errNone⟩ h0
  | deregSeed => exact pinv_of_eq h (deregisterSeed_frame s).1
  | deregKnown id => exact pinv_of_eq h rfl
  | resurrect => exact pinv_of_eq h rfl
  | register b => exact pinv_of_eq h rfl
  | deregController => exact pinv_of_eq h rfl
  | refreshBrokers a => exact pinv_of_eq h rfl

theorem pinv_run (seeds : List Addr) (ops : List Op) : PInv (run (init seeds) ops) := by
  have : ∀ s, PInv s → PInv (run s ops) := by
    induction ops with
    | nil => intro s h; exact h
    | cons op ops ih => intro s h; exact ih _ (pinv_step s op h)
  exact this _ (by intro e he; simp [init] at he)

theorem readers_see_consistent_lists (seeds : List Addr) (ops : List Op) (t : Topic) :
    (∀ l, cachedPartitions (run (init seeds) ops) t false = some l →
        l.Pairwise (· < ·) ∧ ∀ p, p ∈ l ↔ (cachedMetadata (run (init seeds) ops) t p).isSome) ∧
    (∀ l, cachedPartitions (run (init seeds) ops) t true = some l →
        l.Pairwise (· < ·) ∧
        ∀ p, p ∈ l ↔ ∃ pm, cachedMetadata (run (init seeds) ops) t p = some pm ∧ pm.err ≠ 5) ∧
    ((cachedPartitions (run (init seeds) ops) t false).isSome ↔
      (cachedPartitions (run (init seeds) ops) t true).isSome) := by
  have hs := derived_lists_consistent seeds ops
  have hp := pinv_run seeds ops
  generalize run (init seeds) ops = s at *
  have hF := hs t false
  have hT := hs t true
  unfold setPartitionCache at hF hT
  unfold cachedMetadata
  cases hg : kget Prod.fst t s.metadata with
  | none =>
    rw [hg] at hF hT
    simp only [Option.map_none] at hF hT
    rw [hF, hT]
    simp
  | some e =>
    rw [hg] at hF hT
    simp only [Option.map_some, Bool.false_eq_true, ↓reduceIte] at hF hT
    have hnd := hp e (kget_some Prod.fst hg).2
    rw [hF, hT]
    refine ⟨?_, ?_, by simp⟩
    · intro l hl
      cases hl
      simpa using allIds_spec e.2 hnd
    · intro l hl
      cases hl
      simpa [errLeaderNotAvailable] using writableIds_spec e.2 hnd

/-! ### 7. the whole history: the cache is the fold of the responses (the harness oracle's reference view) -/

/-- reference view: what response history `hist` (NEWEST FIRST; `(response, full?)`) says about partition `p`
    of topic `t`: the newest response mentioning the topic decides; a full refresh not mentioning it forgets it -/
def refPart : List (Resp × Bool) → Topic → Int → Option PartMeta
  | [], _, _ => none
  | (r, full) :: older, t, p =>
    match lastTopic r t with
    | some tm => if keeps tm.err then lastPart tm.parts p else none
    | none => if full then none else refPart older t p

/-- reference view of the broker map: the newest response's list -/
def refBroker : List (Resp × Bool) → Int → Option (Int × Addr)
  | [], _ => none
  | (r, _) :: _, id => lastBroker r id

def runUpdates (s : State) (hist : List (Resp × Bool)) : State :=
  hist.foldl (fun s rf => (updateMetadata s rf.1 rf.2).s) s

/-- For EVERY sequence of metadata responses (oldest first), full or per-topic, the metadata served for every
    topic/partition and the broker served for every id are those of the reference view. -/
theorem history_view (seeds : List Addr) (hist : List (Resp × Bool)) (t : Topic) (p : Int) (id : Int) :
    cachedMetadata (runUpdates (init seeds) hist) t p = refPart hist.reverse t p ∧
    kget Prod.fst id (runUpdates (init seeds) hist).brokers = refBroker hist.reverse id := by
  have key : ∀ (l : List (Resp × Bool)),
      cachedMetadata (runUpdates (init seeds) l.reverse) t p = refPart l t p ∧
      kget Prod.fst id (runUpdates (init seeds) l.reverse).brokers = refBroker l id := by
    intro l
    induction l with
    | nil => simp [runUpdates, refPart, refBroker, cachedMetadata, init, kget_nil]
    | cons rf l ih =>
      obtain ⟨r, full⟩ := rf
      have e : runUpdates (init seeds) ((r, full) :: l).reverse =
          (updateMetadata (runUpdates (init seeds) l.reverse) r full).s := by
        simp [runUpdates, List.foldl_append]
      rw [e]
      constructor
      · rw [cachedMetadata_update, refPart, ih.1]
      · rw [(brokers_reconciled _ r full).1 id]; rfl
  have := key hist.reverse
  rwa [List.reverse_reverse] at this

example : refPart [(⟨[], 0, []⟩, false), (⟨[], 0, [⟨7, 0, [⟨0, 1, [], [], [], 0⟩]⟩]⟩, true)] 7 0
    = some ⟨0, 1, [], [], [], 0⟩ := by decide

/-! ### 8. the public getters refresh once on a miss -/

theorem api_hit_reads_cache (refresh : State → State × Int) (s : State) (t : Topic) (l : List Int) (hl : l ≠ [])
    (h : cachedPartitions s t false = some l) :
    apiPartitions refresh s t false = (s, .ok l) := by
  unfold apiPartitions listMiss partitionsVerdict
  have : ¬ l.length = 0 := by
    intro e; exact hl (List.eq_nil_of_length_eq_zero e)
  simp [h, this]

theorem api_miss_refreshes_once (refresh : State → State × Int) (s : State) (t : Topic)
    (h : cachedPartitions s t false = none) :
    apiPartitions refresh s t false =
      if (refresh s).2 ≠ 0 then ((refresh s).1, .err (refresh s).2)
      else ((refresh s).1, partitionsVerdict (cachedPartitions (refresh s).1 t false)) := by
  unfold apiPartitions listMiss
  simp [h]

/-! ### 9. candidate iteration -/

/-- One pass of `tryRefreshMetadata`: if at least one candidate (seed or known broker) answers and none
    returns one of the fatal errors, the pass ends at an answering candidate — however many others are
    unreachable and in whatever order (`pick`) the known brokers are tried. The answering candidate is the last
    one asked, no more requests are made than there are candidates, and the refresh result is
    `updateMetadata` of that answer on a state whose cache part is untouched. -/
theorem refresh_succeeds_if_any_answers (pick : List (Int × Addr) → Nat) (reach : Addr → Reach) (full : Bool)
    (s : State) (hnd : BNodup s)
    (hnf : ∀ a ∈ candidates s, ∀ e, reach a ≠ .fatal e)
    (hans : ∃ a ∈ candidates s, ∃ r, reach a = .answer r) :
    ∃ a r, a ∈ candidates s ∧ reach a = .answer r ∧
      (pass pick reach s).out = .answered r ∧
      (pass pick reach s).tried.getLast? = some a ∧
      (pass pick reach s).tried.length ≤ (candidates s).length ∧
      a ∈ candidates (pass pick reach s).s ∧
      (pass pick reach s).s.metadata = s.metadata ∧ (pass pick reach s).s.cached = s.cached ∧
      attempt pick reach full s =
        ((updateMetadata (pass pick reach s).s r full).s, (updateMetadata (pass pick reach s).s r full).retry,
         .fromUpdate (updateMetadata (pass pick reach s).s r full).err) := by
  have hnfS : ∀ a ∈ s.seeds, ∀ e, reach a ≠ .fatal e := fun a ha => hnf a (by simp [candidates, ha])
  have hnfB : ∀ b ∈ s.brokers, ∀ e, reach b.2 ≠ .fatal e := fun b hb =>
    hnf b.2 (by simp only [candidates, List.mem_append, List.mem_map]; exact Or.inr ⟨b, hb, rfl⟩)
  have fin : ∀ r, (pass pick reach s).out = .answered r →
      attempt pick reach full s =
        ((updateMetadata (pass pick reach s).s r full).s, (updateMetadata (pass pick reach s).s r full).retry,
         .fromUpdate (updateMetadata (pass pick reach s).s r full).err) := by
    intro r h
    unfold attempt
    rw [h]
  rcases seeds_split reach s.seeds hnfS with hall | ⟨pre, a, post, r, hsplit, hpre, ha⟩
  · -- all seeds fail: a known broker must answer
    have hb : ∃ b ∈ s.brokers, ∃ r, reach b.2 = .answer r := by
      rcases hans with ⟨a, hac, r, hr⟩
      simp only [candidates, List.mem_append, List.mem_map] at hac
      rcases hac with h | ⟨b, hb, e⟩
      · rw [hall a h] at hr; cases hr
      · exact ⟨b, hb, r, by rw [e]; exact hr⟩
    have hp : pass pick reach s =
        passKnown pick reach s.brokers.length { s with seeds := [], dead := s.dead ++ s.seeds } ([] ++ s.seeds) :=
      passSeeds_all_fail pick reach s s.seeds s.dead [] hall
    rcases passKnown_answer pick reach s.brokers.length { s with seeds := [], dead := s.dead ++ s.seeds }
        ([] ++ s.seeds) (Nat.le_refl _) hnd hnfB hb with ⟨b, r, hbm, hr, hout, hin, hlast⟩
    have hlen := passKnown_tried_len pick reach s.brokers.length { s with seeds := [], dead := s.dead ++ s.seeds }
        ([] ++ s.seeds)
    have hfr := passKnown_frame pick reach s.brokers.length { s with seeds := [], dead := s.dead ++ s.seeds }
        ([] ++ s.seeds)
    rw [← hp] at hout hin hlast hlen hfr
    refine ⟨b.2, r, ?_, hr, hout, hlast, ?_, ?_, hfr.2.2.1, hfr.2.2.2.1, fin r hout⟩
    · simp only [candidates, List.mem_append, List.mem_map]; exact Or.inr ⟨b, hbm, rfl⟩
    · simpa [candidates] using hlen
    · simp only [candidates, List.mem_append, List.mem_map]; exact Or.inr ⟨b, hin, rfl⟩
  · -- the first non-failing seed answers
    have hp : pass pick reach s =
        ⟨{ s with seeds := a :: post, dead := s.dead ++ pre }, .answered r, [] ++ pre ++ [a]⟩ := by
      unfold pass
      rw [hsplit]
      exact passSeeds_first_answer pick reach s pre a post s.dead [] r hpre ha
    have hout : (pass pick reach s).out = .answered r := by rw [hp]
    refine ⟨a, r, ?_, ha, hout, ?_, ?_, ?_, ?_, ?_, fin r hout⟩
    · simp [candidates, hsplit]
    · rw [hp]; simp
    · rw [hp]; simp [candidates, hsplit]
    · rw [hp]; simp [candidates]
    · rw [hp]
    · rw [hp]

example :
    (pass (fun _ => 0) (fun a => if a = 13 then .answer ⟨[(3, 13)], 3, []⟩ else .fail)
      { init [10, 11] with brokers := [(2, 12), (3, 13)] }).tried = [10, 11, 12, 13] := by decide

/-- Termination and exhaustion: a pass ends `ErrOutOfBrokers` only after EVERY candidate was asked and failed;
    then no known broker is left, all seeds sit in the dead list in order, and `resurrectDeadBrokers` makes them
    the seed list of the next attempt. The number of requests is bounded by the number of candidates (each
    failing candidate is set aside exactly once: a seed moves to the dead list, a known broker is dropped). -/
theorem refresh_terminates (pick : List (Int × Addr) → Nat) (reach : Addr → Reach) (full : Bool) (s : State)
    (hnd : BNodup s) (hnf : ∀ a ∈ candidates s, ∀ e, reach a ≠ .fatal e) :
    (pass pick reach s).tried.length ≤ (candidates s).length ∧
    (∀ x ∈ (pass pick reach s).tried, x ∈ candidates s) ∧
    ((pass pick reach s).out = .outOfBrokers →
      (∀ a ∈ candidates s, reach a = .fail) ∧
      (pass pick reach s).s.brokers = [] ∧ (pass pick reach s).s.seeds = [] ∧
      (pass pick reach s).s.dead = s.dead ++ s.seeds ∧
      (attempt pick reach full s).1.seeds = s.dead ++ s.seeds ∧ (attempt pick reach full s).1.dead = [] ∧
      (attempt pick reach full s).2 = (true, .outOfBrokers)) := by
  have hnfS : ∀ a ∈ s.seeds, ∀ e, reach a ≠ .fatal e := fun a ha => hnf a (by simp [candidates, ha])
  have hnfB : ∀ b ∈ s.brokers, ∀ e, reach b.2 ≠ .fatal e := fun b hb =>
    hnf b.2 (by simp only [candidates, List.mem_append, List.mem_map]; exact Or.inr ⟨b, hb, rfl⟩)
  rcases seeds_split reach s.seeds hnfS with hall | ⟨pre, a, post, r, hsplit, hpre, ha⟩
  · have hp : pass pick reach s =
        passKnown pick reach s.brokers.length { s with seeds := [], dead := s.dead ++ s.seeds } ([] ++ s.seeds) :=
      passSeeds_all_fail pick reach s s.seeds s.dead [] hall
    have hlen := passKnown_tried_len pick reach s.brokers.length { s with seeds := [], dead := s.dead ++ s.seeds }
        ([] ++ s.seeds)
    have hsub := passKnown_tried_sub pick reach s.brokers.length { s with seeds := [], dead := s.dead ++ s.seeds }
        ([] ++ s.seeds)
    have hfr := passKnown_frame pick reach s.brokers.length { s with seeds := [], dead := s.dead ++ s.seeds }
        ([] ++ s.seeds)
    rw [← hp] at hlen hsub hfr
    refine ⟨by simpa [candidates] using hlen, ?_, ?_⟩
    · intro x hx
      rcases hsub x hx with h | h
      · simp only [candidates, List.mem_append]; exact Or.inl (by simpa using h)
      · simp only [candidates, List.mem_append]; exact Or.inr h
    · intro hout
      -- no known broker answers, otherwise the pass would have ended `answered`
      have hbf : ∀ b ∈ s.brokers, reach b.2 = .fail := by
        intro b hb
        cases hr : reach b.2 with
        | fail => rfl
        | fatal e => exact absurd hr (hnfB b hb e)
        | answer r =>
          rcases passKnown_answer pick reach s.brokers.length { s with seeds := [], dead := s.dead ++ s.seeds }
              ([] ++ s.seeds) (Nat.le_refl _) hnd hnfB ⟨b, hb, r, hr⟩ with ⟨_, r', _, _, hout', _, _⟩
          rw [← hp, hout] at hout'
          cases hout'
      have hk := passKnown_all_fail pick reach s.brokers.length { s with seeds := [], dead := s.dead ++ s.seeds }
          ([] ++ s.seeds) (Nat.le_refl _) hbf
      rw [← hp] at hk
      have hat : attempt pick reach full s = (resurrect (pass pick reach s).s, true, .outOfBrokers) := by
        unfold attempt; rw [hout]
      refine ⟨?_, hk.2, hfr.1, hfr.2.1, ?_, ?_, ?_⟩
      · intro a hac
        simp only [candidates, List.mem_append, List.mem_map] at hac
        rcases hac with h | ⟨b, hb, e⟩
        · exact hall a h
        · rw [← e]; exact hbf b hb
      · rw [hat]; simp [resurrect, hfr.1, hfr.2.1]
      · rw [hat]; simp [resurrect]
      · rw [hat]
  · have hp : pass pick reach s =
        ⟨{ s with seeds := a :: post, dead := s.dead ++ pre }, .answered r, [] ++ pre ++ [a]⟩ := by
      unfold pass
      rw [hsplit]
      exact passSeeds_first_answer pick reach s pre a post s.dead [] r hpre ha
    refine ⟨?_, ?_, ?_⟩
    · rw [hp]; simp [candidates, hsplit]
    · rw [hp]
      intro x hx
      simp only [List.nil_append, List.mem_append, List.mem_singleton] at hx
      simp only [candidates, hsplit, List.mem_append, List.mem_cons]
      rcases hx with h | h
      · exact Or.inl (Or.inl h)
      · exact Or.inl (Or.inr (Or.inl h))
    · intro hout
      rw [hp] at hout
      cases hout

example :
    (attempt (fun _ => 0) (fun _ => .fail) false { init [10, 11] with brokers := [(2, 12)], dead := [9] }).1.seeds
      = [9, 10, 11] := by decide

/-- Bounded retries with a seed that keeps answering: whatever the other candidates do (never fatal), every one of
    the at most `n+1` attempts of `tryRefreshMetadata` ends in `updateMetadata` of an answer — the refresh
    never reports ErrOutOfBrokers, and the answering seed is never set aside. -/
theorem refresh_with_live_seed (pick : Nat → List (Int × Addr) → Nat) (env : Nat → Addr → Reach) (full : Bool)
    (a0 : Addr) (hlive : ∀ n, ∃ r, env n a0 = .answer r) (hnf : ∀ n a e, env n a ≠ .fatal e)
    (n : Nat) (s : State) (hnd : BNodup s) (hs : a0 ∈ s.seeds) :
    (∃ e, (tryRefresh pick env full n s).2 = .fromUpdate e) ∧ a0 ∈ (tryRefresh pick env full n s).1.seeds ∧
    BNodup (tryRefresh pick env full n s).1 := by
  -- one attempt keeps the invariant
  have one : ∀ k (s : State), BNodup s → a0 ∈ s.seeds →
      (∃ e, (attempt (pick k) (env k) full s).2.2 = .fromUpdate e) ∧ a0 ∈ (attempt (pick k) (env k) full s).1.seeds ∧
      BNodup (attempt (pick k) (env k) full s).1 := by
    intro k s hnd hs
    rcases hlive k with ⟨r0, hr0⟩
    rcases seeds_split (env k) s.seeds (fun a _ e => hnf k a e) with hall | ⟨pre, a, post, r, hsplit, hpre, ha⟩
    · rw [hall a0 hs] at hr0; cases hr0
    · have hp : pass (pick k) (env k) s =
          ⟨{ s with seeds := a :: post, dead := s.dead ++ pre }, .answered r, [] ++ pre ++ [a]⟩ := by
        unfold pass
        rw [hsplit]
        exact passSeeds_first_answer (pick k) (env k) s pre a post s.dead [] r hpre ha
      have hat : attempt (pick k) (env k) full s =
          ((updateMetadata (pass (pick k) (env k) s).s r full).s, (updateMetadata (pass (pick k) (env k) s).s r full).retry,
           .fromUpdate (updateMetadata (pass (pick k) (env k) s).s r full).err) := by
        unfold attempt; rw [hp]
      rw [hat]
      have hb := brokers_update (pass (pick k) (env k) s).s r full
      refine ⟨⟨_, rfl⟩, ?_, ?_⟩
      · simp only
        rw [hb.2.2.1, hp]
        simp only
        rw [hsplit] at hs
        rcases List.mem_append.mp hs with h | h
        · rw [hpre a0 h] at hr0; cases hr0
        · exact h
      · simp only
        apply (brokers_reconciled _ r full).2.1
        rw [hp]
        exact hnd
  induction n generalizing s with
  | zero =>
    unfold tryRefresh
    exact one 0 s hnd hs
  | succ n ih =>
    unfold tryRefresh
    have h1 := one (n + 1) s hnd hs
    split
    · exact ih _ h1.2.2 h1.2.1
    · exact h1

/-- Resurrection: when a whole pass fails (every seed and known broker unreachable), the set-aside seeds —
    those that failed now and those already dead — are all seeds again for the next attempt; if one of them
    answers then, that attempt ends in `updateMetadata` of an answer. -/
theorem dead_seeds_resurrected (pick : List (Int × Addr) → Nat) (env : Nat → Addr → Reach) (full : Bool)
    (n : Nat) (s : State) (hnd : BNodup s) (a0 : Addr) (hs : a0 ∈ s.seeds ++ s.dead)
    (hfail : ∀ a ∈ candidates s, env (n + 1) a = .fail)
    (hnf : ∀ a e, env n a ≠ .fatal e) (hans : ∃ r, env n a0 = .answer r) :
    ∃ r a, env n a = .answer r ∧
      (attempt pick (env n) full (attempt pick (env (n + 1)) full s).1).2.2 =
        .fromUpdate (updateMetadata (pass pick (env n) (attempt pick (env (n + 1)) full s).1).s r full).err := by
  have hnf1 : ∀ a ∈ candidates s, ∀ e, env (n + 1) a ≠ .fatal e := by
    intro a ha e h; rw [hfail a ha] at h; cases h
  have ht := refresh_terminates pick (env (n + 1)) full s hnd hnf1
  -- the first pass is out of brokers
  have hout : (pass pick (env (n + 1)) s).out = .outOfBrokers := by
    have hallS : ∀ a ∈ s.seeds, env (n + 1) a = .fail := fun a ha => hfail a (by simp [candidates, ha])
    have hallB : ∀ b ∈ s.brokers, env (n + 1) b.2 = .fail := fun b hb =>
      hfail b.2 (by simp only [candidates, List.mem_append, List.mem_map]; exact Or.inr ⟨b, hb, rfl⟩)
    have hp := passSeeds_all_fail pick (env (n + 1)) s s.seeds s.dead [] hallS
    have := passKnown_all_fail pick (env (n + 1)) s.brokers.length
        { s with seeds := [], dead := s.dead ++ s.seeds } ([] ++ s.seeds) (Nat.le_refl _) hallB
    unfold pass
    rw [hp]
    exact this.1
  have h2 := ht.2.2 hout
  have hs' : a0 ∈ (attempt pick (env (n + 1)) full s).1.seeds := by
    rw [h2.2.2.2.2.1]
    rcases List.mem_append.mp hs with h | h
    · exact List.mem_append.mpr (Or.inr h)
    · exact List.mem_append.mpr (Or.inl h)
  have hbr : (attempt pick (env (n + 1)) full s).1.brokers = [] := by
    have hat : attempt pick (env (n + 1)) full s = (resurrect (pass pick (env (n + 1)) s).s, true, .outOfBrokers) := by
      unfold attempt; rw [hout]
    rw [hat]
    simp [resurrect, h2.2.1]
  have hnd' : BNodup (attempt pick (env (n + 1)) full s).1 := by
    unfold BNodup; rw [hbr]; simp [keys]
  rcases hans with ⟨r0, hr0⟩
  rcases refresh_succeeds_if_any_answers pick (env n) full (attempt pick (env (n + 1)) full s).1 hnd'
      (fun a _ e => hnf a e) ⟨a0, by simp [candidates, hs'], r0, hr0⟩ with ⟨a, r, _, hr, _, _, _, _, _, _, hat⟩
  exact ⟨r, a, hr, by rw [hat]⟩

/-- `NewClient`: with `Metadata.Full`, the client is created iff the initial full refresh ends with nil or one
    of the tolerated errors; if some seed answers (in whatever order the addresses were shuffled) with a response
    whose topic errors all keep their topics or are ErrTopicAuthorizationFailed, and asks for no retry, the
    client is created with exactly that response's view. -/
theorem new_client_created_if_seed_answers (pick : Nat → List (Int × Addr) → Nat) (env : Nat → Addr → Reach)
    (retryMax : Nat) (seeds : List Addr)
    (hnf : ∀ a e, env retryMax a ≠ .fatal e)
    (hans : ∃ a ∈ seeds, ∃ r, env retryMax a = .answer r)
    (hquiet : ∀ a r, env retryMax a = .answer r →
        r.topics.any asksRetry = false ∧ ∀ tm ∈ r.topics, keeps tm.err = true ∨ tm.err = 29) :
    ∃ a r, a ∈ seeds ∧ env retryMax a = .answer r ∧
      (newClient pick env true retryMax seeds).1 =
        some (updateMetadata (pass (pick retryMax) (env retryMax) (init seeds)).s r true).s := by
  have hnd : BNodup (init seeds) := by simp [BNodup, init, keys]
  have hc : candidates (init seeds) = seeds := by simp [candidates, init]
  rcases hans with ⟨a0, ha0, r0, hr0⟩
  rcases refresh_succeeds_if_any_answers (pick retryMax) (env retryMax) true (init seeds) hnd (fun a _ e => hnf a e)
      ⟨a0, by rw [hc]; exact ha0, r0, hr0⟩ with ⟨a, r, hac, hr, _, _, _, _, _, _, hat⟩
  rw [hc] at hac
  refine ⟨a, r, hac, hr, ?_⟩
  have hq := hquiet a r hr
  have hre := retry_and_error_spec (pass (pick retryMax) (env retryMax) (init seeds)).s r true
  have hret : (updateMetadata (pass (pick retryMax) (env retryMax) (init seeds)).s r true).retry = false := by
    rw [hre.1]; exact hq.1
  have herr : newClientTolerates (updateMetadata (pass (pick retryMax) (env retryMax) (init seeds)).s r true).err = true := by
    rw [hre.2]
    cases hf : r.topics.reverse.find? (fun tm => !keeps tm.err) with
    | none => simp [newClientTolerates, errNone]
    | some tm =>
      have hm := List.mem_of_find?_eq_some hf
      have hp := List.find?_some hf
      rcases hq.2 tm (by simpa using hm) with h | h
      · simp [h] at hp
      · simp [newClientTolerates, h, errTopicAuthorizationFailed]
  have htry : tryRefresh pick env true retryMax (init seeds) =
      ((updateMetadata (pass (pick retryMax) (env retryMax) (init seeds)).s r true).s,
       .fromUpdate (updateMetadata (pass (pick retryMax) (env retryMax) (init seeds)).s r true).err) := by
    cases retryMax with
    | zero => unfold tryRefresh; rw [hat]
    | succ n =>
      unfold tryRefresh
      rw [hat]
      simp [hret]
  unfold newClient
  simp [htry, RefreshRes.code, herr]

example : (newClient (fun _ _ => 0) (fun _ a => if a = 11 then .answer ⟨[(1, 11)], 1, [⟨7, 0, [⟨0, 1, [1], [1], [], 0⟩]⟩]⟩ else .fail)
    true 0 [10, 11, 12]).1.map (fun s => (s.seeds, s.dead, s.brokers)) = some ([11, 12], [10], [(1, 11)]) := by decide

end Props.C15
