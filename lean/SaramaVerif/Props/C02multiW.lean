/-
  C02 composition, stage C, worker level: the projection of a broker worker that serves several partitions on one
  partition `p` (`projB`: the closing mode, the retry mark of `p`, and what the buffer, the set at the bridge and the
  held message contain of `p`, relabelled to partition 0), and how the steps of the worker project:
    * `recv_proj_own`     - a token of `p` taken from the input channel: the projected worker takes the relabelled
                            token and reaches the projection of the new state;
    * `recv_proj_foreign` - a token of another partition: the projection does not move (a stutter step), up to `stale`;
    * `handover_proj`     - the bridge takes the buffer: if the projected worker can hand over (it holds something of
                            `p`, or a message of `p` is held, or `stale`), its hand-over reaches the projection of the
                            new state; otherwise (`handover_hidden`) the set holds nothing of `p` and no message of
                            `p` is held: the hidden sets of the replay.
  The projection of the answer (`resp`: per-partition verdicts, request-level errors) is not proved here; per
  partition it is accounted for by `Props.C02bp.step_fifo`.
-/
import SaramaVerif.Props.C02multi

set_option linter.unusedSimpArgs false

namespace Props.C02sys
open Model Model.BrokerProd

def projL (p : Int) (l : List Tok) : List Tok := (onPart p l).map relab

def projWait (p : Int) : Option Tok → Option Tok
  | some t => if t.part = p then some (relab t) else none
  | none => none

/-- what a worker is for partition `p` -/
def projB (p : Int) (b : St) : St :=
  { closing := b.closing, cr := fun q => if q = 0 then b.cr p else false, buffer := projL p b.buffer,
    sets := b.sets.map (projL p), wait := projWait p b.wait, stale := b.stale }

theorem projL_append (p : Int) (a b : List Tok) : projL p (a ++ b) = projL p a ++ projL p b := by
  simp [projL, onPart]

theorem projL_own {p : Int} {t : Tok} (h : t.part = p) : projL p [t] = [relab t] := by simp [projL, onPart, h]
theorem projL_foreign {p : Int} {t : Tok} (h : t.part ≠ p) : projL p [t] = [] := by simp [projL, onPart, h]

theorem needsRetry_proj (p : Int) (b : St) : needsRetry (projB p b) 0 = needsRetry b p := by
  simp [needsRetry, projB]

theorem projB_setCr_own (p : Int) (b : St) (v : Bool) :
    projB p { b with cr := setCr b.cr p v } = { projB p b with cr := setCr (projB p b).cr 0 v } := by
  simp only [projB, St.mk.injEq, true_and, and_true]
  funext q
  by_cases hq : q = 0 <;> simp [setCr, hq]

theorem projB_setCr_foreign (p : Int) (b : St) {q : Int} (hq : q ≠ p) (v : Bool) :
    projB p { b with cr := setCr b.cr q v } = projB p b := by
  simp only [projB, St.mk.injEq, true_and, and_true]
  funext x
  by_cases hx : x = 0 <;> simp [setCr, hx, Ne.symm hq]

theorem relab_kind (t : Tok) : (relab t).kind = t.kind := rfl
theorem relab_part (t : Tok) : (relab t).part = 0 := rfl

/-- a token of partition `p` taken from the input channel -/
theorem recv_proj_own (M : Nat) (p : Int) (b : St) (t : Tok) (ov : Bool) (ht : t.part = p) (hw : b.wait = none) :
    (step M (projB p b) (.recv (relab t) ov)).1 = projB p (step M b (.recv t ov)).1 := by
  have hwp : (projB p b).wait = none := by simp [projB, projWait, hw]
  have hn := needsRetry_proj p b
  by_cases hk : t.kind = .syn
  · have e1 : (step M b (.recv t ov)).1 = { b with cr := setCr b.cr p false } := by simp [step, recv, hw, hk, ht]
    have e2 : (step M (projB p b) (.recv (relab t) ov)).1 = { projB p b with cr := setCr (projB p b).cr 0 false } := by
      simp [step, recv, hwp, relab_kind, hk, relab_part]
    rw [e1, e2, projB_setCr_own]
  · cases hnr : needsRetry b p with
    | true =>
      have hnr' : needsRetry (projB p b) 0 = true := by rw [hn, hnr]
      have hclp : (projB p b).closing = b.closing := rfl
      by_cases hf : t.kind = .fin
      · cases hcl : b.closing with
        | false =>
          have e1 : (step M b (.recv t ov)).1 = { b with cr := setCr b.cr p false } := by
            simp [step, recv, hw, hk, ht, hnr, hf, hcl]
          have e2 : (step M (projB p b) (.recv (relab t) ov)).1 = { projB p b with cr := setCr (projB p b).cr 0 false } := by
            simp [step, recv, hwp, relab_kind, hk, relab_part, hnr', hf, hclp, hcl]
          rw [e1, e2, projB_setCr_own]
        | true =>
          have e1 : (step M b (.recv t ov)).1 = b := by simp [step, recv, hw, hk, ht, hnr, hf, hcl]
          have e2 : (step M (projB p b) (.recv (relab t) ov)).1 = projB p b := by
            simp [step, recv, hwp, relab_kind, hk, relab_part, hnr', hf, hclp, hcl]
          rw [e1, e2]
      · have e1 : (step M b (.recv t ov)).1 = b := by simp [step, recv, hw, hk, ht, hnr, hf]
        have e2 : (step M (projB p b) (.recv (relab t) ov)).1 = projB p b := by
          simp [step, recv, hwp, relab_kind, hk, relab_part, hnr', hf]
        rw [e1, e2]
    | false =>
      have hnr' : needsRetry (projB p b) 0 = false := by rw [hn, hnr]
      by_cases hf : t.kind = .fin
      · have e1 : (step M b (.recv t ov)).1 = b := by simp [step, recv, hw, hk, ht, hnr, hf]
        have e2 : (step M (projB p b) (.recv (relab t) ov)).1 = projB p b := by
          simp [step, recv, hwp, relab_kind, hk, relab_part, hnr', hf]
        rw [e1, e2]
      · cases ov with
        | true =>
          have e1 : (step M b (.recv t true)).1 = { b with wait := some t } := by simp [step, recv, hw, hk, ht, hnr, hf]
          have e2 : (step M (projB p b) (.recv (relab t) true)).1 = { projB p b with wait := some (relab t) } := by
            simp [step, recv, hwp, relab_kind, hk, relab_part, hnr', hf]
          rw [e1, e2]; simp [projB, projWait, ht]
        | false =>
          have e1 : (step M b (.recv t false)).1 = { b with buffer := b.buffer ++ [t], stale := false } := by
            simp [step, recv, hw, hk, ht, hnr, hf]
          have e2 : (step M (projB p b) (.recv (relab t) false)).1 =
              { projB p b with buffer := (projB p b).buffer ++ [relab t], stale := false } := by
            simp [step, recv, hwp, relab_kind, hk, relab_part, hnr', hf]
          rw [e1, e2]; simp [projB, projL_append, projL_own ht]

/-- a token of another partition: the projection on `p` does not move, up to the `stale` flag -/
theorem recv_proj_foreign (M : Nat) (p : Int) (b : St) (t : Tok) (ov : Bool) (ht : t.part ≠ p) (hw : b.wait = none) :
    projB p (step M b (.recv t ov)).1 = { projB p b with stale := (step M b (.recv t ov)).1.stale } := by
  by_cases hk : t.kind = .syn
  · have e1 : (step M b (.recv t ov)).1 = { b with cr := setCr b.cr t.part false } := by simp [step, recv, hw, hk]
    rw [e1, projB_setCr_foreign p b ht]; rfl
  · cases hnr : needsRetry b t.part with
    | true =>
      by_cases hf : t.kind = .fin
      · cases hcl : b.closing with
        | false =>
          have e1 : (step M b (.recv t ov)).1 = { b with cr := setCr b.cr t.part false } := by
            simp [step, recv, hw, hk, hnr, hf, hcl]
          rw [e1, projB_setCr_foreign p b ht]; rfl
        | true =>
          have e1 : (step M b (.recv t ov)).1 = b := by simp [step, recv, hw, hk, hnr, hf, hcl]
          rw [e1]; rfl
      · have e1 : (step M b (.recv t ov)).1 = b := by simp [step, recv, hw, hk, hnr, hf]
        rw [e1]; rfl
    | false =>
      by_cases hf : t.kind = .fin
      · have e1 : (step M b (.recv t ov)).1 = b := by simp [step, recv, hw, hk, hnr, hf]
        rw [e1]; rfl
      · cases ov with
        | true =>
          have e1 : (step M b (.recv t true)).1 = { b with wait := some t } := by simp [step, recv, hw, hk, hnr, hf]
          rw [e1]; simp [projB, projWait, ht, hw]
        | false =>
          have e1 : (step M b (.recv t false)).1 = { b with buffer := b.buffer ++ [t], stale := false } := by
            simp [step, recv, hw, hk, hnr, hf]
          rw [e1]; simp [projB, projL_append, projL_foreign ht]

/-- the bridge takes the buffer.  If the projected worker can hand over, its hand-over reaches the projection of the
    new state (a set that may hold nothing of `p` only when a message of `p` is held or `stale` is armed) -/
theorem handover_proj (M : Nat) (p : Int) (b : St) (hd : (step M b .handover).2 ≠ [Action.disabled])
    (hdp : (step M (projB p b) .handover).2 ≠ [Action.disabled]) :
    (step M (projB p b) .handover).1 = projB p (step M b .handover).1 := by
  cases hs : b.sets with
  | cons x r => simp [step, handover, hs] at hd
  | nil =>
    have hsp : (projB p b).sets = [] := by simp [projB, hs]
    cases hw : b.wait with
    | some t =>
      have e1 : (step M b .handover).1 = { b with sets := [b.buffer], buffer := [t], wait := none, stale := false } := by
        simp [step, handover, hs, hw]
      rw [e1]
      by_cases ht : t.part = p
      · have hwp : (projB p b).wait = some (relab t) := by simp [projB, projWait, hw, ht]
        have e2 : (step M (projB p b) .handover).1 =
            { projB p b with sets := [(projB p b).buffer], buffer := [relab t], wait := none, stale := false } := by
          simp [step, handover, hsp, hwp]
        rw [e2]; simp [projB, projWait, hs, projL_own ht]
      · have hwp : (projB p b).wait = none := by simp [projB, projWait, hw, ht]
        by_cases hdd : ((projB p b).buffer.isEmpty && !(projB p b).stale) = true
        · simp [step, handover, hsp, hwp, hdd] at hdp
        · have e2 : (step M (projB p b) .handover).1 =
              { projB p b with sets := [(projB p b).buffer], buffer := [], stale := false } := by
            simp [step, handover, hsp, hwp, hdd]
          rw [e2]; simp [projB, projWait, hs, projL_foreign ht, hw, ht]
    | none =>
      have hwp : (projB p b).wait = none := by simp [projB, projWait, hw]
      by_cases hdd : ((projB p b).buffer.isEmpty && !(projB p b).stale) = true
      · simp [step, handover, hsp, hwp, hdd] at hdp
      · have hdb : ¬((b.buffer.isEmpty && !b.stale) = true) := by
          intro e; simp [step, handover, hs, hw, e] at hd
        have e1 : (step M b .handover).1 = { b with sets := [b.buffer], buffer := [], stale := false } := by
          simp [step, handover, hs, hw, hdb]
        have e2 : (step M (projB p b) .handover).1 =
            { projB p b with sets := [(projB p b).buffer], buffer := [], stale := false } := by
          simp [step, handover, hsp, hwp, hdd]
        rw [e1, e2]; simp [projB, projWait, hs, hw, projL, onPart]

/-- a hand-over that the projected worker cannot mirror hands over a set that holds nothing of `p` (and no message of
    `p` is held): a hidden set -/
theorem handover_hidden (M : Nat) (p : Int) (b : St) (hd : (step M b .handover).2 ≠ [Action.disabled])
    (hdp : (step M (projB p b) .handover).2 = [Action.disabled]) :
    ∃ sent, (step M b .handover).1.sets = [sent] ∧ projL p sent = [] ∧ projWait p b.wait = none := by
  cases hs : b.sets with
  | cons x r => simp [step, handover, hs] at hd
  | nil =>
    have hsp : (projB p b).sets = [] := by simp [projB, hs]
    have hwn : (projB p b).wait = none := by
      cases hwp : (projB p b).wait with
      | none => rfl
      | some t => simp [step, handover, hsp, hwp] at hdp
    have hbuf : projL p b.buffer = [] := by
      cases hbp : (projB p b).buffer with
      | nil => exact hbp
      | cons x r => simp [step, handover, hsp, hwn, hbp] at hdp
    cases hw : b.wait with
    | some t => exact ⟨b.buffer, by simp [step, handover, hs, hw], hbuf, by simpa [projB, hw] using hwn⟩
    | none =>
      refine ⟨b.buffer, ?_, hbuf, rfl⟩
      by_cases hdb : (b.buffer.isEmpty && !b.stale) = true
      · simp [step, handover, hs, hw, hdb] at hd
      · simp [step, handover, hs, hw, hdb]

end Props.C02sys
