/-
  C02 composition, stage C, system level, continued: the `stale` flag.  The projection of a shared worker agrees with
  the one-partition worker only UP TO `stale` (a token of another partition that is added clears the flag; one that
  is bounced out of waitForSpace sets it).  `recv_stale`: taking a token does not read the flag.  With the relation
  `BRs` (inner state = `projB p` up to `stale`, no pending answer):
    * `proj_bpRecv_foreign` - PROVED: a worker takes a token of another partition: no step of the projection.
    * `proj_bpRecv_own_s`   - PROVED: a worker takes a token of `p`: the `bpRecv` step of the projection.
-/
import SaramaVerif.Props.C02multiR

set_option linter.unusedSimpArgs false

namespace Props.C02sys
open Model Model.Pipeline Model.PipelineN Model.BrokerProd Lemmas.C02sys

/-- taking a token does not read `stale` -/
theorem recv_stale (M : Nat) (b : St) (x : Bool) (t : Pipeline.Tok) (ov : Bool) :
    (step M { b with stale := x } (.recv t ov)).2 = (step M b (.recv t ov)).2 ∧
    (step M { b with stale := x } (.recv t ov)).1 =
      { (step M b (.recv t ov)).1 with stale := (step M { b with stale := x } (.recv t ov)).1.stale } := by
  cases hw : b.wait with
  | some w => simp [step, recv, hw]
  | none =>
    by_cases hk : t.kind = .syn
    · simp [step, recv, hw, hk]
    · cases hnr : needsRetry b t.part with
      | true =>
        simp only [needsRetry] at hnr
        by_cases hf : t.kind = .fin
        · cases hc : b.closing with
          | false =>
            have hcr : b.cr t.part = true := by simpa [hc] using hnr
            simp [step, recv, hw, hk, needsRetry, hf, hc, hcr]
          | true => simp [step, recv, hw, hk, needsRetry, hf, hc]
        · simp [step, recv, hw, hk, needsRetry, hnr, hf]
      | false =>
        simp only [needsRetry] at hnr
        by_cases hf : t.kind = .fin
        · simp [step, recv, hw, hk, needsRetry, hnr, hf]
        · cases ov <;> simp [step, recv, hw, hk, needsRetry, hnr, hf]

theorem innerOnly_BRs (p : Int) : InnerOnly (BRs p) := by
  intro k k' j j' h1 h2 h3 h4 ⟨a, b, c⟩
  exact ⟨by rw [h3, h1]; exact a, by rw [h2]; exact b, by rw [h4]; exact c⟩

/-- the outcome-bearing actions of a list are all of partitions other than `p` -/
def ForeignActs (p : Int) (as : List Action) : Prop :=
  ∀ a ∈ as, (∀ id q r f, a = Action.requeue id q r f → q ≠ p) ∧ (∀ id q, a = Action.succ id q → q ≠ p) ∧
    (∀ id q f, a = Action.expire id q f → q ≠ p) ∧ (∀ id q, a = Action.fail id q → q ≠ p)

theorem bpActsN_foreign {p : Int} (as : List Action) : ∀ {sN : SysN} {s : Sys} (off : Int → Nat), QRel p sN s →
    ForeignActs p as →
    QRel p (bpActsN sN off as) s ∧ (bpActsN sN off as).wk = sN.wk ∧ (bpActsN sN off as).cur = sN.cur := by
  induction as with
  | nil => intro sN s off h _; exact ⟨h, rfl, rfl⟩
  | cons a r ih =>
    intro sN s off h ho
    obtain ⟨k1, k2, _⟩ := bpActN_keep sN off a
    have hoa := ho a (List.mem_cons_self ..)
    have hor : ForeignActs p r := fun x hx => ho x (List.mem_cons_of_mem _ hx)
    have upo : ∀ {α : Type} (f : Int → α) (q : Int) (v : α), q ≠ p → upd f q v p = f p :=
      fun f q v hq => by simp [upd, Ne.symm hq]
    have step1 : QRel p (bpActN sN off a).1 s := by
      cases a with
      | requeue id q rr f =>
        have hq := hoa.1 id q rr f rfl
        refine ⟨h.next, h.dq, h.pq, h.pp, ?_, h.ldr, h.log, h.succ, h.errs, h.pqp⟩
        simp only [bpActN]
        rw [projQ_push_other p _ (by simpa using hq)]; exact h.ret
      | succ id q =>
        have hq := hoa.2.1 id q rfl
        refine ⟨h.next, h.dq, h.pq, h.pp, h.ret, h.ldr, h.log, ?_, h.errs, h.pqp⟩
        simp only [bpActN, upo _ q _ hq]; exact h.succ
      | expire id q f =>
        have hq := hoa.2.2.1 id q f rfl
        refine ⟨h.next, h.dq, h.pq, h.pp, h.ret, h.ldr, h.log, h.succ, ?_, h.pqp⟩
        simp only [bpActN]
        split
        · exact h.errs
        · rw [upo _ q _ hq]; exact h.errs
      | fail id q =>
        have hq := hoa.2.2.2 id q rfl
        refine ⟨h.next, h.dq, h.pq, h.pp, h.ret, h.ldr, h.log, h.succ, ?_, h.pqp⟩
        simp only [bpActN, upo _ q _ hq]; exact h.errs
      | ackSyn q => exact h
      | refuse id => exact h
      | add id q => exact h
      | drop q => exact h
      | closing => exact h
      | abandon => exact h
      | disabled => exact h
    obtain ⟨r1, r2, r3⟩ := ih (bpActN sN off a).2 step1 hor
    simp only [bpActsN]
    exact ⟨r1, r2.trans k1, r3.trans k2⟩

theorem recv_foreignActs (M : Nat) (b : St) (t : Pipeline.Tok) (ov : Bool) (hw : b.wait = none) (p : Int)
    (ht : t.part ≠ p) : ForeignActs p (step M b (.recv t ov)).2 := by
  intro a ha
  have := recv_ownActs M b t ov hw a ha
  exact ⟨fun id q r f e => by rw [this.1 id q r f e]; exact ht, fun id q e => by rw [this.2.1 id q e]; exact ht,
    fun id q f e => by rw [this.2.2.1 id q f e]; exact ht, fun id q e => by rw [this.2.2.2 id q e]; exact ht⟩

/-- **a worker takes a token of another partition: no step of the projection on `p`** -/
theorem proj_bpRecv_foreign {M : Nat} {p : Int} {sN sN' : SysN} {s : Sys} {w : Nat} {ov : Bool} {t : Pipeline.Tok}
    {r : List Pipeline.Tok} (h : WRel (BRs p) p sN s) (hq : (sN.wk w).inq = t :: r) (ht : t.part ≠ p)
    (hs : sysStepN M sN (.bpRecv w ov) = some sN') : WRel (BRs p) p sN' s := by
  obtain ⟨hb, hpN, hpS⟩ := h.br w
  simp only [sysStepN, hq, hpN, bpRunN] at hs
  split at hs
  · cases hs
  · rename_i hd
    simp only [Option.some.injEq] at hs
    have hw : (sN.wk w).bp.wait = none := recv_disabled M _ t ov hd
    have hq0 : QRel p { sN with wk := setWN sN.wk w ⟨r, (step M (sN.wk w).bp (.recv t ov)).1, none⟩ } s :=
      ⟨h.q.next, h.q.dq, h.q.pq, h.q.pp, h.q.ret, h.q.ldr, h.q.log, h.q.succ, h.q.errs, h.q.pqp⟩
    obtain ⟨r1, r2, r3⟩ := bpActsN_foreign (step M (sN.wk w).bp (.recv t ov)).2 (fun _ => 0) hq0
      (recv_foreignActs M _ t ov hw p ht)
    rw [hs] at r1 r2 r3
    refine ⟨r1, by rw [r3]; exact h.cur, fun k => ?_, fun k => ?_⟩
    · rw [r2]
      by_cases hk : k = w
      · subst hk; simp only [setWN, if_true]; rw [h.inq k, hq, projQ_cons_other ht]
      · simp only [setWN, hk, if_false]; exact h.inq k
    · rw [r2]
      by_cases hk : k = w
      · subst hk; simp only [setWN, if_true]
        refine ⟨?_, rfl, hpS⟩
        rw [recv_proj_foreign M p _ t ov ht hw]
        rw [hb]
      · simp only [setWN, hk, if_false]; exact h.br k

/-- **a worker takes a token of `p`** (inner states related up to `stale`) -/
theorem proj_bpRecv_own_s {M : Nat} {p : Int} {sN sN' : SysN} {s : Sys} {w : Nat} {ov : Bool} {t : Pipeline.Tok}
    {r : List Pipeline.Tok} (h : WRel (BRs p) p sN s) (hq : (sN.wk w).inq = t :: r) (ht : t.part = p)
    (hs : sysStepN M sN (.bpRecv w ov) = some sN') :
    ∃ s', sysStep M s (.bpRecv w ov) = some s' ∧ WRel (BRs p) p sN' s' := by
  obtain ⟨hb, hpN, hpS⟩ := h.br w
  simp only [sysStepN, hq, hpN, bpRunN] at hs
  split at hs
  · cases hs
  · rename_i hd
    simp only [Option.some.injEq] at hs
    have hw : (sN.wk w).bp.wait = none := recv_disabled M _ t ov hd
    have hwp : (projB p (sN.wk w).bp).wait = none := by simp [projB, projWait, hw]
    have hsq : (s.wk w).inq = relab t :: projQ p r := by rw [h.inq w, hq, projQ_cons_same ht]
    obtain ⟨g1, g2⟩ := recv_stale M (projB p (sN.wk w).bp) (s.wk w).bp.stale (relab t) ov
    rw [← hb] at g1 g2
    have hen := recv_enabled M (projB p (sN.wk w).bp) (relab t) ov hwp
    have hst := recv_proj_own M p (sN.wk w).bp t ov ht hw
    have hacts := recv_proj_own_acts M p (sN.wk w).bp t ov ht hw
    have hown : OwnActs p (step M (sN.wk w).bp (.recv t ov)).2 := by rw [← ht]; exact recv_ownActs M _ t ov hw
    have hq0 : QRel p { sN with wk := setWN sN.wk w ⟨r, (step M (sN.wk w).bp (.recv t ov)).1, none⟩ }
        { s with wk := setW s.wk w ⟨projQ p r, (step M (s.wk w).bp (.recv (relab t) ov)).1, none⟩ } :=
      ⟨h.q.next, h.q.dq, h.q.pq, h.q.pp, h.q.ret, h.q.ldr, h.q.log, h.q.succ, h.q.errs, h.q.pqp⟩
    obtain ⟨r1, r2, r3, r4, r5⟩ := bpActsN_own (step M (sN.wk w).bp (.recv t ov)).2 (fun _ => 0) hq0 hown
    rw [hs] at r1 r2 r3
    have hacts' : (step M (s.wk w).bp (.recv (relab t) ov)).2 = List.map relabA (step M (sN.wk w).bp (.recv t ov)).2 := by
      rw [g1, hacts]
    have hen' : ¬((step M (s.wk w).bp (.recv (relab t) ov)).2 = [Action.disabled]) := by rw [g1]; exact hen
    have hen'' : ¬(List.map relabA (step M (sN.wk w).bp (.recv t ov)).2 = [Action.disabled]) := by rw [← hacts']; exact hen'
    refine ⟨bpActs { s with wk := setW s.wk w ⟨projQ p r, (step M (s.wk w).bp (.recv (relab t) ov)).1, none⟩ } 0
      (List.map relabA (step M (sN.wk w).bp (.recv t ov)).2), by
        simp only [sysStep, hsq, hpS, bpRun, hacts', hen'', if_false], ?_⟩
    refine ⟨r1, by rw [r5, r3]; exact h.cur, fun k => ?_, fun k => ?_⟩
    · rw [r4, r2]
      by_cases hk : k = w
      · subst hk; simp [setW, setWN]
      · simp only [setW, setWN, hk, if_false]; exact h.inq k
    · rw [r4, r2]
      by_cases hk : k = w
      · subst hk; simp only [setW, setWN, if_true]
        refine ⟨?_, rfl, rfl⟩
        rw [g2, hst]
      · simp only [setW, setWN, hk, if_false]; exact h.br k

/-! ### non-vacuity -/

example : WRel (BRs 0) 0 {} {} := ⟨qrel_init 0, rfl, fun _ => rfl, fun _ => ⟨by rw [projB_init], rfl, rfl⟩⟩

/-- in `exTwo` the 12th choice is worker 0 taking the syn of partition 1: a foreign token for partition 0 -/
example : ((runN 2 {} (exTwo.take 11)).map (fun s => ((s.wk 0).inq.head?.map (·.part)))) = some (some 1) := by decide
example : ((runN 2 {} (exTwo.take 11)).bind (fun s => sysStepN 2 s (.bpRecv 0 false))).isSome = true := by decide

end Props.C02sys
