/-
  C02 composition, stage C, system level: the relation between a state of the model with several partitions and its
  projection on partition `p` INCLUDING the workers (`WRel`), and the projection of the partition producers' steps.
    * `WRel BR p sN s` - `QRel`, the same current worker, every worker's input channel projected by filtering
      (`projQ`), and a relation `BR` between the workers' inner states (a parameter: the steps proved here do not touch
      the inner state; `BRp` - equality with `projB` and no pending answer on either side - is the instance used for
      the worker steps).
    * `proj_ppRecv_other` - PROVED: a step of the partition producer of ANOTHER partition is no step of the projection.
    * `proj_ppRecv_own`   - PROVED: a step of the partition producer of `p` is the same `ppRecv` step of `Model.Pipeline`.
    * `proj_bpRecv_foreign` / `proj_bpRecv_own` - PROVED (for `BRp`, worker not holding a message): a worker takes a
      token of another partition: no step of the projection (up to `stale`); a token of `p`: the `bpRecv` step.
-/
import SaramaVerif.Props.C02multiW

set_option linter.unusedSimpArgs false

namespace Props.C02sys
open Model Model.Pipeline Model.PipelineN Lemmas.C02sys

/-- the projection relation with the workers; `BR` relates the inner states (bp, pending answer) -/
structure WRel (BR : WorkerN → Worker → Prop) (p : Int) (sN : SysN) (s : Sys) : Prop where
  q   : QRel p sN s
  cur : s.cur = sN.cur p
  inq : ∀ w, (s.wk w).inq = projQ p (sN.wk w).inq
  br  : ∀ w, BR (sN.wk w) (s.wk w)

/-- `BR` looks at the inner state only -/
def InnerOnly (BR : WorkerN → Worker → Prop) : Prop :=
  ∀ k k' j j', k'.bp = k.bp → k'.pend = k.pend → j'.bp = j.bp → j'.pend = j.pend → BR k j → BR k' j'

theorem pushWN_parts (f : Nat → WorkerN) (w : Nat) (t : Pipeline.Tok) (k : Nat) :
    (pushWN f w t k).bp = (f k).bp ∧ (pushWN f w t k).pend = (f k).pend ∧
    (pushWN f w t k).inq = if k = w then (f k).inq ++ [t] else (f k).inq := by
  by_cases h : k = w
  · subst h; simp [pushWN, setWN]
  · simp [pushWN, setWN, h]

theorem pushW_parts' (f : Nat → Worker) (w : Nat) (t : Pipeline.Tok) (k : Nat) :
    (pushW f w t k).bp = (f k).bp ∧ (pushW f w t k).pend = (f k).pend ∧
    (pushW f w t k).inq = if k = w then (f k).inq ++ [t] else (f k).inq := by
  by_cases h : k = w
  · subst h; simp [pushW, setW]
  · simp [pushW, setW, h]

/-- `sN'` agrees with `sN` on everything `QRel p` looks at -/
structure SameP (p : Int) (sN sN' : SysN) : Prop where
  next : sN'.next p = sN.next p
  dq   : sN'.dq = sN.dq
  pq   : sN'.pq p = sN.pq p
  pp   : sN'.pp p = sN.pp p
  ret  : sN'.ret = sN.ret
  ldr  : sN'.ldr p = sN.ldr p
  log  : sN'.log p = sN.log p
  succ : sN'.succ p = sN.succ p
  errs : sN'.errs p = sN.errs p
  pqp  : ∀ q, ∀ t ∈ sN'.pq q, t.part = q

theorem QRel.same {p : Int} {sN sN' : SysN} {s : Sys} (h : QRel p sN s) (e : SameP p sN sN') : QRel p sN' s :=
  ⟨by rw [e.next]; exact h.next, by rw [e.dq]; exact h.dq, by rw [e.pq]; exact h.pq, by rw [e.pp]; exact h.pp,
   by rw [e.ret]; exact h.ret, by rw [e.ldr]; exact h.ldr, by rw [e.log]; exact h.log, by rw [e.succ]; exact h.succ,
   by rw [e.errs]; exact h.errs, e.pqp⟩

/-- a step that the projection on `p` does not see -/
theorem wrel_foreign {BR : WorkerN → Worker → Prop} (hio : InnerOnly BR) {p : Int} {sN sN' : SysN} {s : Sys}
    (h : WRel BR p sN s) (e : SameP p sN sN') (hcur : sN'.cur p = sN.cur p)
    (hwk : ∀ k, (sN'.wk k).bp = (sN.wk k).bp ∧ (sN'.wk k).pend = (sN.wk k).pend ∧
      projQ p (sN'.wk k).inq = projQ p (sN.wk k).inq) : WRel BR p sN' s :=
  ⟨h.q.same e, by rw [hcur]; exact h.cur, fun w => by rw [(hwk w).2.2]; exact h.inq w,
   fun w => hio _ _ _ _ (hwk w).1 (hwk w).2.1 rfl rfl (h.br w)⟩

theorem projQ_push_other (p : Int) (l : List Pipeline.Tok) {t : Pipeline.Tok} (ht : t.part ≠ p) :
    projQ p (l ++ [t]) = projQ p l := by
  rw [projQ_append]; simp [projQ, ht]

theorem projQ_push_same (p : Int) (l : List Pipeline.Tok) {t : Pipeline.Tok} (ht : t.part = p) :
    projQ p (l ++ [t]) = projQ p l ++ [relab t] := by
  rw [projQ_append]; simp [projQ, ht]

theorem pushWN_foreign (p : Int) (f : Nat → WorkerN) (w : Nat) {t : Pipeline.Tok} (ht : t.part ≠ p) (k : Nat) :
    (pushWN f w t k).bp = (f k).bp ∧ (pushWN f w t k).pend = (f k).pend ∧
    projQ p (pushWN f w t k).inq = projQ p (f k).inq := by
  obtain ⟨h1, h2, h3⟩ := pushWN_parts f w t k
  refine ⟨h1, h2, ?_⟩
  rw [h3]; split
  · exact projQ_push_other p _ ht
  · rfl

/-- ONE action of the partition producer of another partition -/
theorem ppActN_other {BR : WorkerN → Worker → Prop} (hio : InnerOnly BR) {p q : Int} (hq : q ≠ p) {sN : SysN} {s : Sys}
    (h : WRel BR p sN s) (lks : List (Option Nat)) (a : PartProd.Action) : WRel BR p (ppActN q sN lks a).1 s := by
  have ups : ∀ {α : Type} (f : Int → α) (v : α), upd f q v p = f p := fun f v => by simp [upd, Ne.symm hq]
  cases a with
  | park i => exact h
  | finDone => exact h
  | finSend l =>
    simp only [ppActN]
    split
    · exact wrel_foreign hio h ⟨rfl, rfl, rfl, rfl, rfl, rfl, rfl, rfl, rfl, h.q.pqp⟩ rfl (fun k => ⟨rfl, rfl, rfl⟩)
    · rename_i w _
      exact wrel_foreign hio h ⟨rfl, rfl, rfl, rfl, rfl, rfl, rfl, rfl, rfl, h.q.pqp⟩ (ups _ _)
        (fun k => pushWN_foreign p sN.wk w (by simp [finTokP, hq]) k)
  | emit i l fin =>
    simp only [ppActN]
    split
    · rename_i w _
      exact wrel_foreign hio h ⟨rfl, rfl, rfl, rfl, rfl, rfl, rfl, rfl, rfl, h.q.pqp⟩ rfl
        (fun k => pushWN_foreign p sN.wk w (by simp [mkTokP, hq]) k)
    · split
      · rename_i w r
        refine wrel_foreign hio h ⟨rfl, rfl, rfl, rfl, rfl, rfl, rfl, rfl, rfl, h.q.pqp⟩ (ups _ _) (fun k => ?_)
        obtain ⟨a1, a2, a3⟩ := pushWN_foreign p (pushWN sN.wk w (synTokP q)) w (t := mkTokP q i l fin)
          (by simp [mkTokP, hq]) k
        obtain ⟨b1, b2, b3⟩ := pushWN_foreign p sN.wk w (t := synTokP q) (by simp [synTokP, hq]) k
        exact ⟨a1.trans b1, a2.trans b2, a3.trans b3⟩
      · refine wrel_foreign hio h ⟨rfl, rfl, rfl, rfl, rfl, rfl, rfl, rfl, ?_, h.q.pqp⟩ rfl (fun k => ⟨rfl, rfl, rfl⟩)
        simp only; split
        · rfl
        · exact ups _ _

theorem ppActsN_other {BR : WorkerN → Worker → Prop} (hio : InnerOnly BR) {p q : Int} (hq : q ≠ p)
    (as : List PartProd.Action) : ∀ {sN : SysN} {s : Sys} (lks : List (Option Nat)), WRel BR p sN s →
    WRel BR p (ppActsN q sN lks as) s := by
  induction as with
  | nil => intro sN s lks h; exact h
  | cons a r ih => intro sN s lks h; exact ih _ (ppActN_other hio hq h lks a)

/-- **a step of the partition producer of another partition is no step of the projection on `p`** -/
theorem proj_ppRecv_other {BR : WorkerN → Worker → Prop} (hio : InnerOnly BR) {M : Nat} {p q : Int} (hq : q ≠ p)
    {sN sN' : SysN} {s : Sys} {lks : List (Option Nat)} (h : WRel BR p sN s)
    (hs : sysStepN M sN (.ppRecv q lks) = some sN') : WRel BR p sN' s := by
  cases hpq : sN.pq q with
  | nil => simp [sysStepN, hpq] at hs
  | cons x r =>
    simp only [sysStepN, hpq, Option.some.injEq] at hs
    rw [← hs]
    refine ppActsN_other hio hq _ lks ?_
    have ups : ∀ {α : Type} (f : Int → α) (v : α), upd f q v p = f p := fun f v => by simp [upd, Ne.symm hq]
    refine wrel_foreign hio h ⟨rfl, rfl, ups _ _, ups _ _, rfl, rfl, rfl, rfl, rfl, ?_⟩ rfl (fun k => ⟨rfl, rfl, rfl⟩)
    intro q' t ht
    by_cases e : q' = q
    · subst e
      simp only [upd, if_true] at ht
      exact h.q.pqp q' t (by rw [hpq]; exact List.mem_cons_of_mem _ ht)
    · simp only [upd, e, if_false] at ht; exact h.q.pqp q' t ht

theorem inq_push_own {p : Int} {fN : Nat → WorkerN} {f : Nat → Worker} (hi : ∀ k, (f k).inq = projQ p (fN k).inq)
    (w : Nat) {t : Pipeline.Tok} (ht : t.part = p) :
    ∀ k, (pushW f w (relab t) k).inq = projQ p (pushWN fN w t k).inq := by
  intro k
  rw [(pushW_parts' f w (relab t) k).2.2, (pushWN_parts fN w t k).2.2]
  split
  · rw [projQ_push_same p _ ht, hi k]
  · exact hi k

theorem br_push {BR : WorkerN → Worker → Prop} (hio : InnerOnly BR) {fN : Nat → WorkerN} {f : Nat → Worker}
    (hb : ∀ k, BR (fN k) (f k)) (w : Nat) (tN t : Pipeline.Tok) : ∀ k, BR (pushWN fN w tN k) (pushW f w t k) :=
  fun k => hio _ _ _ _ (pushWN_parts fN w tN k).1 (pushWN_parts fN w tN k).2.1 (pushW_parts' f w t k).1
    (pushW_parts' f w t k).2.1 (hb k)

/-- ONE action of the partition producer of `p` in both models -/
theorem ppActN_own {BR : WorkerN → Worker → Prop} (hio : InnerOnly BR) {p : Int} {sN : SysN} {s : Sys}
    (h : WRel BR p sN s) (lks : List (Option Nat)) (a : PartProd.Action) :
    WRel BR p (ppActN p sN lks a).1 (ppAct s lks a).1 ∧ (ppActN p sN lks a).2 = (ppAct s lks a).2 := by
  have hq := h.q
  have qq : ∀ (sN' : SysN) (s' : Sys), sN'.next = sN.next → sN'.dq = sN.dq → sN'.pq = sN.pq → sN'.pp = sN.pp →
      sN'.ret = sN.ret → sN'.ldr = sN.ldr → sN'.log = sN.log → sN'.succ = sN.succ →
      s'.next = s.next → s'.dq = s.dq → s'.pq = s.pq → s'.pp = s.pp → s'.ret = s.ret → s'.ldr = s.ldr →
      s'.log = s.log → s'.succ = s.succ → s'.errs = sN'.errs p → QRel p sN' s' := by
    intro sN' s' a1 a2 a3 a4 a5 a6 a7 a8 b1 b2 b3 b4 b5 b6 b7 b8 e
    exact ⟨by rw [b1, a1]; exact hq.next, by rw [b2, a2]; exact hq.dq, by rw [b3, a3]; exact hq.pq,
      by rw [b4, a4]; exact hq.pp, by rw [b5, a5]; exact hq.ret, by rw [b6, a6]; exact hq.ldr,
      by rw [b7, a7]; exact hq.log, by rw [b8, a8]; exact hq.succ, e, by rw [a3]; exact hq.pqp⟩
  have upp : ∀ {α : Type} (f : Int → α) (v : α), upd f p v p = v := fun f v => by simp [upd]
  cases a with
  | park i => exact ⟨h, rfl⟩
  | finDone => exact ⟨h, rfl⟩
  | finSend l =>
    cases hc : s.cur with
    | none =>
      have hcN : sN.cur p = none := by rw [← h.cur]; exact hc
      simp only [ppActN, ppAct, hc, hcN]
      refine ⟨⟨qq _ _ rfl rfl rfl rfl rfl rfl rfl rfl rfl rfl rfl rfl rfl rfl rfl rfl hq.errs, ?_, h.inq, h.br⟩, trivial⟩
      simp [hcN]
    | some w =>
      have hcN : sN.cur p = some w := by rw [← h.cur]; exact hc
      simp only [ppActN, ppAct, hc, hcN]
      refine ⟨⟨qq _ _ rfl rfl rfl rfl rfl rfl rfl rfl rfl rfl rfl rfl rfl rfl rfl rfl hq.errs, ?_, ?_, ?_⟩, trivial⟩
      · simp [upd]
      · exact inq_push_own h.inq w (t := finTokP p l) rfl
      · exact br_push hio h.br w _ _
  | emit i l fin =>
    cases hc : s.cur with
    | some w =>
      have hcN : sN.cur p = some w := by rw [← h.cur]; exact hc
      simp only [ppActN, ppAct, hc, hcN]
      refine ⟨⟨qq _ _ rfl rfl rfl rfl rfl rfl rfl rfl rfl rfl rfl rfl rfl rfl rfl rfl hq.errs, ?_, ?_, ?_⟩, trivial⟩
      · simp [hcN]
      · exact inq_push_own h.inq w (t := mkTokP p i l fin) rfl
      · exact br_push hio h.br w _ _
    | none =>
      have hcN : sN.cur p = none := by rw [← h.cur]; exact hc
      have herr : (if fin = true then s.errs else s.errs ++ [i]) =
          (if fin = true then sN.errs else upd sN.errs p (sN.errs p ++ [i])) p := by
        split
        · exact hq.errs
        · rw [upp, hq.errs]
      cases lks with
      | nil =>
        simp only [ppActN, ppAct, hc, hcN]
        refine ⟨⟨qq _ _ rfl rfl rfl rfl rfl rfl rfl rfl rfl rfl rfl rfl rfl rfl rfl rfl herr, ?_, h.inq, h.br⟩, trivial⟩
        simp [hcN]
      | cons o r =>
        cases o with
        | none =>
          simp only [ppActN, ppAct, hc, hcN]
          refine ⟨⟨qq _ _ rfl rfl rfl rfl rfl rfl rfl rfl rfl rfl rfl rfl rfl rfl rfl rfl herr, ?_, h.inq, h.br⟩, trivial⟩
          simp [hcN]
        | some w =>
          simp only [ppActN, ppAct, hc, hcN]
          refine ⟨⟨qq _ _ rfl rfl rfl rfl rfl rfl rfl rfl rfl rfl rfl rfl rfl rfl rfl rfl hq.errs, ?_, ?_, ?_⟩, trivial⟩
          · simp [upd]
          · exact inq_push_own (inq_push_own h.inq w (t := synTokP p) rfl) w (t := mkTokP p i l fin) rfl
          · exact br_push hio (br_push hio h.br w _ _) w _ _

theorem ppActsN_own {BR : WorkerN → Worker → Prop} (hio : InnerOnly BR) {p : Int} (as : List PartProd.Action) :
    ∀ {sN : SysN} {s : Sys} (lks : List (Option Nat)), WRel BR p sN s →
    WRel BR p (ppActsN p sN lks as) (ppActs s lks as) := by
  induction as with
  | nil => intro sN s lks h; exact h
  | cons a r ih =>
    intro sN s lks h
    obtain ⟨h1, h2⟩ := ppActN_own hio h lks a
    simp only [ppActsN, ppActs, h2]
    exact ih _ h1

theorem toPP_relab (t : Pipeline.Tok) : Pipeline.toPP (relab t) = PipelineN.toPP t := rfl

/-- **a step of the partition producer of `p` is the same `ppRecv` step of the one-partition model** -/
theorem proj_ppRecv_own {BR : WorkerN → Worker → Prop} (hio : InnerOnly BR) {M : Nat} {p : Int}
    {sN sN' : SysN} {s : Sys} {lks : List (Option Nat)} (h : WRel BR p sN s)
    (hs : sysStepN M sN (.ppRecv p lks) = some sN') :
    ∃ s', sysStep M s (.ppRecv lks) = some s' ∧ WRel BR p sN' s' := by
  cases hpq : sN.pq p with
  | nil => simp [sysStepN, hpq] at hs
  | cons x r =>
    have hx : x.part = p := h.q.pqp p x (by rw [hpq]; simp)
    have hsq : s.pq = relab x :: projQ p r := by rw [h.q.pq, hpq, projQ_cons_same hx]
    simp only [sysStepN, hpq, Option.some.injEq] at hs
    refine ⟨ppActs { s with pq := projQ p r, pp := (PartProd.recv s.pp (Pipeline.toPP (relab x))).1 } lks
      (PartProd.recv s.pp (Pipeline.toPP (relab x))).2, by simp only [sysStep, hsq], ?_⟩
    rw [← hs, toPP_relab, h.q.pp]
    refine ppActsN_own hio _ lks ?_
    have upp : ∀ {α : Type} (f : Int → α) (v : α), upd f p v p = v := fun f v => by simp [upd]
    refine ⟨⟨h.q.next, h.q.dq, by simp only [upp], by simp only [upp], h.q.ret, h.q.ldr, h.q.log, h.q.succ, h.q.errs, ?_⟩,
      h.cur, h.inq, h.br⟩
    intro q' t ht
    by_cases e : q' = p
    · subst e
      simp only [upd, if_true] at ht
      exact h.q.pqp q' t (by rw [hpq]; exact List.mem_cons_of_mem _ ht)
    · simp only [upd, e, if_false] at ht; exact h.q.pqp q' t ht

/-! ### non-vacuity: in `exTwo` the 7th choice is a step of the partition producer of partition 0 -/

example : WRel (fun _ _ => True) 0 {} {} := ⟨qrel_init 0, rfl, fun _ => rfl, fun _ => trivial⟩
example : InnerOnly (fun _ _ => True) := fun _ _ _ _ _ _ _ _ _ => trivial
example : ((runN 2 {} (exTwo.take 6)).bind (fun s => sysStepN 2 s (.ppRecv 0 [some 0]))).isSome = true := by decide
example : ((runN 2 {} (exTwo.take 7)).bind (fun s => sysStepN 2 s (.ppRecv 1 [some 0]))).isSome = true := by decide

end Props.C02sys
