/-
  C02 composition, stage C, system level, for the ONE relation `BRp` (Props/C02multiP.lean): the hand-over and the
  broker step.
    * `proj_handover_hidden_p` / `proj_handover_visible_p` - PROVED: as Props/C02multiH.lean, for `BRp`.
    * `proj_broker_hidden_p`  - PROVED: the broker processes a HIDDEN set: no step of the projection; the log of `p`
                                does not change (nothing of `p` is in the set).
    * `proj_broker_visible_p` - PROVED: a visible set: the `broker` step of `Model.Pipeline` with the projected answer
                                `projV p r`; the pending answers stay related (verdict of `p`, base offset of `p`).
                                Hypotheses: the answer is well-formed for `p` (`(projV p r).appends = r.appends p`) and
                                the one-partition step is enabled (an appending answer comes from the leader of `p`;
                                implied by the enabledness of the N-step when the set holds a message of `p`).
-/
import SaramaVerif.Props.C02multiP

set_option linter.unusedSimpArgs false

namespace Props.C02sys
open Model Model.Pipeline Model.PipelineN Model.BrokerProd Lemmas.C02sys

theorem st_eq_of_fields (a b : St) (h1 : a.closing = b.closing) (h2 : a.cr = b.cr) (h3 : a.buffer = b.buffer)
    (h4 : a.sets = b.sets) (h5 : a.wait = b.wait) (h6 : a.stale = b.stale) : a = b := by
  cases a; cases b; simp_all

/-- the fields of the one-partition worker under `BRp` -/
theorem brp_fields {p : Int} {k : WorkerN} {j : Worker}
    (hb : j.bp = ({ projB p k.bp with sets := j.bp.sets, stale := j.bp.stale } : St)) :
    j.bp.closing = k.bp.closing ∧ j.bp.cr = (projB p k.bp).cr ∧ j.bp.buffer = projL p k.bp.buffer ∧
    j.bp.wait = projWait p k.bp.wait := by
  refine ⟨?_, ?_, ?_, ?_⟩
  · have := congrArg St.closing hb; simpa [projB] using this
  · have := congrArg St.cr hb; simpa using this
  · have := congrArg St.buffer hb; simpa [projB] using this
  · have := congrArg St.wait hb; simpa [projB] using this

theorem brp_mk {p : Int} (b : St) (j : St) (h1 : j.closing = b.closing) (h2 : j.cr = (projB p b).cr)
    (h3 : j.buffer = projL p b.buffer) (h4 : j.wait = projWait p b.wait) :
    j = ({ projB p b with sets := j.sets, stale := j.stale } : St) :=
  st_eq_of_fields _ _ (by simpa [projB] using h1) (by simpa using h2) (by simpa [projB] using h3) rfl
    (by simpa [projB] using h4) rfl

theorem proj_handover_hidden_p {M : Nat} {p : Int} {sN sN' : SysN} {s : Sys} {w : Nat} (h : WRel (BRp p) p sN s)
    (hbuf : projL p (sN.wk w).bp.buffer = []) (hwt : projWait p (sN.wk w).bp.wait = none)
    (hs : sysStepN M sN (.handover w) = some sN') : WRel (BRp p) p sN' s := by
  obtain ⟨hsets, hd, rfl⟩ := handoverN_spec hs
  obtain ⟨f1, f2, f3, f4, f5, _⟩ := handover_fields M _ hsets hd
  refine ⟨⟨h.q.next, h.q.dq, h.q.pq, h.q.pp, h.q.ret, h.q.ldr, h.q.log, h.q.succ, h.q.errs, h.q.pqp⟩, h.cur,
    fun k => ?_, fun k => ?_⟩
  · by_cases hk : k = w
    · subst hk; simp only [setWN, if_true]; exact h.inq k
    · simp only [setWN, hk, if_false]; exact h.inq k
  · by_cases hk : k = w
    · subst hk
      simp only [setWN, if_true]
      obtain ⟨hid, hb, hs1, hhid, hk0, hpend⟩ := h.br k
      obtain ⟨a1, a2, a3, a4⟩ := brp_fields hb
      have hj : (s.wk k).bp.sets = [] := by rw [hs1, hsets]; cases hid <;> rfl
      have hjp : (s.wk k).pend = none := by rw [hpend, hk0 hsets]; cases hid <;> rfl
      refine ⟨true, ?_, by simpa using hj, ?_, ?_, by simpa using hjp⟩
      · refine brp_mk _ _ (by rw [f2]; exact a1) ?_ ?_ ?_
        · rw [a2]; funext q; simp [projB, f3]
        · rw [a3, hbuf, f5, projL_toList_none hwt]
        · rw [a4, hwt, f4]; rfl
      · intro _; rw [f1]; exact ⟨by simp, fun x hx => by rw [List.mem_singleton.1 hx]; exact hbuf⟩
      · intro e; rw [f1] at e; cases e
    · simp only [setWN, hk, if_false]; exact h.br k

theorem proj_handover_visible_p {M : Nat} {p : Int} {sN sN' : SysN} {s : Sys} {w : Nat} (h : WRel (BRp p) p sN s)
    (hvis : projL p (sN.wk w).bp.buffer ≠ [] ∨ projWait p (sN.wk w).bp.wait ≠ none)
    (hs : sysStepN M sN (.handover w) = some sN') :
    ∃ s', sysStep M s (.handover w) = some s' ∧ WRel (BRp p) p sN' s' := by
  obtain ⟨hsets, hd, rfl⟩ := handoverN_spec hs
  obtain ⟨f1, f2, f3, f4, f5, _⟩ := handover_fields M _ hsets hd
  obtain ⟨hid, hb, hs1, hhid, hk0, hpend⟩ := h.br w
  obtain ⟨a1, a2, a3, a4⟩ := brp_fields hb
  have hj : (s.wk w).bp.sets = [] := by rw [hs1, hsets]; cases hid <;> rfl
  have hjp : (s.wk w).pend = none := by rw [hpend, hk0 hsets]; cases hid <;> rfl
  have hen : (step M (s.wk w).bp .handover).2 ≠ [Action.disabled] :=
    handover_enabled M _ hj (by
      rcases hvis with e | e
      · exact Or.inr (by rw [a3]; exact e)
      · exact Or.inl (by rw [a4]; exact e))
  obtain ⟨g1, g2, g3, g4, g5, g6⟩ := handover_fields M _ hj hen
  have hstep : sysStep M s (.handover w) =
      some { s with wk := setW s.wk w ⟨(s.wk w).inq, (step M (s.wk w).bp .handover).1, (s.wk w).pend⟩ } := by
    simp only [sysStep, bpRun, hen, if_false]
    rw [bpActs_adds _ g6]
  refine ⟨_, hstep, ⟨h.q.next, h.q.dq, h.q.pq, h.q.pp, h.q.ret, h.q.ldr, h.q.log, h.q.succ, h.q.errs, h.q.pqp⟩, h.cur,
    fun k => ?_, fun k => ?_⟩
  · by_cases hk : k = w
    · subst hk; simp only [setW, setWN, if_true]; exact h.inq k
    · simp only [setW, setWN, hk, if_false]; exact h.inq k
  · by_cases hk : k = w
    · subst hk
      simp only [setW, setWN, if_true]
      refine ⟨false, ?_, ?_, (fun e => by cases e), ?_, ?_⟩
      · refine brp_mk _ _ (by rw [g2, f2]; exact a1) ?_ ?_ ?_
        · rw [g3, a2]; funext q; simp [projB, f3]
        · rw [g5, f5, a4]; exact projWait_toList p _
        · rw [g4, f4]; rfl
      · rw [g1, f1, a3]; rfl
      · intro e; rw [f1] at e; cases e
      · rw [hjp, hk0 hsets]; rfl
    · simp only [setW, setWN, hk, if_false]; exact h.br k

/-- the N-side of a `broker` step -/
theorem brokerN_spec {M : Nat} {sN sN' : SysN} {w : Nat} {r : RespN} (hs : sysStepN M sN (.broker w r) = some sN') :
    ∃ sent rest, (sN.wk w).bp.sets = sent :: rest ∧ (sN.wk w).pend = none ∧
      sN' = { sN with log := fun q => if r.appends q then sN.log q ++ dataIdsOf q sent else sN.log q,
                      wk := setWN sN.wk w ⟨(sN.wk w).inq, (sN.wk w).bp, some (r, fun q => (sN.log q).length)⟩ } := by
  simp only [sysStepN] at hs
  split at hs
  · rename_i sent rest hsets hp
    split at hs
    · cases hs
    · simp only [Option.some.injEq] at hs
      exact ⟨sent, rest, hsets, hp, hs.symm⟩
  · cases hs

/-- **the broker processes a set that is hidden from `p`** (the one-partition worker has no set at its bridge): no
    step of the projection; the log of `p` does not change -/
theorem proj_broker_hidden_p {M : Nat} {p : Int} {sN sN' : SysN} {s : Sys} {w : Nat} {r : RespN}
    (h : WRel (BRp p) p sN s) (hj : (s.wk w).bp.sets = [])
    (hs : sysStepN M sN (.broker w r) = some sN') : WRel (BRp p) p sN' s := by
  obtain ⟨sent, rest, hsets, hp, rfl⟩ := brokerN_spec hs
  obtain ⟨hid, hb, hs1, hhid, hk0, hpend⟩ := h.br w
  have hidt : hid = true := by
    cases hid with
    | true => rfl
    | false => rw [hs1, hsets] at hj; simp at hj
  subst hidt
  have hsent : projL p sent = [] := (hhid rfl).2 sent (by rw [hsets]; simp)
  have hlog : (if r.appends p then sN.log p ++ dataIdsOf p sent else sN.log p) = sN.log p := by
    rw [← dataIds_projL, hsent]; simp [dataIds]
  refine ⟨⟨h.q.next, h.q.dq, h.q.pq, h.q.pp, h.q.ret, h.q.ldr, by simp only [hlog]; exact h.q.log, h.q.succ, h.q.errs,
    h.q.pqp⟩, h.cur, fun k => ?_, fun k => ?_⟩
  · by_cases hk : k = w
    · subst hk; simp only [setWN, if_true]; exact h.inq k
    · simp only [setWN, hk, if_false]; exact h.inq k
  · by_cases hk : k = w
    · subst hk
      simp only [setWN, if_true]
      exact ⟨true, hb, hs1, hhid, (fun e => by rw [hsets] at e; cases e), by simpa using hpend⟩
    · simp only [setWN, hk, if_false]; exact h.br k

/-- **the broker processes a set that `p` sees: the `broker` step with the projected answer** -/
theorem proj_broker_visible_p {M : Nat} {p : Int} {sN sN' : SysN} {s : Sys} {w : Nat} {r : RespN}
    (h : WRel (BRp p) p sN s) (hj : (s.wk w).bp.sets ≠ [])
    (hwf : (projV p r).appends = r.appends p)
    (hen : ¬(((projV p r).appends && !(brokerOf w == s.ldr)) = true))
    (hs : sysStepN M sN (.broker w r) = some sN') :
    ∃ s', sysStep M s (.broker w (projV p r)) = some s' ∧ WRel (BRp p) p sN' s' := by
  obtain ⟨sent, rest, hsets, hp, rfl⟩ := brokerN_spec hs
  obtain ⟨hid, hb, hs1, hhid, hk0, hpend⟩ := h.br w
  have hidf : hid = false := by
    cases hid with
    | false => rfl
    | true => simp at hs1; exact absurd hs1 hj
  subst hidf
  have hjs : (s.wk w).bp.sets = projL p sent :: rest.map (projL p) := by rw [hs1, hsets]; rfl
  have hjp : (s.wk w).pend = none := by rw [hpend, hp]; rfl
  have hstep : sysStep M s (.broker w (projV p r)) = some { s with
      log := if (projV p r).appends then s.log ++ dataIds (projL p sent) else s.log,
      wk := setW s.wk w ⟨(s.wk w).inq, (s.wk w).bp, some (projV p r, s.log.length)⟩ } := by
    simp only [sysStep, hjs, hjp, hen, if_false]; simp
  refine ⟨_, hstep, ⟨h.q.next, h.q.dq, h.q.pq, h.q.pp, h.q.ret, h.q.ldr, ?_, h.q.succ, h.q.errs, h.q.pqp⟩, h.cur,
    fun k => ?_, fun k => ?_⟩
  · simp only [hwf, dataIds_projL, h.q.log]
  · by_cases hk : k = w
    · subst hk; simp only [setW, setWN, if_true]; exact h.inq k
    · simp only [setW, setWN, hk, if_false]; exact h.inq k
  · by_cases hk : k = w
    · subst hk
      simp only [setW, setWN, if_true]
      refine ⟨false, hb, hs1, hhid, (fun e => by rw [hsets] at e; cases e), ?_⟩
      simp only [projPend, h.q.log]; rfl
    · simp only [setW, setWN, hk, if_false]; exact h.br k

/-! ### non-vacuity: the first broker step of `exTwo` (worker 0, a set with messages of both partitions) -/

example : ((runN 2 {} (exTwo.take 15)).bind (fun s => sysStepN 2 s
    (.broker 0 (.parts (fun q => if q = 1 then .retriable false else .ok))))).isSome = true := by decide
example : (projV 0 (.parts (fun q => if q = 1 then Pipeline.Verdict.retriable false else .ok))).appends = true := by decide
example : (projV 1 (.parts (fun q => if q = 1 then Pipeline.Verdict.retriable false else .ok))).appends = false := by decide

end Props.C02sys
