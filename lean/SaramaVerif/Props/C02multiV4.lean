/-
  C02 composition, stage C, towards `DeliverVisProj`: two small facts the lift of `resp_proj_parts` needs.
    * `projV_parts_toResp_eq` - the one-partition answer for `.parts v` is the constant verdict of `p`.
    * `bpActs_filter_out`     - `bpActs` of the one-partition model reads the outcome-bearing actions only.
-/
import SaramaVerif.Props.C02multiV3

set_option linter.unusedSimpArgs false
set_option linter.unusedVariables false

namespace Props.C02sys
open Model Model.Pipeline Model.PipelineN Model.BrokerProd Lemmas.C02sys

theorem projV_parts_toResp_eq (p : Int) (v : Int → Pipeline.Verdict) :
    (projV p (.parts v)).toResp = .verdicts (fun _ => bvOf (v p)) [] [] := by
  cases h : v p <;> simp [projV, h, Verdict.toResp, bvOf]

/-- an outcome-bearing action (of any partition) -/
def isOut : Action → Bool
  | .requeue _ _ _ _ => true
  | .succ _ _ => true
  | .expire _ _ _ => true
  | .fail _ _ => true
  | _ => false

theorem bpActs_filter_out (as : List Action) : ∀ (s : Sys) (off : Nat),
    bpActs s off (as.filter isOut) = bpActs s off as := by
  induction as with
  | nil => intro s off; rfl
  | cons a r ih =>
    intro s off
    cases a <;> simp [List.filter_cons, isOut, bpActs, bpAct, ih]

example : (projV 0 (.parts (fun q => if q = 1 then Pipeline.Verdict.retriable false else .ok))).toResp =
    .verdicts (fun _ => .ok) [] [] := projV_parts_toResp_eq 0 _
example : ([Action.drop 0, .succ 5 0, .abandon] : List Action).filter isOut = [.succ 5 0] := by decide

end Props.C02sys
