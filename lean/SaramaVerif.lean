import SaramaVerif.GoSem
import SaramaVerif.Model.Partitioner
import SaramaVerif.Props.C17
