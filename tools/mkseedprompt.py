#!/usr/bin/env python3
"""mkseedprompt.py <Cxx> <outdir-prefix>: writes the task text for an independent author of breaking changes
(property text + titles of the changes already in seeded/ for that property; nothing else from /verif) and creates the
scratch worktree /tmp/seed_<cxx> of /repo's HEAD.  The author gets only that file."""
import json, glob, os, re, subprocess, sys
pid = sys.argv[1]; cxx = pid.lower()
out = (sys.argv[2] if len(sys.argv) > 2 else "/tmp/seedout_") + cxx
wt = "/tmp/seed_" + cxx
props = {json.loads(l)["id"]: json.loads(l) for l in open("/verif/properties.jsonl")}
titles = []
for m in sorted(glob.glob("/verif/seeded/%s-*/meta.json" % cxx), key=lambda p: int(re.search(r"-(\d+)/", p).group(1))):
    try:
        titles.append(json.load(open(m)).get("title", "?"))
    except Exception:
        pass
prior = "%d breaking changes were ALREADY produced for this property by other people; yours must be NEW and different in kind and in code site from these:\n" % len(titles) + "".join("  - %s\n" % t for t in titles)
s = open("/verif/tools/seedprompt.tmpl").read().replace("@WT@", wt).replace("@OUT@", out).replace("@PROP@", json.dumps(props[pid], indent=1)).replace("@PRIOR@", prior)
open("/tmp/seedprompt_%s.txt" % cxx, "w").write(s)
if not os.path.exists(wt):
    subprocess.run(["git", "-C", "/repo", "worktree", "add", "--detach", wt, "HEAD"], check=True, capture_output=True)
os.makedirs(out, exist_ok=True)
print("/tmp/seedprompt_%s.txt" % cxx, wt, out, len(titles))
