#!/usr/bin/env python3
"""Regenerates seeded/README.md (which checks catch which independently written breaking change) and merges the
lead's confirmation into each seeded/<id>/meta.json."""
import glob, json, os, re
V = os.path.dirname(os.path.dirname(os.path.abspath(__file__)))
rows = []
for d in sorted(glob.glob(os.path.join(V, "seeded", "*"))):
    if not os.path.isdir(d):
        continue
    sid = os.path.basename(d)
    meta = {}
    try:
        meta = json.load(open(os.path.join(d, "meta.json")))
    except Exception:
        pass
    log = open(os.path.join(d, "confirm.log")).read() if os.path.exists(os.path.join(d, "confirm.log")) else ""
    demo_wo = re.search(r"demo without change: exit (\d+)", log)
    demo_w = re.search(r"demo with change: exit (\d+)", log)
    suite = re.search(r"existing tests .* with change: exit (\d+)", log)
    checks = re.findall(r"check (C\d+) on changed copy: exit (\d+), VIOLATION lines (\d+): ?(.*)", log)
    clean = re.findall(r"check (C\d+) on /repo afterwards: exit (\d+)", log)
    conf = {
        "demo_without_change_exit": int(demo_wo.group(1)) if demo_wo else None,
        "demo_with_change_exit": int(demo_w.group(1)) if demo_w else None,
        "existing_tests_with_change_exit": int(suite.group(1)) if suite else None,
        "checks_on_changed_copy": [{"check": c, "exit": int(e), "violation_lines": int(v), "no_failing_input_found": "no-failing-input-found" in rest} for c, e, v, rest in checks],
        "checks_on_unchanged_repo_afterwards": [{"check": c, "exit": int(e)} for c, e in clean],
        "how": "tools/seedtest.sh: scratch copy of /repo, demo without and with the patch, `go test . ./mocks` with the patch, `VERIF_REPO=<copy> ./check <Cxx>`",
    }
    meta["confirmed_by_lead"] = conf
    json.dump(meta, open(os.path.join(d, "meta.json"), "w"), indent=1)
    caught = [c["check"] + ("(no input)" if c["no_failing_input_found"] else "") for c in conf["checks_on_changed_copy"] if c["violation_lines"] > 0]
    missed = [c["check"] for c in conf["checks_on_changed_copy"] if c["violation_lines"] == 0]
    rows.append((sid, meta.get("property", "?"), (meta.get("title") or "")[:90], (meta.get("needs_to_manifest") or "")[:140],
                 "ok" if conf["demo_without_change_exit"] == 0 and conf["demo_with_change_exit"] not in (0, None) else "CHECK",
                 conf["existing_tests_with_change_exit"], ", ".join(caught) or "-", ", ".join(missed) or "-"))
with open(os.path.join(V, "seeded", "README.md"), "w") as f:
    f.write("# Independently written breaking changes and the checks that catch them\n\n")
    f.write("Each directory holds `patch.diff`, the demonstration, `meta.json` (written by the author of the change, plus the lead's\n"
            "confirmation under `confirmed_by_lead`), `confirm.log` and the output of the checks run against the changed copy.\n"
            "`existing tests` is the exit code of `go test . ./mocks` with the change (0 = pass; a non-zero value was a flaky consumer test under load, re-run).\n\n")
    f.write("| id | property | change | needs to manifest | demo fails with / passes without | existing tests | caught by | not caught by |\n|---|---|---|---|---|---|---|---|\n")
    for r in rows:
        f.write("| " + " | ".join(str(x).replace("|", "/").replace("\n", " ") for x in r) + " |\n")
print("%d seeded changes" % len(rows))
