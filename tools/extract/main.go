// extract: regenerates lean/SaramaVerif/Gen/<Cxx>.lean from /repo's working tree.
//
// Three kinds of artefacts, all driven by tools/extract/specs/<Cxx>.json:
//   funs   - a mini translator Go -> Lean for small loop-free integer/boolean functions or fragments of
//            functions (if/else, tagless and tagged switch, early return, assignment, ++/--, arithmetic with
//            Go's fixed-width semantics via GoSem.lean).  Sub-expressions named in "vars" are parameters.
//   consts - values of (typed or untyped) integer constants, evaluated from the const declarations.
//   cases  - the case-label table of a switch statement inside a function (labels resolved to integers).
//
// The output goes to stdout between BEGIN/END markers; anything the translator cannot take is reported as a
// line "EXTRACT-ERROR <item>: <reason>" and the item is emitted as a comment (so the bridge obligation that
// mentions it no longer elaborates).  Only the standard library is used (go/ast, go/parser, go/printer).
package main

import (
	"bytes"
	"encoding/json"
	"flag"
	"fmt"
	"go/ast"
	"go/parser"
	"go/printer"
	"go/token"
	"os"
	"path/filepath"
	"sort"
	"strconv"
	"strings"
)

type FunSpec struct {
	Lean    string            `json:"lean"`
	File    string            `json:"file"`
	Func    string            `json:"func"`
	From    string            `json:"from"`
	Only    bool              `json:"only"`
	Vars    map[string]string `json:"vars"`
	Ignore  []string          `json:"ignore"`
	Out     []string          `json:"out"`
	Returns []string          `json:"returns"`
	Params  []string          `json:"params"` // order of Lean parameters (names after the colon in vars); default sorted
	// Calls: statement source -> {assigned variable -> "param:type"}: the statement is an opaque call whose
	// results are fresh parameters of the generated function.
	Calls map[string]map[string]string `json:"calls"`
	// ExitCode: the fragment is (part of) a loop body; the result gets a leading Int: 0 = fell off the end,
	// 1 = continue, 2 = break, 3 = return
	ExitCode bool `json:"exitcode"`
}
type ConstSpec struct {
	Lean string `json:"lean"`
	File string `json:"file"`
	Name string `json:"name"`
}
type CaseSpec struct {
	Lean   string `json:"lean"`
	File   string `json:"file"`
	Func   string `json:"func"`
	Switch string `json:"switch"` // printed tag expression ("" for the n-th tagless switch)
	Nth    int    `json:"nth"`
}
type Spec struct {
	Funs   []FunSpec   `json:"funs"`
	Consts []ConstSpec `json:"consts"`
	Cases  []CaseSpec  `json:"cases"`
}

var (
	fset   = token.NewFileSet()
	files  = map[string]*ast.File{}
	repo   string
	errs   []string
	consts = map[string]*ast.ValueSpec{} // package-level constants by name
	constI = map[string]int{}           // index inside its spec group for iota
)

func src(n ast.Node) string {
	var b bytes.Buffer
	printer.Fprint(&b, fset, n)
	return strings.Join(strings.Fields(b.String()), " ")
}

func loadFile(name string) (*ast.File, error) {
	if f, ok := files[name]; ok {
		return f, nil
	}
	f, err := parser.ParseFile(fset, filepath.Join(repo, name), nil, 0)
	if err != nil {
		return nil, err
	}
	files[name] = f
	return f, nil
}

func loadAllConsts() {
	matches, _ := filepath.Glob(filepath.Join(repo, "*.go"))
	for _, m := range matches {
		if strings.HasSuffix(m, "_test.go") {
			continue
		}
		f, err := loadFile(filepath.Base(m))
		if err != nil {
			continue
		}
		for _, d := range f.Decls {
			gd, ok := d.(*ast.GenDecl)
			if ok && gd.Tok == token.VAR {
				// package-level `var X T = <constant expression>` is treated like a constant (its initial value)
				for _, sp := range gd.Specs {
					vs := sp.(*ast.ValueSpec)
					if len(vs.Values) == len(vs.Names) {
						for _, n := range vs.Names {
							if _, dup := consts[n.Name]; !dup {
								consts[n.Name] = vs
								constI[n.Name] = 0
							}
						}
					}
				}
				continue
			}
			if !ok || gd.Tok != token.CONST {
				continue
			}
			var last *ast.ValueSpec
			for i, s := range gd.Specs {
				vs := s.(*ast.ValueSpec)
				if len(vs.Values) == 0 && last != nil { // implicit repetition
					vs = &ast.ValueSpec{Names: vs.Names, Type: last.Type, Values: last.Values}
				} else {
					last = vs
				}
				for _, n := range vs.Names {
					consts[n.Name] = vs
					constI[n.Name] = i
				}
			}
		}
	}
}

var stdConsts = map[string]int64{
	"binary.MaxVarintLen16": 3, "binary.MaxVarintLen32": 5, "binary.MaxVarintLen64": 10,
	"math.MaxInt8": 127, "math.MaxInt16": 32767, "math.MaxInt32": 2147483647, "math.MaxInt64": 9223372036854775807,
	"math.MinInt32": -2147483648, "math.MaxUint8": 255, "math.MaxUint16": 65535, "math.MaxUint32": 4294967295,
}

// evalConst evaluates an integer constant expression.
func evalConst(e ast.Expr, iota int) (int64, error) {
	switch e := e.(type) {
	case *ast.SelectorExpr:
		if v, ok := stdConsts[src(e)]; ok {
			return v, nil
		}
		return 0, fmt.Errorf("unknown selector constant %s", src(e))
	case *ast.BasicLit:
		if e.Kind == token.INT {
			v, err := strconv.ParseInt(e.Value, 0, 64)
			if err != nil {
				u, err2 := strconv.ParseUint(e.Value, 0, 64)
				return int64(u), err2
			}
			return v, nil
		}
		if e.Kind == token.CHAR {
			r, _, _, err := strconv.UnquoteChar(e.Value[1:len(e.Value)-1], '\'')
			return int64(r), err
		}
	case *ast.Ident:
		if e.Name == "iota" {
			return int64(iota), nil
		}
		if vs, ok := consts[e.Name]; ok {
			for i, n := range vs.Names {
				if n.Name == e.Name && i < len(vs.Values) {
					return evalConst(vs.Values[i], constI[e.Name])
				}
			}
		}
		return 0, fmt.Errorf("unknown constant %s", e.Name)
	case *ast.ParenExpr:
		return evalConst(e.X, iota)
	case *ast.UnaryExpr:
		v, err := evalConst(e.X, iota)
		if err != nil {
			return 0, err
		}
		switch e.Op {
		case token.SUB:
			return -v, nil
		case token.ADD:
			return v, nil
		case token.XOR:
			return ^v, nil
		}
	case *ast.BinaryExpr:
		a, err := evalConst(e.X, iota)
		if err != nil {
			return 0, err
		}
		b, err := evalConst(e.Y, iota)
		if err != nil {
			return 0, err
		}
		switch e.Op {
		case token.ADD:
			return a + b, nil
		case token.SUB:
			return a - b, nil
		case token.MUL:
			return a * b, nil
		case token.QUO:
			if b == 0 {
				return 0, fmt.Errorf("division by zero")
			}
			return a / b, nil
		case token.REM:
			if b == 0 {
				return 0, fmt.Errorf("division by zero")
			}
			return a % b, nil
		case token.SHL:
			return a << uint(b), nil
		case token.SHR:
			return a >> uint(b), nil
		case token.AND:
			return a & b, nil
		case token.OR:
			return a | b, nil
		}
	case *ast.CallExpr: // conversion T(x)
		if len(e.Args) == 1 {
			return evalConst(e.Args[0], iota)
		}
	}
	return 0, fmt.Errorf("cannot evaluate constant expression %s", src(e))
}

func findFunc(file, name string) (*ast.FuncDecl, error) {
	f, err := loadFile(file)
	if err != nil {
		return nil, err
	}
	recv := ""
	fn := name
	if strings.HasPrefix(name, "(") {
		i := strings.Index(name, ").")
		recv = name[1:i]
		fn = name[i+2:]
	}
	for _, d := range f.Decls {
		fd, ok := d.(*ast.FuncDecl)
		if !ok || fd.Name.Name != fn {
			continue
		}
		r := ""
		if fd.Recv != nil && len(fd.Recv.List) == 1 {
			r = src(fd.Recv.List[0].Type)
		}
		if r == recv {
			return fd, nil
		}
	}
	return nil, fmt.Errorf("function %s not found in %s", name, file)
}

// ---------------------------------------------------------------------------------------------
// the mini translator

type env struct {
	cur map[string]string // Go name/expr -> current Lean name
	typ map[string]string // Go name/expr -> type
	ver map[string]int
}

func (e *env) clone() *env {
	n := &env{cur: map[string]string{}, typ: map[string]string{}, ver: e.ver}
	for k, v := range e.cur {
		n.cur[k] = v
	}
	for k, v := range e.typ {
		n.typ[k] = v
	}
	return n
}

// isVerifHook: an expression statement calling one of the instrumentation hooks (verifEvt…, verifBP, …), whose
// implementations without the build tag `verif` are empty functions (verif_hooks_off.go).
func isVerifHook(s ast.Stmt) bool {
	es, ok := s.(*ast.ExprStmt)
	if !ok {
		return false
	}
	call, ok := es.X.(*ast.CallExpr)
	if !ok {
		return false
	}
	id, ok := call.Fun.(*ast.Ident)
	return ok && strings.HasPrefix(id.Name, "verifEvt")
}

// checkHooksOff: the translator skips hook call statements, which is sound only if the hook functions compiled
// without the build tag do nothing: every verifEvt… function of verif_hooks_off.go must have an empty body.
func checkHooksOff() error {
	path := repo + "/verif_hooks_off.go"
	if _, err := os.Stat(path); err != nil {
		return nil // no hooks in this tree
	}
	f, err := parser.ParseFile(token.NewFileSet(), path, nil, 0)
	if err != nil {
		return err
	}
	for _, d := range f.Decls {
		fd, ok := d.(*ast.FuncDecl)
		if !ok || !strings.HasPrefix(fd.Name.Name, "verifEvt") {
			continue
		}
		if fd.Body == nil || len(fd.Body.List) != 0 {
			return fmt.Errorf("%s in verif_hooks_off.go is not an empty function", fd.Name.Name)
		}
	}
	return nil
}

type trans struct {
	spec   *FunSpec
	ignore map[string]bool
	calls  map[string]map[string]string
	err    error
}

func (t *trans) fail(format string, a ...interface{}) string {
	if t.err == nil {
		t.err = fmt.Errorf(format, a...)
	}
	return "sorry"
}

func width(ty string) string {
	switch ty {
	case "int32":
		return "32"
	case "int64", "int":
		return "64"
	}
	return ""
}

func leanType(ty string) string {
	if ty == "bool" {
		return "Bool"
	}
	return "Int"
}

func zero(ty string) string {
	if ty == "bool" {
		return "false"
	}
	return "0"
}

// expr translates an expression; want is the type expected by the context ("" if unknown) - used for
// untyped constants.
func (t *trans) expr(x ast.Expr, e *env, want string) (string, string) {
	s := src(x)
	if ln, ok := e.cur[s]; ok {
		return ln, e.typ[s]
	}
	switch x := x.(type) {
	case *ast.ParenExpr:
		return t.expr(x.X, e, want)
	case *ast.BasicLit:
		v, err := evalConst(x, 0)
		if err != nil {
			return t.fail("literal %s: %v", s, err), want
		}
		return lit(v), "untyped"
	case *ast.Ident:
		if x.Name == "true" || x.Name == "false" {
			return x.Name, "bool"
		}
		if _, ok := consts[x.Name]; ok {
			v, err := evalConst(x, 0)
			if err != nil {
				return t.fail("constant %s: %v", s, err), want
			}
			return lit(v), "untyped"
		}
		return t.fail("identifier %s is neither a declared variable nor a constant", s), want
	case *ast.SelectorExpr:
		if v, ok := stdConsts[s]; ok {
			return lit(v), "untyped"
		}
		return t.fail("selector %s is not declared in vars", s), want
	case *ast.UnaryExpr:
		if x.Op == token.NOT {
			return "(decide " + t.prop(x, e) + ")", "bool"
		}
		a, ty := t.expr(x.X, e, want)
		switch x.Op {
		case token.SUB:
			if ty == "untyped" {
				return "(-" + a + ")", "untyped"
			}
			if w := width(ty); w != "" {
				return "(Go.neg" + w + " " + a + ")", ty
			}
		case token.ADD:
			return a, ty
		}
		return t.fail("unary %s on %s", x.Op, ty), ty
	case *ast.BinaryExpr:
		switch x.Op {
		case token.LAND, token.LOR, token.EQL, token.NEQ, token.LSS, token.LEQ, token.GTR, token.GEQ:
			return "(decide " + t.prop(x, e) + ")", "bool"
		}
		a, ta := t.expr(x.X, e, want)
		b, tb := t.expr(x.Y, e, want)
		ty := ta
		if ta == "untyped" {
			ty = tb
		}
		if ta != tb && ta != "untyped" && tb != "untyped" {
			return t.fail("operand types differ in %s: %s vs %s", s, ta, tb), ty
		}
		if ty == "untyped" { // constant folding is the compiler's job; keep exact integers
			op := map[token.Token]string{token.ADD: "+", token.SUB: "-", token.MUL: "*"}[x.Op]
			if op != "" {
				return "(" + a + " " + op + " " + b + ")", "untyped"
			}
			return t.fail("untyped operator %s", x.Op), ty
		}
		w := width(ty)
		if w == "" {
			return t.fail("arithmetic on type %s in %s", ty, s), ty
		}
		fn := map[token.Token]string{token.ADD: "add", token.SUB: "sub", token.MUL: "mul", token.QUO: "div", token.REM: "rem", token.AND: "and"}[x.Op]
		if fn == "" || (fn == "and" && w != "32") {
			return t.fail("operator %s on %s not supported", x.Op, ty), ty
		}
		return "(Go." + fn + w + " " + a + " " + b + ")", ty
	case *ast.CallExpr:
		if id, ok := x.Fun.(*ast.Ident); ok && len(x.Args) == 1 {
			switch id.Name {
			case "int32", "int64", "int":
				a, ta := t.expr(x.Args[0], e, id.Name)
				if ta == "untyped" {
					return a, id.Name
				}
				if width(ta) == "" {
					return t.fail("conversion %s from %s", s, ta), id.Name
				}
				if width(id.Name) == "32" {
					return "(Go.toI32 " + a + ")", id.Name
				}
				if width(ta) == "32" || ta == id.Name || width(ta) == width(id.Name) {
					return a, id.Name // widening or same width: value preserved
				}
				return "(Go.toI64 " + a + ")", id.Name
			}
		}
		return t.fail("call %s is not declared in vars", s), want
	}
	return t.fail("expression %s (%T) not supported", s, x), want
}

// prop translates a boolean expression into a Lean proposition (used for `if` conditions).
func (t *trans) prop(x ast.Expr, e *env) string {
	s := src(x)
	if ln, ok := e.cur[s]; ok {
		return "(" + ln + " = true)"
	}
	switch x := x.(type) {
	case *ast.ParenExpr:
		return t.prop(x.X, e)
	case *ast.UnaryExpr:
		if x.Op == token.NOT {
			return "(¬ " + t.prop(x.X, e) + ")"
		}
	case *ast.BinaryExpr:
		switch x.Op {
		case token.LAND:
			return "(" + t.prop(x.X, e) + " ∧ " + t.prop(x.Y, e) + ")"
		case token.LOR:
			return "(" + t.prop(x.X, e) + " ∨ " + t.prop(x.Y, e) + ")"
		case token.EQL, token.NEQ, token.LSS, token.LEQ, token.GTR, token.GEQ:
			a, ta := t.expr(x.X, e, "")
			b, tb := t.expr(x.Y, e, "")
			if ta != tb && ta != "untyped" && tb != "untyped" {
				return t.fail("operand types differ in %s: %s vs %s", s, ta, tb)
			}
			op := map[token.Token]string{token.EQL: "=", token.NEQ: "≠", token.LSS: "<", token.LEQ: "≤", token.GTR: ">", token.GEQ: "≥"}[x.Op]
			return "(" + a + " " + op + " " + b + ")"
		}
	}
	a, ty := t.expr(x, e, "bool")
	if ty != "bool" {
		return t.fail("condition %s is not boolean", s)
	}
	return "(" + a + " = true)"
}

func lit(v int64) string {
	if v < 0 {
		return "(" + strconv.FormatInt(v, 10) + ")"
	}
	return strconv.FormatInt(v, 10)
}

func (t *trans) leaf(e *env, rets []ast.Expr) string { return t.leafCode(e, rets, 3) }

// leafCode builds the result tuple; code is the exit code used with the exitcode option
// (0 fell off the end, 1 continue, 2 break, 3 return)
func (t *trans) leafCode(e *env, rets []ast.Expr, code int) string {
	var parts []string
	if t.spec.ExitCode {
		parts = append(parts, strconv.Itoa(code))
		if code != 3 {
			// not a return: the return slots are filled with zero values
			for _, r := range t.spec.Returns {
				parts = append(parts, zero(r))
			}
			for _, o := range t.spec.Out {
				ln, ok := e.cur[o]
				if !ok {
					return t.fail("out variable %s unknown", o)
				}
				parts = append(parts, ln)
			}
			if len(parts) == 1 {
				return parts[0]
			}
			return "(" + strings.Join(parts, ", ") + ")"
		}
	}
	if len(t.spec.Returns) > 0 {
		if len(rets) != len(t.spec.Returns) {
			return t.fail("return with %d values, spec expects %d", len(rets), len(t.spec.Returns))
		}
		for i, r := range rets {
			a, ty := t.expr(r, e, t.spec.Returns[i])
			if ty != "untyped" && ty != t.spec.Returns[i] && !(t.spec.Returns[i] == "val") {
				return t.fail("return value %d has type %s, spec says %s", i, ty, t.spec.Returns[i])
			}
			parts = append(parts, a)
		}
	}
	for _, o := range t.spec.Out {
		ln, ok := e.cur[o]
		if !ok {
			return t.fail("out variable %s unknown", o)
		}
		parts = append(parts, ln)
	}
	if len(parts) == 0 {
		return "()"
	}
	if len(parts) == 1 {
		return parts[0]
	}
	return "(" + strings.Join(parts, ", ") + ")"
}

func (t *trans) assign(lhs ast.Expr, rhs string, ty string, e *env, define bool) (*env, string) {
	key := src(lhs)
	base := key
	if ln, ok := e.cur[key]; ok {
		base = strings.Split(ln, "_v")[0]
		if e.typ[key] != ty && ty != "untyped" && e.typ[key] != "val" {
			t.fail("assignment to %s of type %s with a %s", key, e.typ[key], ty)
		}
		ty = e.typ[key]
	} else {
		if !define {
			t.fail("assignment to undeclared %s (add it to vars)", key)
		}
		if _, isId := lhs.(*ast.Ident); !isId {
			t.fail("define of non-identifier %s", key)
		}
		if ty == "untyped" {
			ty = "int"
		}
	}
	e.ver[base]++
	ln := fmt.Sprintf("%s_v%d", base, e.ver[base])
	n := e.clone()
	n.cur[key] = ln
	n.typ[key] = ty
	return n, "let " + ln + " : " + leanType(ty) + " := " + rhs + "\n"
}

func (t *trans) stmts(list []ast.Stmt, e *env, k func(*env) string) string {
	if t.err != nil {
		return "sorry"
	}
	if len(list) == 0 {
		return k(e)
	}
	s, rest := list[0], list[1:]
	cont := func(e2 *env) string { return t.stmts(rest, e2, k) }
	if t.ignore[src(s)] || strings.HasPrefix(src(s), "Logger.Print") || isVerifHook(s) {
		return cont(e) // explicitly ignored statements, log output, and the verif hooks (no-ops without the build tag)
	}
	if asg, ok := t.calls[src(s)]; ok {
		cur := e
		out := ""
		keys := make([]string, 0, len(asg))
		for k := range asg {
			keys = append(keys, k)
		}
		sort.Strings(keys)
		for _, k := range keys {
			v := asg[k]
			i := strings.Index(v, ":")
			lhs, err := parser.ParseExpr(k)
			if err != nil {
				return t.fail("calls: %v", err)
			}
			var let string
			cur, let = t.assign(lhs, v[:i], v[i+1:], cur, true)
			out += let
		}
		return out + cont(cur)
	}
	switch s := s.(type) {
	case *ast.BlockStmt:
		return t.stmts(append(append([]ast.Stmt{}, s.List...), rest...), e, k)
	case *ast.AssignStmt:
		if len(s.Lhs) != 1 || len(s.Rhs) != 1 {
			return t.fail("multi-assignment %s", src(s))
		}
		var rhs, ty string
		want := e.typ[src(s.Lhs[0])]
		switch s.Tok {
		case token.ASSIGN, token.DEFINE:
			rhs, ty = t.expr(s.Rhs[0], e, want)
		case token.ADD_ASSIGN, token.SUB_ASSIGN, token.MUL_ASSIGN:
			op := map[token.Token]token.Token{token.ADD_ASSIGN: token.ADD, token.SUB_ASSIGN: token.SUB, token.MUL_ASSIGN: token.MUL}[s.Tok]
			rhs, ty = t.expr(&ast.BinaryExpr{X: s.Lhs[0], Op: op, Y: s.Rhs[0]}, e, want)
		default:
			return t.fail("assignment operator %s", s.Tok)
		}
		n, let := t.assign(s.Lhs[0], rhs, ty, e, s.Tok == token.DEFINE)
		return let + cont(n)
	case *ast.IncDecStmt:
		op := token.ADD
		if s.Tok == token.DEC {
			op = token.SUB
		}
		rhs, ty := t.expr(&ast.BinaryExpr{X: s.X, Op: op, Y: &ast.BasicLit{Kind: token.INT, Value: "1"}}, e, e.typ[src(s.X)])
		n, let := t.assign(s.X, rhs, ty, e, false)
		return let + cont(n)
	case *ast.DeclStmt:
		gd, ok := s.Decl.(*ast.GenDecl)
		if !ok || gd.Tok != token.VAR {
			return t.fail("declaration %s", src(s))
		}
		cur := e
		out := ""
		for _, sp := range gd.Specs {
			vs := sp.(*ast.ValueSpec)
			for i, nm := range vs.Names {
				ty := ""
				if vs.Type != nil {
					ty = src(vs.Type)
				}
				var rhs string
				if i < len(vs.Values) {
					var t2 string
					rhs, t2 = t.expr(vs.Values[i], cur, ty)
					if ty == "" {
						ty = t2
					}
				} else {
					if ty != "bool" && width(ty) == "" {
						return t.fail("var %s of type %s", nm.Name, ty)
					}
					rhs = zero(ty)
				}
				var let string
				cur, let = t.assign(nm, rhs, ty, cur, true)
				out += let
			}
		}
		return out + cont(cur)
	case *ast.IfStmt:
		cur := e
		pre := ""
		if s.Init != nil {
			// `if x := e; cond {…}`: translate the init statement first (its scope leaks, which is harmless here
			// because every Go variable gets a fresh versioned Lean name)
			inner := &ast.IfStmt{Cond: s.Cond, Body: s.Body, Else: s.Else}
			return t.stmts(append([]ast.Stmt{s.Init, inner}, rest...), e, k)
		}
		c := t.prop(s.Cond, cur)
		var els []ast.Stmt
		if s.Else != nil {
			els = []ast.Stmt{s.Else}
		}
		return pre + "if " + c + " then\n" + indent(t.stmts(s.Body.List, cur, cont)) + "\nelse\n" + indent(t.stmts(els, cur, cont))
	case *ast.SwitchStmt:
		if s.Init != nil {
			return t.fail("switch with init")
		}
		// rewrite into an if chain
		var chain ast.Stmt
		var def []ast.Stmt
		type clause struct {
			cond ast.Expr
			body []ast.Stmt
		}
		var cls []clause
		for _, c := range s.Body.List {
			cc := c.(*ast.CaseClause)
			for bi, b := range cc.Body {
				if br, ok := b.(*ast.BranchStmt); ok {
					if br.Tok == token.FALLTHROUGH && bi == len(cc.Body)-1 {
						continue
					}
					if t.spec.ExitCode && br.Tok == token.CONTINUE {
						continue
					}
					return t.fail("branch statement %s in switch", br.Tok)
				}
			}
			if cc.List == nil {
				def = cc.Body
				continue
			}
			var cond ast.Expr
			for _, l := range cc.List {
				var one ast.Expr = l
				if s.Tag != nil {
					one = &ast.BinaryExpr{X: s.Tag, Op: token.EQL, Y: l}
				}
				if cond == nil {
					cond = one
				} else {
					cond = &ast.BinaryExpr{X: cond, Op: token.LOR, Y: one}
				}
			}
			cls = append(cls, clause{cond, cc.Body})
		}
		// fallthrough: a clause ending in `fallthrough` continues with the body of the next clause
		for i := len(cls) - 1; i >= 0; i-- {
			b := cls[i].body
			if n := len(b); n > 0 {
				if br, ok := b[n-1].(*ast.BranchStmt); ok && br.Tok == token.FALLTHROUGH {
					next := def
					if i+1 < len(cls) {
						next = cls[i+1].body
					}
					cls[i].body = append(append([]ast.Stmt{}, b[:n-1]...), next...)
				}
			}
		}
		var tail ast.Stmt = &ast.BlockStmt{List: def}
		for i := len(cls) - 1; i >= 0; i-- {
			tail = &ast.IfStmt{Cond: cls[i].cond, Body: &ast.BlockStmt{List: cls[i].body}, Else: tail}
		}
		chain = tail
		return t.stmts(append([]ast.Stmt{chain}, rest...), e, k)
	case *ast.ReturnStmt:
		return t.leaf(e, s.Results)
	case *ast.BranchStmt:
		if t.spec.ExitCode && s.Label == nil {
			switch s.Tok {
			case token.CONTINUE:
				return t.leafCode(e, nil, 1)
			case token.BREAK:
				return t.leafCode(e, nil, 2)
			}
		}
		return t.fail("branch statement %s (use the exitcode option for loop bodies)", src(s))
	case *ast.ExprStmt, *ast.DeferStmt:
		return t.fail("statement %q is not in the ignore list", src(s))
	}
	return t.fail("statement %s (%T) not supported", src(s), s)
}

func indent(s string) string {
	lines := strings.Split(s, "\n")
	for i := range lines {
		lines[i] = "  " + lines[i]
	}
	return strings.Join(lines, "\n")
}

// findFrom locates the statement list starting at the first statement whose source starts with prefix.
func findFrom(list []ast.Stmt, prefix string) []ast.Stmt {
	for i, s := range list {
		if strings.HasPrefix(src(s), prefix) {
			return list[i:]
		}
		var inner [][]ast.Stmt
		switch s := s.(type) {
		case *ast.BlockStmt:
			inner = append(inner, s.List)
		case *ast.IfStmt:
			inner = append(inner, s.Body.List)
			if s.Else != nil {
				inner = append(inner, []ast.Stmt{s.Else})
			}
		case *ast.ForStmt:
			inner = append(inner, s.Body.List)
		case *ast.RangeStmt:
			inner = append(inner, s.Body.List)
		case *ast.SwitchStmt:
			for _, c := range s.Body.List {
				inner = append(inner, c.(*ast.CaseClause).Body)
			}
		case *ast.SelectStmt:
			for _, c := range s.Body.List {
				inner = append(inner, c.(*ast.CommClause).Body)
			}
		case *ast.TypeSwitchStmt:
			for _, c := range s.Body.List {
				inner = append(inner, c.(*ast.CaseClause).Body)
			}
		case *ast.LabeledStmt:
			inner = append(inner, []ast.Stmt{s.Stmt})
		}
		// function literals anywhere inside the statement (closures passed to calls, go/defer func(){…}())
		if len(inner) == 0 {
			ast.Inspect(s, func(n ast.Node) bool {
				if fl, ok := n.(*ast.FuncLit); ok {
					inner = append(inner, fl.Body.List)
					return false
				}
				return true
			})
		}
		for _, in := range inner {
			if r := findFrom(in, prefix); r != nil {
				return r
			}
		}
	}
	return nil
}

func translateFun(fs *FunSpec) (string, error) {
	fd, err := findFunc(fs.File, fs.Func)
	if err != nil {
		return "", err
	}
	if fd.Body == nil {
		return "", fmt.Errorf("no body")
	}
	list := fd.Body.List
	if fs.From != "" {
		list = findFrom(list, fs.From)
		if list == nil {
			return "", fmt.Errorf("no statement starting with %q in %s", fs.From, fs.Func)
		}
		if fs.Only {
			list = list[:1]
		}
	}
	t := &trans{spec: fs, ignore: map[string]bool{}, calls: map[string]map[string]string{}}
	for k, v := range fs.Calls {
		t.calls[strings.Join(strings.Fields(k), " ")] = v
	}
	for _, i := range fs.Ignore {
		t.ignore[strings.Join(strings.Fields(i), " ")] = true
	}
	e := &env{cur: map[string]string{}, typ: map[string]string{}, ver: map[string]int{}}
	type param struct{ name, ty string }
	var params []param
	keys := make([]string, 0, len(fs.Vars))
	for k := range fs.Vars {
		keys = append(keys, k)
	}
	sort.Strings(keys)
	for _, k := range keys {
		v := fs.Vars[k]
		i := strings.Index(v, ":")
		if i < 0 {
			return "", fmt.Errorf("vars entry %q must be name:type", v)
		}
		nk := strings.Join(strings.Fields(k), " ")
		e.cur[nk] = v[:i]
		e.typ[nk] = v[i+1:]
		dup := false
		for _, p := range params {
			if p.name == v[:i] {
				dup = true
			}
		}
		if !dup {
			params = append(params, param{v[:i], v[i+1:]})
		}
	}
	for _, asg := range fs.Calls {
		for _, v := range asg {
			i := strings.Index(v, ":")
			if i < 0 {
				return "", fmt.Errorf("calls entry %q must be name:type", v)
			}
			params = append(params, param{v[:i], v[i+1:]})
		}
	}
	if len(fs.Params) > 0 {
		var ord []param
		for _, n := range fs.Params {
			found := false
			for _, p := range params {
				if p.name == n {
					ord = append(ord, p)
					found = true
				}
			}
			if !found {
				return "", fmt.Errorf("params names unknown variable %s", n)
			}
		}
		if len(ord) != len(params) {
			return "", fmt.Errorf("params must list every variable exactly once")
		}
		params = ord
	} else {
		sort.Slice(params, func(i, j int) bool { return params[i].name < params[j].name })
	}
	body := t.stmts(list, e, func(e2 *env) string {
		if fs.ExitCode {
			return t.leafCode(e2, nil, 0)
		}
		return t.leaf(e2, nil)
	})
	if t.err != nil {
		return "", t.err
	}
	var rt []string
	if fs.ExitCode {
		rt = append(rt, "Int")
	}
	for _, r := range fs.Returns {
		rt = append(rt, leanType(r))
	}
	for _, o := range fs.Out {
		ty, ok := e.typ[o]
		if !ok {
			return "", fmt.Errorf("out variable %s not in vars", o)
		}
		rt = append(rt, leanType(ty))
	}
	if len(rt) == 0 {
		rt = []string{"Unit"}
	}
	var ps []string
	for _, p := range params {
		ps = append(ps, fmt.Sprintf("(%s : %s)", p.name, leanType(p.ty)))
	}
	hdr := fmt.Sprintf("/-- generated from %s %s", fs.File, fs.Func)
	if fs.From != "" {
		hdr += fmt.Sprintf(" (fragment starting at `%s`)", fs.From)
	}
	hdr += " -/\n"
	return hdr + "def " + fs.Lean + " " + strings.Join(ps, " ") + " : " + strings.Join(rt, " × ") + " :=\n" + indent(body) + "\n", nil
}

// ---------------------------------------------------------------------------------------------

func findSwitch(n ast.Node, tag string, nth int) *ast.SwitchStmt {
	var found *ast.SwitchStmt
	cnt := 0
	ast.Inspect(n, func(x ast.Node) bool {
		if found != nil {
			return false
		}
		if sw, ok := x.(*ast.SwitchStmt); ok {
			tg := ""
			if sw.Tag != nil {
				tg = src(sw.Tag)
			}
			if tg == tag {
				if cnt == nth {
					found = sw
					return false
				}
				cnt++
			}
		}
		return true
	})
	return found
}

func extractCases(cs *CaseSpec) (string, error) {
	fd, err := findFunc(cs.File, cs.Func)
	if err != nil {
		return "", err
	}
	sw := findSwitch(fd.Body, cs.Switch, cs.Nth)
	if sw == nil {
		return "", fmt.Errorf("no switch on %q (#%d) in %s", cs.Switch, cs.Nth, cs.Func)
	}
	var rows []string
	for _, c := range sw.Body.List {
		cc := c.(*ast.CaseClause)
		if cc.List == nil {
			continue // default
		}
		var vals []string
		for _, l := range cc.List {
			v, err := evalConst(l, 0)
			if err != nil {
				return "", fmt.Errorf("case label %s: %v", src(l), err)
			}
			vals = append(vals, lit(v))
		}
		rows = append(rows, "["+strings.Join(vals, ", ")+"]")
	}
	return fmt.Sprintf("/-- case labels of `switch %s` in %s %s, one list per clause in source order (default omitted) -/\ndef %s : List (List Int) :=\n  [%s]\n",
		cs.Switch, cs.File, cs.Func, cs.Lean, strings.Join(rows, ",\n   ")), nil
}

func main() {
	specPath := flag.String("spec", "", "spec json")
	prop := flag.String("prop", "", "property id (namespace Gen.<prop>)")
	flag.StringVar(&repo, "repo", "/repo", "repository root")
	flag.Parse()
	b, err := os.ReadFile(*specPath)
	if err != nil {
		fmt.Println("EXTRACT-ERROR spec:", err)
		os.Exit(1)
	}
	var spec Spec
	if err := json.Unmarshal(b, &spec); err != nil {
		fmt.Println("EXTRACT-ERROR spec:", err)
		os.Exit(1)
	}
	loadAllConsts()
	if err := checkHooksOff(); err != nil {
		fmt.Println("EXTRACT-ERROR hooks:", err)
	}
	var out strings.Builder
	out.WriteString("import SaramaVerif.GoSem\n/-! REGENERATED on every check run from /repo by /verif/tools/extract (spec: tools/extract/specs/" + *prop + ".json). Do not edit. -/\nset_option linter.unusedVariables false\nnamespace Gen." + *prop + "\n\n")
	for i := range spec.Consts {
		c := &spec.Consts[i]
		id := &ast.Ident{Name: c.Name}
		v, err := evalConst(id, 0)
		if err != nil {
			fmt.Printf("EXTRACT-ERROR const %s: %v\n", c.Name, err)
			out.WriteString("-- const " + c.Lean + ": NOT EXTRACTED: " + err.Error() + "\n\n")
			continue
		}
		out.WriteString(fmt.Sprintf("/-- constant %s -/\ndef %s : Int := %s\n\n", c.Name, c.Lean, lit(v)))
	}
	for i := range spec.Cases {
		s, err := extractCases(&spec.Cases[i])
		if err != nil {
			fmt.Printf("EXTRACT-ERROR cases %s: %v\n", spec.Cases[i].Lean, err)
			out.WriteString("-- cases " + spec.Cases[i].Lean + ": NOT EXTRACTED: " + err.Error() + "\n\n")
			continue
		}
		out.WriteString(s + "\n")
	}
	for i := range spec.Funs {
		s, err := translateFun(&spec.Funs[i])
		if err != nil {
			fmt.Printf("EXTRACT-ERROR fun %s: %v\n", spec.Funs[i].Lean, err)
			out.WriteString("-- fun " + spec.Funs[i].Lean + ": NOT TRANSLATED: " + strings.ReplaceAll(err.Error(), "\n", " ") + "\n\n")
			continue
		}
		out.WriteString(s + "\n")
	}
	out.WriteString("end Gen." + *prop + "\n")
	fmt.Print("-----BEGIN LEAN-----\n" + out.String() + "-----END LEAN-----\n")
}
