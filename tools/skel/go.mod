module verif/skel

go 1.13
